(* ScaleLayout5.v — C17 for the whole Layout, part 5: one connected component through [layout_component_x], and the fold
   over the components with the running shift.

   Phases 1-3 commute with the size-replacing map [rz] (ScaleLayout*.v), so on the two inputs — the component with the
   sizes [phi] and with the scaled sizes [phi'] — they return the SAME discrete result, carrying [phi] resp. [phi']:
   two graphs related by [Scale.graph_rel c]. From there on the scale-equivariance theorems of Proofs/Scale.v and
   Proofs/BKProofs.v apply (phase 4 with any positioner but the network-simplex one, phase 5), and the restoration of
   self loops and reversed edges, the collection of the output and the shift between components preserve the relation. *)
From Autog Require Import Base Graph Populate Phase1 Phase2 Phase3 Phase4 Phase5 Layout Wmedian Pipeline BK PipelineBK PipelineNoop.
From Autog.Proofs Require Import Scale BKProofs E2EBridge E2EBackbone.
From Autog.Proofs Require Import ScaleLayout ScaleLayout2 ScaleLayout3 ScaleLayout4.
From Coq Require Import Lia Lqa.
Local Open Scope Q_scope.

(* ====================================================================================================== *)
(** * Two size tables related by the factor c                                                              *)
(* ====================================================================================================== *)
Definition size_rel (c : Q) (phi phi' : nat -> Q * Q) : Prop :=
  forall i, fst (phi' i) == c * fst (phi i) /\ snd (phi' i) == c * snd (phi i).

Lemma rz_na_rel c phi phi' : size_rel c phi phi' ->
  forall na k, Forall2 (node_rel c) (rz_na phi k na) (rz_na phi' k na).
Proof.
  intros HS. induction na as [|n t IH]; intros k; cbn [rz_na]; constructor; [|apply IH].
  destruct (HS k) as [Hw Hh].
  constructor; cbn [rnode n_in n_out n_layer n_pos n_virt n_x n_y n_w n_h]; try reflexivity; try ring.
  - destruct (n_virt n); [ring|exact Hw].
  - destruct (n_virt n); [ring|exact Hh].
Qed.

Theorem rz_rel c phi phi' g : size_rel c phi phi' -> graph_rel c (rz phi g) (rz phi' g).
Proof.
  intros HS. constructor; cbn [rz g_na g_ea g_N g_E g_L]; try reflexivity.
  - apply rz_na_rel, HS.
  - apply Forall2_map2 with (R := eq); [apply Forall2_refl_In; reflexivity|].
    intros e e' <-. constructor; cbn; try reflexivity. constructor.
  - apply Forall2_map2 with (R := eq); [apply Forall2_refl_In; reflexivity|].
    intros l l' <-. constructor; cbn; try reflexivity; ring.
Qed.

(* ====================================================================================================== *)
(** * Phase 4 (any positioner but NsPositioner) and phase 5                                                *)
(* ====================================================================================================== *)
Theorem phase4x_rel c bk alg p p' g g' :
  0 < c -> alg <> NsPositioner -> graph_rel c g g' ->
  node_spacing p' == c * node_spacing p -> layer_spacing p' == c * layer_spacing p ->
  res_rel (graph_rel c) (phase4x bk alg p g) (phase4x bk alg p' g').
Proof.
  intros Hc Halg H Hns Hls. destruct alg; cbn [phase4x];
    try (apply phase4_rel; assumption).
  apply phase4_bk_rel; assumption.
Qed.

(** [Scale.phase5_rel], asking for [routes_not_flat] only when phase 5 does not take its single-node short cut *)
Theorem phase5_rel' c alg ls ls' g g' :
  0 < c -> graph_rel c g g' -> ls' == c * ls ->
  (needs_no_flat alg = true -> Nat.eqb (length (g_N g)) 1 = false -> routes_not_flat g) ->
  res_rel (graph_rel c) (phase5 alg ls g) (phase5 alg ls' g').
Proof.
  intros Hc H Hls Hnf. destruct (Nat.eqb (length (g_N g)) 1) eqn:E1.
  - unfold phase5. rewrite (gr_N H), E1. exact H.
  - apply phase5_rel; auto.
Qed.

(* ====================================================================================================== *)
(** * post_process                                                                                         *)
(* ====================================================================================================== *)
Lemma set_rev_rel c e e' b : edge_rel c e e' -> edge_rel c (set_rev b e) (set_rev b e').
Proof. intros []. constructor; cbn; auto. Qed.

Lemma reverse_edge_rel c g g' e : graph_rel c g g' -> graph_rel c (reverse_edge g e) (reverse_edge g' e).
Proof.
  intros H. unfold reverse_edge.
  rewrite (er_from (gedge_rel e H)), (er_to (gedge_rel e H)).
  apply upd_edge_rel.
  - repeat (apply upd_node_rel; [|intros n n' Hn; rewrite ?(nr_in Hn), ?(nr_out Hn);
                                   first [apply set_in_rel|apply set_out_rel]; exact Hn]).
    exact H.
  - intros ed ed' He. rewrite (er_rev He). apply set_rev_rel, set_ends_rel, He.
Qed.

Lemma unreverse_edges_rel c g g' : graph_rel c g g' -> graph_rel c (unreverse_edges g) (unreverse_edges g').
Proof.
  intros H. unfold unreverse_edges. rewrite (gr_E H). apply fold_left_rel; [|exact H].
  intros a a' e Ha. rewrite (er_rev (gedge_rel e Ha)). destruct (e_rev (gedge a e)); [apply reverse_edge_rel|]; exact Ha.
Qed.

Lemma restore_self_loop_rel c g g' e : graph_rel c g g' -> graph_rel c (restore_self_loop g e) (restore_self_loop g' e).
Proof.
  intros H. unfold restore_self_loop.
  rewrite (er_from (gedge_rel e H)), (er_to (gedge_rel e H)).
  assert (H2 : graph_rel c
    (upd_node (upd_node g (e_from (gedge g e)) (fun n => set_out (el_add e (n_out n)) n)) (e_to (gedge g e))
              (fun n => set_in (el_add e (n_in n)) n))
    (upd_node (upd_node g' (e_from (gedge g e)) (fun n => set_out (el_add e (n_out n)) n)) (e_to (gedge g e))
              (fun n => set_in (el_add e (n_in n)) n))).
  { repeat (apply upd_node_rel; [|intros n n' Hn; rewrite ?(nr_in Hn), ?(nr_out Hn);
                                   first [apply set_in_rel|apply set_out_rel]; exact Hn]).
    exact H. }
  pose proof (with_E_rel c _ _ (el_add e (g_E g)) H2) as H3.
  cbn [upd_node with_na g_E] in H3 |- *. rewrite (gr_E H). exact H3.
Qed.

Lemma post_process_rel c g g' del : graph_rel c g g' -> graph_rel c (post_process g del) (post_process g' del).
Proof.
  intros H. unfold post_process. apply unreverse_edges_rel. unfold restore_self_loops.
  apply fold_left_rel; [|exact H]. intros a a' e Ha. apply restore_self_loop_rel, Ha.
Qed.

(* ====================================================================================================== *)
(** * One component                                                                                        *)
(* ====================================================================================================== *)
Definition scale_options (c : Q) (o : options) : options :=
  mkOptions (o_p1 o) (o_p2 o) (o_p4 o) (o_p5 o) (o_thoroughness o) (o_factor o)
            (c * o_node_spacing o) (c * o_layer_spacing o) (o_virtual o).

Definition cres_rel (c : Q) (r r' : graph * option Z) : Prop := graph_rel c (fst r) (fst r') /\ snd r' = snd r.

Lemma phase4x_single_N bk alg p g g4 : length (g_N g) = 1%nat -> phase4x bk alg p g = Ok g4 -> g_N g4 = g_N g.
Proof.
  intros L1 H.
  assert (E : phase4x bk alg p g = phase4 alg p g).
  { destruct alg; try reflexivity. cbn [phase4x]. unfold phase4_bk. rewrite L1. reflexivity. }
  rewrite E in H. unfold phase4 in H. rewrite L1 in H. cbn [Nat.eqb] in H.
  destruct (g_N g) as [|n t] eqn:EN; injection H as <-; cbn [upd_layer with_L g_N]; auto.
Qed.

(** phases 4, 5 and the post-processing on two related states *)
Lemma tail_rel c bk o g3 g3' del (x : option Z) :
  0 < c -> o_p4 o <> NsPositioner -> graph_rel c g3 g3' ->
  (forall g4, needs_no_flat (o_p5 o) = true -> phase4x bk (o_p4 o) (p4_params o) g3 = Ok g4 ->
              Nat.eqb (length (g_N g4)) 1 = false -> routes_not_flat g4) ->
  res_rel (cres_rel c)
    (do g <- phase4x bk (o_p4 o) (p4_params o) g3; do g <- phase5 (o_p5 o) (o_layer_spacing o) g; Ok (post_process g del, x))
    (do g <- phase4x bk (o_p4 (scale_options c o)) (p4_params (scale_options c o)) g3';
     do g <- phase5 (o_p5 (scale_options c o)) (o_layer_spacing (scale_options c o)) g; Ok (post_process g del, x)).
Proof.
  intros Hc Hp4 H3 Hnf. cbn [scale_options o_p4 o_p5 o_layer_spacing].
  pose proof (phase4x_rel c bk (o_p4 o) (p4_params o) (p4_params (scale_options c o)) g3 g3' Hc Hp4 H3
                (Qeq_refl _) (Qeq_refl _)) as H4.
  destruct (phase4x bk (o_p4 o) (p4_params o) g3) as [g4|e4] eqn:P4,
           (phase4x bk (o_p4 o) (p4_params (scale_options c o)) g3') as [g4'|e4'];
    cbn in H4; try contradiction; cbn [bind]; [|exact H4].
  pose proof (phase5_rel' c (o_p5 o) (o_layer_spacing o) (c * o_layer_spacing o) g4 g4' Hc H4 (Qeq_refl _)
                (fun N E => Hnf g4 N eq_refl E)) as H5.
  destruct (phase5 (o_p5 o) (o_layer_spacing o) g4) as [g5|e5],
           (phase5 (o_p5 o) (c * o_layer_spacing o) g4') as [g5'|e5'];
    cbn in H5; try contradiction; cbn [bind]; [|exact H5].
  split; cbn [fst snd]; [apply post_process_rel, H5|reflexivity].
Qed.

(* ====================================================================================================== *)
(** * Collecting the output, the shift, the fold over the components                                       *)
(* ====================================================================================================== *)
Definition onode_rel (c : Q) (a a' : onode) : Prop :=
  on_id a' = on_id a /\ on_x a' == c * on_x a /\ on_y a' == c * on_y a /\ on_w a' == c * on_w a /\ on_h a' == c * on_h a.
Definition oedge_rel (c : Q) (e e' : oedge) : Prop :=
  oe_from e' = oe_from e /\ oe_to e' = oe_to e /\ oe_ahs e' = oe_ahs e /\ pts_rel c (oe_pts e) (oe_pts e').
Definition lres_rel (c : Q) (r r' : list onode * list oedge * list Z) : Prop :=
  Forall2 (onode_rel c) (fst (fst r)) (fst (fst r')) /\ Forall2 (oedge_rel c) (snd (fst r)) (snd (fst r')) /\ snd r' = snd r.

Lemma rightmost_rel c g g' : 0 <= c -> graph_rel c g g' -> rightmost g' == c * rightmost g.
Proof.
  intros Hc H. unfold rightmost.
  apply (fold_left_rel2 (fun m m' : Q => m' == c * m) (layer_rel c)); [apply (gr_L H)| |ring].
  intros m m' l l' Hm Hl. rewrite (lr_nodes Hl). destruct (last_opt (l_nodes l)) as [n|]; [|exact Hm].
  apply Qmax'_rel; auto. rewrite (nX_rel n H), (nW_rel n H). ring.
Qed.

Lemma collect_nodes_rel c v s s' g g' : graph_rel c g g' -> s' == c * s ->
  Forall2 (onode_rel c) (collect_nodes v s g) (collect_nodes v s' g').
Proof.
  intros H Hs. unfold collect_nodes. rewrite (gr_N H).
  induction (g_N g) as [|n t IH]; cbn [flat_map]; [constructor|].
  pose proof (gnode_rel n H) as Hn. rewrite (nr_virt Hn).
  destruct (n_virt (gnode g n) && negb v)%bool; cbn [app]; [exact IH|]. constructor; [|exact IH].
  unfold onode_rel; cbn [on_id on_x on_y on_w on_h]. repeat split.
  - rewrite (nr_x Hn), Hs. ring.
  - apply (nr_y Hn).
  - apply (nr_w Hn).
  - apply (nr_h Hn).
Qed.

Lemma collect_edges_rel c s s' g g' : graph_rel c g g' -> s' == c * s ->
  Forall2 (oedge_rel c) (collect_edges s g) (collect_edges s' g').
Proof.
  intros H Hs. unfold collect_edges. rewrite (gr_E H).
  induction (g_E g) as [|e t IH]; cbn [map]; constructor; [|exact IH].
  pose proof (gedge_rel e H) as He.
  unfold oedge_rel; cbn [oe_from oe_to oe_ahs oe_pts]. repeat split; try apply He.
  pose proof (er_pts He) as Hp. unfold pts_rel in *.
  induction Hp as [|p p' l l' Hpp Hl IHl]; cbn [map]; constructor; [|exact IHl].
  destruct Hpp as [H1 H2]. split; cbn [fst snd]; [rewrite H1, Hs; ring|exact H2].
Qed.

(** ** the pipeline of one component, over ANY ordering phase [p3] that commutes with [rz], leaves a single-node graph's
       node list alone and (on a component as the front end produces it) hands phase 4 a properly layered graph *)
Section Generic.
  Variable p3 : graph -> res (graph * option Z).
  Hypothesis p3_rz : forall phi g, p3 (rz phi g) = map_res' (rz2 phi) (p3 g).
  Hypothesis p3_single : forall g g3 x, length (g_N g) = 1%nat -> p3 g = Ok (g3, x) -> g_N g3 = g_N g.
  Hypothesis p3_not_flat : forall bk o g g0 del g1 g2 g3' x g4,
    component_input g -> ignore_self_loops g = (g0, del) ->
    phase1 (o_p1 o) g0 = Ok g1 -> phase2 (o_p2 o) (ns_params o) g1 = Ok g2 ->
    p3 g2 = Ok (g3', x) -> phase4x bk (o_p4 o) (p4_params o) g3' = Ok g4 -> routes_not_flat g4.

  Definition layout_component_g (bk : Z) (o : options) (g : graph) : res (graph * option Z) :=
    let '(g, del) := ignore_self_loops g in
    do g <- phase1 (o_p1 o) g;
    do g <- phase2 (o_p2 o) (ns_params o) g;
    do r <- p3 g;
    let '(g, x) := r in
    do g <- phase4x bk (o_p4 o) (p4_params o) g;
    do g <- phase5 (o_p5 o) (o_layer_spacing o) g;
    Ok (post_process g del, x).

  Fixpoint layout_components_g (bk : Z) (o : options) (cs : list graph) (shift : Q)
    : res (list onode * list oedge * list Z) :=
    match cs with
    | [] => Ok ([], [], [])
    | c :: rest =>
        do r <- layout_component_g bk o c;
        let '(g, x) := r in
        do r' <- layout_components_g bk o rest (shift + rightmost g + o_node_spacing o);
        let '(ns, es, xs) := r' in
        Ok (collect_nodes (o_virtual o) shift g ++ ns, collect_edges shift g ++ es,
            match x with Some v => v :: xs | None => xs end)
    end.

  Theorem layout_component_g_rel c bk o phi phi' g :
    0 < c -> o_p4 o <> NsPositioner -> size_rel c phi phi' ->
    (needs_no_flat (o_p5 o) = true -> length (g_N g) <> 1%nat -> component_input (rz phi g)) ->
    res_rel (cres_rel c) (layout_component_g bk o (rz phi g)) (layout_component_g bk (scale_options c o) (rz phi' g)).
  Proof.
    intros Hc Hp4 HS Hci. unfold layout_component_g.
    pose proof (ignore_self_loops_rz phi g) as E0. pose proof (ignore_self_loops_rz phi' g) as E0'.
    destruct (ignore_self_loops g) as [g0 del] eqn:EI. cbn [fst snd] in E0, E0'. rewrite E0, E0'.
    assert (N0 : g_N g0 = g_N g).
    { replace g0 with (fst (ignore_self_loops g)) by (rewrite EI; reflexivity). apply SelfLoopProofs.ignore_self_loops_N. }
    change (o_p1 (scale_options c o)) with (o_p1 o). change (o_p2 (scale_options c o)) with (o_p2 o).
    change (ns_params (scale_options c o)) with (ns_params o).
    pose proof (phase1_rz phi (o_p1 o) g0) as P1r. rewrite !phase1_rz.
    destruct (phase1 (o_p1 o) g0) as [g1|e1] eqn:P1; cbn [bind map_res'] in P1r |- *; [|reflexivity].
    pose proof (phase2_rz phi (o_p2 o) (ns_params o) g1) as P2r. rewrite !phase2_rz.
    destruct (phase2 (o_p2 o) (ns_params o) g1) as [g2|e2] eqn:P2; cbn [bind map_res'] in P2r |- *; [|reflexivity].
    pose proof (p3_rz phi g2) as P3r. rewrite !p3_rz.
    destruct (p3 g2) as [[g3 x]|e3] eqn:P3; cbn [bind map_res' rz2 fst snd] in P3r |- *; [|reflexivity].
    apply tail_rel; auto using rz_rel.
    intros g4 NF P4 N4.
    destruct (Nat.eq_dec (length (g_N g)) 1) as [L1|L1].
    - (* a single node: every phase takes its short cut, phase 5 too *)
      exfalso.
      assert (N1 : g_N g1 = g_N g).
      { unfold phase1 in P1. rewrite N0, L1 in P1. cbn [Nat.eqb] in P1. injection P1 as <-. exact N0. }
      assert (N2 : g_N g2 = g_N g).
      { unfold phase2, assign_layers in P2. rewrite N1, L1 in P2. cbn [Nat.eqb bind] in P2.
        destruct (slices_facts g1 g2 P2) as (_ & _ & -> & _). exact N1. }
      assert (N3 : g_N g3 = g_N g).
      { rewrite (p3_single g2 g3 x) by (rewrite ?N2; assumption). exact N2. }
      rewrite (phase4x_single_N bk (o_p4 o) (p4_params o) (rz phi g3) g4) in N4; [|rewrite g_N_rz, N3; exact L1|exact P4].
      rewrite g_N_rz, N3, L1 in N4. discriminate.
    - exact (p3_not_flat bk o (rz phi g) (rz phi g0) del (rz phi g1) (rz phi g2) (rz phi g3) x g4
               (Hci NF L1) E0 P1r P2r P3r P4).
  Qed.

  Theorem layout_components_g_rel c bk o phi phi' : 0 < c -> o_p4 o <> NsPositioner -> size_rel c phi phi' ->
    forall cs,
    (forall g, In g cs -> needs_no_flat (o_p5 o) = true -> length (g_N g) <> 1%nat -> component_input (rz phi g)) ->
    forall s s', s' == c * s ->
    res_rel (lres_rel c) (layout_components_g bk o (map (rz phi) cs) s)
                         (layout_components_g bk (scale_options c o) (map (rz phi') cs) s').
  Proof.
    intros Hc Hp4 HS. induction cs as [|g rest IH]; intros Hci s s' Hs; cbn [map layout_components_g].
    - repeat split; constructor.
    - pose proof (layout_component_g_rel c bk o phi phi' g Hc Hp4 HS (Hci g (or_introl eq_refl))) as H1.
      destruct (layout_component_g bk o (rz phi g)) as [[g5 x]|e1],
               (layout_component_g bk (scale_options c o) (rz phi' g)) as [[g5' x']|e1'];
        cbn in H1; try contradiction; cbn [bind]; [|exact H1].
      destruct H1 as [H5 Hx]; cbn [fst snd] in H5, Hx. subst x'.
      assert (Hs2 : s' + rightmost g5' + o_node_spacing (scale_options c o) == c * (s + rightmost g5 + o_node_spacing o)).
      { cbn [scale_options o_node_spacing]. rewrite (rightmost_rel c g5 g5') by (auto; lra). rewrite Hs. ring. }
      pose proof (IH (fun g0 Hg0 => Hci g0 (or_intror Hg0)) _ _ Hs2) as H2.
      destruct (layout_components_g bk o (map (rz phi) rest) _) as [[[ns es] xs]|e2],
               (layout_components_g bk (scale_options c o) (map (rz phi') rest) _) as [[[ns' es'] xs']|e2'];
        cbn in H2; try contradiction; cbn [bind]; [|exact H2].
      destruct H2 as (Hn & He & Hxs); cbn [fst snd] in Hn, He, Hxs. subst xs'.
      repeat split; cbn [fst snd scale_options o_virtual].
      + apply Forall2_app; [apply collect_nodes_rel; assumption|exact Hn].
      + apply Forall2_app; [apply collect_edges_rel; assumption|exact He].
  Qed.
End Generic.

(** ** the two instances: weighted-median ordering (Model/PipelineBK.v) and no-op ordering (Model/PipelineNoop.v) *)
Lemma p3_single_wmedian : forall g g3 x, length (g_N g) = 1%nat -> phase3_wmedian wmedian_max_iter g = Ok (g3, x) -> g_N g3 = g_N g.
Proof. intros g g3 x L1 H. unfold phase3_wmedian in H. rewrite L1 in H. cbn [Nat.eqb] in H. injection H as <- _. reflexivity. Qed.

Lemma p3_single_noop : forall g g3 x, length (g_N g) = 1%nat -> phase3_noop g = Ok (g3, x) -> g_N g3 = g_N g.
Proof. intros g g3 x L1 H. unfold phase3_noop in H. rewrite L1 in H. cbn [Nat.eqb] in H. injection H as <- _. reflexivity. Qed.

Lemma layout_components_x_g : forall bk o cs s,
  layout_components_x bk o cs s = layout_components_g (phase3_wmedian wmedian_max_iter) bk o cs s.
Proof.
  intros bk o cs. induction cs as [|c rest IH]; intros s; cbn [layout_components_x layout_components_g]; [reflexivity|].
  change (layout_component_x bk o c) with (layout_component_g (phase3_wmedian wmedian_max_iter) bk o c).
  destruct (layout_component_g _ bk o c) as [[g x]|]; cbn [bind]; [|reflexivity]. rewrite IH. reflexivity.
Qed.

Lemma layout_components_n_g : forall bk o cs s,
  layout_components_n bk o cs s = layout_components_g phase3_noop bk o cs s.
Proof.
  intros bk o cs. induction cs as [|c rest IH]; intros s; cbn [layout_components_n layout_components_g]; [reflexivity|].
  change (layout_component_n bk o c) with (layout_component_g phase3_noop bk o c).
  destruct (layout_component_g _ bk o c) as [[g x]|]; cbn [bind]; [|reflexivity]. rewrite IH. reflexivity.
Qed.

Theorem layout_components_x_rel c bk o phi phi' : 0 < c -> o_p4 o <> NsPositioner -> size_rel c phi phi' ->
  forall cs,
  (forall g, In g cs -> needs_no_flat (o_p5 o) = true -> length (g_N g) <> 1%nat -> component_input (rz phi g)) ->
  forall s s', s' == c * s ->
  res_rel (lres_rel c) (layout_components_x bk o (map (rz phi) cs) s)
                       (layout_components_x bk (scale_options c o) (map (rz phi') cs) s').
Proof.
  intros Hc Hp4 HS cs Hci s s' Hs. rewrite !layout_components_x_g.
  apply (layout_components_g_rel (phase3_wmedian wmedian_max_iter)
           (fun phi g => phase3_wmedian_rz phi wmedian_max_iter g) p3_single_wmedian pipeline_not_flat); assumption.
Qed.

Theorem layout_components_n_rel c bk o phi phi' : 0 < c -> o_p4 o <> NsPositioner -> size_rel c phi phi' ->
  forall cs,
  (forall g, In g cs -> needs_no_flat (o_p5 o) = true -> length (g_N g) <> 1%nat -> component_input (rz phi g)) ->
  forall s s', s' == c * s ->
  res_rel (lres_rel c) (layout_components_n bk o (map (rz phi) cs) s)
                       (layout_components_n bk (scale_options c o) (map (rz phi') cs) s').
Proof.
  intros Hc Hp4 HS cs Hci s s' Hs. rewrite !layout_components_n_g.
  apply (layout_components_g_rel phase3_noop phase3_noop_rz p3_single_noop pipeline_not_flat_n); assumption.
Qed.
Print Assumptions layout_components_x_rel.
Print Assumptions layout_components_n_rel.
