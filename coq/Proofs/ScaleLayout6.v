(* ScaleLayout6.v — C17 for the whole Layout, part 6: the front end.
   (a) [populate] with ANY equality test on ANY identifier type builds the same indexed graph as [populate] over the
       natural numbers with [Nat.eqb] on the edge list rewritten to arena indices ([populate_canon]); so every
       structural fact the development proves under "the equality test decides equality" holds for every test.
   (b) The populated graph with the size options applied IS [rz phi] of the populated graph, phi the table of the
       sizes it got; scaling the options scales the table.
   (c) [component_input] does not depend on sizes. *)
From Autog Require Import Base Graph Populate Phase1 Phase2 Phase3 Phase4 Phase5 Layout Wmedian Pipeline BK PipelineBK.
From Autog.Proofs Require Import ListLemmas Consistent PopulateProofs SizesProofs ComponentsProofs SelfLoopProofs Summary.
From Autog.Proofs Require CBGreedyRanks.
From Autog.Proofs Require Import E2EBridge E2EBackbone E2EFrontend WholeLayout Scale.
From Autog.Proofs Require Import ScaleLayout ScaleLayout2 ScaleLayout3 ScaleLayout4 ScaleLayout5.
From Coq Require Import Lia Lqa.
Local Open Scope nat_scope.

(* ====================================================================================================== *)
(** * (a) the canonical input                                                                              *)
(* ====================================================================================================== *)
Lemma find_id_iota_in : forall n s i, i < n -> find_id nat Nat.eqb (s + i) (iota s n) = Some i.
Proof.
  induction n as [|n IH]; intros s i Hi; [lia|]. cbn [iota find_id].
  destruct i as [|i].
  - rewrite Nat.add_0_r, Nat.eqb_refl. reflexivity.
  - replace (Nat.eqb (s + S i) s) with false by (symmetry; apply Nat.eqb_neq; lia).
    replace (s + S i) with (S s + i) by lia. rewrite IH by lia. reflexivity.
Qed.

Lemma find_id_iota_out : forall n s k, s + n <= k -> find_id nat Nat.eqb k (iota s n) = None.
Proof.
  induction n as [|n IH]; intros s k Hk; [reflexivity|]. cbn [iota find_id].
  replace (Nat.eqb k s) with false by (symmetry; apply Nat.eqb_neq; lia).
  rewrite IH by lia. reflexivity.
Qed.

Section Canon.
  Variable A : Type.
  Variable eqA : A -> A -> bool.

  Lemma find_id_lt : forall x ids i, find_id A eqA x ids = Some i -> i < length ids.
  Proof.
    intros x ids. induction ids as [|y t IH]; intros i H; cbn [find_id] in H; [discriminate|].
    destruct (eqA x y); [injection H as <-; cbn; lia|].
    destruct (find_id A eqA x t) as [j|]; cbn [option_map] in H; [|discriminate].
    injection H as <-. cbn [length]. specialize (IH j eq_refl). lia.
  Qed.

  Lemma intern_canon : forall x ids g,
    intern nat Nat.eqb (fst (intern A eqA x (ids, g))) (iota 0 (length ids), g) =
    (fst (intern A eqA x (ids, g)),
     (iota 0 (length (fst (snd (intern A eqA x (ids, g))))), snd (snd (intern A eqA x (ids, g))))).
  Proof.
    intros x ids g. unfold intern at 2 3 4 5.
    destruct (find_id A eqA x ids) as [i|] eqn:E; cbn [fst snd].
    - pose proof (find_id_lt x ids i E) as L. unfold intern.
      pose proof (find_id_iota_in (length ids) 0 i L) as F. cbn [Nat.add] in F. rewrite F. reflexivity.
    - unfold intern. rewrite (find_id_iota_out (length ids) 0 (length ids)) by lia.
      rewrite iota_length, app_length. cbn [length]. rewrite Nat.add_1_r, iota_snoc. reflexivity.
  Qed.

  (* the edge list rewritten to arena indices *)
  Fixpoint canon (st : list A * graph) (es : list (list A)) : list (list nat) :=
    match es with
    | [] => []
    | [s; t] :: rest =>
        let si := fst (intern A eqA s st) in
        let ti := fst (intern A eqA t (snd (intern A eqA s st))) in
        [si; ti] :: canon (populate_edge A eqA st s t) rest
    | _ :: rest => []
    end.

  Lemma populate_edge_canon : forall s t ids g,
    populate_edge nat Nat.eqb (iota 0 (length ids), g)
      (fst (intern A eqA s (ids, g))) (fst (intern A eqA t (snd (intern A eqA s (ids, g))))) =
    (iota 0 (length (fst (populate_edge A eqA (ids, g) s t))), snd (populate_edge A eqA (ids, g) s t)).
  Proof.
    intros s t ids g. unfold populate_edge.
    rewrite intern_canon.
    destruct (intern A eqA s (ids, g)) as [si [ids1 g1]]. cbn [fst snd].
    rewrite intern_canon.
    destruct (intern A eqA t (ids1, g1)) as [ti [ids2 g2]]. cbn [fst snd]. reflexivity.
  Qed.

  Lemma populate_from_canon : forall es ids g ids' g',
    populate_from A eqA (ids, g) es = Ok (ids', g') ->
    populate_from nat Nat.eqb (iota 0 (length ids), g) (canon (ids, g) es) = Ok (iota 0 (length ids'), g').
  Proof.
    induction es as [|p rest IH]; intros ids g ids' g' H.
    - cbn in H. injection H as <- <-. reflexivity.
    - destruct p as [|s [|t [|u p]]]; cbn [populate_from] in H; try discriminate.
      cbn [canon populate_from]. rewrite populate_edge_canon.
      destruct (populate_edge A eqA (ids, g) s t) as [ids1 g1] eqn:PE. cbn [fst snd].
      apply (IH ids1 g1 ids' g' H).
  Qed.

  Theorem populate_canon : forall es ids g, populate A eqA es = Ok (ids, g) ->
    populate nat Nat.eqb (canon ([], empty_graph) es) = Ok (iota 0 (length ids), g).
  Proof. intros es ids g H. unfold populate in *. apply (populate_from_canon es [] empty_graph ids g H). Qed.
End Canon.

Lemma nat_eqb_ok : forall x y : nat, Nat.eqb x y = true <-> x = y.
Proof. intros. apply Nat.eqb_eq. Qed.

(* ====================================================================================================== *)
(** * (b) the populated graph with sizes is [rz] of the populated graph                                    *)
(* ====================================================================================================== *)
Lemma graph_ext : forall a b, g_na a = g_na b -> g_ea a = g_ea b -> g_N a = g_N b -> g_E a = g_E b -> g_L a = g_L b -> a = b.
Proof. intros [] []; cbn; intros; subst; reflexivity. Qed.

Lemma map_id_nth {X} (f : X -> X) (d : X) l : (forall i, i < length l -> f (nth i l d) = nth i l d) -> map f l = l.
Proof.
  induction l as [|x t IH]; intros H; cbn [map]; [reflexivity|]. f_equal.
  - apply (H 0). cbn; lia.
  - apply IH. intros i Hi. apply (H (S i)). cbn; lia.
Qed.

Definition size_table (g : graph) : nat -> Q * Q := fun i => (n_w (gnode g i), n_h (gnode g i)).

Section Sized.
  Variable A : Type.
  Variable eqA : A -> A -> bool.
  Variables (es : list (list A)) (ids : list A) (g : graph).
  Hypothesis POP : populate A eqA es = Ok (ids, g).

  Let n := length ids.
  Let es' := canon A eqA ([], empty_graph) es.

  Lemma POPn : populate nat Nat.eqb es' = Ok (iota 0 n, g).
  Proof. apply populate_canon, POP. Qed.

  Lemma popd : populated es' (iota 0 n) g.
  Proof. apply (populate_wf Nat.eqb nat_eqb_ok es' POPn). Qed.

  Lemma g_na_len : length (g_na g) = n.
  Proof. rewrite (p_na_len popd). apply iota_length. Qed.

  Lemma g_edges_nopts : map redge (g_ea g) = g_ea g.
  Proof.
    apply (map_id_nth redge edge0). intros i Hi. fold (gedge g i).
    rewrite (p_ea_len popd) in Hi.
    destruct (nth_error es' i) as [p|] eqn:Ep; [|apply nth_error_None in Ep; lia].
    destruct (p_arity popd p (nth_error_In _ _ Ep)) as (s & t & ->).
    destruct (p_edge popd i Ep) as (_ & _ & _ & _ & _ & PT & _).
    destruct (gedge g i); cbn in PT |- *. subst. reflexivity.
  Qed.

  (** the graph with the size options applied *)
  Theorem sized_is_rz : forall fixed sizes,
    apply_sizes A eqA fixed sizes ids g = rz (size_table (apply_sizes A eqA fixed sizes ids g)) g.
  Proof.
    intros fixed sizes. set (gs := apply_sizes A eqA fixed sizes ids g).
    assert (HL : length (g_na g) = length ids) by apply g_na_len.
    destruct (apply_sizes_spec A eqA fixed sizes ids g HL) as (S1 & S2 & S3 & S4 & S5 & S6). cbv zeta in *.
    fold gs in S1, S2, S3, S4, S5, S6.
    apply graph_ext; unfold rz; cbn [g_na g_ea g_N g_E g_L]; try assumption.
    - apply (nth_ext _ _ node0 node0); [rewrite rz_na_length; exact S5|].
      intros i Hi. rewrite S5 in Hi. rewrite rz_na_nth by exact Hi. cbn [Nat.add].
      fold (gnode gs i). fold (gnode g i).
      destruct (nth_error ids i) as [x|] eqn:Ex; [|apply nth_error_None in Ex; lia].
      destruct (S6 i x Ex) as (_ & E1 & E2 & E3 & E4 & E5 & E6 & E7).
      assert (Hlt : i < length (iota 0 n)) by (rewrite iota_length; unfold n; lia).
      destruct (p_node_rest popd Hlt) as (_ & _ & V & X & Y & _).
      assert (Vs : n_virt (gnode gs i) = false) by congruence.
      assert (Xs : n_x (gnode gs i) = 0%Q) by congruence.
      assert (Ys : n_y (gnode gs i) = 0%Q) by congruence.
      unfold rnode, size_table. cbn [fst snd]. rewrite <- E1, <- E2, <- E3, <- E4, <- E5.
      revert Vs Xs Ys. destruct (gnode gs i). cbn. intros -> -> ->. reflexivity.
    - rewrite S1. symmetry. apply g_edges_nopts.
    - rewrite S4, (p_L popd). reflexivity.
  Qed.

  (** scaling the size options scales the table *)
  Lemma lookup_size_scale : forall (c : Q) x m,
    lookup_size A eqA x (map (fun p : A * (Q * Q) => (fst p, ((c * fst (snd p))%Q, (c * snd (snd p))%Q))) m) =
    option_map (fun wh : Q * Q => ((c * fst wh)%Q, (c * snd wh)%Q)) (lookup_size A eqA x m).
  Proof.
    intros c x m. induction m as [|[y s] t IH]; cbn [map lookup_size fst snd]; [reflexivity|].
    destruct (eqA x y); [reflexivity|exact IH].
  Qed.

  Definition scale_fixed (c : Q) (fixed : option (Q * Q)) : option (Q * Q) :=
    option_map (fun wh : Q * Q => ((c * fst wh)%Q, (c * snd wh)%Q)) fixed.
  Definition scale_sizes (c : Q) (sizes : option (list (A * (Q * Q)))) : option (list (A * (Q * Q))) :=
    option_map (map (fun p : A * (Q * Q) => (fst p, ((c * fst (snd p))%Q, (c * snd (snd p))%Q)))) sizes.

  Theorem size_table_scale : forall c fixed sizes,
    size_rel c (size_table (apply_sizes A eqA fixed sizes ids g))
               (size_table (apply_sizes A eqA (scale_fixed c fixed) (scale_sizes c sizes) ids g)).
  Proof.
    intros c fixed sizes i. unfold size_table. cbn [fst snd].
    assert (HL : length (g_na g) = length ids) by apply g_na_len.
    destruct (apply_sizes_spec A eqA fixed sizes ids g HL) as (_ & _ & _ & _ & S5 & S6).
    destruct (apply_sizes_spec A eqA (scale_fixed c fixed) (scale_sizes c sizes) ids g HL) as (_ & _ & _ & _ & S5' & S6').
    cbv zeta in *.
    destruct (nth_error ids i) as [x|] eqn:Ex.
    - destruct (S6 i x Ex) as (SZ & _). destruct (S6' i x Ex) as (SZ' & _).
      assert (Hlt : i < length (iota 0 n)) by (rewrite iota_length; unfold n; apply nth_error_Some; congruence).
      destruct (p_node_rest popd Hlt) as (_ & _ & _ & _ & _ & W & H). rewrite W, H in SZ, SZ'.
      pose proof (f_equal fst SZ) as F1. pose proof (f_equal snd SZ) as F2.
      pose proof (f_equal fst SZ') as F1'. pose proof (f_equal snd SZ') as F2'.
      cbn [fst snd] in F1, F2, F1', F2'. rewrite F1, F2, F1', F2'. clear SZ SZ' F1 F2 F1' F2'.
      unfold size_of, listed_size, scale_sizes, scale_fixed.
      destruct sizes as [m|]; cbn [option_map].
      + rewrite lookup_size_scale. destruct (lookup_size A eqA x m) as [[w h]|]; cbn [option_map fst snd].
        * split; reflexivity.
        * destruct fixed as [[w h]|]; cbn [option_map fst snd]; split; try reflexivity; ring.
      + destruct fixed as [[w h]|]; cbn [option_map fst snd]; split; try reflexivity; ring.
    - apply nth_error_None in Ex. unfold gnode.
      rewrite !nth_overflow by (rewrite ?S5, ?S5', HL; exact Ex). cbn. split; ring.
  Qed.
End Sized.

(* ====================================================================================================== *)
(** * (c) [component_input] does not depend on sizes; the components of a populated graph                  *)
(* ====================================================================================================== *)
Section CI.
  Variable phi : nat -> Q * Q.

  Lemma consistent_rz g : consistent g -> consistent (rz phi g).
  Proof.
    intros [C1 C2 C3 C4 C5 C6 C7 C8].
    assert (OE : forall n, out_edges (rz phi g) n = out_edges g n).
    { intros n. unfold out_edges. rzw. apply filter_ext_rz. intros e. rzw. reflexivity. }
    assert (IE : forall n, in_edges (rz phi g) n = in_edges g n).
    { intros n. unfold in_edges. rzw. apply filter_ext_rz. intros e. rzw. reflexivity. }
    constructor; rzw; auto.
    - intros e He. rzw. auto.
    - intros e He. rzw. auto.
    - intros n Hn. rzw. rewrite OE. auto.
    - intros n Hn. rzw. rewrite IE. auto.
  Qed.

  Theorem component_input_rz g : component_input g -> component_input (rz phi g).
  Proof.
    intros [C NV L ED TWO CONN]. constructor.
    - apply consistent_rz, C.
    - intros n. rzw. apply NV.
    - unfold rz; cbn [g_L]. rewrite L. reflexivity.
    - intros e He. rewrite g_E_rz in He. destruct (ED e He) as (R & P & D). rzw. rewrite gedge_rz. cbn [redge set_pts e_pts]. auto.
    - rzw. exact TWO.
    - rewrite ignore_self_loops_rz. cbn [fst]. intros n Hn. rewrite g_N_rz in Hn. rzw. apply (CONN n Hn).
  Qed.
End CI.

Lemma with_na_id g : with_na g (g_na g) = g.
Proof. destruct g. reflexivity. Qed.

Section Comps.
  Variable A : Type.
  Variable eqA : A -> A -> bool.
  Variables (es : list (list A)) (ids : list A) (g : graph).
  Hypothesis POP : populate A eqA es = Ok (ids, g).

  (** every component of the populated graph with at least two nodes is a [component_input], whatever sizes it carries *)
  Theorem components_input : forall phi cg, In cg (components g) -> length (g_N cg) <> 1 -> component_input (rz phi cg).
  Proof.
    intros phi cg Hin L1. apply component_input_rz.
    pose proof (POPn A eqA es ids g POP) as PN.
    assert (Hin' : In cg (components (apply_sizes nat Nat.eqb None None (iota 0 (length ids)) g))).
    { unfold apply_sizes. rewrite with_na_id. exact Hin. }
    destruct (front_components nat Nat.eqb nat_eqb_ok _ _ g None None PN cg Hin') as (FC & _).
    apply (frontend_component_input nat Nat.eqb nat_eqb_ok _ _ g None None PN cg Hin').
    pose proof (fc_nonempty _ FC) as NE. destruct (g_N cg) as [|a [|b t]]; cbn in *; [congruence|lia|lia].
  Qed.
End Comps.
Print Assumptions populate_canon.
Print Assumptions sized_is_rz.
Print Assumptions size_table_scale.
Print Assumptions components_input.
