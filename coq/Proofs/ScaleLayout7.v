(* ScaleLayout7.v — C17 for the WHOLE Layout, from the raw edge list, for both ordering options of the model:
   [PipelineBK.layout_x] (weighted-median ordering) and [PipelineNoop.layout_n] (no-op ordering); any positioner
   including Brandes-Koepf, any router of the model:

     multiplying all node sizes (WithNodeFixedSize, WithNodeSize), NodeSpacing and LayerSpacing by the same factor c > 0
     multiplies every output coordinate, size and route point by c (up to Qeq) and changes nothing else — same identifiers,
     same node and edge lists, same arrow-head flags, same crossing numbers, same error if there is one.

   Excluded: the network-simplex positioner (not equivariant: Scale.ns_positioner_not_equivariant, and
   [ex_ns_positioner_refuted] below for the whole Layout).
   No hypothesis on the identifier type or its equality test, on the graph, or on the other options.
   A node that gets no size from the options keeps the size 0 of a freshly populated node: 0 = c * 0, no premise needed. *)
From Autog Require Import Base Graph Populate Phase1 Phase2 Phase3 Phase4 Phase5 Layout Wmedian Pipeline BK PipelineBK PipelineNoop.
From Autog.Proofs Require Import E2EBridge E2EBackbone Scale.
From Autog.Proofs Require BKPipeline.
From Autog.Proofs Require Import ScaleLayout ScaleLayout5 ScaleLayout6.
From Coq Require Import Lia Lqa.
Local Open Scope Q_scope.

Definition out_rel {A : Type} (c : Q) (r r' : res (list A * (list onode * list oedge * list Z))) : Prop :=
  match r, r' with
  | Ok (ids, (ns, es, xs)), Ok (ids', (ns', es', xs')) =>
      ids' = ids /\ xs' = xs /\ Forall2 (onode_rel c) ns ns' /\ Forall2 (oedge_rel c) es es'
  | Err e, Err e' => e' = e
  | _, _ => False
  end.

(** the front end, over any two runners of the component list that are related on related inputs *)
Lemma front_scale : forall (A : Type) (eqA : A -> A -> bool) c (o : options) fixed sizes es
    (R R' : list graph -> Q -> res (list onode * list oedge * list Z)),
  (forall phi phi' cs, size_rel c phi phi' ->
     (forall g, In g cs -> needs_no_flat (o_p5 o) = true -> length (g_N g) <> 1%nat -> component_input (rz phi g)) ->
     res_rel (lres_rel c) (R (map (rz phi) cs) 0) (R' (map (rz phi') cs) 0)) ->
  out_rel c
    (do p <- populate A eqA es;
     let '(ids, g) := p in
     match ids with
     | [] => Err ErrEmpty
     | _ => let g := apply_sizes A eqA fixed sizes ids g in do r <- R (components g) 0; Ok (ids, r)
     end)
    (do p <- populate A eqA es;
     let '(ids, g) := p in
     match ids with
     | [] => Err ErrEmpty
     | _ => let g := apply_sizes A eqA (scale_fixed c fixed) (scale_sizes A c sizes) ids g in
            do r <- R' (components g) 0; Ok (ids, r)
     end).
Proof.
  intros A eqA c o fixed sizes es R R' HR.
  destruct (populate A eqA es) as [[ids g]|e] eqn:POP; cbn [bind]; [|reflexivity].
  destruct ids as [|i0 ids0] eqn:Eids; [reflexivity|]. rewrite <- Eids in *. clear Eids. cbv zeta.
  rewrite (sized_is_rz A eqA es ids g POP fixed sizes).
  rewrite (sized_is_rz A eqA es ids g POP (scale_fixed c fixed) (scale_sizes A c sizes)).
  set (phi := size_table (apply_sizes A eqA fixed sizes ids g)).
  set (phi' := size_table (apply_sizes A eqA (scale_fixed c fixed) (scale_sizes A c sizes) ids g)).
  assert (HS : size_rel c phi phi') by apply (size_table_scale A eqA es ids g POP).
  rewrite !components_rz.
  pose proof (HR phi phi' (components g) HS
                (fun cg Hin _ L1 => components_input A eqA es ids g POP phi cg Hin L1)) as H.
  destruct (R (map (rz phi) (components g)) 0) as [[[ns oes] xs]|e1],
           (R' (map (rz phi') (components g)) 0) as [[[ns' oes'] xs']|e1'];
    cbn in H; try contradiction; cbn [bind out_rel].
  - destruct H as (Hn & He & Hx). cbn [fst snd] in Hn, He, Hx. auto.
  - symmetry. exact H.
Qed.

Theorem layout_x_scale_all : forall (A : Type) (eqA : A -> A -> bool) c bk o fixed sizes es,
  0 < c -> o_p4 o <> NsPositioner ->
  out_rel c (layout_x A eqA bk o fixed sizes es)
            (layout_x A eqA bk (scale_options c o) (scale_fixed c fixed) (scale_sizes A c sizes) es).
Proof.
  intros A eqA c bk o fixed sizes es Hc Hp4. unfold layout_x.
  apply (front_scale A eqA c o fixed sizes es (layout_components_x bk o) (layout_components_x bk (scale_options c o))).
  intros phi phi' cs HS Hci. apply layout_components_x_rel; auto. ring.
Qed.
Print Assumptions layout_x_scale_all.

(** the statement as requested (the hypothesis on the router is not needed) *)
Theorem layout_x_scale : forall (A : Type) (eqA : A -> A -> bool) c bk o fixed sizes es,
  0 < c -> o_p4 o <> NsPositioner -> modelled_p5 (o_p5 o) ->
  out_rel c (layout_x A eqA bk o fixed sizes es)
            (layout_x A eqA bk (scale_options c o) (scale_fixed c fixed) (scale_sizes A c sizes) es).
Proof. intros A eqA c bk o fixed sizes es Hc Hp4 _. apply layout_x_scale_all; assumption. Qed.
Print Assumptions layout_x_scale.

(** the same with the no-op ordering *)
Theorem layout_n_scale_all : forall (A : Type) (eqA : A -> A -> bool) c bk o fixed sizes es,
  0 < c -> o_p4 o <> NsPositioner ->
  out_rel c (layout_n A eqA bk o fixed sizes es)
            (layout_n A eqA bk (scale_options c o) (scale_fixed c fixed) (scale_sizes A c sizes) es).
Proof.
  intros A eqA c bk o fixed sizes es Hc Hp4. unfold layout_n.
  apply (front_scale A eqA c o fixed sizes es (layout_components_n bk o) (layout_components_n bk (scale_options c o))).
  intros phi phi' cs HS Hci. apply layout_components_n_rel; auto. ring.
Qed.
Print Assumptions layout_n_scale_all.

Theorem layout_n_scale : forall (A : Type) (eqA : A -> A -> bool) c bk o fixed sizes es,
  0 < c -> o_p4 o <> NsPositioner -> modelled_p5 (o_p5 o) ->
  out_rel c (layout_n A eqA bk o fixed sizes es)
            (layout_n A eqA bk (scale_options c o) (scale_fixed c fixed) (scale_sizes A c sizes) es).
Proof. intros A eqA c bk o fixed sizes es Hc Hp4 _. apply layout_n_scale_all; assumption. Qed.
Print Assumptions layout_n_scale.

(** for every positioner but Brandes-Koepf [layout_x] is [Pipeline.layout] (BKPipeline.layout_x_eq) *)
Corollary layout_scale : forall (A : Type) (eqA : A -> A -> bool) c o fixed sizes es,
  0 < c -> o_p4 o <> NsPositioner -> o_p4 o <> OtherPositioner ->
  out_rel c (layout A eqA o fixed sizes es)
            (layout A eqA (scale_options c o) (scale_fixed c fixed) (scale_sizes A c sizes) es).
Proof.
  intros A eqA c o fixed sizes es Hc Hp4 Ho.
  rewrite <- !(BKPipeline.layout_x_eq A eqA 0%Z) by assumption. apply layout_x_scale_all; assumption.
Qed.
Print Assumptions layout_scale.

(* ====================================================================================================== *)
(** * Examples                                                                                             *)
(* ====================================================================================================== *)
(* the hypotheses are satisfiable: any positive factor, any positioner but the network-simplex one *)
Example ex_hyps : 0 < (1#8) /\ o_p4 (mkOptions DepthFirst NetworkSimplex OtherPositioner Ortho 1 0 5 7 false) <> NsPositioner.
Proof. split; [reflexivity|discriminate]. Qed.

(* a boolean version of [out_rel], to check concrete runs by computation *)
Definition onode_relb (c : Q) (a a' : onode) : bool :=
  Nat.eqb (on_id a') (on_id a) && Qeq_bool (on_x a') (c * on_x a) && Qeq_bool (on_y a') (c * on_y a)
  && Qeq_bool (on_w a') (c * on_w a) && Qeq_bool (on_h a') (c * on_h a).
Definition pt_relb (c : Q) (p p' : pt) : bool := Qeq_bool (fst p') (c * fst p) && Qeq_bool (snd p') (c * snd p).
Definition oedge_relb (c : Q) (e e' : oedge) : bool :=
  Nat.eqb (oe_from e') (oe_from e) && Nat.eqb (oe_to e') (oe_to e) && Bool.eqb (oe_ahs e') (oe_ahs e)
  && list_eqb (pt_relb c) (oe_pts e) (oe_pts e').
Definition out_relb (c : Q) (r r' : res (list nat * (list onode * list oedge * list Z))) : bool :=
  match r, r' with
  | Ok (ids, (ns, es, xs)), Ok (ids', (ns', es', xs')) =>
      list_eqb Nat.eqb ids' ids && list_eqb Z.eqb xs' xs && list_eqb (onode_relb c) ns ns' && list_eqb (oedge_relb c) es es'
  | _, _ => false
  end.

(* two components ({1,2,3,6,7} with the long edge 1->3, a self loop on 3, and {4,5}), heterogeneous sizes,
   node 5, 6, 7 sized by WithNodeFixedSize *)
Definition ex_es : list (list nat) := [[1;2];[2;3];[1;3];[4;5];[3;3];[1;6];[6;7];[7;3]]%nat.
Definition ex_sizes : option (list (nat * (Q * Q))) :=
  Some [(1%nat, (10, 6)); (2%nat, (7, 3)); (3%nat, (12, 5)); (4%nat, (4, 4#3))].
Definition ex_fixed : option (Q * Q) := Some (2, 3).
Definition ex_o (p1 : p1alg) (p2 : p2alg) (p4 : p4alg) (p5 : p5alg) : options := mkOptions p1 p2 p4 p5 1 0 5 7 false.
Definition ex_run (c : Q) (bk : Z) (o : options) :=
  layout_x nat Nat.eqb bk (scale_options c o) (scale_fixed c ex_fixed) (scale_sizes nat c ex_sizes) ex_es.
Definition ex_plain (bk : Z) (o : options) := layout_x nat Nat.eqb bk o ex_fixed ex_sizes ex_es.

(* x of the k-th output node *)
Definition spot_x (k : nat) (r : res (list nat * (list onode * list oedge * list Z))) : Q :=
  match r with Ok (_, (ns, _, _)) => on_x (nth k ns (mkONode 0 0 0 0 0)) | Err _ => -1 end.

(* Brandes-Koepf (balanced), orthogonal routes, network simplex layering: c = 4 and c = 1/8 *)
Example ex_bk_ortho_ok : is_ok (ex_plain (-1) (ex_o DepthFirst NetworkSimplex OtherPositioner Ortho)) = true.
Proof. vm_compute. reflexivity. Qed.
Example ex_bk_ortho_4_ok : is_ok (ex_run 4 (-1) (ex_o DepthFirst NetworkSimplex OtherPositioner Ortho)) = true.
Proof. vm_compute. reflexivity. Qed.
Example ex_bk_ortho_8th_ok : is_ok (ex_run (1#8) (-1) (ex_o DepthFirst NetworkSimplex OtherPositioner Ortho)) = true.
Proof. vm_compute. reflexivity. Qed.
(* the sixth output node is the first node of the second component: its x is the shift, 27 *)
Example ex_spot : spot_x 5 (ex_plain (-1) (ex_o DepthFirst NetworkSimplex OtherPositioner Ortho)) == 27 /\
                  spot_x 5 (ex_run 4 (-1) (ex_o DepthFirst NetworkSimplex OtherPositioner Ortho)) == 4 * 27 /\
                  spot_x 5 (ex_run (1#8) (-1) (ex_o DepthFirst NetworkSimplex OtherPositioner Ortho)) == (1#8) * 27.
Proof. vm_compute. repeat split. Qed.
(* the complete relation, checked by computation *)
Example ex_bk_ortho_4 : out_relb 4 (ex_plain (-1) (ex_o DepthFirst NetworkSimplex OtherPositioner Ortho))
                                   (ex_run 4 (-1) (ex_o DepthFirst NetworkSimplex OtherPositioner Ortho)) = true.
Proof. vm_compute. reflexivity. Qed.
Example ex_bk_ortho_8th : out_relb (1#8) (ex_plain (-1) (ex_o DepthFirst NetworkSimplex OtherPositioner Ortho))
                                         (ex_run (1#8) (-1) (ex_o DepthFirst NetworkSimplex OtherPositioner Ortho)) = true.
Proof. vm_compute. reflexivity. Qed.
(* the other positioners and routers *)
Example ex_sink_polyline_4 : out_relb 4 (ex_plain 0 (ex_o Greedy LongestPath SinkColoring Polyline))
                                        (ex_run 4 0 (ex_o Greedy LongestPath SinkColoring Polyline)) = true.
Proof. vm_compute. reflexivity. Qed.
Example ex_valign_straight_8th : out_relb (1#8) (ex_plain 0 (ex_o DepthFirst LongestPath VAlign Straight))
                                                (ex_run (1#8) 0 (ex_o DepthFirst LongestPath VAlign Straight)) = true.
Proof. vm_compute. reflexivity. Qed.
Example ex_packright_ortho_4 : out_relb 4 (ex_plain 0 (ex_o Greedy NetworkSimplex PackRight Ortho))
                                          (ex_run 4 0 (ex_o Greedy NetworkSimplex PackRight Ortho)) = true.
Proof. vm_compute. reflexivity. Qed.
(* and the theorem, instantiated *)
Example ex_thm : out_rel (1#8) (ex_plain (-1) (ex_o DepthFirst NetworkSimplex OtherPositioner Ortho))
                               (ex_run (1#8) (-1) (ex_o DepthFirst NetworkSimplex OtherPositioner Ortho)).
Proof.
  unfold ex_plain, ex_run.
  exact (layout_x_scale nat Nat.eqb (1#8) (-1) (ex_o DepthFirst NetworkSimplex OtherPositioner Ortho) ex_fixed ex_sizes ex_es
           eq_refl (fun H => match H with eq_refl => I end) (or_intror (or_intror eq_refl))).
Qed.

(* the network-simplex positioner is excluded for a reason: on this very input it is not equivariant *)
Example ex_ns_positioner_refuted : out_relb (1#8) (ex_plain 0 (ex_o DepthFirst LongestPath NsPositioner Straight))
                                                  (ex_run (1#8) 0 (ex_o DepthFirst LongestPath NsPositioner Straight)) = false.
Proof. vm_compute. reflexivity. Qed.

(* the no-op ordering *)
Definition ex_run_n (c : Q) (bk : Z) (o : options) :=
  layout_n nat Nat.eqb bk (scale_options c o) (scale_fixed c ex_fixed) (scale_sizes nat c ex_sizes) ex_es.
Definition ex_plain_n (bk : Z) (o : options) := layout_n nat Nat.eqb bk o ex_fixed ex_sizes ex_es.
Example ex_noop_bk_polyline_4 : out_relb 4 (ex_plain_n 2 (ex_o DepthFirst NetworkSimplex OtherPositioner Polyline))
                                           (ex_run_n 4 2 (ex_o DepthFirst NetworkSimplex OtherPositioner Polyline)) = true.
Proof. vm_compute. reflexivity. Qed.
Example ex_noop_sink_ortho_8th : out_relb (1#8) (ex_plain_n 0 (ex_o Greedy LongestPath SinkColoring Ortho))
                                                (ex_run_n (1#8) 0 (ex_o Greedy LongestPath SinkColoring Ortho)) = true.
Proof. vm_compute. reflexivity. Qed.
