(* SelfLoopProofs.v — preprocessor/ignore_self_loops.go: removing the self loops of a consistent graph and putting
   them back (after arbitrary processing that keeps the arenas' shape) is exact:
   T1 ignore_self_loops_spec     what ignore_self_loops does to every list of the graph
   T2 restore_self_loops_spec    what restore_self_loops does, for any graph and any in-range list of edges
   T3 ignore_restore_self_loops  the round trip: same graph up to moving the self loops to the end of every list *)
From Autog Require Import Base Graph Populate.
From Autog.Proofs Require Import ListLemmas Consistent.
From Coq Require Import Permutation.
Local Open Scope nat_scope.

(* ---------- vocabulary ---------- *)

(* every field of a node except the two adjacency lists *)
Definition node_attrs (a : node) : Z * Z * bool * Q * Q * Q * Q :=
  (n_layer a, n_pos a, n_virt a, n_x a, n_y a, n_w a, n_h a).

Lemma node_attrs_fields : forall a b, node_attrs a = node_attrs b ->
  n_layer a = n_layer b /\ n_pos a = n_pos b /\ n_virt a = n_virt b /\
  n_x a = n_x b /\ n_y a = n_y b /\ n_w a = n_w b /\ n_h a = n_h b.
Proof. intros a b H. unfold node_attrs in H. inversion H. repeat split; assumption. Qed.

(* both endpoints of e are inside the node arena *)
Definition ends_in_range (g : graph) (e : nat) : Prop :=
  e_from (gedge g e) < length (g_na g) /\ e_to (gedge g e) < length (g_na g).

(* ---------- small list facts ---------- *)
Lemma existsb_ext' : forall A (p q : A -> bool) l, (forall x, p x = q x) -> existsb p l = existsb q l.
Proof. intros A p q l H. induction l as [|x t IH]; cbn; [reflexivity|]. rewrite H, IH. reflexivity. Qed.

Lemma cond_remove_filter : forall (c : bool) e L,
  (if c then remove_nat e L else L) = filter (fun x => negb (Nat.eqb e x && c)) L.
Proof.
  intros c e L. destruct c.
  - rewrite remove_nat_filter. apply filter_ext. intros x. rewrite andb_true_r. reflexivity.
  - symmetry. apply filter_true. intros x _. rewrite andb_false_r. reflexivity.
Qed.

Lemma cond_add_filter : forall (c : nat -> bool) e (L : list nat),
  (if c e then L ++ [e] else L) = L ++ filter c [e].
Proof. intros c e L. cbn [filter]. destruct (c e); [reflexivity|]. rewrite app_nil_r. reflexivity. Qed.

Lemma gnode_with_E : forall g l n, gnode (with_E g l) n = gnode g n.
Proof. reflexivity. Qed.

Lemma out_edges_ea : forall g g' n, g_ea g' = g_ea g ->
  out_edges g' n = filter (fun e => Nat.eqb (e_from (gedge g e)) n) (g_E g').
Proof. intros g g' n H. unfold out_edges, gedge. rewrite H. reflexivity. Qed.

Lemma in_edges_ea : forall g g' n, g_ea g' = g_ea g ->
  in_edges g' n = filter (fun e => Nat.eqb (e_to (gedge g e)) n) (g_E g').
Proof. intros g g' n H. unfold in_edges, gedge. rewrite H. reflexivity. Qed.

Lemma gedge_ea : forall g g' e, g_ea g' = g_ea g -> gedge g' e = gedge g e.
Proof. intros g g' e H. unfold gedge. rewrite H. reflexivity. Qed.

Lemma self_loop_ea : forall g g' e, g_ea g' = g_ea g -> self_loop g' e = self_loop g e.
Proof. intros g g' e H. unfold self_loop. rewrite (gedge_ea g g' e H). reflexivity. Qed.

(* ====================================================================================================== *)
(* remove_self_loop, one step (any edge, no bound needed: the update functions fix the default node)      *)
(* ====================================================================================================== *)

Lemma rsl_gnode : forall g e n,
  gnode (remove_self_loop g e) n =
  let a := gnode g n in
  let b := if Nat.eqb (e_from (gedge g e)) n then set_out (el_remove e (n_out a)) a else a in
  if Nat.eqb (e_to (gedge g e)) n then set_in (el_remove e (n_in b)) b else b.
Proof.
  intros g e n. unfold remove_self_loop. cbv zeta.
  rewrite gnode_with_E.
  rewrite gnode_upd_node_fix by reflexivity.
  rewrite gnode_upd_node_fix by reflexivity.
  reflexivity.
Qed.

Lemma rsl_ea : forall g e, g_ea (remove_self_loop g e) = g_ea g.
Proof. reflexivity. Qed.
Lemma rsl_N : forall g e, g_N (remove_self_loop g e) = g_N g.
Proof. reflexivity. Qed.
Lemma rsl_L : forall g e, g_L (remove_self_loop g e) = g_L g.
Proof. reflexivity. Qed.
Lemma rsl_gedge : forall g e x, gedge (remove_self_loop g e) x = gedge g x.
Proof. reflexivity. Qed.
Lemma rsl_E : forall g e, g_E (remove_self_loop g e) = remove_nat e (g_E g).
Proof. reflexivity. Qed.

Lemma rsl_na_length : forall g e, length (g_na (remove_self_loop g e)) = length (g_na g).
Proof.
  intros g e. unfold remove_self_loop. cbv zeta.
  change (g_na (with_E ?x ?l)) with (g_na x).
  rewrite !upd_node_na_length. reflexivity.
Qed.

Lemma rsl_out_if : forall g e n,
  n_out (gnode (remove_self_loop g e) n) =
  if Nat.eqb (e_from (gedge g e)) n then remove_nat e (n_out (gnode g n)) else n_out (gnode g n).
Proof.
  intros g e n. rewrite rsl_gnode. cbv zeta.
  destruct (Nat.eqb (e_to (gedge g e)) n); destruct (Nat.eqb (e_from (gedge g e)) n); reflexivity.
Qed.

Lemma rsl_in_if : forall g e n,
  n_in (gnode (remove_self_loop g e) n) =
  if Nat.eqb (e_to (gedge g e)) n then remove_nat e (n_in (gnode g n)) else n_in (gnode g n).
Proof.
  intros g e n. rewrite rsl_gnode. cbv zeta.
  destruct (Nat.eqb (e_to (gedge g e)) n); destruct (Nat.eqb (e_from (gedge g e)) n); reflexivity.
Qed.

Lemma rsl_attrs : forall g e n, node_attrs (gnode (remove_self_loop g e) n) = node_attrs (gnode g n).
Proof.
  intros g e n. rewrite rsl_gnode. cbv zeta.
  destruct (Nat.eqb (e_to (gedge g e)) n); destruct (Nat.eqb (e_from (gedge g e)) n); reflexivity.
Qed.

(* ====================================================================================================== *)
(* fold_left remove_self_loop, any list of edges                                                          *)
(* ====================================================================================================== *)

Lemma fold_rsl_ea : forall del g, g_ea (fold_left remove_self_loop del g) = g_ea g.
Proof. induction del as [|e del IH]; intros g; cbn [fold_left]; [reflexivity|]. rewrite IH. reflexivity. Qed.
Lemma fold_rsl_N : forall del g, g_N (fold_left remove_self_loop del g) = g_N g.
Proof. induction del as [|e del IH]; intros g; cbn [fold_left]; [reflexivity|]. rewrite IH. reflexivity. Qed.
Lemma fold_rsl_L : forall del g, g_L (fold_left remove_self_loop del g) = g_L g.
Proof. induction del as [|e del IH]; intros g; cbn [fold_left]; [reflexivity|]. rewrite IH. reflexivity. Qed.
Lemma fold_rsl_na_length : forall del g, length (g_na (fold_left remove_self_loop del g)) = length (g_na g).
Proof.
  induction del as [|e del IH]; intros g; cbn [fold_left]; [reflexivity|]. rewrite IH. apply rsl_na_length.
Qed.
Lemma fold_rsl_attrs : forall del g n,
  node_attrs (gnode (fold_left remove_self_loop del g) n) = node_attrs (gnode g n).
Proof.
  induction del as [|e del IH]; intros g n; cbn [fold_left]; [reflexivity|]. rewrite IH. apply rsl_attrs.
Qed.

(* generic: a list-valued observation from which each step removes e when a g_ea-only condition holds *)
Lemma fold_rsl_proj : forall (proj : graph -> list nat) (c : graph -> nat -> bool),
  (forall g e, proj (remove_self_loop g e) = if c g e then remove_nat e (proj g) else proj g) ->
  (forall g e x, c (remove_self_loop g e) x = c g x) ->
  forall del g,
    proj (fold_left remove_self_loop del g) =
    filter (fun x => negb (existsb (fun e => Nat.eqb e x && c g e) del)) (proj g).
Proof.
  intros proj c Hstep Hc. induction del as [|e del IH]; intros g; cbn [fold_left].
  - symmetry. apply filter_true. intros x _. reflexivity.
  - rewrite IH, Hstep, cond_remove_filter, filter_filter. apply filter_ext. intros x.
    cbn [existsb]. rewrite negb_orb. f_equal. f_equal.
    apply existsb_ext'. intros y. rewrite Hc. reflexivity.
Qed.

Lemma fold_rsl_out : forall del g n,
  n_out (gnode (fold_left remove_self_loop del g) n) =
  filter (fun x => negb (existsb (fun e => Nat.eqb e x && Nat.eqb (e_from (gedge g e)) n) del))
         (n_out (gnode g n)).
Proof.
  intros del g n.
  apply (fold_rsl_proj (fun g => n_out (gnode g n)) (fun g e => Nat.eqb (e_from (gedge g e)) n)).
  - intros g0 e. apply rsl_out_if.
  - intros g0 e x. reflexivity.
Qed.

Lemma fold_rsl_in : forall del g n,
  n_in (gnode (fold_left remove_self_loop del g) n) =
  filter (fun x => negb (existsb (fun e => Nat.eqb e x && Nat.eqb (e_to (gedge g e)) n) del))
         (n_in (gnode g n)).
Proof.
  intros del g n.
  apply (fold_rsl_proj (fun g => n_in (gnode g n)) (fun g e => Nat.eqb (e_to (gedge g e)) n)).
  - intros g0 e. apply rsl_in_if.
  - intros g0 e x. reflexivity.
Qed.

Lemma fold_rsl_E : forall del g,
  g_E (fold_left remove_self_loop del g) =
  filter (fun x => negb (existsb (fun e => Nat.eqb e x && true) del)) (g_E g).
Proof.
  intros del g.
  apply (fold_rsl_proj (fun g => g_E g) (fun _ _ => true)).
  - intros g0 e. reflexivity.
  - intros g0 e x. reflexivity.
Qed.

(* ====================================================================================================== *)
(* T1: ignore_self_loops on a consistent graph                                                            *)
(* ====================================================================================================== *)

Lemma existsb_self_loops : forall g (c : nat -> bool) x,
  In x (g_E g) -> c x = true ->
  existsb (fun e => Nat.eqb e x && c e) (self_loops g) = self_loop g x.
Proof.
  intros g c x Hx Hc. destruct (self_loop g x) eqn:S.
  - apply existsb_exists. exists x. split.
    + unfold self_loops. apply filter_In. split; assumption.
    + rewrite Nat.eqb_refl, Hc. reflexivity.
  - destruct (existsb (fun e => Nat.eqb e x && c e) (self_loops g)) eqn:E; [|reflexivity].
    apply existsb_exists in E. destruct E as [e [He Hex]].
    apply andb_true_iff in Hex. destruct Hex as [Hex _]. apply Nat.eqb_eq in Hex. subst e.
    unfold self_loops in He. apply filter_In in He. destruct He as [_ He]. congruence.
Qed.

Lemma ignore_self_loops_snd : forall g, snd (ignore_self_loops g) = filter (self_loop g) (g_E g).
Proof. reflexivity. Qed.

Lemma ignore_self_loops_ea : forall g, g_ea (fst (ignore_self_loops g)) = g_ea g.
Proof. intros g. unfold ignore_self_loops. cbn [fst]. apply fold_rsl_ea. Qed.

Lemma ignore_self_loops_N : forall g, g_N (fst (ignore_self_loops g)) = g_N g.
Proof. intros g. unfold ignore_self_loops. cbn [fst]. apply fold_rsl_N. Qed.

Lemma ignore_self_loops_L : forall g, g_L (fst (ignore_self_loops g)) = g_L g.
Proof. intros g. unfold ignore_self_loops. cbn [fst]. apply fold_rsl_L. Qed.

Lemma ignore_self_loops_na_length : forall g, length (g_na (fst (ignore_self_loops g))) = length (g_na g).
Proof. intros g. unfold ignore_self_loops. cbn [fst]. apply fold_rsl_na_length. Qed.

Lemma ignore_self_loops_gedge : forall g e, gedge (fst (ignore_self_loops g)) e = gedge g e.
Proof. intros g e. apply gedge_ea. apply ignore_self_loops_ea. Qed.

Lemma ignore_self_loops_self_loop : forall g e, self_loop (fst (ignore_self_loops g)) e = self_loop g e.
Proof. intros g e. apply self_loop_ea. apply ignore_self_loops_ea. Qed.

Lemma ignore_self_loops_attrs : forall g n,
  node_attrs (gnode (fst (ignore_self_loops g)) n) = node_attrs (gnode g n).
Proof. intros g n. unfold ignore_self_loops. cbn [fst]. apply fold_rsl_attrs. Qed.

(* g_E: needs nothing about g *)
Lemma ignore_self_loops_E : forall g,
  g_E (fst (ignore_self_loops g)) = filter (fun e => negb (self_loop g e)) (g_E g).
Proof.
  intros g. unfold ignore_self_loops. cbn [fst]. rewrite fold_rsl_E.
  apply filter_ext_in. intros x Hx. f_equal.
  apply (existsb_self_loops g (fun _ => true) x Hx). reflexivity.
Qed.

Lemma ignore_self_loops_out : forall g, consistent g -> forall n, In n (g_N g) ->
  n_out (gnode (fst (ignore_self_loops g)) n) = filter (fun e => negb (self_loop g e)) (n_out (gnode g n)).
Proof.
  intros g HC n Hn. unfold ignore_self_loops. cbn [fst]. rewrite fold_rsl_out.
  apply filter_ext_in. intros x Hx. f_equal.
  rewrite (@c_out g HC n Hn) in Hx. apply in_out_edges in Hx. destruct Hx as [HxE Hxn].
  apply (existsb_self_loops g (fun e => Nat.eqb (e_from (gedge g e)) n) x HxE).
  apply Nat.eqb_eq. exact Hxn.
Qed.

Lemma ignore_self_loops_in : forall g, consistent g -> forall n, In n (g_N g) ->
  n_in (gnode (fst (ignore_self_loops g)) n) = filter (fun e => negb (self_loop g e)) (n_in (gnode g n)).
Proof.
  intros g HC n Hn. unfold ignore_self_loops. cbn [fst]. rewrite fold_rsl_in.
  apply filter_ext_in. intros x Hx. f_equal.
  rewrite (@c_in g HC n Hn) in Hx. apply in_in_edges in Hx. destruct Hx as [HxE Hxn].
  apply (existsb_self_loops g (fun e => Nat.eqb (e_to (gedge g e)) n) x HxE).
  apply Nat.eqb_eq. exact Hxn.
Qed.

(* no self loop is left *)
Lemma ignore_self_loops_E_no_loop : forall g e,
  In e (g_E (fst (ignore_self_loops g))) -> self_loop (fst (ignore_self_loops g)) e = false.
Proof.
  intros g e He. rewrite ignore_self_loops_self_loop. rewrite ignore_self_loops_E in He.
  apply filter_In in He. destruct He as [_ He]. apply negb_true_iff in He. exact He.
Qed.

Lemma ignore_self_loops_out_no_loop : forall g, consistent g -> forall n, In n (g_N g) ->
  forall e, In e (n_out (gnode (fst (ignore_self_loops g)) n)) -> self_loop (fst (ignore_self_loops g)) e = false.
Proof.
  intros g HC n Hn e He. rewrite ignore_self_loops_self_loop.
  rewrite (ignore_self_loops_out g HC n Hn) in He.
  apply filter_In in He. destruct He as [_ He]. apply negb_true_iff in He. exact He.
Qed.

Lemma ignore_self_loops_in_no_loop : forall g, consistent g -> forall n, In n (g_N g) ->
  forall e, In e (n_in (gnode (fst (ignore_self_loops g)) n)) -> self_loop (fst (ignore_self_loops g)) e = false.
Proof.
  intros g HC n Hn e He. rewrite ignore_self_loops_self_loop.
  rewrite (ignore_self_loops_in g HC n Hn) in He.
  apply filter_In in He. destruct He as [_ He]. apply negb_true_iff in He. exact He.
Qed.

(* every edge that is not a self loop is kept, with its position relative to the other kept edges *)
Lemma ignore_self_loops_keeps : forall g e,
  In e (g_E (fst (ignore_self_loops g))) <-> In e (g_E g) /\ self_loop g e = false.
Proof.
  intros g e. rewrite ignore_self_loops_E, filter_In, negb_true_iff. tauto.
Qed.

Theorem ignore_self_loops_consistent : forall g, consistent g -> consistent (fst (ignore_self_loops g)).
Proof.
  intros g HC.
  pose proof (ignore_self_loops_ea g) as Hea.
  pose proof (ignore_self_loops_N g) as HN.
  pose proof (ignore_self_loops_na_length g) as Hlen.
  pose proof (ignore_self_loops_E g) as HE.
  constructor.
  - rewrite HN. exact (@c_nodupN g HC).
  - rewrite HE. apply NoDup_filter'. exact (@c_nodupE g HC).
  - intros n Hn. rewrite HN in Hn. rewrite Hlen. exact (@c_N_lt g HC n Hn).
  - intros e He. rewrite HE in He. apply filter_In in He. destruct He as [He _].
    rewrite Hea. exact (@c_E_lt g HC e He).
  - intros e He. rewrite HE in He. apply filter_In in He. destruct He as [He _].
    rewrite HN, ignore_self_loops_gedge. exact (@c_from g HC e He).
  - intros e He. rewrite HE in He. apply filter_In in He. destruct He as [He _].
    rewrite HN, ignore_self_loops_gedge. exact (@c_to g HC e He).
  - intros n Hn. rewrite HN in Hn.
    rewrite (ignore_self_loops_out g HC n Hn), (@c_out g HC n Hn).
    rewrite (out_edges_ea g _ n Hea), HE. unfold out_edges. apply filter_comm.
  - intros n Hn. rewrite HN in Hn.
    rewrite (ignore_self_loops_in g HC n Hn), (@c_in g HC n Hn).
    rewrite (in_edges_ea g _ n Hea), HE. unfold in_edges. apply filter_comm.
Qed.

(* T1, summary *)
Theorem ignore_self_loops_spec : forall g, consistent g ->
  let g1 := fst (ignore_self_loops g) in
  g_ea g1 = g_ea g /\ g_N g1 = g_N g /\ g_L g1 = g_L g /\ length (g_na g1) = length (g_na g) /\
  snd (ignore_self_loops g) = filter (self_loop g) (g_E g) /\
  g_E g1 = filter (fun e => negb (self_loop g e)) (g_E g) /\
  (forall n, In n (g_N g) ->
     n_out (gnode g1 n) = filter (fun e => negb (self_loop g e)) (n_out (gnode g n)) /\
     n_in (gnode g1 n) = filter (fun e => negb (self_loop g e)) (n_in (gnode g n))) /\
  (forall n,
     n_layer (gnode g1 n) = n_layer (gnode g n) /\ n_pos (gnode g1 n) = n_pos (gnode g n) /\
     n_virt (gnode g1 n) = n_virt (gnode g n) /\
     n_x (gnode g1 n) = n_x (gnode g n) /\ n_y (gnode g1 n) = n_y (gnode g n) /\
     n_w (gnode g1 n) = n_w (gnode g n) /\ n_h (gnode g1 n) = n_h (gnode g n)) /\
  (forall e, gedge g1 e = gedge g e /\ self_loop g1 e = self_loop g e) /\
  (forall e, In e (g_E g1) -> self_loop g1 e = false) /\
  (forall n, In n (g_N g) ->
     (forall e, In e (n_out (gnode g1 n)) -> self_loop g1 e = false) /\
     (forall e, In e (n_in (gnode g1 n)) -> self_loop g1 e = false)) /\
  consistent g1.
Proof.
  intros g HC g1. subst g1.
  split; [apply ignore_self_loops_ea|].
  split; [apply ignore_self_loops_N|].
  split; [apply ignore_self_loops_L|].
  split; [apply ignore_self_loops_na_length|].
  split; [apply ignore_self_loops_snd|].
  split; [apply ignore_self_loops_E|].
  split; [intros n Hn; split; [apply ignore_self_loops_out|apply ignore_self_loops_in]; assumption|].
  split; [intros n; apply node_attrs_fields; apply ignore_self_loops_attrs|].
  split; [intros e; split; [apply ignore_self_loops_gedge|apply ignore_self_loops_self_loop]|].
  split; [intros e He; apply ignore_self_loops_E_no_loop; assumption|].
  split; [intros n Hn; split; intros e He;
          [apply (ignore_self_loops_out_no_loop g HC n Hn e He)
          |apply (ignore_self_loops_in_no_loop g HC n Hn e He)]|].
  apply ignore_self_loops_consistent. assumption.
Qed.
Print Assumptions ignore_self_loops_spec.
Print Assumptions ignore_self_loops_consistent.

(* ====================================================================================================== *)
(* restore_self_loop, one step (the edge's endpoints must be inside the node arena)                       *)
(* ====================================================================================================== *)

Lemma rst_gnode : forall g e n, ends_in_range g e ->
  gnode (restore_self_loop g e) n =
  let a := gnode g n in
  let b := if Nat.eqb (e_from (gedge g e)) n then set_out (el_add e (n_out a)) a else a in
  if Nat.eqb (e_to (gedge g e)) n then set_in (el_add e (n_in b)) b else b.
Proof.
  intros g e n [Hf Ht]. unfold restore_self_loop. cbv zeta.
  rewrite gnode_with_E.
  rewrite gnode_upd_node by (rewrite upd_node_na_length; exact Ht).
  rewrite gnode_upd_node by exact Hf.
  reflexivity.
Qed.

Lemma rst_ea : forall g e, g_ea (restore_self_loop g e) = g_ea g.
Proof. reflexivity. Qed.
Lemma rst_N : forall g e, g_N (restore_self_loop g e) = g_N g.
Proof. reflexivity. Qed.
Lemma rst_L : forall g e, g_L (restore_self_loop g e) = g_L g.
Proof. reflexivity. Qed.
Lemma rst_gedge : forall g e x, gedge (restore_self_loop g e) x = gedge g x.
Proof. reflexivity. Qed.
Lemma rst_E : forall g e, g_E (restore_self_loop g e) = g_E g ++ [e].
Proof. reflexivity. Qed.

Lemma rst_na_length : forall g e, length (g_na (restore_self_loop g e)) = length (g_na g).
Proof.
  intros g e. unfold restore_self_loop. cbv zeta.
  change (g_na (with_E ?x ?l)) with (g_na x).
  rewrite !upd_node_na_length. reflexivity.
Qed.

Lemma rst_ends_in_range : forall g e x, ends_in_range g x -> ends_in_range (restore_self_loop g e) x.
Proof.
  intros g e x H. unfold ends_in_range in *. rewrite rst_gedge, rst_na_length. exact H.
Qed.

Lemma rst_out_if : forall g e n, ends_in_range g e ->
  n_out (gnode (restore_self_loop g e) n) =
  if Nat.eqb (e_from (gedge g e)) n then n_out (gnode g n) ++ [e] else n_out (gnode g n).
Proof.
  intros g e n H. rewrite (rst_gnode g e n H). cbv zeta.
  destruct (Nat.eqb (e_to (gedge g e)) n); destruct (Nat.eqb (e_from (gedge g e)) n); reflexivity.
Qed.

Lemma rst_in_if : forall g e n, ends_in_range g e ->
  n_in (gnode (restore_self_loop g e) n) =
  if Nat.eqb (e_to (gedge g e)) n then n_in (gnode g n) ++ [e] else n_in (gnode g n).
Proof.
  intros g e n H. rewrite (rst_gnode g e n H). cbv zeta.
  destruct (Nat.eqb (e_to (gedge g e)) n); destruct (Nat.eqb (e_from (gedge g e)) n); reflexivity.
Qed.

Lemma rst_attrs : forall g e n, ends_in_range g e ->
  node_attrs (gnode (restore_self_loop g e) n) = node_attrs (gnode g n).
Proof.
  intros g e n H. rewrite (rst_gnode g e n H). cbv zeta.
  destruct (Nat.eqb (e_to (gedge g e)) n); destruct (Nat.eqb (e_from (gedge g e)) n); reflexivity.
Qed.

(* ====================================================================================================== *)
(* T2: restore_self_loops, any graph, any in-range list                                                   *)
(* ====================================================================================================== *)

Lemma restore_self_loops_ea : forall del g, g_ea (restore_self_loops g del) = g_ea g.
Proof.
  unfold restore_self_loops.
  induction del as [|e del IH]; intros g; cbn [fold_left]; [reflexivity|]. rewrite IH. reflexivity.
Qed.
Lemma restore_self_loops_N : forall del g, g_N (restore_self_loops g del) = g_N g.
Proof.
  unfold restore_self_loops.
  induction del as [|e del IH]; intros g; cbn [fold_left]; [reflexivity|]. rewrite IH. reflexivity.
Qed.
Lemma restore_self_loops_L : forall del g, g_L (restore_self_loops g del) = g_L g.
Proof.
  unfold restore_self_loops.
  induction del as [|e del IH]; intros g; cbn [fold_left]; [reflexivity|]. rewrite IH. reflexivity.
Qed.
Lemma restore_self_loops_na_length : forall del g, length (g_na (restore_self_loops g del)) = length (g_na g).
Proof.
  unfold restore_self_loops.
  induction del as [|e del IH]; intros g; cbn [fold_left]; [reflexivity|]. rewrite IH. apply rst_na_length.
Qed.
Lemma restore_self_loops_E : forall del g, g_E (restore_self_loops g del) = g_E g ++ del.
Proof.
  unfold restore_self_loops.
  induction del as [|e del IH]; intros g; cbn [fold_left].
  - rewrite app_nil_r. reflexivity.
  - rewrite IH, rst_E, <- app_assoc. reflexivity.
Qed.
Lemma restore_self_loops_gedge : forall del g e, gedge (restore_self_loops g del) e = gedge g e.
Proof. intros del g e. apply gedge_ea. apply restore_self_loops_ea. Qed.

Lemma restore_self_loops_attrs : forall del g, (forall e, In e del -> ends_in_range g e) ->
  forall n, node_attrs (gnode (restore_self_loops g del) n) = node_attrs (gnode g n).
Proof.
  unfold restore_self_loops.
  induction del as [|e del IH]; intros g Hok n; cbn [fold_left]; [reflexivity|].
  rewrite IH.
  - apply rst_attrs. apply Hok. left. reflexivity.
  - intros x Hx. apply rst_ends_in_range. apply Hok. right. exact Hx.
Qed.

(* generic: a list-valued observation to which each step appends e when a g_ea-only condition holds *)
Lemma fold_rst_proj : forall (proj : graph -> list nat) (c : graph -> nat -> bool),
  (forall g e, ends_in_range g e ->
               proj (restore_self_loop g e) = if c g e then proj g ++ [e] else proj g) ->
  (forall g e x, c (restore_self_loop g e) x = c g x) ->
  forall del g, (forall e, In e del -> ends_in_range g e) ->
    proj (fold_left restore_self_loop del g) = proj g ++ filter (c g) del.
Proof.
  intros proj c Hstep Hc. induction del as [|e del IH]; intros g Hok; cbn [fold_left].
  - cbn [filter]. rewrite app_nil_r. reflexivity.
  - rewrite IH.
    + rewrite Hstep by (apply Hok; left; reflexivity).
      rewrite (cond_add_filter (c g) e (proj g)), <- app_assoc. f_equal.
      rewrite (filter_ext (c (restore_self_loop g e)) (c g)) by (intros x; apply Hc).
      rewrite <- filter_app. reflexivity.
    + intros x Hx. apply rst_ends_in_range. apply Hok. right. exact Hx.
Qed.

Lemma restore_self_loops_out : forall del g, (forall e, In e del -> ends_in_range g e) ->
  forall n, n_out (gnode (restore_self_loops g del) n) =
            n_out (gnode g n) ++ filter (fun e => Nat.eqb (e_from (gedge g e)) n) del.
Proof.
  intros del g Hok n. unfold restore_self_loops.
  apply (fold_rst_proj (fun g => n_out (gnode g n)) (fun g e => Nat.eqb (e_from (gedge g e)) n)).
  - intros g0 e H. apply rst_out_if. exact H.
  - intros g0 e x. reflexivity.
  - exact Hok.
Qed.

Lemma restore_self_loops_in : forall del g, (forall e, In e del -> ends_in_range g e) ->
  forall n, n_in (gnode (restore_self_loops g del) n) =
            n_in (gnode g n) ++ filter (fun e => Nat.eqb (e_to (gedge g e)) n) del.
Proof.
  intros del g Hok n. unfold restore_self_loops.
  apply (fold_rst_proj (fun g => n_in (gnode g n)) (fun g e => Nat.eqb (e_to (gedge g e)) n)).
  - intros g0 e H. apply rst_in_if. exact H.
  - intros g0 e x. reflexivity.
  - exact Hok.
Qed.

(* T2, summary *)
Theorem restore_self_loops_spec : forall g1 del,
  (forall e, In e del -> e_from (gedge g1 e) < length (g_na g1) /\ e_to (gedge g1 e) < length (g_na g1)) ->
  let g2 := restore_self_loops g1 del in
  g_ea g2 = g_ea g1 /\ g_N g2 = g_N g1 /\ g_L g2 = g_L g1 /\ length (g_na g2) = length (g_na g1) /\
  g_E g2 = g_E g1 ++ del /\
  (forall n,
     n_out (gnode g2 n) = n_out (gnode g1 n) ++ filter (fun e => Nat.eqb (e_from (gedge g1 e)) n) del /\
     n_in (gnode g2 n) = n_in (gnode g1 n) ++ filter (fun e => Nat.eqb (e_to (gedge g1 e)) n) del /\
     n_layer (gnode g2 n) = n_layer (gnode g1 n) /\ n_pos (gnode g2 n) = n_pos (gnode g1 n) /\
     n_virt (gnode g2 n) = n_virt (gnode g1 n) /\
     n_x (gnode g2 n) = n_x (gnode g1 n) /\ n_y (gnode g2 n) = n_y (gnode g1 n) /\
     n_w (gnode g2 n) = n_w (gnode g1 n) /\ n_h (gnode g2 n) = n_h (gnode g1 n)) /\
  (forall e, gedge g2 e = gedge g1 e).
Proof.
  intros g1 del Hok g2. subst g2.
  split; [apply restore_self_loops_ea|].
  split; [apply restore_self_loops_N|].
  split; [apply restore_self_loops_L|].
  split; [apply restore_self_loops_na_length|].
  split; [apply restore_self_loops_E|].
  split; [|intros e; apply restore_self_loops_gedge].
  intros n.
  split; [apply restore_self_loops_out; exact Hok|].
  split; [apply restore_self_loops_in; exact Hok|].
  apply node_attrs_fields. apply restore_self_loops_attrs. exact Hok.
Qed.
Print Assumptions restore_self_loops_spec.

(* ====================================================================================================== *)
(* T3: the round trip                                                                                     *)
(* ====================================================================================================== *)

Definition ignore_restore (g : graph) : graph :=
  restore_self_loops (fst (ignore_self_loops g)) (snd (ignore_self_loops g)).

(* the self loops of a consistent graph are in range in the graph without self loops *)
Lemma self_loops_in_range : forall g, consistent g ->
  forall e, In e (snd (ignore_self_loops g)) -> ends_in_range (fst (ignore_self_loops g)) e.
Proof.
  intros g HC e He. rewrite ignore_self_loops_snd in He. apply filter_In in He. destruct He as [He _].
  unfold ends_in_range. rewrite ignore_self_loops_gedge, ignore_self_loops_na_length. split.
  - apply (@c_N_lt g HC). apply (@c_from g HC). exact He.
  - apply (@c_N_lt g HC). apply (@c_to g HC). exact He.
Qed.

Lemma ignore_restore_ea : forall g, g_ea (ignore_restore g) = g_ea g.
Proof. intros g. unfold ignore_restore. rewrite restore_self_loops_ea. apply ignore_self_loops_ea. Qed.

Lemma ignore_restore_N : forall g, g_N (ignore_restore g) = g_N g.
Proof. intros g. unfold ignore_restore. rewrite restore_self_loops_N. apply ignore_self_loops_N. Qed.

Lemma ignore_restore_L : forall g, g_L (ignore_restore g) = g_L g.
Proof. intros g. unfold ignore_restore. rewrite restore_self_loops_L. apply ignore_self_loops_L. Qed.

Lemma ignore_restore_na_length : forall g, length (g_na (ignore_restore g)) = length (g_na g).
Proof.
  intros g. unfold ignore_restore. rewrite restore_self_loops_na_length. apply ignore_self_loops_na_length.
Qed.

Lemma ignore_restore_gedge : forall g e, gedge (ignore_restore g) e = gedge g e.
Proof. intros g e. apply gedge_ea. apply ignore_restore_ea. Qed.

Lemma ignore_restore_self_loop : forall g e, self_loop (ignore_restore g) e = self_loop g e.
Proof. intros g e. apply self_loop_ea. apply ignore_restore_ea. Qed.

Lemma ignore_restore_E : forall g,
  g_E (ignore_restore g) = filter (fun e => negb (self_loop g e)) (g_E g) ++ filter (self_loop g) (g_E g).
Proof.
  intros g. unfold ignore_restore. rewrite restore_self_loops_E, ignore_self_loops_E, ignore_self_loops_snd.
  reflexivity.
Qed.

Lemma ignore_restore_E_perm : forall g, Permutation (g_E (ignore_restore g)) (g_E g).
Proof.
  intros g. rewrite ignore_restore_E.
  pose proof (filter_partition_perm nat (fun e => negb (self_loop g e)) (g_E g)) as P.
  rewrite (filter_ext (fun x => negb (negb (self_loop g x))) (self_loop g)) in P
    by (intros x; apply negb_involutive).
  exact P.
Qed.

Lemma ignore_restore_attrs : forall g, consistent g ->
  forall n, node_attrs (gnode (ignore_restore g) n) = node_attrs (gnode g n).
Proof.
  intros g HC n. unfold ignore_restore.
  rewrite restore_self_loops_attrs by (apply self_loops_in_range; exact HC).
  apply ignore_self_loops_attrs.
Qed.

Lemma ignore_restore_out : forall g, consistent g -> forall n, In n (g_N g) ->
  n_out (gnode (ignore_restore g) n) =
  filter (fun e => negb (self_loop g e)) (n_out (gnode g n)) ++ filter (self_loop g) (n_out (gnode g n)).
Proof.
  intros g HC n Hn. unfold ignore_restore.
  rewrite restore_self_loops_out by (apply self_loops_in_range; exact HC).
  rewrite (ignore_self_loops_out g HC n Hn). f_equal.
  rewrite ignore_self_loops_snd.
  rewrite (filter_ext (fun e => Nat.eqb (e_from (gedge (fst (ignore_self_loops g)) e)) n)
                      (fun e => Nat.eqb (e_from (gedge g e)) n))
    by (intros x; rewrite ignore_self_loops_gedge; reflexivity).
  rewrite filter_comm. rewrite (@c_out g HC n Hn). reflexivity.
Qed.

Lemma ignore_restore_in : forall g, consistent g -> forall n, In n (g_N g) ->
  n_in (gnode (ignore_restore g) n) =
  filter (fun e => negb (self_loop g e)) (n_in (gnode g n)) ++ filter (self_loop g) (n_in (gnode g n)).
Proof.
  intros g HC n Hn. unfold ignore_restore.
  rewrite restore_self_loops_in by (apply self_loops_in_range; exact HC).
  rewrite (ignore_self_loops_in g HC n Hn). f_equal.
  rewrite ignore_self_loops_snd.
  rewrite (filter_ext (fun e => Nat.eqb (e_to (gedge (fst (ignore_self_loops g)) e)) n)
                      (fun e => Nat.eqb (e_to (gedge g e)) n))
    by (intros x; rewrite ignore_self_loops_gedge; reflexivity).
  rewrite filter_comm. rewrite (@c_in g HC n Hn). reflexivity.
Qed.

(* the adjacency lists are permutations of the original ones, too *)
Lemma ignore_restore_out_perm : forall g, consistent g -> forall n, In n (g_N g) ->
  Permutation (n_out (gnode (ignore_restore g) n)) (n_out (gnode g n)).
Proof.
  intros g HC n Hn. rewrite (ignore_restore_out g HC n Hn).
  pose proof (filter_partition_perm nat (fun e => negb (self_loop g e)) (n_out (gnode g n))) as P.
  rewrite (filter_ext (fun x => negb (negb (self_loop g x))) (self_loop g)) in P
    by (intros x; apply negb_involutive).
  exact P.
Qed.

Lemma ignore_restore_in_perm : forall g, consistent g -> forall n, In n (g_N g) ->
  Permutation (n_in (gnode (ignore_restore g) n)) (n_in (gnode g n)).
Proof.
  intros g HC n Hn. rewrite (ignore_restore_in g HC n Hn).
  pose proof (filter_partition_perm nat (fun e => negb (self_loop g e)) (n_in (gnode g n))) as P.
  rewrite (filter_ext (fun x => negb (negb (self_loop g x))) (self_loop g)) in P
    by (intros x; apply negb_involutive).
  exact P.
Qed.

Theorem ignore_restore_consistent : forall g, consistent g -> consistent (ignore_restore g).
Proof.
  intros g HC.
  pose proof (ignore_restore_ea g) as Hea.
  pose proof (ignore_restore_N g) as HN.
  pose proof (ignore_restore_na_length g) as Hlen.
  pose proof (ignore_restore_E g) as HE.
  pose proof (ignore_restore_E_perm g) as HP.
  constructor.
  - rewrite HN. exact (@c_nodupN g HC).
  - apply (Permutation_NoDup (Permutation_sym HP)). exact (@c_nodupE g HC).
  - intros n Hn. rewrite HN in Hn. rewrite Hlen. exact (@c_N_lt g HC n Hn).
  - intros e He. apply (Permutation_in e HP) in He. rewrite Hea. exact (@c_E_lt g HC e He).
  - intros e He. apply (Permutation_in e HP) in He.
    rewrite HN, ignore_restore_gedge. exact (@c_from g HC e He).
  - intros e He. apply (Permutation_in e HP) in He.
    rewrite HN, ignore_restore_gedge. exact (@c_to g HC e He).
  - intros n Hn. rewrite HN in Hn.
    rewrite (ignore_restore_out g HC n Hn), (@c_out g HC n Hn).
    rewrite (out_edges_ea g _ n Hea), HE, filter_app. unfold out_edges.
    f_equal; apply filter_comm.
  - intros n Hn. rewrite HN in Hn.
    rewrite (ignore_restore_in g HC n Hn), (@c_in g HC n Hn).
    rewrite (in_edges_ea g _ n Hea), HE, filter_app. unfold in_edges.
    f_equal; apply filter_comm.
Qed.

(* T3, summary (main theorem) *)
Theorem ignore_restore_self_loops : forall g, consistent g ->
  let g' := restore_self_loops (fst (ignore_self_loops g)) (snd (ignore_self_loops g)) in
  g_ea g' = g_ea g /\ g_N g' = g_N g /\ g_L g' = g_L g /\ length (g_na g') = length (g_na g) /\
  g_E g' = filter (fun e => negb (self_loop g e)) (g_E g) ++ filter (self_loop g) (g_E g) /\
  Permutation (g_E g') (g_E g) /\
  (forall n, In n (g_N g) ->
     n_out (gnode g' n) =
       filter (fun e => negb (self_loop g e)) (n_out (gnode g n)) ++ filter (self_loop g) (n_out (gnode g n)) /\
     n_in (gnode g' n) =
       filter (fun e => negb (self_loop g e)) (n_in (gnode g n)) ++ filter (self_loop g) (n_in (gnode g n)) /\
     Permutation (n_out (gnode g' n)) (n_out (gnode g n)) /\
     Permutation (n_in (gnode g' n)) (n_in (gnode g n))) /\
  (forall n,
     n_layer (gnode g' n) = n_layer (gnode g n) /\ n_pos (gnode g' n) = n_pos (gnode g n) /\
     n_virt (gnode g' n) = n_virt (gnode g n) /\
     n_x (gnode g' n) = n_x (gnode g n) /\ n_y (gnode g' n) = n_y (gnode g n) /\
     n_w (gnode g' n) = n_w (gnode g n) /\ n_h (gnode g' n) = n_h (gnode g n)) /\
  (forall e, gedge g' e = gedge g e /\ self_loop g' e = self_loop g e) /\
  consistent g'.
Proof.
  intros g HC g'. subst g'. fold (ignore_restore g).
  split; [apply ignore_restore_ea|].
  split; [apply ignore_restore_N|].
  split; [apply ignore_restore_L|].
  split; [apply ignore_restore_na_length|].
  split; [apply ignore_restore_E|].
  split; [apply ignore_restore_E_perm|].
  split; [intros n Hn;
          split; [apply ignore_restore_out; assumption|];
          split; [apply ignore_restore_in; assumption|];
          split; [apply ignore_restore_out_perm; assumption|apply ignore_restore_in_perm; assumption]|].
  split; [intros n; apply node_attrs_fields; apply ignore_restore_attrs; exact HC|].
  split; [intros e; split; [apply ignore_restore_gedge|apply ignore_restore_self_loop]|].
  apply ignore_restore_consistent. exact HC.
Qed.
Print Assumptions ignore_restore_self_loops.
Print Assumptions ignore_restore_consistent.

(* a graph without self loops is left alone by the round trip, list for list *)
Corollary ignore_restore_no_loops : forall g, consistent g ->
  (forall e, In e (g_E g) -> self_loop g e = false) ->
  g_E (ignore_restore g) = g_E g /\
  forall n, In n (g_N g) ->
    n_out (gnode (ignore_restore g) n) = n_out (gnode g n) /\ n_in (gnode (ignore_restore g) n) = n_in (gnode g n).
Proof.
  intros g HC Hno.
  assert (Hsub : forall l, (forall e, In e l -> In e (g_E g)) ->
            filter (fun e => negb (self_loop g e)) l ++ filter (self_loop g) l = l).
  { intros l Hl. rewrite filter_true, filter_false.
    - apply app_nil_r.
    - intros x Hx. apply Hno. apply Hl. exact Hx.
    - intros x Hx. rewrite Hno by (apply Hl; exact Hx). reflexivity. }
  split.
  - rewrite ignore_restore_E. apply Hsub. intros e He. exact He.
  - intros n Hn. split.
    + rewrite (ignore_restore_out g HC n Hn). apply Hsub. intros e He.
      rewrite (@c_out g HC n Hn) in He. apply in_out_edges in He. tauto.
    + rewrite (ignore_restore_in g HC n Hn). apply Hsub. intros e He.
      rewrite (@c_in g HC n Hn) in He. apply in_in_edges in He. tauto.
Qed.

(* ====================================================================================================== *)
(* Examples on example_graph: edges 0:0->1, 1:1->2, 2:0->1, 3:3->3                                        *)
(* ====================================================================================================== *)

Definition ex_ignored : graph := Eval vm_compute in fst (ignore_self_loops example_graph).
Definition ex_deleted : list nat := Eval vm_compute in snd (ignore_self_loops example_graph).
Definition ex_restored : graph := Eval vm_compute in restore_self_loops ex_ignored ex_deleted.

Example ex_ignored_ok : fst (ignore_self_loops example_graph) = ex_ignored.
Proof. vm_compute. reflexivity. Qed.
Example ex_deleted_ok : snd (ignore_self_loops example_graph) = ex_deleted.
Proof. vm_compute. reflexivity. Qed.
Example ex_restored_ok : ignore_restore example_graph = ex_restored.
Proof. vm_compute. reflexivity. Qed.

Example ex_E_before : g_E example_graph = [0; 1; 2; 3].
Proof. vm_compute. reflexivity. Qed.
Example ex_self_loops : map (self_loop example_graph) [0; 1; 2; 3] = [false; false; false; true].
Proof. vm_compute. reflexivity. Qed.
Example ex_ignore : g_E (fst (ignore_self_loops example_graph)) = [0; 1; 2].
Proof. vm_compute. reflexivity. Qed.
Example ex_ignore_del : snd (ignore_self_loops example_graph) = [3].
Proof. vm_compute. reflexivity. Qed.

Example ex_node3_before : n_out (gnode example_graph 3) = [3] /\ n_in (gnode example_graph 3) = [3].
Proof. vm_compute. split; reflexivity. Qed.
Example ex_node3_ignored : n_out (gnode ex_ignored 3) = [] /\ n_in (gnode ex_ignored 3) = [].
Proof. vm_compute. split; reflexivity. Qed.
Example ex_node3_restored : n_out (gnode ex_restored 3) = [3] /\ n_in (gnode ex_restored 3) = [3].
Proof. vm_compute. split; reflexivity. Qed.
Example ex_node0_ignored : n_out (gnode ex_ignored 0) = [0; 2] /\ n_in (gnode ex_ignored 1) = [0; 2].
Proof. vm_compute. split; reflexivity. Qed.

(* here the self loop is already last everywhere, so the round trip is the identity *)
Example ex_round_trip : ignore_restore example_graph = example_graph.
Proof. vm_compute. reflexivity. Qed.

(* the hypotheses of the three theorems are satisfiable: instantiate them *)
Example ex_T1 : consistent (fst (ignore_self_loops example_graph)).
Proof. apply ignore_self_loops_consistent. exact example_graph_consistent. Qed.

Example ex_T2_hyp : forall e, In e ex_deleted ->
  e_from (gedge ex_ignored e) < length (g_na ex_ignored) /\ e_to (gedge ex_ignored e) < length (g_na ex_ignored).
Proof. intros e H. vm_compute in H. destruct H as [H|[]]. subst e. vm_compute. split; lia. Qed.

Example ex_T2 : g_E (restore_self_loops ex_ignored ex_deleted) = [0; 1; 2; 3].
Proof.
  destruct (restore_self_loops_spec ex_ignored ex_deleted ex_T2_hyp) as (_ & _ & _ & _ & HE & _).
  rewrite HE. reflexivity.
Qed.

Example ex_T3 : consistent (ignore_restore example_graph).
Proof. apply ignore_restore_consistent. exact example_graph_consistent. Qed.

(* a graph where the self loop is NOT last: 1->1, 1->2. The round trip moves edge 0 behind edge 1 in g_E and in
   the adjacency lists of node 0 (Go: append at the end), which is exactly what T3 says. *)
Definition example_graph2 : graph := Eval vm_compute in
  match populate nat Nat.eqb [[1;1];[1;2]] with
  | Ok (_, g) => g
  | Err _ => empty_graph
  end.

Example example_graph2_consistent : consistent example_graph2.
Proof.
  constructor.
  - vm_compute. repeat constructor; cbn; intuition congruence.
  - vm_compute. repeat constructor; cbn; intuition congruence.
  - intros n H. vm_compute in H. list_cases H; vm_compute; lia.
  - intros n H. vm_compute in H. list_cases H; vm_compute; lia.
  - intros n H. vm_compute in H. list_cases H; vm_compute; tauto.
  - intros n H. vm_compute in H. list_cases H; vm_compute; tauto.
  - intros n H. vm_compute in H. list_cases H; vm_compute; reflexivity.
  - intros n H. vm_compute in H. list_cases H; vm_compute; reflexivity.
Qed.

Example ex2_before : g_E example_graph2 = [0; 1] /\ n_out (gnode example_graph2 0) = [0; 1].
Proof. vm_compute. split; reflexivity. Qed.
Example ex2_after :
  g_E (ignore_restore example_graph2) = [1; 0] /\ n_out (gnode (ignore_restore example_graph2) 0) = [1; 0].
Proof. vm_compute. split; reflexivity. Qed.
