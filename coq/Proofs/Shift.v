(* Shift.v — placement of the connected components side by side (autolayout.go:78-126).

   Model: Layout.rightmost, Layout.collect_nodes / collect_edges, Check.collect_all and
   Pipeline.layout_components (the same recursion). Component k is shifted right by shift_k, with
   shift_0 = 0 and shift_(k+1) = shift_k + rightmost g_k + NodeSpacing.

   SH1  rightmost_ge, rightmost_nonneg, last_is_rightmost
   SH2  collect_all_unfold, collect_all_separated, collect_all_x_nonneg
   SH3  collect_all_translation (nodes), collect_all_translation_edges
        layout_components_collect_all: the link between layout_components and collect_all *)
From Autog Require Import Base Graph Phase4 Layout Pipeline Check Positioners CollectProofs.
From Coq Require Import Lqa Lia.
Local Open Scope Q_scope.
Set Implicit Arguments.

(* ================================================================================================ *)
(** * SH1: rightmost *)

Definition rm_step (g : graph) (m : Q) (l : layer) : Q :=
  match last_opt (l_nodes l) with
  | Some n => Qmax' m (nX g n + nW g n)
  | None => m
  end.

Lemma rightmost_eq : forall g, rightmost g = fold_left (rm_step g) (g_L g) 0.
Proof. reflexivity. Qed.

Lemma rm_step_ge : forall g m l, m <= rm_step g m l.
Proof. intros g m l. unfold rm_step. destruct (last_opt (l_nodes l)); [apply Qmax'_l|lra]. Qed.

Lemma rm_fold_ge_init : forall g ls m, m <= fold_left (rm_step g) ls m.
Proof.
  intros g ls; induction ls as [|l t IH]; intros m; cbn [fold_left]; [lra|].
  pose proof (rm_step_ge g m l). pose proof (IH (rm_step g m l)). lra.
Qed.

Lemma rm_fold_ge_last : forall g ls m l b,
  In l ls -> last_opt (l_nodes l) = Some b -> nX g b + nW g b <= fold_left (rm_step g) ls m.
Proof.
  intros g ls; induction ls as [|l0 t IH]; intros m l b Hl Hb; [contradiction|].
  cbn [fold_left]. destruct Hl as [->|Hl].
  - pose proof (rm_fold_ge_init g t (rm_step g m l)) as H.
    assert (H2 : nX g b + nW g b <= rm_step g m l) by (unfold rm_step; rewrite Hb; apply Qmax'_r).
    lra.
  - eapply IH; eauto.
Qed.

(* 0 <= rightmost g, always *)
Theorem rightmost_nonneg : forall g, 0 <= rightmost g.
Proof. intros g. rewrite rightmost_eq. apply rm_fold_ge_init. Qed.

(* the right edge of the last node of every layer is below rightmost *)
Theorem rightmost_ge_last : forall g l b,
  In l (g_L g) -> last_opt (l_nodes l) = Some b -> nX g b + nW g b <= rightmost g.
Proof. intros g l b Hl Hb. rewrite rightmost_eq. eapply rm_fold_ge_last; eauto. Qed.

(* the hypothesis of SH1: in every layer the last node has the right-most right edge *)
Definition last_rightmost (g : graph) : Prop :=
  forall l a b, In l (g_L g) -> In a (l_nodes l) -> last_opt (l_nodes l) = Some b ->
    nX g a + nW g a <= nX g b + nW g b.

Theorem rightmost_ge : forall g n,
  last_rightmost g -> in_layers g n -> nX g n + nW g n <= rightmost g.
Proof.
  intros g n Hlr Hn. unfold in_layers in Hn. apply in_flat_map in Hn. destruct Hn as (l & Hl & Hn).
  destruct (l_nodes l) as [|a t] eqn:E; [contradiction|].
  destruct (last_opt_some _ t a) as (b & Hb).
  pose proof (Hlr l n b Hl) as H1. rewrite E in H1. specialize (H1 Hn Hb).
  pose proof (@rightmost_ge_last g l b Hl) as H2. rewrite E in H2. specialize (H2 Hb). lra.
Qed.
Print Assumptions rightmost_ge.
Print Assumptions rightmost_nonneg.

(* rightmost is attained: it is 0 or the right edge of the last node of some layer *)
Theorem rightmost_attained : forall g,
  rightmost g = 0 \/ exists l b, In l (g_L g) /\ last_opt (l_nodes l) = Some b /\ rightmost g = nX g b + nW g b.
Proof.
  intros g. rewrite rightmost_eq.
  assert (H : forall ls m, (forall l, In l ls -> In l (g_L g)) ->
            fold_left (rm_step g) ls m = m \/
            exists l b, In l (g_L g) /\ last_opt (l_nodes l) = Some b /\ fold_left (rm_step g) ls m = nX g b + nW g b).
  { induction ls as [|l t IH]; intros m Hsub; cbn [fold_left]; [left; reflexivity|].
    destruct (IH (rm_step g m l) (fun l' Hl' => Hsub l' (or_intror Hl'))) as [H|H]; [|right; exact H].
    rewrite H. unfold rm_step. destruct (last_opt (l_nodes l)) as [b|] eqn:Eb; [|left; reflexivity].
    destruct (Qmax'_cases m (nX g b + nW g b)) as [Hm|Hm]; rewrite Hm; [left; reflexivity|].
    right. exists l, b. split; [apply Hsub; left; reflexivity|]. split; [exact Eb|reflexivity]. }
  apply H. auto.
Qed.

(* the no-overlap theorems (Positioners.v: valign_no_overlap_in_layer, packright_no_overlap_in_layer,
   SinkColoringProofs.v: sink_coloring_no_overlap, ns_positioner_no_overlap) all have this conclusion *)
Definition no_overlap (s : Q) (g : graph) : Prop :=
  forall l i j a b, In l (g_L g) -> (i < j)%nat ->
    nth_error (l_nodes l) i = Some a -> nth_error (l_nodes l) j = Some b ->
    nX g a + nW g a + s <= nX g b.

Theorem last_is_rightmost : forall s g,
  0 <= s -> (forall n, in_layers g n -> 0 <= nW g n) -> no_overlap s g -> last_rightmost g.
Proof.
  intros s g Hs Hw Hno l a b Hl Ha Hb.
  destruct (l_nodes l) as [|a0 t] eqn:E; [contradiction|].
  rewrite last_opt_nth_error in Hb.
  apply In_nth_error in Ha. destruct Ha as (i & Hi).
  assert (Hlt : (i < length (a0 :: t))%nat) by (apply nth_error_Some; congruence).
  cbn [length] in Hlt.
  destruct (Nat.eq_dec i (length t)) as [->|Hne].
  - rewrite Hi in Hb. injection Hb as ->. lra.
  - assert (Hij : (i < length t)%nat) by lia.
    pose proof (Hno l i (length t) a b Hl Hij) as H. rewrite E in H. specialize (H Hi Hb).
    assert (Hbl : in_layers g b).
    { apply in_layers_intro with l; [exact Hl|]. rewrite E. eapply nth_error_In; eauto. }
    pose proof (Hw b Hbl). lra.
Qed.
Print Assumptions last_is_rightmost.

Corollary rightmost_ge_no_overlap : forall s g n,
  0 <= s -> (forall n, in_layers g n -> 0 <= nW g n) -> no_overlap s g -> in_layers g n ->
  nX g n + nW g n <= rightmost g.
Proof. intros s g n Hs Hw Hno Hn. apply rightmost_ge; [eapply last_is_rightmost; eauto|exact Hn]. Qed.

(* ================================================================================================ *)
(** * SH2: the structure of collect_all *)

Definition graph0 : graph := mkGraph [] [] [] [] [].

(* shift_k, by the recursion of autolayout.go: shift += rightmost(component) + NodeSpacing *)
Fixpoint shift_at (o : options) (gs : list graph) (s0 : Q) (k : nat) : Q :=
  match k with
  | O => s0
  | S k' => shift_at o gs s0 k' + rightmost (nth k' gs graph0) + o_node_spacing o
  end.

Lemma shift_at_cons : forall o g rest s0 k,
  shift_at o (g :: rest) s0 (S k) = shift_at o rest (s0 + rightmost g + o_node_spacing o) k.
Proof.
  intros o g rest s0 k; induction k as [|k IH]; [reflexivity|].
  change (shift_at o (g :: rest) s0 (S (S k)))
    with (shift_at o (g :: rest) s0 (S k) + rightmost (nth k rest graph0) + o_node_spacing o).
  rewrite IH. reflexivity.
Qed.

(* output nodes / edges of component k *)
Definition comp_nodes (o : options) (gs : list graph) (s0 : Q) (k : nat) : list onode :=
  collect_nodes (o_virtual o) (shift_at o gs s0 k) (nth k gs graph0).
Definition comp_edges (o : options) (gs : list graph) (s0 : Q) (k : nat) : list oedge :=
  collect_edges (shift_at o gs s0 k) (nth k gs graph0).

Lemma concat_map_seq_shift : forall A (F : nat -> list A) n a,
  concat (map F (seq (S a) n)) = concat (map (fun k => F (S k)) (seq a n)).
Proof. intros A F n a. rewrite <- seq_shift, map_map. reflexivity. Qed.

(* collect_all is the concatenation over k of the output of component k, shifted by shift_k *)
Theorem collect_all_unfold : forall o gs s0,
  collect_all o gs s0 =
  (concat (map (comp_nodes o gs s0) (seq 0 (length gs))),
   concat (map (comp_edges o gs s0) (seq 0 (length gs)))).
Proof.
  intros o gs; induction gs as [|g rest IH]; intros s0; [reflexivity|].
  cbn [collect_all length seq map concat]. rewrite IH.
  rewrite !concat_map_seq_shift. f_equal.
  - f_equal. f_equal. apply map_ext. intros k. unfold comp_nodes. rewrite shift_at_cons. reflexivity.
  - f_equal. f_equal. apply map_ext. intros k. unfold comp_edges. rewrite shift_at_cons. reflexivity.
Qed.
Print Assumptions collect_all_unfold.

Lemma in_concat_map_seq : forall A (F : nat -> list A) n x,
  In x (concat (map F (seq 0 n))) <-> exists k, (k < n)%nat /\ In x (F k).
Proof.
  intros A F n x. rewrite in_concat. split.
  - intros (l & Hl & Hx). apply in_map_iff in Hl. destruct Hl as (k & <- & Hk).
    apply in_seq in Hk. exists k. split; [lia|exact Hx].
  - intros (k & Hk & Hx). exists (F k). split; [|exact Hx]. apply in_map, in_seq. lia.
Qed.

(* membership in the output of collect_all *)
Corollary collect_all_In_node : forall o gs s0 a,
  In a (fst (collect_all o gs s0)) <-> exists k, (k < length gs)%nat /\ In a (comp_nodes o gs s0 k).
Proof. intros. rewrite collect_all_unfold. cbn [fst]. apply in_concat_map_seq. Qed.

Corollary collect_all_In_edge : forall o gs s0 e,
  In e (snd (collect_all o gs s0)) <-> exists k, (k < length gs)%nat /\ In e (comp_edges o gs s0 k).
Proof. intros. rewrite collect_all_unfold. cbn [snd]. apply in_concat_map_seq. Qed.

(* per-component hypotheses: (a) x >= 0 on the layers, (b) the hypothesis of SH1, (c) the nodes of the
   component's node list are in its layers (only this direction of "exactly" is needed) *)
Record comp_ok (g : graph) : Prop := mkCompOk {
  co_x : forall n, in_layers g n -> 0 <= nX g n;
  co_last : last_rightmost g;
  co_N : forall n, In n (g_N g) -> in_layers g n }.

Lemma shift_at_step_le : forall o gs s0 k,
  0 <= o_node_spacing o -> shift_at o gs s0 k <= shift_at o gs s0 (S k).
Proof.
  intros o gs s0 k Hs. cbn [shift_at]. pose proof (rightmost_nonneg (nth k gs graph0)). lra.
Qed.

Lemma shift_at_mono : forall o gs s0 i j,
  0 <= o_node_spacing o -> (i <= j)%nat -> shift_at o gs s0 i <= shift_at o gs s0 j.
Proof.
  intros o gs s0 i j Hs Hij. induction Hij as [|j Hij IH]; [lra|].
  pose proof (@shift_at_step_le o gs s0 j Hs). lra.
Qed.

Lemma shift_at_nonneg : forall o gs k, 0 <= o_node_spacing o -> 0 <= shift_at o gs 0 k.
Proof.
  intros o gs k Hs. pose proof (@shift_at_mono o gs 0 0 k Hs (Nat.le_0_l k)) as H. cbn [shift_at] in H. exact H.
Qed.

(* extent of one component: within [shift_k, shift_k + rightmost g_k] *)
Lemma comp_nodes_extent : forall o gs s0 k a,
  comp_ok (nth k gs graph0) -> In a (comp_nodes o gs s0 k) ->
  shift_at o gs s0 k <= on_x a /\ on_x a + on_w a <= shift_at o gs s0 k + rightmost (nth k gs graph0).
Proof.
  intros o gs s0 k a Hok Ha. unfold comp_nodes in Ha. apply collect_nodes_In in Ha.
  destruct Ha as (n & Hn & _ & ->). unfold onode_of. cbn [on_x on_w].
  pose proof (co_N Hok n Hn) as Hl.
  pose proof (co_x Hok n Hl) as Hx. pose proof (@rightmost_ge _ n (co_last Hok) Hl) as Hr.
  unfold nX, nW in *. split; lra.
Qed.

(* SH2, for an arbitrary start shift s0 *)
Theorem comp_nodes_separated : forall o gs s0 i j a b,
  0 <= o_node_spacing o -> (i < j)%nat ->
  comp_ok (nth i gs graph0) -> comp_ok (nth j gs graph0) ->
  In a (comp_nodes o gs s0 i) -> In b (comp_nodes o gs s0 j) ->
  on_x a + on_w a + o_node_spacing o <= on_x b.
Proof.
  intros o gs s0 i j a b Hs Hij Hi Hj Ha Hb.
  destruct (@comp_nodes_extent o gs s0 i a Hi Ha) as [_ Ha2].
  destruct (@comp_nodes_extent o gs s0 j b Hj Hb) as [Hb1 _].
  assert (Hm : shift_at o gs s0 (S i) <= shift_at o gs s0 j) by (apply shift_at_mono; [exact Hs|lia]).
  cbn [shift_at] in Hm. lra.
Qed.

(* SH2 as requested: the output of collect_all o gs 0 is the concatenation of the component outputs;
   nodes of an earlier component end at least NodeSpacing before nodes of a later one; all x >= 0 *)
Theorem collect_all_separated : forall o gs ns es,
  collect_all o gs 0 = (ns, es) ->
  0 <= o_node_spacing o ->
  (forall g, In g gs -> comp_ok g) ->
  ns = concat (map (comp_nodes o gs 0) (seq 0 (length gs))) /\
  (forall i j a b, (i < j < length gs)%nat ->
     In a (comp_nodes o gs 0 i) -> In b (comp_nodes o gs 0 j) ->
     on_x a + on_w a + o_node_spacing o <= on_x b) /\
  (forall a, In a ns -> 0 <= on_x a).
Proof.
  intros o gs ns es Hc Hs Hok. rewrite collect_all_unfold in Hc. injection Hc as <- <-.
  split; [reflexivity|]. split.
  - intros i j a b [Hij Hj] Ha Hb.
    apply (@comp_nodes_separated o gs 0 i j a b); auto; apply Hok, nth_In; lia.
  - intros a Ha. apply in_concat_map_seq in Ha. destruct Ha as (k & Hk & Ha).
    assert (Hg : comp_ok (nth k gs graph0)) by (apply Hok, nth_In; exact Hk).
    destruct (@comp_nodes_extent o gs 0 k a Hg Ha) as [H1 _].
    pose proof (shift_at_nonneg o gs k Hs). lra.
Qed.
Print Assumptions collect_all_separated.

(* ================================================================================================ *)
(** * SH3: every output item is the stored item translated by shift_k *)

Theorem collect_all_translation : forall o gs ns es,
  collect_all o gs 0 = (ns, es) ->
  forall a, In a ns <->
    exists k, (k < length gs)%nat /\
      let g := nth k gs graph0 in
      In (on_id a) (g_N g) /\
      (n_virt (gnode g (on_id a)) = false \/ o_virtual o = true) /\
      on_x a = n_x (gnode g (on_id a)) + shift_at o gs 0 k /\
      on_y a = n_y (gnode g (on_id a)) /\
      on_w a = n_w (gnode g (on_id a)) /\
      on_h a = n_h (gnode g (on_id a)).
Proof.
  intros o gs ns es Hc a. rewrite collect_all_unfold in Hc. injection Hc as <- <-.
  rewrite in_concat_map_seq. split.
  - intros (k & Hk & Ha). exists k. split; [exact Hk|]. cbv zeta.
    unfold comp_nodes in Ha. apply collect_nodes_entry_eq in Ha. destruct Ha as (Hn & Hv & Heq).
    set (n := on_id a) in *. clearbody n. subst a. unfold onode_of. cbn [on_x on_y on_w on_h]. repeat split; auto.
  - intros (k & Hk & Hn & Hv & Hx & Hy & Hw & Hh). exists k. split; [exact Hk|].
    unfold comp_nodes. apply collect_nodes_In. exists (on_id a). split; [exact Hn|]. split.
    + unfold keep_node. destruct Hv as [Hv|Hv]; rewrite Hv; [reflexivity|apply orb_true_r].
    + destruct a as [id x y w h]. unfold onode_of. cbn in *. subst. reflexivity.
Qed.
Print Assumptions collect_all_translation.

(* Qeq form of the x coordinate *)
Corollary collect_all_translation_x : forall o gs ns es a,
  collect_all o gs 0 = (ns, es) -> In a ns ->
  exists k, (k < length gs)%nat /\ In (on_id a) (g_N (nth k gs graph0)) /\
    on_x a == nX (nth k gs graph0) (on_id a) + shift_at o gs 0 k /\
    on_y a = nY (nth k gs graph0) (on_id a) /\
    on_w a = nW (nth k gs graph0) (on_id a) /\ on_h a = nH (nth k gs graph0) (on_id a).
Proof.
  intros o gs ns es a Hc Ha. apply (@collect_all_translation o gs ns es Hc) in Ha.
  destruct Ha as (k & Hk & Hn & _ & Hx & Hy & Hw & Hh). exists k. unfold nX, nY, nW, nH.
  repeat split; auto. rewrite Hx. reflexivity.
Qed.

Definition shift_pt (s : Q) (p : pt) : pt := (fst p + s, snd p).

Theorem collect_all_translation_edges : forall o gs ns es,
  collect_all o gs 0 = (ns, es) ->
  es = concat (map (comp_edges o gs 0) (seq 0 (length gs))) /\
  (forall k, comp_edges o gs 0 k =
     map (fun e => let ed := gedge (nth k gs graph0) e in
                   mkOEdge (e_from ed) (e_to ed) (map (shift_pt (shift_at o gs 0 k)) (e_pts ed)) (e_ahs ed))
         (g_E (nth k gs graph0))) /\
  (forall oe, In oe es <->
     exists k e, (k < length gs)%nat /\ In e (g_E (nth k gs graph0)) /\
       let ed := gedge (nth k gs graph0) e in
       oe_from oe = e_from ed /\ oe_to oe = e_to ed /\ oe_ahs oe = e_ahs ed /\
       oe_pts oe = map (shift_pt (shift_at o gs 0 k)) (e_pts ed)).
Proof.
  intros o gs ns es Hc. rewrite collect_all_unfold in Hc. injection Hc as <- <-.
  split; [reflexivity|]. split; [reflexivity|].
  intros oe. rewrite in_concat_map_seq. split.
  - intros (k & Hk & He). unfold comp_edges, collect_edges in He. apply in_map_iff in He.
    destruct He as (e & <- & He). exists k, e.
    split; [exact Hk|]. split; [exact He|]. cbn [oe_from oe_to oe_ahs oe_pts]. repeat split; reflexivity.
  - intros (k & e & Hk & He & Hf & Ht & Ha & Hp). exists k. split; [exact Hk|].
    unfold comp_edges, collect_edges. apply in_map_iff. exists e. split; [|exact He].
    destruct oe as [f t p a]. cbn in *. subst. reflexivity.
Qed.
Print Assumptions collect_all_translation_edges.

(* pointwise: the i-th point of an output edge is the i-th stored point with x increased by shift_k *)
Corollary shift_pt_nth : forall s (l : list pt) i p,
  nth_error l i = Some p -> nth_error (map (shift_pt s) l) i = Some (fst p + s, snd p).
Proof. intros s l i p H. apply (map_nth_error (shift_pt s)), H. Qed.

(* ================================================================================================ *)
(** * layout_components is collect_all over the laid-out components *)

Theorem layout_components_collect_all : forall o cs s0 ns es xs,
  layout_components o cs s0 = Ok (ns, es, xs) ->
  exists gs, Forall2 (fun c g => exists x, layout_component o c = Ok (g, x)) cs gs /\
             collect_all o gs s0 = (ns, es).
Proof.
  intros o cs; induction cs as [|c rest IH]; intros s0 ns es xs H.
  - cbn in H. injection H as <- <- <-. exists []. split; [constructor|reflexivity].
  - cbn [layout_components] in H.
    destruct (layout_component o c) as [[g x]|e] eqn:Ec; cbn [bind] in H; [|discriminate].
    destruct (layout_components o rest (s0 + rightmost g + o_node_spacing o)) as [[[ns' es'] xs']|e] eqn:Er;
      cbn [bind] in H; [|discriminate].
    injection H as <- <- <-.
    destruct (IH _ _ _ _ Er) as (gs & HF & Hc).
    exists (g :: gs). split; [constructor; [exists x; exact Ec|exact HF]|].
    cbn [collect_all]. rewrite Hc. reflexivity.
Qed.
Print Assumptions layout_components_collect_all.

(* ================================================================================================ *)
(** * Examples *)

(* component A: layers [0;1] and [2]; component B: one layer [0]; laid out as VAlign would *)
Definition sh_gA : graph :=
  mkGraph [mkNode [] [] 0 0 false 0 0 10 4; mkNode [] [] 0 1 false 15 0 20 4; mkNode [] [] 1 0 true (35#2) 9 0 0]
          [mkEdge 0 2 1 1 false false 0 [(5, 4); ((35#2), 9)] false] [0;1;2]%nat [0%nat]
          [mkLayer [0;1]%nat 35 4; mkLayer [2]%nat 0 0].
Definition sh_gB : graph :=
  mkGraph [mkNode [] [] 0 0 false 0 0 8 4] [] [0%nat] [] [mkLayer [0%nat] 8 4].
Definition sh_o : options := mkOptions DepthFirst NetworkSimplex VAlign Straight 1 1 5 10 true.

Lemma sh_no_overlap_A : no_overlap 5 sh_gA.
Proof.
  intros l i j a b Hl Hij Ha Hb. cbn in Hl. destruct Hl as [<-|[<-|[]]]; cbn [l_nodes] in Ha, Hb.
  - assert (Hj : (j < length [0;1]%nat)%nat) by (apply nth_error_Some; rewrite Hb; discriminate).
    cbn [length] in Hj. assert (Hi0 : i = 0%nat) by lia. assert (Hj1 : j = 1%nat) by lia. subst i j.
    cbn in Ha, Hb. injection Ha as <-. injection Hb as <-. vm_compute. discriminate.
  - assert (Hj : (j < length [2]%nat)%nat) by (apply nth_error_Some; rewrite Hb; discriminate).
    cbn [length] in Hj. lia.
Qed.

Lemma sh_in_layers_A : forall n, in_layers sh_gA n -> (n = 0 \/ n = 1 \/ n = 2)%nat.
Proof. intros n H. unfold in_layers in H. cbn in H. intuition. Qed.

Lemma sh_comp_ok_A : comp_ok sh_gA.
Proof.
  constructor.
  - intros n H. apply sh_in_layers_A in H. destruct H as [-> | [-> | ->]]; vm_compute; discriminate.
  - apply last_is_rightmost with (s := 5); [lra| |apply sh_no_overlap_A].
    intros n H. apply sh_in_layers_A in H. destruct H as [-> | [-> | ->]]; vm_compute; discriminate.
  - intros n H. unfold in_layers. cbn in H |- *. intuition.
Qed.

Lemma sh_comp_ok_B : comp_ok sh_gB.
Proof.
  constructor.
  - intros n H. unfold in_layers in H. cbn in H. destruct H as [<-|[]]. vm_compute. discriminate.
  - intros l a b Hl Ha Hb. cbn in Hl. destruct Hl as [<-|[]]. cbn in Ha, Hb.
    destruct Ha as [<-|[]]. injection Hb as <-. lra.
  - intros n H. unfold in_layers. cbn in H |- *. exact H.
Qed.

Example rightmost_ex : rightmost sh_gA == 35 /\ rightmost sh_gB == 8 /\
  forall n, in_layers sh_gA n -> nX sh_gA n + nW sh_gA n <= rightmost sh_gA.
Proof.
  split; [vm_compute; reflexivity|]. split; [vm_compute; reflexivity|].
  intros n Hn. apply rightmost_ge; [apply sh_comp_ok_A|exact Hn].
Qed.

Example collect_all_separated_ex :
  let '(ns, es) := collect_all sh_o [sh_gA; sh_gB; sh_gA] 0 in
  map (fun a => (on_id a, Qred (on_x a))) ns =
    [(0%nat, 0); (1%nat, 15); (2%nat, 35#2); (0%nat, 40); (0%nat, 53); (1%nat, 68); (2%nat, 141#2)] /\
  (forall i j a b, (i < j < 3)%nat ->
     In a (comp_nodes sh_o [sh_gA; sh_gB; sh_gA] 0 i) -> In b (comp_nodes sh_o [sh_gA; sh_gB; sh_gA] 0 j) ->
     on_x a + on_w a + 5 <= on_x b) /\
  (forall a, In a ns -> 0 <= on_x a).
Proof.
  destruct (collect_all sh_o [sh_gA; sh_gB; sh_gA] 0) as [ns es] eqn:E.
  assert (Hok : forall g, In g [sh_gA; sh_gB; sh_gA] -> comp_ok g).
  { intros g [<-|[<-|[<-|[]]]]; auto using sh_comp_ok_A, sh_comp_ok_B. }
  assert (Hs : 0 <= o_node_spacing sh_o) by (cbn; lra).
  destruct (@collect_all_separated sh_o _ ns es E Hs Hok) as (_ & Hsep & Hpos).
  split; [|split; [exact Hsep|exact Hpos]].
  revert E. vm_compute. intros E. injection E as <- <-. reflexivity.
Qed.

Example collect_all_translation_ex :
  forall a, In a (fst (collect_all sh_o [sh_gA; sh_gB] 0)) -> on_id a = 0%nat -> on_x a == 0 \/ on_x a == 40.
Proof.
  intros a Ha Hid. destruct (collect_all sh_o [sh_gA; sh_gB] 0) as [ns es] eqn:E. cbn [fst] in Ha.
  destruct (@collect_all_translation_x sh_o _ ns es a E Ha) as (k & Hk & _ & Hx & _).
  rewrite Hid in Hx. cbn [length] in Hk.
  destruct k as [|[|k]]; [left|right|lia]; rewrite Hx; vm_compute; reflexivity.
Qed.
