(* SinkColoringProofs.v — proofs about the default x-positioner (SinkColoring) and the NetworkSimplex
   positioner of the executable model in Model/Phase4.v.

   Main results (all conditional on the run returning [Ok g']; fuel exhaustion [Err (ErrFuel 41/42)] is not
   excluded here):
     S1  sink_coloring_no_overlap (sink_coloring_consecutive, sink_coloring_disjoint, phase4_sink_coloring_no_overlap)
           for i < j in a layer: x'(a) + w(a) + s <= x'(b)
     S2  sink_coloring_nonneg (needs layers ⊆ g_N), sink_coloring_nonneg_gen (needs 0 <= s instead)
     S3  sink_coloring_frame, sink_coloring_layer_height(_ge,_ge_old), sink_coloring_layers_wf
     S4  block_width_dominates : after the painting pass, w(n) <= bw[roots n] for every node of a layer
     S5  ns_positioner_x, ns_positioner_separation, ns_positioner_no_overlap (conditional on [ns_feasible])
   Key lemmas: pb_sweep_noshift (a sweep with the flag down changed nothing and every consecutive pair of every
   layer satisfies the separation inequality), place_block_ok (a successful placeBlock ends in such a round),
   set_color_spec (invariants of the recursive painting). *)
From Autog Require Import Base Graph Phase2 Phase4 Positioners.
From Coq Require Import Lqa Lia Qround.
Local Open Scope Q_scope.

(* ====================================================================================== *)
(** * 0. Generic fold lemmas, qget / set_nth                                               *)
(* ====================================================================================== *)

Lemma fold_left_inv : forall (St X : Type) (F : St -> X -> St) (P : St -> Prop),
  (forall st x, P st -> P (F st x)) -> forall xs st, P st -> P (fold_left F xs st).
Proof.
  intros St X F P HF xs; induction xs as [|x t IH]; intros st H; cbn [fold_left]; [exact H|].
  apply IH, HF, H.
Qed.

(* a fold whose steps either leave the state alone or raise a sticky flag: if the flag is down at the end,
   no step did anything *)
Lemma fold_left_noflag : forall (St X : Type) (F : St -> X -> St) (flag : St -> bool),
  (forall st x, flag (F st x) = false -> F st x = st) ->
  forall xs st, flag (fold_left F xs st) = false ->
    fold_left F xs st = st /\ forall x, In x xs -> F st x = st.
Proof.
  intros St X F flag HF xs; induction xs as [|x t IH]; intros st H; cbn [fold_left] in *.
  - split; [reflexivity|intros x []].
  - destruct (IH _ H) as [E1 E2]. rewrite E1 in H. pose proof (HF _ _ H) as E3.
    split; [congruence|]. intros y [<-|Hy]; [exact E3|].
    specialize (E2 y Hy). rewrite E3 in E2. exact E2.
Qed.

Lemma in_iota : forall n a k, In k (iota a n) <-> (a <= k < a + n)%nat.
Proof.
  induction n as [|n IH]; intros a k; cbn [iota In].
  - lia.
  - rewrite IH. lia.
Qed.

Lemma length_iota : forall n a, length (iota a n) = n.
Proof. induction n as [|n IH]; intros a; cbn [iota length]; [reflexivity|rewrite IH; reflexivity]. Qed.

Lemma nth_iota : forall n a i, (i < n)%nat -> nth i (iota a n) 0%nat = (a + i)%nat.
Proof.
  induction n as [|n IH]; intros a i H; [lia|]. cbn [iota]. destruct i as [|i]; cbn [nth]; [lia|].
  rewrite IH by lia. lia.
Qed.

Lemma length_set_nth : forall A (l : list A) i a, length (set_nth l i a) = length l.
Proof. intros. unfold set_nth. apply length_upd. Qed.

Lemma qget_set_nth : forall xc i v j,
  qget (set_nth xc i v) j = if (Nat.eqb j i && Nat.ltb i (length xc))%bool then v else qget xc j.
Proof. intros. unfold qget, set_nth. apply nth_upd. Qed.

Lemma qget_set_nth_same : forall xc i v, (i < length xc)%nat -> qget (set_nth xc i v) i = v.
Proof. intros. unfold qget, set_nth. apply nth_upd_same. assumption. Qed.

Lemma qget_set_nth_other : forall xc i v j, j <> i -> qget (set_nth xc i v) j = qget xc j.
Proof. intros. unfold qget, set_nth. apply nth_upd_other. assumption. Qed.

Lemma qget_upd_max_ge : forall bm i v j, qget bm j <= qget (upd bm i (fun m => Qmax' m v)) j.
Proof.
  intros. unfold qget. rewrite nth_upd.
  destruct (Nat.eqb j i && Nat.ltb i (length bm))%bool; [apply Qmax'_l|apply Qle_refl].
Qed.

Lemma qget_upd_max_same : forall bm i v, (i < length bm)%nat -> v <= qget (upd bm i (fun m => Qmax' m v)) i.
Proof. intros. unfold qget. rewrite nth_upd_same by assumption. apply Qmax'_r. Qed.

Lemma qget_repeat0 : forall n i, qget (repeat (0 : Q) n) i = 0.
Proof.
  induction n as [|n IH]; intros i; cbn [repeat]; unfold qget in *; destruct i; cbn [nth]; try reflexivity.
  apply IH.
Qed.

(* writing [F n] at every index of [ns] *)
Section FoldSet.
  Variable F : nat -> Q.
  Let step := fun (xc : list Q) n => set_nth xc n (F n).

  Lemma fold_set_length : forall ns xc, length (fold_left step ns xc) = length xc.
  Proof.
    induction ns as [|x t IH]; intros xc; cbn [fold_left]; [reflexivity|].
    rewrite IH. apply length_set_nth.
  Qed.

  Lemma fold_set_notin : forall ns xc n, ~ In n ns -> qget (fold_left step ns xc) n = qget xc n.
  Proof.
    induction ns as [|x t IH]; intros xc n H; cbn [fold_left]; [reflexivity|].
    rewrite IH by (intro; apply H; right; assumption).
    apply qget_set_nth_other. intro; apply H; left; congruence.
  Qed.

  Lemma fold_set_in : forall ns xc n, In n ns -> (n < length xc)%nat -> qget (fold_left step ns xc) n = F n.
  Proof.
    induction ns as [|x t IH]; intros xc n H Hlt; cbn [fold_left]; [destruct H|].
    destruct (in_dec Nat.eq_dec n t) as [Hin|Hnin].
    - apply IH; [exact Hin|]. unfold step. rewrite length_set_nth. exact Hlt.
    - destruct H as [->|H]; [|contradiction].
      rewrite fold_set_notin by exact Hnin. unfold step. apply qget_set_nth_same, Hlt.
  Qed.
End FoldSet.

(* node updates whose function depends on the node index *)
Section FoldUpdF.
  Variable F : nat -> node -> node.
  Let step := fun (g : graph) n => upd_node g n (F n).

  Lemma fold_updF_xonly : (forall n nd, set_x 0 (F n nd) = set_x 0 nd) ->
    forall ns g, xonly g (fold_left step ns g).
  Proof.
    intros HF ns; induction ns as [|n t IH]; intros g; cbn [fold_left]; [apply xonly_refl|].
    eapply xonly_trans; [apply xonly_upd_node, HF|apply IH].
  Qed.

  Lemma fold_updF_notin : forall ns g m, ~ In m ns -> gnode (fold_left step ns g) m = gnode g m.
  Proof.
    induction ns as [|n t IH]; intros g m Hm; cbn [fold_left]; [reflexivity|].
    rewrite IH by (intro; apply Hm; right; assumption).
    apply gnode_upd_node_other. intro; apply Hm; left; congruence.
  Qed.

  Lemma fold_updF_in : forall ns g m, NoDup ns -> In m ns -> (m < length (g_na g))%nat ->
    gnode (fold_left step ns g) m = F m (gnode g m).
  Proof.
    induction ns as [|n t IH]; intros g m Hnd Hin Hlt; cbn [fold_left]; [destruct Hin|].
    inversion Hnd as [|? ? Hnotin Hnd']; subst.
    destruct Hin as [->|Hin].
    - rewrite fold_updF_notin by assumption. apply gnode_upd_node_same, Hlt.
    - rewrite IH; [|assumption|assumption|unfold step; rewrite length_na_upd_node; assumption].
      unfold step. rewrite gnode_upd_node_other; [reflexivity|]. intro; subst; contradiction.
  Qed.
End FoldUpdF.

(* ====================================================================================== *)
(** * 1. Decomposition of exec_sink_coloring                                               *)
(* ====================================================================================== *)

Definition paint_step (g : graph) (na : nat) (acc : res (scst * list Q)) (n : nat) : res (scst * list Q) :=
  do a <- acc;
  let '(s, bw) := a in
  do r <- set_color (S na) g n s;
  let '(_, w, s) := r in
  Ok (s, upd bw (nget (roots s) n) (fun b => Qmax' b w)).

Definition sc_init (g : graph) : scst * list Q :=
  let na := length (g_na g) in (mkSc (iota 0 na) (iota 0 na) [], repeat (0 : Q) na).

Definition sc_paint (g : graph) : res (scst * list Q) :=
  fold_left (paint_step g (length (g_na g))) (flat_map l_nodes (rev (g_L g))) (Ok (sc_init g)).

Definition sc_pack (spacing : Q) (g : graph) (bw : list Q) (rt : list nat) : list Q :=
  fold_left (fun xc l =>
               fst (fold_left (fun (acc : list Q * Q) n => let '(xc, x) := acc in
                                 (set_nth xc n x, x + bw_of bw rt n + spacing)) (l_nodes l) (xc, 0)))
            (g_L g) (repeat (0 : Q) (length (g_na g))).

Definition sc_bm (g : graph) (rt : list nat) (xc : list Q) : list Q :=
  fold_left (fun bm n => upd bm (nget rt n) (fun m => Qmax' m (qget xc n))) (flat_map l_nodes (g_L g))
            (repeat (0 : Q) (length (g_na g))).

Definition sc_lmax (g : graph) : nat := fold_left (fun m l => Nat.max m (length (l_nodes l))) (g_L g) 0%nat.

Definition sc_g1 (g : graph) (xc : list Q) : graph :=
  fold_left (fun g l => fold_left (fun g n => upd_node g n (set_x (qget xc n))) (l_nodes l) g) (g_L g) g.

Definition sc_finish (g : graph) (xc : list Q) : graph :=
  let g1 := sc_g1 g xc in
  with_L g1 (map (fun l => set_layer_h (layer_height g1 (l_nodes l) (l_h l)) l) (g_L g1)).

Definition sc_fuel (g : graph) : nat := (S (length (g_N g) * length (g_N g)) + 8)%nat.

Lemma exec_sink_coloring_eq : forall s g,
  exec_sink_coloring s g =
  (do r <- sc_paint g;
   let '(sc, bw) := r in
   let rt := roots sc in
   let xc0 := sc_pack s g bw rt in
   do xc <- place_block (sc_fuel g) g bw rt s (sc_lmax g) xc0 (sc_bm g rt xc0);
   Ok (sc_finish g xc)).
Proof. intros s g. reflexivity. Qed.

Lemma exec_sink_coloring_inv : forall s g g',
  exec_sink_coloring s g = Ok g' ->
  exists sc bw xc,
    sc_paint g = Ok (sc, bw) /\
    place_block (sc_fuel g) g bw (roots sc) s (sc_lmax g) (sc_pack s g bw (roots sc))
                (sc_bm g (roots sc) (sc_pack s g bw (roots sc))) = Ok xc /\
    g' = sc_finish g xc.
Proof.
  intros s g g' H. rewrite exec_sink_coloring_eq in H.
  destruct (sc_paint g) as [[sc bw]|e] eqn:E1; cbn [bind] in H; [|discriminate].
  cbv zeta in H.
  destruct (place_block (sc_fuel g) g bw (roots sc) s (sc_lmax g) (sc_pack s g bw (roots sc))
                        (sc_bm g (roots sc) (sc_pack s g bw (roots sc)))) as [xc|e] eqn:E2;
    cbn [bind] in H; [|discriminate].
  inversion H; subst. exists sc, bw, xc. repeat split; assumption.
Qed.

(* ====================================================================================== *)
(** * 2. The sweep of placeBlock                                                           *)
(* ====================================================================================== *)

Definition pst := (list Q * list Q * bool)%type.

Definition pb_step (bw : list Q) (rt : list nat) (spacing : Q) (k : nat) (st : pst) (l : layer) : pst :=
  let ns := l_nodes l in
  let len := length ns in
  if Nat.leb len k then st
  else if Nat.eqb k (len - 1) && Nat.ltb 0 k then pb_fix bw rt spacing (nth (k - 1) ns 0%nat) (nth k ns 0%nat) st
  else if Nat.ltb k (len - 1) then pb_fix bw rt spacing (nth k ns 0%nat) (nth (S k) ns 0%nat) st
  else st.

Lemma pb_sweep_eq : forall g bw rt s lmax st,
  pb_sweep g bw rt s lmax st =
  fold_left (fun st k => fold_left (pb_step bw rt s k) (g_L g) st) (iota 0 lmax) st.
Proof. reflexivity. Qed.

Definition pflag (st : pst) : bool := snd st.

Lemma pb_fix_false : forall bw rt s a b xc bm sh,
  pflag (pb_fix bw rt s a b (xc, bm, sh)) = false ->
  pb_fix bw rt s a b (xc, bm, sh) = (xc, bm, sh) /\ qget xc a + bw_of bw rt a + s <= qget xc b.
Proof.
  intros bw rt s a b xc bm sh H. unfold pb_fix in *.
  destruct (Qlt_bool (qget xc b) (qget xc a + bw_of bw rt a + s)) eqn:E.
  - cbn in H. discriminate.
  - split; [reflexivity|]. unfold Qlt_bool in E. apply Bool.negb_false_iff in E.
    apply Qle_bool_iff, E.
Qed.

Lemma pb_fix_noflag : forall bw rt s a b st, pflag (pb_fix bw rt s a b st) = false -> pb_fix bw rt s a b st = st.
Proof. intros bw rt s a b [[xc bm] sh] H. apply pb_fix_false, H. Qed.

Lemma pb_step_noflag : forall bw rt s k st l, pflag (pb_step bw rt s k st l) = false -> pb_step bw rt s k st l = st.
Proof.
  intros bw rt s k st l H. unfold pb_step in *.
  destruct (Nat.leb (length (l_nodes l)) k); [reflexivity|].
  destruct (Nat.eqb k (length (l_nodes l) - 1) && Nat.ltb 0 k)%bool; [apply pb_fix_noflag, H|].
  destruct (Nat.ltb k (length (l_nodes l) - 1)); [apply pb_fix_noflag, H|reflexivity].
Qed.

Lemma pb_step_pair : forall bw rt s k xc bm sh l,
  pflag (pb_step bw rt s k (xc, bm, sh) l) = false -> (S k < length (l_nodes l))%nat ->
  qget xc (nth k (l_nodes l) 0%nat) + bw_of bw rt (nth k (l_nodes l) 0%nat) + s <= qget xc (nth (S k) (l_nodes l) 0%nat).
Proof.
  intros bw rt s k xc bm sh l H Hk. unfold pb_step in H.
  destruct (Nat.leb_spec (length (l_nodes l)) k) as [L|_]; [lia|].
  destruct (Nat.eqb_spec k (length (l_nodes l) - 1)) as [E|_]; [lia|]. cbn [andb] in H.
  destruct (Nat.ltb_spec k (length (l_nodes l) - 1)) as [_|L]; [|lia].
  apply pb_fix_false in H. apply H.
Qed.

Theorem pb_sweep_noshift : forall g bw rt s lmax xc bm xc' bm',
  pb_sweep g bw rt s lmax (xc, bm, false) = (xc', bm', false) ->
  xc' = xc /\ bm' = bm /\
  forall l k, In l (g_L g) -> (k < lmax)%nat -> (S k < length (l_nodes l))%nat ->
    qget xc (nth k (l_nodes l) 0%nat) + bw_of bw rt (nth k (l_nodes l) 0%nat) + s
    <= qget xc (nth (S k) (l_nodes l) 0%nat).
Proof.
  intros g bw rt s lmax xc bm xc' bm' H. rewrite pb_sweep_eq in H.
  assert (Hin : forall k st, pflag (fold_left (pb_step bw rt s k) (g_L g) st) = false ->
                             fold_left (pb_step bw rt s k) (g_L g) st = st /\
                             forall l, In l (g_L g) -> pb_step bw rt s k st l = st).
  { intros k st. apply (fold_left_noflag _ _ (pb_step bw rt s k) pflag). intros st0 l. apply pb_step_noflag. }
  assert (Hf : pflag (fold_left (fun st k => fold_left (pb_step bw rt s k) (g_L g) st) (iota 0 lmax) (xc, bm, false)) = false)
    by (rewrite H; reflexivity).
  apply (fold_left_noflag _ _ (fun st k => fold_left (pb_step bw rt s k) (g_L g) st) pflag) in Hf.
  2:{ intros st k Hk. apply Hin, Hk. }
  destruct Hf as [E1 E2]. rewrite E1 in H. inversion H; subst xc' bm'.
  split; [reflexivity|split; [reflexivity|]].
  intros l k Hl Hk Hlen.
  assert (Hk' : In k (iota 0 lmax)) by (apply in_iota; lia).
  specialize (E2 k Hk').
  assert (Hfl : pflag (fold_left (pb_step bw rt s k) (g_L g) (xc, bm, false)) = false) by (rewrite E2; reflexivity).
  destruct (Hin k _ Hfl) as [_ E3]. specialize (E3 l Hl).
  apply (pb_step_pair bw rt s k xc bm false l); [rewrite E3; reflexivity|exact Hlen].
Qed.

(* invariants of the sweep: the length of xc, non-negativity of blockmax *)
Definition pinv (L : nat) (st : pst) : Prop :=
  length (fst (fst st)) = L /\ forall i, 0 <= qget (snd (fst st)) i.

Lemma pb_fix_pinv : forall L bw rt s a b st, pinv L st -> pinv L (pb_fix bw rt s a b st).
Proof.
  intros L bw rt s a b [[xc bm] sh] [H1 H2]. unfold pb_fix.
  destruct (Qlt_bool (qget xc b) (qget xc a + bw_of bw rt a + s)); [|split; assumption].
  unfold pinv; cbn [fst snd] in *. split; [rewrite length_set_nth; exact H1|].
  intros i. eapply Qle_trans; [apply H2|apply qget_upd_max_ge].
Qed.

Lemma pb_step_pinv : forall L bw rt s k st l, pinv L st -> pinv L (pb_step bw rt s k st l).
Proof.
  intros L bw rt s k st l H. unfold pb_step.
  destruct (Nat.leb (length (l_nodes l)) k); [exact H|].
  destruct (Nat.eqb k (length (l_nodes l) - 1) && Nat.ltb 0 k)%bool; [apply pb_fix_pinv, H|].
  destruct (Nat.ltb k (length (l_nodes l) - 1)); [apply pb_fix_pinv, H|exact H].
Qed.

Lemma pb_sweep_pinv : forall L g bw rt s lmax st, pinv L st -> pinv L (pb_sweep g bw rt s lmax st).
Proof.
  intros L g bw rt s lmax st H. rewrite pb_sweep_eq.
  apply fold_left_inv; [|exact H]. intros st0 k H0.
  apply fold_left_inv; [|exact H0]. intros st1 l H1. apply pb_step_pinv, H1.
Qed.

(* ====================================================================================== *)
(** * 3. place_block                                                                       *)
(* ====================================================================================== *)

Definition pb_xval (g : graph) (bw : list Q) (rt : list nat) (bm : list Q) (n : nat) : Q :=
  let x := qget bm (nget rt n) in Qmax' x (x + (bw_of bw rt n - nW g n) / 2).

Definition pb_init (g : graph) (bw : list Q) (rt : list nat) (xc bm : list Q) : list Q :=
  fold_left (fun xc n => set_nth xc n (pb_xval g bw rt bm n)) (g_N g) xc.

Lemma place_block_S : forall f g bw rt s lmax xc bm,
  place_block (S f) g bw rt s lmax xc bm =
  let '(xc', bm', sh) := pb_sweep g bw rt s lmax (pb_init g bw rt xc bm, bm, false) in
  if sh then place_block f g bw rt s lmax xc' bm' else Ok xc'.
Proof. reflexivity. Qed.

(* a successful placeBlock ends with a round in which the sweep pushed nothing *)
Theorem place_block_ok : forall fuel g bw rt s lmax xc bm xcf,
  place_block fuel g bw rt s lmax xc bm = Ok xcf ->
  (forall i, 0 <= qget bm i) ->
  exists xc0 bm0,
    length xc0 = length xc /\ (forall i, 0 <= qget bm0 i) /\
    xcf = pb_init g bw rt xc0 bm0 /\
    pb_sweep g bw rt s lmax (xcf, bm0, false) = (xcf, bm0, false).
Proof.
  induction fuel as [|f IH]; intros g bw rt s lmax xc bm xcf H Hbm; [discriminate|].
  rewrite place_block_S in H.
  destruct (pb_sweep g bw rt s lmax (pb_init g bw rt xc bm, bm, false)) as [[xc' bm'] sh] eqn:E.
  assert (Hinv : pinv (length xc) (xc', bm', sh)).
  { rewrite <- E. apply pb_sweep_pinv. split; cbn [fst snd]; [|exact Hbm].
    unfold pb_init. apply fold_set_length with (F := pb_xval g bw rt bm). }
  destruct Hinv as [Hl Hb]; cbn [fst snd] in Hl, Hb.
  destruct sh.
  - destruct (IH g bw rt s lmax xc' bm' xcf H Hb) as (xc0 & bm0 & A1 & A2 & A3 & A4).
    exists xc0, bm0. repeat split; try assumption. congruence.
  - inversion H; subst xc'. destruct (pb_sweep_noshift g bw rt s lmax _ _ _ _ E) as (E1 & E2 & _).
    subst bm'. exists xc, bm. split; [reflexivity|]. split; [exact Hbm|]. split; [exact E1|].
    rewrite <- E1 in E. exact E.
Qed.

(* ====================================================================================== *)
(** * 4. The final write-back and the frame property (S3)                                  *)
(* ====================================================================================== *)

Lemma sc_g1_flat : forall g xc,
  sc_g1 g xc = fold_left (fun g n => upd_node g n (set_x (qget xc n))) (flat_map l_nodes (g_L g)) g.
Proof. intros g xc. unfold sc_g1. apply fold_layers_flat. Qed.

Lemma sc_g1_xonly : forall g xc, xonly g (sc_g1 g xc).
Proof.
  intros g xc. rewrite sc_g1_flat.
  apply (fold_updF_xonly (fun n => set_x (qget xc n))). intros n nd. reflexivity.
Qed.

Lemma sc_finish_eq : forall g xc,
  sc_finish g xc =
  with_L (sc_g1 g xc) (map (fun l => set_layer_h (layer_height g (l_nodes l) (l_h l)) l) (g_L g)).
Proof.
  intros g xc. unfold sc_finish. cbv zeta. rewrite (xonly_L _ _ (sc_g1_xonly g xc)). f_equal.
  apply map_ext. intros l. f_equal. apply layer_height_ext. apply xonly_nH, sc_g1_xonly.
Qed.

Lemma sc_finish_gnode : forall g xc n, gnode (sc_finish g xc) n = gnode (sc_g1 g xc) n.
Proof. intros g xc n. rewrite sc_finish_eq. reflexivity. Qed.

Lemma sc_finish_x : forall g xc n, layers_wf g -> in_layers g n -> nX (sc_finish g xc) n = qget xc n.
Proof.
  intros g xc n [Hnd Hlt] Hn. unfold nX. rewrite sc_finish_gnode, sc_g1_flat.
  rewrite (fold_updF_in (fun n => set_x (qget xc n))); [reflexivity|exact Hnd|exact Hn|apply Hlt, Hn].
Qed.

Lemma sc_finish_notin : forall g xc n, ~ in_layers g n -> gnode (sc_finish g xc) n = gnode g n.
Proof.
  intros g xc n Hn. rewrite sc_finish_gnode, sc_g1_flat.
  apply (fold_updF_notin (fun n => set_x (qget xc n))). exact Hn.
Qed.

(** ** S3: frame. Only [n_x] of nodes that occur in a layer and [l_h] of the layers change. *)
Theorem sink_coloring_frame : forall s g g',
  exec_sink_coloring s g = Ok g' ->
  (forall n, nW g' n = nW g n) /\ (forall n, nH g' n = nH g n) /\ (forall n, nY g' n = nY g n) /\
  (forall n, set_x 0 (gnode g' n) = set_x 0 (gnode g n)) /\
  (forall n, ~ in_layers g n -> gnode g' n = gnode g n) /\
  map l_nodes (g_L g') = map l_nodes (g_L g) /\ map l_w (g_L g') = map l_w (g_L g) /\
  length (g_L g') = length (g_L g) /\
  length (g_na g') = length (g_na g) /\ g_N g' = g_N g /\ g_E g' = g_E g /\ g_ea g' = g_ea g.
Proof.
  intros s g g' H. apply exec_sink_coloring_inv in H. destruct H as (sc & bw & xc & _ & _ & ->).
  pose proof (sc_g1_xonly g xc) as X.
  assert (X' : forall n, set_x 0 (gnode (sc_finish g xc) n) = set_x 0 (gnode g n)).
  { intros n. rewrite sc_finish_gnode. apply X. }
  split. { intros n. unfold nW. change (n_w (gnode (sc_finish g xc) n)) with (n_w (set_x 0 (gnode (sc_finish g xc) n))).
           rewrite X'. reflexivity. }
  split. { intros n. unfold nH. change (n_h (gnode (sc_finish g xc) n)) with (n_h (set_x 0 (gnode (sc_finish g xc) n))).
           rewrite X'. reflexivity. }
  split. { intros n. unfold nY. change (n_y (gnode (sc_finish g xc) n)) with (n_y (set_x 0 (gnode (sc_finish g xc) n))).
           rewrite X'. reflexivity. }
  split; [exact X'|].
  split; [intros n Hn; apply sc_finish_notin, Hn|].
  rewrite sc_finish_eq. cbn [with_L g_L g_na g_N g_E g_ea].
  destruct X as (X1 & X2 & X3 & X4 & X5 & X6).
  split. { rewrite map_map. apply map_ext. intros l. reflexivity. }
  split. { rewrite map_map. apply map_ext. intros l. reflexivity. }
  split. { apply map_length. }
  split; [exact X1|]. split; [exact X3|]. split; [exact X4|exact X2].
Qed.
Print Assumptions sink_coloring_frame.

Theorem sink_coloring_layer_height : forall s g g' k,
  exec_sink_coloring s g = Ok g' ->
  l_h (nth k (g_L g') layer0) =
  layer_height g (l_nodes (nth k (g_L g) layer0)) (l_h (nth k (g_L g) layer0)).
Proof.
  intros s g g' k H. apply exec_sink_coloring_inv in H. destruct H as (sc & bw & xc & _ & _ & ->).
  rewrite sc_finish_eq. cbn [with_L g_L].
  set (F := fun l => set_layer_h (layer_height g (l_nodes l) (l_h l)) l).
  destruct (Nat.lt_ge_cases k (length (g_L g))) as [Hk|Hk].
  - rewrite (nth_indep _ layer0 (F layer0)) by (rewrite map_length; exact Hk).
    rewrite map_nth. reflexivity.
  - rewrite !nth_overflow; [reflexivity|exact Hk|rewrite map_length; exact Hk].
Qed.
Print Assumptions sink_coloring_layer_height.

Theorem sink_coloring_layer_height_ge : forall s g g' k n,
  exec_sink_coloring s g = Ok g' ->
  In n (l_nodes (nth k (g_L g) layer0)) -> nH g n <= l_h (nth k (g_L g') layer0).
Proof.
  intros s g g' k n H Hn. rewrite (sink_coloring_layer_height s g g' k H). apply layer_height_ge, Hn.
Qed.
Print Assumptions sink_coloring_layer_height_ge.

Theorem sink_coloring_layer_height_ge_old : forall s g g' k,
  exec_sink_coloring s g = Ok g' -> l_h (nth k (g_L g) layer0) <= l_h (nth k (g_L g') layer0).
Proof. intros s g g' k H. rewrite (sink_coloring_layer_height s g g' k H). apply layer_height_ge_init. Qed.

Theorem sink_coloring_layers_wf : forall s g g',
  exec_sink_coloring s g = Ok g' -> layers_wf g -> layers_wf g'.
Proof.
  intros s g g' H Hwf. pose proof (sink_coloring_frame s g g' H) as F.
  apply (layers_wf_transfer g); [apply F|apply F|exact Hwf].
Qed.

(* ====================================================================================== *)
(** * 5. Separation by block widths (core of S1), non-negativity (S2)                      *)
(* ====================================================================================== *)

Lemma sc_lmax_ge : forall g l, In l (g_L g) -> (length (l_nodes l) <= sc_lmax g)%nat.
Proof.
  intros g. unfold sc_lmax.
  assert (G : forall ls m0, (m0 <= fold_left (fun m l => Nat.max m (length (l_nodes l))) ls m0)%nat /\
                            forall l, In l ls -> (length (l_nodes l) <= fold_left (fun m l => Nat.max m (length (l_nodes l))) ls m0)%nat).
  { induction ls as [|x t IH]; intros m0; cbn [fold_left].
    - split; [lia|intros l []].
    - destruct (IH (Nat.max m0 (length (l_nodes x)))) as [A B]. split; [lia|].
      intros l [<-|Hl]; [lia|apply B, Hl]. }
  intros l Hl. apply (G (g_L g) 0%nat), Hl.
Qed.

(* what a successful run looks like *)
Lemma exec_sink_coloring_final : forall s g g',
  exec_sink_coloring s g = Ok g' ->
  exists sc bw xc0 bm0,
    sc_paint g = Ok (sc, bw) /\
    length xc0 = length (g_na g) /\ (forall i, 0 <= qget bm0 i) /\
    g' = sc_finish g (pb_init g bw (roots sc) xc0 bm0) /\
    forall l k, In l (g_L g) -> (S k < length (l_nodes l))%nat ->
      let xc := pb_init g bw (roots sc) xc0 bm0 in
      qget xc (nth k (l_nodes l) 0%nat) + bw_of bw (roots sc) (nth k (l_nodes l) 0%nat) + s
      <= qget xc (nth (S k) (l_nodes l) 0%nat).
Proof.
  intros s g g' H. apply exec_sink_coloring_inv in H. destruct H as (sc & bw & xc & Hp & Hb & ->).
  apply place_block_ok in Hb.
  2:{ unfold sc_bm. apply fold_left_inv with (P := fun bm => forall i, 0 <= qget bm i).
      - intros bm n Hbm j. eapply Qle_trans; [apply Hbm|apply qget_upd_max_ge].
      - intros j. rewrite qget_repeat0. apply Qle_refl. }
  destruct Hb as (xc0 & bm0 & A1 & A2 & A3 & A4).
  exists sc, bw, xc0, bm0. split; [exact Hp|].
  split.
  { rewrite A1. unfold sc_pack.
    apply fold_left_inv with (P := fun xc => length xc = length (g_na g)); [|apply repeat_length].
    intros xc1 l Hl.
    assert (G : forall ns acc, length (fst (fold_left (fun (acc : list Q * Q) n => let '(xc, x) := acc in
                 (set_nth xc n x, x + bw_of bw (roots sc) n + s)) ns acc)) = length (fst acc)).
    { induction ns as [|n t IH]; intros [xc2 x]; cbn [fold_left]; [reflexivity|].
      rewrite IH. cbn [fst]. apply length_set_nth. }
    rewrite G. exact Hl. }
  split; [exact A2|]. split; [rewrite A3; reflexivity|].
  intros l k Hl Hk. cbv zeta. rewrite <- A3.
  destruct (pb_sweep_noshift _ _ _ _ _ _ _ _ _ A4) as (_ & _ & P).
  apply P; [exact Hl| |exact Hk]. pose proof (sc_lmax_ge g l Hl). lia.
Qed.

(** Consecutive nodes of a layer are separated by the block width of the left one plus the spacing. *)
Theorem sink_coloring_consecutive_bw : forall s g g' sc bw l k a b,
  exec_sink_coloring s g = Ok g' -> layers_wf g -> sc_paint g = Ok (sc, bw) ->
  In l (g_L g) -> nth_error (l_nodes l) k = Some a -> nth_error (l_nodes l) (S k) = Some b ->
  nX g' a + bw_of bw (roots sc) a + s <= nX g' b.
Proof.
  intros s g g' sc bw l k a b H Hwf Hp Hl Ha Hb.
  destruct (exec_sink_coloring_final s g g' H) as (sc' & bw' & xc0 & bm0 & Hp' & _ & _ & -> & P).
  rewrite Hp in Hp'. inversion Hp'; subst sc' bw'.
  assert (Hk : (S k < length (l_nodes l))%nat) by (apply nth_error_Some; congruence).
  specialize (P l k Hl Hk). cbv zeta in P.
  rewrite (nth_error_nth _ _ 0%nat Ha), (nth_error_nth _ _ 0%nat Hb) in P.
  rewrite !sc_finish_x; [exact P|exact Hwf| |exact Hwf|].
  - eapply in_layers_intro; [exact Hl|eapply nth_error_In, Hb].
  - eapply in_layers_intro; [exact Hl|eapply nth_error_In, Ha].
Qed.

(** ** S2: resulting x coordinates are non-negative *)
Theorem sink_coloring_nonneg : forall s g g' n,
  exec_sink_coloring s g = Ok g' -> layers_wf g ->
  (forall n, in_layers g n -> In n (g_N g)) ->
  in_layers g n -> 0 <= nX g' n.
Proof.
  intros s g g' n H Hwf HN Hn.
  destruct (exec_sink_coloring_final s g g' H) as (sc & bw & xc0 & bm0 & _ & Hlen & Hbm & -> & _).
  rewrite sc_finish_x by assumption. unfold pb_init.
  rewrite (fold_set_in (pb_xval g bw (roots sc) bm0)); [|apply HN, Hn|rewrite Hlen; apply Hwf, Hn].
  unfold pb_xval. cbv zeta. eapply Qle_trans; [apply Hbm|apply Qmax'_l].
Qed.
Print Assumptions sink_coloring_nonneg.

(* ====================================================================================== *)
(** * 6. The painting pass: block widths dominate member widths (S4)                       *)
(* ====================================================================================== *)

Lemma nget_set_nth : forall l i v j,
  nget (set_nth l i v) j = if (Nat.eqb j i && Nat.ltb i (length l))%bool then v else nget l j.
Proof. intros. unfold nget, set_nth. apply nth_upd. Qed.

(* [sc_done g n s]: a call of set_color on [n] in state [s] returns at once, without touching the state *)
Definition sc_done (g : graph) (n : nat) (s : scst) : bool :=
  negb (Nat.eqb (nget (colors s) n) n) || Nat.eqb (length (n_in (gnode g n))) 0 ||
  match candidate_edge g n with
  | None => true
  | Some e =>
      negb (Nat.eqb (nget (colors s) (connected_node g e n)) (connected_node g e n)) ||
      existsb (sc_crosses g e) (prio_get (prio s) (layer_of g n))
  end.

Lemma set_color_S : forall f g n s,
  set_color (S f) g n s =
  if sc_done g n s then Ok (n, nW g n, s) else
  match candidate_edge g n with
  | None => Ok (n, nW g n, s)
  | Some e =>
      let m := connected_node g e n in
      let s1 := mkSc (colors s) (roots s) ((layer_of g n, prio_get (prio s) (layer_of g n) ++ [e]) :: prio s) in
      do r <- set_color f g m s1;
      let '(root, rootw, s2) := r in
      Ok (root, Qmax' (nW g n) rootw, mkSc (set_nth (colors s2) m n) (set_nth (roots s2) n root) (prio s2))
  end.
Proof.
  intros f g n s. cbn [set_color]. unfold sc_done.
  destruct (negb (Nat.eqb (nget (colors s) n) n)); [reflexivity|].
  destruct (Nat.eqb (length (n_in (gnode g n))) 0); [reflexivity|]. cbn [orb].
  destruct (candidate_edge g n) as [e|]; [|reflexivity].
  destruct (negb (Nat.eqb (nget (colors s) (connected_node g e n)) (connected_node g e n))); [reflexivity|].
  cbn [orb].
  destruct (existsb (sc_crosses g e) (prio_get (prio s) (layer_of g n))); reflexivity.
Qed.

Lemma first_viable_viable : forall g es e, first_viable g es = Some e -> viable g e = true.
Proof.
  intros g es; induction es as [|x t IH]; intros e H; cbn [first_viable] in H; [discriminate|].
  destruct (viable g x) eqn:V; [inversion H; subst; exact V|apply IH, H].
Qed.

Lemma candidate_edge_viable : forall g n e, candidate_edge g n = Some e -> viable g e = true.
Proof.
  intros g n e H. unfold candidate_edge in H.
  destruct (fold_left _ (n_in (gnode g n)) None) as [e'|].
  - destruct (viable g e') eqn:V; [inversion H; subst; exact V|eapply first_viable_viable, H].
  - eapply first_viable_viable, H.
Qed.

Lemma viable_connected_neq : forall g e n, viable g e = true -> connected_node g e n <> n.
Proof.
  intros g e n H. unfold viable in H. apply Bool.andb_true_iff in H. destruct H as [H _].
  apply Bool.negb_true_iff in H. unfold self_loop in H. apply Nat.eqb_neq in H.
  unfold connected_node. destruct (Nat.eqb_spec (e_to (gedge g e)) n) as [E|E]; congruence.
Qed.

Definition sc_wf (na : nat) (s : scst) : Prop :=
  length (colors s) = na /\ length (roots s) = na /\ forall i, (i < na)%nat -> (nget (roots s) i < na)%nat.

(* the order in which the painting state evolves: painted nodes stay painted, priority lists only grow *)
Definition sc_le (s s' : scst) : Prop :=
  (forall m, nget (colors s) m <> m -> nget (colors s') m <> m) /\
  (forall k x, In x (prio_get (prio s) k) -> In x (prio_get (prio s') k)).

Lemma sc_le_refl : forall s, sc_le s s.
Proof. intros s. split; auto. Qed.

Lemma sc_le_trans : forall a b c, sc_le a b -> sc_le b c -> sc_le a c.
Proof. intros a b c [A1 A2] [B1 B2]. split; auto. Qed.

Lemma sc_done_mono : forall g n s s', sc_le s s' -> sc_done g n s = true -> sc_done g n s' = true.
Proof.
  intros g n s s' [L1 L2] H. unfold sc_done in *.
  apply Bool.orb_true_iff in H. destruct H as [H|H].
  - apply Bool.orb_true_iff in H. destruct H as [H|H].
    + apply Bool.negb_true_iff, Nat.eqb_neq, L1 in H.
      apply Nat.eqb_neq, Bool.negb_true_iff in H. rewrite H. reflexivity.
    + rewrite H. rewrite Bool.orb_true_r. reflexivity.
  - apply Bool.orb_true_iff. right.
    destruct (candidate_edge g n) as [e|]; [|reflexivity].
    apply Bool.orb_true_iff in H. destruct H as [H|H].
    + apply Bool.negb_true_iff, Nat.eqb_neq, L1 in H.
      apply Nat.eqb_neq, Bool.negb_true_iff in H. rewrite H. reflexivity.
    + apply Bool.orb_true_iff. right. apply existsb_exists in H. destruct H as (x & Hx & Hc).
      apply existsb_exists. exists x. split; [apply L2, Hx|exact Hc].
Qed.

Lemma set_color_spec : forall g na fuel n s root w s',
  set_color fuel g n s = Ok (root, w, s') ->
  (n < na)%nat -> sc_wf na s ->
  sc_wf na s' /\ (root < na)%nat /\ nW g n <= w /\ sc_le s s' /\ sc_done g n s' = true /\
  (forall k, sc_done g k s = true -> nget (roots s') k = nget (roots s) k).
Proof.
  intros g na fuel; induction fuel as [|f IH]; intros n s root w s' H Hn Hwf; [discriminate|].
  rewrite set_color_S in H. destruct (sc_done g n s) eqn:D.
  { inversion H; subst. repeat split; try apply Hwf; auto using sc_le_refl. apply Qle_refl. }
  destruct (candidate_edge g n) as [e|] eqn:C.
  2:{ exfalso. unfold sc_done in D. rewrite C in D. rewrite Bool.orb_true_r in D. discriminate. }
  cbv zeta in H.
  set (m := connected_node g e n) in *.
  set (s1 := mkSc (colors s) (roots s) ((layer_of g n, prio_get (prio s) (layer_of g n) ++ [e]) :: prio s)) in *.
  destruct (set_color f g m s1) as [[[root0 rootw] s2]|err] eqn:R; cbn [bind] in H; [|discriminate].
  inversion H; subst root w s'. clear H.
  (* facts from D = false *)
  unfold sc_done in D. rewrite C in D. fold m in D.
  apply Bool.orb_false_iff in D. destruct D as [D D3].
  apply Bool.orb_false_iff in D. destruct D as [D1 D2].
  apply Bool.orb_false_iff in D3. destruct D3 as [D3 D4].
  apply Bool.negb_false_iff, Nat.eqb_eq in D1.
  apply Bool.negb_false_iff, Nat.eqb_eq in D3.
  assert (Hmn : m <> n) by (apply viable_connected_neq, (candidate_edge_viable g n), C).
  destruct Hwf as (W1 & W2 & W3).
  assert (Hm : (m < na)%nat).
  { destruct (Nat.lt_ge_cases m na) as [L|L]; [exact L|].
    unfold nget in D3. rewrite nth_overflow in D3 by (rewrite W1; exact L). lia. }
  assert (Hwf1 : sc_wf na s1) by (unfold s1, sc_wf; cbn [colors roots]; auto).
  assert (Hle1 : sc_le s s1).
  { split; [auto|]. intros k x Hx. unfold s1. cbn [prio prio_get].
    destruct (Z.eqb_spec (layer_of g n) k) as [E|E]; [|exact Hx].
    subst k. apply in_or_app. left. exact Hx. }
  destruct (IH m s1 root0 rootw s2 R Hm Hwf1) as (V1 & V2 & V3 & V4 & V5 & V6).
  destruct V1 as (U1 & U2 & U3).
  split.
  { unfold sc_wf. cbn [colors roots]. rewrite !length_set_nth. split; [exact U1|]. split; [exact U2|].
    intros i Hi. rewrite nget_set_nth.
    destruct (Nat.eqb i n && Nat.ltb n (length (roots s2)))%bool; [exact V2|apply U3, Hi]. }
  split; [exact V2|].
  split; [apply Qmax'_l|].
  split.
  { destruct V4 as [V4a V4b]. split.
    - intros k Hk. cbn [colors]. rewrite nget_set_nth.
      destruct (Nat.eqb_spec k m) as [E|E]; cbn [andb].
      + destruct (Nat.ltb m (length (colors s2))); [subst k; auto|]. apply V4a. exact Hk.
      + apply V4a. exact Hk.
    - intros k x Hx. cbn [prio]. apply V4b. apply Hle1. exact Hx. }
  split.
  { unfold sc_done. rewrite C. fold m. cbn [colors prio].
    apply Bool.orb_true_iff. right. apply Bool.orb_true_iff. left.
    rewrite nget_set_nth, Nat.eqb_refl.
    assert (L : Nat.ltb m (length (colors s2)) = true) by (apply Nat.ltb_lt; rewrite U1; exact Hm).
    rewrite L. cbn [andb]. apply Bool.negb_true_iff, Nat.eqb_neq. auto. }
  intros k Hk. cbn [roots]. rewrite nget_set_nth.
  destruct (Nat.eqb_spec k n) as [E|E]; cbn [andb].
  - exfalso. subst k. unfold sc_done in Hk. rewrite C in Hk. fold m in Hk.
    rewrite D1, D2, D4, D3 in Hk. rewrite !Nat.eqb_refl in Hk. cbn in Hk. discriminate.
  - rewrite V6; [reflexivity|]. eapply sc_done_mono; [exact Hle1|exact Hk].
Qed.

Definition paint_inv (g : graph) (na : nat) (vis : list nat) (s : scst) (bw : list Q) : Prop :=
  sc_wf na s /\ length bw = na /\
  forall n, In n vis -> sc_done g n s = true /\ nW g n <= qget bw (nget (roots s) n).

Lemma paint_fold_err : forall g na ns e, fold_left (paint_step g na) ns (Err e) = Err e.
Proof. intros g na ns e; induction ns as [|n t IH]; cbn [fold_left]; [reflexivity|]. exact IH. Qed.

Lemma paint_fold_inv : forall g na ns vis s0 bw0 sf bwf,
  fold_left (paint_step g na) ns (Ok (s0, bw0)) = Ok (sf, bwf) ->
  (forall n, In n ns -> (n < na)%nat) ->
  paint_inv g na vis s0 bw0 -> paint_inv g na (vis ++ ns) sf bwf.
Proof.
  intros g na ns; induction ns as [|n t IH]; intros vis s0 bw0 sf bwf H Hlt Hinv; cbn [fold_left] in H.
  - inversion H; subst. rewrite app_nil_r. exact Hinv.
  - unfold paint_step at 2 in H. cbn [bind] in H.
    destruct (set_color (S na) g n s0) as [[[root w] s1]|e] eqn:R; cbn [bind] in H.
    2:{ rewrite paint_fold_err in H. discriminate. }
    replace (vis ++ n :: t) with ((vis ++ [n]) ++ t) by (rewrite <- app_assoc; reflexivity).
    apply (IH _ _ _ _ _ H); [intros k Hk; apply Hlt; right; exact Hk|].
    destruct Hinv as (I1 & I2 & I3).
    assert (Hn : (n < na)%nat) by (apply Hlt; left; reflexivity).
    destruct (set_color_spec g na (S na) n s0 root w s1 R Hn I1) as (V1 & V2 & V3 & V4 & V5 & V6).
    split; [exact V1|]. split; [rewrite length_upd; exact I2|].
    intros k Hk. apply in_app_or in Hk. destruct Hk as [Hk|[<-|[]]].
    + destruct (I3 k Hk) as [J1 J2]. split; [eapply sc_done_mono; eassumption|].
      rewrite (V6 k J1). eapply Qle_trans; [exact J2|apply qget_upd_max_ge].
    + split; [exact V5|]. eapply Qle_trans; [exact V3|]. apply qget_upd_max_same.
      rewrite I2. apply V1, Hn.
Qed.

Lemma in_layers_rev : forall g n, In n (flat_map l_nodes (rev (g_L g))) <-> in_layers g n.
Proof.
  intros g n. unfold in_layers. rewrite !in_flat_map. split; intros (l & Hl & Hn); exists l; split; auto.
  - apply in_rev. exact Hl.
  - apply in_rev in Hl. exact Hl.
Qed.

(** ** S4: after the painting pass the width of a block is at least the width of every member *)
Theorem block_width_dominates : forall g sc bw,
  sc_paint g = Ok (sc, bw) ->
  (forall n, in_layers g n -> (n < length (g_na g))%nat) ->
  forall n, in_layers g n -> nW g n <= bw_of bw (roots sc) n.
Proof.
  intros g sc bw H Hlt n Hn. unfold sc_paint, sc_init in H. cbv zeta in H.
  apply (paint_fold_inv g (length (g_na g)) _ []) in H.
  - destruct H as (_ & _ & H). cbn [app] in H. apply H. apply in_layers_rev, Hn.
  - intros k Hk. apply Hlt, in_layers_rev, Hk.
  - split.
    + unfold sc_wf. cbn [colors roots]. rewrite !length_iota. split; [reflexivity|]. split; [reflexivity|].
      intros i Hi. unfold nget. rewrite nth_iota by exact Hi. lia.
    + split; [apply repeat_length|]. intros k [].
Qed.
Print Assumptions block_width_dominates.

(* ====================================================================================== *)
(** * 7. S1: nodes of a layer never overlap and keep the configured spacing                *)
(* ====================================================================================== *)

Theorem sink_coloring_consecutive : forall s g g' l k a b,
  exec_sink_coloring s g = Ok g' -> layers_wf g ->
  In l (g_L g) -> nth_error (l_nodes l) k = Some a -> nth_error (l_nodes l) (S k) = Some b ->
  nX g' a + nW g a + s <= nX g' b.
Proof.
  intros s g g' l k a b H Hwf Hl Ha Hb.
  destruct (exec_sink_coloring_inv s g g' H) as (sc & bw & xc & Hp & _ & _).
  pose proof (sink_coloring_consecutive_bw s g g' sc bw l k a b H Hwf Hp Hl Ha Hb) as P.
  assert (Hin : in_layers g a) by (eapply in_layers_intro; [exact Hl|eapply nth_error_In, Ha]).
  pose proof (block_width_dominates g sc bw Hp (proj2 Hwf) a Hin) as Q. lra.
Qed.
Print Assumptions sink_coloring_consecutive.

Theorem sink_coloring_no_overlap : forall s g g' l i j a b,
  exec_sink_coloring s g = Ok g' -> layers_wf g -> sizes_ok s g ->
  In l (g_L g) -> (i < j)%nat ->
  nth_error (l_nodes l) i = Some a -> nth_error (l_nodes l) j = Some b ->
  nX g' a + nW g a + s <= nX g' b.
Proof.
  intros s g g' l i j a b H Hwf Hsz Hl Hij Ha. revert b.
  induction j as [|j IH]; intros b Hb; [lia|].
  destruct (Nat.eq_dec i j) as [E|E].
  - subst j. eapply sink_coloring_consecutive; eassumption.
  - assert (Hj : (j < length (l_nodes l))%nat).
    { assert (S j < length (l_nodes l))%nat by (apply nth_error_Some; congruence). lia. }
    destruct (nth_error (l_nodes l) j) as [c|] eqn:Hc; [|apply nth_error_None in Hc; lia].
    assert (P1 : nX g' a + nW g a + s <= nX g' c) by (apply IH; [lia|reflexivity]).
    pose proof (sink_coloring_consecutive s g g' l j c b H Hwf Hl Hc Hb) as P2.
    pose proof (sizes_ok_layer s g l Hsz Hl c (nth_error_In _ _ Hc)) as Wc.
    destruct Hsz as [Hs _]. lra.
Qed.
Print Assumptions sink_coloring_no_overlap.

(** Rectangles of one layer are pairwise disjoint in x (stated with the widths of the result). *)
Corollary sink_coloring_disjoint : forall s g g' l i j a b,
  exec_sink_coloring s g = Ok g' -> layers_wf g -> sizes_ok s g ->
  In l (g_L g) -> (i < j)%nat ->
  nth_error (l_nodes l) i = Some a -> nth_error (l_nodes l) j = Some b ->
  nX g' a + nW g' a <= nX g' b.
Proof.
  intros s g g' l i j a b H Hwf Hsz Hl Hij Ha Hb.
  pose proof (sink_coloring_no_overlap s g g' l i j a b H Hwf Hsz Hl Hij Ha Hb) as P.
  destruct (sink_coloring_frame s g g' H) as (W & _). rewrite W. destruct Hsz as [Hs _]. lra.
Qed.
Print Assumptions sink_coloring_disjoint.

(** The same through [phase4]: the y-assignment that follows does not touch x. *)
Theorem phase4_sink_coloring_no_overlap : forall p g g'' l i j a b,
  Nat.eqb (length (g_N g)) 1 = false ->
  phase4 SinkColoring p g = Ok g'' -> layers_wf g -> sizes_ok (node_spacing p) g ->
  In l (g_L g) -> (i < j)%nat ->
  nth_error (l_nodes l) i = Some a -> nth_error (l_nodes l) j = Some b ->
  nX g'' a + nW g a + node_spacing p <= nX g'' b.
Proof.
  intros p g g'' l i j a b H1 H Hwf Hsz Hl Hij Ha Hb. unfold phase4 in H. rewrite H1 in H.
  destruct (exec_sink_coloring (node_spacing p) g) as [g'|e] eqn:E; cbn [bind] in H; [|discriminate].
  inversion H; subst g''. rewrite !assign_y_nX.
  eapply sink_coloring_no_overlap; eassumption.
Qed.
Print Assumptions phase4_sink_coloring_no_overlap.

(* ====================================================================================== *)
(** * 7b. S2 again, without the assumption on [g_N]: every intermediate coordinate is >= 0   *)
(* ====================================================================================== *)

Definition qnonneg (l : list Q) : Prop := forall i, 0 <= qget l i.

Lemma qnonneg_repeat0 : forall n, qnonneg (repeat (0 : Q) n).
Proof. intros n i. rewrite qget_repeat0. apply Qle_refl. Qed.

Lemma qnonneg_set_nth : forall xc n v, qnonneg xc -> 0 <= v -> qnonneg (set_nth xc n v).
Proof.
  intros xc n v H Hv i. rewrite qget_set_nth.
  destruct (Nat.eqb i n && Nat.ltb n (length xc))%bool; [exact Hv|apply H].
Qed.

Lemma qnonneg_upd_max : forall bm k v, qnonneg bm -> qnonneg (upd bm k (fun m => Qmax' m v)).
Proof. intros bm k v H i. eapply Qle_trans; [apply H|apply qget_upd_max_ge]. Qed.

Lemma paint_fold_bw_nonneg : forall g na ns s0 bw0 sf bwf,
  fold_left (paint_step g na) ns (Ok (s0, bw0)) = Ok (sf, bwf) -> qnonneg bw0 -> qnonneg bwf.
Proof.
  intros g na ns; induction ns as [|n t IH]; intros s0 bw0 sf bwf H Hb; cbn [fold_left] in H.
  - inversion H; subst. exact Hb.
  - unfold paint_step at 2 in H. cbn [bind] in H.
    destruct (set_color (S na) g n s0) as [[[root w] s1]|e]; cbn [bind] in H.
    + eapply IH; [exact H|]. apply qnonneg_upd_max, Hb.
    + rewrite paint_fold_err in H. discriminate.
Qed.

Lemma sc_paint_bw_nonneg : forall g sc bw, sc_paint g = Ok (sc, bw) -> qnonneg bw.
Proof.
  intros g sc bw H. unfold sc_paint, sc_init in H. cbv zeta in H.
  eapply paint_fold_bw_nonneg; [exact H|apply qnonneg_repeat0].
Qed.

Lemma sc_pack_nonneg : forall s g bw rt, 0 <= s -> qnonneg bw -> qnonneg (sc_pack s g bw rt).
Proof.
  intros s g bw rt Hs Hbw. unfold sc_pack.
  apply fold_left_inv with (P := qnonneg); [|apply qnonneg_repeat0].
  intros xc l Hxc.
  assert (G : forall ns (acc : list Q * Q), qnonneg (fst acc) -> 0 <= snd acc ->
            qnonneg (fst (fold_left (fun (acc : list Q * Q) n => let '(xc, x) := acc in
                 (set_nth xc n x, x + bw_of bw rt n + s)) ns acc))).
  { induction ns as [|n t IH]; intros [xc2 x] H1 H2; cbn [fold_left]; [exact H1|].
    cbn [fst snd] in H1, H2. apply IH; cbn [fst snd].
    - apply qnonneg_set_nth; assumption.
    - pose proof (Hbw (nget rt n)) as B. unfold bw_of. lra. }
  apply G; cbn [fst snd]; [exact Hxc|apply Qle_refl].
Qed.

Definition pinv2 (st : pst) : Prop := qnonneg (fst (fst st)) /\ qnonneg (snd (fst st)).

Lemma pb_fix_pinv2 : forall bw rt s a b st, 0 <= s -> qnonneg bw -> pinv2 st -> pinv2 (pb_fix bw rt s a b st).
Proof.
  intros bw rt s a b [[xc bm] sh] Hs Hbw [H1 H2]. unfold pb_fix. cbn [fst snd] in H1, H2.
  destruct (Qlt_bool (qget xc b) (qget xc a + bw_of bw rt a + s)); [|split; assumption].
  split; cbn [fst snd].
  - apply qnonneg_set_nth; [exact H1|]. pose proof (H1 a) as A. pose proof (Hbw (nget rt a)) as B.
    unfold bw_of. lra.
  - apply qnonneg_upd_max, H2.
Qed.

Lemma pb_sweep_pinv2 : forall g bw rt s lmax st, 0 <= s -> qnonneg bw -> pinv2 st ->
  pinv2 (pb_sweep g bw rt s lmax st).
Proof.
  intros g bw rt s lmax st Hs Hbw H. rewrite pb_sweep_eq.
  apply fold_left_inv; [|exact H]. intros st0 k H0.
  apply fold_left_inv; [|exact H0]. intros st1 l H1. unfold pb_step.
  destruct (Nat.leb (length (l_nodes l)) k); [exact H1|].
  destruct (Nat.eqb k (length (l_nodes l) - 1) && Nat.ltb 0 k)%bool; [apply pb_fix_pinv2; assumption|].
  destruct (Nat.ltb k (length (l_nodes l) - 1)); [apply pb_fix_pinv2; assumption|exact H1].
Qed.

Lemma pb_init_nonneg : forall g bw rt xc bm, qnonneg xc -> qnonneg bm -> qnonneg (pb_init g bw rt xc bm).
Proof.
  intros g bw rt xc bm Hx Hb. unfold pb_init. apply fold_left_inv with (P := qnonneg); [|exact Hx].
  intros xc1 n H1. apply qnonneg_set_nth; [exact H1|]. unfold pb_xval. cbv zeta.
  eapply Qle_trans; [apply Hb|apply Qmax'_l].
Qed.

Lemma place_block_nonneg : forall fuel g bw rt s lmax xc bm xcf,
  place_block fuel g bw rt s lmax xc bm = Ok xcf ->
  0 <= s -> qnonneg bw -> qnonneg xc -> qnonneg bm -> qnonneg xcf.
Proof.
  induction fuel as [|f IH]; intros g bw rt s lmax xc bm xcf H Hs Hbw Hx Hb; [discriminate|].
  rewrite place_block_S in H.
  destruct (pb_sweep g bw rt s lmax (pb_init g bw rt xc bm, bm, false)) as [[xc' bm'] sh] eqn:E.
  assert (Hinv : pinv2 (xc', bm', sh)).
  { rewrite <- E. apply pb_sweep_pinv2; [exact Hs|exact Hbw|]. split; cbn [fst snd]; [|exact Hb].
    apply pb_init_nonneg; assumption. }
  destruct Hinv as [I1 I2]; cbn [fst snd] in I1, I2.
  destruct sh.
  - eapply IH; eassumption.
  - inversion H; subst. exact I1.
Qed.

Theorem sink_coloring_nonneg_gen : forall s g g' n,
  exec_sink_coloring s g = Ok g' -> layers_wf g -> 0 <= s -> in_layers g n -> 0 <= nX g' n.
Proof.
  intros s g g' n H Hwf Hs Hn.
  destruct (exec_sink_coloring_inv s g g' H) as (sc & bw & xc & Hp & Hb & ->).
  rewrite sc_finish_x by assumption.
  pose proof (sc_paint_bw_nonneg g sc bw Hp) as Hbw.
  apply (place_block_nonneg _ _ _ _ _ _ _ _ _ Hb Hs Hbw).
  - apply sc_pack_nonneg; assumption.
  - unfold sc_bm. apply fold_left_inv with (P := qnonneg); [|apply qnonneg_repeat0].
    intros bm k Hbm. apply qnonneg_upd_max, Hbm.
Qed.
Print Assumptions sink_coloring_nonneg_gen.

(* ====================================================================================== *)
(** * 8. S5: the NetworkSimplex positioner, conditional on a feasible auxiliary layering   *)
(* ====================================================================================== *)

Definition ns_idx (g : graph) (n : nat) : nat :=
  match index_of n (g_N g) with Some i => i | None => 0%nat end.

Definition ns_g0 (g : graph) : graph :=
  with_L g (map (fun l => set_layer_h (layer_height g (l_nodes l) (l_h l)) l) (g_L g)).

Definition ns_xs (g : graph) : list nat := flat_map l_nodes (g_L (ns_g0 g)).

Definition ns_g1 (g a : graph) : graph :=
  fold_left (fun g' n => upd_node g' n (set_x (inQ (layer_of a (ns_idx g n)) - nW g' n / 2))) (ns_xs g) (ns_g0 g).

Definition ns_lbound (g a : graph) (n0 : nat) : Q :=
  fold_left (fun m n => Qmin' m (nX (ns_g1 g a) n)) (ns_xs g) (nX (ns_g1 g a) n0).

Definition ns_finish (g a : graph) : graph :=
  match ns_xs g with
  | [] => ns_g1 g a
  | n0 :: _ => fold_left (fun g' n => upd_node g' n (shift_x (ns_lbound g a n0))) (g_N (ns_g1 g a)) (ns_g1 g a)
  end.

Definition ns_params (th : Z) (g : graph) : nsparams := mkNsParams th (Z.of_nat (length (g_N g))) 2.

Lemma exec_ns_positioner_eq : forall th f s g,
  exec_ns_positioner th f s g =
  (do a <- assign_layers NetworkSimplex (ns_params th g) (aux_graph f s g); Ok (ns_finish g a)).
Proof.
  intros th f s g. unfold exec_ns_positioner, ns_params.
  destruct (assign_layers NetworkSimplex _ (aux_graph f s g)) as [a|e]; cbn [bind]; [|reflexivity].
  unfold ns_finish, ns_lbound, ns_g1, ns_xs, ns_g0, ns_idx, shift_x. cbv zeta.
  destruct (flat_map l_nodes (g_L (with_L g (map (fun l => set_layer_h (layer_height g (l_nodes l) (l_h l)) l) (g_L g)))))
    as [|n0 t]; reflexivity.
Qed.

Lemma ns_xs_eq : forall g, ns_xs g = flat_map l_nodes (g_L g).
Proof.
  intros g. unfold ns_xs, ns_g0. cbn [with_L g_L].
  rewrite !flat_map_concat_map, map_map. reflexivity.
Qed.

Lemma fold_left_ext_inv : forall (St X : Type) (P : St -> Prop) (F G : St -> X -> St),
  (forall st x, P st -> F st x = G st x) -> (forall st x, P st -> P (G st x)) ->
  forall xs st, P st -> fold_left F xs st = fold_left G xs st.
Proof.
  intros St X P F G HFG HP xs; induction xs as [|x t IH]; intros st H; cbn [fold_left]; [reflexivity|].
  rewrite HFG by exact H. apply IH, HP, H.
Qed.

Lemma ns_g1_eq : forall g a,
  ns_g1 g a =
  fold_left (fun g' n => upd_node g' n (set_x (inQ (layer_of a (ns_idx g n)) - nW g n / 2))) (ns_xs g) (ns_g0 g).
Proof.
  intros g a. unfold ns_g1.
  apply fold_left_ext_inv with (P := fun g' => forall n, nW g' n = nW g n).
  - intros g' n H. rewrite H. reflexivity.
  - intros g' n H m. transitivity (nW g' m); [|apply H].
    apply xonly_nW, xonly_upd_node. intros nd. reflexivity.
  - intros n. reflexivity.
Qed.

Lemma ns_g1_xonly : forall g a, xonly (ns_g0 g) (ns_g1 g a).
Proof.
  intros g a. rewrite ns_g1_eq.
  apply (fold_updF_xonly (fun n => set_x (inQ (layer_of a (ns_idx g n)) - nW g n / 2))).
  intros n nd. reflexivity.
Qed.

Lemma ns_g1_x : forall g a n, layers_wf g -> in_layers g n ->
  nX (ns_g1 g a) n = inQ (layer_of a (ns_idx g n)) - nW g n / 2.
Proof.
  intros g a n [Hnd Hlt] Hn. unfold nX. rewrite ns_g1_eq, ns_xs_eq.
  rewrite (fold_updF_in (fun n => set_x (inQ (layer_of a (ns_idx g n)) - nW g n / 2)));
    [reflexivity|exact Hnd|exact Hn|apply Hlt, Hn].
Qed.

(** The x assigned by the NetworkSimplex positioner: the auxiliary layer of the node is the x of its centre,
    shifted so that the leftmost node is at 0. *)
Theorem ns_positioner_x : forall th f s g g',
  exec_ns_positioner th f s g = Ok g' -> layers_wf g -> NoDup (g_N g) ->
  (forall n, in_layers g n -> In n (g_N g)) ->
  exists a lb,
    assign_layers NetworkSimplex (ns_params th g) (aux_graph f s g) = Ok a /\
    forall n, in_layers g n -> nX g' n = inQ (layer_of a (ns_idx g n)) - nW g n / 2 - lb.
Proof.
  intros th f s g g' H Hwf HND HN. rewrite exec_ns_positioner_eq in H.
  destruct (assign_layers NetworkSimplex (ns_params th g) (aux_graph f s g)) as [a|e]; cbn [bind] in H; [|discriminate].
  inversion H; subst g'. clear H. exists a.
  unfold ns_finish. destruct (ns_xs g) as [|n0 t] eqn:E.
  - exists 0. split; [reflexivity|]. intros n Hn. exfalso. unfold in_layers in Hn.
    rewrite <- ns_xs_eq, E in Hn. destruct Hn.
  - exists (ns_lbound g a n0). split; [reflexivity|]. intros n Hn.
    pose proof (ns_g1_xonly g a) as X.
    assert (EN : g_N (ns_g1 g a) = g_N g) by (destruct X as (_ & _ & X3 & _); exact X3).
    rewrite EN. unfold nX. rewrite fold_upd_in_nodup; [|exact HND|apply HN, Hn|].
    + unfold shift_x. cbn [set_x n_x]. fold (nX (ns_g1 g a) n). rewrite ns_g1_x by assumption. reflexivity.
    + rewrite (xonly_len _ _ X). unfold ns_g0. cbn [with_L g_na]. apply Hwf, Hn.
Qed.
Print Assumptions ns_positioner_x.

(* feasibility of an auxiliary layering for the separation edges of [aux_graph] *)
Definition ns_feasible (s : Q) (g a : graph) : Prop :=
  forall l k p n, In l (g_L g) ->
    nth_error (l_nodes l) k = Some p -> nth_error (l_nodes l) (S k) = Some n ->
    (Qceiling (nW g p / 2 + nW g n / 2 + s) <= layer_of a (ns_idx g n) - layer_of a (ns_idx g p))%Z.

Theorem ns_positioner_separation : forall th f s g g' l k p n,
  exec_ns_positioner th f s g = Ok g' -> layers_wf g -> NoDup (g_N g) ->
  (forall n, in_layers g n -> In n (g_N g)) ->
  (forall a, assign_layers NetworkSimplex (ns_params th g) (aux_graph f s g) = Ok a -> ns_feasible s g a) ->
  In l (g_L g) -> nth_error (l_nodes l) k = Some p -> nth_error (l_nodes l) (S k) = Some n ->
  nX g' p + nW g p + s <= nX g' n.
Proof.
  intros th f s g g' l k p n H Hwf HND HN Hfeas Hl Hp Hn.
  destruct (ns_positioner_x th f s g g' H Hwf HND HN) as (a & lb & Ha & Hx).
  specialize (Hfeas a Ha l k p n Hl Hp Hn).
  rewrite (Hx p) by (eapply in_layers_intro; [exact Hl|eapply nth_error_In, Hp]).
  rewrite (Hx n) by (eapply in_layers_intro; [exact Hl|eapply nth_error_In, Hn]).
  pose proof (Qle_ceiling (nW g p / 2 + nW g n / 2 + s)) as C.
  rewrite Zle_Qle in Hfeas. unfold Z.sub in Hfeas. rewrite inject_Z_plus, inject_Z_opp in Hfeas.
  unfold inQ.
  generalize dependent (inject_Z (Qceiling (nW g p / 2 + nW g n / 2 + s))).
  generalize (inject_Z (layer_of a (ns_idx g n))) (inject_Z (layer_of a (ns_idx g p))).
  generalize (nW g p) (nW g n). intros wp wn zn zp c Hfeas C.
  assert (E : forall x, x / 2 == x * (1 # 2)) by (intros; field).
  rewrite !E in *. lra.
Qed.
Print Assumptions ns_positioner_separation.

Theorem ns_positioner_no_overlap : forall th f s g g' l i j a b,
  exec_ns_positioner th f s g = Ok g' -> layers_wf g -> sizes_ok s g -> NoDup (g_N g) ->
  (forall n, in_layers g n -> In n (g_N g)) ->
  (forall a, assign_layers NetworkSimplex (ns_params th g) (aux_graph f s g) = Ok a -> ns_feasible s g a) ->
  In l (g_L g) -> (i < j)%nat ->
  nth_error (l_nodes l) i = Some a -> nth_error (l_nodes l) j = Some b ->
  nX g' a + nW g a + s <= nX g' b.
Proof.
  intros th f s g g' l i j a b H Hwf Hsz HND HN Hfeas Hl Hij Ha. revert b.
  induction j as [|j IH]; intros b Hb; [lia|].
  destruct (Nat.eq_dec i j) as [E|E].
  - subst j. eapply ns_positioner_separation; eassumption.
  - assert (Hj : (j < length (l_nodes l))%nat).
    { assert (S j < length (l_nodes l))%nat by (apply nth_error_Some; congruence). lia. }
    destruct (nth_error (l_nodes l) j) as [c|] eqn:Hc; [|apply nth_error_None in Hc; lia].
    assert (P1 : nX g' a + nW g a + s <= nX g' c) by (apply IH; [lia|reflexivity]).
    pose proof (ns_positioner_separation th f s g g' l j c b H Hwf HND HN Hfeas Hl Hc Hb) as P2.
    pose proof (sizes_ok_layer s g l Hsz Hl c (nth_error_In _ _ Hc)) as Wc.
    destruct Hsz as [Hs _]. lra.
Qed.
Print Assumptions ns_positioner_no_overlap.

(* ====================================================================================== *)
(** * 9. A concrete instance: 2 layers, 4 nodes, 3 edges (blocks {0,2} and {1,3})          *)
(* ====================================================================================== *)

Definition sx_node (i o : list nat) (ly ps : Z) (w h : Q) : node := mkNode i o ly ps false 0 0 w h.
Definition sx_edge (a b : nat) : edge := mkEdge a b 1 1 false false 0 [] false.
Definition sx_g : graph :=
  mkGraph [sx_node [] [0; 2]%nat 0 0 10 4; sx_node [] [1]%nat 0 1 20 6;
           sx_node [0]%nat [] 1 0 40 8; sx_node [1; 2]%nat [] 1 1 6 2]
          [sx_edge 0 2; sx_edge 1 3; sx_edge 0 3] [0; 1; 2; 3]%nat [0; 1; 2]%nat
          [mkLayer [0; 1]%nat 0 0; mkLayer [2; 3]%nat 0 0].

Definition sx_show (r : res graph) : option (list Q * list Q) :=
  match r with
  | Ok g => Some (map (fun n => Qred (nX g n)) [0; 1; 2; 3]%nat, map (fun l => Qred (l_h l)) (g_L g))
  | Err _ => None
  end.

Example sx_layers_wf : layers_wf sx_g.
Proof. apply layers_wfb_iff. vm_compute. reflexivity. Qed.

Example sx_sizes_ok : sizes_ok 5 sx_g.
Proof.
  apply sizes_ok_all; [discriminate|].
  intros n. do 4 (destruct n as [|n]; [vm_compute; discriminate|]).
  destruct n; vm_compute; discriminate.
Qed.

Example sx_layers_in_N : forall n, in_layers sx_g n -> In n (g_N sx_g).
Proof. intros n H. exact H. Qed.

Example sx_N_nodup : NoDup (g_N sx_g).
Proof. apply nodupb_sound. vm_compute. reflexivity. Qed.

(* the run succeeds; x of nodes 0..3 and the new layer heights *)
Example sx_sink_coloring_result :
  sx_show (exec_sink_coloring 5 sx_g) = Some ([15; 60; 0; 67], [6; 8]).
Proof. vm_compute. reflexivity. Qed.

(* roots, colors and block widths after the painting pass: blocks {0,2} (width 40) and {1,3} (width 20) *)
Example sx_paint_result :
  match sc_paint sx_g with
  | Ok (s, bw) => Some (roots s, colors s, map Qred bw)
  | Err _ => None
  end = Some ([0; 1; 0; 1]%nat, [2; 3; 2; 3]%nat, [40; 20; 0; 0]).
Proof. vm_compute. reflexivity. Qed.

(* the theorems instantiated on the example: all hypotheses are discharged *)
Example sx_no_overlap : forall g',
  exec_sink_coloring 5 sx_g = Ok g' ->
  nX g' 0%nat + 10 + 5 <= nX g' 1%nat /\ nX g' 2%nat + 40 + 5 <= nX g' 3%nat /\
  (forall n, in_layers sx_g n -> 0 <= nX g' n).
Proof.
  intros g' H. split; [|split].
  - apply (sink_coloring_no_overlap 5 sx_g g' (mkLayer [0; 1]%nat 0 0) 0 1 0%nat 1%nat H sx_layers_wf sx_sizes_ok);
      [left; reflexivity|lia|reflexivity|reflexivity].
  - apply (sink_coloring_no_overlap 5 sx_g g' (mkLayer [2; 3]%nat 0 0) 0 1 2%nat 3%nat H sx_layers_wf sx_sizes_ok);
      [right; left; reflexivity|lia|reflexivity|reflexivity].
  - intros n Hn. exact (sink_coloring_nonneg 5 sx_g g' n H sx_layers_wf sx_layers_in_N Hn).
Qed.

(* NetworkSimplex positioner on the same graph *)
Example sx_ns_result :
  sx_show (exec_ns_positioner 1 1 5 sx_g) = Some ([15; 38; 0; 45], [6; 8]).
Proof. vm_compute. reflexivity. Qed.

Example sx_ns_aux_layers :
  match assign_layers NetworkSimplex (ns_params 1 sx_g) (aux_graph 1 5 sx_g) with
  | Ok a => Some (map (fun n => layer_of a (ns_idx sx_g n)) [0; 1; 2; 3]%nat)
  | Err _ => None
  end = Some [0; 28; 0; 28]%Z.
Proof. vm_compute. reflexivity. Qed.

Example sx_ns_feasible : forall a,
  assign_layers NetworkSimplex (ns_params 1 sx_g) (aux_graph 1 5 sx_g) = Ok a -> ns_feasible 5 sx_g a.
Proof.
  intros a Ha. vm_compute in Ha. inversion Ha; subst a. clear Ha.
  intros l k p n Hl Hp Hn.
  destruct Hl as [<-|[<-|[]]]; cbn [l_nodes] in Hp, Hn;
    (destruct k as [|[|k]]; cbn [nth_error] in Hp, Hn; try discriminate;
     inversion Hp; inversion Hn; subst; vm_compute; discriminate).
Qed.

Example sx_ns_no_overlap : forall g',
  exec_ns_positioner 1 1 5 sx_g = Ok g' ->
  nX g' 0%nat + 10 + 5 <= nX g' 1%nat /\ nX g' 2%nat + 40 + 5 <= nX g' 3%nat.
Proof.
  intros g' H. split.
  - apply (ns_positioner_no_overlap 1 1 5 sx_g g' (mkLayer [0; 1]%nat 0 0) 0 1 0%nat 1%nat H
             sx_layers_wf sx_sizes_ok sx_N_nodup sx_layers_in_N sx_ns_feasible);
      [left; reflexivity|lia|reflexivity|reflexivity].
  - apply (ns_positioner_no_overlap 1 1 5 sx_g g' (mkLayer [2; 3]%nat 0 0) 0 1 2%nat 3%nat H
             sx_layers_wf sx_sizes_ok sx_N_nodup sx_layers_in_N sx_ns_feasible);
      [right; left; reflexivity|lia|reflexivity|reflexivity].
Qed.
