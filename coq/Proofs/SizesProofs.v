(* SizesProofs.v — specification of lookup_size / apply_sizes (Model/Populate.v; autolayout.go:41-50) *)
From Autog Require Import Base Graph Populate.
From Autog.Proofs Require Import ListLemmas.
Local Open Scope nat_scope.

(* ---------- generic list facts ---------- *)
Lemma nth_error_combine : forall (X Y : Type) (l : list X) (l' : list Y) i x y,
  nth_error l i = Some x -> nth_error l' i = Some y -> nth_error (combine l l') i = Some (x, y).
Proof.
  intros X Y l. induction l as [|a t IH]; intros l' i x y Hx Hy.
  - destruct i; discriminate Hx.
  - destruct l' as [|b t'].
    + destruct i; discriminate Hy.
    + destruct i as [|i]; cbn in *.
      * injection Hx as ->. injection Hy as ->. reflexivity.
      * apply IH; assumption.
Qed.

Lemma nth_error_map_combine : forall (X Y Z : Type) (f : X * Y -> Z) (l : list X) (l' : list Y) i x y,
  nth_error l i = Some x -> nth_error l' i = Some y ->
  nth_error (map f (combine l l')) i = Some (f (x, y)).
Proof.
  intros X Y Z f l l' i x y Hx Hy. apply map_nth_error. apply nth_error_combine; assumption.
Qed.

Lemma combine_length_eq : forall (X Y : Type) (l : list X) (l' : list Y),
  length l' = length l -> length (combine l l') = length l'.
Proof. intros X Y l l' H. rewrite combine_length. lia. Qed.

Lemma nth_error_nth_default : forall (X : Type) (l : list X) i d, i < length l -> nth_error l i = Some (nth i l d).
Proof.
  intros X l. induction l as [|a t IH]; intros i d H; cbn in *; [lia|].
  destruct i as [|i]; cbn; [reflexivity|]. apply IH. lia.
Qed.

(* ---------- set_wh ---------- *)
Lemma set_wh_set_wh : forall w h w' h' n, set_wh w h (set_wh w' h' n) = set_wh w h n.
Proof. reflexivity. Qed.

Lemma set_wh_own : forall n, set_wh (n_w n) (n_h n) n = n.
Proof. intros n. destruct n. reflexivity. Qed.

Lemma set_wh_fields : forall w h n,
  n_in (set_wh w h n) = n_in n /\ n_out (set_wh w h n) = n_out n /\ n_layer (set_wh w h n) = n_layer n /\
  n_pos (set_wh w h n) = n_pos n /\ n_virt (set_wh w h n) = n_virt n /\
  n_x (set_wh w h n) = n_x n /\ n_y (set_wh w h n) = n_y n /\
  n_w (set_wh w h n) = w /\ n_h (set_wh w h n) = h.
Proof. intros. repeat split. Qed.

Section Sizes.
  Variable A : Type.
  Variable eqA : A -> A -> bool.

  (* ---------- S1: lookup_size returns the first match ---------- *)
  Lemma lookup_size_none : forall x m,
    lookup_size A eqA x m = None <-> (forall z sz, In (z, sz) m -> eqA x z = false).
  Proof.
    intros x m. induction m as [|[y s] t IH]; cbn [lookup_size].
    - split; [intros _ z sz []|reflexivity].
    - destruct (eqA x y) eqn:E.
      + split; [discriminate|]. intros H. specialize (H y s (or_introl eq_refl)). congruence.
      + rewrite IH. split.
        * intros H z sz [Hz|Hz]; [injection Hz as <- <-; exact E|eapply H; exact Hz].
        * intros H z sz Hz. eapply H. right. exact Hz.
  Qed.

  Theorem lookup_size_first : forall x m s,
    lookup_size A eqA x m = Some s <->
    exists m1 y m2, m = m1 ++ (y, s) :: m2 /\ eqA x y = true /\ (forall z sz, In (z, sz) m1 -> eqA x z = false).
  Proof.
    intros x m s. induction m as [|[y s0] t IH]; cbn [lookup_size].
    - split; [discriminate|]. intros (m1 & y & m2 & H & _). destruct m1; discriminate H.
    - destruct (eqA x y) eqn:E.
      + split.
        * intros H. injection H as ->. exists [], y, t. repeat split; auto. intros z sz [].
        * intros (m1 & y' & m2 & H & Hy & Hm1). destruct m1 as [|[z sz] m1]; cbn in H.
          -- injection H as _ -> _. reflexivity.
          -- injection H as -> -> _. specialize (Hm1 z sz (or_introl eq_refl)). congruence.
      + rewrite IH. split.
        * intros (m1 & y' & m2 & H & Hy & Hm1). exists ((y, s0) :: m1), y', m2. subst t. repeat split; auto.
          intros z sz [Hz|Hz]; [injection Hz as <- <-; exact E|eapply Hm1; exact Hz].
        * intros (m1 & y' & m2 & H & Hy & Hm1). destruct m1 as [|[z sz] m1]; cbn in H.
          -- injection H as -> _ _. congruence.
          -- injection H as _ _ ->. exists m1, y', m2. repeat split; auto.
             intros z' sz' Hz. eapply Hm1. right. exact Hz.
  Qed.

  (* ---------- S2: apply_sizes ---------- *)
  Definition listed_size (sizes : option (list (A * (Q * Q)))) (x : A) : option (Q * Q) :=
    match sizes with Some m => lookup_size A eqA x m | None => None end.

  (* the size given to the node with identifier x whose previous size was old:
     the first size listed for x (WithNodeSize), else the fixed size (WithNodeFixedSize), else unchanged *)
  Definition size_of (fixed : option (Q * Q)) (sizes : option (list (A * (Q * Q)))) (x : A) (old : Q * Q) : Q * Q :=
    match listed_size sizes x with
    | Some s => s
    | None => match fixed with Some s => s | None => old end
    end.

  Lemma apply_sizes_frame : forall fixed sizes ids g,
    let g' := apply_sizes A eqA fixed sizes ids g in
    g_ea g' = g_ea g /\ g_N g' = g_N g /\ g_E g' = g_E g /\ g_L g' = g_L g.
  Proof. intros. repeat split. Qed.

  Lemma apply_sizes_length : forall fixed sizes ids g,
    length (g_na g) = length ids ->
    length (g_na (apply_sizes A eqA fixed sizes ids g)) = length (g_na g).
  Proof.
    intros fixed sizes ids g HL. unfold apply_sizes, with_na. cbn [g_na].
    destruct sizes as [m|].
    - rewrite map_length. rewrite combine_length_eq.
      + destruct fixed as [[w h]|]; [apply map_length|reflexivity].
      + destruct fixed as [[w h]|]; [rewrite map_length|]; exact HL.
    - destruct fixed as [[w h]|]; [apply map_length|reflexivity].
  Qed.

  (* strong form: the node is the old node with only its size replaced *)
  Theorem apply_sizes_gnode : forall fixed sizes ids g i x,
    length (g_na g) = length ids ->
    nth_error ids i = Some x ->
    let sz := size_of fixed sizes x (n_w (gnode g i), n_h (gnode g i)) in
    gnode (apply_sizes A eqA fixed sizes ids g) i = set_wh (fst sz) (snd sz) (gnode g i).
  Proof.
    intros fixed sizes ids g i x HL Hx sz.
    assert (Hi : i < length (g_na g)).
    { rewrite HL. apply nth_error_Some. congruence. }
    assert (Hnd : nth_error (g_na g) i = Some (gnode g i)).
    { unfold gnode. apply nth_error_nth_default. exact Hi. }
    set (nd := gnode g i) in *.
    (* the arena after the "fixed" step *)
    set (na1 := match fixed with Some (w, h) => map (set_wh w h) (g_na g) | None => g_na g end).
    set (nd1 := match fixed with Some (w, h) => set_wh w h nd | None => nd end).
    assert (H1 : nth_error na1 i = Some nd1).
    { unfold na1, nd1. destruct fixed as [[w h]|]; [apply map_nth_error|]; exact Hnd. }
    assert (Hres : nth_error (g_na (apply_sizes A eqA fixed sizes ids g)) i =
                   Some (set_wh (fst sz) (snd sz) nd)).
    { unfold apply_sizes, with_na. cbn [g_na]. fold na1.
      destruct sizes as [m|].
      - rewrite (nth_error_map_combine _ _ _ _ ids na1 i x nd1 Hx H1). cbn [fst snd].
        f_equal. subst sz. unfold size_of, listed_size.
        destruct (lookup_size A eqA x m) as [[w h]|]; cbn [fst snd].
        + unfold nd1. destruct fixed as [[w' h']|]; reflexivity.
        + unfold nd1. destruct fixed as [[w' h']|]; cbn [fst snd]; [reflexivity|].
          symmetry. apply set_wh_own.
      - rewrite H1. f_equal. subst sz. unfold size_of, listed_size, nd1.
        destruct fixed as [[w' h']|]; cbn [fst snd]; [reflexivity|].
        symmetry. apply set_wh_own. }
    unfold gnode at 1. apply nth_error_nth. exact Hres.
  Qed.

  Theorem apply_sizes_spec : forall fixed sizes ids g,
    length (g_na g) = length ids ->
    let g' := apply_sizes A eqA fixed sizes ids g in
    g_ea g' = g_ea g /\ g_N g' = g_N g /\ g_E g' = g_E g /\ g_L g' = g_L g /\
    length (g_na g') = length (g_na g) /\
    forall i x, nth_error ids i = Some x ->
      (n_w (gnode g' i), n_h (gnode g' i)) = size_of fixed sizes x (n_w (gnode g i), n_h (gnode g i)) /\
      n_in (gnode g' i) = n_in (gnode g i) /\ n_out (gnode g' i) = n_out (gnode g i) /\
      n_layer (gnode g' i) = n_layer (gnode g i) /\ n_pos (gnode g' i) = n_pos (gnode g i) /\
      n_virt (gnode g' i) = n_virt (gnode g i) /\
      n_x (gnode g' i) = n_x (gnode g i) /\ n_y (gnode g' i) = n_y (gnode g i).
  Proof.
    intros fixed sizes ids g HL g'.
    split; [reflexivity|]. split; [reflexivity|]. split; [reflexivity|]. split; [reflexivity|].
    split; [apply apply_sizes_length; exact HL|].
    intros i x Hx. subst g'.
    rewrite (apply_sizes_gnode fixed sizes ids g i x HL Hx).
    destruct (size_of fixed sizes x (n_w (gnode g i), n_h (gnode g i))) as [w h].
    cbn [fst snd]. repeat split.
  Qed.

  (* graphs fresh from populate have all sizes 0 *)
  Corollary apply_sizes_fresh : forall fixed sizes ids g i x,
    length (g_na g) = length ids ->
    nth_error ids i = Some x ->
    n_w (gnode g i) = 0%Q -> n_h (gnode g i) = 0%Q ->
    let g' := apply_sizes A eqA fixed sizes ids g in
    (n_w (gnode g' i), n_h (gnode g' i)) = size_of fixed sizes x (0%Q, 0%Q).
  Proof.
    intros fixed sizes ids g i x HL Hx Hw Hh g'.
    destruct (apply_sizes_spec fixed sizes ids g HL) as (_ & _ & _ & _ & _ & H).
    destruct (H i x Hx) as (Hs & _). subst g'. rewrite Hs, Hw, Hh. reflexivity.
  Qed.

  (* size_of unfolded: the three cases *)
  Lemma size_of_listed : forall fixed m x old s,
    lookup_size A eqA x m = Some s -> size_of fixed (Some m) x old = s.
  Proof. intros fixed m x old s H. unfold size_of, listed_size. rewrite H. reflexivity. Qed.

  Lemma size_of_fixed : forall s sizes x old,
    listed_size sizes x = None -> size_of (Some s) sizes x old = s.
  Proof. intros s sizes x old H. unfold size_of. rewrite H. reflexivity. Qed.

  Lemma size_of_old : forall sizes x old,
    listed_size sizes x = None -> size_of None sizes x old = old.
  Proof. intros sizes x old H. unfold size_of. rewrite H. reflexivity. Qed.

  (* nodes beyond ids (only possible when the length hypothesis fails) : see the remark in the report *)
End Sizes.

Print Assumptions lookup_size_first.
Print Assumptions lookup_size_none.
Print Assumptions apply_sizes_gnode.
Print Assumptions apply_sizes_spec.
Print Assumptions apply_sizes_fresh.

(* ---------- S3: examples ---------- *)
Definition ex_g : graph := mkGraph [node0; node0; node0] [] [0; 1; 2] [] [].
Definition ex_ids : list nat := [10; 20; 30].
Definition ex_fixed : option (Q * Q) := Some (5, 5)%Q.
Definition ex_sizes : option (list (nat * (Q * Q))) := Some [(20, (7, 8)%Q); (20, (1, 1)%Q)].
Definition ex_g' : graph := Eval vm_compute in apply_sizes nat Nat.eqb ex_fixed ex_sizes ex_ids ex_g.

Example ex_hyp : length (g_na ex_g) = length ex_ids.
Proof. reflexivity. Qed.

Example ex_g'_ok : ex_g' = apply_sizes nat Nat.eqb ex_fixed ex_sizes ex_ids ex_g.
Proof. vm_compute. reflexivity. Qed.

Example ex_lookup_first : lookup_size nat Nat.eqb 20 [(20, (7, 8)%Q); (20, (1, 1)%Q)] = Some (7, 8)%Q.
Proof. vm_compute. reflexivity. Qed.

Example ex_lookup_none : lookup_size nat Nat.eqb 10 [(20, (7, 8)%Q); (20, (1, 1)%Q)] = None.
Proof. vm_compute. reflexivity. Qed.

Example ex_node1 : (n_w (gnode ex_g' 1), n_h (gnode ex_g' 1)) = (7, 8)%Q.
Proof. vm_compute. reflexivity. Qed.

Example ex_node0 : (n_w (gnode ex_g' 0), n_h (gnode ex_g' 0)) = (5, 5)%Q.
Proof. vm_compute. reflexivity. Qed.

Example ex_node2 : (n_w (gnode ex_g' 2), n_h (gnode ex_g' 2)) = (5, 5)%Q.
Proof. vm_compute. reflexivity. Qed.

Example ex_size_of : map (fun x => size_of nat Nat.eqb ex_fixed ex_sizes x (0, 0)%Q) ex_ids = [(5, 5)%Q; (7, 8)%Q; (5, 5)%Q].
Proof. vm_compute. reflexivity. Qed.

(* no fixed size, not listed: the old size is kept *)
Example ex_keep_old :
  let g := mkGraph [set_wh 3 4 node0; node0] [] [0; 1] [] [] in
  let g' := apply_sizes nat Nat.eqb None (Some [(2, (9, 9)%Q)]) [1; 2] g in
  (n_w (gnode g' 0), n_h (gnode g' 0)) = (3, 4)%Q /\ (n_w (gnode g' 1), n_h (gnode g' 1)) = (9, 9)%Q.
Proof. vm_compute. split; reflexivity. Qed.

(* the length hypothesis is needed: with a size map, `combine ids na` truncates the arena to the shorter list *)
Example ex_truncation :
  length (g_na (apply_sizes nat Nat.eqb None (Some []) [10] ex_g)) = 1 /\
  length (g_na (apply_sizes nat Nat.eqb None None [10] ex_g)) = 3.
Proof. vm_compute. split; reflexivity. Qed.

(* the instance of the theorem on the example *)
Example ex_spec_instance :
  (n_w (gnode ex_g' 1), n_h (gnode ex_g' 1)) = size_of nat Nat.eqb ex_fixed ex_sizes 20 (0, 0)%Q.
Proof.
  rewrite ex_g'_ok.
  apply (apply_sizes_fresh nat Nat.eqb ex_fixed ex_sizes ex_ids ex_g 1 20); reflexivity.
Qed.
