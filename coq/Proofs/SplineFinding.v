(* SplineFinding.v — the recorded finding `spline-corridor` on the model: for the 7-edge input
     0->1 1->2 2->3 2->4 1->5 2->6 4->5,  WithNodeFixedSize(40, 24), default options, spline routing
   the state the model hands to phase 5 contains one edge that spans three bands (1->5, through two helper nodes);
   the corridor [build_rects] builds for it is NOT a stack of rectangles sharing boundary segments ([corridor_ok] is
   false) and the exact model of the router, [Geom.shortest], fails on it, whereas every edge between adjacent bands
   gets a one-rectangle corridor and a two-point path. The implementation panics on the same input
   (index out of range [-1] in geom.Shortest; known_findings.txt). *)
From Autog Require Import GeomProofs.
From Autog Require Import Base Graph Populate Phase1 Phase2 Phase3 Phase4 Phase5 Layout Wmedian Pipeline Geom Splines.
Local Open Scope Q_scope.

Definition sf_edges : list (list nat) := [[0;1];[1;2];[2;3];[2;4];[1;5];[2;6];[4;5]]%nat.
Definition sf_opts : options := mkOptions Greedy NetworkSimplex SinkColoring OtherRouting 28 4 60 150 false.

(* the state handed to phase 5 (the input is connected: one component) *)
Definition sf_state : res graph :=
  do p <- populate nat Nat.eqb sf_edges;
  let '(ids, g) := p in
  let g := apply_sizes nat Nat.eqb (Some (40, 24)) None ids g in
  match components g with
  | c :: _ =>
      let '(c, del) := ignore_self_loops c in
      do c <- phase1 (o_p1 sf_opts) c;
      do c <- phase2 (o_p2 sf_opts) (ns_params sf_opts) c;
      do r <- phase3_wmedian wmedian_max_iter c;
      phase4 (o_p4 sf_opts) (p4_params sf_opts) (fst r)
  | [] => Err ErrEmpty
  end.

(* per routable edge: (edge, number of route nodes, corridor well-formed?, length of the router's path if it returns) *)
Definition sf_probe : res (list (nat * nat * bool * option nat)) :=
  do g <- sf_state;
  do r <- merge_long_edges g;
  let '(gm, routes) := r in
  Ok (map (fun rt : nat * list nat =>
        let e := fst rt in
        match build_rects gm (snd rt) with
        | Ok rs => (e, length (snd rt), corridor_ok rs,
                    match Geom.shortest (start_point gm (e_from (gedge gm e))) (end_point gm (e_to (gedge gm e))) rs with
                    | Ok p => Some (length p) | Err _ => None end)
        | Err _ => (e, 0%nat, false, None)
        end) routes).

Theorem spline_corridor_of_a_long_edge_is_ill_formed :
  sf_probe = Ok [(0, 2, true, Some 2); (1, 2, true, Some 2); (2, 2, true, Some 2); (3, 2, true, Some 2);
                 (4, 4, false, None); (5, 2, true, Some 2); (6, 2, true, Some 2)]%nat.
Proof. vm_compute. reflexivity. Qed.
Print Assumptions spline_corridor_of_a_long_edge_is_ill_formed.
