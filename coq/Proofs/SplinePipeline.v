(* SplinePipeline.v — the pipeline WITH spline routing (Model/PipelineSpl.v), part 1: the backbone.

   S1  [layout_sx_eq]: for every router but [OtherRouting], [layout_component_sx] / [layout_components_sx] / [layout_sx]
       ARE [layout_component_x] / [layout_components_x] / [layout_x];
   S2  [stage45_ok_sx]: [E2EBackbone.stage45] (the record does not mention phase 5 itself, only its frame) for
       [phase5x]: the routers of [E2EBridge.modelled_p5] and the spline router. Nothing is assumed of the numeric
       oracles here: the frame of spline routing holds whatever they return;
   S3  [backbone_sx], [pipeline_backbone_sx], [backbone_sx_holds]: the backbone of [layout_component_sx]. Besides the
       fields of [BKPipeline.backbone_x] (with [phase5x] for [phase5]) it records, for the spline router, that the points
       of every routed edge are the result of [Splines.spline_route] in the merged graph.

   The end-to-end theorems derived from [backbone_sx] are in SplinePipeline2.v. *)
From Autog Require Import Base Graph Populate Phase1 Phase2 Phase3 Phase4 Phase5 Layout Wmedian Pipeline BK PipelineBK.
From Autog Require Import Geom SplineStruct Splines PipelineSpl.
From Autog.Proofs Require Import ListLemmas Consistent SelfLoopProofs.
From Autog.Proofs Require CBBase CBGreedy CBGreedyRanks CBDepthFirst CBHasCycles CycleBreaking LongestPath
                          OptNormalize OptVbalance OptPipeline.
From Autog.Proofs Require Import Positioners Routes BreakMerge SinkColoringProofs E2EBridge E2EBackbone.
From Autog.Proofs Require Import NSBridge WholeBridge BKPipeline SplineProofs SplineRouting.
From Coq Require Import Permutation Lia Lqa.
Local Open Scope nat_scope.

(* the routers of [phase5x] about which the backbone speaks: straight, polyline, orthogonal, splines *)
Definition routed_p5 (alg : p5alg) : Prop := modelled_p5 alg \/ alg = OtherRouting.

Section SplinePipeline.
  Variable shortest : pt -> pt -> list rect -> list pt.
  Variable fit : list pt -> list rect -> res (list (piece pt)).
  Variable mk_inner : pt -> pt -> pt * pt.

  Notation phase5x := (phase5x shortest fit mk_inner).
  Notation layout_component_sx := (layout_component_sx shortest fit mk_inner).
  Notation layout_components_sx := (layout_components_sx shortest fit mk_inner).
  Notation layout_sx := (layout_sx shortest fit mk_inner).
  Notation spline_route := (spline_route shortest fit mk_inner).

  (* ====================================================================================================== *)
  (** * 1. [layout_sx] is [layout_x] unless the router is the spline router                                  *)
  (* ====================================================================================================== *)

  Lemma phase5x_eq : forall alg sp g, alg <> OtherRouting -> phase5x alg sp g = phase5 alg sp g.
  Proof. intros alg sp g H. destruct alg; try reflexivity. congruence. Qed.

  Lemma phase5x_other : forall sp g, phase5x OtherRouting sp g = phase5_splines shortest fit mk_inner g.
  Proof. reflexivity. Qed.

  Theorem layout_component_sx_eq : forall bk o g,
    o_p5 o <> OtherRouting -> layout_component_sx bk o g = layout_component_x bk o g.
  Proof.
    intros bk o g H. unfold PipelineSpl.layout_component_sx, layout_component_x.
    destruct (ignore_self_loops g) as [g0 del].
    destruct (phase1 (o_p1 o) g0) as [g1|e]; cbn [bind]; [|reflexivity].
    destruct (phase2 (o_p2 o) (Layout.ns_params o) g1) as [g2|e]; cbn [bind]; [|reflexivity].
    destruct (phase3_wmedian wmedian_max_iter g2) as [[g3 x]|e]; cbn [bind]; [|reflexivity].
    destruct (phase4x bk (o_p4 o) (p4_params o) g3) as [g4|e]; cbn [bind]; [|reflexivity].
    rewrite (phase5x_eq (o_p5 o) (o_layer_spacing o) g4 H). reflexivity.
  Qed.

  Theorem layout_components_sx_eq : forall bk o cs shift,
    o_p5 o <> OtherRouting -> layout_components_sx bk o cs shift = layout_components_x bk o cs shift.
  Proof.
    intros bk o cs; induction cs as [|c rest IH]; intros shift H; [reflexivity|].
    cbn [PipelineSpl.layout_components_sx layout_components_x]. rewrite (layout_component_sx_eq bk o c H).
    destruct (layout_component_x bk o c) as [[g x]|e]; cbn [bind]; [|reflexivity].
    rewrite (IH _ H). reflexivity.
  Qed.

  Theorem layout_sx_eq : forall (A : Type) (eqA : A -> A -> bool) bk o fixed sizes es,
    o_p5 o <> OtherRouting -> layout_sx A eqA bk o fixed sizes es = layout_x A eqA bk o fixed sizes es.
  Proof.
    intros A eqA bk o fixed sizes es H. unfold PipelineSpl.layout_sx, layout_x.
    destruct (populate A eqA es) as [[ids g]|e]; cbn [bind]; [|reflexivity].
    destruct ids as [|i t]; [reflexivity|].
    rewrite (layout_components_sx_eq bk o _ _ H). reflexivity.
  Qed.

  (* ====================================================================================================== *)
  (** * 2. Stages 3' to 5 with [phase5x]                                                                     *)
  (* ====================================================================================================== *)

  (* the straight router never fails once the long edges are merged *)
  Lemma phase5_straight_runs : forall sp g4 gm routes,
    Nat.eqb (length (g_N g4)) 1 = false -> merge_long_edges g4 = Ok (gm, routes) ->
    exists g5, phase5 Straight sp g4 = Ok g5.
  Proof. intros sp g4 gm routes N1 M. unfold phase5. rewrite N1, M. cbn [bind]. eexists. reflexivity. Qed.

  (* what the backbone records about the spline router: the points of a routed edge are its [spline_route] *)
  Definition spline_routed (alg5 : p5alg) (g2 gm g5 : graph) : Prop :=
    alg5 = OtherRouting -> forall e, In e (g_E g2) ->
      exists ns pts, spline_route gm e ns = Ok pts /\ gedge g5 e = set_pts pts (gedge gm e).

  Theorem stage45_ok_sx : forall bk sp alg4 p alg5 g1 g2 g3 k g3' g4 g5,
    stage23 g1 g2 g3 k -> break_long_edges g2 = Ok g3 -> order_contract g3 g3' ->
    layer_spacing p = sp -> phase4x bk alg4 p g3' = Ok g4 ->
    routed_p5 alg5 -> phase5x alg5 sp g4 = Ok g5 ->
    exists gm routes, merge_long_edges g4 = Ok (gm, routes) /\ stage45 sp alg5 g2 g3 g3' g4 gm routes g5 /\
                      spline_routed alg5 g2 gm g5.
  Proof.
    intros bk sp alg4 p alg5 g1 g2 g3 k g3' g4 g5 S BR OC SP P4 [A5|A5] P5.
    { (* the routers of [phase5] *)
      assert (NO : alg5 <> OtherRouting) by (intros ->; destruct A5 as [E|[E|E]]; discriminate).
      rewrite phase5x_eq in P5 by exact NO.
      destruct (stage45_ok_x bk sp alg4 p alg5 g1 g2 g3 k g3' g4 g5 S BR OC SP P4 A5 P5) as (gm & routes & M & S45).
      exists gm, routes. split; [exact M|]. split; [exact S45|]. intros E. congruence. }
    subst alg5. rewrite phase5x_other in P5.
    assert (A5s : modelled_p5 Straight) by (left; reflexivity).
    (* the component has at least two nodes *)
    assert (N4 : Nat.eqb (length (g_N g4)) 1 = false).
    { destruct (Nat.eqb (length (g_N g4)) 1) eqn:N4; [exfalso|reflexivity].
      assert (P5s : phase5 Straight sp g4 = Ok g4) by (unfold phase5; rewrite N4; reflexivity).
      destruct (stage45_ok_x bk sp alg4 p Straight g1 g2 g3 k g3' g4 g4 S BR OC SP P4 A5s P5s) as (gm & routes & _ & S45).
      apply Nat.eqb_eq in N4. rewrite (s4_N _ _ _ _ _ _ _ _ _ S45), (s3_N _ _ _ _ S), app_length in N4.
      pose proof (s2_two _ _ _ _ S). lia. }
    pose proof P5 as P5'. unfold phase5_splines in P5'. rewrite N4 in P5'.
    destruct (merge_long_edges g4) as [[gm routes]|] eqn:M; cbn [bind] in P5'; [|discriminate]. clear P5'.
    destruct (phase5_straight_runs sp g4 gm routes N4 M) as (g5s & P5s).
    destruct (stage45_ok_x bk sp alg4 p Straight g1 g2 g3 k g3' g4 g5s S BR OC SP P4 A5s P5s) as (gm' & routes' & M' & S45).
    rewrite M in M'. injection M' as <- <-.
    exists gm, routes. split; [reflexivity|].
    destruct S45 as [F1 F2 F3 F4 F5 F6 F7 F8 F9 F10 F11 F12 F13 G1 G2 G3 G4 G5 G6 G7 G8 G9 _ _ _ _ _ _].
    assert (FST : forall r, In r routes -> In (fst r) (g_E g2)).
    { intros r Hr. rewrite <- G8. apply in_map, Hr. }
    assert (ND : NoDup (map fst routes)) by (rewrite G8; apply (bp_nodup (s2_pre _ _ _ _ S))).
    assert (LT : forall r, In r routes -> fst r < length (g_ea gm)).
    { intros r Hr. apply in_range_of_ends. rewrite (G5 _ (FST r Hr)). cbn [set_ahs e_from e_to].
      destruct (bp_edges (s2_pre _ _ _ _ S) _ (FST r Hr)) as (_ & _ & _ & SPN). unfold span in SPN.
      intros Heq. rewrite Heq in SPN. lia. }
    destruct (phase5_splines_run shortest fit mk_inner g4 g5 gm routes N4 P5 M ND LT) as (B1 & B2 & B3 & B4 & B5 & B6 & B7).
    split.
    - constructor; try assumption.
      + intros x Hx. apply B6. rewrite G8. exact Hx.
      + intros r Hr. destruct (B7 r Hr) as (pts & _ & Q2). exists pts. split; [exact Q2|exact I].
    - intros _ e He. rewrite <- G8 in He. apply in_map_iff in He. destruct He as (r & <- & Hr).
      destruct (B7 r Hr) as (pts & Q1 & Q2). exists (snd r), pts. split; assumption.
  Qed.

  (* ====================================================================================================== *)
  (** * 3. The backbone of [layout_component_sx]                                                             *)
  (* ====================================================================================================== *)

  (* [BKPipeline.backbone_x] with [phase5x] as phase 5, and the record of the spline routes *)
  Record backbone_sx (bk : Z) (o : options) (g g' : graph) (x : option Z) (g0 : graph) (del : list nat) (g1 g2 g3 : graph)
         (k : nat) (g3' : graph) (cx : Z) (g4 gm : graph) (routes : list (nat * list nat)) (g5 : graph) : Prop := {
    sb_e0 : ignore_self_loops g = (g0, del);
    sb_e1 : phase1 (o_p1 o) g0 = Ok g1;
    sb_e2 : phase2 (o_p2 o) (Layout.ns_params o) g1 = Ok g2;
    sb_e3 : break_long_edges g2 = Ok g3;
    sb_e3' : exec_wmedian wmedian_max_iter g3 = Ok (g3', cx);
    sb_x : x = Some cx;
    sb_e4 : phase4x bk (o_p4 o) (p4_params o) g3' = Ok g4;
    sb_em : merge_long_edges g4 = Ok (gm, routes);
    sb_e5 : phase5x (o_p5 o) (o_layer_spacing o) g4 = Ok g5;
    sb_e6 : g' = post_process g5 del;
    sb_s01 : stage01 g g0 del g1;
    sb_s23 : stage23 g1 g2 g3 k;
    sb_s45 : stage45 (o_layer_spacing o) (o_p5 o) g2 g3 g3' g4 gm routes g5;
    sb_spl : spline_routed (o_p5 o) g2 gm g5 }.

  (* a backbone of [layout_component_x] is a backbone of [layout_component_sx] *)
  Lemma backbone_x_backbone_sx : forall bk o g g' x g0 del g1 g2 g3 k g3' cx g4 gm routes g5,
    o_p5 o <> OtherRouting ->
    backbone_x bk o g g' x g0 del g1 g2 g3 k g3' cx g4 gm routes g5 ->
    backbone_sx bk o g g' x g0 del g1 g2 g3 k g3' cx g4 gm routes g5.
  Proof.
    intros bk o g g' x g0 del g1 g2 g3 k g3' cx g4 gm routes g5 H [].
    constructor; try assumption; [rewrite phase5x_eq; assumption|intros E; congruence].
  Qed.

  Theorem pipeline_backbone_sx : forall bk o g g' x,
    component_input g -> routed_p5 (o_p5 o) -> wm_premise o g -> ns_premise o g ->
    layout_component_sx bk o g = Ok (g', x) ->
    exists g0 del g1 g2 g3 k g3' cx g4 gm routes g5, backbone_sx bk o g g' x g0 del g1 g2 g3 k g3' cx g4 gm routes g5.
  Proof.
    intros bk o g g' x CI O5 WM NS H. unfold PipelineSpl.layout_component_sx in H.
    destruct (ignore_self_loops g) as [g0 del] eqn:E0.
    assert (Eg0 : g0 = fst (ignore_self_loops g)) by (rewrite E0; reflexivity).
    destruct (phase1 (o_p1 o) g0) as [g1|] eqn:P1; cbn [bind] in H; [|discriminate].
    destruct (phase2 (o_p2 o) (Layout.ns_params o) g1) as [g2|] eqn:P2; cbn [bind] in H; [|discriminate].
    pose proof (stage01_ok o g g0 del g1 CI E0 P1) as S01.
    assert (TWO1 : 2 <= length (g_N g1)).
    { destruct (rev_star_frame _ _ (s1_rs _ _ _ _ S01)) as (-> & _). rewrite (s0_N _ _ _ _ S01). apply (ci_two _ CI). }
    assert (LO : forall g2a, match o_p2 o with
                             | LongestPath => exec_longest_path g1
                             | NetworkSimplex => exec_network_simplex (Layout.ns_params o) g1
                             end = Ok g2a -> layering_ok g1 g2a).
    { intros g2a Hg. destruct (o_p2 o) eqn:EA.
      - apply lp_layering_ok; [apply (s1_c _ _ _ _ S01)|apply (s1_ranked _ _ _ _ S01)| |exact Hg].
        intros e He. apply (s1_edge _ _ _ _ S01 e He).
      - apply (NS EA g1); [rewrite <- Eg0; exact P1|exact Hg]. }
    destruct (stage23_ok (o_p2 o) (Layout.ns_params o) g1 g2 (s1_c _ _ _ _ S01) (s1_nonvirt _ _ _ _ S01) TWO1
                (s1_some_edge _ _ _ _ S01) LO P2) as (g3 & k & BR & S23).
    unfold phase3_wmedian in H.
    assert (N2 : Nat.eqb (length (g_N g2)) 1 = false).
    { apply Nat.eqb_neq. pose proof (s2_two _ _ _ _ S23). lia. }
    rewrite N2, (s2_L1 _ _ _ _ S23), BR in H. cbn [bind] in H.
    destruct (exec_wmedian wmedian_max_iter g3) as [[g3' cx]|] eqn:WE; cbn [bind fst snd] in H; [|discriminate].
    destruct (phase4x bk (o_p4 o) (p4_params o) g3') as [g4|] eqn:P4; cbn [bind] in H; [|discriminate].
    destruct (phase5x (o_p5 o) (o_layer_spacing o) g4) as [g5|] eqn:P5; cbn [bind] in H; [|discriminate].
    injection H as Hg' Hx.
    assert (OC : order_contract g3 g3').
    { apply (WM g1 g2 g3) with (x := cx); [rewrite <- Eg0; exact P1|exact P2|exact BR|exact WE]. }
    destruct (stage45_ok_sx bk (o_layer_spacing o) (o_p4 o) (p4_params o) (o_p5 o) g1 g2 g3 k g3' g4 g5 S23 BR OC eq_refl P4 O5 P5)
      as (gm & routes & M & S45 & SPL).
    exists g0, del, g1, g2, g3, k, g3', cx, g4, gm, routes, g5.
    constructor; try assumption; symmetry; assumption.
  Qed.

  (* with both premises discharged (WholeBridge.wm_premise_holds, NSBridge.ns_premise_holds) *)
  Theorem backbone_sx_holds : forall bk o g g' x,
    component_input g -> routed_p5 (o_p5 o) -> layout_component_sx bk o g = Ok (g', x) ->
    exists g0 del g1 g2 g3 k g3' cx g4 gm routes g5, backbone_sx bk o g g' x g0 del g1 g2 g3 k g3' cx g4 gm routes g5.
  Proof.
    intros bk o g g' x CI O5 H. pose proof (ns_premise_holds o g CI) as NS.
    exact (pipeline_backbone_sx bk o g g' x CI O5 (wm_premise_holds o g CI NS) NS H).
  Qed.
End SplinePipeline.

Print Assumptions layout_sx_eq.
Print Assumptions stage45_ok_sx.
Print Assumptions pipeline_backbone_sx.
Print Assumptions backbone_sx_holds.
