(* SplinePipeline2.v — the end-to-end theorems for the pipeline WITH spline routing (Model/PipelineSpl.v:
   [layout_component_sx], [layout_sx]), part 2.

   S1  Sections SummaryS / E2S / E34S: the derivations of Proofs/E2EOutput.v (E1, E2, the route set-up of E3 / E4) replayed
       for [SplinePipeline.backbone_sx] exactly as Proofs/BKPipeline2.v replays them for [backbone_x]: none of the
       derivations uses the field that mentions phase 5, so the proofs are the originals, field names [sb_*] for [xb_*].
       New: [sroute_spline] (the points of a non-loop edge of the output have the spline shape between the bottom
       centre of its upper end and the top centre of its lower end, in the geometry of the OUTPUT graph),
       [sE3_of_backbone], [sE4s_of_backbone].
   S2  One component ([component_input g], [o_p5 o = OtherRouting], [layout_component_sx ... bk o g = Ok (g', x)]):
       [Gs1_output_graph], [Gs2_bands] (nothing assumed of the numeric oracles), [Gs3_endpoints] (C05),
       [Gs4_spline_shape] (C06) under [shortest_ok shortest] and [fit_ok fit]. The [_any] forms hold for the four routers
       [routed_p5] (straight, polyline, orthogonal, splines).
   S3  The whole layout: [layout_component_sx_single], [Gs7_layout_output] = the statement of
       [BKPipeline2.Gx7_layout_output] for [layout_sx].
   S4  Example: the component [wc_g] (a long edge, a self loop) through [layout_component_sx] with concrete oracles. *)
From Autog Require Import Base Graph Populate Phase1 Phase2 Phase3 Phase4 Phase5 Layout Wmedian Pipeline BK PipelineBK Check.
From Autog Require Import Geom SplineStruct Splines PipelineSpl.
From Autog.Proofs Require Import ListLemmas Consistent PopulateProofs SizesProofs ComponentsProofs SelfLoopProofs Summary.
From Autog.Proofs Require CBBase CBGreedy CBGreedyRanks CBDepthFirst CBHasCycles CycleBreaking LongestPath
                          OptNormalize OptVbalance OptPipeline CollectProofs.
From Autog.Proofs Require Import Positioners Routes BreakMerge SinkColoringProofs Shift E2EBridge E2EBackbone E2EOutput E2EFrontend.
From Autog.Proofs Require Import NSBridge WholeBridge WholeCrossings WholeLayout.
From Autog.Proofs Require Import BKPipeline BKPipeline2 SplineProofs SplineRouting SplinePipeline.
From Coq Require Import Permutation Lia Lqa.
Local Open Scope nat_scope.

(* E4 for the spline router (E2EOutput.E4_shape has no case for [OtherRouting]): the points of every non-loop edge are
   4k control points, k >= 1, whose cubic pieces join end to end, from the bottom centre of the upper end to the top
   centre of the lower end *)
Definition E4s_statement (g g' : graph) : Prop :=
  forall e, In e (g_E g) -> self_loop g e = false ->
    spline_shape (start_point g' (upper_end g' e)) (end_point g' (lower_end g' e)) (e_pts (gedge g' e)).

Section SplinePipeline2.
  Variable shortest : pt -> pt -> list rect -> list pt.
  Variable fit : list pt -> list rect -> res (list (piece pt)).
  Variable mk_inner : pt -> pt -> pt * pt.

  Notation backbone_sx := (SplinePipeline.backbone_sx shortest fit mk_inner).
  Notation layout_component_sx := (PipelineSpl.layout_component_sx shortest fit mk_inner).
  Notation layout_components_sx := (PipelineSpl.layout_components_sx shortest fit mk_inner).
  Notation layout_sx := (PipelineSpl.layout_sx shortest fit mk_inner).

  (* ====================================================================================================== *)
  (** * 1. E1, E2 and the route set-up from [backbone_sx] (Proofs/E2EOutput.v, replayed)                     *)
  (* ====================================================================================================== *)

  Section SummaryS.
    Variables (bk : Z) (o : options) (g g' : graph) (x : option Z) (g0 : graph) (del : list nat) (g1 g2 g3 : graph) (k : nat)
              (g3' : graph) (cx : Z) (g4 gm : graph) (routes : list (nat * list nat)) (g5 : graph).
    Hypothesis CI : component_input g.
    Hypothesis BB : backbone_sx bk o g g' x g0 del g1 g2 g3 k g3' cx g4 gm routes g5.
  
    Let S01 := sb_s01 _ _ _ _ _ _ _ _ _ _ _ _ _ _ _ _ _ _ _ _ BB.
    Let S23 := sb_s23 _ _ _ _ _ _ _ _ _ _ _ _ _ _ _ _ _ _ _ _ BB.
    Let S45 := sb_s45 _ _ _ _ _ _ _ _ _ _ _ _ _ _ _ _ _ _ _ _ BB.
    Let PP := s2_post _ _ _ _ S23.
  
    Lemma ssum_lengths :
      length (g_na g2) = length (g_na g) /\ length (g_ea g2) = length (g_ea g) /\
      length (g_na g5) = length (g_na g) + k /\
      g_E g2 = filter (fun e => negb (self_loop g e)) (g_E g) /\ g_N g2 = g_N g /\
      g_E g5 = g_E g2 /\ g_N g5 = g_N g ++ iota (length (g_na g)) k /\ g_L g5 = g_L g4.
    Proof.
      destruct (rev_star_frame _ _ (s1_rs _ _ _ _ S01)) as (F1 & F2 & _ & F4 & F5 & _).
      assert (NA2 : length (g_na g2) = length (g_na g)).
      { rewrite (p2_na _ _ PP), F4. apply (s0_na _ _ _ _ S01). }
      split; [exact NA2|]. split.
      { rewrite (p2_ea _ _ PP), F5, (s0_ea _ _ _ _ S01). reflexivity. }
      split.
      { rewrite (s5_na _ _ _ _ _ _ _ _ _ S45), (sm_na _ _ _ _ _ _ _ _ _ S45), (s4_na _ _ _ _ _ _ _ _ _ S45),
          (s3_na _ _ _ _ S23), NA2. reflexivity. }
      split.
      { rewrite (p2_E _ _ PP), F2. apply (s0_E _ _ _ _ S01). }
      assert (N2 : g_N g2 = g_N g).
      { rewrite (p2_N _ _ PP), F1. apply (s0_N _ _ _ _ S01). }
      split; [exact N2|]. split.
      { rewrite (s5_E _ _ _ _ _ _ _ _ _ S45). apply (sm_E _ _ _ _ _ _ _ _ _ S45). }
      split.
      { rewrite (s5_N _ _ _ _ _ _ _ _ _ S45), (sm_N _ _ _ _ _ _ _ _ _ S45), (s4_N _ _ _ _ _ _ _ _ _ S45),
          (s3_N _ _ _ _ S23), N2, NA2. reflexivity. }
      rewrite (s5_L _ _ _ _ _ _ _ _ _ S45). apply (sm_L _ _ _ _ _ _ _ _ _ S45).
    Qed.
  
    (* a listed edge of the input that is not a self loop *)
    Definition snonloop (e : nat) : Prop := In e (g_E g) /\ self_loop g e = false.
  
    Lemma snonloop_E2 : forall e, snonloop e <-> In e (g_E g2).
    Proof.
      intros e. destruct ssum_lengths as (_ & _ & _ & -> & _). unfold snonloop. rewrite filter_In, negb_true_iff. tauto.
    Qed.
  
    (* the record of a non-loop edge when phase 2 hands it on: the input record, possibly reversed *)
    Lemma ssum_edge2 : forall e, snonloop e ->
      e_pts (gedge g2 e) = [] /\ e_delta (gedge g2 e) = 1%Z /\
      ((e_rev (gedge g2 e) = false /\ e_from (gedge g2 e) = e_from (gedge g e) /\ e_to (gedge g2 e) = e_to (gedge g e)) \/
       (e_rev (gedge g2 e) = true /\ e_from (gedge g2 e) = e_to (gedge g e) /\ e_to (gedge g2 e) = e_from (gedge g e))).
    Proof.
      intros e He. apply snonloop_E2 in He. rewrite (p2_E _ _ PP) in He.
      destruct (s1_edge _ _ _ _ S01 e He) as (HeE & _ & FR & D1 & P1).
      destruct (edge_eq_tc_fields _ _ (p2_edge _ _ PP e)) as (-> & -> & -> & _ & -> & -> & _).
      split; [exact P1|]. split; [exact D1|].
      destruct (ci_edges _ CI e HeE) as (RV & _).
      destruct FR as [->| ->]; [left|right]; cbn; rewrite RV; repeat split; reflexivity.
    Qed.
  
    (* the record of a non-loop edge after phase 5 *)
    Lemma ssum_edge5 : forall e, snonloop e ->
      exists r pts, In r routes /\ fst r = e /\
        gedge g5 e = set_pts pts (set_ahs (e_rev (gedge g2 e)) (gedge g2 e)) /\
        routed (o_p5 o) (o_layer_spacing o) gm r pts /\
        route_ok g2 gm r /\ chain_y_eq gm (o_layer_spacing o) (snd r).
    Proof.
      intros e He. apply snonloop_E2 in He. pose proof He as He'.
      rewrite <- (sm_fst _ _ _ _ _ _ _ _ _ S45) in He'. apply in_map_iff in He'. destruct He' as (r & Er & Hr).
      destruct (s5_edge _ _ _ _ _ _ _ _ _ S45 r Hr) as (pts & P1 & P2).
      pose proof (sm_routes _ _ _ _ _ _ _ _ _ S45) as RO. rewrite Forall_forall in RO. destruct (RO r Hr) as [RO1 RO2].
      exists r, pts. rewrite Er in P1. rewrite (sm_edge _ _ _ _ _ _ _ _ _ S45 e He) in P1. auto 10.
    Qed.
  
    (* the self loops come back untouched (up to the scratch fields of network simplex) *)
    Lemma ssum_loop5 : forall e, In e del -> In e (g_E g) /\ self_loop g e = true /\ edge_eq_tc (gedge g5 e) (gedge g e).
    Proof.
      intros e He. rewrite (s0_del _ _ _ _ S01) in He. apply filter_In in He. destruct He as [HeE Hs].
      split; [exact HeE|]. split; [exact Hs|].
      assert (N2 : ~ In e (g_E g2)).
      { intros H. apply snonloop_E2 in H. destruct H as [_ H]. congruence. }
      rewrite (s5_other _ _ _ _ _ _ _ _ _ S45 e N2).
      destruct ssum_lengths as (_ & EA & _).
      rewrite (sm_other _ _ _ _ _ _ _ _ _ S45 e); [|rewrite EA; apply (c_E_lt _ (ci_cons _ CI) e HeE)|exact N2].
      rewrite <- (s1_other _ _ _ _ S01 e); [apply (p2_edge _ _ PP e)|]. rewrite <- (p2_E _ _ PP). exact N2.
    Qed.
  
    Lemma ssum_post_range : forall e, In e del ->
      e_from (gedge g5 e) < length (g_na g5) /\ e_to (gedge g5 e) < length (g_na g5).
    Proof.
      intros e He. destruct (ssum_loop5 e He) as (HeE & _ & TC).
      destruct (edge_eq_tc_fields _ _ TC) as (-> & -> & _).
      destruct ssum_lengths as (_ & _ & -> & _).
      pose proof (ci_cons _ CI) as C.
      pose proof (c_N_lt _ C _ (c_from _ C e HeE)). pose proof (c_N_lt _ C _ (c_to _ C e HeE)). lia.
    Qed.
  
    (* node fields: g' against g4 (everything but adjacency), g' against g3 (not x, y, pos), old nodes against g *)
    Lemma ssum_node4 : forall n,
      n_layer (gnode g' n) = n_layer (gnode g4 n) /\ n_virt (gnode g' n) = n_virt (gnode g4 n) /\
      n_x (gnode g' n) = n_x (gnode g4 n) /\ n_y (gnode g' n) = n_y (gnode g4 n) /\
      n_w (gnode g' n) = n_w (gnode g4 n) /\ n_h (gnode g' n) = n_h (gnode g4 n).
    Proof.
      intros n. rewrite (sb_e6 _ _ _ _ _ _ _ _ _ _ _ _ _ _ _ _ _ _ _ _ BB).
      destruct (post_process_facts g5 del ssum_post_range) as (_ & _ & _ & _ & _ & _ & _ & _ & PN). cbv zeta in PN.
      destruct (PN n) as (-> & _ & -> & -> & -> & -> & ->).
      rewrite (gnode_same_na _ _ n (s5_na _ _ _ _ _ _ _ _ _ S45)).
      pose proof (sm_node _ _ _ _ _ _ _ _ _ S45 n) as Sb.
      destruct (same_but_in_fields _ _ Sb) as (-> & -> & _). destruct (same_but_in_geom _ _ Sb) as (-> & -> & -> & ->).
      repeat split; reflexivity.
    Qed.
  
    Lemma ssum_node3 : forall n,
      n_layer (gnode g' n) = n_layer (gnode g3 n) /\ n_virt (gnode g' n) = n_virt (gnode g3 n) /\
      n_w (gnode g' n) = n_w (gnode g3 n) /\ n_h (gnode g' n) = n_h (gnode g3 n).
    Proof.
      intros n. destruct (ssum_node4 n) as (-> & -> & _ & _ & -> & ->).
      pose proof (s4_node _ _ _ _ _ _ _ _ _ S45 n) as E.
      destruct (gnode g4 n), (gnode g3 n). unfold set_pos, set_x, set_y in E. cbn in *. inversion E. repeat split; reflexivity.
    Qed.
  
    Lemma ssum_node_old : forall n, n < length (g_na g) ->
      n_layer (gnode g3 n) = n_layer (gnode g2 n) /\ n_virt (gnode g3 n) = false /\
      n_w (gnode g3 n) = n_w (gnode g n) /\ n_h (gnode g3 n) = n_h (gnode g n).
    Proof.
      intros n Hn. destruct ssum_lengths as (NA2 & _). rewrite <- NA2 in Hn.
      pose proof (s3_old _ _ _ _ S23 n Hn) as Sb.
      destruct (same_but_in_fields _ _ Sb) as (-> & -> & _). destruct (same_but_in_geom _ _ Sb) as (_ & _ & -> & ->).
      split; [reflexivity|]. rewrite (p2_node _ _ PP n). cbn [set_layer n_virt n_w n_h].
      destruct (rev_star_frame _ _ (s1_rs _ _ _ _ S01)) as (_ & _ & _ & _ & _ & F6 & _).
      destruct (same_but_adj_fields _ _ (F6 n)) as (_ & _ & -> & _ & _ & -> & ->).
      destruct (node_attrs_fields _ _ (s0_attrs _ _ _ _ S01 n)) as (_ & _ & -> & _ & _ & -> & ->).
      split; [apply (ci_nonvirt _ CI)|]. split; reflexivity.
    Qed.
  End SummaryS.
  
  Lemma sE1_of_backbone : forall bk o g g' x g0 del g1 g2 g3 k g3' cx g4 gm routes g5,
    component_input g -> backbone_sx bk o g g' x g0 del g1 g2 g3 k g3' cx g4 gm routes g5 -> E1_statement g g'.
  Proof.
    intros bk o g g' x g0 del g1 g2 g3 k g3' cx g4 gm routes g5 CI BB.
    pose proof (ssum_lengths _ _ _ _ _ _ _ _ _ _ _ _ _ _ _ _ _ BB) as (NA2 & EA2 & NA5 & E2 & N2 & E5 & N5 & L5).
    pose proof (ssum_post_range _ _ _ _ _ _ _ _ _ _ _ _ _ _ _ _ _ CI BB) as RNG.
    destruct (post_process_facts g5 del RNG) as (Q1 & Q2 & Q3 & Q4 & Q5 & Q6 & Q7 & Q8 & Q9). cbv zeta in *.
    rewrite <- (sb_e6 _ _ _ _ _ _ _ _ _ _ _ _ _ _ _ _ _ _ _ _ BB) in *.
    pose proof (sb_s01 _ _ _ _ _ _ _ _ _ _ _ _ _ _ _ _ _ _ _ _ BB) as S01.
    pose proof (sb_s23 _ _ _ _ _ _ _ _ _ _ _ _ _ _ _ _ _ _ _ _ BB) as S23.
    assert (EE : g_E g5 ++ del = filter (fun e => negb (self_loop g e)) (g_E g) ++ filter (self_loop g) (g_E g)).
    { rewrite E5, E2, (s0_del _ _ _ _ S01). reflexivity. }
    assert (INE : forall e, In e (g_E g) -> In e (g_E g5 ++ del)).
    { intros e He. rewrite EE. apply in_or_app. destruct (self_loop g e) eqn:Es; [right|left]; apply filter_In; split; auto.
      rewrite Es. reflexivity. }
    split; [rewrite Q2; exact EE|]. split; [|split; [|split]].
    - intros e He. split; [|split; [|apply Q5, INE, He]].
      + destruct (self_loop g e) eqn:Es.
        * assert (Hd : In e del) by (rewrite (s0_del _ _ _ _ S01); apply filter_In; auto).
          destruct (ssum_loop5 _ _ _ _ _ _ _ _ _ _ _ _ _ _ _ _ _ CI BB e Hd) as (_ & _ & TC).
          destruct (edge_eq_tc_fields _ _ TC) as (F1 & F2 & _ & _ & F5 & _).
          rewrite Q7; [exact F1|]. right. rewrite F5. apply (ci_edges _ CI e He).
        * destruct (ssum_edge5 _ _ _ _ _ _ _ _ _ _ _ _ _ _ _ _ _ BB e (conj He Es)) as (r & pts & _ & _ & G5 & _).
          destruct (ssum_edge2 _ _ _ _ _ _ _ _ _ _ _ _ _ _ _ _ _ CI BB e (conj He Es)) as (_ & _ & [(R & F & T)|(R & F & T)]).
          -- rewrite Q7; [rewrite G5; cbn; exact F|]. right. rewrite G5. cbn. exact R.
          -- rewrite Q6; [rewrite G5; cbn; exact T|apply INE, He|rewrite G5; cbn; exact R].
      + destruct (self_loop g e) eqn:Es.
        * assert (Hd : In e del) by (rewrite (s0_del _ _ _ _ S01); apply filter_In; auto).
          destruct (ssum_loop5 _ _ _ _ _ _ _ _ _ _ _ _ _ _ _ _ _ CI BB e Hd) as (_ & _ & TC).
          destruct (edge_eq_tc_fields _ _ TC) as (F1 & F2 & _ & _ & F5 & _).
          rewrite Q7; [exact F2|]. right. rewrite F5. apply (ci_edges _ CI e He).
        * destruct (ssum_edge5 _ _ _ _ _ _ _ _ _ _ _ _ _ _ _ _ _ BB e (conj He Es)) as (r & pts & _ & _ & G5 & _).
          destruct (ssum_edge2 _ _ _ _ _ _ _ _ _ _ _ _ _ _ _ _ _ CI BB e (conj He Es)) as (_ & _ & [(R & F & T)|(R & F & T)]).
          -- rewrite Q7; [rewrite G5; cbn; exact T|]. right. rewrite G5. cbn. exact R.
          -- rewrite Q6; [rewrite G5; cbn; exact F|apply INE, He|rewrite G5; cbn; exact R].
    - intros e He Es.
      assert (Hd : In e del) by (rewrite (s0_del _ _ _ _ S01); apply filter_In; auto).
      destruct (ssum_loop5 _ _ _ _ _ _ _ _ _ _ _ _ _ _ _ _ _ CI BB e Hd) as (_ & _ & TC).
      destruct (edge_eq_tc_fields _ _ TC) as (_ & _ & _ & _ & _ & F6 & _).
      destruct (Q8 e) as [-> _]. rewrite F6. apply (ci_edges _ CI e He).
    - exists (iota (length (g_na g)) k). split; [rewrite Q1; exact N5|].
      intros v Hv. apply BreakMerge.in_iota in Hv. split; [lia|].
      destruct (ssum_node3 _ _ _ _ _ _ _ _ _ _ _ _ _ _ _ _ _ CI BB v) as (_ & -> & _).
      apply (s3_new _ _ _ _ S23). rewrite NA2. exact Hv.
    - intros n Hn. pose proof (c_N_lt _ (ci_cons _ CI) n Hn) as Hlt.
      destruct (ssum_node3 _ _ _ _ _ _ _ _ _ _ _ _ _ _ _ _ _ CI BB n) as (_ & -> & -> & ->).
      destruct (ssum_node_old _ _ _ _ _ _ _ _ _ _ _ _ _ _ _ _ _ CI BB n Hlt) as (_ & ? & ? & ?). auto.
  Qed.
  
  Section E2S.
    Variables (bk : Z) (o : options) (g g' : graph) (x : option Z) (g0 : graph) (del : list nat) (g1 g2 g3 : graph) (k : nat)
              (g3' : graph) (cx : Z) (g4 gm : graph) (routes : list (nat * list nat)) (g5 : graph).
    Hypothesis CI : component_input g.
    Hypothesis BB : backbone_sx bk o g g' x g0 del g1 g2 g3 k g3' cx g4 gm routes g5.
  
    Let S01 := sb_s01 _ _ _ _ _ _ _ _ _ _ _ _ _ _ _ _ _ _ _ _ BB.
    Let S23 := sb_s23 _ _ _ _ _ _ _ _ _ _ _ _ _ _ _ _ _ _ _ _ BB.
    Let S45 := sb_s45 _ _ _ _ _ _ _ _ _ _ _ _ _ _ _ _ _ _ _ _ BB.
    Let PP := s2_post _ _ _ _ S23.
  
    (* the final graph has the layer list, the node list and the arena size of the phase-4 output *)
    Lemma sout_frame : g_L g' = g_L g4 /\ g_N g' = g_N g4 /\ length (g_na g') = length (g_na g4) /\
                      g_E g' = g_E g2 ++ del.
    Proof.
      pose proof (ssum_lengths _ _ _ _ _ _ _ _ _ _ _ _ _ _ _ _ _ BB) as (NA2 & EA2 & NA5 & E2 & N2 & E5 & N5 & L5).
      destruct (post_process_facts g5 del (ssum_post_range _ _ _ _ _ _ _ _ _ _ _ _ _ _ _ _ _ CI BB)) as (Q1 & Q2 & Q3 & Q4 & _).
      cbv zeta in *. rewrite <- (sb_e6 _ _ _ _ _ _ _ _ _ _ _ _ _ _ _ _ _ _ _ _ BB) in *.
      split; [congruence|]. split.
      { rewrite Q1, (s5_N _ _ _ _ _ _ _ _ _ S45). apply (sm_N _ _ _ _ _ _ _ _ _ S45). }
      split.
      { rewrite Q4, (s5_na _ _ _ _ _ _ _ _ _ S45). apply (sm_na _ _ _ _ _ _ _ _ _ S45). }
      rewrite Q2, E5. reflexivity.
    Qed.
  
    (* the layer of an end of a non-loop edge, read in g', is its layer in g2 *)
    Lemma sout_layer_old : forall n, n < length (g_na g) -> n_layer (gnode g' n) = layer_of g2 n.
    Proof.
      intros n Hn. destruct (ssum_node3 _ _ _ _ _ _ _ _ _ _ _ _ _ _ _ _ _ CI BB n) as (-> & _).
      destruct (ssum_node_old _ _ _ _ _ _ _ _ _ _ _ _ _ _ _ _ _ CI BB n Hn) as (-> & _). reflexivity.
    Qed.
  
    Lemma sE2_of_backbone : E2_statement (o_layer_spacing o) g g'.
    Proof.
      destruct sout_frame as (OL & ON & ONA & OE).
      assert (GL : forall j, glayer g' j = glayer g4 j) by (intros j; unfold glayer; rewrite OL; reflexivity).
      assert (WF' : layers_wf g').
      { unfold layers_wf. rewrite OL, ONA. apply (s4_wf _ _ _ _ _ _ _ _ _ S45). }
      assert (PL' : forall n, In n (g_N g') ->
                (0 <= n_layer (gnode g' n))%Z /\ In n (l_nodes (glayer g' (Z.to_nat (n_layer (gnode g' n)))))).
      { intros n Hn. rewrite ON in Hn. destruct (s4_placed _ _ _ _ _ _ _ _ _ S45 n Hn) as [P0 P1].
        destruct (ssum_node4 _ _ _ _ _ _ _ _ _ _ _ _ _ _ _ _ _ CI BB n) as (-> & _). rewrite GL. split; assumption. }
      split; [exact WF'|]. split; [exact PL'|]. split.
      - intros j n Hn.
        assert (HnN : In n (g_N g')).
        { rewrite ON, (s4_N _ _ _ _ _ _ _ _ _ S45). apply (s3_inl _ _ _ _ S23 j).
          apply (s4_inl _ _ _ _ _ _ _ _ _ S45). rewrite <- GL. exact Hn. }
        split; [exact HnN|]. split.
        + apply (layers_wf_unique g' n); [exact WF'|exact Hn|apply PL', HnN].
        + rewrite GL in Hn. destruct (s4_y _ _ _ _ _ _ _ _ _ S45 j n Hn) as [Y1 Y2].
          destruct (ssum_node4 _ _ _ _ _ _ _ _ _ _ _ _ _ _ _ _ _ CI BB n) as (_ & _ & _ & Hy & _ & Hh).
          unfold nY, nH in *. rewrite Hy, Hh, OL, GL. split; assumption.
      - intros e He Es. cbv zeta.
        destruct (sE1_of_backbone _ _ _ _ _ _ _ _ _ _ _ _ _ _ _ _ _ CI BB) as (_ & EN & _).
        destruct (EN e He) as (-> & -> & _).
        pose proof (ci_cons _ CI) as C.
        rewrite !sout_layer_old; [|apply (c_N_lt _ C), (c_to _ C e He)|apply (c_N_lt _ C), (c_from _ C e He)].
        destruct (ssum_edge5 _ _ _ _ _ _ _ _ _ _ _ _ _ _ _ _ _ BB e (conj He Es)) as (r & pts & _ & _ & G5 & _).
        destruct (post_process_facts g5 del (ssum_post_range _ _ _ _ _ _ _ _ _ _ _ _ _ _ _ _ _ CI BB))
          as (_ & _ & _ & _ & _ & _ & _ & Q8 & _). cbv zeta in Q8.
        rewrite <- (sb_e6 _ _ _ _ _ _ _ _ _ _ _ _ _ _ _ _ _ _ _ _ BB) in Q8. destruct (Q8 e) as [_ ->]. rewrite G5. cbn [set_pts set_ahs e_ahs].
        assert (He2 : In e (g_E g2)) by (apply (snonloop_E2 _ _ _ _ _ _ _ _ _ _ _ _ _ _ _ _ _ BB); split; assumption).
        pose proof (p2_span _ _ PP e He2) as SP.
        destruct (ssum_edge2 _ _ _ _ _ _ _ _ _ _ _ _ _ _ _ _ _ CI BB e (conj He Es)) as (_ & _ & [(R & F & T)|(R & F & T)]);
          rewrite R; rewrite F, T in SP; (split; [lia|split; split; intros; try discriminate; try lia; try reflexivity]).
    Qed.
  End E2S.
  
  Section E34S.
    Variables (bk : Z) (o : options) (g g' : graph) (x : option Z) (g0 : graph) (del : list nat) (g1 g2 g3 : graph) (k : nat)
              (g3' : graph) (cx : Z) (g4 gm : graph) (routes : list (nat * list nat)) (g5 : graph).
    Hypothesis CI : component_input g.
    Hypothesis BB : backbone_sx bk o g g' x g0 del g1 g2 g3 k g3' cx g4 gm routes g5.
  
    Let S01 := sb_s01 _ _ _ _ _ _ _ _ _ _ _ _ _ _ _ _ _ _ _ _ BB.
    Let S23 := sb_s23 _ _ _ _ _ _ _ _ _ _ _ _ _ _ _ _ _ _ _ _ BB.
    Let S45 := sb_s45 _ _ _ _ _ _ _ _ _ _ _ _ _ _ _ _ _ _ _ _ BB.
    Let PP := s2_post _ _ _ _ S23.
  
    (* the geometry read by the routers is the same in the merged graph and in the final graph *)
    Lemma sgeom_gm_out : forall n,
      nX gm n = nX g' n /\ nY gm n = nY g' n /\ nW gm n = nW g' n /\ nH gm n = nH g' n /\
      layer_of gm n = layer_of g' n /\ layer_h_of gm n = layer_h_of g' n /\
      n_virt (gnode gm n) = n_virt (gnode g' n).
    Proof.
      intros n. destruct (ssum_node4 _ _ _ _ _ _ _ _ _ _ _ _ _ _ _ _ _ CI BB n) as (A1 & A2 & A3 & A4 & A5 & A6).
      pose proof (sm_node _ _ _ _ _ _ _ _ _ S45 n) as Sb.
      destruct (same_but_in_fields _ _ Sb) as (B1 & B2 & _). destruct (same_but_in_geom _ _ Sb) as (B3 & B4 & B5 & B6).
      assert (LY : layer_of gm n = layer_of g' n) by (unfold layer_of; congruence).
      unfold nX, nY, nW, nH. repeat split; try congruence.
      unfold layer_h_of, glayer. rewrite LY.
      destruct (sout_frame _ _ _ _ _ _ _ _ _ _ _ _ _ _ _ _ _ CI BB) as (-> & _).
      rewrite (sm_L _ _ _ _ _ _ _ _ _ S45). reflexivity.
    Qed.
  
    Lemma sstart_point_out : forall n, start_point gm n = start_point g' n.
    Proof. intros n. destruct (sgeom_gm_out n) as (A & B & C & D & _). unfold start_point. rewrite A, B, C, D. reflexivity. Qed.
    Lemma send_point_out : forall n, end_point gm n = end_point g' n.
    Proof. intros n. destruct (sgeom_gm_out n) as (A & B & C & _). unfold end_point. rewrite A, B, C. reflexivity. Qed.
    Lemma sbend_out : forall n, bend gm n = bend g' n.
    Proof. intros n. destruct (sgeom_gm_out n) as (A & B & C & _ & _ & F & _). unfold bend. rewrite A, B, C, F. reflexivity. Qed.
  
    (* everything the route theorems need about one non-loop edge *)
    Lemma sroute_setup : forall e, In e (g_E g) -> self_loop g e = false ->
      exists mid pts,
        let a := upper_end g' e in let b := lower_end g' e in
        e_pts (gedge g' e) = pts /\
        routed (o_p5 o) (o_layer_spacing o) gm (e, a :: mid ++ [b]) pts /\
        is_flat gm e = false /\ e_pts (gedge gm e) = [] /\
        e_from (gedge gm e) = a /\ e_to (gedge gm e) = b /\
        (e_ahs (gedge g' e) = false -> a = e_from (gedge g' e) /\ b = e_to (gedge g' e)) /\
        (e_ahs (gedge g' e) = true -> a = e_to (gedge g' e) /\ b = e_from (gedge g' e)) /\
        Z.of_nat (length (a :: mid ++ [b])) = (n_layer (gnode g' b) - n_layer (gnode g' a) + 1)%Z /\
        (1 <= n_layer (gnode g' b) - n_layer (gnode g' a))%Z /\
        (forall v, In v mid -> In v (g_N g') /\ length (g_na g) <= v /\ n_virt (gnode gm v) = true) /\
        chain_layers gm (a :: mid ++ [b]) /\
        chain_y_eq gm (o_layer_spacing o) (a :: mid ++ [b]) /\
        In a (g_N g4).
    Proof.
      intros e He Es.
      pose proof (ssum_lengths _ _ _ _ _ _ _ _ _ _ _ _ _ _ _ _ _ BB) as (NA2 & EA2 & NA5 & E2 & N2 & E5 & N5 & L5).
      destruct (ssum_edge5 _ _ _ _ _ _ _ _ _ _ _ _ _ _ _ _ _ BB e (conj He Es)) as (r & pts & Hr & Er & G5 & RT & RO & CY).
      destruct RO as (mid & Ens & LEN & Hmid & CL). rewrite Er in *.
      destruct (post_process_facts g5 del (ssum_post_range _ _ _ _ _ _ _ _ _ _ _ _ _ _ _ _ _ CI BB))
        as (_ & _ & _ & _ & _ & _ & _ & Q8 & _). cbv zeta in Q8.
      rewrite <- (sb_e6 _ _ _ _ _ _ _ _ _ _ _ _ _ _ _ _ _ _ _ _ BB) in Q8. destruct (Q8 e) as [QP QA].
      destruct (sE1_of_backbone _ _ _ _ _ _ _ _ _ _ _ _ _ _ _ _ _ CI BB) as (_ & EN & _). destruct (EN e He) as (EF & ET & _).
      assert (He2 : In e (g_E g2)) by (apply (snonloop_E2 _ _ _ _ _ _ _ _ _ _ _ _ _ _ _ _ _ BB); split; assumption).
      pose proof (sm_edge _ _ _ _ _ _ _ _ _ S45 e He2) as GM.
      pose proof (p2_span _ _ PP e He2) as SP.
      destruct (ssum_edge2 _ _ _ _ _ _ _ _ _ _ _ _ _ _ _ _ _ CI BB e (conj He Es)) as (P2 & _ & OR).
      pose proof (ci_cons _ CI) as C.
      pose proof (c_N_lt _ C _ (c_from _ C e He)) as LF. pose proof (c_N_lt _ C _ (c_to _ C e He)) as LT.
      assert (AHS : e_ahs (gedge g' e) = e_rev (gedge g2 e)) by (rewrite QA, G5; reflexivity).
      assert (UA : upper_end g' e = e_from (gedge g2 e) /\ lower_end g' e = e_to (gedge g2 e)).
      { unfold upper_end, lower_end. rewrite AHS, EF, ET. destruct OR as [(R & F & T)|(R & F & T)]; rewrite R, F, T; auto. }
      destruct UA as [UA UB].
      assert (LYo : forall n, n < length (g_na g) -> n_layer (gnode g' n) = layer_of g2 n).
      { intros n Hn. apply (sout_layer_old _ _ _ _ _ _ _ _ _ _ _ _ _ _ _ _ _ CI BB n Hn). }
      assert (LA : e_from (gedge g2 e) < length (g_na g) /\ e_to (gedge g2 e) < length (g_na g)).
      { destruct OR as [(_ & F & T)|(_ & F & T)]; rewrite F, T; auto. }
      exists mid, pts. cbv zeta. rewrite UA, UB.
      split; [rewrite QP, G5; reflexivity|]. split; [rewrite <- Ens, <- Er; destruct r; exact RT|].
      split.
      { unfold is_flat. rewrite GM. cbn [set_ahs e_from e_to]. apply Z.eqb_neq.
        destruct (sgeom_gm_out (e_from (gedge g2 e))) as (_ & _ & _ & _ & -> & _).
        destruct (sgeom_gm_out (e_to (gedge g2 e))) as (_ & _ & _ & _ & -> & _).
        unfold layer_of at 1 2. rewrite !LYo by apply LA. lia. }
      split; [rewrite GM; exact P2|]. split; [rewrite GM; reflexivity|]. split; [rewrite GM; reflexivity|].
      split.
      { intros HA. rewrite AHS in HA. destruct OR as [(R & F & T)|(R & F & T)]; [|congruence]. rewrite EF, ET. auto. }
      split.
      { intros HA. rewrite AHS in HA. destruct OR as [(R & F & T)|(R & F & T)]; [congruence|]. rewrite EF, ET. auto. }
      split.
      { rewrite <- Ens, LEN. unfold span. rewrite !LYo by apply LA. reflexivity. }
      split.
      { rewrite !LYo by apply LA. exact SP. }
      split.
      { intros v Hv. destruct (Hmid v Hv) as [Rg Vt]. rewrite NA2 in Rg.
        destruct (sout_frame _ _ _ _ _ _ _ _ _ _ _ _ _ _ _ _ _ CI BB) as (_ & -> & _).
        split; [|split; [lia|exact Vt]].
        rewrite (s4_N _ _ _ _ _ _ _ _ _ S45), (s3_N _ _ _ _ S23). apply in_or_app. right.
        apply BreakMerge.in_iota. rewrite (sm_na _ _ _ _ _ _ _ _ _ S45), (s4_na _ _ _ _ _ _ _ _ _ S45), (s3_na _ _ _ _ S23) in Rg.
        rewrite NA2. lia. }
      split; [rewrite <- Ens; exact CL|]. split; [rewrite <- Ens; exact CY|].
      rewrite (s4_N _ _ _ _ _ _ _ _ _ S45), (s3_N _ _ _ _ S23). apply in_or_app. left.
      apply (s2_ends _ _ _ _ S23 e He2).
    Qed.

    (* ---------- the spline routes ---------- *)
    Hypothesis SO : shortest_ok shortest.
    Hypothesis FO : fit_ok fit.

    (* the points of a non-loop edge: the spline route of the merged graph, read in the geometry of the output *)
    Lemma sroute_spline : o_p5 o = OtherRouting -> forall e, In e (g_E g) -> self_loop g e = false ->
      spline_shape (start_point g' (upper_end g' e)) (end_point g' (lower_end g' e)) (e_pts (gedge g' e)).
    Proof.
      intros O5 e He Es.
      destruct (sroute_setup e He Es) as (mid & pts & RS). cbv zeta in RS.
      destruct RS as (_ & _ & _ & _ & EA & EB & _).
      assert (He2 : In e (g_E g2)) by (apply (snonloop_E2 _ _ _ _ _ _ _ _ _ _ _ _ _ _ _ _ _ BB); split; assumption).
      destruct (sb_spl _ _ _ _ _ _ _ _ _ _ _ _ _ _ _ _ _ _ _ _ BB O5 e He2) as (ns & spts & R1 & R2).
      destruct (post_process_facts g5 del (ssum_post_range _ _ _ _ _ _ _ _ _ _ _ _ _ _ _ _ _ CI BB))
        as (_ & _ & _ & _ & _ & _ & _ & Q8 & _). cbv zeta in Q8.
      rewrite <- (sb_e6 _ _ _ _ _ _ _ _ _ _ _ _ _ _ _ _ _ _ _ _ BB) in Q8. destruct (Q8 e) as [QP _].
      rewrite QP, R2. cbn [set_pts e_pts].
      pose proof (spline_route_shape shortest fit mk_inner SO FO gm e ns spts R1) as SH.
      rewrite EA, EB, sstart_point_out, send_point_out in SH. exact SH.
    Qed.

    Lemma sE3_of_backbone : o_p5 o = OtherRouting -> E3_statement g g'.
    Proof.
      intros O5 e He Es. cbv zeta.
      destruct (sroute_setup e He Es) as (mid & pts & RS). cbv zeta in RS.
      destruct RS as (_ & _ & _ & _ & _ & _ & AH0 & AH1 & _ & LY & _).
      destruct (sroute_spline O5 e He Es) as (kk & K1 & K2 & K3 & K4 & K5).
      split; [intros E; rewrite E in K2; cbn [length] in K2; lia|].
      split; [rewrite K4; reflexivity|]. split; [rewrite K5; reflexivity|]. split; [lia|]. split; assumption.
    Qed.

    Lemma sE4s_of_backbone : o_p5 o = OtherRouting -> E4s_statement g g'.
    Proof. intros O5 e He Es. apply sroute_spline; assumption. Qed.
  End E34S.

  (* ====================================================================================================== *)
  (** * 2. One connected component (at least two nodes)                                                      *)
  (* ====================================================================================================== *)

  (* ---------- the four routers of [routed_p5]: nothing is assumed of the numeric oracles ---------- *)
  Theorem Gs1_output_graph_any : forall bk o g g' x, component_input g -> routed_p5 (o_p5 o) ->
    layout_component_sx bk o g = Ok (g', x) -> E1_statement g g'.
  Proof.
    intros bk o g g' x CI O5 H.
    destruct (backbone_sx_holds shortest fit mk_inner bk o g g' x CI O5 H)
      as (g0 & del & g1 & g2 & g3 & k & g3' & cx & g4 & gm & routes & g5 & BB).
    eapply sE1_of_backbone; eassumption.
  Qed.

  Theorem Gs2_bands_any : forall bk o g g' x, component_input g -> routed_p5 (o_p5 o) ->
    layout_component_sx bk o g = Ok (g', x) -> E2_statement (o_layer_spacing o) g g'.
  Proof.
    intros bk o g g' x CI O5 H.
    destruct (backbone_sx_holds shortest fit mk_inner bk o g g' x CI O5 H)
      as (g0 & del & g1 & g2 & g3 & k & g3' & cx & g4 & gm & routes & g5 & BB).
    eapply sE2_of_backbone; eassumption.
  Qed.

  (* ---------- the spline router (the requested statements) ---------- *)
  Theorem Gs1_output_graph : forall bk o g g' x,
    component_input g -> o_p5 o = OtherRouting ->
    layout_component_sx bk o g = Ok (g', x) -> E1_statement g g'.
  Proof. intros bk o g g' x CI O5 H. apply (Gs1_output_graph_any bk o g g' x CI (or_intror O5) H). Qed.

  Theorem Gs2_bands : forall bk o g g' x,
    component_input g -> o_p5 o = OtherRouting ->
    layout_component_sx bk o g = Ok (g', x) -> E2_statement (o_layer_spacing o) g g'.
  Proof. intros bk o g g' x CI O5 H. apply (Gs2_bands_any bk o g g' x CI (or_intror O5) H). Qed.

  Theorem Gs2_band_separation : forall bk o g g' x,
    component_input g -> o_p5 o = OtherRouting ->
    layout_component_sx bk o g = Ok (g', x) ->
    forall k n m, In n (l_nodes (glayer g' k)) -> In m (l_nodes (glayer g' (S k))) ->
      (Phase4.nY g' n + Phase4.nH g' n + o_layer_spacing o <= Phase4.nY g' m)%Q.
  Proof.
    intros bk o g g' x CI O5 H k n m Hn Hm.
    destruct (Gs2_bands bk o g g' x CI O5 H) as (_ & _ & B & _).
    destruct (B k n Hn) as (_ & _ & -> & Hh). destruct (B (S k) m Hm) as (_ & _ & -> & _).
    rewrite ysum_S. fold (glayer g' k). lra.
  Qed.

  (* C05 *)
  Theorem Gs3_endpoints : shortest_ok shortest -> fit_ok fit -> forall bk o g g' x,
    component_input g -> o_p5 o = OtherRouting ->
    layout_component_sx bk o g = Ok (g', x) -> E3_statement g g'.
  Proof.
    intros SO FO bk o g g' x CI O5 H.
    destruct (backbone_sx_holds shortest fit mk_inner bk o g g' x CI (or_intror O5) H)
      as (g0 & del & g1 & g2 & g3 & k & g3' & cx & g4 & gm & routes & g5 & BB).
    eapply sE3_of_backbone; eassumption.
  Qed.

  (* C06 *)
  Theorem Gs4_spline_shape : shortest_ok shortest -> fit_ok fit -> forall bk o g g' x,
    component_input g -> o_p5 o = OtherRouting ->
    layout_component_sx bk o g = Ok (g', x) -> E4s_statement g g'.
  Proof.
    intros SO FO bk o g g' x CI O5 H.
    destruct (backbone_sx_holds shortest fit mk_inner bk o g g' x CI (or_intror O5) H)
      as (g0 & del & g1 & g2 & g3 & k & g3' & cx & g4 & gm & routes & g5 & BB).
    eapply sE4s_of_backbone; eassumption.
  Qed.

  (* C06 in the words of the property: 4k control points whose cubic pieces join end to end *)
  Corollary Gs4_spline_points : shortest_ok shortest -> fit_ok fit -> forall bk o g g' x,
    component_input g -> o_p5 o = OtherRouting ->
    layout_component_sx bk o g = Ok (g', x) ->
    forall e, In e (g_E g) -> self_loop g e = false ->
      let pts := e_pts (gedge g' e) in
      exists k, 1 <= k /\ length pts = 4 * k /\
        forall d i, i + 1 < k -> nth (4 * i + 3) pts d = nth (4 * (i + 1)) pts d.
  Proof.
    intros SO FO bk o g g' x CI O5 H e He Es. cbv zeta.
    destruct (Gs4_spline_shape SO FO bk o g g' x CI O5 H e He Es) as (k & K1 & K2 & K3 & _). exists k. auto.
  Qed.

  (* ====================================================================================================== *)
  (** * 3. The whole layout                                                                                  *)
  (* ====================================================================================================== *)

  Lemma phase5x_single : forall alg sp g, length (g_N g) = 1 ->
    PipelineSpl.phase5x shortest fit mk_inner alg sp g = phase5 alg sp g.
  Proof.
    intros alg sp g L1. destruct alg; try reflexivity.
    cbn [PipelineSpl.phase5x]. unfold phase5_splines, phase5. rewrite L1. reflexivity.
  Qed.

  (* a single-node component is neither positioned by Brandes-Koepf nor routed *)
  Lemma layout_component_sx_single : forall bk o c,
    length (g_N c) = 1 -> layout_component_sx bk o c = layout_component o c.
  Proof.
    intros bk o c L1. rewrite <- (layout_component_x_single bk o c L1).
    unfold PipelineSpl.layout_component_sx, layout_component_x.
    destruct (ignore_self_loops c) as [g0 del] eqn:E0.
    assert (N0 : g_N g0 = g_N c).
    { replace g0 with (fst (ignore_self_loops c)) by (rewrite E0; reflexivity). apply ignore_self_loops_N. }
    unfold phase1. rewrite N0, L1. cbn [Nat.eqb bind].
    unfold phase2, assign_layers. rewrite N0, L1. cbn [Nat.eqb bind].
    destruct (init_layer_slices g0) as [g2|] eqn:SL; cbn [bind]; [|reflexivity].
    destruct (slices_facts g0 g2 SL) as (_ & _ & N2 & _).
    unfold phase3_wmedian. rewrite N2, N0, L1. cbn [Nat.eqb bind].
    assert (L2 : length (g_N g2) = 1) by (rewrite N2, N0; exact L1).
    rewrite (phase4x_single bk (o_p4 o) (p4_params o) g2 L2).
    destruct (phase4 (o_p4 o) (p4_params o) g2) as [g4|] eqn:P4; cbn [bind]; [|reflexivity].
    assert (L4 : length (g_N g4) = 1).
    { unfold phase4 in P4. rewrite L2 in P4. cbn [Nat.eqb] in P4.
      destruct (g_N g2) as [|n t] eqn:EN; injection P4 as <-; [rewrite EN; exact L2|].
      cbn [upd_layer with_L g_N]. rewrite EN. exact L2. }
    rewrite (phase5x_single (o_p5 o) (o_layer_spacing o) g4 L4). reflexivity.
  Qed.

  (* [WholeLayout.layout_components_collected] for [layout_components_sx] *)
  Lemma layout_components_sx_collected : forall bk o cs shift ns oes xs,
    o_virtual o = false ->
    (forall c c' x, In c cs -> layout_component_sx bk o c = Ok (c', x) -> E1_statement c c') ->
    layout_components_sx bk o cs shift = Ok (ns, oes, xs) ->
    map (fun on => (on_id on, on_w on, on_h on)) ns =
      flat_map (fun c => map (fun n => (n, n_w (gnode c n), n_h (gnode c n))) (g_N c)) cs /\
    map (fun oe => (oe_from oe, oe_to oe)) oes =
      flat_map (fun c => map (fun e => (e_from (gedge c e), e_to (gedge c e))) (nl_sl c)) cs.
  Proof.
    intros bk o cs; induction cs as [|c rest IH]; intros shift ns oes xs OV P H.
    - cbn in H. injection H as <- <- <-. split; reflexivity.
    - cbn [PipelineSpl.layout_components_sx] in H.
      destruct (layout_component_sx bk o c) as [[c' x]|e] eqn:Ec; cbn [bind] in H; [|discriminate].
      destruct (layout_components_sx bk o rest (shift + rightmost c' + o_node_spacing o)%Q) as [[[ns' es'] xs']|e] eqn:Er;
        cbn [bind] in H; [|discriminate].
      injection H as <- <- <-.
      destruct (IH _ _ _ _ OV (fun c0 c0' x0 Hc => P c0 c0' x0 (or_intror Hc)) Er) as [I1 I2].
      destruct (collected_of_E1 c c' shift (P c c' x (or_introl eq_refl) Ec)) as [C1 C2].
      rewrite OV. cbn [flat_map]. rewrite !map_app, I1, I2, C1, C2. split; reflexivity.
  Qed.
  
  Section W4s.
    Variable A : Type.
    Variable eqA : A -> A -> bool.
    Hypothesis OK : forall x y, eqA x y = true <-> x = y.
    Variables (bk : Z) (o : options) (fixed : option (Q * Q)) (sizes : option (list (A * (Q * Q)))) (es : list (list A)).
    Variables (ids : list A) (ns : list onode) (oes : list oedge) (xs : list Z).
    Hypothesis O5 : routed_p5 (o_p5 o).
    Hypothesis LAY : layout_sx A eqA bk o fixed sizes es = Ok (ids, (ns, oes, xs)).
  
    Lemma layout_sx_inv : exists g,
      populate A eqA es = Ok (ids, g) /\ ids <> [] /\
      layout_components_sx bk o (components (apply_sizes A eqA fixed sizes ids g)) 0 = Ok (ns, oes, xs).
    Proof.
      unfold PipelineSpl.layout_sx in LAY. destruct (populate A eqA es) as [[ids0 g]|] eqn:POP; cbn [bind] in LAY; [|discriminate].
      destruct ids0 as [|i0 t0]; [discriminate|].
      destruct (layout_components_sx bk o (components (apply_sizes A eqA fixed sizes (i0 :: t0) g)) 0) as [r|] eqn:LC;
        cbn [bind] in LAY; [|discriminate].
      injection LAY as <- ->. exists g. split; [reflexivity|]. split; [discriminate|exact LC].
    Qed.
  
    (* every component the layout processes satisfies E1 *)
    Lemma layout_components_sx_E1 : forall g, populate A eqA es = Ok (ids, g) ->
      forall c c' x, In c (components (apply_sizes A eqA fixed sizes ids g)) -> layout_component_sx bk o c = Ok (c', x) ->
        E1_statement c c'.
    Proof.
      intros g POP c c' x Hc LC.
      destruct (front_components A eqA OK es ids g fixed sizes POP c Hc) as (FC & _).
      destruct (Nat.le_gt_cases 2 (length (g_N c))) as [TWO|ONE].
      - apply (Gs1_output_graph_any bk o c c' x); [|exact O5|exact LC].
        apply (frontend_component_input A eqA OK es ids g fixed sizes POP c Hc TWO).
      - assert (L1 : length (g_N c) = 1).
        { pose proof (fc_nonempty _ FC). destruct (g_N c) as [|n [|m t]]; cbn in *; [congruence|reflexivity|lia]. }
        rewrite (layout_component_sx_single bk o c L1) in LC.
        apply (single_E1 o c c' x FC L1 LC).
    Qed.
  
    Theorem W4a_layout_sx_output : o_virtual o = false ->
      NoDup ids /\ (forall x, In x ids <-> exists p, In p es /\ In x p) /\
      Permutation (map on_id ns) (iota 0 (length ids)) /\
      (forall a, In a ns -> exists x, nth_error ids (on_id a) = Some x /\
                                      (on_w a, on_h a) = size_of A eqA fixed sizes x (0, 0)%Q) /\
      Permutation (map (id_pair A ids) oes) es.
    Proof.
      intros OV. destruct layout_sx_inv as (g & POP & _ & LC).
      pose proof (populate_wf eqA OK es POP) as P.
      destruct (front_g1 A eqA OK es ids g fixed sizes POP) as (C1 & EA1 & N1 & E1 & NA1 & _ & SZ1).
      set (g1 := apply_sizes A eqA fixed sizes ids g) in *.
      destruct (components_partition g1 C1) as (P1 & _ & _ & _ & _ & P6 & P7 & _). cbv zeta in *.
      destruct (layout_components_sx_collected bk o (components g1) 0 ns oes xs OV (layout_components_sx_E1 g POP) LC) as [CN CE].
      assert (GN : forall c, In c (components g1) -> forall n, gnode c n = gnode g1 n).
      { intros c Hc n. unfold gnode. destruct (P1 c Hc) as (-> & _). reflexivity. }
      assert (GE : forall c, In c (components g1) -> forall e, gedge c e = gedge g e).
      { intros c Hc e. unfold gedge. destruct (P1 c Hc) as (_ & -> & _). rewrite EA1. reflexivity. }
      (* nodes *)
      assert (CN' : map (fun on => (on_id on, on_w on, on_h on)) ns =
                    map (fun n => (n, n_w (gnode g1 n), n_h (gnode g1 n))) (flat_map g_N (components g1))).
      { rewrite CN, <- flat_map_map_outer. apply flat_map_ext_in. intros c Hc. apply map_ext. intros n.
        rewrite (GN c Hc n). reflexivity. }
      assert (PN : Permutation (flat_map g_N (components g1)) (iota 0 (length ids))).
      { rewrite flat_map_concat_map, <- N1. exact P6. }
      split; [apply (p_nodup P)|]. split.
      { intros x. split; [apply (p_ids_sound P)|]. intros (p & Hp & Hx). apply (p_ids_complete P p x Hp Hx). }
      split.
      { replace (map on_id ns) with (map (fun t : nat * Q * Q => fst (fst t)) (map (fun on => (on_id on, on_w on, on_h on)) ns))
          by (rewrite map_map; reflexivity).
        rewrite CN', map_map. cbn [fst]. rewrite map_id. exact PN. }
      split.
      { intros a Ha.
        assert (Hin : In (on_id a, on_w a, on_h a) (map (fun on => (on_id on, on_w on, on_h on)) ns))
          by (apply (in_map (fun on => (on_id on, on_w on, on_h on))), Ha).
        rewrite CN' in Hin. apply in_map_iff in Hin. destruct Hin as (n & En & Hn). injection En as E1' E2' E3'.
        apply (Permutation_in _ PN) in Hn. apply ListLemmas.in_iota in Hn.
        destruct (nth_error ids n) as [x|] eqn:Ex; [|apply nth_error_None in Ex; lia].
        exists x. rewrite <- E1', <- E2', <- E3'. split; [exact Ex|apply (SZ1 n x Ex)]. }
      (* edges *)
      assert (CE' : map (fun oe => (oe_from oe, oe_to oe)) oes =
                    map (fun e => (e_from (gedge g e), e_to (gedge g e))) (flat_map nl_sl (components g1))).
      { rewrite CE, <- flat_map_map_outer. apply flat_map_ext_in. intros c Hc. apply map_ext. intros e.
        rewrite (GE c Hc e). reflexivity. }
      assert (PE : Permutation (flat_map nl_sl (components g1)) (iota 0 (length es))).
      { eapply Permutation_trans; [|rewrite <- E1; rewrite <- flat_map_concat_map in P7; exact P7].
        apply flat_map_perm_pointwise. intros c _. unfold nl_sl.
        eapply Permutation_trans; [apply Permutation_app_comm|]. apply filter_partition_perm. }
      set (pr := fun t : nat * nat => match nth_error ids (fst t), nth_error ids (snd t) with
                                      | Some s, Some t' => [s; t'] | _, _ => [] end).
      replace (map (id_pair A ids) oes) with (map pr (map (fun oe => (oe_from oe, oe_to oe)) oes))
        by (rewrite map_map; reflexivity).
      rewrite CE', map_map.
      eapply Permutation_trans; [apply Permutation_map, PE|].
      rewrite (map_iota_nth_error _ _ es 0); [apply Permutation_refl|].
      intros i p Hi. cbn [Nat.add]. destruct (p_arity P p (nth_error_In _ _ Hi)) as (s & t & ->).
      destruct (p_edge P i Hi) as (F & T & _). unfold pr. cbn [fst snd]. rewrite F, T. reflexivity.
    Qed.
  End W4s.

  (* the statement of [BKPipeline2.Gx7_layout_output] for [layout_sx]: any positioner, any of the four routers *)
  Theorem Gs7_layout_output_any : forall (A : Type) (eqA : A -> A -> bool), (forall x y, eqA x y = true <-> x = y) ->
    forall bk o fixed sizes es ids ns oes xs, routed_p5 (o_p5 o) ->
    layout_sx A eqA bk o fixed sizes es = Ok (ids, (ns, oes, xs)) -> o_virtual o = false ->
    NoDup ids /\ (forall x, In x ids <-> exists p, In p es /\ In x p) /\
    Permutation (map on_id ns) (iota 0 (length ids)) /\
    (forall a, In a ns -> exists x, nth_error ids (on_id a) = Some x /\
                                    (on_w a, on_h a) = SizesProofs.size_of A eqA fixed sizes x (0, 0)%Q) /\
    Permutation (map (id_pair A ids) oes) es.
  Proof.
    intros A eqA OK bk o fixed sizes es ids ns oes xs O5 LAY OV.
    exact (W4a_layout_sx_output A eqA OK bk o fixed sizes es ids ns oes xs O5 LAY OV).
  Qed.

  Theorem Gs7_layout_output : forall (A : Type) (eqA : A -> A -> bool), (forall x y, eqA x y = true <-> x = y) ->
    forall bk o fixed sizes es ids ns oes xs, o_p5 o = OtherRouting ->
    layout_sx A eqA bk o fixed sizes es = Ok (ids, (ns, oes, xs)) -> o_virtual o = false ->
    NoDup ids /\ (forall x, In x ids <-> exists p, In p es /\ In x p) /\
    Permutation (map on_id ns) (iota 0 (length ids)) /\
    (forall a, In a ns -> exists x, nth_error ids (on_id a) = Some x /\
                                    (on_w a, on_h a) = SizesProofs.size_of A eqA fixed sizes x (0, 0)%Q) /\
    Permutation (map (id_pair A ids) oes) es.
  Proof.
    intros A eqA OK bk o fixed sizes es ids ns oes xs O5.
    apply (Gs7_layout_output_any A eqA OK bk o fixed sizes es ids ns oes xs (or_intror O5)).
  Qed.
End SplinePipeline2.

Print Assumptions Gs1_output_graph.
Print Assumptions Gs2_bands.
Print Assumptions Gs2_band_separation.
Print Assumptions Gs3_endpoints.
Print Assumptions Gs4_spline_shape.
Print Assumptions Gs4_spline_points.
Print Assumptions Gs7_layout_output.

(* ====================================================================================================== *)
(** * 4. Examples                                                                                          *)
(* ====================================================================================================== *)

Module SplinePipelineExample.
  Import SplineRoutingExample.

  (* the options of BKPipeline2.bx_o with the spline router (Brandes-Koepf positioner), and with PackRight *)
  Definition sx_o : options := mkOptions DepthFirst LongestPath OtherPositioner OtherRouting 1 0 5 7 false.
  Definition sx_o' : options := mkOptions DepthFirst LongestPath PackRight OtherRouting 1 0 5 7 false.

  Example sx_o_p5 : o_p5 sx_o = OtherRouting. Proof. reflexivity. Qed.

  (* (a) one component: a root above K(3,3), the long edge 6 -> 4 (broken by a helper node), a self loop; the oracles of
     SplineRouting.SplineRoutingExample: a three-point path, one piece per segment *)
  Definition sx_out : graph :=
    Eval vm_compute in
      match layout_component_sx sh3 fit3 inner (-1) sx_o wc_g with Ok (g, _) => g | Err _ => empty_graph end.

  Example sx_component_runs : layout_component_sx sh3 fit3 inner (-1) sx_o wc_g = Ok (sx_out, Some 9%Z).
  Proof. vm_compute. reflexivity. Qed.

  (* every non-loop edge carries 8 control points, the self loop none *)
  Example sx_component_eval :
    map (fun e => length (e_pts (gedge sx_out e))) (g_E sx_out) = [8; 8; 8; 8; 8; 8; 8; 8; 8; 8; 8; 8; 8; 0].
  Proof. vm_compute. reflexivity. Qed.

  (* the theorems on the example: their hypotheses are satisfiable *)
  Example sx_Gs : E1_statement wc_g sx_out /\ E2_statement 7 wc_g sx_out /\ E3_statement wc_g sx_out /\
                  E4s_statement wc_g sx_out.
  Proof.
    pose proof sx_component_runs as R.
    split; [exact (Gs1_output_graph _ _ _ _ _ _ _ _ wc_input sx_o_p5 R)|].
    split; [exact (Gs2_bands _ _ _ _ _ _ _ _ wc_input sx_o_p5 R)|].
    split; [exact (Gs3_endpoints _ _ _ sh3_ok fit3_ok _ _ _ _ _ wc_input sx_o_p5 R)|].
    exact (Gs4_spline_shape _ _ _ sh3_ok fit3_ok _ _ _ _ _ wc_input sx_o_p5 R).
  Qed.
  Print Assumptions sx_Gs.

  (* with the straight path MakeSpline is used: 4 points per edge; the fitter is never called *)
  Example sx_component_make_spline :
    match layout_component_sx sh2 no_fit inner (-1) sx_o' wc_g with
    | Ok (g, _) => map (fun e => length (e_pts (gedge g e))) (g_E g)
    | Err _ => []
    end = [4; 4; 4; 4; 4; 4; 4; 4; 4; 4; 4; 4; 4; 0].
  Proof. vm_compute. reflexivity. Qed.

  (* for the other routers [layout_component_sx] is [layout_component_x] *)
  Example sx_eq_polyline : layout_component_sx sh3 fit3 inner (-1) bx_o wc_g = layout_component_x (-1) bx_o wc_g.
  Proof. apply layout_component_sx_eq. discriminate. Qed.

  (* (b) the whole layout: WholeLayout.wl_edges — a diamond with a long edge and a self loop, a single node with a self
     loop and its own size, an antiparallel pair *)
  Definition sx_result := Eval vm_compute in
    match layout_sx sh3 fit3 inner nat Nat.eqb (-1) sx_o (Some (10, 6)%Q) wl_sizes wl_edges with
    | Ok (_, r) => r
    | Err _ => ([], [], [])
    end.
  Definition sx_ns : list onode := fst (fst sx_result).
  Definition sx_oes : list oedge := snd (fst sx_result).
  Definition sx_xs : list Z := snd sx_result.

  Example sx_layout :
    layout_sx sh3 fit3 inner nat Nat.eqb (-1) sx_o (Some (10, 6)%Q) wl_sizes wl_edges = Ok (wl_ids, (sx_ns, sx_oes, sx_xs)).
  Proof. vm_compute. reflexivity. Qed.

  Example sx_layout_eval :
    map on_id sx_ns = [0; 1; 2; 3; 4; 5; 6] /\
    map (fun e => (oe_from e, oe_to e, length (oe_pts e), oe_ahs e)) sx_oes =
      [(0, 1, 8, false); (0, 2, 8, false); (1, 3, 8, false); (2, 3, 8, false); (0, 3, 8, false); (3, 3, 0, false);
       (4, 4, 0, false); (5, 6, 8, false); (6, 5, 8, true)].
  Proof. vm_compute. repeat split; reflexivity. Qed.

  Example sx_Gs7 :
    Permutation (map on_id sx_ns) (iota 0 7) /\ Permutation (map (id_pair nat wl_ids) sx_oes) wl_edges.
  Proof.
    destruct (Gs7_layout_output sh3 fit3 inner nat Nat.eqb Nat.eqb_eq (-1) sx_o (Some (10, 6)%Q) wl_sizes wl_edges wl_ids
                sx_ns sx_oes sx_xs sx_o_p5 sx_layout eq_refl) as (_ & _ & A & _ & B).
    split; assumption.
  Qed.
  Print Assumptions sx_Gs7.
End SplinePipelineExample.
