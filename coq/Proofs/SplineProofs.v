(* SplineProofs.v — structure theorems about Model/SplineStruct.v (FitSpline), for EVERY numeric oracle that
   satisfies three contracts:
     (a) tryfit keeps the end control points p0 and p3 (Go: adjust only moves p1 and p2);
     (b) on a path of more than two points maxerr returns an INNER index (Go: the loop runs i = 1 .. len-2);
     (c) tryfit never fails on a two-point path (Go: when the slide factor reaches 0 and len(path) == 2 it
         returns true).
   S1 fit_spline_terminates : with fuel >= length path the function returns Ok.
   S2 fit_spline_shape      : the result is non-empty, starts at the first and ends at the last path point, and
                              consecutive pieces join (p3 of a piece = p0 of the next).
   S3 fit_spline_chain / fit_spline_knots : the path is cut at path points into consecutive sub-paths sharing their
                              end points, and the i-th piece goes from the first to the last point of the i-th
                              sub-path; hence the knots form a subsequence of the path, at strictly increasing
                              indices. *)
From Autog Require Import Base SplineStruct.
Local Open Scope nat_scope.

(* ---------- small list facts ---------- *)
Lemma last_app_single {A} (l : list A) (x d : A) : last (l ++ [x]) d = x.
Proof. apply last_last. Qed.

Lemma last_cons_ne {A} (a : A) (l : list A) (d : A) : l <> [] -> last (a :: l) d = last l d.
Proof. destruct l; [congruence | reflexivity]. Qed.

Lemma last_indep {A} (l : list A) (d d' : A) : l <> [] -> last l d = last l d'.
Proof.
  induction l as [|x l IH]; [congruence|]. intros _. destruct l as [|y l]; [reflexivity|].
  change (last (y :: l) d = last (y :: l) d'). apply IH. discriminate.
Qed.

Lemma last_app_ne {A} (l1 l2 : list A) (d : A) : l2 <> [] -> last (l1 ++ l2) d = last l2 d.
Proof.
  intros H. induction l1 as [|x l1 IH]; [reflexivity|].
  cbn [app]. rewrite last_cons_ne; [exact IH|]. destruct l1; cbn; [exact H | discriminate].
Qed.

Lemma last_map {A B} (f : A -> B) (l : list A) (d : A) : last (map f l) (f d) = f (last l d).
Proof.
  induction l as [|x l IH]; [reflexivity|]. destruct l as [|y l]; [reflexivity|].
  change (last (map f (y :: l)) (f d) = f (last (y :: l) d)). exact IH.
Qed.

(* split a list at an inner index k: l = firstn k l ++ m :: skipn (S k) l *)
Lemma split_at {A} (l : list A) (k : nat) :
  k < length l -> exists m, firstn (k + 1) l = firstn k l ++ [m] /\ skipn k l = m :: skipn (S k) l
                            /\ l = firstn k l ++ m :: skipn (S k) l.
Proof.
  revert l. induction k as [|k IH]; intros l Hk.
  - destruct l as [|x l]; [cbn in Hk; lia|]. exists x. repeat split.
  - destruct l as [|x l]; [cbn in Hk; lia|]. cbn [length] in Hk.
    destruct (IH l ltac:(lia)) as [m [H1 [H2 H3]]]. exists m.
    replace (S k + 1) with (S (k + 1)) by lia.
    change (skipn (S (S k)) (x :: l)) with (skipn (S k) l).
    change (skipn (S k) (x :: l)) with (skipn k l).
    change (firstn (S (k + 1)) (x :: l)) with (x :: firstn (k + 1) l).
    change (firstn (S k) (x :: l)) with (x :: firstn k l). cbn [app].
    repeat split; [now rewrite H1 | exact H2 | now rewrite <- H3].
Qed.

(* ---------- the shape of the result ---------- *)
Section Shape.
  Variable P : Type.
  Notation piece := (piece P).

  (* consecutive pieces join end to end *)
  Fixpoint joined (ps : list piece) : Prop :=
    match ps with
    | b :: ((c :: _) as t) => p3 b = p0 c /\ joined t
    | _ => True
    end.

  (* the knots of a piecewise curve: the start of the first piece, then the end of every piece *)
  Definition knots (ps : list piece) : list P :=
    match ps with [] => [] | b :: _ => p0 b :: map p3 ps end.

  (* [chain path ps]: the path is cut into length ps consecutive sub-paths that share their end points,
       path = a0 :: mid0 ++ a1 :: mid1 ++ a2 :: ... ++ [an],
     and the i-th piece starts at a_i and ends at a_(i+1). *)
  Inductive chain : list P -> list piece -> Prop :=
  | chain_one : forall a mid b bz, p0 bz = a -> p3 bz = b -> chain (a :: mid ++ [b]) [bz]
  | chain_cons : forall a mid b rest bz ps,
      p0 bz = a -> p3 bz = b -> chain (b :: rest) ps -> chain (a :: mid ++ b :: rest) (bz :: ps).

  (* order-preserving embedding *)
  Inductive subseq : list P -> list P -> Prop :=
  | sub_nil : forall l, subseq [] l
  | sub_take : forall x s l, subseq s l -> subseq (x :: s) (x :: l)
  | sub_skip : forall x s l, subseq s l -> subseq s (x :: l).

  Lemma subseq_app_l (m s l : list P) : subseq s l -> subseq s (m ++ l).
  Proof. induction m as [|x m IH]; intros H; [exact H | cbn; apply sub_skip; auto]. Qed.

  Lemma chain_nonempty path ps : chain path ps -> ps <> [].
  Proof. intros H; inversion H; discriminate. Qed.

  Lemma chain_path_len path ps : chain path ps -> length ps < length path.
  Proof.
    induction 1 as [a mid b bz H0 H3 | a mid b rest bz ps H0 H3 Hc IH];
      cbn [length] in *; rewrite ?app_length in *; cbn [length] in *; lia.
  Qed.

  Lemma chain_first path ps d : chain path ps -> exists b t, ps = b :: t /\ hd d path = p0 b.
  Proof. intros H; inversion H; subst; eauto. Qed.

  Lemma chain_last path ps d dp : chain path ps -> p3 (last ps dp) = last path d.
  Proof.
    induction 1 as [a mid b bz H0 H3 | a mid b rest bz ps H0 H3 Hc IH].
    - change (last [bz] dp) with bz. rewrite H3. change (a :: mid ++ [b]) with ((a :: mid) ++ [b]). now rewrite last_app_single.
    - rewrite last_cons_ne by (eapply chain_nonempty; eauto). rewrite IH.
      change (a :: mid ++ b :: rest) with ((a :: mid) ++ b :: rest).
      rewrite last_app_ne by discriminate. reflexivity.
  Qed.

  Lemma chain_joined path ps : chain path ps -> joined ps.
  Proof.
    induction 1 as [a mid b bz H0 H3 | a mid b rest bz ps H0 H3 Hc IH]; [exact I|].
    destruct ps as [|c t]; [exact I|]. cbn [joined]. split; [|exact IH].
    inversion Hc; subst; congruence.
  Qed.

  Lemma chain_knots path ps : chain path ps -> subseq (knots ps) path.
  Proof.
    induction 1 as [a mid b bz H0 H3 | a mid b rest bz ps H0 H3 Hc IH].
    - cbn. rewrite H0, H3. apply sub_take. apply subseq_app_l. apply sub_take. apply sub_nil.
    - unfold knots. cbn [map]. rewrite H0. apply sub_take. apply subseq_app_l.
      destruct ps as [|c t]; [exfalso; eapply chain_nonempty; eauto|].
      unfold knots in IH. replace (p3 bz) with (p0 c); [exact IH|].
      inversion Hc; subst; congruence.
  Qed.

  (* gluing two chains at a shared point *)
  Lemma chain_app u m l ps qs :
    chain (u ++ [m]) ps -> chain (m :: l) qs -> chain (u ++ m :: l) (ps ++ qs).
  Proof.
    intros H1 H2. remember (u ++ [m]) as w eqn:Ew. revert u Ew.
    induction H1 as [a mid b bz H0 H3 | a mid b rest bz ps H0 H3 Hc IH]; intros u Ew.
    - destruct u as [|x u]; [destruct mid; discriminate|]. cbn [app] in Ew.
      injection Ew as -> Ew. apply app_inj_tail in Ew. destruct Ew as [-> ->].
      cbn [app]. apply chain_cons; assumption.
    - destruct u as [|x u]; [destruct mid; discriminate|]. cbn [app] in Ew.
      injection Ew as -> Ew.
      (* mid ++ b :: rest = u ++ [m]: rest is either empty (impossible: chain (b::rest) needs 2 points) or ends with m *)
      assert (Hr : exists u', b :: rest = u' ++ [m] /\ u = mid ++ u').
      { destruct (exists_last (l := b :: rest) ltac:(discriminate)) as [u' [z Hz]].
        exists u'. rewrite Hz in Ew. rewrite app_assoc in Ew. apply app_inj_tail in Ew.
        destruct Ew as [-> ->]. split; [exact Hz | reflexivity]. }
      destruct Hr as [u' [Hu' ->]]. specialize (IH u' Hu').
      destruct u' as [|y u'].
      + exfalso. cbn in Hu'. injection Hu' as -> ->. pose proof (chain_path_len _ _ Hc) as Hl.
        pose proof (chain_nonempty _ _ Hc). destruct ps; [congruence | cbn in Hl; lia].
      + cbn [app] in Hu'. injection Hu' as -> Hrest. cbn [app] in IH |- *.
        rewrite <- app_assoc. cbn [app]. apply chain_cons; assumption.
  Qed.

  (* ---------- the index form: the knots are path points at strictly increasing indices ---------- *)
  (* [knots_at path ks ps]: ks has one more entry than ps, is strictly increasing, and piece i goes from
     path[ks_i] to path[ks_(i+1)] *)
  Fixpoint knots_at (path : list P) (ks : list nat) (ps : list piece) : Prop :=
    match ks, ps with
    | [_], [] => True
    | i :: ((j :: _) as ks'), b :: ps' =>
        i < j /\ nth_error path i = Some (p0 b) /\ nth_error path j = Some (p3 b) /\ knots_at path ks' ps'
    | _, _ => False
    end.

  Lemma knots_at_shift x path ks ps : knots_at path ks ps -> knots_at (x :: path) (map S ks) ps.
  Proof.
    revert ps. induction ks as [|i ks IH]; intros ps H; [destruct ps; exact H|].
    destruct ks as [|j ks'].
    - destruct ps; [exact I | destruct H].
    - destruct ps as [|b ps']; [destruct H|]. destruct H as [Hij [Hi [Hj H]]].
      cbn [map knots_at]. repeat split; [lia | exact Hi | exact Hj |]. apply (IH ps' H).
  Qed.

  Lemma knots_at_shiftn m path ks ps : knots_at path ks ps -> knots_at (m ++ path) (map (Nat.add (length m)) ks) ps.
  Proof.
    induction m as [|x m IH]; intros H.
    - change (map (Nat.add (length (@nil P))) ks) with (map (fun m : nat => m) ks). rewrite map_id. exact H.
    - apply IH in H. apply (knots_at_shift x) in H. rewrite map_map in H. exact H.
  Qed.

  Lemma chain_indices path ps :
    chain path ps ->
    exists ks, knots_at path ks ps /\ hd 0 ks = 0 /\ last ks 0 = length path - 1.
  Proof.
    induction 1 as [a mid b bz H0 H3 | a mid b rest bz ps H0 H3 Hc IH].
    - exists [0; S (length mid)]. cbn [knots_at hd last]. repeat split.
      + lia.
      + cbn. now rewrite H0.
      + cbn [nth_error]. rewrite nth_error_app2 by lia. rewrite Nat.sub_diag. cbn. now rewrite H3.
      + cbn [length]. rewrite app_length. cbn. lia.
    - destruct IH as [ks [Hk [Hh Hl]]].
      exists (0 :: map (Nat.add (length (a :: mid))) ks).
      destruct ks as [|j ks']; [destruct ps; destruct Hk|]. cbn [hd] in Hh. subst j.
      split; [|split; [reflexivity|]].
      + cbn [map]. cbn [knots_at]. split; [cbn; lia|]. split; [cbn; now rewrite H0|]. split.
        * change (a :: mid ++ b :: rest) with ((a :: mid) ++ b :: rest).
          rewrite nth_error_app2 by lia. rewrite Nat.add_0_r, Nat.sub_diag. cbn. now rewrite H3.
        * apply (knots_at_shiftn (a :: mid)) in Hk. exact Hk.
      + rewrite last_cons_ne by discriminate.
        rewrite (last_indep _ 0 (length (a :: mid) + 0)) by discriminate.
        rewrite (last_map (Nat.add (length (a :: mid)))). rewrite Hl.
        cbn [length]. rewrite app_length. cbn [length]. lia.
  Qed.
End Shape.

Arguments joined {P} _.
Arguments knots {P} _.
Arguments chain {P} _ _.
Arguments subseq {P} _ _.
Arguments knots_at {P} _ _ _.
Arguments chain_nonempty {P} _ _ _.
Arguments chain_first {P} _ _ _ _.
Arguments chain_last {P} _ _ _ _ _.
Arguments chain_joined {P} _ _ _.
Arguments chain_knots {P} _ _ _.
Arguments chain_app {P} _ _ _ _ _ _ _.
Arguments chain_indices {P} _ _ _.
Arguments chain_path_len {P} _ _ _.

(* ---------- the theorems, for every oracle satisfying the contracts ---------- *)
Section Fit.
  Variable P : Type.
  Variable tryfit : piece P -> list P -> P -> P -> option (piece P).
  Variable maxerr : list P -> P -> P -> nat.
  Variable tangent : list P -> nat -> P.
  Variable ctrl0 : list P -> P -> P -> P * P.

  Definition tryfit_keeps_ends : Prop :=
    forall bz path t1 t2 bz', tryfit bz path t1 t2 = Some bz' -> p0 bz' = p0 bz /\ p3 bz' = p3 bz.
  Definition maxerr_inner : Prop :=
    forall path t1 t2, 2 < length path -> 1 <= maxerr path t1 t2 <= length path - 2.
  Definition tryfit_two_points : Prop :=
    forall bz path t1 t2, length path = 2 -> tryfit bz path t1 t2 <> None.

  Notation fit := (fit_spline tryfit maxerr tangent ctrl0).

  Lemma fit_unfold f a rest t1 t2 :
    fit (S f) (a :: rest) t1 t2 =
      let path := a :: rest in
      let v := ctrl0 path t1 t2 in
      let bz := mkPiece a (fst v) (snd v) (last path a) in
      match tryfit bz path t1 t2 with
      | Some bz' => Ok [bz']
      | None =>
          let k := maxerr path t1 t2 in
          if (k <? 1) || (length path <=? k + 1) then Err (ErrIndex 71) else
          let tw := tangent path k in
          do upper <- fit f (firstn (k + 1) path) t1 tw;
          do lower <- fit f (skipn k path) tw t2;
          Ok (upper ++ lower)
      end.
  Proof. reflexivity. Qed.

  (* S1: termination. Fuel [length path] is enough. *)
  Theorem fit_spline_terminates :
    maxerr_inner -> tryfit_two_points ->
    forall fuel path t1 t2, 2 <= length path <= fuel -> exists ps, fit fuel path t1 t2 = Ok ps.
  Proof.
    intros Hb Hc. induction fuel as [|f IH]; intros path t1 t2 [Hlo Hhi]; [lia|].
    destruct path as [|a rest]; [cbn in Hlo; lia|].
    rewrite fit_unfold. cbv zeta. set (path := a :: rest) in *.
    destruct (tryfit _ path t1 t2) as [bz'|] eqn:Et; [eauto|].
    assert (Hlen : 2 < length path).
    { destruct (Nat.eq_dec (length path) 2) as [E|E]; [|lia].
      exfalso. exact (Hc _ _ _ _ E Et). }
    pose proof (Hb path t1 t2 Hlen) as [Hk1 Hk2].
    set (k := maxerr path t1 t2) in *.
    replace (k <? 1) with false by (symmetry; apply Nat.ltb_ge; lia).
    replace (length path <=? k + 1) with false by (symmetry; apply Nat.leb_gt; lia).
    cbn [orb].
    destruct (IH (firstn (k + 1) path) t1 (tangent path k)) as [u Hu].
    { rewrite firstn_length. lia. }
    destruct (IH (skipn k path) (tangent path k) t2) as [l Hl].
    { rewrite skipn_length. lia. }
    rewrite Hu, Hl. cbn [bind]. eauto.
  Qed.

  (* S2 + S3 in one invariant: whenever the function returns, the pieces chain along the path *)
  Theorem fit_spline_chain :
    tryfit_keeps_ends ->
    forall fuel path t1 t2 ps, 2 <= length path -> fit fuel path t1 t2 = Ok ps -> chain path ps.
  Proof.
    intros Ha. induction fuel as [|f IH]; intros path t1 t2 ps Hlo H.
    - destruct path; discriminate H.
    - destruct path as [|a rest]; [discriminate H|].
      rewrite fit_unfold in H. cbv zeta in H. set (path := a :: rest) in *.
      destruct (tryfit _ path t1 t2) as [bz'|] eqn:Et.
      + injection H as <-. apply Ha in Et. cbn [p0 p3] in Et. destruct Et as [E0 E3].
        destruct (exists_last (l := rest)) as [mid [b Hr]]; [destruct rest; [cbn in Hlo; lia | discriminate]|].
        unfold path in *. rewrite Hr in *. apply chain_one; [exact E0|].
        rewrite E3. change (a :: mid ++ [b]) with ((a :: mid) ++ [b]). apply last_app_single.
      + set (k := maxerr path t1 t2) in *.
        destruct ((k <? 1) || (length path <=? k + 1)) eqn:Ek; [discriminate H|].
        apply orb_false_iff in Ek. destruct Ek as [Ek1 Ek2].
        apply Nat.ltb_ge in Ek1. apply Nat.leb_gt in Ek2.
        destruct (fit f (firstn (k + 1) path) t1 (tangent path k)) as [u|] eqn:Eu; [|discriminate H].
        destruct (fit f (skipn k path) (tangent path k) t2) as [l|] eqn:El; [|discriminate H].
        cbn [bind] in H. injection H as <-.
        apply IH in Eu; [|rewrite firstn_length; lia].
        apply IH in El; [|rewrite skipn_length; lia].
        destruct (split_at path k) as [m [H1 [H2 H3]]]; [lia|].
        rewrite H1 in Eu. rewrite H2 in El. rewrite H3. apply chain_app; assumption.
  Qed.

  (* S2: shape *)
  Theorem fit_spline_shape :
    tryfit_keeps_ends ->
    forall fuel path t1 t2 ps d dp, 2 <= length path -> fit fuel path t1 t2 = Ok ps ->
      ps <> [] /\ p0 (hd dp ps) = hd d path /\ p3 (last ps dp) = last path d /\ joined ps
      /\ length (ctrl_points ps) = 4 * length ps.
  Proof.
    intros Ha fuel path t1 t2 ps d dp Hlo H. pose proof (fit_spline_chain Ha _ _ _ _ _ Hlo H) as Hc.
    split; [eapply chain_nonempty; eauto|]. split.
    { destruct (chain_first _ _ d Hc) as [b [t [-> Hh]]]. cbn [hd]. now rewrite Hh. }
    split; [apply chain_last; exact Hc|]. split; [eapply chain_joined; eauto|].
    clear. induction ps as [|b ps IH]; [reflexivity|].
    unfold ctrl_points in *. cbn [flat_map]. rewrite app_length, IH. cbn [piece_pts length]. lia.
  Qed.

  (* S3: the knots are path points, in path order (as a subsequence, and at strictly increasing indices
     starting at 0 and ending at the last index) *)
  Theorem fit_spline_knots :
    tryfit_keeps_ends ->
    forall fuel path t1 t2 ps, 2 <= length path -> fit fuel path t1 t2 = Ok ps ->
      subseq (knots ps) path /\
      exists ks, knots_at path ks ps /\ hd 0 ks = 0 /\ last ks 0 = length path - 1.
  Proof.
    intros Ha fuel path t1 t2 ps Hlo H. pose proof (fit_spline_chain Ha _ _ _ _ _ Hlo H) as Hc.
    split; [apply chain_knots; exact Hc | apply chain_indices; exact Hc].
  Qed.

  (* at most one piece per path segment *)
  Theorem fit_spline_count :
    tryfit_keeps_ends ->
    forall fuel path t1 t2 ps, 2 <= length path -> fit fuel path t1 t2 = Ok ps ->
      1 <= length ps <= length path - 1.
  Proof.
    intros Ha fuel path t1 t2 ps Hlo H. pose proof (fit_spline_chain Ha _ _ _ _ _ Hlo H) as Hc.
    pose proof (chain_path_len path ps Hc). pose proof (chain_nonempty path ps Hc).
    destruct ps; [congruence | cbn [length] in *; lia].
  Qed.

  (* all three together, with the canonical fuel *)
  Theorem fit_spline_total :
    tryfit_keeps_ends -> maxerr_inner -> tryfit_two_points ->
    forall path t1 t2, 2 <= length path ->
    exists ps, fit (length path) path t1 t2 = Ok ps /\ chain path ps.
  Proof.
    intros Ha Hb Hc path t1 t2 Hlo.
    destruct (fit_spline_terminates Hb Hc (length path) path t1 t2) as [ps Hps]; [lia|].
    exists ps. split; [exact Hps | eapply fit_spline_chain; eauto].
  Qed.
End Fit.

Arguments tryfit_keeps_ends {P} _.
Arguments maxerr_inner {P} _.
Arguments tryfit_two_points {P} _.

Print Assumptions fit_spline_terminates.
Print Assumptions fit_spline_chain.
Print Assumptions fit_spline_shape.
Print Assumptions fit_spline_knots.
Print Assumptions fit_spline_count.
Print Assumptions fit_spline_total.

(* ---------- an instance of the oracle: P = nat, tryfit succeeds only on two-point paths, maxerr = 1 ---------- *)
Module SplineExample.
  Definition tryfit (bz : piece nat) (path : list nat) (t1 t2 : nat) : option (piece nat) :=
    if length path =? 2 then Some (mkPiece (p0 bz) (p1 bz + t1) (p2 bz + t2) (p3 bz)) else None.
  Definition maxerr (path : list nat) (t1 t2 : nat) : nat := 1.
  (* a less lopsided oracle: split in the middle *)
  Definition maxerr_mid (path : list nat) (t1 t2 : nat) : nat := length path / 2.
  Definition tangent (path : list nat) (k : nat) : nat := 100 * nth k path 0.
  Definition ctrl0 (path : list nat) (t1 t2 : nat) : nat * nat := (0, 0).

  Example ex_run :
    fit_spline tryfit maxerr tangent ctrl0 5 [10; 11; 12; 13; 14] 1 2 =
      Ok [mkPiece 10 1 1100 11; mkPiece 11 1100 1200 12; mkPiece 12 1200 1300 13; mkPiece 13 1300 2 14].
  Proof. vm_compute. reflexivity. Qed.

  Example ex_run_mid :
    fit_spline tryfit maxerr_mid tangent ctrl0 5 [10; 11; 12; 13; 14] 1 2 =
      Ok [mkPiece 10 1 1100 11; mkPiece 11 1100 1200 12; mkPiece 12 1200 1300 13; mkPiece 13 1300 2 14].
  Proof. vm_compute. reflexivity. Qed.

  (* the error sites are reachable: empty path, and an oracle that answers an end index *)
  Example ex_empty : fit_spline tryfit maxerr tangent ctrl0 5 [] 1 2 = Err (ErrIndex 71).
  Proof. reflexivity. Qed.
  Example ex_bad_k : fit_spline tryfit (fun _ _ _ => 0) tangent ctrl0 5 [10; 11; 12] 1 2 = Err (ErrIndex 71).
  Proof. reflexivity. Qed.
  Example ex_fuel : fit_spline tryfit maxerr tangent ctrl0 3 [10; 11; 12; 13; 14] 1 2 = Err (ErrFuel 71).
  Proof. reflexivity. Qed.

  (* the contracts hold for this oracle *)
  Lemma ex_keeps : tryfit_keeps_ends tryfit.
  Proof.
    intros bz path t1 t2 bz' H. unfold tryfit in H.
    destruct (length path =? 2); [|discriminate]. injection H as <-. split; reflexivity.
  Qed.
  Lemma ex_inner : maxerr_inner maxerr.
  Proof. intros path t1 t2 H. unfold maxerr. lia. Qed.
  Lemma ex_inner_mid : maxerr_inner maxerr_mid.
  Proof.
    intros path t1 t2 H. unfold maxerr_mid.
    pose proof (Nat.div_mod (length path) 2 ltac:(lia)) as Hd.
    pose proof (Nat.mod_upper_bound (length path) 2 ltac:(lia)). lia.
  Qed.
  Lemma ex_two : tryfit_two_points tryfit.
  Proof. intros bz path t1 t2 H. unfold tryfit. rewrite H. discriminate. Qed.

  Example ex_total : forall path t1 t2, 2 <= length path ->
    exists ps, fit_spline tryfit maxerr tangent ctrl0 (length path) path t1 t2 = Ok ps /\ chain path ps.
  Proof. apply (fit_spline_total nat tryfit maxerr tangent ctrl0 ex_keeps ex_inner ex_two). Qed.

  Example ex_knots :
    knots [mkPiece 10 1 1100 11; mkPiece 11 1100 1200 12; mkPiece 12 1200 1300 13; mkPiece 13 1300 2 14]
      = [10; 11; 12; 13; 14].
  Proof. reflexivity. Qed.
End SplineExample.
