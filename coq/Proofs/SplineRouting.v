(* SplineRouting.v — C05 / C06 for SPLINE routing (Model/Splines.v), part 1: one route, then all routes.

   The numeric routines are arbitrary functions (Section variables of Model/Splines.v); what is assumed of them:
     [shortest_ok shortest] : the path geom.Shortest returns is non-empty and runs FROM THE END POINT TO THE START POINT;
     [fit_ok fit]           : the pieces geom.FitSpline returns for a non-empty path are non-empty, start at the first and end
                              at the last path point, and join end to end.
   [fit_spline_fit_ok]: the recursive structure of FitSpline (Model/SplineStruct.v) satisfies [fit_ok] for every oracle
   that keeps the end control points (SplineProofs.tryfit_keeps_ends).

   R1  [spline_route_shape]  : one route: 4k control points (k >= 1), consecutive pieces join, first point = bottom
                               centre of e_from, last point = top centre of e_to;
   R2  [exec_splines_spec]   : all routes: the frame (nodes, layers, lists, every other edge field, every non-routed edge
                               unchanged) and R1 for every routed edge w.r.t. the geometry of the input graph;
   R3  [phase5_splines_spec] : the same for phase 5 with the spline router, w.r.t. the merged graph. *)
From Autog Require Import Base Graph Phase4 Phase5 Geom SplineStruct Splines.
From Autog.Proofs Require Import ListLemmas BreakMerge E2EBridge SplineProofs.
From Autog.Proofs Require Routes.
From Coq Require Import Lia.
Local Open Scope nat_scope.

(* ====================================================================================================== *)
(** * 0. The contracts                                                                                     *)
(* ====================================================================================================== *)

(* geom.Shortest(start, end, rects): a non-empty path from the END point to the START point *)
Definition shortest_ok (shortest : pt -> pt -> list rect -> list pt) : Prop :=
  forall s e rs, let p := shortest s e rs in p <> [] /\ hd s p = e /\ last p e = s.

(* the same with the two ends only componentwise == (Model/Geom.v [shortest] appends the start point unless the last
   path point is [pt_eqb] to it, so its last point is the start point up to == only) *)
Definition shortest_ok_q (shortest : pt -> pt -> list rect -> list pt) : Prop :=
  forall s e rs, let p := shortest s e rs in p <> [] /\ Routes.pt_eq (hd s p) e /\ Routes.pt_eq (last p e) s.

Lemma pt_eq_refl : forall p, Routes.pt_eq p p.
Proof. intros p. split; apply Qeq_refl. Qed.

Lemma shortest_ok_q_of : forall shortest, shortest_ok shortest -> shortest_ok_q shortest.
Proof.
  intros shortest SO s e rs. destruct (SO s e rs) as (A & B & C). cbv zeta.
  split; [exact A|]. rewrite B, C. split; apply pt_eq_refl.
Qed.

(* geom.FitSpline(path, ...): non-empty, from the first to the last path point, pieces joined *)
Definition fit_ok (fit : list pt -> list rect -> res (list (piece pt))) : Prop :=
  forall path rs ps, fit path rs = Ok ps -> path <> [] ->
    forall d dp, ps <> [] /\ p0 (hd dp ps) = hd d path /\ p3 (last ps dp) = last path d /\ joined ps.

(* [chain path ps] (SplineProofs.v) implies the conclusion of [fit_ok] *)
Lemma chain_fit_shape : forall (P : Type) (path : list P) (ps : list (piece P)) d dp,
  chain path ps -> ps <> [] /\ p0 (hd dp ps) = hd d path /\ p3 (last ps dp) = last path d /\ joined ps.
Proof.
  intros P path ps d dp Hc.
  split; [eapply chain_nonempty; eauto|]. split.
  { destruct (chain_first _ _ d Hc) as [b [t [-> Hh]]]. cbn [hd]. now rewrite Hh. }
  split; [apply chain_last; exact Hc|eapply chain_joined; eauto].
Qed.

(* the structure of FitSpline satisfies the contract, whatever the barriers, for every oracle that keeps the ends *)
Theorem fit_spline_fit_ok :
  forall (tryfit : piece pt -> list pt -> pt -> pt -> option (piece pt)) (maxerr : list pt -> pt -> pt -> nat)
         (tangent : list pt -> nat -> pt) (ctrl0 : list pt -> pt -> pt -> pt * pt) (fuel : nat) (t0 : pt),
  tryfit_keeps_ends tryfit ->
  fit_ok (fun path _ => fit_spline tryfit maxerr tangent ctrl0 fuel path t0 t0).
Proof.
  intros tryfit maxerr tangent ctrl0 fuel t0 Ha path rs ps H NE d dp. cbv beta in H.
  destruct path as [|a rest]; [congruence|]. clear NE.
  destruct rest as [|b rest].
  - (* a one-point path: either tryfit succeeds at once, or the function panics *)
    destruct fuel as [|f]; [discriminate H|].
    rewrite fit_unfold in H. cbv zeta in H.
    destruct (tryfit _ [a] t0 t0) as [bz'|] eqn:Et.
    + injection H as <-. apply Ha in Et. cbn [p0 p3 last] in Et. destruct Et as [E0 E3].
      cbn [hd last joined]. split; [discriminate|]. auto.
    + cbn [length] in H. replace (1 <=? maxerr [a] t0 t0 + 1) with true in H by (symmetry; apply Nat.leb_le; lia).
      rewrite Bool.orb_true_r in H. discriminate H.
  - apply chain_fit_shape. eapply (fit_spline_chain pt tryfit maxerr tangent ctrl0 Ha fuel); [|exact H].
    cbn [length]. lia.
Qed.
Print Assumptions fit_spline_fit_ok.

(* ====================================================================================================== *)
(** * 1. The shape of a control-point list                                                                 *)
(* ====================================================================================================== *)

(* [spline_shape s e pts]: 4k control points, k >= 1; the cubic pieces (points 4i .. 4i+3) join end to end; the curve
   starts at [s] and ends at [e] (the default of [nth] / [hd] / [last] is irrelevant) *)
Definition spline_shape (s e : pt) (pts : list pt) : Prop :=
  exists k, 1 <= k /\ length pts = 4 * k /\
    (forall d i, i + 1 < k -> nth (4 * i + 3) pts d = nth (4 * (i + 1)) pts d) /\
    (forall d, hd d pts = s) /\ (forall d, last pts d = e).

(* the pieces in drawing order: each contributes p3, p2, p1, p0 *)
Definition rpiece (c : piece pt) : list pt := [p3 c; p2 c; p1 c; p0 c].

Lemma flat_rpiece_length : forall qs, length (flat_map rpiece qs) = 4 * length qs.
Proof.
  induction qs as [|c qs IH]; [reflexivity|]. cbn [flat_map]. rewrite app_length, IH. cbn [rpiece length]. lia.
Qed.

Lemma flat_rpiece_nth : forall qs i j d dq, i < length qs -> j < 4 ->
  nth (4 * i + j) (flat_map rpiece qs) d = nth j (rpiece (nth i qs dq)) d.
Proof.
  induction qs as [|c qs IH]; intros i j d dq Hi Hj; [cbn in Hi; lia|].
  cbn [flat_map]. destruct i as [|i].
  - replace (4 * 0 + j) with j by lia. cbn [nth]. rewrite app_nth1 by (cbn [rpiece length]; lia). reflexivity.
  - cbn [length] in Hi. rewrite app_nth2 by (cbn [rpiece length]; lia).
    replace (4 * S i + j - length (rpiece c)) with (4 * i + j) by (cbn [rpiece length]; lia).
    change (nth (S i) (c :: qs) dq) with (nth i qs dq). apply IH; lia.
Qed.

(* [joined] by indices *)
Lemma joined_nth : forall (ps : list (piece pt)) dq i, joined ps -> i + 1 < length ps ->
  p3 (nth i ps dq) = p0 (nth (i + 1) ps dq).
Proof.
  induction ps as [|b ps IH]; intros dq i J Hi; [cbn in Hi; lia|].
  destruct ps as [|c t]; [cbn in Hi; lia|]. cbn [joined] in J. destruct J as [J1 J2].
  destruct i as [|i]; [exact J1|].
  change (nth (S i) (b :: c :: t) dq) with (nth i (c :: t) dq).
  change (nth (S i + 1) (b :: c :: t) dq) with (nth (i + 1) (c :: t) dq).
  apply IH; [exact J2|cbn [length] in *; lia].
Qed.

Lemma hd_rev_last : forall (A : Type) (l : list A) d, hd d (rev l) = last l d.
Proof.
  intros A l d. induction l as [|x l IH] using rev_ind; [reflexivity|].
  rewrite rev_app_distr, last_last. reflexivity.
Qed.

Lemma last_rev_hd : forall (A : Type) (l : list A) d, last (rev l) d = hd d l.
Proof. intros A [|x l] d; [reflexivity|]. cbn [rev hd]. apply last_last. Qed.

Section Route.
  Variable shortest : pt -> pt -> list rect -> list pt.
  Variable fit : list pt -> list rect -> res (list (piece pt)).
  Variable mk_inner : pt -> pt -> pt * pt.

  Lemma assemble_eq : forall ctrls, assemble ctrls = flat_map rpiece (rev ctrls).
  Proof. reflexivity. Qed.

  (* MakeSpline: one piece from a to b *)
  Lemma make_spline_shape : forall a b, spline_shape a b (make_spline mk_inner a b).
  Proof.
    intros a b. exists 1. unfold make_spline.
    destruct (Qeq_bool (fst a) (fst b)); (split; [lia|]); (split; [reflexivity|]);
      (split; [intros d i Hi; lia|]); split; intros d; reflexivity.
  Qed.

  (* the assembly of fitted pieces that run from b back to a *)
  Lemma assemble_shape : forall (ps : list (piece pt)) a b dq,
    ps <> [] -> p0 (hd dq ps) = b -> p3 (last ps dq) = a -> joined ps ->
    spline_shape a b (assemble ps).
  Proof.
    intros ps a b dq NE H0 H3 J. rewrite assemble_eq. exists (length ps).
    assert (Lp : 1 <= length ps) by (destruct ps; [congruence|cbn [length]; lia]).
    split; [exact Lp|]. split; [rewrite flat_rpiece_length, rev_length; reflexivity|].
    split; [|split].
    - intros d i Hi.
      rewrite (flat_rpiece_nth (rev ps) i 3 d dq) by (rewrite ?rev_length; lia).
      replace (4 * (i + 1)) with (4 * (i + 1) + 0) by lia.
      rewrite (flat_rpiece_nth (rev ps) (i + 1) 0 d dq) by (rewrite ?rev_length; lia).
      cbn [rpiece nth].
      rewrite !rev_nth by lia.
      replace (length ps - S i) with ((length ps - S (i + 1)) + 1) by lia.
      symmetry. apply joined_nth; [exact J|lia].
    - intros d. destruct (rev ps) as [|c t] eqn:Er.
      + exfalso. apply NE. apply (f_equal (@length _)) in Er. rewrite rev_length in Er. destruct ps; [reflexivity|discriminate].
      + cbn [flat_map rpiece app hd]. rewrite <- H3. f_equal.
        rewrite <- (hd_rev_last _ ps dq), Er. reflexivity.
    - intros d. destruct ps as [|c t]; [congruence|]. cbn [rev hd] in *.
      rewrite flat_map_app. cbn [flat_map rpiece app].
      rewrite last_app_ne by discriminate. cbn [last]. exact H0.
  Qed.

  (* ---------- R1: one route ---------- *)
  Theorem spline_route_shape : shortest_ok shortest -> fit_ok fit -> forall g e ns pts,
    spline_route shortest fit mk_inner g e ns = Ok pts ->
    spline_shape (start_point g (e_from (gedge g e))) (end_point g (e_to (gedge g e))) pts.
  Proof.
    intros SO FO g e ns pts H. unfold spline_route in H.
    destruct (build_rects g ns) as [rects|] eqn:Er; cbn [bind] in H; [|discriminate].
    cbv zeta in H.
    set (s := start_point g (e_from (gedge g e))) in *. set (t := end_point g (e_to (gedge g e))) in *.
    destruct (Nat.eqb (length (shortest s t rects)) 2).
    - injection H as <-. apply make_spline_shape.
    - destruct (fit (shortest s t rects) rects) as [ctrls|] eqn:Ef; cbn [bind] in H; [|discriminate].
      injection H as <-.
      destruct (SO s t rects) as (PN & PH & PL).
      destruct (FO _ _ _ Ef PN s (mkPiece s s s s)) as (CN & C0 & C3 & CJ).
      apply (assemble_shape ctrls s t (mkPiece s s s s)); [exact CN| | |exact CJ].
      + rewrite C0. exact PH.
      + rewrite C3. rewrite (last_indep _ s t PN). exact PL.
  Qed.

  (* R1 for a router that returns its ends up to == : the route starts and ends at points == to the two centres *)
  Theorem spline_route_shape_q : shortest_ok_q shortest -> fit_ok fit -> forall g e ns pts,
    spline_route shortest fit mk_inner g e ns = Ok pts ->
    exists s' e', Routes.pt_eq s' (start_point g (e_from (gedge g e))) /\
                  Routes.pt_eq e' (end_point g (e_to (gedge g e))) /\ spline_shape s' e' pts.
  Proof.
    intros SO FO g e ns pts H. unfold spline_route in H.
    destruct (build_rects g ns) as [rects|] eqn:Er; cbn [bind] in H; [|discriminate].
    cbv zeta in H.
    set (s := start_point g (e_from (gedge g e))) in *. set (t := end_point g (e_to (gedge g e))) in *.
    destruct (Nat.eqb (length (shortest s t rects)) 2).
    - injection H as <-. exists s, t. split; [apply pt_eq_refl|]. split; [apply pt_eq_refl|]. apply make_spline_shape.
    - destruct (fit (shortest s t rects) rects) as [ctrls|] eqn:Ef; cbn [bind] in H; [|discriminate].
      injection H as <-.
      destruct (SO s t rects) as (PN & PH & PL).
      destruct (FO _ _ _ Ef PN s (mkPiece s s s s)) as (CN & C0 & C3 & CJ).
      exists (last (shortest s t rects) t), (hd s (shortest s t rects)). split; [exact PL|]. split; [exact PH|].
      apply (assemble_shape ctrls _ _ (mkPiece s s s s)); [exact CN|exact C0| |exact CJ].
      rewrite C3. apply last_indep. exact PN.
  Qed.

  (* the statement in the words of the task *)
  Corollary spline_route_points : shortest_ok shortest -> fit_ok fit -> forall g e ns pts,
    spline_route shortest fit mk_inner g e ns = Ok pts ->
    (exists k, 1 <= k /\ length pts = 4 * k /\
       forall d i, i + 1 < k -> nth (4 * i + 3) pts d = nth (4 * (i + 1)) pts d) /\
    (forall d, hd d pts = start_point g (e_from (gedge g e))) /\
    (forall d, last pts d = end_point g (e_to (gedge g e))).
  Proof.
    intros SO FO g e ns pts H. destruct (spline_route_shape SO FO g e ns pts H) as (k & K1 & K2 & K3 & K4 & K5).
    split; [exists k; auto|]. split; assumption.
  Qed.

  (* ---------- the route reads only the node arena, the layer list and the ends of its edge ---------- *)
  Definition rects_here (g : graph) (top btm : nat) : res (list rect) :=
    let tv := n_virt (gnode g top) in let bv := n_virt (gnode g btm) in
    if negb tv && negb bv then
      Ok [mkRect (Qmin' (nX g top) (nX g btm), nY g top + nH g top)%Q
                 (Qmax' (nX g top + nW g top) (nX g btm + nW g btm), nY g btm)%Q]
    else if bv then
      do tl <- layer_nodes_at 90 g (n_layer (gnode g top));
      do bl <- layer_nodes_at 90 g (n_layer (gnode g btm));
      do r1 <- rect_between_layers g tl bl;
      do r2 <- rect_virtual_node g btm bl;
      Ok [r1; r2]
    else
      do tl <- layer_nodes_at 90 g (n_layer (gnode g top));
      do bl <- layer_nodes_at 90 g (n_layer (gnode g btm));
      do r1 <- rect_between_layers g tl bl;
      Ok [r1].

  Lemma build_rects_cons2 : forall g top btm t,
    build_rects g (top :: btm :: t) =
      (do here <- rects_here g top btm; do more <- build_rects g (btm :: t); Ok (here ++ more)).
  Proof. reflexivity. Qed.

  Lemma rects_here_ext : forall g g' top btm,
    g_na g' = g_na g -> g_L g' = g_L g -> rects_here g' top btm = rects_here g top btm.
  Proof.
    intros [na ea N E L] [na' ea' N' E' L'] top btm H HL. cbn [g_na g_L] in H, HL. subst na' L'.
    unfold rects_here, layer_nodes_at, rect_between_layers, rect_virtual_node, rect_between_nodes, nX, nY, nW, nH, gnode.
    cbn [g_na g_L]. reflexivity.
  Qed.

  Lemma build_rects_ext : forall g g' ns,
    g_na g' = g_na g -> g_L g' = g_L g -> build_rects g' ns = build_rects g ns.
  Proof.
    intros g g' ns H HL. induction ns as [|top rest IH]; [reflexivity|].
    destruct rest as [|btm t]; [reflexivity|].
    rewrite !build_rects_cons2, (rects_here_ext g g' top btm H HL).
    destruct (rects_here g top btm) as [here|]; cbn [bind]; [|reflexivity].
    rewrite IH. reflexivity.
  Qed.

  Lemma spline_route_ext : forall g g' e ns,
    g_na g' = g_na g -> g_L g' = g_L g -> gedge g' e = gedge g e ->
    spline_route shortest fit mk_inner g' e ns = spline_route shortest fit mk_inner g e ns.
  Proof.
    intros g g' e ns H HL H0. unfold spline_route. rewrite (build_rects_ext g g' ns H HL), H0.
    unfold start_point, end_point, nX, nY, nW, nH, gnode. rewrite H. reflexivity.
  Qed.

  (* ---------- R2: all routes ---------- *)
  Lemma exec_splines_fold : forall g routes,
    exec_splines shortest fit mk_inner g routes =
      fold_left (rstep (fun g r => spline_route shortest fit mk_inner g (fst r) (snd r))) routes (Ok g).
  Proof. reflexivity. Qed.

  (* the frame and the points of the routed edges, whatever the oracles *)
  Lemma exec_splines_run : forall g routes g',
    NoDup (map fst routes) -> (forall r, In r routes -> fst r < length (g_ea g)) ->
    exec_splines shortest fit mk_inner g routes = Ok g' ->
    g_na g' = g_na g /\ g_N g' = g_N g /\ g_E g' = g_E g /\ g_L g' = g_L g /\ length (g_ea g') = length (g_ea g) /\
    (forall x, ~ In x (map fst routes) -> gedge g' x = gedge g x) /\
    (forall r, In r routes ->
       exists pts, spline_route shortest fit mk_inner g (fst r) (snd r) = Ok pts /\
                   gedge g' (fst r) = set_pts pts (gedge g (fst r))).
  Proof.
    intros g routes g' ND LT H. rewrite exec_splines_fold in H.
    destruct (route_fold_res (fun g r => spline_route shortest fit mk_inner g (fst r) (snd r)) routes g g')
      as (A1 & A2 & A3 & A4 & A5 & A6 & A7); [|exact ND|exact H|].
    { intros g1 r _ E1 E2 E3. apply spline_route_ext; assumption. }
    repeat (split; [assumption|]).
    intros r Hr. destruct (A7 r Hr (LT r Hr)) as (p & P1 & P2). exists p. split; assumption.
  Qed.

  Lemma phase5_splines_run : forall g4 g5 gm routes,
    Nat.eqb (length (g_N g4)) 1 = false -> phase5_splines shortest fit mk_inner g4 = Ok g5 ->
    merge_long_edges g4 = Ok (gm, routes) -> NoDup (map fst routes) ->
    (forall r, In r routes -> fst r < length (g_ea gm)) ->
    g_na g5 = g_na gm /\ g_N g5 = g_N gm /\ g_E g5 = g_E gm /\ g_L g5 = g_L gm /\
    length (g_ea g5) = length (g_ea gm) /\
    (forall x, ~ In x (map fst routes) -> gedge g5 x = gedge gm x) /\
    (forall r, In r routes ->
       exists pts, spline_route shortest fit mk_inner gm (fst r) (snd r) = Ok pts /\
                   gedge g5 (fst r) = set_pts pts (gedge gm (fst r))).
  Proof.
    intros g4 g5 gm routes N1 P5 M ND LT. unfold phase5_splines in P5. rewrite N1, M in P5. cbn [bind] in P5.
    exact (exec_splines_run gm routes g5 ND LT P5).
  Qed.

  (* [exec_splines] only writes [e_pts] of the routed edges; the points of every routed edge have the spline shape
     w.r.t. the geometry of the input graph *)
  Theorem exec_splines_spec : shortest_ok shortest -> fit_ok fit -> forall g routes g',
    NoDup (map fst routes) -> (forall r, In r routes -> fst r < length (g_ea g)) ->
    exec_splines shortest fit mk_inner g routes = Ok g' ->
    (* the frame *)
    g_na g' = g_na g /\ g_N g' = g_N g /\ g_E g' = g_E g /\ g_L g' = g_L g /\ length (g_ea g') = length (g_ea g) /\
    (forall x, ~ In x (map fst routes) -> gedge g' x = gedge g x) /\
    (* the routed edges *)
    (forall r, In r routes ->
       exists pts, spline_route shortest fit mk_inner g (fst r) (snd r) = Ok pts /\
                   gedge g' (fst r) = set_pts pts (gedge g (fst r)) /\
                   spline_shape (start_point g (e_from (gedge g (fst r)))) (end_point g (e_to (gedge g (fst r)))) pts).
  Proof.
    intros SO FO g routes g' ND LT H.
    destruct (exec_splines_run g routes g' ND LT H) as (A1 & A2 & A3 & A4 & A5 & A6 & A7).
    repeat (split; [assumption|]).
    intros r Hr. destruct (A7 r Hr) as (p & P1 & P2).
    exists p. split; [exact P1|]. split; [exact P2|]. apply (spline_route_shape SO FO g (fst r) (snd r) p P1).
  Qed.

  (* every other field of a routed edge is unchanged, and the nodes are those of the input graph *)
  Corollary exec_splines_frame : shortest_ok shortest -> fit_ok fit -> forall g routes g',
    NoDup (map fst routes) -> (forall r, In r routes -> fst r < length (g_ea g)) ->
    exec_splines shortest fit mk_inner g routes = Ok g' ->
    (forall n, gnode g' n = gnode g n) /\ (forall k, glayer g' k = glayer g k) /\
    (forall e, set_pts [] (gedge g' e) = set_pts [] (gedge g e)).
  Proof.
    intros SO FO g routes g' ND LT H.
    destruct (exec_splines_spec SO FO g routes g' ND LT H) as (A1 & _ & _ & A4 & _ & A6 & A7).
    split; [intros n; apply gnode_same_na; exact A1|]. split; [intros k; unfold glayer; rewrite A4; reflexivity|].
    intros e. destruct (in_dec Nat.eq_dec e (map fst routes)) as [Hi|Hn]; [|rewrite (A6 e Hn); reflexivity].
    apply in_map_iff in Hi. destruct Hi as (r & <- & Hr). destruct (A7 r Hr) as (p & _ & -> & _).
    destruct (gedge g (fst r)); reflexivity.
  Qed.

  (* ---------- R3: phase 5 with the spline router ---------- *)
  Theorem phase5_splines_spec : shortest_ok shortest -> fit_ok fit -> forall g4 g5 gm routes,
    Nat.eqb (length (g_N g4)) 1 = false -> phase5_splines shortest fit mk_inner g4 = Ok g5 ->
    merge_long_edges g4 = Ok (gm, routes) -> NoDup (map fst routes) ->
    (forall r, In r routes -> fst r < length (g_ea gm)) ->
    g_na g5 = g_na gm /\ g_N g5 = g_N gm /\ g_E g5 = g_E gm /\ g_L g5 = g_L gm /\
    length (g_ea g5) = length (g_ea gm) /\
    (forall x, ~ In x (map fst routes) -> gedge g5 x = gedge gm x) /\
    (forall r, In r routes ->
       exists pts, gedge g5 (fst r) = set_pts pts (gedge gm (fst r)) /\
                   spline_shape (start_point gm (e_from (gedge gm (fst r)))) (end_point gm (e_to (gedge gm (fst r)))) pts).
  Proof.
    intros SO FO g4 g5 gm routes N1 P5 M ND LT. unfold phase5_splines in P5. rewrite N1, M in P5. cbn [bind] in P5.
    destruct (exec_splines_spec SO FO gm routes g5 ND LT P5) as (A1 & A2 & A3 & A4 & A5 & A6 & A7).
    repeat (split; [assumption|]).
    intros r Hr. destruct (A7 r Hr) as (p & _ & P2 & P3). exists p. split; assumption.
  Qed.

  (* a single-node component is not routed *)
  Lemma phase5_splines_single : forall g, length (g_N g) = 1 -> phase5_splines shortest fit mk_inner g = Ok g.
  Proof. intros g H. unfold phase5_splines. rewrite H. reflexivity. Qed.
End Route.

Print Assumptions spline_route_shape.
Print Assumptions spline_route_shape_q.
Print Assumptions exec_splines_spec.
Print Assumptions phase5_splines_spec.

(* ====================================================================================================== *)
(** * 2. Examples: concrete oracles on the graph of Routes.v (a long edge 0 -> 1 -> 2 and a short edge 0 -> 3)  *)
(* ====================================================================================================== *)
Module SplineRoutingExample.
  Import Routes.
  Local Open Scope Q_scope.

  (* (a) the straight path: MakeSpline is used *)
  Definition sh2 (s e : pt) (_ : list rect) : list pt := [e; s].
  Definition inner (a b : pt) : pt * pt := ((fst a, (2 * snd a + snd b) / 3), (fst b, (snd a + 2 * snd b) / 3)).
  Definition no_fit (_ : list pt) (_ : list rect) : res (list (piece pt)) := Err (ErrIndex 71).

  (* (b) a three-point path through the mid point; the fitter is the structure of FitSpline with an oracle that accepts
     only two-point paths and cuts at index 1: one piece per segment *)
  Definition sh3 (s e : pt) (_ : list rect) : list pt := [e; ((fst s + fst e) / 2, (snd s + snd e) / 2); s].
  Definition tryfit2 (bz : piece pt) (path : list pt) (t1 t2 : pt) : option (piece pt) :=
    if Nat.eqb (length path) 2 then Some (mkPiece (p0 bz) (p0 bz) (p3 bz) (p3 bz)) else None.
  Definition fit3 (path : list pt) (_ : list rect) : res (list (piece pt)) :=
    fit_spline tryfit2 (fun _ _ _ => 1%nat) (fun _ _ => (0, 0)) (fun _ _ _ => ((0, 0), (0, 0))) (length path) path (0, 0) (0, 0).

  Lemma sh2_ok : shortest_ok sh2.
  Proof. intros s e rs. cbv zeta. unfold sh2. split; [discriminate|]. split; reflexivity. Qed.
  Lemma sh3_ok : shortest_ok sh3.
  Proof. intros s e rs. cbv zeta. unfold sh3. split; [discriminate|]. split; reflexivity. Qed.
  Lemma no_fit_ok : fit_ok no_fit.
  Proof. intros path rs ps H. discriminate H. Qed.
  Lemma tryfit2_keeps : tryfit_keeps_ends tryfit2.
  Proof.
    intros bz path t1 t2 bz' H. unfold tryfit2 in H. destruct (Nat.eqb (length path) 2); [|discriminate].
    injection H as <-. split; reflexivity.
  Qed.
  Lemma fit3_ok : fit_ok fit3.
  Proof.
    intros path rs ps H.
    exact (fit_spline_fit_ok tryfit2 _ _ _ (length path) (0, 0) tryfit2_keeps path rs ps H).
  Qed.

  Definition pts_of (r : res graph) (e : nat) : list pt :=
    match r with Ok g => qr (e_pts (gedge g e)) | Err _ => [] end.

  (* one route, the make_spline case: 4 points from the bottom centre (15, 4) of node 0 to the top centre (10, 26) of node 2 *)
  Example ex_route2 :
    match spline_route sh2 no_fit inner r_m 0 r_route with Ok l => qr l | Err _ => [] end =
      [(15, 4); (15, 34 # 3); (10, 56 # 3); (10, 26)].
  Proof. vm_compute. reflexivity. Qed.

  (* one route, a three-point path: two pieces, 8 points, the pieces join at the mid point (25/2, 15) *)
  Example ex_route3 :
    match spline_route sh3 fit3 inner r_m 0 r_route with Ok l => qr l | Err _ => [] end =
      [(15, 4); (15, 4); (25 # 2, 15); (25 # 2, 15); (25 # 2, 15); (25 # 2, 15); (10, 26); (10, 26)].
  Proof. vm_compute. reflexivity. Qed.

  (* the whole of phase 5 *)
  Example ex_phase5_2 :
    pts_of (phase5_splines sh2 no_fit inner r_g) 0 = [(15, 4); (15, 34 # 3); (10, 56 # 3); (10, 26)] /\
    pts_of (phase5_splines sh2 no_fit inner r_g) 1 = [(15, 4); (15, 19 # 3); (16, 26 # 3); (16, 11)] /\
    pts_of (phase5_splines sh2 no_fit inner r_g) 2 = [].
  Proof. vm_compute. repeat split; reflexivity. Qed.

  Example ex_phase5_3 :
    map (fun e => length (pts_of (phase5_splines sh3 fit3 inner r_g) e)) [0; 1; 2]%nat = [8; 8; 0]%nat.
  Proof. vm_compute. reflexivity. Qed.

  (* the theorems on the examples: their hypotheses are satisfiable *)
  Example ex_shape3 : forall pts, spline_route sh3 fit3 inner r_m 0 r_route = Ok pts ->
    spline_shape (start_point r_m 0) (end_point r_m 2) pts.
  Proof. intros pts H. exact (spline_route_shape sh3 fit3 inner sh3_ok fit3_ok r_m 0 r_route pts H). Qed.

  Example ex_phase5_spec : forall g5, phase5_splines sh3 fit3 inner r_g = Ok g5 ->
    g_na g5 = g_na r_m /\
    (exists pts, gedge g5 0 = set_pts pts (gedge r_m 0) /\ spline_shape (start_point r_m 0) (end_point r_m 2) pts) /\
    (exists pts, gedge g5 1 = set_pts pts (gedge r_m 1) /\ spline_shape (start_point r_m 0) (end_point r_m 3) pts).
  Proof.
    intros g5 H.
    assert (N1 : Nat.eqb (length (g_N r_g)) 1 = false) by (vm_compute; reflexivity).
    destruct (phase5_splines_spec sh3 fit3 inner sh3_ok fit3_ok r_g g5 r_m _ N1 H r_merge) as (A1 & _ & _ & _ & _ & _ & A7).
    - cbn [map fst]. repeat constructor; cbn; intuition discriminate.
    - intros r [<-|[<-|[]]]; vm_compute; lia.
    - split; [exact A1|]. split.
      + exact (A7 (0%nat, r_route) (or_introl eq_refl)).
      + exact (A7 (1%nat, [0; 3]%nat) (or_intror (or_introl eq_refl))).
  Qed.
  (* why [shortest_ok_q]: the corridor router of Model/Geom.v can end its path at a corridor vertex that is == but not
     Leibniz-equal to the start point (here the start point is the corner (0, 0) written 0 # 2) *)
  Example geom_shortest_last_only_qeq :
    Geom.shortest (0 # 2, 0) (5, 20) [mkRect (0, 0) (10, 10); mkRect (5, 10) (10, 20)] = Ok [(5, 20); (0, 0)] /\
    (0, 0) <> (0 # 2, 0).
  Proof. split; [vm_compute; reflexivity|discriminate]. Qed.
End SplineRoutingExample.
