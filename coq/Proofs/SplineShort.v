(* SplineShort.v — spline routing RETURNS, with the real corridor router (Model/Geom.v), on edges that join two REAL
   nodes of adjacent bands (C01 for splines on the class of graphs without long edges), part 1: one route, all routes.

   [shortest_geom] is the total wrapper of [Geom.shortest] (the empty path stands for a panic / a loop).
   S1  [build_rects_two_real]    : the corridor of a two-node route between real nodes is ONE rectangle;
   S2  [shortest_geom_one_rect]  : on that rectangle the router answers the two-point path [e; s] (Leibniz equality: the
                                   one-rectangle theorem of GeomProofs.v gives the explicit path, no == is needed);
       [shortest_geom_one_rect_sharp] : the exact condition, with the failing inputs as examples;
   S3  [spline_route_short_edge] : the route is [make_spline start end]: 4 control points, whatever [fit] / [mk_inner];
   S4  [exec_splines_short_total]: all routes: [exec_splines] returns and every routed edge carries those 4 points. *)
From Coq Require Import Lqa.
From Autog Require Import Base Graph Phase4 Phase5 Geom SplineStruct Splines.
From Autog.Proofs Require Import ListLemmas GeomProofs SplineRouting.
Local Open Scope Q_scope.

(* the corridor router as a total function: the empty path stands for every failure *)
Definition shortest_geom (s e : pt) (rs : list rect) : list pt :=
  match Geom.shortest s e rs with Ok p => p | Err _ => [] end.

(* the corridor between two real nodes: from the bottom of [a] to the top of [b], as wide as both nodes together *)
Definition short_rect (g : graph) (a b : nat) : rect :=
  mkRect (Qmin' (nX g a) (nX g b), nY g a + nH g a) (Qmax' (nX g a + nW g a) (nX g b + nW g b), nY g b).

(* ====================================================================================================== *)
(** * S1. One rectangle                                                                                     *)
(* ====================================================================================================== *)
Theorem build_rects_two_real : forall g a b,
  n_virt (gnode g a) = false -> n_virt (gnode g b) = false ->
  build_rects g [a; b] =
    Ok [mkRect (Qmin' (nX g a) (nX g b), nY g a + nH g a) (Qmax' (nX g a + nW g a) (nX g b + nW g b), nY g b)].
Proof.
  intros g a b Va Vb. cbn [build_rects]. rewrite Va, Vb. cbn [negb andb bind app]. reflexivity.
Qed.
Print Assumptions build_rects_two_real.

(* ====================================================================================================== *)
(** * S2. The router on that rectangle                                                                      *)
(* ====================================================================================================== *)
Lemma short_rect_coords : forall g a b,
  px (r_tl (short_rect g a b)) = Qmin' (nX g a) (nX g b) /\ py (r_tl (short_rect g a b)) = nY g a + nH g a /\
  px (r_br (short_rect g a b)) = Qmax' (nX g a + nW g a) (nX g b + nW g b) /\ py (r_br (short_rect g a b)) = nY g b.
Proof. intros; repeat split. Qed.

Lemma start_point_coords : forall g a, px (start_point g a) = nX g a + nW g a / 2 /\ py (start_point g a) = nY g a + nH g a.
Proof. intros; split; reflexivity. Qed.
Lemma end_point_coords : forall g b, px (end_point g b) = nX g b + nW g b / 2 /\ py (end_point g b) = nY g b.
Proof. intros; split; reflexivity. Qed.

Lemma half_sum (w : Q) : w / 2 + w / 2 == w.
Proof. field. Qed.

(* The exact condition (for non-negative widths): the band is strict, the rectangle has positive width, and NOT
   (b has width 0, a has positive width, and b lies to the right of a) — in that case the end point is the bottom-right
   corner of the rectangle and the start point lies strictly above its diagonal: the router loops (see below). *)
Theorem shortest_geom_one_rect_sharp : forall g a b,
  nY g a + nH g a < nY g b -> 0 <= nW g a -> 0 <= nW g b ->
  Qmin' (nX g a) (nX g b) < Qmax' (nX g a + nW g a) (nX g b + nW g b) ->
  (nW g b == 0 -> 0 < nW g a -> nX g b < nX g a + nW g a) ->
  Geom.shortest (start_point g a) (end_point g b) [short_rect g a b] = Ok [end_point g b; start_point g a].
Proof.
  intros g a b Hy Wa Wb Hx Hc.
  pose proof (Qmin'_spec (nX g a) (nX g b)) as (M1 & M2 & M3).
  pose proof (Qmax'_spec (nX g a + nW g a) (nX g b + nW g b)) as (N1 & N2 & N3).
  destruct (short_rect_coords g a b) as (C1 & C2 & C3 & C4).
  destruct (start_point_coords g a) as (S1 & S2). destruct (end_point_coords g b) as (E1 & E2).
  pose proof (half_sum (nW g a)) as Ha2. pose proof (half_sum (nW g b)) as Hb2.
  apply shortest_one_rect_sharp.
  - unfold rect_strict. rewrite C1, C2, C3, C4. split; assumption.
  - unfold in_rect. rewrite C1, C2, C3, C4, S1, S2. repeat split; lra.
  - unfold in_rect. rewrite C1, C2, C3, C4, E1, E2. repeat split; lra.
  - (* if the end point is the bottom-right corner then b has width 0; under [Hc] the start point is then NOT strictly
       above the diagonal (a has width 0 too and lies left of b: the start point is the top-left corner) *)
    unfold above_diag, pt_eq. rewrite C1, C2, C3, C4, S1, S2, E1, E2. intros HA [HB _].
    assert (Wb0 : nW g b == 0) by lra.
    destruct (Qlt_le_dec 0 (nW g a)) as [Wa1|Wa0].
    + specialize (Hc Wb0 Wa1). lra.
    + assert (Wa00 : nW g a == 0) by lra.
      assert (Hab : nX g a <= nX g b) by lra.
      assert (Hm : Qmin' (nX g a) (nX g b) == nX g a) by (destruct M3; lra).
      nra.
  - unfold pt_eq. rewrite C3, C4, S2. intros _ [_ HB]. lra.
Qed.
Print Assumptions shortest_geom_one_rect_sharp.

Theorem shortest_geom_one_rect : forall g a b,
  nY g a + nH g a < nY g b -> 0 < nW g a -> 0 < nW g b ->
  let s := start_point g a in let e := end_point g b in
  let r := mkRect (Qmin' (nX g a) (nX g b), nY g a + nH g a) (Qmax' (nX g a + nW g a) (nX g b + nW g b), nY g b) in
  rect_strict r /\ in_rect r s /\ in_rect r e /\
  Geom.shortest s e [r] = Ok [e; s] /\ shortest_geom s e [r] = [e; s].
Proof.
  intros g a b Hy Wa Wb. cbv zeta. fold (short_rect g a b).
  pose proof (Qmin'_spec (nX g a) (nX g b)) as (M1 & M2 & M3).
  pose proof (Qmax'_spec (nX g a + nW g a) (nX g b + nW g b)) as (N1 & N2 & N3).
  destruct (short_rect_coords g a b) as (C1 & C2 & C3 & C4).
  destruct (start_point_coords g a) as (S1 & S2). destruct (end_point_coords g b) as (E1 & E2).
  pose proof (half_sum (nW g a)) as Ha2. pose proof (half_sum (nW g b)) as Hb2.
  assert (H : Geom.shortest (start_point g a) (end_point g b) [short_rect g a b] = Ok [end_point g b; start_point g a]).
  { apply shortest_geom_one_rect_sharp; try lra. }
  split; [unfold rect_strict; rewrite C1, C2, C3, C4; split; lra|].
  split; [unfold in_rect; rewrite C1, C2, C3, C4, S1, S2; repeat split; lra|].
  split; [unfold in_rect; rewrite C1, C2, C3, C4, E1, E2; repeat split; lra|].
  split; [exact H|]. unfold shortest_geom. rewrite H. reflexivity.
Qed.
Print Assumptions shortest_geom_one_rect.

(* the condition of the sharp form cannot be dropped: b of width 0 to the right of a (both points are in the rectangle) *)
Module SharpExample.
  Definition mk (x y w h : Q) : node := mkNode [] [] 0 0 false x y w h.
  Definition gl : graph := mkGraph [mk 0 0 10 4; mk 20 10 0 4] [] [0; 1]%nat [] [].
  Example loops : Geom.shortest (start_point gl 0) (end_point gl 1) [short_rect gl 0 1] = Err (ErrFuel 65).
  Proof. vm_compute. reflexivity. Qed.
  (* ... while b of width 0 NOT to the right of a is fine, as the sharp theorem says *)
  Definition gl' : graph := mkGraph [mk 0 0 10 4; mk 5 10 0 4] [] [0; 1]%nat [] [].
  Example fine : Geom.shortest (start_point gl' 0) (end_point gl' 1) [short_rect gl' 0 1] = Ok [end_point gl' 1; start_point gl' 0].
  Proof.
    apply shortest_geom_one_rect_sharp.
    - vm_compute; reflexivity.
    - vm_compute; discriminate.
    - vm_compute; discriminate.
    - vm_compute; reflexivity.
    - intros _ _. vm_compute; reflexivity.
  Qed.
End SharpExample.

(* ====================================================================================================== *)
(** * S3. One route                                                                                         *)
(* ====================================================================================================== *)
Local Open Scope nat_scope.

(* the hypotheses on a two-node route [a; b] of edge e, read in the graph g *)
Record short_edge (g : graph) (e a b : nat) : Prop := mkShortEdge {
  se_from : e_from (gedge g e) = a;
  se_to : e_to (gedge g e) = b;
  se_real_a : n_virt (gnode g a) = false;
  se_real_b : n_virt (gnode g b) = false;
  se_band : (nY g a + nH g a < nY g b)%Q;          (* the bottom of a is strictly above the top of b *)
  se_wa : (0 < nW g a)%Q;
  se_wb : (0 < nW g b)%Q
}.

Section ShortRoute.
  Variable fit : list pt -> list rect -> res (list (piece pt)).
  Variable mk_inner : pt -> pt -> pt * pt.

  Theorem spline_route_short_edge : forall g e a b, short_edge g e a b ->
    spline_route shortest_geom fit mk_inner g e [a; b] = Ok (make_spline mk_inner (start_point g a) (end_point g b)).
  Proof.
    intros g e a b [Hf Ht Va Vb Hy Wa Wb]. unfold spline_route.
    rewrite (build_rects_two_real g a b Va Vb). cbn [bind]. cbv zeta. rewrite Hf, Ht.
    destruct (shortest_geom_one_rect g a b Hy Wa Wb) as (_ & _ & _ & _ & ->). reflexivity.
  Qed.

  (* 4 control points, the first is the bottom centre of a, the last the top centre of b *)
  Corollary spline_route_short_edge_points : forall g e a b, short_edge g e a b ->
    exists c1 c2, spline_route shortest_geom fit mk_inner g e [a; b] = Ok [start_point g a; c1; c2; end_point g b].
  Proof.
    intros g e a b H. rewrite (spline_route_short_edge g e a b H). unfold make_spline.
    destruct (Qeq_bool _ _); eexists; eexists; reflexivity.
  Qed.

  (* ====================================================================================================== *)
  (** * S4. All routes                                                                                     *)
  (* ====================================================================================================== *)
  Definition short_route (g : graph) (r : nat * list nat) : Prop :=
    exists a b, snd r = [a; b] /\ short_edge g (fst r) a b.

  (* the points every routed edge gets *)
  Definition short_pts (g : graph) (e : nat) : list pt :=
    make_spline mk_inner (start_point g (e_from (gedge g e))) (end_point g (e_to (gedge g e))).

  Lemma short_pts_shape : forall g e, exists c1 c2,
    short_pts g e = [start_point g (e_from (gedge g e)); c1; c2; end_point g (e_to (gedge g e))].
  Proof. intros g e. unfold short_pts, make_spline. destruct (Qeq_bool _ _); eexists; eexists; reflexivity. Qed.

  Lemma short_edge_ext : forall g g' e a b,
    g_na g' = g_na g -> set_pts [] (gedge g' e) = set_pts [] (gedge g e) -> short_edge g e a b -> short_edge g' e a b.
  Proof.
    intros g g' e a b Hna He [Hf Ht Va Vb Hy Wa Wb].
    assert (Ef : e_from (gedge g' e) = e_from (gedge g e)) by (apply (f_equal e_from) in He; exact He).
    assert (Et : e_to (gedge g' e) = e_to (gedge g e)) by (apply (f_equal e_to) in He; exact He).
    unfold nX, nY, nW, nH, gnode in *. split; unfold nX, nY, nW, nH, gnode; rewrite ?Hna; first [congruence | assumption].
  Qed.

  Lemma set_pts_upd_edge : forall g e p x,
    set_pts [] (gedge (upd_edge g e (set_pts p)) x) = set_pts [] (gedge g x).
  Proof.
    intros g e p x. destruct (Nat.eq_dec x e) as [->|Hne].
    - destruct (Nat.lt_ge_cases e (length (g_ea g))) as [Hlt|Hge].
      + rewrite BreakMerge.gedge_upd_edge_same by exact Hlt. reflexivity.
      + unfold gedge, upd_edge, with_ea. cbn [g_ea]. rewrite upd_oob by exact Hge. reflexivity.
    - rewrite BreakMerge.gedge_upd_edge_other by exact Hne. reflexivity.
  Qed.

  Lemma start_end_ext : forall g g' n, g_na g' = g_na g ->
    start_point g' n = start_point g n /\ end_point g' n = end_point g n.
  Proof. intros g g' n H. unfold start_point, end_point, nX, nY, nW, nH, gnode. rewrite H. split; reflexivity. Qed.

  Lemma exec_splines_short_gen : forall routes g0 g,
    g_na g = g_na g0 -> g_L g = g_L g0 -> length (g_ea g) = length (g_ea g0) ->
    (forall e, set_pts [] (gedge g e) = set_pts [] (gedge g0 e)) ->
    (forall r, In r routes -> short_route g0 r) ->
    exists g', exec_splines shortest_geom fit mk_inner g routes = Ok g' /\
      g_na g' = g_na g0 /\ g_N g' = g_N g /\ g_E g' = g_E g /\ g_L g' = g_L g0 /\
      length (g_ea g') = length (g_ea g0) /\
      (forall e, set_pts [] (gedge g' e) = set_pts [] (gedge g0 e)) /\
      (forall e, ~ In e (map fst routes) -> gedge g' e = gedge g e) /\
      (forall r, In r routes -> fst r < length (g_ea g0) -> e_pts (gedge g' (fst r)) = short_pts g0 (fst r)).
  Proof.
    induction routes as [|r0 routes IH]; intros g0 g Hna HL Hlen Hed SR.
    - exists g. split; [reflexivity|]. split; [exact Hna|]. split; [reflexivity|]. split; [reflexivity|].
      split; [exact HL|]. split; [exact Hlen|]. split; [exact Hed|]. split; [reflexivity|]. intros r [].
    - destruct (SR r0 (or_introl eq_refl)) as (a & b & Ens & SE).
      assert (SE' : short_edge g (fst r0) a b) by (apply (short_edge_ext g0 g); [exact Hna|apply Hed|exact SE]).
      rewrite exec_splines_fold. cbn [fold_left]. unfold E2EBridge.rstep at 2. cbn [bind].
      rewrite Ens, (spline_route_short_edge g (fst r0) a b SE'). cbn [bind].
      set (p0 := make_spline mk_inner (start_point g a) (end_point g b)).
      set (g1 := upd_edge g (fst r0) (set_pts p0)).
      destruct (E2EBridge.upd_edge_frame g (fst r0) (set_pts p0)) as (U1 & U2 & U3 & U4 & U5).
      fold g1 in U1, U2, U3, U4, U5.
      assert (Ep0 : p0 = short_pts g0 (fst r0)).
      { unfold p0, short_pts. destruct SE as [Hf Ht _ _ _ _ _]. rewrite Hf, Ht.
        destruct (start_end_ext g0 g a Hna) as [-> _]. destruct (start_end_ext g0 g b Hna) as [_ ->]. reflexivity. }
      destruct (IH g0 g1) as (g' & X & A1 & A2 & A3 & A4 & A5 & A6 & A7 & A8).
      + congruence.
      + congruence.
      + congruence.
      + intros e. unfold g1. rewrite set_pts_upd_edge. apply Hed.
      + intros r Hr. apply SR. right. exact Hr.
      + exists g'. rewrite exec_splines_fold in X. split; [exact X|].
        split; [exact A1|]. split; [congruence|]. split; [congruence|]. split; [exact A4|]. split; [exact A5|].
        split; [exact A6|]. split.
        * intros e He. cbn [map] in He. rewrite A7 by (intros Hc; apply He; right; exact Hc).
          unfold g1. apply BreakMerge.gedge_upd_edge_other. intros Hc. apply He. left. symmetry. exact Hc.
        * intros r [<-|Hr] Hlt.
          -- destruct (in_dec Nat.eq_dec (fst r0) (map fst routes)) as [Hi|Hn].
             ++ apply in_map_iff in Hi. destruct Hi as (r' & Er & Hr'). rewrite <- Er. apply A8; [exact Hr'|].
                rewrite Er. exact Hlt.
             ++ rewrite (A7 _ Hn). unfold g1. rewrite BreakMerge.gedge_upd_edge_same by (rewrite Hlen; exact Hlt).
                cbn [set_pts e_pts]. exact Ep0.
          -- apply A8; assumption.
  Qed.

  Theorem exec_splines_short_total : forall g routes,
    (forall r, In r routes -> short_route g r) ->
    exists g', exec_splines shortest_geom fit mk_inner g routes = Ok g' /\
      (* the frame *)
      g_na g' = g_na g /\ g_N g' = g_N g /\ g_E g' = g_E g /\ g_L g' = g_L g /\ length (g_ea g') = length (g_ea g) /\
      (forall e, ~ In e (map fst routes) -> gedge g' e = gedge g e) /\
      (* every routed edge: 4 control points from the bottom centre of its source to the top centre of its target *)
      (forall r, In r routes -> fst r < length (g_ea g) ->
         gedge g' (fst r) = set_pts (short_pts g (fst r)) (gedge g (fst r)) /\
         exists c1 c2, e_pts (gedge g' (fst r)) =
           [start_point g (e_from (gedge g (fst r))); c1; c2; end_point g (e_to (gedge g (fst r)))]).
  Proof.
    intros g routes SR.
    destruct (exec_splines_short_gen routes g g eq_refl eq_refl eq_refl (fun e => eq_refl) SR)
      as (g' & X & A1 & A2 & A3 & A4 & A5 & A6 & A7 & A8).
    exists g'. repeat (split; [assumption|]).
    intros r Hr Hlt. specialize (A8 r Hr Hlt). split.
    - specialize (A6 (fst r)). rewrite <- A8. destruct (gedge g' (fst r)) as [f1 t1 d1 w1 tr1 rv1 c1 p1 a1], (gedge g (fst r)) as [f2 t2 d2 w2 tr2 rv2 c2 p2 a2].
      unfold set_pts in *. simpl in *. congruence.
    - rewrite A8. apply short_pts_shape.
  Qed.
End ShortRoute.

Print Assumptions spline_route_short_edge.
Print Assumptions exec_splines_short_total.

(* ====================================================================================================== *)
(** * Example: the hypotheses of S1-S4 are satisfiable (one node above two, the right one far to the right)    *)
(* ====================================================================================================== *)
Module ShortRouteExample.
  Local Open Scope Q_scope.
  Definition mk (x y w h : Q) : node := mkNode [] [] 0 0 false x y w h.
  Definition ed (a b : nat) : edge := mkEdge a b 1 1 false false 0 [] false.
  Definition sg : graph :=
    mkGraph [mk 0 0 10 4; mk 20 11 6 4; mk (-5) 11 8 4] [ed 0 1; ed 0 2] [0; 1; 2]%nat [0; 1]%nat [].
  Definition sroutes : list (nat * list nat) := [(0, [0; 1]); (1, [0; 2])]%nat.
  Definition inner (a b : pt) : pt * pt := ((fst a, (2 * snd a + snd b) / 3), (fst b, (snd a + 2 * snd b) / 3)).
  Definition no_fit (_ : list pt) (_ : list rect) : res (list (piece pt)) := Err (ErrIndex 71).

  Example sg_short_edge : short_edge sg 0 0 1 /\ short_edge sg 1 0 2.
  Proof. split; constructor; vm_compute; reflexivity. Qed.

  Example sg_short_routes : forall r, In r sroutes -> short_route sg r.
  Proof.
    intros r [<-|[<-|[]]]; [exists 0%nat, 1%nat|exists 0%nat, 2%nat]; (split; [reflexivity|]); apply sg_short_edge.
  Qed.

  (* S1 / S2 / S3 on the first route *)
  Example sg_rect : build_rects sg [0; 1]%nat = Ok [short_rect sg 0 1].
  Proof. apply build_rects_two_real; reflexivity. Qed.
  Example sg_shortest : Geom.shortest (start_point sg 0) (end_point sg 1) [short_rect sg 0 1] = Ok [end_point sg 1; start_point sg 0].
  Proof. apply (shortest_geom_one_rect sg 0 1); vm_compute; reflexivity. Qed.
  Example sg_route : spline_route shortest_geom no_fit inner sg 0 [0; 1]%nat = Ok (make_spline inner (start_point sg 0) (end_point sg 1)).
  Proof. apply spline_route_short_edge, sg_short_edge. Qed.

  (* S4: the routing returns (by the theorem); the model computes the same 4 points per edge *)
  Example sg_total : exists g', exec_splines shortest_geom no_fit inner sg sroutes = Ok g'.
  Proof. destruct (exec_splines_short_total no_fit inner sg sroutes sg_short_routes) as (g' & H & _). exists g'. exact H. Qed.

  Definition qr (l : list pt) : list pt := map (fun p : pt => (Qred (fst p), Qred (snd p))) l.
  Example sg_eval :
    match exec_splines shortest_geom no_fit inner sg sroutes with
    | Ok g' => map (fun e => qr (e_pts (gedge g' e))) [0; 1]%nat
    | Err _ => []
    end = [[(5, 4); (5, 19 # 3); (23, 26 # 3); (23, 11)]; [(5, 4); (5, 19 # 3); (-1, 26 # 3); (-1, 11)]].
  Proof. vm_compute. reflexivity. Qed.
End ShortRouteExample.
