(* SplineShort2.v — spline routing RETURNS with the real corridor router, part 2: the whole pipeline of one component.

   [layout_component_sx_short_total]: for [layout_component_sx shortest_geom fit mk_inner bk o g] with the spline router, a
   size-aware positioner (VAlign, PackRight, SinkColoring), a positive layer spacing, positive node widths, and an input
   whose layering has NO long edge ([short_premise]: every edge of the graph phase 2 hands on spans exactly one layer), the
   pipeline returns [Ok] — whatever [fit] and [mk_inner] are: the fitter is never called.
   [layout_component_sx_short_points]: and every non-loop edge of the output carries 4 control points, from the bottom
   centre of its upper end to the top centre of its lower end (in the geometry of the OUTPUT graph).

   Method: phases 1-4 and the merge do not read [o_p5]; the same options with the straight router ([straight_of o]) take
   [layout_component] through [TotalPipeline.layout_component_total] and [E2EBackbone.pipeline_backbone], which expose
   every intermediate graph with its stage records; on the merged graph every route is a [SplineShort.short_route]. *)
From Autog Require Import Base Graph Populate Phase1 Phase2 Phase3 Phase4 Phase5 Layout Wmedian Pipeline BK PipelineBK.
From Autog Require Import Geom SplineStruct Splines PipelineSpl.
From Autog.Proofs Require Import ListLemmas Consistent SelfLoopProofs.
From Autog.Proofs Require Import Positioners Routes BreakMerge E2EBridge E2EBackbone E2EOutput TotalPipeline NSBridge WholeBridge.
From Autog.Proofs Require Import GeomProofs SplineRouting SplinePipeline SplinePipeline2 SplineShort.
From Coq Require Import Lia Lqa.
Local Open Scope nat_scope.

(* the same options with the straight router *)
Definition straight_of (o : options) : options :=
  mkOptions (o_p1 o) (o_p2 o) (o_p4 o) Straight (o_thoroughness o) (o_factor o) (o_node_spacing o) (o_layer_spacing o)
            (o_virtual o).

(* no long edge: every edge of the layered graph spans exactly one layer *)
Definition short_premise (o : options) (g : graph) : Prop :=
  forall g1 g2,
    phase1 (o_p1 o) (fst (ignore_self_loops g)) = Ok g1 -> phase2 (o_p2 o) (Layout.ns_params o) g1 = Ok g2 ->
    forall e, In e (g_E g2) -> span g2 e = 1%Z.

(* ====================================================================================================== *)
(** * 1. The routes of the merged graph are short routes                                                    *)
(* ====================================================================================================== *)
Section ShortRoutes.
  Variables (o : options) (g g' : graph) (x : option Z) (g0 : graph) (del : list nat) (g1 g2 g3 : graph) (k : nat)
            (g3' : graph) (cx : Z) (g4 gm : graph) (routes : list (nat * list nat)) (g5 : graph).
  Hypothesis CI : component_input g.
  Hypothesis BB : backbone o g g' x g0 del g1 g2 g3 k g3' cx g4 gm routes g5.
  Hypothesis SP : (0 < o_layer_spacing o)%Q.
  Hypothesis WD : forall n, In n (g_N g) -> (0 < nW g n)%Q.
  Hypothesis SH : forall e, In e (g_E g2) -> span g2 e = 1%Z.

  Let S01 := bb_s01 _ _ _ _ _ _ _ _ _ _ _ _ _ _ _ _ BB.
  Let S23 := bb_s23 _ _ _ _ _ _ _ _ _ _ _ _ _ _ _ _ BB.
  Let S45 := bb_s45 _ _ _ _ _ _ _ _ _ _ _ _ _ _ _ _ BB.

  (* a real node of the input, read in the merged graph *)
  Lemma merged_old_node : forall n, In n (g_N g) ->
    n_virt (gnode gm n) = false /\ nW gm n = nW g n /\ nH gm n = nH g4 n /\ nY gm n = nY g4 n /\
    layer_of gm n = layer_of g4 n /\ In n (g_N g4).
  Proof.
    intros n Hn.
    pose proof (c_N_lt _ (ci_cons _ CI) n Hn) as Hlt.
    destruct (sum_lengths _ _ _ _ _ _ _ _ _ _ _ _ _ _ _ _ BB) as (_ & _ & _ & _ & N2 & _).
    destruct (sum_node_old _ _ _ _ _ _ _ _ _ _ _ _ _ _ _ _ CI BB n Hlt) as (_ & V3 & W3 & _).
    pose proof (sm_node _ _ _ _ _ _ _ _ _ S45 n) as Sb.
    destruct (same_but_in_fields _ _ Sb) as (B1 & B2 & _). destruct (same_but_in_geom _ _ Sb) as (_ & B4 & B5 & B6).
    pose proof (s4_node _ _ _ _ _ _ _ _ _ S45 n) as E43.
    assert (V43 : n_virt (gnode g4 n) = n_virt (gnode g3 n) /\ n_w (gnode g4 n) = n_w (gnode g3 n)).
    { destruct (gnode g4 n), (gnode g3 n). unfold set_pos, set_x, set_y in E43. cbn in *. inversion E43. split; reflexivity. }
    destruct V43 as [V43 W43].
    split; [congruence|]. unfold nW, nH, nY, layer_of. split; [congruence|]. split; [exact B6|]. split; [exact B4|].
    split; [exact B2|].
    rewrite (s4_N _ _ _ _ _ _ _ _ _ S45), (s3_N _ _ _ _ S23), N2. apply in_or_app. left. exact Hn.
  Qed.

  Theorem backbone_short_routes : forall r, In r routes -> short_route gm r.
  Proof.
    intros r Hr.
    destruct (sum_lengths _ _ _ _ _ _ _ _ _ _ _ _ _ _ _ _ BB) as (_ & _ & _ & _ & N2 & _).
    assert (He2 : In (fst r) (g_E g2)).
    { rewrite <- (sm_fst _ _ _ _ _ _ _ _ _ S45). apply in_map, Hr. }
    pose proof (sm_routes _ _ _ _ _ _ _ _ _ S45) as RO. rewrite Forall_forall in RO.
    destruct (RO r Hr) as [(vs & Ens & LEN & _ & _) CY].
    rewrite (SH _ He2) in LEN.
    assert (Evs : vs = []).
    { rewrite Ens in LEN. cbn [length] in LEN. rewrite app_length in LEN. cbn [length] in LEN.
      destruct vs; [reflexivity|cbn [length] in LEN; lia]. }
    subst vs. cbn [app] in Ens.
    set (a := e_from (gedge g2 (fst r))) in *. set (b := e_to (gedge g2 (fst r))) in *.
    destruct (s2_ends _ _ _ _ S23 _ He2) as [Ha Hb]. fold a in Ha. fold b in Hb. rewrite N2 in Ha, Hb.
    destruct (merged_old_node a Ha) as (Va & Wa & Hha & Ya & La & Na).
    destruct (merged_old_node b Hb) as (Vb & Wb & _ & _ & _ & _).
    exists a, b. split; [exact Ens|].
    pose proof (sm_edge _ _ _ _ _ _ _ _ _ S45 _ He2) as GM.
    constructor.
    - rewrite GM. reflexivity.
    - rewrite GM. reflexivity.
    - exact Va.
    - exact Vb.
    - (* the band: b lies one layer height plus the spacing below a, and a fits into its layer *)
      rewrite Ens in CY. cbn [chain_y_eq] in CY. destruct CY as [CY _].
      destruct (s4_placed _ _ _ _ _ _ _ _ _ S45 a Na) as [P0 P1].
      destruct (s4_y _ _ _ _ _ _ _ _ _ S45 _ a P1) as [_ Hh].
      assert (LH : layer_h_of gm a = l_h (glayer g4 (Z.to_nat (layer_of g4 a)))).
      { unfold layer_h_of, glayer. rewrite (sm_L _ _ _ _ _ _ _ _ _ S45), La. reflexivity. }
      rewrite LH in CY. rewrite Hha. lra.
    - rewrite Wa. apply WD, Ha.
    - rewrite Wb. apply WD, Hb.
  Qed.

  Lemma backbone_two_nodes : Nat.eqb (length (g_N g4)) 1 = false.
  Proof using BB.
    pose proof (bb_s23 _ _ _ _ _ _ _ _ _ _ _ _ _ _ _ _ BB) as T23. pose proof (bb_s45 _ _ _ _ _ _ _ _ _ _ _ _ _ _ _ _ BB) as T45.
    apply Nat.eqb_neq. rewrite (s4_N _ _ _ _ _ _ _ _ _ T45), (s3_N _ _ _ _ T23), app_length.
    pose proof (s2_two _ _ _ _ T23) as TWO. clear - TWO. lia.
  Qed.
End ShortRoutes.

(* ====================================================================================================== *)
(** * 2. The pipeline returns                                                                               *)
(* ====================================================================================================== *)
Section ShortPipeline.
  Variable fit : list pt -> list rect -> res (list (piece pt)).
  Variable mk_inner : pt -> pt -> pt * pt.

  Notation layout_component_sx := (PipelineSpl.layout_component_sx shortest_geom fit mk_inner).

  Lemma phase4x_modelled : forall bk alg p g, modelled_p4 alg -> phase4x bk alg p g = phase4 alg p g.
  Proof. intros bk alg p g [->|[->| ->]]; reflexivity. Qed.

  (* the computation, with every intermediate graph exposed *)
  Theorem layout_component_sx_short_run : forall bk o g,
    component_input g -> modelled_p4 (o_p4 o) -> o_p5 o = OtherRouting -> p2_ready o g ->
    (0 < o_layer_spacing o)%Q -> (forall n, In n (g_N g) -> (0 < nW g n)%Q) -> short_premise o g ->
    exists gs xs g0 del g1 g2 g3 k g3' cx g4 gm routes g5s g5,
      backbone (straight_of o) g gs xs g0 del g1 g2 g3 k g3' cx g4 gm routes g5s /\
      (forall r, In r routes -> short_route gm r) /\
      exec_splines shortest_geom fit mk_inner gm routes = Ok g5 /\
      layout_component_sx bk o g = Ok (post_process g5 del, Some cx).
  Proof.
    intros bk o g CI O4 O5 RD SP WD SH.
    assert (OK' : options_ok (straight_of o)) by (split; [exact O4|left; reflexivity]).
    destruct (layout_component_total (straight_of o) g CI OK' RD) as (gs & xs & LC).
    pose proof (ns_premise_holds (straight_of o) g CI) as NS.
    destruct (pipeline_backbone (straight_of o) g gs xs CI OK' (wm_premise_holds _ g CI NS) NS LC)
      as (g0 & del & g1 & g2 & g3 & k & g3' & cx & g4 & gm & routes & g5s & BB).
    exists gs, xs, g0, del, g1, g2, g3, k, g3', cx, g4, gm, routes, g5s.
    pose proof BB as [E0 E1 E2 E3 E3' Ex E4 Em E5 E6 S01 S23 S45].
    cbn [straight_of o_p1 o_p2 o_p4 o_p5 o_layer_spacing] in E1, E2, E4.
    change (Layout.ns_params (straight_of o)) with (Layout.ns_params o) in E2.
    change (p4_params (straight_of o)) with (p4_params o) in E4.
    assert (Eg0 : g0 = fst (ignore_self_loops g)) by (rewrite E0; reflexivity).
    assert (SH2 : forall e, In e (g_E g2) -> span g2 e = 1%Z).
    { apply (SH g1 g2); [rewrite <- Eg0; exact E1|exact E2]. }
    assert (SR : forall r, In r routes -> short_route gm r).
    { exact (backbone_short_routes _ _ _ _ _ _ _ _ _ _ _ _ _ _ _ _ CI BB SP WD SH2). }
    destruct (exec_splines_short_total fit mk_inner gm routes SR) as (g5 & X & _).
    exists g5. split; [exact BB|]. split; [exact SR|]. split; [exact X|].
    unfold PipelineSpl.layout_component_sx. rewrite E0, E1. cbn [bind]. rewrite E2. cbn [bind].
    unfold phase3_wmedian.
    assert (N2 : Nat.eqb (length (g_N g2)) 1 = false).
    { apply Nat.eqb_neq. pose proof (s2_two _ _ _ _ S23). lia. }
    rewrite N2, (s2_L1 _ _ _ _ S23), E3. cbn [bind]. rewrite E3'. cbn [bind fst snd].
    rewrite (phase4x_modelled bk _ _ _ O4), E4. cbn [bind].
    rewrite O5. cbn [phase5x]. unfold phase5_splines.
    rewrite (backbone_two_nodes _ _ _ _ _ _ _ _ _ _ _ _ _ _ _ _ BB), Em. cbn [bind]. rewrite X. cbn [bind]. reflexivity.
  Qed.

  (* C01 for the spline router on graphs without long edges *)
  Theorem layout_component_sx_short_total : forall bk o g,
    component_input g -> modelled_p4 (o_p4 o) -> o_p5 o = OtherRouting -> p2_ready o g ->
    (0 < o_layer_spacing o)%Q -> (forall n, In n (g_N g) -> (0 < nW g n)%Q) -> short_premise o g ->
    exists g' x, layout_component_sx bk o g = Ok (g', x).
  Proof.
    intros bk o g CI O4 O5 RD SP WD SH.
    destruct (layout_component_sx_short_run bk o g CI O4 O5 RD SP WD SH)
      as (gs & xs & g0 & del & g1 & g2 & g3 & k & g3' & cx & g4 & gm & routes & g5s & g5 & _ & _ & _ & H).
    eexists. eexists. exact H.
  Qed.

  (* ... and every non-loop edge of the output carries the 4 control points of [make_spline], from the bottom centre of its
     upper end to the top centre of its lower end, in the geometry of the output graph *)
  Theorem layout_component_sx_short_points : forall bk o g g' x,
    component_input g -> modelled_p4 (o_p4 o) -> o_p5 o = OtherRouting -> p2_ready o g ->
    (0 < o_layer_spacing o)%Q -> (forall n, In n (g_N g) -> (0 < nW g n)%Q) -> short_premise o g ->
    layout_component_sx bk o g = Ok (g', x) ->
    forall e, In e (g_E g) -> self_loop g e = false ->
      e_pts (gedge g' e) = make_spline mk_inner (start_point g' (upper_end g' e)) (end_point g' (lower_end g' e)) /\
      exists c1 c2, e_pts (gedge g' e) = [start_point g' (upper_end g' e); c1; c2; end_point g' (lower_end g' e)].
  Proof.
    intros bk o g g' x CI O4 O5 RD SP WD SH H e He Es.
    destruct (layout_component_sx_short_run bk o g CI O4 O5 RD SP WD SH)
      as (gs & xs & g0 & del & g1 & g2 & g3 & k & g3' & cx & g4 & gm & routes & g5s & g5 & BB & SR & X & H').
    rewrite H' in H. injection H as <- <-.
    (* the backbone of the spline pipeline: the same intermediate graphs *)
    destruct (backbone_sx_holds shortest_geom fit mk_inner bk o g _ _ CI (or_intror O5) H')
      as (g0' & del' & g1' & g2' & g3_ & k' & g3'' & cx' & g4' & gm' & routes' & g5' & BBs).
    pose proof BB as [E0 E1 E2 E3 E3' Ex E4 Em E5 E6 S01 S23 S45].
    cbn [straight_of o_p1 o_p2 o_p4 o_p5 o_layer_spacing] in E1, E2, E4.
    change (Layout.ns_params (straight_of o)) with (Layout.ns_params o) in E2.
    change (p4_params (straight_of o)) with (p4_params o) in E4.
    pose proof BBs as [F0 F1 F2 F3 F3' Fx F4 Fm F5 F6 _ _ _ _].
    rewrite E0 in F0. injection F0 as <- <-.
    rewrite E1 in F1. injection F1 as <-. rewrite E2 in F2. injection F2 as <-.
    rewrite E3 in F3. injection F3 as <-. rewrite E3' in F3'. injection F3' as <- <-.
    rewrite (phase4x_modelled bk _ _ _ O4), E4 in F4. injection F4 as <-.
    rewrite Em in Fm. injection Fm as <- <-.
    rewrite O5 in F5. cbn [phase5x] in F5. unfold phase5_splines in F5.
    rewrite (backbone_two_nodes _ _ _ _ _ _ _ _ _ _ _ _ _ _ _ _ BB), Em in F5. cbn [bind] in F5.
    rewrite X in F5. injection F5 as <-.
    (* the route of e *)
    assert (He2 : In e (g_E g2)) by (apply (snonloop_E2 _ _ _ _ _ _ _ _ _ _ _ _ _ _ _ _ _ _ _ _ BBs); split; assumption).
    pose proof He2 as Hin. rewrite <- (sm_fst _ _ _ _ _ _ _ _ _ S45) in Hin. apply in_map_iff in Hin.
    destruct Hin as (r & Er & Hr).
    assert (LT : fst r < length (g_ea gm)).
    { apply in_range_of_ends. rewrite Er, (sm_edge _ _ _ _ _ _ _ _ _ S45 _ He2). cbn [set_ahs e_from e_to].
      destruct (bp_edges (s2_pre _ _ _ _ S23) _ He2) as (_ & _ & _ & SPN). unfold span in SPN.
      intros Heq. rewrite Heq in SPN. lia. }
    destruct (exec_splines_short_total fit mk_inner gm routes SR) as (g5a & Xa & _ & _ & _ & _ & _ & _ & PT).
    rewrite X in Xa. injection Xa as <-.
    destruct (PT r Hr LT) as [G5 _]. rewrite Er in G5.
    destruct (post_process_facts g5 del (ssum_post_range _ _ _ _ _ _ _ _ _ _ _ _ _ _ _ _ _ _ _ _ CI BBs))
      as (_ & _ & _ & _ & _ & _ & _ & Q8 & _). cbv zeta in Q8. destruct (Q8 e) as [QP _].
    destruct (sroute_setup _ _ _ _ _ _ _ _ _ _ _ _ _ _ _ _ _ _ _ _ CI BBs e He Es) as (mid & pts & RS). cbv zeta in RS.
    destruct RS as (_ & _ & _ & _ & EA & EB & _).
    assert (PTS : e_pts (gedge (post_process g5 del) e) =
                  make_spline mk_inner (start_point (post_process g5 del) (upper_end (post_process g5 del) e))
                                       (end_point (post_process g5 del) (lower_end (post_process g5 del) e))).
    { rewrite QP, G5. cbn [set_pts e_pts]. unfold short_pts. rewrite EA, EB.
      rewrite (sstart_point_out _ _ _ _ _ _ _ _ _ _ _ _ _ _ _ _ _ _ _ _ CI BBs),
              (send_point_out _ _ _ _ _ _ _ _ _ _ _ _ _ _ _ _ _ _ _ _ CI BBs). reflexivity. }
    split; [exact PTS|]. rewrite PTS. unfold make_spline. destruct (Qeq_bool _ _); eexists; eexists; reflexivity.
  Qed.
End ShortPipeline.

Print Assumptions backbone_short_routes.
Print Assumptions layout_component_sx_short_total.
Print Assumptions layout_component_sx_short_points.

(* ====================================================================================================== *)
(** * 3. Example: a component without long edges through [layout_component_sx] with the real router         *)
(* ====================================================================================================== *)
(* 5 nodes, 7 edges: 0->1, 0->2, 1->3, 2->4, 1->4 (a cross edge), 2->2 (a self loop), 1->0 (antiparallel to 0->1: reversed
   by phase 1); DepthFirst / LongestPath / PackRight / splines; node size 10 x 6, node spacing 5, layer spacing 7 *)
Module ShortPipelineExample.
  Definition t_edges : list (list nat) := [[0;1];[0;2];[1;3];[2;4];[1;4];[2;2];[1;0]].
  Definition t_g : graph := Eval vm_compute in
    match populate nat Nat.eqb t_edges with
    | Ok (ids, g) => hd empty_graph (components (apply_sizes nat Nat.eqb (Some (10, 6)%Q) None ids g))
    | Err _ => empty_graph
    end.
  Example t_g_is_frontend :
    match populate nat Nat.eqb t_edges with
    | Ok (ids, g) => components (apply_sizes nat Nat.eqb (Some (10, 6)%Q) None ids g) = [t_g]
    | Err _ => False
    end.
  Proof. vm_compute. reflexivity. Qed.

  Definition t_o : options := mkOptions DepthFirst LongestPath PackRight OtherRouting 1 0 5 7 false.
  Definition inner (a b : pt) : pt * pt := ((fst a, (2 * snd a + snd b) / 3), (fst b, (snd a + 2 * snd b) / 3))%Q.
  (* a fitter that always panics: it is never called *)
  Definition no_fit (_ : list pt) (_ : list rect) : res (list (piece pt)) := Err (ErrIndex 71).

  Example t_consistent : Consistent.consistent t_g.
  Proof.
    constructor.
    - vm_compute. repeat constructor; cbn; intuition congruence.
    - vm_compute. repeat constructor; cbn; intuition congruence.
    - intros n H. vm_compute in H. list_cases H; vm_compute; lia.
    - intros n H. vm_compute in H. list_cases H; vm_compute; lia.
    - intros n H. vm_compute in H. list_cases H; vm_compute; tauto.
    - intros n H. vm_compute in H. list_cases H; vm_compute; tauto.
    - intros n H. vm_compute in H. list_cases H; vm_compute; reflexivity.
    - intros n H. vm_compute in H. list_cases H; vm_compute; reflexivity.
  Qed.

  Example t_component_input : component_input t_g.
  Proof.
    constructor.
    - exact t_consistent.
    - intros n. do 5 (destruct n as [|n]; [reflexivity|]). destruct n; reflexivity.
    - reflexivity.
    - intros e H. vm_compute in H. list_cases H; vm_compute; auto.
    - vm_compute. lia.
    - intros n H. vm_compute in H. list_cases H; vm_compute; lia.
  Qed.

  Definition t_g1 : graph := Eval vm_compute in
    match phase1 (o_p1 t_o) (fst (ignore_self_loops t_g)) with Ok g => g | Err _ => empty_graph end.
  Definition t_g2 : graph := Eval vm_compute in
    match phase2 (o_p2 t_o) (Layout.ns_params t_o) t_g1 with Ok g => g | Err _ => empty_graph end.
  Example t_phase1 : phase1 (o_p1 t_o) (fst (ignore_self_loops t_g)) = Ok t_g1.
  Proof. vm_compute. reflexivity. Qed.
  Example t_phase2 : phase2 (o_p2 t_o) (Layout.ns_params t_o) t_g1 = Ok t_g2.
  Proof. vm_compute. reflexivity. Qed.

  (* no long edge *)
  Example t_short_premise : short_premise t_o t_g.
  Proof.
    intros g1 g2 P1 P2. rewrite t_phase1 in P1. injection P1 as <-. rewrite t_phase2 in P2. injection P2 as <-.
    intros e H. vm_compute in H. list_cases H; vm_compute; reflexivity.
  Qed.

  Example t_p2_ready : p2_ready t_o t_g.
  Proof. intros H. discriminate H. Qed.

  Example t_widths : forall n, In n (g_N t_g) -> (0 < nW t_g n)%Q.
  Proof. intros n H. vm_compute in H. list_cases H; vm_compute; reflexivity. Qed.

  (* the theorem: the pipeline returns, whatever the fitter *)
  Example t_total : forall fit mk_inner bk, exists g' x,
    PipelineSpl.layout_component_sx shortest_geom fit mk_inner bk t_o t_g = Ok (g', x).
  Proof.
    intros fit mk_inner bk. apply layout_component_sx_short_total.
    - exact t_component_input.
    - right; left; reflexivity.
    - reflexivity.
    - exact t_p2_ready.
    - vm_compute; reflexivity.
    - exact t_widths.
    - exact t_short_premise.
  Qed.

  (* ... and every non-loop edge gets 4 control points between the two centres *)
  Example t_points : forall fit mk_inner bk g' x,
    PipelineSpl.layout_component_sx shortest_geom fit mk_inner bk t_o t_g = Ok (g', x) ->
    forall e, In e (g_E t_g) -> self_loop t_g e = false ->
      exists c1 c2, e_pts (gedge g' e) = [start_point g' (upper_end g' e); c1; c2; end_point g' (lower_end g' e)].
  Proof.
    intros fit mk_inner bk g' x H e He Es.
    apply (layout_component_sx_short_points fit mk_inner bk t_o t_g g' x); try assumption.
    - exact t_component_input.
    - right; left; reflexivity.
    - reflexivity.
    - exact t_p2_ready.
    - vm_compute; reflexivity.
    - exact t_widths.
    - exact t_short_premise.
  Qed.

  (* what the model computes: 4 control points per non-loop edge (edge 6 = 1->0 was reversed: arrow head at its start) *)
  Definition qr (l : list pt) : list pt := map (fun p : pt => (Qred (fst p), Qred (snd p))) l.
  Example t_eval :
    match PipelineSpl.layout_component_sx shortest_geom no_fit inner (-1) t_o t_g with
    | Ok (g', x) => (map (fun e => (e_from (gedge g' e), e_to (gedge g' e), e_ahs (gedge g' e))) (g_E g'),
                     map (fun e => qr (e_pts (gedge g' e))) (g_E g'), x)
    | Err _ => ([], [], None)
    end =
    ([(0, 1, false); (0, 2, false); (1, 3, false); (2, 4, false); (1, 4, false); (1, 0, true); (2, 2, false)],
     [[(20, 6); (20, 25 # 3); (5, 32 # 3); (5, 13)];
      [(20, 6); (20, 6); (20, 13); (20, 13)];
      [(5, 19); (5, 19); (5, 26); (5, 26)];
      [(20, 19); (20, 19); (20, 26); (20, 26)];
      [(5, 19); (5, 64 # 3); (20, 71 # 3); (20, 26)];
      [(20, 6); (20, 25 # 3); (5, 32 # 3); (5, 13)];
      []]%Q, Some 0%Z).
  Proof. vm_compute. reflexivity. Qed.

  (* outside the class (edge 0->2 spans two layers under the longest-path layering, and so does the reversed 4->0) the
     router does not answer a two-point path and the fitter IS called: with [no_fit] the pipeline stops there *)
  Definition l_edges : list (list nat) := [[0;1];[0;2];[1;3];[1;4];[2;2];[4;0]].
  Definition l_g : graph := Eval vm_compute in
    match populate nat Nat.eqb l_edges with
    | Ok (ids, g) => hd empty_graph (components (apply_sizes nat Nat.eqb (Some (10, 6)%Q) None ids g))
    | Err _ => empty_graph
    end.
  Example l_eval : PipelineSpl.layout_component_sx shortest_geom no_fit inner (-1) t_o l_g = Err (ErrIndex 71).
  Proof. vm_compute. reflexivity. Qed.
End ShortPipelineExample.
