(* Summary.v — the front end of Layout put together: populate, apply_sizes, components, self loops.
   Also re-prints the assumptions of every main theorem of Proofs/. *)
From Autog Require Import Base Graph Populate Layout.
From Autog.Proofs Require Import ListLemmas Consistent PopulateProofs SizesProofs ComponentsProofs SelfLoopProofs CollectProofs.
Local Open Scope nat_scope.

(* the size options keep the structure: a consistent graph stays consistent *)
Theorem apply_sizes_consistent : forall (A : Type) (eqA : A -> A -> bool) fixed sizes ids g,
  length (g_na g) = length ids -> consistent g -> consistent (apply_sizes A eqA fixed sizes ids g).
Proof.
  intros A eqA fixed sizes ids g HL C.
  destruct (apply_sizes_spec A eqA fixed sizes ids g HL) as [_ [_ [_ [_ [LEN NODE]]]]].
  assert (ADJ : forall n, In n (g_N g) ->
            n_in (gnode (apply_sizes A eqA fixed sizes ids g) n) = n_in (gnode g n) /\
            n_out (gnode (apply_sizes A eqA fixed sizes ids g) n) = n_out (gnode g n)).
  { intros n Hn. pose proof (c_N_lt g C n Hn) as L. rewrite HL in L.
    destruct (nth_error ids n) as [x|] eqn:E; [|apply nth_error_None in E; lia].
    destruct (NODE n x E) as [_ [H1 [H2 _]]]. auto. }
  constructor.
  - apply (c_nodupN g C).
  - apply (c_nodupE g C).
  - intros n Hn. rewrite LEN. apply (c_N_lt g C n Hn).
  - apply (c_E_lt g C).
  - apply (c_from g C).
  - apply (c_to g C).
  - intros n Hn. destruct (ADJ n Hn) as [_ H]. rewrite H. apply (c_out g C n Hn).
  - intros n Hn. destruct (ADJ n Hn) as [H _]. rewrite H. apply (c_in g C n Hn).
Qed.

Print Assumptions apply_sizes_consistent.

(* from the user's edge list to the per-component working graphs without self loops: everything is
   well formed, and the component / self-loop theorems apply at every stage *)
Theorem frontend_consistent : forall (A : Type) (eqA : A -> A -> bool),
  (forall x y, eqA x y = true <-> x = y) ->
  forall es ids g fixed sizes,
    populate A eqA es = Ok (ids, g) ->
    let g1 := apply_sizes A eqA fixed sizes ids g in
    consistent g1 /\
    forall c, In c (components g1) ->
      consistent c /\
      consistent (fst (ignore_self_loops c)) /\
      (forall e, In e (g_E (fst (ignore_self_loops c))) -> self_loop c e = false) /\
      consistent (restore_self_loops (fst (ignore_self_loops c)) (snd (ignore_self_loops c))).
Proof.
  intros A eqA OK es ids g fixed sizes H g1.
  pose proof (populate_wf eqA OK es H) as P.
  assert (C1 : consistent g1).
  { apply apply_sizes_consistent; [apply (p_na_len P)|]. apply (populated_consistent P). }
  split; [exact C1|]. intros c Hc.
  destruct (components_partition g1 C1) as [_ [_ [_ [_ [_ [_ [_ [_ [_ [_ [_ [CC _]]]]]]]]]]]].
  pose proof (CC c Hc) as Cc. split; [exact Cc|].
  split; [apply (ignore_self_loops_consistent c Cc)|]. split.
  - intros e He. destruct (ignore_self_loops_spec c Cc) as [_ [_ [_ [_ [_ [EQ _]]]]]].
    cbv zeta in EQ. rewrite EQ in He. apply filter_In in He. destruct He as [_ He].
    apply negb_true_iff in He. exact He.
  - apply (ignore_restore_consistent c Cc).
Qed.

Print Assumptions frontend_consistent.

(* opaque labels, end to end: renaming the identifiers of the edge list AND of the size table leaves the
   indexed graph handed to the layout phases — hence every coordinate computed from it — unchanged *)
Theorem frontend_rename : forall (A B : Type) (eqA : A -> A -> bool) (eqB : B -> B -> bool) (rho : A -> B),
  (forall x y, eqB (rho x) (rho y) = eqA x y) ->
  forall es fixed sizes ids g,
    populate A eqA es = Ok (ids, g) ->
    exists ids', populate B eqB (map (map rho) es) = Ok (ids', g) /\ ids' = map rho ids /\
      apply_sizes B eqB fixed (option_map (map (fun p : A * (Q * Q) => (rho (fst p), snd p))) sizes) ids' g =
      apply_sizes A eqA fixed sizes ids g.
Proof.
  intros A B eqA eqB rho R es fixed sizes ids g H. exists (map rho ids).
  split; [|split; [reflexivity|]].
  - rewrite (populate_rename A B eqA eqB rho R es), H. reflexivity.
  - apply (apply_sizes_rename A B eqA eqB rho R).
Qed.

Print Assumptions frontend_rename.

Example frontend_example :
  let g := example_graph in
  map (fun c => (g_N c, g_E (fst (ignore_self_loops c)), snd (ignore_self_loops c)))
      (components (apply_sizes nat Nat.eqb (Some (5, 5)%Q) None [1;2;3;4] g))
  = [([0;1;2], [0;1;2], []); ([3], [], [3])].
Proof. vm_compute. reflexivity. Qed.

(* ---------- assumptions of all main theorems ---------- *)
Print Assumptions populate_rename.
Print Assumptions apply_sizes_rename.
Print Assumptions populate_wf.
Print Assumptions populate_err_iff.
Print Assumptions populate_ok_iff.
Print Assumptions populate_ids_first_appearance.
Print Assumptions populate_consistent.
Print Assumptions apply_sizes_spec.
Print Assumptions lookup_size_first.
Print Assumptions reach_spec.
Print Assumptions components_partition.
Print Assumptions ignore_self_loops_spec.
Print Assumptions restore_self_loops_spec.
Print Assumptions ignore_restore_self_loops.
Print Assumptions collect_nodes_map_filter.
Print Assumptions collect_nodes_entry.
Print Assumptions collect_nodes_complete.
Print Assumptions collect_edges_spec.
