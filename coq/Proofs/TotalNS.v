(* TotalNS.v — TOTALITY of the network-simplex layering (Q1): on a well-formed, acyclic, CONNECTED component
   [feasible_tree] returns Ok: no panic site is reached ("did not find adjacent non-tree edge") and the fuel of
   the model's loops always suffices.
   - [init_layers_total]   : the queue loop of initLayers pops every node at most once;
   - [tight_tree_total]    : the depth of tightTree is bounded by the number of distinct nodes; on return the
                             visited set is CLOSED under tight edges ([tt_closed]);
   - [incident_some]       : by connectivity, a tree that does not span has an incident non-tree edge;
   - [feasible_loop_total] : every round that does not finish makes the tight tree of the next round strictly
                             larger, so |N| rounds suffice;
   - [feasible_tree_total], [exec_network_simplex_ok], [phase2_total]. *)
From Autog Require Import Base Graph Populate Phase2 Optimality OptNormalize OptVbalance OptFeasible OptInit
  OptPipeline NSDefs NSFeasLoop NSTree NSLimLow NSComp NSPivot NSTotal NSHbalance.
From Coq Require Import Permutation.

(* ================================================================================================ *)
(* (a) init_layers                                                                                   *)
(* ================================================================================================ *)
Lemma nodup_incl_le : forall (l l' : list nat), NoDup l -> incl l l' -> (length l <= length l')%nat.
Proof. intros l l' H I. apply (NoDup_incl_length H I). Qed.

Section InitTotal.
  Variable g0 : graph.
  Variable rank : nat -> nat.
  Hypothesis Hwf : vb_wf g0.
  Hypothesis HndE : NoDup (g_E g0).
  Hypothesis Hrank : forall e, In e (g_E g0) -> (rank (e_from (gedge g0 e)) < rank (e_to (gedge g0 e)))%nat.

  Lemma il_outer_total : forall fuel g queue unseen done P,
    il_inv g0 P (done ++ queue) g unseen ->
    (forall e, In e P -> In (e_from (gedge g0 e)) done) ->
    (length (g_N g0) < fuel + length done)%nat ->
    exists g', init_layers_loop fuel g queue unseen = Ok g'.
  Proof.
    induction fuel as [|f IH]; intros g queue unseen done P I HPd Hfu.
    - destruct queue as [|n rest]; [exists g; reflexivity|].
      exfalso. pose proof (nodup_incl_le _ _ (ii_nodup _ _ _ _ _ I) (ii_incl _ _ _ _ _ I)) as Hle.
      rewrite app_length in Hle. cbn [length] in Hle. lia.
    - destruct queue as [|n rest]; [exists g; rewrite init_layers_loop_nil; reflexivity|].
      rewrite init_layers_loop_S.
      pose proof (ii_lay _ _ _ _ _ I) as L.
      assert (HnN : In n (g_N g0)).
      { apply (ii_incl _ _ _ _ _ I). apply in_or_app. right. left. reflexivity. }
      assert (Hn_done : ~ In n done).
      { pose proof (ii_nodup _ _ _ _ _ I) as Hnd. apply NoDup_remove_2 in Hnd.
        intros Hin. apply Hnd. apply in_or_app. left. exact Hin. }
      rewrite (lay_only_out L n).
      pose proof Hwf as [_ _ A]. destruct (A n HnN) as (_ & Aout & _ & _).
      destruct (il_inner g0 rank Hwf HndE Hrank n done (n_out (gnode g0 n)) P g unseen rest I
                  (nodup_out g0 Hwf HndE n HnN))
        as (g1 & u1 & q1 & Hfold & I1).
      { intros e He. apply Aout in He. destruct He as [HeE Hf]. repeat split; try assumption.
        intros HeP. apply Hn_done. rewrite <- Hf. apply HPd. exact HeP. }
      rewrite Hfold.
      replace (done ++ n :: q1) with ((done ++ [n]) ++ q1) in I1 by (rewrite <- app_assoc; reflexivity).
      apply (IH g1 q1 u1 (done ++ [n]) (rev (n_out (gnode g0 n)) ++ P) I1).
      + intros e He. apply in_or_app. apply in_app_or in He. destruct He as [He|He].
        * right. left. apply in_rev in He. apply Aout in He. destruct He as [_ Hf]. symmetry. exact Hf.
        * left. apply HPd. exact He.
      + rewrite app_length. cbn [length]. lia.
  Qed.

  Lemma init_layers_total_sec : exists g', init_layers g0 = Ok g'.
  Proof.
    unfold init_layers.
    apply (il_outer_total _ g0 _ _ [] [] (il_init_inv g0 Hwf)).
    - intros e [].
    - pose proof Hwf as [[HndN HrN] _ _].
      pose proof (NoDup_lt_length (g_N g0) (length (g_na g0)) HndN HrN). cbn [length]. lia.
  Qed.
End InitTotal.

Theorem init_layers_total : forall g,
  vb_wf g -> NoDup (g_E g) -> acyclic g -> exists g', init_layers g = Ok g'.
Proof. intros g W HndE [rank Hrank]. exact (init_layers_total_sec g rank W HndE Hrank). Qed.
Print Assumptions init_layers_total.

(* ================================================================================================ *)
(* (b1) tight_tree: totality and closure under tight edges                                           *)
(* ================================================================================================ *)
(* tight visited edges have both ends among the visited nodes *)
Definition ve_ok (gb : graph) (ve vn : list nat) : Prop :=
  forall e, In e ve -> slack gb e = 0 -> In (e_from (gedge gb e)) vn /\ In (e_to (gedge gb e)) vn.

(* every tight edge at x leads into vn *)
Definition closedn (gb : graph) (x : nat) (vn : list nat) : Prop :=
  forall e, In e (all_edges gb x) -> slack gb e = 0 -> In (connected_node gb e x) vn.

Lemma closedn_mono : forall gb x vn vn', incl vn vn' -> closedn gb x vn -> closedn gb x vn'.
Proof. intros gb x vn vn' Hi Hc e He Hs. apply Hi. apply Hc; assumption. Qed.

Definition tt_tot (gb : graph) (k : nat) (rec : nat -> tt_st -> res tt_st) : Prop :=
  forall m g ve vn, geom_same gb g -> In m (g_N gb) -> ~ In m vn -> NoDup vn -> incl vn (g_N gb) ->
    flagged_in (g_E gb) g ve -> flagged_ends (g_E gb) g (m :: vn) -> ve_ok gb ve (m :: vn) ->
    (length (g_N gb) <= k + length vn)%nat ->
    exists g' ve' vn', rec m (g, ve, vn) = Ok (g', ve', vn') /\ ve_ok gb ve' vn' /\
      (forall x, In x vn' -> In x vn \/ closedn gb x vn').

Lemma conn_cases : forall g e n, e_to (gedge g e) = n \/ e_from (gedge g e) = n ->
  (e_from (gedge g e) = n /\ e_to (gedge g e) = connected_node g e n) \/
  (e_to (gedge g e) = n /\ e_from (gedge g e) = connected_node g e n).
Proof.
  intros g e n H. unfold connected_node. destruct (Nat.eqb (e_to (gedge g e)) n) eqn:E.
  - apply Nat.eqb_eq in E. right. split; [exact E | reflexivity].
  - apply Nat.eqb_neq in E. destruct H as [H|H]; [contradiction|]. left. split; [exact H | reflexivity].
Qed.

Lemma tt_loop_total : forall gb f n,
  ns_wf gb -> In n (g_N gb) -> tt_tot gb f (tight_tree f) ->
  forall es g ve vn,
    incl es (all_edges gb n) -> geom_same gb g -> In n vn -> NoDup vn -> incl vn (g_N gb) ->
    flagged_in (g_E gb) g ve -> flagged_ends (g_E gb) g vn -> ve_ok gb ve vn ->
    (length (g_N gb) <= f + length vn)%nat ->
    exists g' ve' vn', tt_loop (tight_tree f) n es (g, ve, vn) = Ok (g', ve', vn') /\
      ve_ok gb ve' vn' /\ incl vn vn' /\
      (forall x, In x vn' -> In x vn \/ closedn gb x vn') /\
      (forall e, In e es -> slack gb e = 0 -> In (connected_node gb e n) vn').
Proof.
  intros gb f n Wb HnN Htot.
  pose proof Wb as [[Wn Hein Aadj] HndE Hnl].
  pose proof (adj_ok_ADJ gb Aadj) as HADJ.
  pose proof (tt_clean2 gb Wb f) as Hrec2.
  intros es; induction es as [|e t IH]; intros g ve vn Hes G Hnvn Hnd Hincl HQ HP HV Hlen.
  - exists g, ve, vn. split; [reflexivity|]. split; [exact HV|]. split; [apply incl_refl|].
    split; [intros x Hx; left; exact Hx | intros e []].
  - cbn [tt_loop]. fold (tt_loop (tight_tree f) n).
    assert (Hes' : incl t (all_edges gb n)) by (intros x Hx; apply Hes; right; exact Hx).
    destruct (HADJ n HnN e (Hes e (or_introl eq_refl))) as [HeE Hend].
    pose proof (conn_cases gb e n Hend) as Hcc.
    assert (Hsl : slack g e = slack gb e) by (apply (slack_geom_same e G)).
    assert (Hcn : connected_node g e n = connected_node gb e n) by (apply (conn_geom gb g e n G)).
    destruct (mem_nat e ve) eqn:Em.
    { destruct (IH g ve vn Hes' G Hnvn Hnd Hincl HQ HP HV Hlen) as (g' & ve' & vn' & H & HV' & Hsub & Hcl & Hed).
      exists g', ve', vn'. split; [exact H|]. split; [exact HV'|]. split; [exact Hsub|]. split; [exact Hcl|].
      intros x [Hx|Hx] Hs; [subst x | apply Hed; assumption].
      apply mem_nat_In in Em. destruct (HV e Em Hs) as [Ha Hb].
      apply Hsub. destruct Hcc as [[_ C]|[_ C]]; rewrite <- C; assumption. }
    cbv zeta.
    destruct (e_tree (gedge g e)) eqn:Et.
    { exfalso. pose proof (HQ e HeE Et) as Hin. apply mem_nat_In in Hin. congruence. }
    rewrite Hcn, Hsl.
    set (m := connected_node gb e n) in *.
    assert (HQ' : flagged_in (g_E gb) g (e :: ve)) by (intros x Hx Hxt; right; apply HQ; assumption).
    pose proof G as (G1 & G2 & G3 & G4).
    destruct (negb (mem_nat m vn) && (slack gb e =? 0))%bool eqn:Ec.
    + apply andb_prop in Ec. destruct Ec as [Emv Ez]. apply Z.eqb_eq in Ez.
      apply negb_true_iff in Emv.
      assert (Hmv : ~ In m vn) by (intros Hin; apply mem_nat_In in Hin; congruence).
      set (g2 := upd_edge g e (set_tree true)).
      assert (R2 : tt_rel g g2) by (apply tt_rel_flag; rewrite Hsl; exact Ez).
      assert (G2' : geom_same gb g2) by (eapply geom_same_trans; [exact G | apply (tt_rel_geom R2)]).
      assert (HmN : In m (g_N gb)).
      { destruct (Hein e HeE) as [Hf Ht]. destruct Hcc as [[_ C]|[_ C]]; rewrite <- C; assumption. }
      assert (HQ2 : flagged_in (g_E gb) g2 (e :: ve)).
      { intros x Hx Hxt. apply flag_upd in Hxt. destruct Hxt as [->|Hxt]; [left; reflexivity|].
        right. apply HQ; assumption. }
      assert (Hends : In (e_from (gedge gb e)) (m :: vn) /\ In (e_to (gedge gb e)) (m :: vn)).
      { destruct Hcc as [[C1 C2]|[C1 C2]]; rewrite C1, C2; split;
          try (left; reflexivity); right; exact Hnvn. }
      assert (HP2 : flagged_ends (g_E gb) g2 (m :: vn)).
      { intros x Hx Hxt. destruct G2' as (_ & _ & _ & Q4). destruct (Q4 x) as (P1 & P2 & _).
        rewrite P1, P2. apply flag_upd in Hxt. destruct Hxt as [->|Hxt]; [exact Hends|].
        destruct (HP x Hx Hxt) as [Ha Hb]. destruct (G4 x) as (P1' & P2' & _). rewrite P1' in Ha. rewrite P2' in Hb.
        split; right; assumption. }
      assert (HV2 : ve_ok gb (e :: ve) (m :: vn)).
      { intros x [Hx|Hx] Hs; [subst x; exact Hends|]. destruct (HV x Hx Hs) as [Ha Hb]. split; right; assumption. }
      destruct (Htot m g2 (e :: ve) vn G2' HmN Hmv Hnd Hincl HQ2 HP2 HV2 Hlen)
        as (g3 & ve3 & vn3 & Er & HV3 & Hcl3).
      fold g2. rewrite Er. cbn [bind].
      destruct (Hrec2 m g2 (e :: ve) vn g3 ve3 vn3 Er G2' HmN Hmv Hnd Hincl HQ2 HP2)
        as [(R3 & Hnd3 & Hincl3 & Hsub3 & Hve3 & HQ3 & HP3) _].
      assert (G3' : geom_same gb g3) by (eapply geom_same_trans; [exact G2' | apply (tt_rel_geom R3)]).
      assert (Hnvn3 : In n vn3) by (apply Hsub3; right; exact Hnvn).
      assert (Hlen3 : (length (g_N gb) <= f + length vn3)%nat).
      { assert (Hnd' : NoDup (m :: vn)) by (constructor; assumption).
        pose proof (nodup_incl_le _ _ Hnd' Hsub3) as Hle. cbn [length] in Hle. lia. }
      destruct (IH g3 ve3 vn3 Hes' G3' Hnvn3 Hnd3 Hincl3 HQ3 HP3 HV3 Hlen3)
        as (g' & ve' & vn' & H & HV' & Hsub & Hcl & Hed).
      exists g', ve', vn'. split; [exact H|]. split; [exact HV'|].
      split; [intros x Hx; apply Hsub; apply Hsub3; right; exact Hx|].
      split.
      * intros x Hx. destruct (Hcl x Hx) as [Hx3|Hx3]; [|right; exact Hx3].
        destruct (Hcl3 x Hx3) as [Hxv|Hxc]; [left; exact Hxv|].
        right. apply (closedn_mono gb x vn3 vn' Hsub Hxc).
      * intros x [Hx|Hx] Hs; [subst x | apply Hed; assumption].
        apply Hsub. apply Hsub3. left. reflexivity.
    + assert (Hmem : slack gb e = 0 -> In m vn).
      { intros Hs. apply Z.eqb_eq in Hs. rewrite Hs in Ec. rewrite andb_true_r in Ec.
        apply negb_false_iff in Ec. apply mem_nat_In. exact Ec. }
      assert (HV1 : ve_ok gb (e :: ve) vn).
      { intros x [Hx|Hx] Hs; [subst x | apply HV; assumption].
        pose proof (Hmem Hs) as Hm. destruct Hcc as [[C1 C2]|[C1 C2]]; rewrite C1, C2; split; assumption. }
      destruct (IH g (e :: ve) vn Hes' G Hnvn Hnd Hincl HQ' HP HV1 Hlen) as (g' & ve' & vn' & H & HV' & Hsub & Hcl & Hed).
      exists g', ve', vn'. split; [exact H|]. split; [exact HV'|]. split; [exact Hsub|]. split; [exact Hcl|].
      intros x [Hx|Hx] Hs; [subst x | apply Hed; assumption].
      apply Hsub. apply Hmem. exact Hs.
Qed.

Theorem tight_tree_total : forall gb, ns_wf gb -> forall fuel, tt_tot gb fuel (tight_tree fuel).
Proof.
  intros gb Wb fuel; induction fuel as [|f IH]; intros m g ve vn G HmN Hmv Hnd Hincl HQ HP HV Hlen.
  - exfalso. assert (Hnd' : NoDup (m :: vn)) by (constructor; assumption).
    assert (Hi : incl (m :: vn) (g_N gb)) by (intros x [Hx|Hx]; [subst x; exact HmN | apply Hincl; exact Hx]).
    pose proof (nodup_incl_le _ _ Hnd' Hi) as Hle. cbn [length] in Hle. lia.
  - rewrite tight_tree_S.
    assert (Eall : all_edges g m = all_edges gb m).
    { destruct G as (G1 & _). unfold all_edges, gnode. rewrite G1. reflexivity. }
    rewrite Eall.
    destruct (tt_loop_total gb f m Wb HmN IH (all_edges gb m) g ve (m :: vn)) as (g' & ve' & vn' & H & HV' & Hsub & Hcl & Hed);
      try assumption.
    + apply incl_refl.
    + left; reflexivity.
    + constructor; assumption.
    + intros x [Hx|Hx]; [subst x; exact HmN | apply Hincl; exact Hx].
    + cbn [length]. lia.
    + exists g', ve', vn'. split; [exact H|]. split; [exact HV'|].
      intros x Hx. destruct (Hcl x Hx) as [[Hxm|Hxv]|Hxc]; [|left; exact Hxv | right; exact Hxc].
      subst x. right. intros e He Hs. apply Hed; assumption.
Qed.
Print Assumptions tight_tree_total.

(* ================================================================================================ *)
(* (b2) connectivity                                                                                 *)
(* ================================================================================================ *)
(* connection by edges of g_E, ignoring direction *)
Inductive econn (g : graph) : nat -> nat -> Prop :=
| ec_refl : forall a, econn g a a
| ec_step : forall a b c e, econn g a b -> In e (g_E g) -> joins g e b c -> econn g a c.

(* the component is connected: every node is reachable from the first node of the node list *)
Definition connected (g : graph) : Prop := forall n, In n (g_N g) -> econn g (root_of g) n.

(* connection by TIGHT edges of g_E *)
Inductive tightconn (g : graph) : nat -> nat -> Prop :=
| tg_refl : forall a, tightconn g a a
| tg_step : forall a b c e, tightconn g a b -> In e (g_E g) -> slack g e = 0 -> joins g e b c -> tightconn g a c.

Lemma econn_geom : forall g g' a b, geom_same g g' -> econn g a b -> econn g' a b.
Proof.
  intros g g' a b G H. induction H as [|a b c e Hab IH He Hj]; [apply ec_refl|].
  eapply ec_step; [exact IH | destruct G as (_ & _ & X & _); rewrite X; exact He | apply (joins_geom g g' e b c G Hj)].
Qed.

Lemma connected_geom : forall g g', geom_same g g' -> connected g -> connected g'.
Proof.
  intros g g' G H n Hn. pose proof G as (_ & X & _). unfold root_of. rewrite X. rewrite X in Hn.
  apply (econn_geom g g' _ _ G). apply H. exact Hn.
Qed.

Lemma lay_only_geom : forall g g', lay_only g g' -> length (g_na g') = length (g_na g) /\ g_N g' = g_N g /\
  g_E g' = g_E g /\ forall e, gedge g' e = gedge g e.
Proof.
  intros g g' L. split; [apply (lay_only_len L)|]. split; [apply (lay_only_N L)|]. split; [apply (lay_only_E L)|].
  apply (lay_only_gedge L).
Qed.

Lemma econn_lay : forall g g' a b, lay_only g g' -> econn g a b -> econn g' a b.
Proof.
  intros g g' a b L H. destruct (lay_only_geom g g' L) as (_ & _ & XE & Xe).
  induction H as [|a b c e Hab IH He Hj]; [apply ec_refl|].
  eapply ec_step; [exact IH | rewrite XE; exact He | unfold joins in *; rewrite Xe; exact Hj].
Qed.

Lemma connected_lay : forall g g', lay_only g g' -> connected g -> connected g'.
Proof.
  intros g g' L H n Hn. unfold root_of. rewrite (lay_only_N L). rewrite (lay_only_N L) in Hn.
  apply (econn_lay g g' _ _ L). apply H. exact Hn.
Qed.

Lemma tightconn_geom : forall g g' a b, geom_same g g' -> tightconn g a b -> tightconn g' a b.
Proof.
  intros g g' a b G H. induction H as [|a b c e Hab IH He Hs Hj]; [apply tg_refl|].
  eapply tg_step; [exact IH | destruct G as (_ & _ & X & _); rewrite X; exact He
                  | rewrite (slack_geom_same e G); exact Hs | apply (joins_geom g g' e b c G Hj)].
Qed.

Lemma joins_connected_node : forall g e b c, joins g e b c -> connected_node g e b = c.
Proof.
  intros g e b c H. unfold connected_node. destruct (Nat.eqb (e_to (gedge g e)) b) eqn:E.
  - apply Nat.eqb_eq in E. destruct H as [[H1 H2]|[H1 H2]]; congruence.
  - apply Nat.eqb_neq in E. destruct H as [[H1 H2]|[H1 H2]]; congruence.
Qed.

(* a path leaving a set crosses its boundary *)
Lemma econn_boundary : forall g (T : list nat) a n, econn g a n -> In a T -> ~ In n T ->
  exists e b c, In e (g_E g) /\ joins g e b c /\ In b T /\ ~ In c T.
Proof.
  intros g T a n H. induction H as [|a b c e Hab IH He Hj]; intros Ha Hn; [contradiction|].
  destruct (in_dec Nat.eq_dec b T) as [Hb|Hb].
  - exists e, b, c. repeat split; assumption.
  - apply IH; assumption.
Qed.

(* a set closed under tight edges contains everything tightly connected to one of its members *)
Lemma closed_contains : forall g (T : list nat), ns_wf g -> incl T (g_N g) ->
  (forall x, In x T -> closedn g x T) ->
  forall a x, tightconn g a x -> In a T -> In x T.
Proof.
  intros g T W Hi Hc a x H. induction H as [|a b c e Hab IH He Hs Hj]; intros Ha; [exact Ha|].
  specialize (IH Ha). rewrite <- (joins_connected_node g e b c Hj). apply (Hc b IH); [|exact Hs].
  apply (ns_wf_all_edges g b e W (Hi b IH)). split; [exact He|].
  destruct Hj as [[H1 H2]|[H1 H2]]; [right; exact H1 | left; exact H2].
Qed.

Lemma not_incl_witness : forall (l' l : list nat), ~ incl l' l -> exists x, In x l' /\ ~ In x l.
Proof.
  induction l' as [|a t IH]; intros l H.
  - exfalso. apply H. intros x [].
  - destruct (in_dec Nat.eq_dec a l) as [Ha|Ha].
    + destruct (IH l) as [x [Hx Hn]].
      * intros Hi. apply H. intros x [Hx|Hx]; [subst x; exact Ha | apply Hi; exact Hx].
      * exists x. split; [right; exact Hx | exact Hn].
    + exists a. split; [left; reflexivity | exact Ha].
Qed.

(* ================================================================================================ *)
(* (b3) incident_non_tree_edge finds an edge whenever some listed edge crosses the tree boundary     *)
(* ================================================================================================ *)
Lemma incident_some : forall g tree e',
  adj_ok g -> edges_in g ->
  (forall x, In x (g_E g) -> e_tree (gedge g x) = true -> ~ crossing g tree x) ->
  In e' (g_E g) -> crossing g tree e' ->
  exists e, incident_non_tree_edge g tree = Some e.
Proof.
  intros g tree e' A Hein Hflag He' Hcr.
  destruct (incident_non_tree_edge g tree) as [e|] eqn:H; [exists e; reflexivity|]. exfalso.
  rewrite inc_eq in H. unfold inc_step in H.
  pose proof (amin_none (inc_keep g tree) (fun c => slack g (snd c)) (fun c : nat * nat => snd c) (inc_cands g tree) H) as Hnone.
  unfold crossing in Hcr.
  destruct (Hein e' He') as [Hf' Ht'].
  assert (Hnt' : e_tree (gedge g e') = false).
  { destruct (e_tree (gedge g e')) eqn:Et; [|reflexivity]. exfalso. apply (Hflag e' He' Et). exact Hcr. }
  assert (Hns : self_loop g e' = false).
  { unfold self_loop. apply Nat.eqb_neq. intros Heq. rewrite Heq in Hcr. congruence. }
  destruct (mem_nat (e_from (gedge g e')) tree) eqn:Mf; destruct (mem_nat (e_to (gedge g e')) tree) eqn:Mt;
    try congruence.
  - assert (Hc : In (e_from (gedge g e'), e') (inc_cands g tree)).
    { apply in_inc_cands. split; [exact Hf'|]. split; [exact Mf|].
      unfold all_edges. apply in_or_app. right. apply (A _ Hf'). split; [exact He'|reflexivity]. }
    specialize (Hnone _ Hc). unfold inc_keep in Hnone. cbn [fst snd] in Hnone. rewrite Hns, Hnt' in Hnone.
    cbn [negb andb orb] in Hnone. unfold connected_node in Hnone.
    destruct (Nat.eqb (e_to (gedge g e')) (e_from (gedge g e'))) eqn:Eq.
    + apply Nat.eqb_eq in Eq. rewrite Eq in Mt. congruence.
    + rewrite Mt in Hnone. discriminate.
  - assert (Hc : In (e_to (gedge g e'), e') (inc_cands g tree)).
    { apply in_inc_cands. split; [exact Ht'|]. split; [exact Mt|].
      unfold all_edges. apply in_or_app. left. apply (A _ Ht'). split; [exact He'|reflexivity]. }
    specialize (Hnone _ Hc). unfold inc_keep in Hnone. cbn [fst snd] in Hnone. rewrite Hns, Hnt' in Hnone.
    cbn [negb andb orb] in Hnone. unfold connected_node in Hnone. rewrite Nat.eqb_refl in Hnone.
    rewrite Mf in Hnone. discriminate.
Qed.

(* ================================================================================================ *)
(* (b4) feasible_loop                                                                                *)
(* ================================================================================================ *)
Lemma tconn_tight : forall g g' a b,
  g_E g' = g_E g -> (forall e, gedge g' e = gedge g e) ->
  (forall e, In e (g_E g) -> e_tree (gedge g e) = true -> slack g' e = 0) ->
  tconn g all_ok a b -> tightconn g' a b.
Proof.
  intros g g' a b XE Xe Ht H. induction H as [|a b c e Hab IH He Het _ Hj]; [apply tg_refl|].
  eapply tg_step; [exact IH | rewrite XE; exact He | apply Ht; assumption | unfold joins in *; rewrite Xe; exact Hj].
Qed.

Lemma feasible_loop_total_gen : forall fuel g St,
  ns_wf g -> feasible g -> connected g -> g_N g <> [] ->
  NoDup St -> incl St (g_N g) -> (forall x, In x St -> tightconn g (root_of g) x) ->
  (length (g_N g) < fuel + length St)%nat ->
  exists g', feasible_loop fuel g = Ok g'.
Proof.
  induction fuel as [|f IH]; intros g St W Hf Hconn Hne HndS HinS HtS Hfu.
  - exfalso. pose proof (nodup_incl_le _ _ HndS HinS). lia.
  - rewrite feasible_loop_S.
    destruct (g_N g) as [|root rest] eqn:EN; [contradiction|].
    cbv zeta.
    pose proof (clear_flags_geom g) as G0.
    set (g0 := clear_flags g) in *.
    pose proof (ns_wf_geom_same G0 W) as W0.
    assert (E0 : g_E g0 = g_E g) by (destruct G0 as (_ & _ & X & _); exact X).
    assert (N0 : g_N g0 = g_N g) by (destruct G0 as (_ & X & _); exact X).
    assert (HrootN : In root (g_N g0)) by (rewrite N0, EN; left; reflexivity).
    assert (Hnoflag : forall x, In x (g_E g0) -> e_tree (gedge g0 x) = true -> False).
    { intros x Hx Hxt. unfold g0 in Hxt. rewrite E0 in Hx. rewrite (clear_flags_none g x Hx) in Hxt. discriminate. }
    pose proof W0 as [[[HndN0 HrN0] Hein0 A0] HndE0 Hnl0].
    (* tight_tree returns *)
    destruct (tight_tree_total g0 W0 (S (length (g_na g0))) root g0 [] [])
      as (g1 & ve & tree & Ett & _ & Hclosed).
    { apply geom_same_refl. } { exact HrootN. } { intros []. } { constructor. } { intros x []. }
    { intros x Hx Hxt. exfalso. apply (Hnoflag x Hx Hxt). }
    { intros x Hx Hxt. exfalso. apply (Hnoflag x Hx Hxt). }
    { intros x []. }
    { pose proof (NoDup_lt_length (g_N g0) (length (g_na g0)) HndN0 HrN0). cbn [length]. lia. }
    rewrite Ett. cbn [bind].
    pose proof (tight_tree_spec _ _ _ _ Ett) as R1. cbn [gof fst] in R1.
    pose proof (tt_rel_geom R1) as G1.
    pose proof (ns_wf_geom_same G1 W0) as W1.
    assert (Hf0 : feasible g0) by (apply (feasible_geom_same G0 Hf)).
    assert (Hf1 : feasible g1) by (apply (feasible_geom_same G1 Hf0)).
    assert (E01 : g_E g1 = g_E g0) by (destruct G1 as (_ & _ & X & _); exact X).
    assert (N01 : g_N g1 = g_N g0) by (destruct G1 as (_ & X & _); exact X).
    destruct (tt_clean2 g0 W0 _ root g0 [] [] g1 ve tree Ett
                (geom_same_refl g0) HrootN (fun x => x) (NoDup_nil nat) (fun x Hx => match Hx with end))
      as [(_ & HndT & HinclT & HsubT & _ & _ & HPT) (HconnT & _)].
    { intros x Hx Hxt. exfalso. apply (Hnoflag x Hx Hxt). }
    { intros x Hx Hxt. exfalso. apply (Hnoflag x Hx Hxt). }
    assert (HrootT : In root tree) by (apply HsubT; left; reflexivity).
    assert (HclT : forall x, In x tree -> closedn g0 x tree).
    { intros x Hx. destruct (Hclosed x Hx) as [[]|Hc]. exact Hc. }
    destruct (Nat.eqb (length tree) (length (g_N g1))) eqn:Elen; [exists g1; reflexivity|].
    apply Nat.eqb_neq in Elen.
    (* St is inside the tree *)
    assert (HST : incl St tree).
    { intros x Hx. apply (closed_contains g0 tree W0 HinclT HclT root x); [|exact HrootT].
      apply (tightconn_geom g g0 _ _ G0). specialize (HtS x Hx). unfold root_of in HtS. rewrite EN in HtS. exact HtS. }
    (* some node is outside the tree, and connectivity gives a crossing edge *)
    destruct (not_incl_witness (g_N g0) tree) as [n [HnN Hnt]].
    { intros Hi. apply Elen. rewrite N01. apply Nat.le_antisymm.
      - apply (nodup_incl_le _ _ HndT HinclT).
      - apply (nodup_incl_le _ _ HndN0 Hi). }
    assert (Hconn1 : connected g1) by (apply (connected_geom g0 g1 G1); apply (connected_geom g g0 G0 Hconn)).
    assert (Hroot1 : root_of g1 = root) by (unfold root_of; rewrite N01, N0, EN; reflexivity).
    assert (Hpath : econn g1 root n) by (rewrite <- Hroot1; apply Hconn1; rewrite N01; exact HnN).
    destruct (econn_boundary g1 tree root n Hpath HrootT Hnt) as (e' & b' & c' & He' & Hj' & Hb' & Hc').
    pose proof W1 as [[[Hnd1 Hr1] Hein1 A1] _ _].
    assert (Hnocross : forall x, In x (g_E g1) -> e_tree (gedge g1 x) = true -> ~ crossing g1 tree x).
    { intros x Hx Hxt Hcr. rewrite E01 in Hx. destruct (HPT x Hx Hxt) as [Ha Hb].
      apply mem_nat_In in Ha, Hb. unfold crossing in Hcr. congruence. }
    assert (Hcr' : crossing g1 tree e').
    { unfold crossing. apply mem_nat_In in Hb'.
      assert (Hc'' : mem_nat c' tree = false).
      { destruct (mem_nat c' tree) eqn:Em; [|reflexivity]. apply mem_nat_In in Em. contradiction. }
      destruct Hj' as [[H1 H2]|[H1 H2]]; rewrite H1, H2; congruence. }
    destruct (incident_some g1 tree e' A1 Hein1 Hnocross He' Hcr') as [e Einc].
    rewrite Einc.
    destruct (incident_spec g1 tree e A1 Hein1 Hnocross Einc) as (HeE & Hcr & Hmin).
    assert (HrT : forall n, In n tree -> (n < length (g_na g1))%nat).
    { intros x Hx. apply Hr1. rewrite N01. apply HinclT. exact Hx. }
    destruct (tree_shift_feasible g1 tree e HndT HrT Hf1 HeE Hcr (fun e2 He2 Hc2 _ => Hmin e2 He2 Hc2))
      as (Hf2 & Hs2e & Hs2).
    pose proof (tree_shift_lay_only g1 tree e HndT HrT) as L2.
    pose proof (ns_wf_lay_only L2 W1) as W2.
    set (g2 := tree_shift g1 tree e) in *.
    destruct (lay_only_geom g1 g2 L2) as (_ & N12 & E12 & Xe12).
    assert (Hroot2 : root_of g2 = root) by (unfold root_of; rewrite N12, N01, N0, EN; reflexivity).
    (* tree flags of g1 sit on tight edges, which do not cross: they stay tight *)
    assert (Htight2 : forall x, In x (g_E g1) -> e_tree (gedge g1 x) = true -> slack g2 x = 0).
    { intros x Hx Hxt. rewrite (Hs2 x (Hnocross x Hx Hxt)).
      destruct (tight_tree_flags_tight _ _ _ _ _ _ _ _ Ett) as (_ & _ & Hfl).
      destruct (Hfl x Hxt) as [Hc|Hc]; [|exact Hc].
      exfalso. rewrite E01 in Hx. apply (Hnoflag x Hx Hc). }
    assert (HtT : forall x, In x tree -> tightconn g2 root x).
    { intros x Hx. destruct (HconnT x Hx) as [[Hxr|[]]|Hxc]; [subst x; apply tg_refl|].
      apply (tconn_tight g1 g2 root x E12 Xe12 Htight2 Hxc). }
    (* the end of e outside the tree *)
    destruct (Hein1 e HeE) as [HfN HtN].
    assert (Hnew : exists b c, joins g1 e b c /\ In b tree /\ ~ In c tree /\ In c (g_N g1)).
    { unfold crossing in Hcr.
      destruct (mem_nat (e_from (gedge g1 e)) tree) eqn:Mf; destruct (mem_nat (e_to (gedge g1 e)) tree) eqn:Mt;
        try congruence.
      - exists (e_from (gedge g1 e)), (e_to (gedge g1 e)). split; [left; split; reflexivity|].
        split; [apply mem_nat_In; exact Mf|]. split; [|exact HtN]. intros Hin. apply mem_nat_In in Hin. congruence.
      - exists (e_to (gedge g1 e)), (e_from (gedge g1 e)). split; [right; split; reflexivity|].
        split; [apply mem_nat_In; exact Mt|]. split; [|exact HfN]. intros Hin. apply mem_nat_In in Hin. congruence. }
    destruct Hnew as (b & c & Hj & Hb & Hc & HcN).
    apply (IH g2 (c :: tree)).
    + exact W2.
    + exact Hf2.
    + apply (connected_lay g1 g2 L2 Hconn1).
    + rewrite N12, N01, N0, EN. discriminate.
    + constructor; assumption.
    + intros x [Hx|Hx]; rewrite N12; [subst x; exact HcN | rewrite N01; apply HinclT; exact Hx].
    + rewrite Hroot2. intros x [Hx|Hx]; [subst x | apply HtT; exact Hx].
      eapply tg_step; [apply (HtT b Hb) | rewrite E12; exact HeE | exact Hs2e |].
      unfold joins in *. rewrite Xe12. exact Hj.
    + rewrite N12, N01, N0, EN. cbn [length] in *.
      pose proof (nodup_incl_le _ _ HndS HST). lia.
Qed.

Theorem feasible_loop_total : forall g,
  ns_wf g -> feasible g -> connected g -> g_N g <> [] ->
  exists g', feasible_loop (S (length (g_N g))) g = Ok g'.
Proof.
  intros g W Hf Hc Hne. apply (feasible_loop_total_gen _ g []); try assumption.
  - constructor.
  - intros x [].
  - intros x [].
  - cbn [length]. lia.
Qed.
Print Assumptions feasible_loop_total.

(* ================================================================================================ *)
(* Q1: feasible_tree, network simplex and phase 2 return Ok                                          *)
(* ================================================================================================ *)
Theorem feasible_tree_total : forall g,
  ns_wf g -> acyclic g -> connected g -> g_N g <> [] ->
  exists g' ll, feasible_tree g = Ok (g', ll).
Proof.
  intros g W Hac Hc Hne. pose proof W as [Wv HndE _]. unfold feasible_tree.
  destruct (init_layers_total g Wv HndE Hac) as [g1 E1]. rewrite E1. cbn [bind].
  destruct (init_layers_feasible g g1 Wv HndE Hac E1) as [Hf1 L1].
  pose proof (ns_wf_lay_only L1 W) as W1.
  assert (Hne1 : g_N g1 <> []) by (rewrite (lay_only_N L1); exact Hne).
  destruct (feasible_loop_total g1 W1 Hf1 (connected_lay g g1 L1 Hc) Hne1) as [g2 E2]. rewrite E2. cbn [bind].
  destruct (feasible_loop_spanning _ g1 g2 W1 Hf1 E2) as (S2 & _ & W2).
  destruct (set_stree_values_total g2 W2 S2) as [ll E3]. rewrite E3. cbn [bind].
  eexists. eexists. reflexivity.
Qed.
Print Assumptions feasible_tree_total.

(* the iteration budget of the pivot loop as the model computes it *)
Definition ns_budget (p : nsparams) (g : graph) : Z :=
  ns_thoroughness p * (if 0 <? ns_maxiter_factor p then ns_maxiter_factor p
                       else Z.sqrt (Z.of_nat (length (g_N g)))).

Theorem exec_network_simplex_ok : forall p g,
  ns_wf g -> acyclic g -> connected g -> g_N g <> [] ->
  ns_balance p <> 2 -> ns_budget p g <= 100000 ->
  exists g', exec_network_simplex p g = Ok g'.
Proof.
  intros p g W Hac Hc Hne Hbal Hmax.
  destruct (feasible_tree_total g W Hac Hc Hne) as (g1 & ll1 & Eft).
  apply (exec_network_simplex_total p g g1 ll1 W Hac Hbal Hmax Eft).
Qed.
Print Assumptions exec_network_simplex_ok.

Lemma init_layer_slices_total : forall g, layers_nonneg g -> exists g', init_layer_slices g = Ok g'.
Proof.
  intros g H. unfold init_layer_slices.
  destruct (existsb (fun n => layer_of g n <? 0) (g_N g)) eqn:E; [|eexists; reflexivity].
  exfalso. apply existsb_exists in E. destruct E as [n [Hn Hl]]. apply Z.ltb_lt in Hl.
  specialize (H n Hn). lia.
Qed.

(* the single-node short cut of phase2 reads the layer of the input graph: so the theorem is stated for
   components with at least two nodes (as in the pipeline), or with non-negative input layers *)
Theorem phase2_ns_total : forall p g,
  ns_wf g -> acyclic g -> connected g -> (2 <= length (g_N g))%nat ->
  ns_balance p <> 2 -> ns_budget p g <= 100000 ->
  exists g', phase2 NetworkSimplex p g = Ok g'.
Proof.
  intros p g W Hac Hc Htwo Hbal Hmax. unfold phase2, assign_layers.
  assert (Hne : g_N g <> []) by (intros E; rewrite E in Htwo; cbn in Htwo; lia).
  assert (E1 : Nat.eqb (length (g_N g)) 1 = false) by (apply Nat.eqb_neq; lia).
  rewrite E1.
  destruct (exec_network_simplex_ok p g W Hac Hc Hne Hbal Hmax) as [g' E]. rewrite E. cbn [bind].
  destruct (exec_network_simplex_feasible_all p g g' W Hac E) as (_ & Hnn & _).
  apply (init_layer_slices_total g' Hnn).
Qed.
Print Assumptions phase2_ns_total.

(* ================================================================================================ *)
(* a boolean test for connectivity, and examples                                                     *)
(* ================================================================================================ *)
Definition grow_step (g : graph) (T : list nat) (e : nat) : list nat :=
  let a := e_from (gedge g e) in let b := e_to (gedge g e) in
  if mem_nat a T then (if mem_nat b T then T else b :: T)
  else if mem_nat b T then a :: T else T.

Definition grow (g : graph) (T : list nat) : list nat := fold_left (grow_step g) (g_E g) T.

Fixpoint grow_n (k : nat) (g : graph) (T : list nat) : list nat :=
  match k with O => T | S k' => grow_n k' g (grow g T) end.

Definition connectedb (g : graph) : bool :=
  forallb (fun n => mem_nat n (grow_n (length (g_N g)) g [root_of g])) (g_N g).

Lemma grow_fold_sound : forall g r l T, incl l (g_E g) -> (forall x, In x T -> econn g r x) ->
  forall x, In x (fold_left (grow_step g) l T) -> econn g r x.
Proof.
  intros g r l; induction l as [|e t IH]; intros T Hl HT x Hx; cbn [fold_left] in Hx; [apply HT; exact Hx|].
  apply (IH (grow_step g T e)); [intros y Hy; apply Hl; right; exact Hy | | exact Hx].
  assert (He : In e (g_E g)) by (apply Hl; left; reflexivity).
  intros y Hy. unfold grow_step in Hy.
  destruct (mem_nat (e_from (gedge g e)) T) eqn:Ma; destruct (mem_nat (e_to (gedge g e)) T) eqn:Mb;
    try (apply HT; exact Hy).
  - destruct Hy as [Hy|Hy]; [subst y | apply HT; exact Hy]. apply mem_nat_In in Ma.
    eapply ec_step; [apply (HT _ Ma) | exact He | left; split; reflexivity].
  - destruct Hy as [Hy|Hy]; [subst y | apply HT; exact Hy]. apply mem_nat_In in Mb.
    eapply ec_step; [apply (HT _ Mb) | exact He | right; split; reflexivity].
Qed.

Lemma grow_n_sound : forall g r k T, (forall x, In x T -> econn g r x) ->
  forall x, In x (grow_n k g T) -> econn g r x.
Proof.
  intros g r k; induction k as [|k IH]; intros T HT x Hx; cbn [grow_n] in Hx; [apply HT; exact Hx|].
  apply (IH (grow g T)); [|exact Hx]. apply (grow_fold_sound g r (g_E g) T (incl_refl _) HT).
Qed.

Lemma connectedb_ok : forall g, connectedb g = true -> connected g.
Proof.
  intros g H n Hn. unfold connectedb in H. rewrite forallb_forall in H. specialize (H n Hn).
  apply mem_nat_In in H. apply (grow_n_sound g (root_of g) (length (g_N g)) [root_of g]); [|exact H].
  intros x [Hx|[]]. subst x. apply ec_refl.
Qed.

(* ex_edges2 (Optimality.v): a 10-node DAG on which network simplex really pivots *)
Example ex_q1_hyps :
  ns_wfb (pop_graph ex_edges2) = true /\ acyclicb ex_rank2 (pop_graph ex_edges2) = true /\
  connectedb (pop_graph ex_edges2) = true /\ (2 <=? length (g_N (pop_graph ex_edges2)))%nat = true /\
  (ns_budget (mkNsParams 1 0 1) (pop_graph ex_edges2) <=? 100000) = true.
Proof. vm_compute. repeat split; reflexivity. Qed.

Example ex_q1_applied : exists g', phase2 NetworkSimplex (mkNsParams 1 0 1) (pop_graph ex_edges2) = Ok g'.
Proof.
  destruct ex_q1_hyps as (H1 & H2 & H3 & H4 & H5).
  apply phase2_ns_total.
  - apply ns_wfb_ok; exact H1.
  - apply (acyclicb_ok ex_rank2); exact H2.
  - apply connectedb_ok; exact H3.
  - apply Nat.leb_le; exact H4.
  - cbn. discriminate.
  - apply Z.leb_le; exact H5.
Qed.

(* without connectivity the Go code panics: two disjoint edges 0->1, 2->3 in one "component" *)
Example ex_q1_disconnected :
  ns_wfb (pop_graph [[0;1];[2;3]]%nat) = true /\ connectedb (pop_graph [[0;1];[2;3]]%nat) = false /\
  feasible_tree (pop_graph [[0;1];[2;3]]%nat) = Err ErrNoIncidentEdge.
Proof. vm_compute. repeat split; reflexivity. Qed.
