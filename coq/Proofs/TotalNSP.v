(* TotalNSP.v — TOTALITY of the NetworkSimplex positioner, part 1: network simplex with HORIZONTAL balancing
   (ns_balance = 2) returns Ok.
   - [adjust_layers_total]: adjust_layers descends the spanning tree; on the subtree s it needs fuel
     >= |nodes of s| (each recursive call is on a child subtree, which has fewer nodes);
   - [hb_step_total], [hbalance_total]: every step of hbalance starts adjust_layers at the root of the subtree
     below the tree edge e, with fuel S |arena| >= |N|;
   - [exec_network_simplex_ok_all], [phase2_ns_total_all]: [TotalNS.exec_network_simplex_ok] and
     [TotalNS.phase2_ns_total] without the restriction ns_balance <> 2. *)
From Autog Require Import Base Graph Populate Phase2 Optimality OptNormalize OptVbalance OptFeasible OptInit
  OptPipeline NSDefs NSFeasLoop NSTree NSLimLow NSComp NSPivot NSTotal NSHbalance TotalNS.
From Coq Require Import Lia.

(* ------------------------------------------------------------------------------------------------ *)
(* sizes of subtrees                                                                                 *)
(* ------------------------------------------------------------------------------------------------ *)
Lemma length_flat_map_in : forall A B (F : A -> list B) l p, In p l -> (length (F p) <= length (flat_map F l))%nat.
Proof.
  intros A B F l p; induction l as [|a l IH]; intros H; [destruct H|]. cbn [flat_map]. rewrite app_length.
  destruct H as [->|H]; [lia|]. specialize (IH H). lia.
Qed.

Lemma kid_smaller : forall s c, In c (rkids s) -> (length (rnodes c) < length (rnodes s))%nat.
Proof.
  intros [e n cs] c Hc. cbn [rkids] in Hc. rewrite rnodes_eq. cbn [length]. unfold fnodes.
  pose proof (length_flat_map_in _ _ rnodes cs c Hc). lia.
Qed.

(* ------------------------------------------------------------------------------------------------ *)
(* adjust_layers returns                                                                             *)
(* ------------------------------------------------------------------------------------------------ *)
Section AdjustTotal.
  Variables (gb : graph) (ll : limlow) (t : rtree).
  Hypothesis W : ns_wf gb.
  Hypothesis St : stree_of gb ll t.

  Lemma al_loop_total : forall rec (pick : edge -> nat) s, sub t s -> In (rroot s) (g_N gb) ->
    (forall c g, In c (rkids s) -> lay_only gb g -> exists g', rec (rroot c) g = Ok g' /\ lay_only gb g') ->
    forall es, incl es (all_edges gb (rroot s)) ->
      (forall e, In e es -> pick (gedge gb e) = connected_node gb e (rroot s)) ->
      forall g, lay_only gb g -> exists g', al_loop rec ll (rroot s) pick es g = Ok g' /\ lay_only gb g'.
  Proof.
    intros rec pick s Hs HnN Hrec. set (n := rroot s) in *.
    intros es; induction es as [|e es IH]; intros Hes Hpick g L.
    - exists g. split; [reflexivity | exact L].
    - cbn [al_loop]. fold (al_loop rec ll n pick).
      assert (Hes' : incl es (all_edges gb n)) by (intros x Hx; apply Hes; right; exact Hx).
      assert (Hpick' : forall x, In x es -> pick (gedge gb x) = connected_node gb x n) by (intros x Hx; apply Hpick; right; exact Hx).
      assert (Eg : gedge g e = gedge gb e) by (apply (lay_only_gedge L)).
      assert (Ec : connected_node g e n = connected_node gb e n) by (unfold connected_node; rewrite Eg; reflexivity).
      rewrite Eg, Ec.
      destruct (e_tree (gedge gb e)) eqn:Et; cbn [negb]; [|apply (IH Hes' Hpick' g L)].
      destruct (lim_of ll n <? lim_of ll (connected_node gb e n)) eqn:Elt; cbn [negb]; [apply (IH Hes' Hpick' g L)|].
      destruct (down_edge_kid gb ll t W St s e Hs HnN (Hes e (or_introl eq_refl)) Et Elt) as [c [Hc Hce]].
      destruct (kid_facts gb ll t W St s c Hs Hc) as (_ & _ & K3 & _). fold n in K3. rewrite Hce in K3.
      rewrite (Hpick e (or_introl eq_refl)), K3.
      destruct (Hrec c g Hc L) as (g1 & Er & L1). rewrite Er. cbn [bind].
      apply (IH Hes' Hpick' g1 L1).
  Qed.

  Theorem adjust_layers_total : forall fuel s delta g, sub t s -> lay_only gb g ->
    (length (rnodes s) <= fuel)%nat ->
    exists g', adjust_layers fuel ll (rroot s) delta g = Ok g' /\ lay_only gb g'.
  Proof.
    induction fuel as [|f IH]; intros s delta g Hs L Hlen.
    - exfalso. destruct s as [e n cs]. rewrite rnodes_eq in Hlen. cbn [length] in Hlen. lia.
    - rewrite adjust_layers_S. cbv zeta.
      set (n := rroot s) in *.
      set (g0 := upd_node g n (fun nd => set_layer (n_layer nd - delta) nd)) in *.
      assert (HnN : In n (g_N gb)).
      { apply (so_nodes _ _ _ St). apply (sub_nodes t s Hs). apply rroot_in. }
      pose proof W as [[[HndN HrN] Ein A] HndE Hnl].
      destruct (A n HnN) as (Ain & Aout & _ & _).
      assert (L0 : lay_only g g0) by (exact (lay_only_upd_node g n (fun nd => n_layer nd - delta))).
      assert (Lb0 : lay_only gb g0) by (eapply lay_only_trans; eassumption).
      assert (Hrec : forall c g1, In c (rkids s) -> lay_only gb g1 ->
                       exists g2, adjust_layers f ll (rroot c) delta g1 = Ok g2 /\ lay_only gb g2).
      { intros c g1 Hc L1. apply (IH c delta g1 (sub_kid_sub t s c Hs Hc) L1).
        pose proof (kid_smaller s c Hc). lia. }
      rewrite (lay_only_out Lb0 n).
      destruct (al_loop_total (fun m g => adjust_layers f ll m delta g) e_to s Hs HnN Hrec
                  (n_out (gnode gb n))) with (g := g0) as (g1 & E1 & Lb1).
      { intros e He. unfold all_edges. apply in_or_app. right. exact He. }
      { intros e He. apply Aout in He. destruct He as [HeE Hf]. unfold connected_node.
        assert (E : Nat.eqb (e_to (gedge gb e)) n = false).
        { apply Nat.eqb_neq. intros Heq. apply (Hnl e HeE). congruence. }
        fold n. rewrite E. reflexivity. }
      { exact Lb0. }
      fold n in E1. rewrite E1. cbn [bind].
      rewrite (lay_only_in Lb1 n).
      destruct (al_loop_total (fun m g => adjust_layers f ll m delta g) e_from s Hs HnN Hrec
                  (n_in (gnode gb n))) with (g := g1) as (g2 & E2 & Lb2).
      { intros e He. unfold all_edges. apply in_or_app. left. exact He. }
      { intros e He. apply Ain in He. destruct He as [HeE Ht]. unfold connected_node. fold n.
        rewrite Ht, Nat.eqb_refl. reflexivity. }
      { exact Lb1. }
      fold n in E2. exists g2. split; assumption.
  Qed.
End AdjustTotal.

(* ------------------------------------------------------------------------------------------------ *)
(* hbalance returns                                                                                  *)
(* ------------------------------------------------------------------------------------------------ *)
Lemma hb_step_total : forall ll g e, hb_inv ll g -> In e (g_E g) -> exists g', hb_step ll (Ok g) e = Ok g'.
Proof.
  intros ll g e I He. unfold hb_step. cbn [bind].
  destruct (e_tree (gedge g e)) eqn:Et; cbn [negb]; [|eexists; reflexivity].
  destruct (e_cut (gedge g e) =? 0); [|eexists; reflexivity].
  destruct (min_slack_non_tree_edge g ll e) as [f|] eqn:Em; [|eexists; reflexivity].
  cbv zeta. destruct (slack g f <? 1) eqn:Ed; [eexists; reflexivity|].
  destruct I as [W Sp Hfeas Hll]. pose proof W as [[[HndN HrN] Ein A] HndE Hnl].
  destruct (stree_exists g ll W Sp Hll) as [t St].
  destruct (link_of_tree_edge g ll t St e He Et) as [p [c [Hl Hec]]]. subst e.
  destruct (link_ends g ll t St p c Hl) as (Hpr & HpN & HrN' & _ & _ & _ & _ & Hj).
  pose proof (so_lt _ _ _ St p c Hl) as Hlt.
  assert (Hsub : sub t c) by (right; exists p; exact Hl).
  assert (Hlen : (length (rnodes c) <= S (length (g_na g)))%nat).
  { assert (Hnd : NoDup (rnodes c)) by (apply (sub_nodup t c (so_nd _ _ _ St) Hsub)).
    assert (Hr : forall n, In n (rnodes c) -> (n < length (g_na g))%nat).
    { intros n Hn. apply HrN. apply (so_nodes _ _ _ St). apply (sub_nodes t c Hsub). exact Hn. }
    pose proof (NoDup_lt_length (rnodes c) (length (g_na g)) Hnd Hr). lia. }
  destruct (lim_of ll (e_from (gedge g (redge c))) <? lim_of ll (e_to (gedge g (redge c)))) eqn:Elt.
  - apply Z.ltb_lt in Elt.
    assert (J1 : e_from (gedge g (redge c)) = rroot c).
    { destruct Hj as [[J1 J2]|[J1 J2]]; [rewrite J1, J2 in Elt; lia | exact J1]. }
    rewrite J1.
    destruct (adjust_layers_total g ll t W St (S (length (g_na g))) c (slack g f) g Hsub (lay_only_refl g) Hlen)
      as (g' & E & _).
    exists g'. exact E.
  - apply Z.ltb_ge in Elt.
    assert (J2 : e_to (gedge g (redge c)) = rroot c).
    { destruct Hj as [[J1 J2]|[J1 J2]]; [exact J2 | rewrite J1, J2 in Elt; lia]. }
    rewrite J2.
    destruct (adjust_layers_total g ll t W St (S (length (g_na g))) c (- slack g f) g Hsub (lay_only_refl g) Hlen)
      as (g' & E & _).
    exists g'. exact E.
Qed.

Lemma hb_fold_total : forall ll l g, hb_inv ll g -> incl l (g_E g) ->
  exists g', fold_left (hb_step ll) l (Ok g) = Ok g'.
Proof.
  intros ll l; induction l as [|e l IH]; intros g I Hl; cbn [fold_left].
  - exists g. reflexivity.
  - destruct (hb_step_total ll g e I (Hl e (or_introl eq_refl))) as [g1 E1]. rewrite E1.
    destruct (hb_step_inv ll g e g1 I (Hl e (or_introl eq_refl)) E1) as [I1 L1].
    apply (IH g1 I1). rewrite (lay_only_E L1). intros x Hx. apply Hl. right. exact Hx.
Qed.

Theorem hbalance_total : forall g ll,
  ns_wf g -> spanning_tree g -> feasible g -> set_stree_values g = Ok ll ->
  exists g', hbalance g ll = Ok g'.
Proof.
  intros g ll W S Hf Hll. rewrite hbalance_eq.
  apply (hb_fold_total ll (g_E g) g (mkHbInv ll g W S Hf Hll) (incl_refl _)).
Qed.
Print Assumptions hbalance_total.

(* ------------------------------------------------------------------------------------------------ *)
(* network simplex and phase 2, for every value of ns_balance                                        *)
(* ------------------------------------------------------------------------------------------------ *)
Theorem exec_network_simplex_total_all : forall p g g1 ll1,
  ns_wf g -> acyclic g -> ns_budget p g <= 100000 ->
  feasible_tree g = Ok (g1, ll1) ->
  exists g', exec_network_simplex p g = Ok g'.
Proof.
  intros p g g1 ll1 W Hac Hmax Eft.
  destruct (Z.eq_dec (ns_balance p) 2) as [E2|E2]; [|apply (exec_network_simplex_total p g g1 ll1 W Hac E2 Hmax Eft)].
  unfold exec_network_simplex, exec_network_simplex_capped.
  rewrite Eft. cbn [bind].
  destruct (feasible_tree_inv g g1 ll1 W Hac Eft) as [I1 F1].
  assert (EN : g_N g1 = g_N g) by (apply (nf_N _ _ F1)). rewrite EN.
  unfold ns_budget in Hmax.
  set (maxitr := ns_thoroughness p * (if 0 <? ns_maxiter_factor p then ns_maxiter_factor p
                                      else Z.sqrt (Z.of_nat (length (g_N g))))) in *.
  destruct (model_pivot_loop_total maxitr g1 ll1 I1 Hmax) as (g2 & ll2 & b & Epl). rewrite Epl. cbn [bind].
  destruct (pivot_loop_inv _ _ _ _ _ _ _ _ I1 Epl) as [[W2 S2 Hf2 _ Hll2] F2].
  pose proof W2 as [[Wn2 Ein2 A2] _ _].
  destruct (normalize_layers g2 Wn2) as (L3 & _ & _).
  assert (Hf3 : feasible (normalize g2)).
  { intros e He. rewrite (lay_only_E L3) in He. rewrite (normalize_slack g2 Wn2 Ein2 e He). apply Hf2. exact He. }
  rewrite E2. cbn [Z.eqb Pos.eqb].
  pose proof (hb_inv_lay_only ll2 g2 (normalize g2) L3 Hf3 (mkHbInv ll2 g2 W2 S2 Hf2 Hll2)) as [W3 S3 _ Hll3].
  destruct (hbalance_total (normalize g2) ll2 W3 S3 Hf3 Hll3) as [g4 Eh]. rewrite Eh. cbn [bind].
  eexists. reflexivity.
Qed.

Theorem exec_network_simplex_ok_all : forall p g,
  ns_wf g -> acyclic g -> connected g -> g_N g <> [] -> ns_budget p g <= 100000 ->
  exists g', exec_network_simplex p g = Ok g'.
Proof.
  intros p g W Hac Hc Hne Hmax.
  destruct (feasible_tree_total g W Hac Hc Hne) as (g1 & ll1 & Eft).
  apply (exec_network_simplex_total_all p g g1 ll1 W Hac Hmax Eft).
Qed.
Print Assumptions exec_network_simplex_ok_all.

Theorem phase2_ns_total_all : forall p g,
  ns_wf g -> acyclic g -> connected g -> (2 <= length (g_N g))%nat -> ns_budget p g <= 100000 ->
  exists g', phase2 NetworkSimplex p g = Ok g'.
Proof.
  intros p g W Hac Hc Htwo Hmax. unfold phase2, assign_layers.
  assert (Hne : g_N g <> []) by (intros E; rewrite E in Htwo; cbn in Htwo; lia).
  assert (E1 : Nat.eqb (length (g_N g)) 1 = false) by (apply Nat.eqb_neq; lia).
  rewrite E1.
  destruct (exec_network_simplex_ok_all p g W Hac Hc Hne Hmax) as [g' E]. rewrite E. cbn [bind].
  destruct (exec_network_simplex_feasible_all p g g' W Hac E) as (_ & Hnn & _).
  apply (init_layer_slices_total g' Hnn).
Qed.
Print Assumptions phase2_ns_total_all.

(* the hypotheses are satisfiable: ex_edges2 (Optimality.v), a 10-node DAG on which network simplex pivots,
   now with horizontal balancing *)
Example ex_balance2_applied : exists g', phase2 NetworkSimplex (mkNsParams 1 10 2) (pop_graph ex_edges2) = Ok g'.
Proof.
  destruct ex_q1_hyps as (H1 & H2 & H3 & H4 & _).
  apply phase2_ns_total_all.
  - apply ns_wfb_ok; exact H1.
  - apply (acyclicb_ok ex_rank2); exact H2.
  - apply connectedb_ok; exact H3.
  - apply Nat.leb_le; exact H4.
  - vm_compute. discriminate.
Qed.
