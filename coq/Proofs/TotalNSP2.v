(* TotalNSP2.v — TOTALITY (C01, "Layout always returns") of the pipeline with the NetworkSimplex POSITIONER.
   Part 1 is TotalNSP.v (network simplex with horizontal balancing returns).
   S1  the auxiliary graph is CONNECTED when the laid-out component is ([aux_graph_connected]): original nodes
       that are neighbours in a band are joined by a separation edge, the two ends of a proper (not flat, not a
       self loop) edge are joined through the auxiliary node of that edge, and every auxiliary edge node hangs on an
       original node;
   S2  [exec_ns_positioner_total]: nsp_wf g, nsp_connected g, N <> [], thoroughness * |N| <= 100000;
   S3  connectivity survives the pipeline up to phase 4 ([connected_p2_post], [connected_break],
       [stage_nsp_connected]);
   S4  [layout_component_total'] (budget hypothesis [p4_ready] over the intermediate state);
   S5  [layout_total'] (budget hypothesis over the components, [nsp_budget_ok]);
   S6  |N3| <= |N| + |E| * |N| ([nodes_after_break]: no band of the layering is empty, [phase2_no_empty_band], so
       there are at most |N| bands, and every edge gets at most that many helper nodes, [break_count]); hence
       [p4_ready_of_input], [layout_component_total'_input];
   S7  [layout_total'_input]: every side condition on the input of Layout;
   S8  a boolean test for [nsp_connected], examples (also: connectivity is necessary, [sx_disc_fails]). *)
From Autog Require Import Base Graph Phase2 Phase4 Positioners SinkColoringProofs.
From Autog Require Import OptNormalize OptVbalance OptFeasible OptInit NSDefs NSHbalance NSPositioner TotalNS TotalNSP.
From Autog Require ListLemmas.
From Coq Require Import Lia.
Local Open Scope nat_scope.

(* ====================================================================================================== *)
(** * 1. The auxiliary graph is connected                                                                  *)
(* ====================================================================================================== *)

Lemma econn_trans : forall g a b c, econn g a b -> econn g b c -> econn g a c.
Proof.
  intros g a b c Hab Hbc. induction Hbc as [|b x y e Hbx IH He Hj]; [exact Hab|].
  eapply ec_step; [apply IH; exact Hab | exact He | exact Hj].
Qed.

Lemma econn_edge : forall g a b e, In e (g_E g) -> joins g e a b -> econn g a b.
Proof. intros g a b e He Hj. eapply ec_step; [apply ec_refl | exact He | exact Hj]. Qed.

Lemma econn_sym : forall g a b, econn g a b -> econn g b a.
Proof.
  intros g a b H. induction H as [|a b c e Hab IH He Hj]; [apply ec_refl|].
  eapply econn_trans; [|exact IH]. apply (econn_edge g c b e He). apply joins_sym. exact Hj.
Qed.

(* connection in the ordered, layered component, as the auxiliary graph sees it: along an edge that is neither
   flat nor a self loop, or between two nodes of the same band.  (An end of an edge that is not in the node list
   is mapped to auxiliary node 0 by the model, the node of the root; so nothing is required of the ends.) *)
Definition proper_edge (g : graph) (e : nat) : Prop := (self_loop g e || is_flat g e)%bool = false.

Inductive pconn (g : graph) : nat -> nat -> Prop :=
| pc_refl : forall a, pconn g a a
| pc_edge : forall a b c e, pconn g a b -> In e (g_E g) -> proper_edge g e -> joins g e b c -> pconn g a c
| pc_band : forall a b c l, pconn g a b -> In l (g_L g) -> In b (l_nodes l) -> In c (l_nodes l) -> pconn g a c.

Definition nsp_connected (g : graph) : Prop := forall n, In n (g_N g) -> pconn g (root_of g) n.

Lemma has_edge_econn : forall k rank a u v d, aux_inv k rank a -> has_edge a u v d -> econn a u v.
Proof.
  intros k rank a u v d I (f & Hf & A & B & _). apply (econn_edge a u v f).
  - rewrite (axi_E _ _ _ I). apply nsp_in_iota. exact Hf.
  - left. split; assumption.
Qed.

Lemma add_node_na_len : forall a, length (g_na (add_node a)) = S (length (g_na a)).
Proof. intros a. unfold add_node. cbn [with_N with_na g_na]. rewrite app_length. cbn [length]. lia. Qed.

Lemma edge_add_na_len : forall a u v w, u < length (g_na a) -> v < length (g_na a) ->
  length (g_na (edge_add a u v w)) = S (length (g_na a)).
Proof.
  intros a u v w Hu Hv. rewrite edge_add_eq by assumption. rewrite !add_edge_na_len. apply add_node_na_len.
Qed.

Lemma edge_add_new : forall a u v w, u < length (g_na a) -> v < length (g_na a) ->
  has_edge (edge_add a u v w) (length (g_na a)) u 0 /\ has_edge (edge_add a u v w) (length (g_na a)) v 0.
Proof.
  intros a u v w Hu Hv. rewrite edge_add_eq by assumption. split.
  - apply has_edge_add_edge_old. apply has_edge_add_edge_new.
  - apply has_edge_add_edge_new.
Qed.

Lemma sep_fold_na_len : forall s g ns a prev,
  length (g_na (fst (fold_left (sep_step s g) ns (a, prev)))) = length (g_na a).
Proof.
  intros s g ns; induction ns as [|x t IH]; intros a prev; cbn [fold_left]; [reflexivity|].
  destruct prev as [q|]; cbn [sep_step]; rewrite IH; [apply add_edge_na_len | reflexivity].
Qed.

Lemma sep_layers_na_len : forall s g ls a, length (g_na (fold_left (sep_layer s g) ls a)) = length (g_na a).
Proof.
  intros s g ls; induction ls as [|l t IH]; intros a; cbn [fold_left]; [reflexivity|].
  rewrite IH. unfold sep_layer. apply sep_fold_na_len.
Qed.

(* every auxiliary node beyond the original ones hangs on an original node *)
Definition hangs (k : nat) (a : graph) : Prop :=
  forall x, k <= x < length (g_na a) -> exists u d, u < k /\ has_edge a x u d.

Section AuxConn.
  Variable f : Z.
  Variable s : Q.
  Variable g : graph.
  Hypothesis Hwf : layers_wf g.
  Hypothesis HND : NoDup (g_N g).
  Hypothesis HLN : forall n, in_layers g n -> In n (g_N g).
  Hypothesis Hne : g_N g <> [].

  Let k := length (g_N g).
  Let rank := aux_rank g.

  Lemma edge_fold_conn : forall es a, aux_inv k rank a -> hangs k a ->
    let a' := fold_left (edge_step f g) es a in
    aux_inv k rank a' /\ hangs k a' /\
    (forall u v d, has_edge a u v d -> has_edge a' u v d) /\
    (forall e, In e es -> proper_edge g e ->
       exists x, has_edge a' x (ns_idx g (e_from (gedge g e))) 0 /\ has_edge a' x (ns_idx g (e_to (gedge g e))) 0).
  Proof.
    induction es as [|e t IH]; intros a I Q; cbn [fold_left].
    - split; [exact I|]. split; [exact Q|]. split; [auto|]. intros e [].
    - destruct (self_loop g e || is_flat g e)%bool eqn:Ep.
      + assert (Es : edge_step f g a e = a) by (unfold edge_step; rewrite Ep; reflexivity). rewrite Es.
        destruct (IH a I Q) as (J1 & J2 & J3 & J4). split; [exact J1|]. split; [exact J2|]. split; [exact J3|].
        intros e' [<-|He'] Hp; [unfold proper_edge in Hp; congruence | apply J4; assumption].
      + set (u := ns_idx g (e_from (gedge g e))). set (v := ns_idx g (e_to (gedge g e))).
        set (w := (e_weight (gedge g e) * omega g e * f)%Z).
        assert (Es : edge_step f g a e = edge_add a u v w) by (unfold edge_step; rewrite Ep; reflexivity). rewrite Es.
        assert (Hu : u < k) by (apply ns_idx_lt_any; assumption).
        assert (Hv : v < k) by (apply ns_idx_lt_any; assumption).
        pose proof (axi_k _ _ _ I) as Hk.
        destruct (edge_add_inv g a u v w I Hu Hv) as [I1 M1].
        destruct (edge_add_new a u v w) as [N1 N2]; [lia|lia|].
        assert (Q1 : hangs k (edge_add a u v w)).
        { intros x Hx. rewrite edge_add_na_len in Hx by lia.
          destruct (Nat.eq_dec x (length (g_na a))) as [->|Hne'].
          - exists u, 0%Z. split; [exact Hu | exact N1].
          - destruct (Q x) as (u' & d' & Hu' & He'); [lia|]. exists u', d'. split; [exact Hu' | apply M1; exact He']. }
        destruct (IH (edge_add a u v w) I1 Q1) as (J1 & J2 & J3 & J4).
        split; [exact J1|]. split; [exact J2|]. split; [intros u' v' d' H; apply J3, M1, H|].
        intros e' [<-|He'] Hp; [|apply J4; assumption].
        exists (length (g_na a)). split; apply J3; assumption.
  Qed.

  Let a := aux_graph f s g.

  Lemma aux_conn_facts :
    aux_inv k rank a /\ hangs k a /\
    (forall e, In e (g_E g) -> proper_edge g e ->
       exists x, has_edge a x (ns_idx g (e_from (gedge g e))) 0 /\ has_edge a x (ns_idx g (e_to (gedge g e))) 0) /\
    (forall l p n, In l (g_L g) -> consec (l_nodes l) p n ->
       has_edge a (ns_idx g p) (ns_idx g n) (sep_delta s g p n)).
  Proof.
    unfold a. rewrite aux_graph_eq.
    assert (Q0 : hangs k (aux_base g)).
    { intros x Hx. exfalso. unfold aux_base in Hx. cbn [g_na] in Hx. rewrite map_length in Hx. unfold k in Hx. lia. }
    destruct (edge_fold_conn (g_E g) (aux_base g) (aux_base_inv g) Q0) as (J1 & J2 & _ & J4).
    cbv zeta in J1, J2, J4.
    set (a1 := fold_left (edge_step f g) (g_E g) (aux_base g)) in *.
    destruct (sep_layers_spec s g Hwf HLN (g_L g) a1 (fun l H => H) J1) as (K1 & K2 & K3).
    cbv zeta in K1, K2, K3.
    split; [exact K1|]. split; [|split].
    - intros x Hx. rewrite sep_layers_na_len in Hx. destruct (J2 x Hx) as (u & d & Hu & He).
      exists u, d. split; [exact Hu | apply K2; exact He].
    - intros e He Hp. destruct (J4 e He Hp) as (x & H1 & H2). exists x. split; apply K2; assumption.
    - exact K3.
  Qed.

  (* two nodes of a list whose neighbours are related by an equivalence are related *)
  Lemma chain_related : forall (R : nat -> nat -> Prop),
    (forall x, R x x) -> (forall x y, R x y -> R y x) -> (forall x y z, R x y -> R y z -> R x z) ->
    forall ns, (forall p n, consec ns p n -> R p n) -> forall b c, In b ns -> In c ns -> R b c.
  Proof.
    intros R Rr Rs Rt ns; induction ns as [|x t IH]; intros Hc b c Hb Hcn; [destruct Hb|].
    assert (IH' : forall b c, In b t -> In c t -> R b c).
    { apply IH. intros p n Hpn. apply Hc. apply consec_cons. exact Hpn. }
    assert (Hx : forall c, In c t -> R x c).
    { intros c0 Hc0. destruct t as [|y t']; [destruct Hc0|].
      apply (Rt x y c0); [apply Hc; exists 0; split; reflexivity | apply IH'; [left; reflexivity | exact Hc0]]. }
    destruct Hb as [<-|Hb]; destruct Hcn as [<-|Hcn].
    - apply Rr.
    - apply Hx, Hcn.
    - apply Rs, Hx, Hb.
    - apply IH'; assumption.
  Qed.

  Lemma ns_idx_nth : forall x, x < k -> ns_idx g (nth x (g_N g) 0) = x.
  Proof.
    intros x Hx. unfold ns_idx.
    destruct (nth_split (g_N g) 0 Hx) as (l1 & l2 & E & Hl). fold k in Hx.
    set (y := nth x (g_N g) 0) in *.
    assert (Hy : ~ In y l1).
    { pose proof HND as H. rewrite E in H. apply NoDup_remove_2 in H. intros Hin. apply H. apply in_or_app. left. exact Hin. }
    rewrite E. rewrite (nsp_index_of_app y l1 l2 Hy). exact Hl.
  Qed.

  Lemma ns_idx_root : ns_idx g (root_of g) = 0.
  Proof.
    unfold ns_idx, root_of. destruct (g_N g) as [|r t]; [contradiction|]. cbn [hd index_of]. rewrite Nat.eqb_refl. reflexivity.
  Qed.

  Theorem aux_graph_connected_sec : nsp_connected g -> connected a.
  Proof.
    intros Hc.
    destruct aux_conn_facts as (I & Q & HE & HS).
    assert (Hk0 : 0 < k) by (unfold k; destruct (g_N g); [contradiction | cbn; lia]).
    pose proof (axi_k _ _ _ I) as Hk.
    assert (Hroot : root_of a = 0).
    { unfold root_of. rewrite (axi_N _ _ _ I). destruct (length (g_na a)); [lia | reflexivity]. }
    (* bands *)
    assert (HB : forall l b c, In l (g_L g) -> In b (l_nodes l) -> In c (l_nodes l) ->
                   econn a (ns_idx g b) (ns_idx g c)).
    { intros l b c Hl Hb Hcn.
      apply (chain_related (fun x y => econn a (ns_idx g x) (ns_idx g y))) with (ns := l_nodes l); try assumption.
      - intros x. apply ec_refl.
      - intros x y. apply econn_sym.
      - intros x y z. apply econn_trans.
      - intros p n Hpn. apply (has_edge_econn k rank a _ _ _ I (HS l p n Hl Hpn)). }
    (* paths of the component *)
    assert (HP : forall x y, pconn g x y -> econn a (ns_idx g x) (ns_idx g y)).
    { intros x y H. induction H as [x|x b c e Hxb IH He Hp Hj|x b c l Hxb IH Hl Hb Hcn].
      - apply ec_refl.
      - eapply econn_trans; [exact IH|].
        destruct (HE e He Hp) as (z & H1 & H2).
        pose proof (has_edge_econn k rank a _ _ _ I H1) as C1. pose proof (has_edge_econn k rank a _ _ _ I H2) as C2.
        destruct Hj as [[J1 J2]|[J1 J2]]; rewrite J1 in C1; rewrite J2 in C2.
        + eapply econn_trans; [apply econn_sym; exact C1 | exact C2].
        + eapply econn_trans; [apply econn_sym; exact C2 | exact C1].
      - eapply econn_trans; [exact IH|]. apply (HB l b c Hl Hb Hcn). }
    (* original nodes *)
    assert (HO : forall x, x < k -> econn a 0 x).
    { intros x Hx. rewrite <- (ns_idx_nth x Hx). rewrite <- ns_idx_root. apply HP. apply Hc.
      apply nth_In. exact Hx. }
    intros n Hn. rewrite Hroot. rewrite (axi_N _ _ _ I) in Hn. apply nsp_in_iota in Hn.
    destruct (Nat.lt_ge_cases n k) as [Hlt|Hge]; [apply HO; exact Hlt|].
    destruct (Q n) as (u & d & Hu & He); [lia|].
    eapply econn_trans; [apply (HO u Hu)|]. apply econn_sym. apply (has_edge_econn k rank a _ _ _ I He).
  Qed.
End AuxConn.

Theorem aux_graph_connected : forall f s g,
  nsp_wf g -> g_N g <> [] -> nsp_connected g -> connected (aux_graph f s g).
Proof. intros f s g [H1 H2 H3] H4 Hc. apply aux_graph_connected_sec; assumption. Qed.
Print Assumptions aux_graph_connected.

Lemma aux_graph_N_len : forall f s g, nsp_wf g -> g_N g <> [] ->
  length (g_N g) <= length (g_N (aux_graph f s g)).
Proof.
  intros f s g [H1 H2 H3] H4. destruct (aux_graph_inv f s g H1 H3 H4) as [I _].
  rewrite (axi_N _ _ _ I), SinkColoringProofs.length_iota. apply (axi_k _ _ _ I).
Qed.

(* every node of the auxiliary graph starts in layer 0 (used only for a component with a single node, where phase 2
   skips network simplex and reads the layers of its input) *)
Definition lay0 (a : graph) : Prop := forall n, layer_of a n = 0%Z.

Lemma lay0_upd_node : forall a u F, (forall nd, n_layer (F nd) = n_layer nd) -> lay0 a -> lay0 (upd_node a u F).
Proof.
  intros a u F HF H n. unfold layer_of. rewrite OptNormalize.gnode_upd_node.
  destruct (Nat.eqb n u && Nat.ltb n (length (g_na a)))%bool; [rewrite HF|]; apply H.
Qed.

Lemma lay0_snoc : forall a x (a' : graph), g_na a' = g_na a ++ [x] -> n_layer x = 0%Z -> lay0 a -> lay0 a'.
Proof.
  intros a x a' E Hx H n. unfold layer_of, gnode. rewrite E.
  destruct (Nat.lt_ge_cases n (length (g_na a))) as [L|L].
  - rewrite app_nth1 by exact L. apply H.
  - rewrite app_nth2 by exact L. destruct (n - length (g_na a)) as [|[|m]]; [exact Hx | reflexivity | reflexivity].
Qed.

Lemma lay0_same_na : forall a (a' : graph), g_na a' = g_na a -> lay0 a -> lay0 a'.
Proof. intros a a' E H n. unfold layer_of, gnode. rewrite E. apply H. Qed.

Lemma lay0_add_edge : forall a u v d w, lay0 a -> lay0 (add_edge a u v d w).
Proof.
  intros a u v d w H. unfold add_edge. cbv zeta.
  apply lay0_upd_node; [intros nd; reflexivity|]. apply lay0_upd_node; [intros nd; reflexivity|].
  apply (lay0_same_na a); [reflexivity | exact H].
Qed.

Lemma lay0_edge_add : forall a u v w, lay0 a -> lay0 (edge_add a u v w).
Proof.
  intros a u v w H. unfold edge_add. cbv zeta.
  apply lay0_upd_node; [intros nd; reflexivity|]. apply lay0_upd_node; [intros nd; reflexivity|].
  eapply (lay0_snoc a); [reflexivity | reflexivity | exact H].
Qed.

Lemma lay0_aux_graph : forall f s g, lay0 (aux_graph f s g).
Proof.
  intros f s g. rewrite aux_graph_eq.
  assert (B : lay0 (aux_base g)).
  { intros n. unfold layer_of, gnode, aux_base. cbn [g_na]. generalize (g_N g). intros l. revert n.
    induction l as [|x t IH]; intros [|n]; cbn [map nth]; try reflexivity. apply IH. }
  assert (E : forall es a, lay0 a -> lay0 (fold_left (edge_step f g) es a)).
  { induction es as [|e t IH]; intros a H; cbn [fold_left]; [exact H|]. apply IH. unfold edge_step.
    destruct (self_loop g e || is_flat g e)%bool; [exact H | apply lay0_edge_add; exact H]. }
  assert (S1 : forall ns a prev, lay0 a -> lay0 (fst (fold_left (sep_step s g) ns (a, prev)))).
  { induction ns as [|x t IH]; intros a prev H; cbn [fold_left]; [exact H|].
    destruct prev as [q|]; cbn [sep_step]; apply IH; [apply lay0_add_edge; exact H | exact H]. }
  assert (S2 : forall ls a, lay0 a -> lay0 (fold_left (sep_layer s g) ls a)).
  { induction ls as [|l t IH]; intros a H; cbn [fold_left]; [exact H|]. apply IH. unfold sep_layer. apply S1, H. }
  apply S2, E, B.
Qed.

(* ====================================================================================================== *)
(** * 2. The positioner returns                                                                            *)
(* ====================================================================================================== *)

(* the side conditions: the component is well formed ([nsp_wf]: bands duplicate free and within the arena, node
   list duplicate free, band nodes are in the node list), not empty, connected through proper edges and bands, and
   the pivot budget thoroughness * |N| (the positioner passes |N| as the iteration factor) stays below the fuel cap
   of the model's pivot loop.  Nothing is assumed about the sign of the thoroughness, the factor, the spacing or the
   sizes. *)
Theorem exec_ns_positioner_total : forall th f s g,
  nsp_wf g -> nsp_connected g -> g_N g <> [] ->
  (th * Z.of_nat (length (g_N g)) <= 100000)%Z ->
  exists g', exec_ns_positioner th f s g = Ok g'.
Proof.
  intros th f s g W Hc Hne Hbud. rewrite exec_ns_positioner_eq.
  assert (Hpos : 0 < length (g_N g)) by (destruct (g_N g); [contradiction | cbn; lia]).
  assert (P2 : exists a, assign_layers NetworkSimplex (ns_params th g) (aux_graph f s g) = Ok a).
  { destruct (Nat.le_gt_cases 2 (length (g_N (aux_graph f s g)))) as [TWO|SMALL].
    - cut (exists a', phase2 NetworkSimplex (ns_params th g) (aux_graph f s g) = Ok a').
      { intros [a' Ea']. unfold phase2 in Ea'.
        destruct (assign_layers NetworkSimplex (ns_params th g) (aux_graph f s g)) as [a|er];
          [eexists; reflexivity|discriminate]. }
      apply phase2_ns_total_all.
      + apply aux_graph_ns_wf; assumption.
      + apply aux_graph_acyclic; assumption.
      + apply aux_graph_connected; assumption.
      + exact TWO.
      + unfold ns_budget, ns_params. cbn [ns_thoroughness ns_maxiter_factor].
        assert (E : (0 <? Z.of_nat (length (g_N g)))%Z = true) by (apply Z.ltb_lt; lia). rewrite E. exact Hbud.
    - (* a single auxiliary node: assign_layers skips network simplex *)
      pose proof (aux_graph_N_len f s g W Hne) as Hk.
      assert (E1 : Nat.eqb (length (g_N (aux_graph f s g))) 1 = true) by (apply Nat.eqb_eq; lia).
      unfold assign_layers. rewrite E1. eexists. reflexivity. }
  destruct P2 as [a E]. rewrite E. cbn [bind]. eexists. reflexivity.
Qed.
Print Assumptions exec_ns_positioner_total.

(* ====================================================================================================== *)
(** * 3. Connectivity survives the pipeline up to phase 4                                                  *)
(* ====================================================================================================== *)
From Autog Require Import Populate Phase1 Phase3 Phase5 Layout Wmedian Pipeline.
From Autog.Proofs Require Import ListLemmas Consistent SelfLoopProofs ComponentsProofs.
From Autog.Proofs Require CBBase CBGreedy CBGreedyRanks CBDepthFirst CBHasCycles CycleBreaking LongestPath
                          OptPipeline WmedianProofs.
From Autog.Proofs Require Import Routes BreakMerge E2EBridge E2EBackbone E2EOutput E2EFrontend NSBridge WholeBridge.
From Autog.Proofs Require TotalWmedian TotalSink PopulateProofs SizesProofs Summary NSOptFinal.
From Autog.Proofs Require Import TotalPipeline.
From Coq Require Import Permutation Lqa.
Local Open Scope nat_scope.

Lemma econn_map : forall g g' a b, g_E g' = g_E g ->
  (forall e, e_from (gedge g' e) = e_from (gedge g e) /\ e_to (gedge g' e) = e_to (gedge g e)) ->
  econn g a b -> econn g' a b.
Proof.
  intros g g' a b HE Hed H. induction H as [|a b c e Hab IH He Hj]; [apply ec_refl|].
  eapply ec_step; [exact IH | rewrite HE; exact He |]. unfold joins in *. destruct (Hed e) as [-> ->]. exact Hj.
Qed.

Lemma connected_p2_post : forall g1 g2, p2_post g1 g2 -> connected g1 -> connected g2.
Proof.
  intros g1 g2 PP Hc n Hn. unfold root_of. rewrite (p2_N _ _ PP). rewrite (p2_N _ _ PP) in Hn.
  apply (econn_map g1 g2); [apply (p2_E _ _ PP) | | apply Hc; exact Hn].
  intros e. destruct (edge_eq_tc_fields _ _ (p2_edge _ _ PP e)) as (A & B & _). split; assumption.
Qed.

(* the chain that replaces a long edge connects its source with its target and with every helper node *)
Lemma chain_econn : forall g vs fs e t, chain g e vs fs t -> In e (g_E g) -> incl fs (g_E g) ->
  econn g (e_from (gedge g e)) t /\ forall v, In v vs -> econn g (e_from (gedge g e)) v.
Proof.
  intros g vs; induction vs as [|v vs IH]; intros [|f fs] e t H He Hfs; cbn [chain] in H; try tauto.
  - destruct H as (E1 & _). split; [|intros v []].
    apply (econn_edge g _ _ e He). left. split; [reflexivity | exact E1].
  - destruct H as (E1 & _ & _ & _ & _ & _ & E2 & _ & H).
    assert (Hv : econn g (e_from (gedge g e)) v).
    { apply (econn_edge g _ _ e He). left. split; [reflexivity | exact E1]. }
    destruct (IH fs f t H) as [A B]; [apply Hfs; left; reflexivity | intros x Hx; apply Hfs; right; exact Hx|].
    rewrite E2 in A, B. split; [eapply econn_trans; eassumption|].
    intros v' [<-|Hv']; [exact Hv | eapply econn_trans; [exact Hv | apply B, Hv']].
Qed.

Lemma connected_break : forall g2 g3,
  break_pre g2 -> g_N g2 <> [] ->
  (forall e, In e (g_E g2) -> In (e_from (gedge g2 e)) (g_N g2) /\ In (e_to (gedge g2 e)) (g_N g2)) ->
  connected g2 -> break_long_edges g2 = Ok g3 -> connected g3.
Proof.
  intros g2 g3 PRE Hne ENDS Hc BR.
  destruct (break_long_edges_inv g2 PRE) as (g' & tbl & k & R & I & _).
  assert (g' = g3) by congruence. subst g'. clear R.
  assert (Hroot : root_of g3 = root_of g2).
  { unfold root_of. rewrite (bi_N I). destruct (g_N g2); [contradiction | reflexivity]. }
  assert (Hfs : forall p, In p tbl -> incl (snd p) (g_E g3)).
  { intros p Hp f Hf. rewrite (bi_E I). apply in_or_app. right. eapply Permutation_in; [apply (bi_pf I)|].
    apply in_flat_map. exists p. split; assumption. }
  (* the chain of an original edge *)
  assert (Hch : forall e, In e (g_E g2) -> exists p, In p tbl /\
            chain g3 e (fst p) (snd p) (e_to (gedge g2 e)) /\ e_from (gedge g3 e) = e_from (gedge g2 e)).
  { intros e He. destruct (In_nth_error _ _ He) as [j Hj].
    assert (Hjl : j < length tbl) by (rewrite (bi_tbl I); apply nth_error_Some; congruence).
    destruct (nth_error tbl j) as [p|] eqn:Hp; [|apply nth_error_None in Hp; lia].
    destruct (bi_ch I j Hj Hp) as (C & _ & B). exists p. split; [eapply nth_error_In; eassumption|]. split; assumption. }
  assert (HeE : forall e, In e (g_E g2) -> In e (g_E g3)) by (intros e He; rewrite (bi_E I); apply in_or_app; left; exact He).
  assert (Hstep : forall a b, econn g2 a b -> econn g3 a b).
  { intros a b H. induction H as [|a b c e Hab IH He Hj]; [apply ec_refl|].
    eapply econn_trans; [exact IH|].
    destruct (Hch e He) as (p & Hp & C & F).
    destruct (chain_econn g3 _ _ e _ C (HeE e He) (Hfs p Hp)) as [A _]. rewrite F in A.
    destruct Hj as [[J1 J2]|[J1 J2]]; rewrite J1, J2 in A; [exact A | apply econn_sym; exact A]. }
  intros n Hn. rewrite Hroot. rewrite (bi_N I) in Hn. apply in_app_or in Hn. destruct Hn as [Hn|Hn].
  - apply Hstep. apply Hc. exact Hn.
  - assert (Hv : In n (flat_map fst tbl)) by (eapply Permutation_in; [apply Permutation_sym, (bi_pv I) | exact Hn]).
    apply in_flat_map in Hv. destruct Hv as (p & Hp & Hnp).
    destruct (In_nth_error _ _ Hp) as [j Hj].
    assert (Hjl : j < length (g_E g2)) by (rewrite <- (bi_tbl I); apply nth_error_Some; congruence).
    destruct (nth_error (g_E g2) j) as [e|] eqn:He; [|apply nth_error_None in He; lia].
    assert (Hein : In e (g_E g2)) by (eapply nth_error_In; eassumption).
    destruct (bi_ch I j He Hj) as (C & _ & F).
    destruct (chain_econn g3 _ _ e _ C (HeE e Hein) (Hfs p Hp)) as [_ B]. specialize (B n Hnp). rewrite F in B.
    eapply econn_trans; [|exact B]. apply Hstep. apply Hc. apply (ENDS e Hein).
Qed.

Lemma span1_proper : forall g e, span g e = 1%Z -> proper_edge g e.
Proof.
  intros g e H. unfold proper_edge, self_loop, is_flat, span in *. apply Bool.orb_false_iff. split.
  - apply Nat.eqb_neq. intros Heq. rewrite Heq in H. lia.
  - apply Z.eqb_neq. lia.
Qed.

(* the graph handed to phase 4 *)
Theorem stage_nsp_connected : forall g1 g2 g3 k g3',
  connected g1 -> stage23 g1 g2 g3 k -> break_long_edges g2 = Ok g3 -> order_contract g3 g3' ->
  nsp_connected g3'.
Proof.
  intros g1 g2 g3 k g3' Hc S BR OC.
  assert (Hne2 : g_N g2 <> []).
  { pose proof (s2_two _ _ _ _ S) as T. intros E. rewrite E in T. cbn in T. lia. }
  pose proof (connected_p2_post g1 g2 (s2_post _ _ _ _ S) Hc) as Hc2.
  pose proof (connected_break g2 g3 (s2_pre _ _ _ _ S) Hne2 (s2_ends _ _ _ _ S) Hc2 BR) as Hc3.
  assert (GE : forall e, gedge g3' e = gedge g3 e) by (intros e; apply gedge_same_ea, (oc_ea _ _ OC)).
  assert (LY : forall n, layer_of g3' n = layer_of g3 n).
  { intros n. unfold layer_of. destruct (set_pos_fields _ _ (oc_nodes _ _ OC n)) as (_ & _ & -> & _). reflexivity. }
  assert (Hstep : forall a b, econn g3 a b -> pconn g3' a b).
  { intros a b H. induction H as [|a b c e Hab IH He Hj]; [apply pc_refl|].
    apply (pc_edge g3' a b c e IH).
    - rewrite (oc_E _ _ OC). exact He.
    - apply span1_proper. unfold span. rewrite GE, !LY. apply (s3_span _ _ _ _ S e He).
    - unfold joins in *. rewrite GE. exact Hj. }
  intros n Hn. unfold root_of. rewrite (oc_N _ _ OC). rewrite (oc_N _ _ OC) in Hn. apply Hstep. apply Hc3. exact Hn.
Qed.
Print Assumptions stage_nsp_connected.

(* ====================================================================================================== *)
(** * 4. One component, the four positioners                                                               *)
(* ====================================================================================================== *)

(* what the NetworkSimplex positioner needs beyond [component_input]: the component must be connected (it is,
   when it comes from [components]) and the pivot budget thoroughness * |N3|, where N3 is the node list AFTER the
   long edges have been broken (the positioner passes |N3| as the iteration factor), must not exceed the model's
   fuel cap of 100000 pivots *)
Definition p4_ready (o : options) (g : graph) : Prop :=
  o_p4 o = NsPositioner ->
  connected g /\
  forall g1 g2 g3,
    phase1 (o_p1 o) (fst (ignore_self_loops g)) = Ok g1 -> phase2 (o_p2 o) (Layout.ns_params o) g1 = Ok g2 ->
    break_long_edges g2 = Ok g3 ->
    (o_thoroughness o * Z.of_nat (length (g_N g3)) <= 100000)%Z.

Theorem layout_component_total' : forall o g,
  component_input g -> options_ok' o -> p2_ready o g -> p4_ready o g ->
  exists g' x, layout_component o g = Ok (g', x).
Proof.
  intros o g CI [O4 O5] RD RD4. unfold layout_component.
  destruct (ignore_self_loops g) as [g0 del] eqn:E0.
  assert (Eg0 : g0 = fst (ignore_self_loops g)) by (rewrite E0; reflexivity).
  destruct (phase1_returns o g CI) as [g1 P1]. rewrite <- Eg0 in P1. rewrite P1. cbn [bind].
  pose proof (stage01_ok o g g0 del g1 CI E0 P1) as S01.
  destruct (phase2_returns o g g0 del g1 CI S01 RD) as [g2 P2]. rewrite P2. cbn [bind].
  assert (TWO1 : 2 <= length (g_N g1)).
  { destruct (rev_star_frame _ _ (s1_rs _ _ _ _ S01)) as (-> & _). rewrite (s0_N _ _ _ _ S01). apply (ci_two _ CI). }
  pose proof (ns_premise_holds o g CI) as NS.
  assert (LO : forall g2a, match o_p2 o with
                           | LongestPath => exec_longest_path g1
                           | NetworkSimplex => exec_network_simplex (Layout.ns_params o) g1
                           end = Ok g2a -> layering_ok g1 g2a).
  { intros g2a Hg. destruct (o_p2 o) eqn:EA.
    - apply lp_layering_ok; [apply (s1_c _ _ _ _ S01)|apply (s1_ranked _ _ _ _ S01)| |exact Hg].
      intros e He. apply (s1_edge _ _ _ _ S01 e He).
    - apply (NS EA g1); [rewrite <- Eg0; exact P1|exact Hg]. }
  destruct (stage23_ok (o_p2 o) (Layout.ns_params o) g1 g2 (s1_c _ _ _ _ S01) (s1_nonvirt _ _ _ _ S01) TWO1
              (s1_some_edge _ _ _ _ S01) LO P2) as (g3 & k & BR & S23).
  unfold phase3_wmedian.
  assert (N2 : Nat.eqb (length (g_N g2)) 1 = false).
  { apply Nat.eqb_neq. pose proof (s2_two _ _ _ _ S23). lia. }
  rewrite N2, (s2_L1 _ _ _ _ S23), BR. cbn [bind].
  pose proof (stage23_layered g1 g2 g3 k (s1_c _ _ _ _ S01) S23 BR) as LY3.
  destruct (TotalWmedian.exec_wmedian_total_contract wmedian_max_iter g3 LY3) as (g3' & cx & WE & OCw & _).
  { intros e He. apply span1_not_flat. apply (s3_span _ _ _ _ S23 e He). }
  rewrite WE. cbn [bind fst snd].
  pose proof (oc_of_wm g3 g3' OCw) as OC.
  (* phase 4 *)
  pose proof S23 as [PP PRE LOK WF2 PL2 INL2 ENDS TWO L1 S1 S2 S3 S4 S5 S6 S7 S8 WF3 PL3 SL SLH SUB SINL].
  destruct (order_contract_facts g3 g3' OC) as (T1 & OWF & OPL & OIN & OINL & OLH).
  pose proof OC as [Q1 Q2 Q3 Q4 Q5 Q6 Q7 Q8].
  assert (LEN3' : length (g_N g3') = length (g_N g2) + k).
  { rewrite Q2, S2, app_length, BreakMerge.length_iota. reflexivity. }
  assert (N3' : Nat.eqb (length (g_N g3')) 1 = false) by (apply Nat.eqb_neq; lia).
  assert (P4 : exists g4, phase4 (o_p4 o) (p4_params o) g3' = Ok g4).
  { unfold phase4. rewrite N3'. destruct O4 as [[EA|[EA|EA]]|EA]; rewrite EA; cbn [bind]; try (eexists; reflexivity).
    - destruct (TotalSink.exec_sink_coloring_total (node_spacing (p4_params o)) g3'
                  (ordered_sc_proper g3 g3' LY3 (s3_span _ _ _ _ S23) OCw)) as [g4 E4].
      rewrite E4. cbn [bind]. eexists. reflexivity.
    - destruct (RD4 EA) as [Hconn Hbud].
      destruct (exec_ns_positioner_total (p4_thoroughness (p4_params o)) (p4_factor (p4_params o))
                  (node_spacing (p4_params o)) g3') as [g4 E4].
      + apply (order_contract_nsp_wf g3 g3' OC). apply (stage23_nsp_wf g1 g2 g3 k S23).
      + apply (stage_nsp_connected g1 g2 g3 k g3'); try assumption.
        apply (connected_stage01 g g0 del g1 S01 Hconn).
      + intros EN0. rewrite EN0 in LEN3'. cbn [length] in LEN3'. lia.
      + cbn [p4_params p4_thoroughness]. rewrite Q2. apply (Hbud g1 g2 g3); [rewrite <- Eg0; exact P1 | exact P2 | exact BR].
      + rewrite E4. cbn [bind]. eexists. reflexivity. }
  destruct P4 as [g4 P4]. rewrite P4. cbn [bind].
  (* phase 5 *)
  assert (LH3' : forall kk, (0 <= l_h (glayer g3' kk))%Q).
  { intros kk. rewrite OLH, SLH. destruct (p2_wh _ _ PP kk) as [_ ->]. apply Qle_refl. }
  destruct (phase4_facts' (o_p4 o) (p4_params o) g3' g4 O4 N3' P4 (OWF WF3) LH3') as (F1 & F2 & F3 & F4 & F5 & F6 & F7 & F8 & F9 & F10).
  assert (T2 : same_topology g3' g4).
  { split; [exact F1|]. split; [exact F3|]. split; [exact F4|]. intros n.
    destruct (set_xy_fields _ _ (F5 n)) as (-> & -> & -> & _ & -> & _). repeat split; reflexivity. }
  pose proof (same_topology_trans _ _ _ T1 T2) as T.
  destruct (break_phase4_merge_roundtrip g2 g3 g4 PRE BR T)
    as (gm & routes & M & A1 & A2 & A3 & A4' & A5' & A6 & A7 & A8 & A9).
  assert (ND : NoDup (map fst routes)) by (rewrite A8; apply (bp_nodup PRE)).
  destruct (phase5_returns (o_p5 o) (o_layer_spacing o) g2 g4 gm routes O5 M ND A9) as [g5 P5].
  rewrite P5. cbn [bind]. eexists. eexists. reflexivity.
Qed.
Print Assumptions layout_component_total'.

(* with a positioner other than NetworkSimplex nothing new is needed *)
Corollary layout_component_total'_other : forall o g,
  component_input g -> options_ok' o -> p2_ready o g -> o_p4 o <> NsPositioner ->
  exists g' x, layout_component o g = Ok (g', x).
Proof. intros o g CI OK RD NE. apply layout_component_total'; try assumption. intros E. contradiction. Qed.

(* ====================================================================================================== *)
(** * 5. The whole Layout, the four positioners                                                            *)
(* ====================================================================================================== *)

(* the pivot budget of the positioner on one component: it depends on the number of nodes AFTER the long edges
   have been broken *)
Definition nsp_budget_ok (o : options) (c : graph) : Prop :=
  forall g1 g2 g3,
    phase1 (o_p1 o) (fst (ignore_self_loops c)) = Ok g1 -> phase2 (o_p2 o) (Layout.ns_params o) g1 = Ok g2 ->
    break_long_edges g2 = Ok g3 ->
    (o_thoroughness o * Z.of_nat (length (g_N g3)) <= 100000)%Z.

Section LayoutTotal'.
  Variable A : Type.
  Variable eqA : A -> A -> bool.
  Hypothesis eqA_ok : forall x y, eqA x y = true <-> x = y.

  (* the options: a positioner (one of the four) and a router that are modelled; for the network-simplex LAYERER the
     budget thoroughness * sqrt(number of nodes) must stay below the fuel cap of the model; for the network-simplex
     POSITIONER the budget thoroughness * |N3| must, on every component with at least two nodes (the others skip
     phase 4) *)
  Definition layout_options_ok' (o : options) (fixed : option (Q * Q)) (sizes : option (list (A * (Q * Q))))
             (es : list (list A)) : Prop :=
    modelled_p4' (o_p4 o) /\ modelled_p5 (o_p5 o) /\
    (o_p2 o = NetworkSimplex -> (o_thoroughness o * Z.sqrt (Z.of_nat (2 * length es)) <= 100000)%Z) /\
    (o_p4 o = NsPositioner ->
       forall ids g c, populate A eqA es = Ok (ids, g) ->
                       In c (components (apply_sizes A eqA fixed sizes ids g)) -> 2 <= length (g_N c) ->
                       nsp_budget_ok o c).

  Theorem layout_total' : forall o fixed sizes es,
    es <> [] -> Forall (fun p => length p = 2) es -> layout_options_ok' o fixed sizes es ->
    exists ids r, layout A eqA o fixed sizes es = Ok (ids, r).
  Proof.
    intros o fixed sizes es NE ARITY (O4 & O5 & BUD & BUD4). unfold layout.
    destruct (proj2 (@PopulateProofs.populate_ok_iff A eqA es) ARITY) as (ids & g & POP).
    rewrite POP. cbn [bind].
    pose proof (PopulateProofs.populate_wf eqA eqA_ok es POP) as P.
    assert (Hids : exists i0 ids', ids = i0 :: ids').
    { destruct ids as [|i0 ids']; [|eauto]. exfalso. destruct es as [|p es']; [congruence|].
      destruct (PopulateProofs.p_arity P p (or_introl eq_refl)) as (s & t & ->).
      apply (PopulateProofs.p_ids_complete P [s; t] s (or_introl eq_refl) (or_introl eq_refl)). }
    destruct Hids as (i0 & ids' & EI).
    assert (Hmatch : forall (X : Type) (a b : X), match ids with [] => a | _ :: _ => b end = b) by (intros; rewrite EI; reflexivity).
    rewrite Hmatch.
    destruct (Summary.frontend_consistent A eqA eqA_ok es ids g fixed sizes POP) as [C1 CC]. cbv zeta in *.
    set (g1 := apply_sizes A eqA fixed sizes ids g) in *.
    destruct (SizesProofs.apply_sizes_spec A eqA fixed sizes ids g (PopulateProofs.p_na_len P)) as (S1 & S2 & S3 & S4 & S5 & S6).
    cbv zeta in *. fold g1 in S1, S2, S3, S4, S5, S6.
    destruct (components_partition g1 C1) as (P1 & P2 & _ & _ & _ & _ & _ & _ & _ & _ & P11 & _). cbv zeta in *.
    assert (LenIds : length ids <= 2 * length es).
    { rewrite <- (length_concat_pairs A es ARITY). apply (NoDup_incl_length (PopulateProofs.p_nodup P)).
      intros x Hx. destruct (PopulateProofs.p_ids_sound P x Hx) as (p & Hp & Hxp). apply in_concat. eauto. }
    destruct (layout_components_total o (components g1) 0%Q) as [r E]; [|rewrite E; cbn [bind]; eauto].
    intros c Hc.
    assert (LenC : length (g_N c) <= length ids).
    { rewrite (P2 c Hc). eapply Nat.le_trans; [apply filter_length_le'|].
      rewrite S2, (PopulateProofs.p_N P), SinkColoringProofs.length_iota. lia. }
    destruct (Nat.le_gt_cases 2 (length (g_N c))) as [TWO|SMALL].
    - apply layout_component_total'.
      + apply (frontend_component_input A eqA eqA_ok es ids g fixed sizes POP c Hc TWO).
      + split; assumption.
      + intros ENS. split; [apply (component_connected g1 c C1 Hc)|].
        apply (sqrt_budget_mono _ (length (g_N c)) (2 * length es)); [lia|apply BUD, ENS].
      + intros E4. split; [apply (component_connected g1 c C1 Hc)|].
        apply (BUD4 E4 ids g c POP Hc TWO).
    - assert (ONE : length (g_N c) = 1).
      { pose proof (P11 c Hc) as NEc. destruct (g_N c); [congruence|cbn [length] in *; lia]. }
      apply single_node_component_total; [exact ONE|].
      intros n Hn. destruct (P1 c Hc) as (NA & _ & _). unfold layer_of, gnode. rewrite NA. fold (gnode g1 n).
      assert (Hlt : n < length ids).
      { rewrite (P2 c Hc) in Hn. apply filter_In in Hn. destruct Hn as [Hn _].
        rewrite S2, (PopulateProofs.p_N P) in Hn. apply ListLemmas.in_iota in Hn. lia. }
      destruct (nth_error ids n) as [x|] eqn:En; [|apply nth_error_None in En; lia].
      destruct (S6 n x En) as (_ & _ & _ & -> & _).
      destruct (PopulateProofs.p_node_rest P Hlt) as (-> & _). lia.
  Qed.
End LayoutTotal'.
Print Assumptions layout_total'.

(* ====================================================================================================== *)
(** * 6. The number of nodes after the long edges are broken is bounded by the input: |N3| <= |N| + |E| * |N| *)
(* ====================================================================================================== *)

(* 6a. the longest-path layering leaves no band empty (for network simplex: NSOptFinal.phase2_ns_no_empty_band) *)
Lemma heights_full : forall g h,
  LongestPath.consistent g -> LongestPath.unit_delta g -> LongestPath.is_height g h ->
  forall d n v, In n (g_N g) -> (1 <= v)%Z -> (h n - v = Z.of_nat d)%Z -> exists m, In m (g_N g) /\ h m = v.
Proof.
  intros g h Hc Hu Hh. induction d as [|d IH]; intros n v Hn Hv Hd.
  - exists n. split; [exact Hn | lia].
  - pose proof (Hh n Hn) as En. unfold LongestPath.hstep in En.
    destruct (LongestPath.hfold_attained g h (n_out (gnode g n)) 1) as [Heq | (e & He & Hsl & Heq)].
    + exfalso. rewrite Heq in En. lia.
    + destruct (LongestPath.c_out Hc n Hn e He) as [_ Hto].
      rewrite Heq, (Hu n e Hn He) in En.
      apply (IH (e_to (gedge g e)) v Hto Hv). lia.
Qed.

Lemma lp_no_empty_band : forall g1 g2a g2,
  CBBase.consistent g1 -> CBBase.ranked g1 -> (forall e, In e (g_E g1) -> e_delta (gedge g1 e) = 1%Z) ->
  g_N g1 <> [] -> exec_longest_path g1 = Ok g2a -> init_layer_slices g2a = Ok g2 ->
  forall i, i < length (g_L g2) -> l_nodes (glayer g2 i) <> [].
Proof.
  intros g1 g2a g2 C R D Hne E Hs.
  pose proof (cb_lp_consistent g1 C) as C'. pose proof (cb_lp_ranked g1 C R) as R'.
  assert (U : LongestPath.unit_delta g1).
  { intros n e Hn He. destruct C as [_ _ HO _]. destruct (HO n Hn) as [_ Hiff]. apply Hiff in He. apply D, He. }
  pose proof (LongestPath.height_is_height g1 C' R') as Hh.
  set (h := LongestPath.height g1) in *.
  pose proof (LongestPath.exec_longest_path_post g1 g2a h C' R' Hh E) as Hp.
  set (nl := LongestPath.nlayers g1 h).
  assert (LY : forall n, In n (g_N g1) -> layer_of g2a n = (nl - h n)%Z).
  { intros n Hn. unfold layer_of. apply (LongestPath.lp_layer _ _ _ Hp n Hn). }
  assert (EN : g_N g2a = g_N g1) by (apply (LongestPath.lp_N _ _ _ Hp)).
  (* the maximal height is attained *)
  assert (Hmax : exists n, In n (g_N g1) /\ h n = nl).
  { destruct (LongestPath.maxl_spec h (g_N g1)) as (_ & Hub & [Hz | (n & Hn & Hv)]).
    - exfalso. destruct (g_N g1) as [|n0 t] eqn:HN; [congruence|].
      assert (Hn0 : In n0 (g_N g1)) by (rewrite HN; left; reflexivity).
      pose proof (LongestPath.nlayers_bounds g1 h n0 Hh Hn0) as Hb. unfold LongestPath.nlayers in Hb. rewrite HN in Hb. lia.
    - exists n. split; [exact Hn | exact Hv]. }
  destruct Hmax as (nmax & Hnmax & Hhmax).
  assert (Hlmax : (OptVbalance.vb_lmax g2a <= nl - 1)%Z).
  { destruct (OptNormalize.fold_max_spec (layer_of g2a) (g_N g2a) 0%Z) as (_ & _ & A3). cbv zeta in A3.
    fold (OptVbalance.vb_lmax g2a) in A3.
    pose proof (LongestPath.nlayers_bounds g1 h nmax Hh Hnmax) as Hb. fold nl in Hb.
    destruct A3 as [A3|[m [Hm A3]]]; [lia|].
    rewrite EN in Hm. rewrite A3, (LY m Hm). pose proof (LongestPath.nlayers_bounds g1 h m Hh Hm). lia. }
  apply (OptPipeline.slices_no_empty_band g2a g2 Hs).
  intros k Hk.
  destruct (heights_full g1 h C' U Hh (Z.to_nat (nl - (nl - k))) nmax (nl - k)%Z Hnmax) as (m & Hm & Hv); [lia|lia|].
  exists m. split; [rewrite EN; exact Hm|]. rewrite (LY m Hm). lia.
Qed.

(* 6b. hence phase 2 produces at most |N| bands *)
Lemma length_le_flat_map_nonempty : forall (L : list layer),
  (forall l, In l L -> l_nodes l <> []) -> length L <= length (flat_map l_nodes L).
Proof.
  induction L as [|l t IH]; intros H; [reflexivity|]. cbn [flat_map length]. rewrite app_length.
  assert (1 <= length (l_nodes l)).
  { destruct (l_nodes l) eqn:E; [exfalso; apply (H l (or_introl eq_refl)); exact E | cbn; lia]. }
  specialize (IH (fun l' Hl' => H l' (or_intror Hl'))). lia.
Qed.

Lemma bands_le_nodes : forall g1 g2, p2_post g1 g2 ->
  (forall i, i < length (g_L g2) -> l_nodes (glayer g2 i) <> []) -> length (g_L g2) <= length (g_N g2).
Proof.
  intros g1 g2 PP H. rewrite <- (Permutation_length (p2_perm _ _ PP)). apply length_le_flat_map_nonempty.
  intros l Hl. destruct (In_nth _ _ layer0 Hl) as (i & Hi & <-). apply (H i Hi).
Qed.

Theorem phase2_no_empty_band : forall o g g0 del g1 g2,
  stage01 g g0 del g1 -> 2 <= length (g_N g1) -> phase2 (o_p2 o) (Layout.ns_params o) g1 = Ok g2 ->
  forall i, i < length (g_L g2) -> l_nodes (glayer g2 i) <> [].
Proof.
  intros o g g0 del g1 g2 S TWO P2.
  pose proof (s1_c _ _ _ _ S) as C1. pose proof (s1_ranked _ _ _ _ S) as R1.
  assert (D : forall e, In e (g_E g1) -> e_delta (gedge g1 e) = 1%Z).
  { intros e He. destruct (s1_edge _ _ _ _ S e He) as (_ & _ & _ & D & _). exact D. }
  destruct (o_p2 o) eqn:EA.
  - unfold phase2, assign_layers in P2.
    assert (N1 : Nat.eqb (length (g_N g1)) 1 = false) by (apply Nat.eqb_neq; lia). rewrite N1 in P2.
    destruct (exec_longest_path g1) as [g2a|] eqn:E; cbn [bind] in P2; [|discriminate].
    apply (lp_no_empty_band g1 g2a g2 C1 R1 D); try assumption.
    intros E0. rewrite E0 in TWO. cbn in TWO. lia.
  - destruct (ns_wf_of_consistent g1 C1 R1) as [W Hac].
    apply (NSOptFinal.phase2_ns_no_empty_band (Layout.ns_params o) g1 g2 W Hac D); [cbn; discriminate | lia | exact P2].
Qed.

(* 6c. the number of helper nodes: every long edge gets at most (number of bands) of them *)
Lemma length_flat_map_le : forall A B (F : A -> list B) l M,
  (forall p, In p l -> length (F p) <= M) -> length (flat_map F l) <= length l * M.
Proof.
  intros A B F l M; induction l as [|a l IH]; intros H; [reflexivity|]. cbn [flat_map length]. rewrite app_length.
  pose proof (H a (or_introl eq_refl)). specialize (IH (fun p Hp => H p (or_intror Hp))). lia.
Qed.

Lemma break_count : forall g2 g3 k,
  break_pre g2 -> layers_ok g2 -> break_long_edges g2 = Ok g3 -> length (g_na g3) = length (g_na g2) + k ->
  k <= length (g_E g2) * length (g_L g2).
Proof.
  intros g2 g3 k PRE LOK BR LEN.
  destruct (break_long_edges_inv g2 PRE) as (g' & tbl & k' & R & I & S).
  assert (g' = g3) by congruence. subst g'. clear R.
  assert (k' = k) by (pose proof (bi_na I); lia). subst k'.
  assert (Ek : k = length (flat_map fst tbl)).
  { rewrite (Permutation_length (bi_pv I)), BreakMerge.length_iota. reflexivity. }
  rewrite Ek, <- (bi_tbl I). apply length_flat_map_le.
  intros p Hp. destruct (In_nth_error _ _ Hp) as [j Hj].
  assert (Hjl : j < length (g_E g2)) by (rewrite <- (bi_tbl I); apply nth_error_Some; congruence).
  destruct (nth_error (g_E g2) j) as [e|] eqn:He; [|apply nth_error_None in He; lia].
  assert (Hein : In e (g_E g2)) by (eapply nth_error_In; eassumption).
  destruct (bi_ch I j He Hj) as (C & _ & B).
  destruct (bp_edges PRE e Hein) as (E1 & E2 & E3 & E4).
  assert (Hfs : forall f, In f (snd p) -> length (g_ea g2) <= f < length (g_ea g2) + k).
  { intros f Hf. apply BreakMerge.in_iota. eapply Permutation_in; [apply (bi_pf I)|].
    apply in_flat_map. exists p. split; [exact Hp | exact Hf]. }
  assert (Hl : In (last (snd p) e) (g_E g3)).
  { rewrite (bi_E I). apply in_or_app. destruct (last_in_cons _ (snd p) e) as [<-|Hl]; [left; exact Hein|].
    right. apply BreakMerge.in_iota. apply Hfs, Hl. }
  pose proof (chain_total_span _ _ _ _ _ C (S _ Hl)) as T.
  rewrite B in T.
  assert (Lo : forall n, n < length (g_na g2) -> layer_of g3 n = layer_of g2 n).
  { intros n Hn. destruct (bi_old I Hn) as [Sb _]. apply same_but_in_fields in Sb. unfold layer_of. tauto. }
  rewrite !Lo in T by assumption.
  destruct (LOK e Hein) as [L0 L1]. lia.
Qed.

Theorem nodes_after_break : forall g1 g2 g3 k, stage23 g1 g2 g3 k -> break_long_edges g2 = Ok g3 ->
  (forall i, i < length (g_L g2) -> l_nodes (glayer g2 i) <> []) ->
  length (g_N g3) <= length (g_N g1) + length (g_E g1) * length (g_N g1).
Proof.
  intros g1 g2 g3 k S BR NEB.
  pose proof (s2_post _ _ _ _ S) as PP.
  pose proof (break_count g2 g3 k (s2_pre _ _ _ _ S) (s2_lok _ _ _ _ S) BR (s3_na _ _ _ _ S)) as Hk.
  pose proof (bands_le_nodes g1 g2 PP NEB) as HL.
  rewrite (s3_N _ _ _ _ S), app_length, BreakMerge.length_iota.
  rewrite (p2_N _ _ PP), (p2_E _ _ PP) in *. nia.
Qed.
Print Assumptions nodes_after_break.

Lemma budget_mono : forall t a b, a <= b ->
  (t * Z.of_nat b <= 100000)%Z -> (t * Z.of_nat a <= 100000)%Z.
Proof. intros t a b Hab H. destruct (Z_lt_le_dec t 0) as [Ht|Ht]; nia. Qed.

(* the budget of the positioner, stated on the component handed to [layout_component] *)
Theorem p4_ready_of_input : forall o g,
  component_input g -> connected g ->
  (o_thoroughness o * Z.of_nat (length (g_N g) + length (g_E g) * length (g_N g)) <= 100000)%Z ->
  p4_ready o g.
Proof.
  intros o g CI Hc Hbud _. split; [exact Hc|]. intros g1 g2 g3 P1 P2 BR.
  pose proof (stage01_ok o g _ _ g1 CI (surjective_pairing _) P1) as S01.
  assert (EN1 : g_N g1 = g_N g).
  { destruct (rev_star_frame _ _ (s1_rs _ _ _ _ S01)) as (-> & _). apply (s0_N _ _ _ _ S01). }
  assert (TWO1 : 2 <= length (g_N g1)) by (rewrite EN1; apply (ci_two _ CI)).
  pose proof (ns_premise_holds o g CI) as NS.
  assert (LO : forall g2a, match o_p2 o with
                           | LongestPath => exec_longest_path g1
                           | NetworkSimplex => exec_network_simplex (Layout.ns_params o) g1
                           end = Ok g2a -> layering_ok g1 g2a).
  { intros g2a Hg. destruct (o_p2 o) eqn:EA.
    - apply lp_layering_ok; [apply (s1_c _ _ _ _ S01)|apply (s1_ranked _ _ _ _ S01)| |exact Hg].
      intros e He. apply (s1_edge _ _ _ _ S01 e He).
    - apply (NS EA g1); [exact P1|exact Hg]. }
  destruct (stage23_ok (o_p2 o) (Layout.ns_params o) g1 g2 (s1_c _ _ _ _ S01) (s1_nonvirt _ _ _ _ S01) TWO1
              (s1_some_edge _ _ _ _ S01) LO P2) as (g3a & k & BRa & S23).
  assert (g3a = g3) by congruence. subst g3a.
  pose proof (nodes_after_break g1 g2 g3 k S23 BR (phase2_no_empty_band o g _ _ g1 g2 S01 TWO1 P2)) as Hn.
  assert (LE1 : length (g_E g1) <= length (g_E g)).
  { apply NoDup_incl_length; [apply (s1_c _ _ _ _ S01)|]. intros e He. apply (s1_edge _ _ _ _ S01 e He). }
  rewrite EN1 in Hn.
  eapply budget_mono; [|exact Hbud]. nia.
Qed.
Print Assumptions p4_ready_of_input.

(* one component, every side condition on the input *)
Corollary layout_component_total'_input : forall o g,
  component_input g -> options_ok' o -> connected g ->
  (o_p2 o = NetworkSimplex -> (o_thoroughness o * Z.sqrt (Z.of_nat (length (g_N g))) <= 100000)%Z) ->
  (o_p4 o = NsPositioner ->
     (o_thoroughness o * Z.of_nat (length (g_N g) + length (g_E g) * length (g_N g)) <= 100000)%Z) ->
  exists g' x, layout_component o g = Ok (g', x).
Proof.
  intros o g CI OK Hc B2 B4. apply layout_component_total'; try assumption.
  - intros E2. split; [exact Hc | apply B2, E2].
  - intros E4. apply (p4_ready_of_input o g CI Hc (B4 E4) E4).
Qed.
Print Assumptions layout_component_total'_input.

(* ====================================================================================================== *)
(** * 7. The whole Layout, every side condition on the input                                               *)
(* ====================================================================================================== *)
Section LayoutTotalInput.
  Variable A : Type.
  Variable eqA : A -> A -> bool.
  Hypothesis eqA_ok : forall x y, eqA x y = true <-> x = y.

  (* a component has at most 2 |es| nodes and |es| edges; hence at most 2|es| + |es| * 2|es| nodes after the long
     edges are broken *)
  Definition layout_options_ok_input (o : options) (es : list (list A)) : Prop :=
    modelled_p4' (o_p4 o) /\ modelled_p5 (o_p5 o) /\
    (o_p2 o = NetworkSimplex -> (o_thoroughness o * Z.sqrt (Z.of_nat (2 * length es)) <= 100000)%Z) /\
    (o_p4 o = NsPositioner ->
       (o_thoroughness o * Z.of_nat (2 * length es + length es * (2 * length es)) <= 100000)%Z).

  Lemma layout_options_ok_input' : forall o fixed sizes es,
    Forall (fun p => length p = 2) es -> layout_options_ok_input o es -> layout_options_ok' A eqA o fixed sizes es.
  Proof.
    intros o fixed sizes es ARITY (O4 & O5 & BUD & BUD4). split; [exact O4|]. split; [exact O5|]. split; [exact BUD|].
    intros E4 ids g c POP Hc TWO.
    pose proof (PopulateProofs.populate_wf eqA eqA_ok es POP) as P.
    destruct (Summary.frontend_consistent A eqA eqA_ok es ids g fixed sizes POP) as [C1 CC]. cbv zeta in *.
    set (g1 := apply_sizes A eqA fixed sizes ids g) in *.
    destruct (SizesProofs.apply_sizes_spec A eqA fixed sizes ids g (PopulateProofs.p_na_len P)) as (S1 & S2 & S3 & S4 & S5 & S6).
    cbv zeta in *. fold g1 in S1, S2, S3, S4, S5, S6.
    destruct (components_partition g1 C1) as (P1 & P2 & P3 & _ & _ & _ & _ & _ & _ & _ & P11 & _). cbv zeta in *.
    assert (LenIds : length ids <= 2 * length es).
    { rewrite <- (length_concat_pairs A es ARITY). apply (NoDup_incl_length (PopulateProofs.p_nodup P)).
      intros x Hx. destruct (PopulateProofs.p_ids_sound P x Hx) as (p & Hp & Hxp). apply in_concat. eauto. }
    assert (LenC : length (g_N c) <= 2 * length es).
    { rewrite (P2 c Hc). eapply Nat.le_trans; [apply filter_length_le'|].
      rewrite S2, (PopulateProofs.p_N P), SinkColoringProofs.length_iota. exact LenIds. }
    assert (LenE : length (g_E c) <= length es).
    { rewrite (P3 c Hc). eapply Nat.le_trans; [apply filter_length_le'|].
      rewrite S3, (PopulateProofs.p_E P), SinkColoringProofs.length_iota. lia. }
    assert (CI : component_input c) by (apply (frontend_component_input A eqA eqA_ok es ids g fixed sizes POP c Hc TWO)).
    destruct (p4_ready_of_input o c CI (component_connected g1 c C1 Hc)) as [_ H]; [|exact E4|exact H].
    eapply budget_mono; [|apply (BUD4 E4)]. nia.
  Qed.

  Theorem layout_total'_input : forall o fixed sizes es,
    es <> [] -> Forall (fun p => length p = 2) es -> layout_options_ok_input o es ->
    exists ids r, layout A eqA o fixed sizes es = Ok (ids, r).
  Proof.
    intros o fixed sizes es NE ARITY OK. apply (layout_total' A eqA eqA_ok); try assumption.
    apply layout_options_ok_input'; assumption.
  Qed.
End LayoutTotalInput.
Print Assumptions layout_total'_input.

(* ====================================================================================================== *)
(** * 8. A boolean test for [nsp_connected], and examples: the hypotheses are satisfiable                  *)
(* ====================================================================================================== *)
Definition pgrow_edge (g : graph) (T : list nat) (e : nat) : list nat :=
  if (self_loop g e || is_flat g e)%bool then T else grow_step g T e.

Definition pgrow_band (T : list nat) (l : layer) : list nat :=
  if existsb (fun n => mem_nat n T) (l_nodes l) then l_nodes l ++ T else T.

Definition pgrow (g : graph) (T : list nat) : list nat :=
  fold_left pgrow_band (g_L g) (fold_left (pgrow_edge g) (g_E g) T).

Fixpoint pgrow_n (k : nat) (g : graph) (T : list nat) : list nat :=
  match k with O => T | S k' => pgrow_n k' g (pgrow g T) end.

Definition nsp_connectedb (g : graph) : bool :=
  forallb (fun n => mem_nat n (pgrow_n (length (g_N g)) g [root_of g])) (g_N g).

Lemma pgrow_edge_sound : forall g r l T, incl l (g_E g) -> (forall x, In x T -> pconn g r x) ->
  forall x, In x (fold_left (pgrow_edge g) l T) -> pconn g r x.
Proof.
  intros g r l; induction l as [|e t IH]; intros T Hl HT x Hx; cbn [fold_left] in Hx; [apply HT; exact Hx|].
  apply (IH (pgrow_edge g T e)); [intros y Hy; apply Hl; right; exact Hy | | exact Hx].
  assert (He : In e (g_E g)) by (apply Hl; left; reflexivity).
  intros y Hy. unfold pgrow_edge in Hy.
  destruct (self_loop g e || is_flat g e)%bool eqn:Ep; [apply HT; exact Hy|].
  unfold grow_step in Hy.
  destruct (mem_nat (e_from (gedge g e)) T) eqn:Ma; destruct (mem_nat (e_to (gedge g e)) T) eqn:Mb;
    try (apply HT; exact Hy).
  - destruct Hy as [Hy|Hy]; [subst y | apply HT; exact Hy]. apply mem_nat_In in Ma.
    eapply pc_edge; [apply (HT _ Ma) | exact He | exact Ep | left; split; reflexivity].
  - destruct Hy as [Hy|Hy]; [subst y | apply HT; exact Hy]. apply mem_nat_In in Mb.
    eapply pc_edge; [apply (HT _ Mb) | exact He | exact Ep | right; split; reflexivity].
Qed.

Lemma pgrow_band_sound : forall g r ls T, incl ls (g_L g) -> (forall x, In x T -> pconn g r x) ->
  forall x, In x (fold_left pgrow_band ls T) -> pconn g r x.
Proof.
  intros g r ls; induction ls as [|l t IH]; intros T Hl HT x Hx; cbn [fold_left] in Hx; [apply HT; exact Hx|].
  apply (IH (pgrow_band T l)); [intros y Hy; apply Hl; right; exact Hy | | exact Hx].
  intros y Hy. unfold pgrow_band in Hy.
  destruct (existsb (fun n => mem_nat n T) (l_nodes l)) eqn:Ex; [|apply HT; exact Hy].
  apply in_app_or in Hy. destruct Hy as [Hy|Hy]; [|apply HT; exact Hy].
  apply existsb_exists in Ex. destruct Ex as (b & Hb & Mb). apply mem_nat_In in Mb.
  eapply pc_band; [apply (HT _ Mb) | apply Hl; left; reflexivity | exact Hb | exact Hy].
Qed.

Lemma pgrow_n_sound : forall g r k T, (forall x, In x T -> pconn g r x) ->
  forall x, In x (pgrow_n k g T) -> pconn g r x.
Proof.
  intros g r k; induction k as [|k IH]; intros T HT x Hx; cbn [pgrow_n] in Hx; [apply HT; exact Hx|].
  apply (IH (pgrow g T)); [|exact Hx]. unfold pgrow.
  apply (pgrow_band_sound g r (g_L g) _ (incl_refl _)). apply (pgrow_edge_sound g r (g_E g) T (incl_refl _) HT).
Qed.

Lemma nsp_connectedb_ok : forall g, nsp_connectedb g = true -> nsp_connected g.
Proof.
  intros g H n Hn. unfold nsp_connectedb in H. rewrite forallb_forall in H. specialize (H n Hn).
  apply mem_nat_In in H. apply (pgrow_n_sound g (root_of g) (length (g_N g)) [root_of g]); [|exact H].
  intros x [Hx|[]]. subst x. apply pc_refl.
Qed.

(* the 2-band, 4-node example of SinkColoringProofs.v *)
Example sx_positioner_hyps :
  nsp_connectedb sx_g = true /\ (7 * Z.of_nat (length (g_N sx_g)) <=? 100000)%Z = true.
Proof. vm_compute. repeat split; reflexivity. Qed.

Example sx_positioner_total : forall f s, exists g', exec_ns_positioner 7 f s sx_g = Ok g'.
Proof.
  intros f s. destruct sx_positioner_hyps as (H1 & H3).
  apply exec_ns_positioner_total;
    [exact sx_nsp_wf | apply nsp_connectedb_ok; exact H1 | discriminate | apply Z.leb_le; exact H3].
Qed.

(* connectivity is needed: the same component with the edges 0->2, 0->3 only and the bands [0], [1], [2;3] — node 1
   is alone in its band and has no edge — makes the Go code panic ("did not find adjacent non-tree edge") *)
Definition sx_disc : graph :=
  mkGraph [sx_node [] [0; 1]%nat 0 0 10 4; sx_node [] [] 1 0 20 6;
           sx_node [0]%nat [] 2 0 40 8; sx_node [1]%nat [] 2 1 6 2]
          [sx_edge 0 2; sx_edge 0 3] [0; 1; 2; 3]%nat [0; 1]%nat
          [mkLayer [0]%nat 0 0; mkLayer [1]%nat 0 0; mkLayer [2; 3]%nat 0 0].

Example sx_disc_fails :
  layers_wfb sx_disc = true /\ nsp_connectedb sx_disc = false /\
  exec_ns_positioner 1 1 5 sx_disc = Err ErrNoIncidentEdge.
Proof. vm_compute. repeat split; reflexivity. Qed.

From Autog.Proofs Require Import WholeCrossings.

(* one component: the component of WholeCrossings.v with the NetworkSimplex positioner (NSPositioner.wc_o4), and
   with network simplex for both the layering and the positioning *)
Definition wc_o5 : options := mkOptions Greedy NetworkSimplex NsPositioner Ortho 3 2 5 7 false.

Example wc_component_total :
  (exists g' x, layout_component wc_o4 wc_g = Ok (g', x)) /\ (exists g' x, layout_component wc_o5 wc_g = Ok (g', x)).
Proof.
  assert (Hc : connected wc_g) by (apply connectedb_ok; vm_compute; reflexivity).
  split; apply layout_component_total'_input; try exact wc_input; try exact Hc.
  - exact wc_options_ok4.
  - intros E. discriminate E.
  - intros _. vm_compute. discriminate.
  - split; [right; reflexivity | right; right; reflexivity].
  - intros _. vm_compute. discriminate.
  - intros _. vm_compute. discriminate.
Qed.

(* the whole Layout on the input of TotalPipeline.v: a cycle, a long edge, a self-loop-only node, two components *)
Example ex_layout_total_nsp :
  exists ids r, layout nat Nat.eqb (ex_opts Greedy NetworkSimplex NsPositioner Polyline) None None ex_input = Ok (ids, r).
Proof.
  apply (layout_total'_input nat Nat.eqb nat_eqb_ok).
  - discriminate.
  - repeat constructor.
  - split; [right; reflexivity|]. split; [right; left; reflexivity|]. split; intros _; vm_compute; discriminate.
Qed.

Example ex_layout_total_nsp_lp :
  exists ids r, layout nat Nat.eqb (ex_opts DepthFirst LongestPath NsPositioner Straight) None None ex_input = Ok (ids, r).
Proof.
  apply (layout_total'_input nat Nat.eqb nat_eqb_ok).
  - discriminate.
  - repeat constructor.
  - split; [right; reflexivity|]. split; [left; reflexivity|]. split; [intros E; discriminate E|]. intros _; vm_compute; discriminate.
Qed.

Example ex_layout_nsp_runs :
  is_ok (layout nat Nat.eqb (ex_opts Greedy NetworkSimplex NsPositioner Polyline) None None ex_input) = true.
Proof. vm_compute. reflexivity. Qed.
