(* TotalPipeline.v — "Layout always returns" (Q4): [layout_component] and [layout] return Ok.
   The pieces: phase 1 (CycleBreaking.phase1_total), phase 2 (LongestPath.exec_longest_path_ok or
   TotalNS.phase2_ns_total), break_long_edges (BreakMerge, via E2EBackbone.stage23_ok), the ordering heuristic
   (TotalWmedian.exec_wmedian_total), phase 4 (VAlign / PackRight are total functions; SinkColoring by
   TotalSink.exec_sink_coloring_total), merge_long_edges (BreakMerge.break_phase4_merge_roundtrip), the routers (total functions; the
   polyline router cannot meet a non-virtual bend because the inner nodes of a merged route are the helper
   nodes), post-processing (total functions). *)
From Autog Require Import Base Graph Populate Phase1 Phase2 Phase3 Phase4 Phase5 Layout Wmedian Pipeline.
From Autog.Proofs Require Import ListLemmas Consistent SelfLoopProofs ComponentsProofs.
From Autog.Proofs Require CBBase CBGreedy CBGreedyRanks CBDepthFirst CBHasCycles CycleBreaking LongestPath
                          OptNormalize OptVbalance OptPipeline WmedianProofs.
From Autog.Proofs Require Import Positioners Routes BreakMerge SinkColoringProofs E2EBridge E2EBackbone E2EOutput
                                 E2EFrontend NSBridge WholeBridge.
From Autog.Proofs Require NSDefs OptInit TotalNS TotalWmedian TotalSink PopulateProofs SizesProofs Summary.
From Coq Require Import Permutation Lia Lqa.
Local Open Scope nat_scope.

(* ====================================================================================================== *)
(** * 1. Connectivity survives the removal of self loops and the reversal of edges                          *)
(* ====================================================================================================== *)
Import TotalNS.

Lemma joins_flip : forall a b x y,
  flip_rel a b ->
  ((e_from a = x /\ e_to a = y) \/ (e_from a = y /\ e_to a = x)) ->
  ((e_from b = x /\ e_to b = y) \/ (e_from b = y /\ e_to b = x)).
Proof.
  intros a b x y [->| ->] H; [exact H|]. unfold flip_edge. destruct a; cbn in *. tauto.
Qed.

Lemma connected_stage01 : forall g g0 del g1, stage01 g g0 del g1 -> connected g -> connected g1.
Proof.
  intros g g0 del g1 S Hc.
  destruct (rev_star_frame g0 g1 (s1_rs _ _ _ _ S)) as (RN & RE & _ & _ & _ & _ & _ & RF).
  assert (Hroot : NSDefs.root_of g1 = NSDefs.root_of g).
  { unfold NSDefs.root_of. rewrite RN, (s0_N _ _ _ _ S). reflexivity. }
  assert (Hstep : forall a b, econn g a b -> econn g1 a b).
  { intros a b H. induction H as [|a b c e Hab IH He Hj]; [apply ec_refl|].
    destruct (self_loop g e) eqn:Esl.
    - (* a self loop joins a node to itself *)
      unfold self_loop in Esl. apply Nat.eqb_eq in Esl. unfold NSDefs.joins in Hj.
      assert (b = c) by (destruct Hj as [[H1 H2]|[H1 H2]]; congruence). subst c. exact IH.
    - eapply ec_step; [exact IH| |].
      + rewrite RE, (s0_E _ _ _ _ S). apply filter_In. split; [exact He|]. rewrite Esl. reflexivity.
      + unfold NSDefs.joins in *. apply (joins_flip (gedge g0 e) (gedge g1 e) b c (RF e)).
        unfold gedge at 1 2 3 4. rewrite (s0_ea _ _ _ _ S). exact Hj. }
  intros n Hn. rewrite Hroot. apply Hstep. apply Hc. rewrite RN, (s0_N _ _ _ _ S) in Hn. exact Hn.
Qed.

(* a component cut out by [components] is connected *)
Lemma component_connected : forall g c, consistent g -> In c (components g) -> connected c.
Proof.
  intros g c C Hc.
  destruct (components_partition g C) as (P1 & P2 & _ & _ & _ & _ & _ & P8 & _ & P10 & _ & P12 & _). cbv zeta in *.
  destruct (P1 c Hc) as (_ & EA & _).
  assert (SUB : forall y, In y (g_N c) -> In y (g_N g)).
  { intros y Hy. rewrite (P2 c Hc) in Hy. apply filter_In in Hy. apply Hy. }
  assert (GE : forall e, gedge c e = gedge g e) by (intros e; unfold gedge; rewrite EA; reflexivity).
  assert (Hstep : forall a b, conn g a b -> In a (g_N c) -> econn c a b /\ In b (g_N c)).
  { intros a b H. induction H as [a|a b d Hab IH Hd]; intros Ha; [split; [apply ec_refl|exact Ha]|].
    destruct (IH Ha) as [E Hb].
    apply (neighbours_iff g b d C (SUB b Hb)) in Hd. destruct Hd as (e & He & Ends).
    assert (Hec : In e (g_E c)).
    { destruct (P8 c e Hc He) as [I1 I2]. destruct Ends as [[F T]|[F T]]; [apply I2; rewrite T|apply I1; rewrite F]; exact Hb. }
    assert (Hdc : In d (g_N c)).
    { destruct (P8 c e Hc He) as [I1 I2]. destruct Ends as [[F T]|[F T]]; [rewrite <- F; apply I1|rewrite <- T; apply I2]; exact Hec. }
    split; [|exact Hdc].
    eapply ec_step; [exact E|exact Hec|]. unfold NSDefs.joins. rewrite GE. tauto. }
  intros n Hn. unfold NSDefs.root_of.
  assert (Hr : In (hd 0 (g_N c)) (g_N c)).
  { destruct (g_N c) as [|r t]; [destruct Hn|left; reflexivity]. }
  apply (Hstep (hd 0 (g_N c)) n); [|exact Hr]. apply (P10 c _ Hc Hr). exact Hn.
Qed.

(* ====================================================================================================== *)
(** * 2. Phase 1 and phase 2 return                                                                        *)
(* ====================================================================================================== *)
Lemma phase1_returns : forall o g, component_input g ->
  exists g1, phase1 (o_p1 o) (fst (ignore_self_loops g)) = Ok g1.
Proof.
  intros o g [C NV L0 ED TWO CONN].
  destruct (ignore_self_loops_spec g C) as (_ & _ & _ & _ & _ & _ & _ & _ & _ & A10 & _ & A12).
  cbv zeta in *.
  apply CycleBreaking.phase1_total; [apply consistent_cb, A12|exact A10|intros _; exact CONN].
Qed.

(* what the layering algorithm needs beyond [component_input]: nothing for the longest-path layering; for
   network simplex the component must be connected (it is, when it comes from [components]) and the
   iteration budget thoroughness * sqrt |N| must not exceed the model's fuel cap of 100000 pivots *)
Definition p2_ready (o : options) (g : graph) : Prop :=
  o_p2 o = NetworkSimplex ->
  connected g /\ (o_thoroughness o * Z.sqrt (Z.of_nat (length (g_N g))) <= 100000)%Z.

Lemma exec_longest_path_returns : forall g1,
  CBBase.consistent g1 -> CBBase.ranked g1 ->
  exists g2a, exec_longest_path g1 = Ok g2a /\ OptVbalance.layers_nonneg g2a.
Proof.
  intros g1 C R.
  pose proof (cb_lp_consistent g1 C) as C'. pose proof (cb_lp_ranked g1 C R) as R'.
  destruct (LongestPath.exec_longest_path_ok g1 C' R') as [g2a E]. exists g2a. split; [exact E|].
  pose proof (LongestPath.height_is_height g1 C' R') as Hh.
  destruct (LongestPath.exec_longest_path_spec g1 g2a _ C' R' Hh E) as (_ & _ & _ & _ & _ & EN & _).
  intros n Hn. rewrite EN in Hn.
  destruct (LongestPath.feasible g1 g2a _ C' R' Hh E n Hn) as [[H0 _] _]. exact H0.
Qed.

Lemma phase2_returns : forall o g g0 del g1,
  component_input g -> stage01 g g0 del g1 -> p2_ready o g ->
  exists g2, phase2 (o_p2 o) (Layout.ns_params o) g1 = Ok g2.
Proof.
  intros o g g0 del g1 CI S RD.
  pose proof (s1_c _ _ _ _ S) as C1. pose proof (s1_ranked _ _ _ _ S) as R1.
  assert (TWO1 : 2 <= length (g_N g1)).
  { destruct (rev_star_frame _ _ (s1_rs _ _ _ _ S)) as (-> & _). rewrite (s0_N _ _ _ _ S). apply (ci_two _ CI). }
  destruct (o_p2 o) eqn:EA.
  - unfold phase2, assign_layers.
    assert (N1 : Nat.eqb (length (g_N g1)) 1 = false) by (apply Nat.eqb_neq; lia). rewrite N1.
    destruct (exec_longest_path_returns g1 C1 R1) as (g2a & E & NN). rewrite E. cbn [bind].
    apply (init_layer_slices_total g2a NN).
  - destruct (RD EA) as [Hconn Hbud].
    destruct (ns_wf_of_consistent g1 C1 R1) as [W Hac].
    apply phase2_ns_total; try assumption.
    + apply (connected_stage01 g g0 del g1 S Hconn).
    + cbn. discriminate.
    + unfold ns_budget, Layout.ns_params. cbn [ns_thoroughness ns_maxiter_factor]. cbn [Z.ltb Z.compare].
      destruct (rev_star_frame _ _ (s1_rs _ _ _ _ S)) as (-> & _). rewrite (s0_N _ _ _ _ S). exact Hbud.
Qed.

(* ====================================================================================================== *)
(** * 3. Phase 5 returns                                                                                   *)
(* ====================================================================================================== *)
Section RouteFoldTotal.
  Variable F : graph -> nat * list nat -> res (list pt).

  Lemma route_fold_res_total : forall routes g,
    (forall g' r, In r routes -> g_na g' = g_na g -> g_L g' = g_L g -> gedge g' (fst r) = gedge g (fst r) ->
                  F g' r = F g r) ->
    NoDup (map fst routes) ->
    (forall r, In r routes -> exists p, F g r = Ok p) ->
    exists gf, fold_left (rstep F) routes (Ok g) = Ok gf.
  Proof.
    induction routes as [|r0 routes IH]; intros g EXT ND TOT; cbn [fold_left].
    - exists g. reflexivity.
    - cbn [map] in ND. inversion ND as [|? ? Hnot ND']; subst.
      destruct (TOT r0 (or_introl eq_refl)) as [p0 E0].
      unfold rstep at 2. cbn [bind]. rewrite E0. cbn [bind].
      set (g1 := upd_edge g (fst r0) (set_pts p0)).
      destruct (upd_edge_frame g (fst r0) (set_pts p0)) as (U1 & U2 & U3 & U4 & U5). fold g1 in U1, U2, U3, U4, U5.
      assert (OTH : forall x, x <> fst r0 -> gedge g1 x = gedge g x).
      { intros x Hx. unfold g1. apply gedge_upd_edge_other. exact Hx. }
      assert (NE : forall r, In r routes -> fst r <> fst r0).
      { intros r Hr Heq. apply Hnot. rewrite <- Heq. apply in_map, Hr. }
      apply (IH g1).
      + intros g' r Hr E1 E2 E3. rewrite (EXT g' r); [|right; exact Hr|congruence|congruence|].
        * symmetry. apply EXT; [right; exact Hr|exact U1|exact U4|apply OTH, NE, Hr].
        * rewrite E3. apply OTH, NE, Hr.
      + exact ND'.
      + intros r Hr. destruct (TOT r (or_intror Hr)) as [p Hp]. exists p. rewrite <- Hp.
        apply EXT; [right; exact Hr|exact U1|exact U4|apply OTH, NE, Hr].
  Qed.
End RouteFoldTotal.

Lemma inner_route : forall (a b : nat) vs, inner (a :: vs ++ [b]) = vs.
Proof. intros a b vs. unfold inner. cbn [tl]. apply removelast_last. Qed.

(* the polyline router never meets a non-virtual bend on a merged route *)
Lemma route_polyline_returns : forall g0 gm r, route_ok g0 gm r ->
  exists p, route_polyline gm (fst r) (snd r) = Ok p.
Proof.
  intros g0 gm r (vs & Ens & _ & Hvs & _). unfold route_polyline.
  destruct (first_last (snd r)) as [a b].
  destruct (is_flat gm (fst r)); [eexists; reflexivity|].
  destruct (Nat.eqb (length (snd r)) 2); [eexists; reflexivity|].
  assert (Hall : forallb (fun n => n_virt (gnode gm n)) (inner (snd r)) = true).
  { rewrite Ens, inner_route. apply forallb_forall. intros v Hv. apply (Hvs v Hv). }
  rewrite Hall. eexists. reflexivity.
Qed.

Lemma phase5_returns : forall alg sp g0 g4 gm routes,
  modelled_p5 alg -> merge_long_edges g4 = Ok (gm, routes) ->
  NoDup (map fst routes) -> Forall (route_ok g0 gm) routes ->
  exists g5, phase5 alg sp g4 = Ok g5.
Proof.
  intros alg sp g0 g4 gm routes Halg M ND RO. unfold phase5.
  destruct (Nat.eqb (length (g_N g4)) 1); [eexists; reflexivity|].
  rewrite M. cbn [bind].
  destruct Halg as [->|[->| ->]]; [eexists; reflexivity| |eexists; reflexivity].
  change (exists g5, fold_left (rstep (fun g r => route_polyline g (fst r) (snd r))) routes (Ok gm) = Ok g5).
  apply route_fold_res_total; [|exact ND|].
  - intros g' r _ E1 E2 E3. apply route_polyline_ext; assumption.
  - intros r Hr. rewrite Forall_forall in RO. apply (route_polyline_returns g0 gm r (RO r Hr)).
Qed.

(* ====================================================================================================== *)
(** * 4. One component                                                                                     *)
(* ====================================================================================================== *)
Lemma span1_not_flat : forall g e, span g e = 1%Z -> is_flat g e = false.
Proof. intros g e H. unfold is_flat, span in *. apply Z.eqb_neq. lia. Qed.

(* the input of phase 4 satisfies the well-formedness SinkColoring needs (TotalSink.sc_proper) *)
Lemma ordered_sc_proper : forall g3 g3',
  WmedianProofs.layered g3 -> (forall e, In e (g_E g3) -> span g3 e = 1%Z) ->
  WmedianProofs.order_contract g3 g3' -> TotalSink.sc_proper g3'.
Proof.
  intros g3 g3' LY SP OC. apply WmedianProofs.order_contract_iff in OC. destruct OC as [FR PI].
  apply TotalSink.layered_sc_proper.
  - apply (WmedianProofs.layered_frame g3 g3' LY FR).
  - intros e He. rewrite (WmedianProofs.of_E _ _ FR) in He.
    rewrite (WmedianProofs.of_gedge g3 g3' e FR), !(WmedianProofs.of_layer_of g3 g3' _ FR).
    apply (SP e He).
  - intros k j Hj. apply (PI k j Hj).
Qed.

Theorem layout_component_total : forall o g,
  component_input g -> options_ok o -> p2_ready o g ->
  exists g' x, layout_component o g = Ok (g', x).
Proof.
  intros o g CI [O4 O5] RD. unfold layout_component.
  destruct (ignore_self_loops g) as [g0 del] eqn:E0.
  assert (Eg0 : g0 = fst (ignore_self_loops g)) by (rewrite E0; reflexivity).
  destruct (phase1_returns o g CI) as [g1 P1]. rewrite <- Eg0 in P1. rewrite P1. cbn [bind].
  pose proof (stage01_ok o g g0 del g1 CI E0 P1) as S01.
  destruct (phase2_returns o g g0 del g1 CI S01 RD) as [g2 P2]. rewrite P2. cbn [bind].
  assert (TWO1 : 2 <= length (g_N g1)).
  { destruct (rev_star_frame _ _ (s1_rs _ _ _ _ S01)) as (-> & _). rewrite (s0_N _ _ _ _ S01). apply (ci_two _ CI). }
  pose proof (ns_premise_holds o g CI) as NS.
  assert (LO : forall g2a, match o_p2 o with
                           | LongestPath => exec_longest_path g1
                           | NetworkSimplex => exec_network_simplex (Layout.ns_params o) g1
                           end = Ok g2a -> layering_ok g1 g2a).
  { intros g2a Hg. destruct (o_p2 o) eqn:EA.
    - apply lp_layering_ok; [apply (s1_c _ _ _ _ S01)|apply (s1_ranked _ _ _ _ S01)| |exact Hg].
      intros e He. apply (s1_edge _ _ _ _ S01 e He).
    - apply (NS EA g1); [rewrite <- Eg0; exact P1|exact Hg]. }
  destruct (stage23_ok (o_p2 o) (Layout.ns_params o) g1 g2 (s1_c _ _ _ _ S01) (s1_nonvirt _ _ _ _ S01) TWO1
              (s1_some_edge _ _ _ _ S01) LO P2) as (g3 & k & BR & S23).
  unfold phase3_wmedian.
  assert (N2 : Nat.eqb (length (g_N g2)) 1 = false).
  { apply Nat.eqb_neq. pose proof (s2_two _ _ _ _ S23). lia. }
  rewrite N2, (s2_L1 _ _ _ _ S23), BR. cbn [bind].
  pose proof (stage23_layered g1 g2 g3 k (s1_c _ _ _ _ S01) S23 BR) as LY3.
  destruct (TotalWmedian.exec_wmedian_total_contract wmedian_max_iter g3 LY3) as (g3' & cx & WE & OCw & _).
  { intros e He. apply span1_not_flat. apply (s3_span _ _ _ _ S23 e He). }
  rewrite WE. cbn [bind fst snd].
  pose proof (oc_of_wm g3 g3' OCw) as OC.
  (* phase 4 *)
  pose proof S23 as [PP PRE LOK WF2 PL2 INL2 ENDS TWO L1 S1 S2 S3 S4 S5 S6 S7 S8 WF3 PL3 SL SLH SUB SINL].
  destruct (order_contract_facts g3 g3' OC) as (T1 & OWF & OPL & OIN & OINL & OLH).
  pose proof OC as [Q1 Q2 Q3 Q4 Q5 Q6 Q7 Q8].
  assert (N3' : Nat.eqb (length (g_N g3')) 1 = false).
  { apply Nat.eqb_neq. rewrite Q2, S2, app_length. lia. }
  assert (P4 : exists g4, phase4 (o_p4 o) (p4_params o) g3' = Ok g4).
  { unfold phase4. rewrite N3'. destruct O4 as [EA|[EA|EA]]; rewrite EA; cbn [bind]; try (eexists; reflexivity).
    destruct (TotalSink.exec_sink_coloring_total (node_spacing (p4_params o)) g3'
                (ordered_sc_proper g3 g3' LY3 (s3_span _ _ _ _ S23) OCw)) as [g4 E4].
    rewrite E4. cbn [bind]. eexists. reflexivity. }
  destruct P4 as [g4 P4]. rewrite P4. cbn [bind].
  (* phase 5 *)
  assert (LH3' : forall kk, (0 <= l_h (glayer g3' kk))%Q).
  { intros kk. rewrite OLH, SLH. destruct (p2_wh _ _ PP kk) as [_ ->]. apply Qle_refl. }
  destruct (phase4_facts (o_p4 o) (p4_params o) g3' g4 O4 N3' P4 (OWF WF3) LH3') as (F1 & F2 & F3 & F4 & F5 & F6 & F7 & F8 & F9 & F10).
  assert (T2 : same_topology g3' g4).
  { split; [exact F1|]. split; [exact F3|]. split; [exact F4|]. intros n.
    destruct (set_xy_fields _ _ (F5 n)) as (-> & -> & -> & _ & -> & _). repeat split; reflexivity. }
  pose proof (same_topology_trans _ _ _ T1 T2) as T.
  destruct (break_phase4_merge_roundtrip g2 g3 g4 PRE BR T)
    as (gm & routes & M & A1 & A2 & A3 & A4' & A5' & A6 & A7 & A8 & A9).
  assert (ND : NoDup (map fst routes)) by (rewrite A8; apply (bp_nodup PRE)).
  destruct (phase5_returns (o_p5 o) (o_layer_spacing o) g2 g4 gm routes O5 M ND A9) as [g5 P5].
  rewrite P5. cbn [bind]. eexists. eexists. reflexivity.
Qed.
Print Assumptions layout_component_total.

(* with the longest-path layering, no hypothesis beyond the shape of the input *)
Corollary layout_component_total_lp : forall o g,
  component_input g -> options_ok o -> o_p2 o = LongestPath ->
  exists g' x, layout_component o g = Ok (g', x).
Proof.
  intros o g CI OK E2. apply layout_component_total; try assumption.
  intros E. rewrite E2 in E. discriminate.
Qed.
Print Assumptions layout_component_total_lp.

(* with network simplex: connectivity and the pivot budget *)
Corollary layout_component_total_ns : forall o g,
  component_input g -> options_ok o -> connected g ->
  (o_thoroughness o * Z.sqrt (Z.of_nat (length (g_N g))) <= 100000)%Z ->
  exists g' x, layout_component o g = Ok (g', x).
Proof. intros o g CI OK HC HB. apply layout_component_total; try assumption. intros _. split; assumption. Qed.

(* ====================================================================================================== *)
(** * 5. The whole Layout                                                                                  *)
(* ====================================================================================================== *)
(* a component with a single node (a node that has only self loops): every phase takes its short cut *)
Lemma single_node_component_total : forall o c,
  length (g_N c) = 1 -> (forall n, In n (g_N c) -> (0 <= layer_of c n)%Z) ->
  exists g' x, layout_component o c = Ok (g', x).
Proof.
  intros o c ONE NN. unfold layout_component.
  destruct (ignore_self_loops c) as [g0 del] eqn:E0.
  assert (Eg0 : g0 = fst (ignore_self_loops c)) by (rewrite E0; reflexivity).
  assert (N0 : g_N g0 = g_N c) by (rewrite Eg0; apply ignore_self_loops_N).
  assert (ONE0 : Nat.eqb (length (g_N g0)) 1 = true) by (rewrite N0, ONE; reflexivity).
  unfold phase1. rewrite ONE0. cbn [bind].
  unfold phase2, assign_layers. rewrite ONE0. cbn [bind].
  assert (NN0 : OptVbalance.layers_nonneg g0).
  { intros n Hn. rewrite N0 in Hn. unfold layer_of. rewrite Eg0.
    destruct (node_attrs_fields _ _ (ignore_self_loops_attrs c n)) as (-> & _). apply (NN n Hn). }
  destruct (init_layer_slices_total g0 NN0) as [g2 E2]. rewrite E2. cbn [bind].
  destruct (slices_facts g0 g2 E2) as (_ & _ & N2 & _).
  assert (ONE2 : Nat.eqb (length (g_N g2)) 1 = true) by (rewrite N2; exact ONE0).
  unfold phase3_wmedian. rewrite ONE2. cbn [bind].
  unfold phase4. rewrite ONE2.
  destruct (g_N g2) as [|n t] eqn:EN; [cbn in ONE2; discriminate|]. cbn [bind].
  unfold phase5. cbn [upd_layer with_L g_N]. rewrite EN. cbn [length] in *. rewrite ONE2.
  cbn [bind]. eexists. eexists. reflexivity.
Qed.

Lemma layout_components_total : forall o cs shift,
  (forall c, In c cs -> exists g' x, layout_component o c = Ok (g', x)) ->
  exists r, layout_components o cs shift = Ok r.
Proof.
  intros o cs; induction cs as [|c rest IH]; intros shift H; cbn [layout_components].
  - eexists. reflexivity.
  - destruct (H c (or_introl eq_refl)) as (g' & x & E). rewrite E. cbn [bind].
    destruct (IH (shift + rightmost g' + o_node_spacing o)%Q (fun c' Hc' => H c' (or_intror Hc'))) as [[[ns es] xs] E'].
    rewrite E'. cbn [bind]. eexists. reflexivity.
Qed.

Lemma sqrt_budget_mono : forall t a b, (a <= b)%nat ->
  (t * Z.sqrt (Z.of_nat b) <= 100000)%Z -> (t * Z.sqrt (Z.of_nat a) <= 100000)%Z.
Proof.
  intros t a b Hab H.
  assert (Hs : (Z.sqrt (Z.of_nat a) <= Z.sqrt (Z.of_nat b))%Z) by (apply Z.sqrt_le_mono; lia).
  pose proof (Z.sqrt_nonneg (Z.of_nat a)) as H0.
  destruct (Z_lt_le_dec t 0) as [Ht|Ht]; [nia|].
  assert ((t * Z.sqrt (Z.of_nat a) <= t * Z.sqrt (Z.of_nat b))%Z) by (apply Z.mul_le_mono_nonneg_l; assumption).
  lia.
Qed.

Lemma filter_length_le' : forall (A : Type) (p : A -> bool) l, length (filter p l) <= length l.
Proof. intros A p l; induction l as [|a l IH]; cbn [filter length]; [lia|]. destruct (p a); cbn [length]; lia. Qed.

Lemma length_concat_pairs : forall (A : Type) (es : list (list A)),
  Forall (fun p => length p = 2) es -> length (concat es) = 2 * length es.
Proof.
  intros A es H; induction H as [|p es Hp _ IH]; [reflexivity|].
  cbn [concat length]. rewrite app_length, IH, Hp. lia.
Qed.

Section LayoutTotal.
  Variable A : Type.
  Variable eqA : A -> A -> bool.
  Hypothesis eqA_ok : forall x y, eqA x y = true <-> x = y.

  (* the options: a positioner and a router that are modelled and total; for network simplex the pivot budget
     thoroughness * sqrt(number of nodes) must stay below the fuel cap of the model *)
  Definition layout_options_ok (o : options) (es : list (list A)) : Prop :=
    modelled_p4 (o_p4 o) /\ modelled_p5 (o_p5 o) /\
    (o_p2 o = NetworkSimplex -> (o_thoroughness o * Z.sqrt (Z.of_nat (2 * length es)) <= 100000)%Z).

  Theorem layout_total : forall o fixed sizes es,
    es <> [] -> Forall (fun p => length p = 2) es -> layout_options_ok o es ->
    exists ids r, layout A eqA o fixed sizes es = Ok (ids, r).
  Proof.
    intros o fixed sizes es NE ARITY (O4 & O5 & BUD). unfold layout.
    destruct (proj2 (@PopulateProofs.populate_ok_iff A eqA es) ARITY) as (ids & g & POP).
    rewrite POP. cbn [bind].
    pose proof (PopulateProofs.populate_wf eqA eqA_ok es POP) as P.
    (* ids is not empty *)
    assert (Hids : exists i0 ids', ids = i0 :: ids').
    { destruct ids as [|i0 ids']; [|eauto]. exfalso. destruct es as [|p es']; [congruence|].
      destruct (PopulateProofs.p_arity P p (or_introl eq_refl)) as (s & t & ->).
      apply (PopulateProofs.p_ids_complete P [s; t] s (or_introl eq_refl) (or_introl eq_refl)). }
    destruct Hids as (i0 & ids' & EI).
    assert (Hmatch : forall (X : Type) (a b : X), match ids with [] => a | _ :: _ => b end = b) by (intros; rewrite EI; reflexivity).
    rewrite Hmatch.
    destruct (Summary.frontend_consistent A eqA eqA_ok es ids g fixed sizes POP) as [C1 CC]. cbv zeta in *.
    set (g1 := apply_sizes A eqA fixed sizes ids g) in *.
    destruct (SizesProofs.apply_sizes_spec A eqA fixed sizes ids g (PopulateProofs.p_na_len P)) as (S1 & S2 & S3 & S4 & S5 & S6).
    cbv zeta in *. fold g1 in S1, S2, S3, S4, S5, S6.
    destruct (components_partition g1 C1) as (P1 & P2 & _ & _ & _ & _ & _ & _ & _ & _ & P11 & _). cbv zeta in *.
    (* the number of nodes *)
    assert (LenIds : length ids <= 2 * length es).
    { rewrite <- (length_concat_pairs A es ARITY). apply (NoDup_incl_length (PopulateProofs.p_nodup P)).
      intros x Hx. destruct (PopulateProofs.p_ids_sound P x Hx) as (p & Hp & Hxp). apply in_concat. eauto. }
    destruct (layout_components_total o (components g1) 0%Q) as [r E]; [|rewrite E; cbn [bind]; eauto].
    intros c Hc.
    assert (LenC : length (g_N c) <= length ids).
    { rewrite (P2 c Hc). eapply Nat.le_trans; [apply filter_length_le'|].
      rewrite S2, (PopulateProofs.p_N P), SinkColoringProofs.length_iota. lia. }
    destruct (Nat.le_gt_cases 2 (length (g_N c))) as [TWO|SMALL].
    - apply layout_component_total.
      + apply (frontend_component_input A eqA eqA_ok es ids g fixed sizes POP c Hc TWO).
      + split; assumption.
      + intros ENS. split; [apply (component_connected g1 c C1 Hc)|].
        apply (sqrt_budget_mono _ (length (g_N c)) (2 * length es)); [lia|apply BUD, ENS].
    - assert (ONE : length (g_N c) = 1).
      { pose proof (P11 c Hc) as NEc. destruct (g_N c); [congruence|cbn [length] in *; lia]. }
      apply single_node_component_total; [exact ONE|].
      intros n Hn. destruct (P1 c Hc) as (NA & _ & _). unfold layer_of, gnode. rewrite NA. fold (gnode g1 n).
      assert (Hlt : n < length ids).
      { rewrite (P2 c Hc) in Hn. apply filter_In in Hn. destruct Hn as [Hn _].
        rewrite S2, (PopulateProofs.p_N P) in Hn. apply ListLemmas.in_iota in Hn. lia. }
      destruct (nth_error ids n) as [x|] eqn:En; [|apply nth_error_None in En; lia].
      destruct (S6 n x En) as (_ & _ & _ & -> & _).
      destruct (PopulateProofs.p_node_rest P Hlt) as (-> & _). lia.
  Qed.
End LayoutTotal.
Print Assumptions layout_total.

(* ====================================================================================================== *)
(** * 6. Examples: the hypotheses are satisfiable                                                          *)
(* ====================================================================================================== *)
Definition ex_opts (p1 : p1alg) (p2 : p2alg) (p4 : p4alg) (p5 : p5alg) : options :=
  mkOptions p1 p2 p4 p5 1 1 (20#1) (30#1) false.

(* a cycle 1->2->3->1, a long edge 1->4 over 2->5->4, a self-loop-only node 6, a second component 7->8 *)
Definition ex_input : list (list nat) := [[1;2];[2;3];[3;1];[1;4];[2;5];[5;4];[6;6];[7;8]]%nat.

Lemma nat_eqb_ok : forall x y : nat, Nat.eqb x y = true <-> x = y.
Proof. intros. apply Nat.eqb_eq. Qed.

Example ex_layout_total_ns :
  exists ids r, layout nat Nat.eqb (ex_opts Greedy NetworkSimplex VAlign Polyline) None None ex_input = Ok (ids, r).
Proof.
  apply (layout_total nat Nat.eqb nat_eqb_ok).
  - discriminate.
  - repeat constructor.
  - split; [left; reflexivity|]. split; [right; left; reflexivity|]. intros _. vm_compute. discriminate.
Qed.

Example ex_layout_total_lp :
  exists ids r, layout nat Nat.eqb (ex_opts DepthFirst LongestPath PackRight Ortho) None None ex_input = Ok (ids, r).
Proof.
  apply (layout_total nat Nat.eqb nat_eqb_ok).
  - discriminate.
  - repeat constructor.
  - split; [right; left; reflexivity|]. split; [right; right; reflexivity|]. intros E. discriminate E.
Qed.

Example ex_layout_total_sc :
  exists ids r, layout nat Nat.eqb (ex_opts Greedy NetworkSimplex SinkColoring Straight) None None ex_input = Ok (ids, r).
Proof.
  apply (layout_total nat Nat.eqb nat_eqb_ok).
  - discriminate.
  - repeat constructor.
  - split; [right; right; reflexivity|]. split; [left; reflexivity|]. intros _. vm_compute. discriminate.
Qed.

Example ex_layout_runs :
  is_ok (layout nat Nat.eqb (ex_opts Greedy NetworkSimplex VAlign Polyline) None None ex_input) = true /\
  is_ok (layout nat Nat.eqb (ex_opts Greedy NetworkSimplex SinkColoring Polyline) None None ex_input) = true.
Proof. vm_compute. split; reflexivity. Qed.

(* connectivity is needed for network simplex: on the (consistent, >= 2 nodes, no isolated node) graph made of the
   two disjoint edges 0->1, 2->3 taken as ONE component, the Go panic "did not find adjacent non-tree edge" is
   reached; the front end never produces such a component ([component_connected]) *)
Example ex_disconnected_component :
  layout_component (ex_opts Greedy NetworkSimplex VAlign Straight) (OptInit.pop_graph [[0;1];[2;3]]%nat)
    = Err ErrNoIncidentEdge /\
  is_ok (layout_component (ex_opts Greedy LongestPath VAlign Straight) (OptInit.pop_graph [[0;1];[2;3]]%nat)) = true /\
  is_ok (layout nat Nat.eqb (ex_opts Greedy NetworkSimplex VAlign Straight) None None [[0;1];[2;3]]%nat) = true.
Proof. vm_compute. repeat split; reflexivity. Qed.
