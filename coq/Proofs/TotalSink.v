(* TotalSink.v — totality of the default x-positioner SinkColoring (Model/Phase4.v, exec_sink_coloring):
   on well-formed input the model returns [Ok], i.e. neither of its two fuel sites is ever exhausted.

   The model has two fuel sites:
     (A) set_color   (ErrFuel 41): the recursive painting walks upwards along candidate in-edges;
     (B) place_block (ErrFuel 42): the relaxation loop "repeat the sweep while something shifted"
         (in Go: an unbounded [for shifted] loop, so fuel exhaustion would mean non-termination).

   Results (everything is proved, [Print Assumptions]: closed under the global context)
     A   set_color_total, sc_paint_total : on a layered graph ([sc_layered]) the painting never runs out of
         fuel (the layer strictly decreases along the recursion; pigeonhole on the arena indices).
         layered_sc_layered : [WmedianProofs.layered] + "every edge spans one layer" implies [sc_layered].
     B1  place_block_total : if the blocks have a rank function that strictly increases along every layer
         ([blocks_ranked g rt R]), placeBlock terminates after at most R+1 rounds.
         exec_sink_coloring_total_partial, phase4_sink_coloring_total_partial : the assembly, conditional on
         [sc_ranked] (= [blocks_ranked] for the roots computed by the painting pass).
     B2  sc_paint_ranked : on a properly layered and ordered graph ([sc_proper]: Layer / LayerPos of the k-th
         node of layer i are i / k, every in-edge comes from the layer just above) the blocks built by the
         painting pass ARE ranked, with R = |N|+1. Proof: invariants of the painting ([ginv]: the chosen block
         edges of one layer pair have distinct ends and do not cross, roots are constant along chosen edges,
         a root lies strictly above the other members of its block), then a top-down construction of
         rational keys that increase along every layer ([keys_exist]), then rank = number of smaller keys.
     =>  exec_sink_coloring_total, phase4_sink_coloring_total : UNCONDITIONAL totality under [sc_proper];
         layered_sc_proper : the pipeline predicates ([layered], unit spans, positions = indices) give [sc_proper].
     D   boolean checkers, instances ([sx_g]: 2 rounds, [st_g]: 3 rounds), and two inputs outside [sc_proper]
         on which placeBlock diverges ([bad_pos_g], [bad_span_g]): the hypotheses are needed. *)
From Autog Require Import Base Graph Phase2 Phase4.
From Autog.Proofs Require Import Positioners SinkColoringProofs.
From Autog.Proofs Require ListLemmas CrossCountProofs WmedianProofs.
From Coq Require Import Lqa Lia Sorted.
Local Open Scope Q_scope.

(* ====================================================================================== *)
(** * A. The painting pass never runs out of fuel                                          *)
(* ====================================================================================== *)

(** Well-formedness of the input of phase 4, as far as the painting needs it: the nodes of the component are
    arena indices, the layers list nodes of the component, and every in-edge of a node of the component ends
    at that node and starts at a node of the component that is not on a lower layer. *)
Record sc_layered (g : graph) : Prop := {
  scl_range : forall n, In n (g_N g) -> (n < length (g_na g))%nat;
  scl_layers : forall n, in_layers g n -> In n (g_N g);
  scl_in : forall n e, In n (g_N g) -> In e (n_in (gnode g n)) ->
    e_to (gedge g e) = n /\ In (e_from (gedge g e)) (g_N g) /\
    (layer_of g (e_from (gedge g e)) <= layer_of g n)%Z
}.

Lemma first_viable_in : forall g es e, first_viable g es = Some e -> In e es.
Proof.
  intros g es; induction es as [|x t IH]; intros e H; cbn [first_viable] in H; [discriminate|].
  destruct (viable g x); [inversion H; left; reflexivity|right; apply IH, H].
Qed.

Lemma virt_fold_in : forall (p : nat -> bool) es c e,
  fold_left (fun c f => if p f then Some f else c) es c = Some e -> c = Some e \/ In e es.
Proof.
  intros p es; induction es as [|x t IH]; intros c e H; cbn [fold_left] in H; [left; exact H|].
  apply IH in H. destruct H as [H|H]; [|right; right; exact H].
  destruct (p x); [inversion H; right; left; reflexivity|left; exact H].
Qed.

Lemma candidate_edge_in : forall g n e, candidate_edge g n = Some e -> In e (n_in (gnode g n)).
Proof.
  intros g n e H. unfold candidate_edge in H.
  destruct (fold_left _ (n_in (gnode g n)) None) as [e'|] eqn:V.
  - destruct (viable g e') eqn:W.
    + inversion H; subst e'.
      apply (virt_fold_in (fun f => n_virt (gnode g (connected_node g f n)))) in V.
      destruct V as [V|V]; [discriminate|exact V].
    + eapply first_viable_in, H.
  - eapply first_viable_in, H.
Qed.

(* the measure: number of arena indices on a strictly smaller layer *)
Definition sc_below (g : graph) (n : nat) : nat :=
  length (filter (fun m => (layer_of g m <? layer_of g n)%Z) (iota 0 (length (g_na g)))).

Lemma filter_length_le : forall (p : nat -> bool) l, (length (filter p l) <= length l)%nat.
Proof.
  intros p l; induction l as [|x t IH]; cbn [filter length]; [lia|].
  destruct (p x); cbn [length]; lia.
Qed.

Lemma filter_length_mono : forall (p q : nat -> bool) l,
  (forall y, p y = true -> q y = true) -> (length (filter p l) <= length (filter q l))%nat.
Proof.
  intros p q l H; induction l as [|x t IH]; cbn [filter length]; [lia|].
  destruct (p x) eqn:P.
  - rewrite (H x P). cbn [length]. lia.
  - destruct (q x); cbn [length]; lia.
Qed.

Lemma filter_length_lt : forall (p q : nat -> bool) l x,
  (forall y, p y = true -> q y = true) -> In x l -> p x = false -> q x = true ->
  (length (filter p l) < length (filter q l))%nat.
Proof.
  intros p q l x H; induction l as [|y t IH]; intros Hin Px Qx; [destruct Hin|].
  cbn [filter]. destruct Hin as [->|Hin].
  - rewrite Px, Qx. cbn [length]. pose proof (filter_length_mono p q t H). lia.
  - specialize (IH Hin Px Qx). destruct (p y) eqn:P.
    + rewrite (H y P). cbn [length]. lia.
    + destruct (q y); cbn [length]; lia.
Qed.

Lemma sc_below_le : forall g n, (sc_below g n <= length (g_na g))%nat.
Proof.
  intros g n. unfold sc_below.
  etransitivity; [apply filter_length_le|]. rewrite length_iota. lia.
Qed.

Lemma sc_below_lt : forall g m n, (m < length (g_na g))%nat -> (layer_of g m < layer_of g n)%Z ->
  (sc_below g m < sc_below g n)%nat.
Proof.
  intros g m n Hm Hlt. unfold sc_below. apply filter_length_lt with (x := m).
  - intros y Hy. apply Z.ltb_lt in Hy. apply Z.ltb_lt. lia.
  - apply in_iota. lia.
  - apply Z.ltb_ge. lia.
  - apply Z.ltb_lt. exact Hlt.
Qed.

(* the node reached through the candidate edge lies in the component, strictly higher up *)
Lemma candidate_step : forall g n e, sc_layered g -> In n (g_N g) -> candidate_edge g n = Some e ->
  In (connected_node g e n) (g_N g) /\ (layer_of g (connected_node g e n) < layer_of g n)%Z.
Proof.
  intros g n e W Hn C.
  pose proof (candidate_edge_in g n e C) as Hin.
  pose proof (candidate_edge_viable g n e C) as V.
  destruct (scl_in g W n e Hn Hin) as (E1 & E2 & E3).
  unfold connected_node. rewrite E1, Nat.eqb_refl. split; [exact E2|].
  unfold viable in V. apply Bool.andb_true_iff in V. destruct V as [_ V].
  apply Bool.negb_true_iff in V. unfold is_flat in V. rewrite E1 in V. apply Z.eqb_neq in V. lia.
Qed.

Theorem set_color_total : forall g, sc_layered g ->
  forall fuel n s, In n (g_N g) -> (sc_below g n < fuel)%nat -> exists r, set_color fuel g n s = Ok r.
Proof.
  intros g W fuel; induction fuel as [|f IH]; intros n s Hn Hf; [lia|].
  rewrite set_color_S. destruct (sc_done g n s); [eexists; reflexivity|].
  destruct (candidate_edge g n) as [e|] eqn:C; [|eexists; reflexivity].
  cbv zeta. destruct (candidate_step g n e W Hn C) as [Hm Hl].
  pose proof (sc_below_lt g _ n (scl_range g W _ Hm) Hl) as Hb.
  destruct (IH (connected_node g e n)
              (mkSc (colors s) (roots s) ((layer_of g n, prio_get (prio s) (layer_of g n) ++ [e]) :: prio s)) Hm)
    as [[[root rootw] s2] R]; [lia|].
  rewrite R. cbn [bind]. eexists; reflexivity.
Qed.
Print Assumptions set_color_total.

(* the fuel used by the model: one more than the size of the arena *)
Corollary set_color_total_model : forall g n s, sc_layered g -> In n (g_N g) ->
  exists r, set_color (S (length (g_na g))) g n s = Ok r.
Proof.
  intros g n s W Hn. apply set_color_total; [exact W|exact Hn|].
  pose proof (sc_below_le g n). lia.
Qed.

Lemma paint_fold_total : forall g, sc_layered g ->
  forall ns a, (forall n, In n ns -> In n (g_N g)) ->
  exists r, fold_left (paint_step g (length (g_na g))) ns (Ok a) = Ok r.
Proof.
  intros g W ns; induction ns as [|n t IH]; intros [s bw] H; cbn [fold_left]; [eexists; reflexivity|].
  unfold paint_step at 2. cbn [bind].
  destruct (set_color_total_model g n s W (H n (or_introl eq_refl))) as [[[root w] s1] R].
  rewrite R. cbn [bind]. apply IH. intros k Hk. apply H. right. exact Hk.
Qed.

Theorem sc_paint_total : forall g, sc_layered g -> exists sc bw, sc_paint g = Ok (sc, bw).
Proof.
  intros g W. unfold sc_paint.
  destruct (paint_fold_total g W (flat_map l_nodes (rev (g_L g))) (sc_init g)) as [[sc bw] R].
  - intros n Hn. apply (scl_layers g W), in_layers_rev, Hn.
  - exists sc, bw. exact R.
Qed.
Print Assumptions sc_paint_total.

(** The predicate known to hold for the input (and the output) of the ordering phase, together with
    "every edge of the component spans exactly one layer", gives [sc_layered]. *)
Lemma layered_sc_layered : forall g,
  WmedianProofs.layered g ->
  (forall e, In e (g_E g) -> (layer_of g (e_to (gedge g e)) - layer_of g (e_from (gedge g e)) = 1)%Z) ->
  sc_layered g.
Proof.
  intros g Ly Hspan. constructor.
  - apply (WmedianProofs.ly_range g Ly).
  - intros n Hn. unfold in_layers in Hn. apply in_flat_map in Hn. destruct Hn as (l & Hl & Hn).
    destruct (In_nth _ _ layer0 Hl) as (k & Hk & E).
    assert (Hin : In n (CrossCountProofs.lnodes g k)).
    { unfold CrossCountProofs.lnodes, glayer. rewrite E. exact Hn. }
    apply (WmedianProofs.ly_layer g Ly) in Hin. apply Hin.
  - intros n e Hn He. apply (WmedianProofs.ly_in g Ly n Hn) in He. destruct He as [He Et].
    split; [exact Et|]. split; [apply (WmedianProofs.ly_ends g Ly e He)|].
    specialize (Hspan e He). rewrite Et in Hspan. lia.
Qed.

(* ====================================================================================== *)
(** * B1. placeBlock terminates when the blocks are ranked                                  *)
(* ====================================================================================== *)

Lemma Qmax'_lub : forall a b c, a <= c -> b <= c -> Qmax' a b <= c.
Proof. intros a b c Ha Hb. destruct (Qmax'_cases a b) as [E|E]; rewrite E; assumption. Qed.

Lemma pb_xval_ge : forall g bw rt bm n, qget bm (nget rt n) <= pb_xval g bw rt bm n.
Proof. intros. unfold pb_xval. cbv zeta. apply Qmax'_l. Qed.

Lemma pb_xval_upd_other : forall g bw rt bm i f n, nget rt n <> i ->
  pb_xval g bw rt (upd bm i f) n = pb_xval g bw rt bm n.
Proof.
  intros g bw rt bm i f n H. unfold pb_xval, qget. cbv zeta. rewrite nth_upd_other by exact H. reflexivity.
Qed.

Lemma pb_xval_mono_upd : forall g bw rt bm i v n,
  pb_xval g bw rt bm n <= pb_xval g bw rt (upd bm i (fun m => Qmax' m v)) n.
Proof.
  intros g bw rt bm i v n. unfold pb_xval. cbv zeta.
  pose proof (qget_upd_max_ge bm i v (nget rt n)) as H.
  set (x := qget bm (nget rt n)) in *. set (x' := qget (upd bm i (fun m => Qmax' m v)) (nget rt n)) in *.
  set (d := (bw_of bw rt n - nW g n) / 2).
  apply Qmax'_lub.
  - eapply Qle_trans; [exact H|apply Qmax'_l].
  - eapply Qle_trans; [|apply Qmax'_r]. lra.
Qed.

(* a consecutive pair of some layer *)
Definition lpair (g : graph) (a b : nat) : Prop :=
  exists l k, In l (g_L g) /\ (S k < length (l_nodes l))%nat /\
              a = nth k (l_nodes l) 0%nat /\ b = nth (S k) (l_nodes l) 0%nat.

Lemma lpair_in_l : forall g a b, lpair g a b -> in_layers g a.
Proof.
  intros g a b (l & k & Hl & Hk & -> & _). eapply in_layers_intro; [exact Hl|]. apply nth_In. lia.
Qed.

Lemma lpair_in_r : forall g a b, lpair g a b -> in_layers g b.
Proof.
  intros g a b (l & k & Hl & Hk & _ & ->). eapply in_layers_intro; [exact Hl|]. apply nth_In. lia.
Qed.

Definition xcof (st : pst) : list Q := fst (fst st).
Definition bmof (st : pst) : list Q := snd (fst st).

Section PlaceBlock.
  Variables (g : graph) (bw : list Q) (rt : list nat) (s : Q) (rk : nat -> nat) (Lx Lb : nat).
  Hypothesis Hrk : forall a b, lpair g a b -> (rk (nget rt a) < rk (nget rt b))%nat.
  Hypothesis HLx : forall n, in_layers g n -> (n < Lx)%nat.
  Hypothesis HLb : forall n, in_layers g n -> (nget rt n < Lb)%nat.
  Hypothesis HN : forall n, in_layers g n -> In n (g_N g).

  Let X := pb_xval g bw rt.

  (* the separation constraint of a pair, on the values the next round starts from *)
  Definition sep (bm : list Q) (a b : nat) : Prop := X bm a + bw_of bw rt a + s <= X bm b.

  Definition stable (j : nat) (bm : list Q) : Prop :=
    forall a b, lpair g a b -> (rk (nget rt b) < j)%nat -> sep bm a b.

  Definition sinv (j : nat) (st : pst) : Prop :=
    length (xcof st) = Lx /\ length (bmof st) = Lb /\ stable j (bmof st) /\
    (forall n, in_layers g n -> (rk (nget rt n) < j)%nat -> qget (xcof st) n = X (bmof st) n) /\
    (forall n, in_layers g n -> qget (xcof st) n <= X (bmof st) n).

  Definition kept (j : nat) (st st' : pst) : Prop :=
    forall a b, lpair g a b -> (rk (nget rt b) <= j)%nat -> sep (bmof st) a b -> sep (bmof st') a b.

  Definition adv (j : nat) (st st' : pst) : Prop :=
    sinv j st' /\ kept j st st' /\ ((forall r, (rk r < j)%nat) -> st' = st).

  Lemma adv_refl : forall j st, sinv j st -> adv j st st.
  Proof. intros j st H. split; [exact H|]. split; [intros a b _ _ Hs; exact Hs|reflexivity]. Qed.

  Lemma adv_trans : forall j st1 st2 st3, adv j st1 st2 -> adv j st2 st3 -> adv j st1 st3.
  Proof.
    intros j st1 st2 st3 (A1 & A2 & A3) (B1 & B2 & B3). split; [exact B1|]. split.
    - intros a b Hp Hr Hs. apply B2; [exact Hp|exact Hr|]. apply A2; assumption.
    - intros Hall. rewrite (B3 Hall). apply A3, Hall.
  Qed.

  Lemma pb_fix_main : forall j a b st, lpair g a b -> sinv j st ->
    adv j st (pb_fix bw rt s a b st) /\
    ((rk (nget rt b) <= j)%nat -> sep (bmof (pb_fix bw rt s a b st)) a b).
  Proof.
    intros j a b [[xc bm] sh] Hp (I1 & I2 & I3 & I4 & I5).
    unfold xcof, bmof in I1, I2, I3, I4, I5. cbn [fst snd] in I1, I2, I3, I4, I5.
    pose proof (lpair_in_l g a b Hp) as Ha. pose proof (lpair_in_r g a b Hp) as Hb.
    pose proof (Hrk a b Hp) as Hab.
    unfold pb_fix.
    destruct (Qlt_bool (qget xc b) (qget xc a + bw_of bw rt a + s)) eqn:E.
    - (* the pair is pushed: the block of b has rank >= j *)
      unfold Qlt_bool in E. apply Bool.negb_true_iff in E.
      assert (Hlt : ~ qget xc a + bw_of bw rt a + s <= qget xc b).
      { intro C. apply Qle_bool_iff in C. congruence. }
      assert (Hj : (j <= rk (nget rt b))%nat).
      { destruct (Nat.le_gt_cases j (rk (nget rt b))) as [L|L]; [exact L|]. exfalso. apply Hlt.
        rewrite (I4 a Ha) by lia. rewrite (I4 b Hb L). apply (I3 a b Hp L). }
      set (lim := qget xc a + bw_of bw rt a + s) in *.
      set (bm' := upd bm (nget rt b) (fun m => Qmax' m lim)).
      assert (Hother : forall n, (rk (nget rt n) < rk (nget rt b))%nat -> X bm' n = X bm n).
      { intros n Hn. unfold X, bm'. apply pb_xval_upd_other. intro C. rewrite C in Hn. lia. }
      assert (Hmono : forall n, X bm n <= X bm' n) by (intros n; apply pb_xval_mono_upd).
      assert (Hlim : lim <= X bm' b).
      { eapply Qle_trans; [|apply pb_xval_ge]. unfold bm'. apply qget_upd_max_same. rewrite I2. apply HLb, Hb. }
      split; [split; [|split]|].
      + unfold sinv, xcof, bmof. cbn [fst snd]. split; [rewrite length_set_nth; exact I1|].
        split; [unfold bm'; rewrite length_upd; exact I2|]. split; [|split].
        * intros a0 b0 Hp0 Hr0. pose proof (Hrk a0 b0 Hp0) as H0. unfold sep.
          rewrite (Hother a0) by lia. rewrite (Hother b0) by lia. apply (I3 a0 b0 Hp0 Hr0).
        * intros n Hn Hr. rewrite (Hother n) by lia.
          rewrite qget_set_nth_other; [apply I4; assumption|]. intro C. subst n. lia.
        * intros n Hn. rewrite qget_set_nth.
          destruct (Nat.eqb_spec n b) as [En|En]; cbn [andb].
          -- subst n. destruct (Nat.ltb b (length xc)); [exact Hlim|].
             eapply Qle_trans; [apply I5, Hb|apply Hmono].
          -- eapply Qle_trans; [apply I5, Hn|apply Hmono].
      + intros a0 b0 Hp0 Hr0 Hs0. unfold bmof in *. cbn [fst snd] in *.
        pose proof (Hrk a0 b0 Hp0) as H0. unfold sep in *. rewrite (Hother a0) by lia.
        eapply Qle_trans; [exact Hs0|apply Hmono].
      + intros Hall. specialize (Hall (nget rt b)). lia.
      + intros Hr. unfold bmof. cbn [fst snd]. unfold sep. rewrite (Hother a) by lia.
        rewrite <- (I4 a Ha) by lia. exact Hlim.
    - (* nothing happens *)
      split; [apply adv_refl; unfold sinv, xcof, bmof; cbn [fst snd]; auto|].
      intros Hr. unfold bmof. cbn [fst snd]. unfold sep.
      unfold Qlt_bool in E. apply Bool.negb_false_iff, Qle_bool_iff in E.
      rewrite <- (I4 a Ha) by lia. eapply Qle_trans; [exact E|apply I5, Hb].
  Qed.

  Lemma pb_step_main : forall j k l st, In l (g_L g) -> sinv j st ->
    adv j st (pb_step bw rt s k st l) /\
    ((S k < length (l_nodes l))%nat -> (rk (nget rt (nth (S k) (l_nodes l) 0%nat)) <= j)%nat ->
     sep (bmof (pb_step bw rt s k st l)) (nth k (l_nodes l) 0%nat) (nth (S k) (l_nodes l) 0%nat)).
  Proof.
    intros j k l st Hl Hi. unfold pb_step.
    destruct (Nat.leb_spec (length (l_nodes l)) k) as [L1|L1].
    { split; [apply adv_refl, Hi|]. intros; lia. }
    destruct (Nat.eqb_spec k (length (l_nodes l) - 1)) as [E|E]; cbn [andb].
    - destruct (Nat.ltb_spec 0 k) as [L2|L2].
      + assert (Hp : lpair g (nth (k - 1) (l_nodes l) 0%nat) (nth k (l_nodes l) 0%nat)).
        { exists l, (k - 1)%nat. split; [exact Hl|]. split; [lia|]. split; [reflexivity|].
          replace (S (k - 1)) with k by lia. reflexivity. }
        split; [apply pb_fix_main; assumption|]. intros; lia.
      + destruct (Nat.ltb_spec k (length (l_nodes l) - 1)) as [L3|L3]; [lia|].
        split; [apply adv_refl, Hi|]. intros; lia.
    - destruct (Nat.ltb_spec k (length (l_nodes l) - 1)) as [L3|L3]; [|lia].
      assert (Hp : lpair g (nth k (l_nodes l) 0%nat) (nth (S k) (l_nodes l) 0%nat)).
      { exists l, k. split; [exact Hl|]. split; [lia|]. split; reflexivity. }
      destruct (pb_fix_main j _ _ st Hp Hi) as [A B]. split; [exact A|]. intros _ Hr. apply B, Hr.
  Qed.

  Definition pdone (j k : nat) (l : layer) (st : pst) : Prop :=
    (S k < length (l_nodes l))%nat -> (rk (nget rt (nth (S k) (l_nodes l) 0%nat)) <= j)%nat ->
    sep (bmof st) (nth k (l_nodes l) 0%nat) (nth (S k) (l_nodes l) 0%nat).

  Lemma pdone_kept : forall j k l st st', In l (g_L g) -> kept j st st' -> pdone j k l st -> pdone j k l st'.
  Proof.
    intros j k l st st' Hl K D Hk Hr. apply K; [|exact Hr|apply D; assumption].
    exists l, k. split; [exact Hl|]. split; [exact Hk|]. split; reflexivity.
  Qed.

  Lemma pb_inner : forall j k ls, (forall l, In l ls -> In l (g_L g)) ->
    forall st, sinv j st ->
    adv j st (fold_left (pb_step bw rt s k) ls st) /\
    forall l, In l ls -> pdone j k l (fold_left (pb_step bw rt s k) ls st).
  Proof.
    intros j k ls; induction ls as [|x t IH]; intros Hls st Hi; cbn [fold_left].
    - split; [apply adv_refl, Hi|intros l []].
    - destruct (pb_step_main j k x st (Hls x (or_introl eq_refl)) Hi) as [A B].
      destruct (IH (fun l Hl => Hls l (or_intror Hl)) _ (proj1 A)) as [C D].
      split; [eapply adv_trans; eassumption|].
      intros l [<-|Hl]; [|apply D, Hl].
      eapply pdone_kept; [apply Hls; left; reflexivity|apply C|exact B].
  Qed.

  Lemma pb_outer : forall j ks st, sinv j st ->
    let F := fun st k => fold_left (pb_step bw rt s k) (g_L g) st in
    adv j st (fold_left F ks st) /\
    forall k l, In k ks -> In l (g_L g) -> pdone j k l (fold_left F ks st).
  Proof.
    intros j ks; induction ks as [|x t IH]; intros st Hi F; cbn [fold_left].
    - split; [apply adv_refl, Hi|intros k l []].
    - destruct (pb_inner j x (g_L g) (fun l Hl => Hl) st Hi) as [A B].
      destruct (IH _ (proj1 A)) as [C D]. fold F in C, D.
      split; [eapply adv_trans; eassumption|].
      intros k l [<-|Hk] Hl; [|apply D; assumption].
      eapply pdone_kept; [exact Hl|apply C|apply B, Hl].
  Qed.

  (* one round: the rank up to which the constraints are stable goes up by one *)
  Lemma pb_sweep_round : forall j lmax st, sinv j st ->
    (forall l, In l (g_L g) -> (length (l_nodes l) <= lmax)%nat) ->
    sinv j (pb_sweep g bw rt s lmax st) /\
    stable (S j) (bmof (pb_sweep g bw rt s lmax st)) /\
    ((forall r, (rk r < j)%nat) -> pb_sweep g bw rt s lmax st = st).
  Proof.
    intros j lmax st Hi Hmax. rewrite pb_sweep_eq.
    destruct (pb_outer j (iota 0 lmax) st Hi) as [(A1 & A2 & A3) B]. cbv zeta in *.
    split; [exact A1|]. split; [|exact A3].
    intros a b Hp Hr. destruct Hp as (l & k & Hl & Hk & -> & ->).
    apply (B k l); [apply in_iota; specialize (Hmax l Hl); lia|exact Hl|exact Hk|lia].
  Qed.

  Lemma sinv_init : forall j xc bm, length xc = Lx -> length bm = Lb -> stable j bm ->
    sinv j (pb_init g bw rt xc bm, bm, false).
  Proof.
    intros j xc bm H1 H2 H3. unfold sinv, xcof, bmof. cbn [fst snd].
    assert (E : forall n, in_layers g n -> qget (pb_init g bw rt xc bm) n = X bm n).
    { intros n Hn. unfold pb_init. apply (fold_set_in (pb_xval g bw rt bm)); [apply HN, Hn|].
      rewrite H1. apply HLx, Hn. }
    split. { unfold pb_init. rewrite (fold_set_length (pb_xval g bw rt bm)). exact H1. }
    split; [exact H2|]. split; [exact H3|]. split.
    - intros n Hn _. apply E, Hn.
    - intros n Hn. rewrite (E n Hn). apply Qle_refl.
  Qed.

  Variable R : nat.
  Hypothesis HR : forall r, (rk r < R)%nat.

  Lemma place_block_total_aux : forall lmax,
    (forall l, In l (g_L g) -> (length (l_nodes l) <= lmax)%nat) ->
    forall fuel j xc bm, length xc = Lx -> length bm = Lb -> stable j bm ->
    (1 <= fuel)%nat -> (R + 1 <= fuel + j)%nat ->
    exists xcf, place_block fuel g bw rt s lmax xc bm = Ok xcf.
  Proof.
    intros lmax Hmax fuel; induction fuel as [|f IH]; intros j xc bm H1 H2 H3 Hf HRj; [lia|].
    rewrite place_block_S.
    pose proof (sinv_init j xc bm H1 H2 H3) as Hi.
    destruct (pb_sweep_round j lmax _ Hi Hmax) as (A & B & C).
    destruct (pb_sweep g bw rt s lmax (pb_init g bw rt xc bm, bm, false)) as [[xc' bm'] sh] eqn:E.
    destruct sh; [|eexists; reflexivity].
    destruct (Nat.le_gt_cases R j) as [L|L].
    { exfalso. assert (Hall : forall r, (rk r < j)%nat) by (intros r; specialize (HR r); lia).
      specialize (C Hall). inversion C. }
    destruct A as (A1 & A2 & _). unfold xcof, bmof in A1, A2, B. cbn [fst snd] in A1, A2, B.
    apply (IH (S j)); [exact A1|exact A2|exact B|lia|lia].
  Qed.
End PlaceBlock.

(** The blocks (classes of [rt]) are ranked: some rank function on the roots increases strictly along every
    layer, and is bounded by [R]. In particular the relation "some node of block A is the immediate left
    neighbour of some node of block B" is acyclic. *)
Definition blocks_ranked (g : graph) (rt : list nat) (R : nat) : Prop :=
  exists rk : nat -> nat,
    (forall l k, In l (g_L g) -> (S k < length (l_nodes l))%nat ->
       (rk (nget rt (nth k (l_nodes l) 0%nat)) < rk (nget rt (nth (S k) (l_nodes l) 0%nat)))%nat) /\
    (forall r, (rk r < R)%nat).

Theorem place_block_total : forall g bw rt s lmax R fuel xc bm,
  blocks_ranked g rt R ->
  (forall n, in_layers g n -> In n (g_N g)) ->
  (forall n, in_layers g n -> (n < length xc)%nat) ->
  (forall n, in_layers g n -> (nget rt n < length bm)%nat) ->
  (forall l, In l (g_L g) -> (length (l_nodes l) <= lmax)%nat) ->
  (R < fuel)%nat ->
  exists xcf, place_block fuel g bw rt s lmax xc bm = Ok xcf.
Proof.
  intros g bw rt s lmax R fuel xc bm (rk & Hrk & HR) HN HLx HLb Hmax Hf.
  apply (place_block_total_aux g bw rt s rk (length xc) (length bm)) with (R := R) (j := 0%nat);
    try assumption; try reflexivity; try lia.
  - intros a b (l & k & Hl & Hk & -> & ->). apply Hrk; assumption.
  - intros a b _ Hr. lia.
Qed.
Print Assumptions place_block_total.

Lemma blocks_ranked_mono : forall g rt R R', blocks_ranked g rt R -> (R <= R')%nat -> blocks_ranked g rt R'.
Proof.
  intros g rt R R' (rk & H1 & H2) HR. exists rk. split; [exact H1|].
  intros r. specialize (H2 r). lia.
Qed.

(* ====================================================================================== *)
(** * C. Assembly: exec_sink_coloring and phase4 return                                    *)
(* ====================================================================================== *)

Lemma sc_paint_wf : forall g sc bw, sc_paint g = Ok (sc, bw) ->
  (forall n, in_layers g n -> (n < length (g_na g))%nat) -> sc_wf (length (g_na g)) sc.
Proof.
  intros g sc bw H Hlt. unfold sc_paint, sc_init in H. cbv zeta in H.
  apply (paint_fold_inv g (length (g_na g)) _ []) in H.
  - apply H.
  - intros k Hk. apply Hlt, in_layers_rev, Hk.
  - split.
    + unfold sc_wf. cbn [colors roots]. rewrite !length_iota. split; [reflexivity|]. split; [reflexivity|].
      intros i Hi. unfold nget. rewrite SinkColoringProofs.nth_iota by exact Hi. lia.
    + split; [apply repeat_length|]. intros k [].
Qed.

Lemma sc_pack_length : forall s g bw rt, length (sc_pack s g bw rt) = length (g_na g).
Proof.
  intros s g bw rt. unfold sc_pack.
  apply fold_left_inv with (P := fun xc => length xc = length (g_na g)); [|apply repeat_length].
  intros xc1 l Hl.
  assert (G : forall ns acc, length (fst (fold_left (fun (acc : list Q * Q) n => let '(xc, x) := acc in
               (set_nth xc n x, x + bw_of bw rt n + s)) ns acc)) = length (fst acc)).
  { induction ns as [|n t IH]; intros [xc2 x]; cbn [fold_left]; [reflexivity|].
    rewrite IH. cbn [fst]. apply length_set_nth. }
  rewrite G. exact Hl.
Qed.

Lemma sc_bm_length : forall g rt xc, length (sc_bm g rt xc) = length (g_na g).
Proof.
  intros g rt xc. unfold sc_bm.
  apply fold_left_inv with (P := fun bm => length bm = length (g_na g)); [|apply repeat_length].
  intros bm n H. rewrite length_upd. exact H.
Qed.

(** The premise of this section: the blocks built by the painting pass can be ranked, i.e. the relation
    "block A has a node immediately to the left of a node of block B" is acyclic. The bound
    [sc_fuel g - 1 = |N|*|N| + 8] is what the model's fuel allows. The premise is discharged in part B2
    ([sc_proper_ranked]) for properly layered and ordered graphs, with the much smaller bound |N|+1. *)
Definition sc_ranked (g : graph) : Prop :=
  forall sc bw, sc_paint g = Ok (sc, bw) -> blocks_ranked g (roots sc) (sc_fuel g - 1).

(* Conditional version; the full statement [exec_sink_coloring_total] (premise [sc_proper] only) is proved
   at the end of part B2. *)
Theorem exec_sink_coloring_total_partial : forall s g,
  sc_layered g -> sc_ranked g -> exists g', exec_sink_coloring s g = Ok g'.
Proof.
  intros s g W Hrk. rewrite exec_sink_coloring_eq.
  destruct (sc_paint_total g W) as (sc & bw & Hp). rewrite Hp. cbn [bind]. cbv zeta.
  assert (Hlt : forall n, in_layers g n -> (n < length (g_na g))%nat).
  { intros n Hn. apply (scl_range g W), (scl_layers g W), Hn. }
  pose proof (sc_paint_wf g sc bw Hp Hlt) as (_ & _ & Hroots).
  destruct (place_block_total g bw (roots sc) s (sc_lmax g) (sc_fuel g - 1) (sc_fuel g)
              (sc_pack s g bw (roots sc)) (sc_bm g (roots sc) (sc_pack s g bw (roots sc)))) as [xcf Hx].
  - apply (Hrk sc bw Hp).
  - apply (scl_layers g W).
  - intros n Hn. rewrite sc_pack_length. apply Hlt, Hn.
  - intros n Hn. rewrite sc_bm_length. apply Hroots, Hlt, Hn.
  - apply sc_lmax_ge.
  - unfold sc_fuel. lia.
  - rewrite Hx. cbn [bind]. eexists; reflexivity.
Qed.
Print Assumptions exec_sink_coloring_total_partial.

Theorem phase4_sink_coloring_total_partial : forall p g,
  sc_layered g -> sc_ranked g -> exists g', phase4 SinkColoring p g = Ok g'.
Proof.
  intros p g W Hrk. unfold phase4.
  destruct (Nat.eqb (length (g_N g)) 1).
  - destruct (g_N g) as [|n t]; eexists; reflexivity.
  - destruct (exec_sink_coloring_total_partial (node_spacing p) g W Hrk) as [g' E].
    rewrite E. cbn [bind]. eexists; reflexivity.
Qed.
Print Assumptions phase4_sink_coloring_total_partial.

(* ====================================================================================== *)
(** * B2. The blocks built by the painting pass are ranked                                  *)
(* ====================================================================================== *)

(** ** B2.1 Keys: an abstract interpolation argument *)

(* a chain lo < f x0 < f x1 < ... *)
Fixpoint incr (f : nat -> Q) (lo : Q) (l : list nat) : Prop :=
  match l with [] => True | x :: t => lo < f x /\ incr f (f x) t end.

Lemma incr_ext : forall f h l lo, (forall x, In x l -> f x = h x) -> incr f lo l -> incr h lo l.
Proof.
  intros f h l; induction l as [|x t IH]; intros lo E H; cbn [incr] in *; [exact I|].
  destruct H as [H1 H2]. rewrite <- (E x (or_introl eq_refl)). split; [exact H1|].
  apply IH; [intros y Hy; apply E; right; exact Hy|exact H2].
Qed.

Lemma incr_above : forall f l lo, incr f lo l -> forall q, (q < length l)%nat -> lo < f (nth q l 0%nat).
Proof.
  intros f l; induction l as [|x t IH]; intros lo H q Hq; cbn [length] in Hq; [lia|].
  cbn [incr] in H. destruct H as [H1 H2]. destruct q as [|q]; cbn [nth]; [exact H1|].
  eapply Qlt_trans; [exact H1|]. apply IH; [exact H2|lia].
Qed.

Lemma incr_nth : forall f l lo, incr f lo l -> forall p q, (p < q)%nat -> (q < length l)%nat ->
  f (nth p l 0%nat) < f (nth q l 0%nat).
Proof.
  intros f l; induction l as [|x t IH]; intros lo H p q Hpq Hq; cbn [length] in Hq; [lia|].
  cbn [incr] in H. destruct H as [H1 H2]. destruct q as [|q]; [lia|]. destruct p as [|p]; cbn [nth].
  - apply (incr_above f t (f x) H2). lia.
  - apply (IH (f x) H2); lia.
Qed.

Lemma FOP_of_nth : forall (R : nat -> nat -> Prop) l,
  (forall p q, (p < q)%nat -> (q < length l)%nat -> R (nth p l 0%nat) (nth q l 0%nat)) -> ForallOrdPairs R l.
Proof.
  intros R l; induction l as [|x t IH]; intros H; constructor.
  - apply Forall_forall. intros y Hy. destruct (In_nth _ _ 0%nat Hy) as (q & Hq & <-).
    apply (H 0%nat (S q)); cbn [length]; lia.
  - apply IH. intros p q Hpq Hq. apply (H (S p) (S q)); cbn [length]; lia.
Qed.

Lemma lower_bound : forall (f : nat -> Q) l, exists lo, Forall (fun b => lo < f b) l.
Proof.
  intros f l; induction l as [|x t [lo IH]].
  - exists 0. constructor.
  - destruct (Qlt_le_dec lo (f x)) as [L|L].
    + exists lo. constructor; assumption.
    + exists (f x - 1). constructor; [lra|].
      eapply Forall_impl; [|exact IH]. intros b Hb. cbv beta in Hb. lra.
Qed.

Lemma choose_below : forall (r : nat -> nat) (f : nat -> Q) lo t,
  Forall (fun b => r b <> b -> lo < f b) t ->
  exists v, lo < v /\ Forall (fun b => r b <> b -> v < f b) t.
Proof.
  intros r f lo t; induction t as [|x t IH]; intros H.
  - exists (lo + 1). split; [lra|constructor].
  - inversion H as [|? ? Hx Ht]; subst. destruct (IH Ht) as (v & Hv & Fv).
    destruct (Nat.eq_dec (r x) x) as [E|E].
    + exists v. split; [exact Hv|]. constructor; [intros C; contradiction|exact Fv].
    + specialize (Hx E). destruct (Qlt_le_dec v (f x)) as [L|L].
      * exists v. split; [exact Hv|]. constructor; [intros _; exact L|exact Fv].
      * exists ((lo + f x) * (1 # 2)). split; [lra|]. constructor; [intros _; lra|].
        eapply Forall_impl; [|exact Fv]. intros b Hb Hr. cbv beta in Hb. specialize (Hb Hr). lra.
Qed.

Lemma interp : forall (r : nat -> nat) l key lo, NoDup l ->
  Forall (fun b => r b <> b -> lo < key (r b)) l ->
  ForallOrdPairs (fun b b' => r b <> b -> r b' <> b' -> key (r b) < key (r b')) l ->
  (forall b b', In b l -> In b' l -> r b' = b -> b' = b) ->
  exists key' : nat -> Q,
    (forall c, ~ (In c l /\ r c = c) -> key' c = key c) /\ incr (fun b => key' (r b)) lo l.
Proof.
  intros r l; induction l as [|b t IH]; intros key lo ND HF HP Hinj.
  - exists key. split; [reflexivity|exact I].
  - inversion ND as [|? ? Hnotin NDt]; subst.
    inversion HF as [|? ? Hb HFt]; subst.
    inversion HP as [|? ? HRb HPt]; subst.
    assert (Hinj_t : forall x y, In x t -> In y t -> r y = x -> y = x).
    { intros x y Hx Hy. apply Hinj; right; assumption. }
    destruct (Nat.eq_dec (r b) b) as [Fr|Co].
    + (* b is fresh: give it a value between lo and the fixed values to its right *)
      destruct (choose_below r (fun x => key (r x)) lo t HFt) as (v & Hv & Fv).
      destruct (IH key v NDt Fv HPt Hinj_t) as (key_t & Agr & Inc).
      exists (fun c => if Nat.eqb c b then v else key_t c). split.
      * intros c Hc. destruct (Nat.eqb_spec c b) as [E|E].
        { exfalso. apply Hc. subst c. split; [left; reflexivity|exact Fr]. }
        apply Agr. intros [C1 C2]. apply Hc. split; [right; exact C1|exact C2].
      * cbn [incr]. rewrite Fr, Nat.eqb_refl. split; [exact Hv|].
        apply incr_ext with (f := fun x => key_t (r x)); [|exact Inc].
        intros x Hx. destruct (Nat.eqb_spec (r x) b) as [E|E]; [|reflexivity].
        exfalso. apply Hnotin. rewrite <- (Hinj b x (or_introl eq_refl) (or_intror Hx) E). exact Hx.
    + (* b continues a block: its value is fixed *)
      specialize (Hb Co).
      assert (Ft : Forall (fun x => r x <> x -> key (r b) < key (r x)) t).
      { eapply Forall_impl; [|exact HRb]. intros x Hx Hr. apply Hx; assumption. }
      destruct (IH key (key (r b)) NDt Ft HPt Hinj_t) as (key_t & Agr & Inc).
      exists key_t. split.
      * intros c Hc. apply Agr. intros [C1 C2]. apply Hc. split; [right; exact C1|exact C2].
      * assert (E : key_t (r b) = key (r b)).
        { apply Agr. intros [C1 _]. apply Hnotin.
          assert (b = r b) by (apply (Hinj (r b) b); [right; exact C1|left; reflexivity|reflexivity]).
          congruence. }
        cbn [incr]. rewrite E. split; [exact Hb|exact Inc].
Qed.

Section Keys.
  Variables (Ls : list (list nat)) (r : nat -> nat) (up : nat -> nat -> Prop) (ps : nat -> Z).
  Let lay (i : nat) : list nat := nth i Ls [].
  Hypothesis HD : forall i j x, In x (lay i) -> In x (lay j) -> i = j.
  Hypothesis HND : forall i, NoDup (lay i).
  Hypothesis Hps : forall i k, (k < length (lay i))%nat -> ps (nth k (lay i) 0%nat) = Z.of_nat k.
  Hypothesis U1 : forall b m, up b m -> exists i, In b (lay (S i)) /\ In m (lay i) /\ r m = r b.
  Hypothesis U2 : forall i b, In b (lay i) -> r b = b \/ exists m, up b m.
  Hypothesis U3 : forall i j x c, In x (lay j) -> In c (lay i) -> r x = c -> (i < j)%nat \/ x = c.
  Hypothesis U4 : forall i b b' m m', In b (lay i) -> In b' (lay i) -> up b m -> up b' m' ->
    (ps b < ps b')%Z -> (ps m < ps m')%Z.

  Lemma keys_exist_upto : forall n, exists key : nat -> Q,
    forall i, (i < n)%nat -> exists lo, incr (fun b => key (r b)) lo (lay i).
  Proof.
    induction n as [|n [key IH]].
    - exists (fun _ => 0). intros i Hi. lia.
    - destruct (lower_bound (fun b => key (r b)) (lay n)) as [lo Hlo].
      destruct (interp r (lay n) key lo (HND n)) as (key' & Agr & Inc).
      + eapply Forall_impl; [|exact Hlo]. intros b Hb _. exact Hb.
      + apply FOP_of_nth. intros p q Hpq Hq Cb Cb'.
        set (b := nth p (lay n) 0%nat) in *. set (b' := nth q (lay n) 0%nat) in *.
        assert (Hb : In b (lay n)) by (apply nth_In; lia).
        assert (Hb' : In b' (lay n)) by (apply nth_In; lia).
        destruct (U2 n b Hb) as [C|[m Um]]; [contradiction|].
        destruct (U2 n b' Hb') as [C|[m' Um']]; [contradiction|].
        assert (Hpos : (ps m < ps m')%Z).
        { apply (U4 n b b' m m' Hb Hb' Um Um'). unfold b, b'. rewrite !Hps by lia. lia. }
        destruct (U1 b m Um) as (i & I1 & I2 & I3). destruct (U1 b' m' Um') as (i' & J1 & J2 & J3).
        pose proof (HD _ _ _ I1 Hb) as E1. pose proof (HD _ _ _ J1 Hb') as E2.
        assert (i' = i) by lia. subst i'. assert (Hi : (i < n)%nat) by lia.
        destruct (IH i Hi) as [lo_i Inc_i].
        destruct (In_nth _ _ 0%nat I2) as (p' & Hp' & Ep). destruct (In_nth _ _ 0%nat J2) as (q' & Hq' & Eq).
        rewrite <- Ep, <- Eq in Hpos. rewrite !Hps in Hpos by assumption.
        rewrite <- I3, <- J3, <- Ep, <- Eq.
        apply (incr_nth (fun x => key (r x)) (lay i) lo_i Inc_i); lia.
      + intros b b' Hb Hb' E. destruct (U3 n n b' b Hb' Hb E) as [C|C]; [lia|exact C].
      + exists key'. intros i Hi. destruct (Nat.eq_dec i n) as [->|Hne].
        * exists lo. exact Inc.
        * assert (Hi' : (i < n)%nat) by lia. destruct (IH i Hi') as [lo_i Inc_i]. exists lo_i.
          apply incr_ext with (f := fun x => key (r x)); [|exact Inc_i].
          intros x Hx. symmetry. apply Agr. intros [C1 _].
          destruct (U3 n i x (r x) Hx C1 eq_refl) as [C|C]; [lia|].
          rewrite <- C in C1. pose proof (HD _ _ _ Hx C1). lia.
  Qed.

  Theorem keys_exist : exists key : nat -> Q,
    forall i k, (S k < length (lay i))%nat ->
      key (r (nth k (lay i) 0%nat)) < key (r (nth (S k) (lay i) 0%nat)).
  Proof.
    destruct (keys_exist_upto (length Ls)) as [key H]. exists key. intros i k Hk.
    assert (Hi : (i < length Ls)%nat).
    { destruct (Nat.lt_ge_cases i (length Ls)) as [L|L]; [exact L|].
      unfold lay in Hk. rewrite nth_overflow in Hk by exact L. cbn [length] in Hk. lia. }
    destruct (H i Hi) as [lo Inc].
    apply (incr_nth (fun x => key (r x)) (lay i) lo Inc); lia.
  Qed.
End Keys.

(* from keys to a bounded rank: count the nodes of [N] whose block has a smaller key *)
Lemma Qlt_bool_iff : forall a b, Qlt_bool a b = true <-> a < b.
Proof.
  intros a b. unfold Qlt_bool. rewrite Bool.negb_true_iff. split.
  - intros H. apply Qnot_le_lt. intro C. apply Qle_bool_iff in C. congruence.
  - intros H. destruct (Qle_bool b a) eqn:E; [|reflexivity].
    apply Qle_bool_iff in E. exfalso. apply (Qlt_not_le _ _ H E).
Qed.

Definition rk_of (key : nat -> Q) (N : list nat) (r : nat -> nat) (c : nat) : nat :=
  length (filter (fun x => Qlt_bool (key (r x)) (key c)) N).

Lemma rk_of_bound : forall key N r c, (rk_of key N r c < S (length N))%nat.
Proof. intros. unfold rk_of. pose proof (filter_length_le (fun x => Qlt_bool (key (r x)) (key c)) N). lia. Qed.

Lemma rk_of_lt : forall key N r a b, In a N -> key (r a) < key (r b) ->
  (rk_of key N r (r a) < rk_of key N r (r b))%nat.
Proof.
  intros key N r a b Ha Hlt. unfold rk_of. apply filter_length_lt with (x := a).
  - intros y Hy. apply Qlt_bool_iff in Hy. apply Qlt_bool_iff. lra.
  - exact Ha.
  - destruct (Qlt_bool (key (r a)) (key (r a))) eqn:E; [|reflexivity].
    apply Qlt_bool_iff in E. lra.
  - apply Qlt_bool_iff. exact Hlt.
Qed.

(** ** B2.2 Well-formedness of the input of phase 4 *)

Record sc_proper (g : graph) : Prop := {
  sp_range : forall n, In n (g_N g) -> (n < length (g_na g))%nat;
  sp_N : forall n, In n (g_N g) <-> in_layers g n;
  (* Layer and LayerPos of the k-th node of the i-th layer are i and k *)
  sp_idx : forall i k, (i < length (g_L g))%nat -> (k < length (l_nodes (glayer g i)))%nat ->
    layer_of g (nth k (l_nodes (glayer g i)) 0%nat) = Z.of_nat i /\
    n_pos (gnode g (nth k (l_nodes (glayer g i)) 0%nat)) = Z.of_nat k;
  (* the in-edges of a node end there and come from the layer just above *)
  sp_in : forall n e, In n (g_N g) -> In e (n_in (gnode g n)) ->
    e_to (gedge g e) = n /\ In (e_from (gedge g e)) (g_N g) /\
    (layer_of g (e_from (gedge g e)) + 1 = layer_of g n)%Z
}.

Lemma sc_proper_layered : forall g, sc_proper g -> sc_layered g.
Proof.
  intros g P. constructor.
  - apply (sp_range g P).
  - intros n Hn. apply (sp_N g P), Hn.
  - intros n e Hn He. destruct (sp_in g P n e Hn He) as (A & B & C). repeat split; [exact A|exact B|lia].
Qed.

Lemma in_layers_idx : forall g x, in_layers g x ->
  exists i k, (i < length (g_L g))%nat /\ (k < length (l_nodes (glayer g i)))%nat /\
              x = nth k (l_nodes (glayer g i)) 0%nat.
Proof.
  intros g x H. unfold in_layers in H. apply in_flat_map in H. destruct H as (l & Hl & Hx).
  destruct (In_nth _ _ layer0 Hl) as (i & Hi & E). destruct (In_nth _ _ 0%nat Hx) as (k & Hk & E2).
  exists i, k. unfold glayer. rewrite E. repeat split; [exact Hi|exact Hk|symmetry; exact E2].
Qed.

Lemma glayer_in_layers : forall g i x, In x (l_nodes (glayer g i)) -> in_layers g x /\ (i < length (g_L g))%nat.
Proof.
  intros g i x H. destruct (Nat.lt_ge_cases i (length (g_L g))) as [L|L].
  - split; [|exact L]. eapply in_layers_intro; [|exact H]. unfold glayer. apply nth_In, L.
  - unfold glayer in H. rewrite nth_overflow in H by exact L. destruct H.
Qed.

Lemma glayer_layer_of : forall g i x, sc_proper g -> In x (l_nodes (glayer g i)) ->
  layer_of g x = Z.of_nat i.
Proof.
  intros g i x P H. destruct (glayer_in_layers g i x H) as [_ Hi].
  destruct (In_nth _ _ 0%nat H) as (k & Hk & <-). apply (sp_idx g P i k Hi Hk).
Qed.

Lemma pos_inj : forall g a b, sc_proper g -> in_layers g a -> in_layers g b ->
  layer_of g a = layer_of g b -> n_pos (gnode g a) = n_pos (gnode g b) -> a = b.
Proof.
  intros g a b P Ha Hb HL Hp.
  destruct (in_layers_idx g a Ha) as (i & k & Hi & Hk & ->).
  destruct (in_layers_idx g b Hb) as (j & k' & Hj & Hk' & ->).
  destruct (sp_idx g P i k Hi Hk) as [A1 A2]. destruct (sp_idx g P j k' Hj Hk') as [B1 B2].
  assert (i = j) by lia. subst j. assert (k = k') by lia. subst k'. reflexivity.
Qed.

(** ** B2.3 Invariants of the painting pass *)

Definition chosen (s : scst) (e : nat) : Prop := exists k, In e (prio_get (prio s) k).

Lemma chosen_intro : forall s k e, In e (prio_get (prio s) k) -> chosen s e.
Proof. intros s k e H. exists k. exact H. Qed.

Lemma prio_get_push : forall ln x p k,
  prio_get ((ln, x) :: p) k = if (ln =? k)%Z then x else prio_get p k.
Proof. reflexivity. Qed.

Lemma not_crosses_ord : forall g e f,
  sc_crosses g e f = false ->
  layer_of g (e_from (gedge g e)) = layer_of g (e_from (gedge g f)) ->
  layer_of g (e_to (gedge g e)) = layer_of g (e_to (gedge g f)) ->
  n_pos (gnode g (e_from (gedge g e))) <> n_pos (gnode g (e_from (gedge g f))) ->
  ((n_pos (gnode g (e_to (gedge g e))) < n_pos (gnode g (e_to (gedge g f))))%Z ->
   (n_pos (gnode g (e_from (gedge g e))) < n_pos (gnode g (e_from (gedge g f))))%Z) /\
  ((n_pos (gnode g (e_to (gedge g f))) < n_pos (gnode g (e_to (gedge g e))))%Z ->
   (n_pos (gnode g (e_from (gedge g f))) < n_pos (gnode g (e_from (gedge g e))))%Z).
Proof.
  intros g e f H E1 E2 Hne. unfold sc_crosses in H. cbv zeta in H.
  rewrite E1, E2, !Z.eqb_refl in H. cbn [andb negb] in H.
  apply Bool.orb_false_iff in H. destruct H as [H1 H2].
  apply Bool.andb_false_iff in H1. apply Bool.andb_false_iff in H2.
  rewrite !Z.ltb_ge in H1, H2. lia.
Qed.

Section Paint.
  Variable g : graph.
  Hypothesis P : sc_proper g.
  Let na := length (g_na g).
  Let L := layer_of g.
  Let pos := fun n => n_pos (gnode g n).
  Let eT := fun e => e_to (gedge g e).
  Let eF := fun e => e_from (gedge g e).

  Lemma cand_facts : forall n e, In n (g_N g) -> candidate_edge g n = Some e ->
    eT e = n /\ In (eF e) (g_N g) /\ (L (eF e) + 1 = L n)%Z /\ connected_node g e n = eF e.
  Proof.
    intros n e Hn C. pose proof (candidate_edge_in g n e C) as Hin.
    destruct (sp_in g P n e Hn Hin) as (A & B & D). unfold eT, eF, L.
    repeat split; [exact A|exact B|exact D|]. unfold connected_node. rewrite A, Nat.eqb_refl. reflexivity.
  Qed.

  Record ginv (s : scst) (pend : list nat) : Prop := {
    gi_wf : sc_wf na s;
    gi_key : forall k e, In e (prio_get (prio s) k) ->
      k = L (eT e) /\ In (eT e) (g_N g) /\ candidate_edge g (eT e) = Some e;
    gi_col : forall e, chosen s e -> ~ In e pend -> nget (colors s) (eF e) <> eF e;
    gi_root : forall e, chosen s e -> ~ In e pend -> nget (roots s) (eT e) = nget (roots s) (eF e);
    gi_up : forall n, (n < na)%nat -> nget (roots s) n <> n -> exists e, chosen s e /\ eT e = n;
    gi_ord : forall k e f, In e (prio_get (prio s) k) -> In f (prio_get (prio s) k) ->
      (pos (eT e) < pos (eT f))%Z -> (pos (eF e) < pos (eF f))%Z;
    gi_r1 : forall x, (x < na)%nat -> nget (roots s) x = x \/ (L (nget (roots s) x) < L x)%Z
  }.

  Definition sc_post (n : nat) (s : scst) (root : nat) (s' : scst) : Prop :=
    (nget (roots s) n = n -> nget (roots s') n = root) /\
    In root (g_N g) /\ (root = n \/ (L root < L n)%Z) /\
    (forall x, nget (colors s') x = nget (colors s) x \/
               ((L x < L n)%Z /\ nget (colors s) x = x /\ nget (colors s') x <> x)) /\
    (forall x, nget (roots s') x = nget (roots s) x \/ x = n \/ nget (colors s') x <> x) /\
    (forall e, chosen s e -> chosen s' e).

  Lemma set_color_ginv : forall fuel n s root w s' pend,
    set_color fuel g n s = Ok (root, w, s') ->
    In n (g_N g) -> ginv s pend ->
    (forall f, In f pend -> (L n < L (eT f))%Z) ->
    (forall x, (x < na)%nat -> (L x < L n)%Z -> nget (colors s) x = x -> nget (roots s) x = x) ->
    ginv s' pend /\ sc_post n s root s'.
  Proof.
    induction fuel as [|fu IH]; intros n s root w s' pend H Hn GI Hpend H7; [discriminate|].
    rewrite set_color_S in H. destruct (sc_done g n s) eqn:D.
    { inversion H; subst root w s'. split; [exact GI|]. unfold sc_post.
      split; [auto|]. split; [exact Hn|]. split; [left; reflexivity|].
      split; [intros x; left; reflexivity|]. split; [intros x; left; reflexivity|auto]. }
    destruct (candidate_edge g n) as [e|] eqn:C.
    2:{ exfalso. unfold sc_done in D. rewrite C in D. rewrite Bool.orb_true_r in D. discriminate. }
    cbv zeta in H.
    destruct (cand_facts n e Hn C) as (Te & Fe & Le & Ce).
    rewrite Ce in H.
    set (m := eF e) in *.
    set (s1 := mkSc (colors s) (roots s) ((layer_of g n, prio_get (prio s) (layer_of g n) ++ [e]) :: prio s)) in *.
    destruct (set_color fu g m s1) as [[[root0 rootw] s2]|err] eqn:R; cbn [bind] in H; [|discriminate].
    inversion H; subst root w s'. clear H.
    unfold sc_done in D. rewrite C, Ce in D. fold m in D.
    apply Bool.orb_false_iff in D. destruct D as [D D3].
    apply Bool.orb_false_iff in D. destruct D as [D1 D2].
    apply Bool.orb_false_iff in D3. destruct D3 as [D3 D4].
    apply Bool.negb_false_iff, Nat.eqb_eq in D1.
    apply Bool.negb_false_iff, Nat.eqb_eq in D3.
    assert (Hnlt : (n < na)%nat) by (apply (sp_range g P), Hn).
    assert (Hmlt : (m < na)%nat) by (apply (sp_range g P), Fe).
    assert (Hmn : m <> n) by (intro E; rewrite E in Le; lia).
    pose proof (gi_wf _ _ GI) as (W1 & W2 & W3).
    (* old edges of the same key are not pending, hence their top is painted *)
    assert (Hold : forall f, In f (prio_get (prio s) (L n)) ->
              eT f <> n /\ eF f <> m /\ (L (eT f) = L n)%Z /\ (L (eF f) = L m)%Z /\ In (eF f) (g_N g) /\ In (eT f) (g_N g)).
    { intros f Hf. destruct (gi_key _ _ GI _ _ Hf) as (K1 & K2 & K3).
      destruct (cand_facts _ _ K2 K3) as (_ & Ff & Lf & _).
      assert (Hnp : ~ In f pend). { intro Cp. specialize (Hpend f Cp). lia. }
      pose proof (gi_col _ _ GI f (chosen_intro _ _ _ Hf) Hnp) as Hc.
      split; [|split; [|split; [|split; [|split]]]]; try assumption; try lia.
      - intro E. rewrite E, C in K3. inversion K3; subst f.
        apply Hc. fold m. exact D3.
      - intro E. apply Hc. rewrite E. exact D3. }
    (* the state handed to the recursive call *)
    assert (Hch1 : forall f, chosen s1 f -> f = e \/ chosen s f).
    { intros f [k Hf]. unfold s1 in Hf. cbn [prio] in Hf. rewrite prio_get_push in Hf.
      destruct (Z.eqb_spec (layer_of g n) k) as [E|E].
      - apply in_app_or in Hf. destruct Hf as [Hf|[Hf|[]]]; [right; exists k; rewrite <- E; exact Hf|left; auto].
      - right. exists k. exact Hf. }
    assert (Hch1' : forall f, chosen s f -> chosen s1 f).
    { intros f [k Hf]. exists k. unfold s1. cbn [prio]. rewrite prio_get_push.
      destruct (Z.eqb_spec (layer_of g n) k) as [E|E]; [|exact Hf].
      apply in_or_app. left. rewrite E. exact Hf. }
    assert (Hche : chosen s1 e).
    { exists (layer_of g n). unfold s1. cbn [prio]. rewrite prio_get_push, Z.eqb_refl.
      apply in_or_app. right. left. reflexivity. }
    assert (GI1 : ginv s1 (e :: pend)).
    { constructor.
      - unfold s1, sc_wf. cbn [colors roots]. auto.
      - intros k f Hf. unfold s1 in Hf. cbn [prio] in Hf. rewrite prio_get_push in Hf.
        destruct (Z.eqb_spec (layer_of g n) k) as [E|E]; [|apply (gi_key _ _ GI), Hf].
        apply in_app_or in Hf. destruct Hf as [Hf|[Hf|[]]].
        + rewrite <- E. apply (gi_key _ _ GI), Hf.
        + subst f. rewrite Te. split; [symmetry; exact E|]. split; [exact Hn|exact C].
      - intros f Hf Hnp. unfold s1. cbn [colors]. destruct (Hch1 f Hf) as [->|Hf'].
        + exfalso. apply Hnp. left. reflexivity.
        + apply (gi_col _ _ GI f Hf'). intro Cp. apply Hnp. right. exact Cp.
      - intros f Hf Hnp. unfold s1. cbn [roots]. destruct (Hch1 f Hf) as [->|Hf'].
        + exfalso. apply Hnp. left. reflexivity.
        + apply (gi_root _ _ GI f Hf'). intro Cp. apply Hnp. right. exact Cp.
      - intros x Hx Hr. unfold s1 in Hr. cbn [roots] in Hr.
        destruct (gi_up _ _ GI x Hx Hr) as (f & Hf & Ef). exists f. split; [apply Hch1', Hf|exact Ef].
      - intros k f1 f2 Hf1 Hf2. unfold s1 in Hf1, Hf2. cbn [prio] in Hf1, Hf2.
        rewrite prio_get_push in Hf1, Hf2.
        destruct (Z.eqb_spec (layer_of g n) k) as [E|E]; [|apply (gi_ord _ _ GI k); assumption].
        apply in_app_or in Hf1. apply in_app_or in Hf2.
        assert (Hnew : forall f, In f (prio_get (prio s) (L n)) ->
                  ((pos (eT e) < pos (eT f))%Z -> (pos (eF e) < pos (eF f))%Z) /\
                  ((pos (eT f) < pos (eT e))%Z -> (pos (eF f) < pos (eF e))%Z)).
        { intros f Hf. destruct (Hold f Hf) as (O1 & O2 & O3 & O4 & O5 & O6).
          assert (Hcr : sc_crosses g e f = false).
          { destruct (sc_crosses g e f) eqn:Ecr; [|reflexivity]. exfalso.
            assert (X : existsb (sc_crosses g e) (prio_get (prio s) (layer_of g n)) = true).
            { apply existsb_exists. exists f. split; [exact Hf|exact Ecr]. }
            rewrite X in D4. discriminate. }
          apply (not_crosses_ord g e f Hcr).
          - fold (eF e) (eF f) m. unfold L in O4. rewrite O4. reflexivity.
          - fold (eT e) (eT f). rewrite Te. unfold L in O3. rewrite O3. reflexivity.
          - fold (eF e) (eF f) m. intro Ep. apply O2. symmetry.
            apply (pos_inj g m (eF f) P); [apply (sp_N g P), Fe|apply (sp_N g P), O5|symmetry; exact O4|exact Ep]. }
        destruct Hf1 as [Hf1|[Hf1|[]]]; destruct Hf2 as [Hf2|[Hf2|[]]].
        + apply (gi_ord _ _ GI (L n)); assumption.
        + subst f2. apply (Hnew f1 Hf1).
        + subst f1. apply (Hnew f2 Hf2).
        + subst f1 f2. lia.
      - intros x Hx. unfold s1. cbn [roots]. apply (gi_r1 _ _ GI x Hx). }
    assert (Hpend1 : forall f, In f (e :: pend) -> (L m < L (eT f))%Z).
    { intros f [<-|Hf]; [rewrite Te; lia|]. specialize (Hpend f Hf). lia. }
    assert (H71 : forall x, (x < na)%nat -> (L x < L m)%Z -> nget (colors s1) x = x -> nget (roots s1) x = x).
    { intros x Hx Hl Hc. unfold s1 in *. cbn [colors roots] in *. apply H7; [exact Hx|lia|exact Hc]. }
    destruct (IH m s1 root0 rootw s2 (e :: pend) R Fe GI1 Hpend1 H71) as [GI2 Post2].
    destruct Post2 as (Q1 & Q2 & Q3 & Q4 & Q5 & Q6).
    assert (Hrm : nget (roots s2) m = root0).
    { apply Q1. unfold s1. cbn [roots]. apply H7; [exact Hmlt|lia|exact D3]. }
    pose proof (gi_wf _ _ GI2) as (U1 & U2 & U3).
    assert (Hcol_n : nget (colors s2) n = n).
    { destruct (Q4 n) as [E|(E & _)]; [|lia]. rewrite E. unfold s1. cbn [colors]. exact D1. }
    assert (Hcol_m : nget (colors s2) m = m).
    { destruct (Q4 m) as [E|(E & _)]; [|lia]. rewrite E. unfold s1. cbn [colors]. exact D3. }
    assert (Hroot_lt : (L root0 < L n)%Z) by (destruct Q3 as [->|Q3]; lia).
    set (s3 := mkSc (set_nth (colors s2) m n) (set_nth (roots s2) n root0) (prio s2)).
    assert (Hc3 : forall x, nget (colors s3) x = if Nat.eqb x m then n else nget (colors s2) x).
    { intros x. unfold s3. cbn [colors]. rewrite nget_set_nth.
      assert (Lt : Nat.ltb m (length (colors s2)) = true) by (apply Nat.ltb_lt; rewrite U1; exact Hmlt).
      rewrite Lt, Bool.andb_true_r. reflexivity. }
    assert (Hr3 : forall x, nget (roots s3) x = if Nat.eqb x n then root0 else nget (roots s2) x).
    { intros x. unfold s3. cbn [roots]. rewrite nget_set_nth.
      assert (Lt : Nat.ltb n (length (roots s2)) = true) by (apply Nat.ltb_lt; rewrite U2; exact Hnlt).
      rewrite Lt, Bool.andb_true_r. reflexivity. }
    assert (Hch3 : forall f, chosen s3 f <-> chosen s2 f) by (intros f; unfold chosen, s3; cbn [prio]; reflexivity).
    split.
    - (* the invariant after the updates *)
      constructor.
      + unfold sc_wf, s3. cbn [colors roots]. rewrite !length_set_nth. split; [exact U1|]. split; [exact U2|].
        intros i Hi. fold (nget (set_nth (roots s2) n root0) i).
        change (set_nth (roots s2) n root0) with (roots s3). rewrite Hr3.
        destruct (Nat.eqb i n); [apply (sp_range g P), Q2|apply U3, Hi].
      + intros k f Hf. apply (gi_key _ _ GI2 k f). exact Hf.
      + intros f Hf Hnp. apply Hch3 in Hf. rewrite Hc3.
        destruct (Nat.eqb_spec (eF f) m) as [E|E]; [rewrite E; auto|].
        apply (gi_col _ _ GI2 f Hf). intros [<-|Cp]; [apply E; reflexivity|contradiction].
      + intros f Hf Hnp. apply Hch3 in Hf. rewrite !Hr3.
        destruct (Nat.eq_dec f e) as [->|Hfe].
        * rewrite Te, Nat.eqb_refl. fold m. destruct (Nat.eqb_spec m n) as [E|E]; [contradiction|].
          symmetry. exact Hrm.
        * assert (Hnp2 : ~ In f (e :: pend)) by (intros [<-|Cp]; [apply Hfe; reflexivity|contradiction]).
          destruct Hf as [k Hf]. destruct (gi_key _ _ GI2 k f Hf) as (K1 & K2 & K3).
          destruct (Nat.eqb_spec (eT f) n) as [E|E].
          { exfalso. rewrite E, C in K3. inversion K3. apply Hfe. auto. }
          destruct (Nat.eqb_spec (eF f) n) as [E2|E2].
          { exfalso. apply (gi_col _ _ GI2 f (chosen_intro _ _ _ Hf) Hnp2). rewrite E2. exact Hcol_n. }
          apply (gi_root _ _ GI2 f (chosen_intro _ _ _ Hf) Hnp2).
      + intros x Hx Hr. rewrite Hr3 in Hr. destruct (Nat.eqb_spec x n) as [E|E].
        * exists e. split; [apply Hch3, Q6, Hche|rewrite E; exact Te].
        * destruct (gi_up _ _ GI2 x Hx Hr) as (f & Hf & Ef). exists f. split; [apply Hch3, Hf|exact Ef].
      + intros k f1 f2 Hf1 Hf2. apply (gi_ord _ _ GI2 k); assumption.
      + intros x Hx. rewrite Hr3. destruct (Nat.eqb_spec x n) as [E|E].
        * right. rewrite E. exact Hroot_lt.
        * apply (gi_r1 _ _ GI2 x Hx).
    - (* the postcondition *)
      unfold sc_post. fold s3.
      split. { intros _. rewrite Hr3, Nat.eqb_refl. reflexivity. }
      split; [exact Q2|]. split; [right; exact Hroot_lt|].
      split.
      { intros x. rewrite Hc3. destruct (Nat.eqb_spec x m) as [E|E].
        - right. rewrite E. split; [lia|]. split; [exact D3|auto].
        - destruct (Q4 x) as [Eq|(A1 & A2 & A3)].
          + left. rewrite Eq. reflexivity.
          + right. unfold s1 in A2. cbn [colors] in A2. split; [lia|]. split; [exact A2|exact A3]. }
      split.
      { intros x. rewrite Hr3. destruct (Nat.eqb_spec x n) as [E|E]; [right; left; exact E|].
        destruct (Q5 x) as [Eq|[Eq|Ne]].
        - left. rewrite Eq. reflexivity.
        - right. right. rewrite Hc3, Eq, Nat.eqb_refl. auto.
        - right. right. rewrite Hc3. destruct (Nat.eqb_spec x m) as [E2|E2]; [rewrite E2; auto|exact Ne]. }
      intros f Hf. apply Hch3, Q6, Hch1', Hf.
  Qed.
End Paint.

(** ** B2.4 The painting fold: bottom layer first *)

Lemma SS_all : forall (R : nat -> nat -> Prop) l, (forall a b, In a l -> In b l -> R a b) -> StronglySorted R l.
Proof.
  intros R l; induction l as [|x t IH]; intros H; constructor.
  - apply IH. intros a b Ha Hb. apply H; right; assumption.
  - apply Forall_forall. intros y Hy. apply H; [left; reflexivity|right; exact Hy].
Qed.

Lemma SS_split : forall (R : nat -> nat -> Prop) l1 a l2,
  StronglySorted R (l1 ++ a :: l2) -> forall v, In v l1 -> R v a.
Proof.
  intros R l1; induction l1 as [|x t IH]; intros a l2 H v Hv; [destruct Hv|].
  cbn [app] in H. inversion H as [|? ? Hs Hf]; subst. destruct Hv as [<-|Hv].
  - rewrite Forall_forall in Hf. apply Hf. apply in_or_app. right. left. reflexivity.
  - eapply IH; eassumption.
Qed.

Lemma flat_sorted : forall (R : nat -> nat -> Prop) (ls : list layer),
  (forall p q a b, (p <= q)%nat -> In a (l_nodes (nth p ls layer0)) -> In b (l_nodes (nth q ls layer0)) -> R a b) ->
  StronglySorted R (flat_map l_nodes ls).
Proof.
  intros R ls; induction ls as [|l t IH]; intros H; cbn [flat_map]; [constructor|].
  apply CrossCountProofs.StronglySorted_app.
  - apply SS_all. intros a b Ha Hb. apply (H 0%nat 0%nat); [lia|exact Ha|exact Hb].
  - apply IH. intros p q a b Hpq Ha Hb. apply (H (S p) (S q)); [lia|exact Ha|exact Hb].
  - intros a b Ha Hb. apply in_flat_map in Hb. destruct Hb as (l2 & Hl2 & Hb).
    destruct (In_nth _ _ layer0 Hl2) as (q & Hq & E).
    apply (H 0%nat (S q)); [lia|exact Ha|]. cbn [nth]. rewrite E. exact Hb.
Qed.

Lemma paint_order_sorted : forall g, sc_proper g ->
  StronglySorted (fun a b => (layer_of g b <= layer_of g a)%Z) (flat_map l_nodes (rev (g_L g))).
Proof.
  intros g P. apply flat_sorted. intros p q a b Hpq Ha Hb.
  assert (Hq : (q < length (g_L g))%nat).
  { destruct (Nat.lt_ge_cases q (length (g_L g))) as [Lt|Ge]; [exact Lt|].
    rewrite nth_overflow in Hb by (rewrite rev_length; exact Ge). destruct Hb. }
  rewrite rev_nth in Ha by lia. rewrite rev_nth in Hb by lia.
  fold (glayer g (length (g_L g) - S p)) in Ha. fold (glayer g (length (g_L g) - S q)) in Hb.
  rewrite (glayer_layer_of g _ a P Ha), (glayer_layer_of g _ b P Hb). lia.
Qed.

Section PaintFold.
  Variable g : graph.
  Hypothesis P : sc_proper g.
  Let na := length (g_na g).
  Let L := layer_of g.

  Definition pinv3 (vis : list nat) (s : scst) : Prop :=
    ginv g s [] /\
    forall x, (x < na)%nat -> nget (colors s) x = x -> nget (roots s) x <> x -> In x vis.

  Lemma paint_fold_ginv : forall ns vis s0 bw0 sf bwf,
    fold_left (paint_step g na) ns (Ok (s0, bw0)) = Ok (sf, bwf) ->
    (forall n, In n ns -> In n (g_N g)) ->
    StronglySorted (fun a b => (L b <= L a)%Z) (vis ++ ns) ->
    pinv3 vis s0 -> pinv3 (vis ++ ns) sf.
  Proof.
    induction ns as [|n t IH]; intros vis s0 bw0 sf bwf H HN HS Hinv; cbn [fold_left] in H.
    - inversion H; subst. rewrite app_nil_r. exact Hinv.
    - unfold paint_step at 2 in H. cbn [bind] in H.
      destruct (set_color (S na) g n s0) as [[[root w] s1]|e] eqn:R; cbn [bind] in H.
      2:{ rewrite paint_fold_err in H. discriminate. }
      replace (vis ++ n :: t) with ((vis ++ [n]) ++ t) in * by (rewrite <- app_assoc; reflexivity).
      apply (IH _ _ _ _ _ H); [intros k Hk; apply HN; right; exact Hk|exact HS|].
      destruct Hinv as [GI Hv].
      assert (Hn : In n (g_N g)) by (apply HN; left; reflexivity).
      assert (H7 : forall x, (x < na)%nat -> (L x < L n)%Z -> nget (colors s0) x = x -> nget (roots s0) x = x).
      { intros x Hx Hl Hc. destruct (Nat.eq_dec (nget (roots s0) x) x) as [E|E]; [exact E|]. exfalso.
        specialize (Hv x Hx Hc E).
        rewrite <- app_assoc in HS. cbn [app] in HS.
        pose proof (SS_split _ _ _ _ HS x Hv) as Q. cbv beta in Q. lia. }
      destruct (set_color_ginv g P (S na) n s0 root w s1 [] R Hn GI) as [GI1 Post].
      { intros f []. }
      { exact H7. }
      destruct Post as (_ & _ & _ & Q4 & Q5 & _).
      split; [exact GI1|]. intros x Hx Hc Hr.
      apply in_or_app.
      destruct (Q5 x) as [E|[E|E]]; [|right; left; auto|contradiction].
      left. apply Hv; [exact Hx| |rewrite <- E; exact Hr].
      destruct (Q4 x) as [E2|(_ & _ & E2)]; [rewrite <- E2; exact Hc|contradiction].
  Qed.

  Lemma ginv_init : pinv3 [] (fst (sc_init g)).
  Proof.
    unfold sc_init. cbv zeta. cbn [fst].
    assert (Hid : forall i, (i < na)%nat -> nget (iota 0 na) i = i).
    { intros i Hi. unfold nget. rewrite SinkColoringProofs.nth_iota by exact Hi. lia. }
    split.
    - constructor; cbn [colors roots prio].
      + unfold sc_wf. cbn [colors roots]. rewrite !length_iota. split; [reflexivity|]. split; [reflexivity|].
        intros i Hi. fold na. rewrite Hid by exact Hi. exact Hi.
      + intros k e [].
      + intros e [k []].
      + intros e [k []].
      + intros n Hn Hr. exfalso. apply Hr. apply Hid, Hn.
      + intros k e f [].
      + intros x Hx. left. apply Hid, Hx.
    - intros x Hx _ Hr. cbn [roots] in Hr. exfalso. apply Hr. apply Hid, Hx.
  Qed.

  Lemma sc_paint_ginv : forall sc bw, sc_paint g = Ok (sc, bw) -> ginv g sc [].
  Proof.
    intros sc bw H. unfold sc_paint in H.
    assert (E : sc_init g = (fst (sc_init g), snd (sc_init g))) by (destruct (sc_init g); reflexivity).
    rewrite E in H.
    apply (paint_fold_ginv _ [] _ _ _ _ H).
    - intros n Hn. apply (sp_N g P), in_layers_rev, Hn.
    - cbn [app]. apply paint_order_sorted, P.
    - apply ginv_init.
  Qed.
End PaintFold.

(** ** B2.5 The certificate: the blocks of the painting pass are ranked *)

Theorem sc_paint_ranked : forall g sc bw, sc_proper g -> sc_paint g = Ok (sc, bw) ->
  blocks_ranked g (roots sc) (S (length (g_N g))).
Proof.
  intros g sc bw P Hp. pose proof (sc_paint_ginv g P sc bw Hp) as GI.
  set (r := nget (roots sc)).
  set (up := fun b m => exists e, chosen sc e /\ e_to (gedge g e) = b /\ e_from (gedge g e) = m).
  set (ps := fun n => n_pos (gnode g n)).
  assert (Hlay : forall i, nth i (map l_nodes (g_L g)) [] = l_nodes (glayer g i)).
  { intros i. unfold glayer. change (@nil nat) with (l_nodes layer0). apply map_nth. }
  destruct (keys_exist (map l_nodes (g_L g)) r up ps) as [key Hkey].
  - intros i j x Hi Hj. rewrite Hlay in Hi, Hj.
    pose proof (glayer_layer_of g i x P Hi). pose proof (glayer_layer_of g j x P Hj). lia.
  - intros i. rewrite Hlay. apply NoDup_nth with (d := 0%nat). intros k k' Hk Hk' E.
    destruct (Nat.lt_ge_cases i (length (g_L g))) as [Hi|Hi].
    + destruct (sp_idx g P i k Hi Hk) as [_ A]. destruct (sp_idx g P i k' Hi Hk') as [_ B].
      rewrite E in A. lia.
    + unfold glayer in Hk. rewrite nth_overflow in Hk by exact Hi. cbn [l_nodes layer0 length] in Hk. lia.
  - intros i k Hk. rewrite Hlay in *. unfold ps.
    destruct (Nat.lt_ge_cases i (length (g_L g))) as [Hi|Hi].
    + apply (sp_idx g P i k Hi Hk).
    + unfold glayer in Hk. rewrite nth_overflow in Hk by exact Hi. cbn [l_nodes layer0 length] in Hk. lia.
  - (* U1 *)
    intros b m (e & [k He] & Eb & Em).
    destruct (gi_key g _ _ GI k e He) as (K1 & K2 & K3).
    destruct (cand_facts g P _ _ K2 K3) as (_ & Fe & Le & _).
    rewrite Eb in K2, Le. rewrite Em in Fe, Le.
    destruct (in_layers_idx g b (proj1 (sp_N g P b) K2)) as (j & kb & Hj & Hkb & Eqb).
    destruct (in_layers_idx g m (proj1 (sp_N g P m) Fe)) as (i & km & Hi & Hkm & Eqm).
    destruct (sp_idx g P j kb Hj Hkb) as [Lb _]. destruct (sp_idx g P i km Hi Hkm) as [Lm _].
    rewrite <- Eqb in Lb. rewrite <- Eqm in Lm.
    assert (j = S i) by lia. subst j.
    exists i. rewrite !Hlay. split; [rewrite Eqb; apply nth_In, Hkb|]. split; [rewrite Eqm; apply nth_In, Hkm|].
    unfold r. pose proof (gi_root g _ _ GI e (chosen_intro _ _ _ He) (fun x => x)) as Q.
    cbv beta zeta in Q. rewrite Eb, Em in Q. symmetry. exact Q.
  - (* U2 *)
    intros i b Hb. rewrite Hlay in Hb. destruct (glayer_in_layers g i b Hb) as [Hin _].
    assert (Hlt : (b < length (g_na g))%nat) by (apply (sp_range g P), (sp_N g P), Hin).
    destruct (Nat.eq_dec (r b) b) as [E|E]; [left; exact E|right].
    destruct (gi_up g _ _ GI b Hlt E) as (e & He & Te). exists (e_from (gedge g e)), e. auto.
  - (* U3 *)
    intros i j x c Hx Hc E. rewrite Hlay in Hx, Hc.
    destruct (glayer_in_layers g j x Hx) as [Hin _].
    assert (Hlt : (x < length (g_na g))%nat) by (apply (sp_range g P), (sp_N g P), Hin).
    destruct (gi_r1 g _ _ GI x Hlt) as [Q|Q].
    + right. unfold r in E. congruence.
    + left. fold (r x) in Q. rewrite E in Q.
      rewrite (glayer_layer_of g i c P Hc), (glayer_layer_of g j x P Hx) in Q. lia.
  - (* U4 *)
    intros i b b' m m' Hb Hb' (e & [k He] & Eb & Em) (f & [k' Hf] & Eb' & Em') Hlt.
    rewrite Hlay in Hb, Hb'.
    destruct (gi_key g _ _ GI k e He) as (K1 & _). destruct (gi_key g _ _ GI k' f Hf) as (K1' & _).
    rewrite Eb in K1. rewrite Eb' in K1'.
    rewrite (glayer_layer_of g i b P Hb) in K1. rewrite (glayer_layer_of g i b' P Hb') in K1'.
    subst k k'. unfold ps in *. rewrite <- Em, <- Em'.
    apply (gi_ord g _ _ GI _ e f He Hf). rewrite Eb, Eb'. exact Hlt.
  - exists (rk_of key (g_N g) r). split.
    + intros l k Hl Hk. destruct (In_nth _ _ layer0 Hl) as (i & Hi & E).
      specialize (Hkey i k). rewrite Hlay in Hkey. unfold glayer in Hkey. rewrite E in Hkey.
      specialize (Hkey Hk). apply rk_of_lt; [|exact Hkey].
      apply (sp_N g P). eapply in_layers_intro; [exact Hl|apply nth_In; lia].
    + intros c. apply rk_of_bound.
Qed.
Print Assumptions sc_paint_ranked.

Lemma sc_proper_ranked : forall g, sc_proper g -> sc_ranked g.
Proof.
  intros g P sc bw Hp. eapply blocks_ranked_mono; [apply (sc_paint_ranked g sc bw P Hp)|].
  unfold sc_fuel. nia.
Qed.

(** ** The default positioner always returns on well-formed input *)
Theorem exec_sink_coloring_total : forall s g, sc_proper g -> exists g', exec_sink_coloring s g = Ok g'.
Proof.
  intros s g P. apply exec_sink_coloring_total_partial; [apply sc_proper_layered, P|apply sc_proper_ranked, P].
Qed.
Print Assumptions exec_sink_coloring_total.

Theorem phase4_sink_coloring_total : forall p g, sc_proper g -> exists g', phase4 SinkColoring p g = Ok g'.
Proof.
  intros p g P. apply phase4_sink_coloring_total_partial; [apply sc_proper_layered, P|apply sc_proper_ranked, P].
Qed.
Print Assumptions phase4_sink_coloring_total.

(** ** B2.6 The pipeline predicates imply [sc_proper] *)
Lemma layered_sc_proper : forall g,
  WmedianProofs.layered g ->
  (forall e, In e (g_E g) -> (layer_of g (e_to (gedge g e)) - layer_of g (e_from (gedge g e)) = 1)%Z) ->
  (forall k j, (j < length (l_nodes (glayer g k)))%nat ->
     n_pos (gnode g (nth j (l_nodes (glayer g k)) 0%nat)) = Z.of_nat j) ->
  sc_proper g.
Proof.
  intros g Ly Hspan Hpos. constructor.
  - apply (WmedianProofs.ly_range g Ly).
  - intros n. split.
    + intros Hn. destruct (WmedianProofs.ly_lrange g Ly n Hn) as [A B].
      assert (H : In n (CrossCountProofs.lnodes g (Z.to_nat (layer_of g n)))).
      { apply (WmedianProofs.ly_layer g Ly). split; [exact Hn|lia]. }
      unfold CrossCountProofs.lnodes in H. apply (glayer_in_layers g _ n H).
    + intros Hn. apply (scl_layers g (layered_sc_layered g Ly Hspan)), Hn.
  - intros i k Hi Hk. split; [|apply Hpos, Hk].
    assert (H : In (nth k (l_nodes (glayer g i)) 0%nat) (CrossCountProofs.lnodes g i)).
    { unfold CrossCountProofs.lnodes. apply nth_In, Hk. }
    apply (WmedianProofs.ly_layer g Ly) in H. apply H.
  - intros n e Hn He. apply (WmedianProofs.ly_in g Ly n Hn) in He. destruct He as [He Et].
    split; [exact Et|]. split; [apply (WmedianProofs.ly_ends g Ly e He)|].
    specialize (Hspan e He). rewrite Et in Hspan. lia.
Qed.

(* ====================================================================================== *)
(** * D. A boolean checker for [sc_layered], and concrete instances                        *)
(* ====================================================================================== *)

Definition sc_layered_b (g : graph) : bool :=
  forallb (fun n => Nat.ltb n (length (g_na g))) (g_N g) &&
  forallb (fun n => mem_nat n (g_N g)) (flat_map l_nodes (g_L g)) &&
  forallb (fun n => forallb (fun e => Nat.eqb (e_to (gedge g e)) n && mem_nat (e_from (gedge g e)) (g_N g) &&
                                      (layer_of g (e_from (gedge g e)) <=? layer_of g n)%Z)
                            (n_in (gnode g n))) (g_N g).

Lemma sc_layered_b_sound : forall g, sc_layered_b g = true -> sc_layered g.
Proof.
  intros g H. unfold sc_layered_b in H.
  apply andb_true_iff in H. destruct H as [H H3]. apply andb_true_iff in H. destruct H as [H1 H2].
  rewrite forallb_forall in H1, H2, H3. constructor.
  - intros n Hn. apply Nat.ltb_lt, H1, Hn.
  - intros n Hn. apply ListLemmas.mem_nat_In, H2, Hn.
  - intros n e Hn He. specialize (H3 n Hn). rewrite forallb_forall in H3. specialize (H3 e He).
    apply andb_true_iff in H3. destruct H3 as [H3 C]. apply andb_true_iff in H3. destruct H3 as [A B].
    split; [apply Nat.eqb_eq, A|]. split; [apply ListLemmas.mem_nat_In, B|apply Z.leb_le, C].
Qed.

(** ** Instance 1: [sx_g] of SinkColoringProofs.v (2 layers, blocks {0,2} and {1,3}); placeBlock needs 2 rounds *)
Example sx_sc_layered : sc_layered sx_g.
Proof. apply sc_layered_b_sound. vm_compute. reflexivity. Qed.

Example sx_sc_ranked : sc_ranked sx_g.
Proof.
  intros sc bw H. vm_compute in H. inversion H; subst sc bw. clear H.
  exists (fun r => if Nat.eqb r 0 then 0%nat else 1%nat). split.
  - intros l k [<-|[<-|[]]] Hk; cbn [l_nodes length] in Hk;
      (destruct k as [|k]; [vm_compute; lia|lia]).
  - intros r. unfold sc_fuel. cbn [sx_g g_N length]. destruct (Nat.eqb r 0); lia.
Qed.

Example sx_total : exists g', exec_sink_coloring 5 sx_g = Ok g'.
Proof. apply exec_sink_coloring_total_partial; [exact sx_sc_layered|exact sx_sc_ranked]. Qed.

Example sx_phase4_total : forall p, exists g', phase4 SinkColoring p sx_g = Ok g'.
Proof. intros p. apply phase4_sink_coloring_total_partial; [exact sx_sc_layered|exact sx_sc_ranked]. Qed.

(* number of rounds of placeBlock: one round is not enough on [sx_g], two are *)
Example sx_rounds :
  match sc_paint sx_g with
  | Ok (sc, bw) =>
      let xc0 := sc_pack 5 sx_g bw (roots sc) in
      let bm0 := sc_bm sx_g (roots sc) xc0 in
      (is_ok (place_block 1 sx_g bw (roots sc) 5 (sc_lmax sx_g) xc0 bm0),
       is_ok (place_block 2 sx_g bw (roots sc) 5 (sc_lmax sx_g) xc0 bm0))
  | Err _ => (false, false)
  end = (false, true).
Proof. vm_compute. reflexivity. Qed.

(** ** Instance 2: a staircase over 3 layers (9 nodes, edges 2->3 and 5->6, blocks {2,3} and {5,6});
       the blocks are ranked by 0,1,2=3,4,5=6,7,8 and placeBlock needs 3 rounds *)
Definition st_w (i : nat) : Q := inject_Z (Z.of_nat (10 + 7 * i)).
Definition st_g : graph :=
  mkGraph [sx_node [] [] 0 0 (st_w 0) 10; sx_node [] [] 0 1 (st_w 1) 10; sx_node [] [0]%nat 0 2 (st_w 2) 10;
           sx_node [0]%nat [] 1 0 (st_w 3) 10; sx_node [] [] 1 1 (st_w 4) 10; sx_node [] [1]%nat 1 2 (st_w 5) 10;
           sx_node [1]%nat [] 2 0 (st_w 6) 10; sx_node [] [] 2 1 (st_w 7) 10; sx_node [] [] 2 2 (st_w 8) 10]
          [sx_edge 2 3; sx_edge 5 6] [0; 1; 2; 3; 4; 5; 6; 7; 8]%nat [0; 1]%nat
          [mkLayer [0; 1; 2]%nat 0 0; mkLayer [3; 4; 5]%nat 0 0; mkLayer [6; 7; 8]%nat 0 0].

Example st_sc_layered : sc_layered st_g.
Proof. apply sc_layered_b_sound. vm_compute. reflexivity. Qed.

Example st_roots :
  match sc_paint st_g with Ok (sc, _) => Some (roots sc) | Err _ => None end
  = Some [0; 1; 2; 2; 4; 5; 5; 7; 8]%nat.
Proof. vm_compute. reflexivity. Qed.

Example st_sc_ranked : sc_ranked st_g.
Proof.
  intros sc bw H. vm_compute in H. inversion H; subst sc bw. clear H.
  (* rank of a root: 0,1 | 2 | 4 | 5 | 7,8 in the order 0 < 1 < 2 < 4 < 5 < 7 < 8 *)
  exists (fun r => Nat.min r 8). split.
  - intros l k [<-|[<-|[<-|[]]]] Hk; cbn [l_nodes length] in Hk;
      (destruct k as [|[|k]]; [vm_compute; lia|vm_compute; lia|lia]).
  - intros r. unfold sc_fuel. cbn [st_g g_N length]. lia.
Qed.

Example st_total : exists g', exec_sink_coloring 5 st_g = Ok g'.
Proof. apply exec_sink_coloring_total_partial; [exact st_sc_layered|exact st_sc_ranked]. Qed.

Example st_rounds :
  match sc_paint st_g with
  | Ok (sc, bw) =>
      let xc0 := sc_pack 5 st_g bw (roots sc) in
      let bm0 := sc_bm st_g (roots sc) xc0 in
      (is_ok (place_block 2 st_g bw (roots sc) 5 (sc_lmax st_g) xc0 bm0),
       is_ok (place_block 3 st_g bw (roots sc) 5 (sc_lmax st_g) xc0 bm0))
  | Err _ => (false, false)
  end = (false, true).
Proof. vm_compute. reflexivity. Qed.

(** ** A boolean checker for [sc_proper] *)
Definition sc_proper_b (g : graph) : bool :=
  forallb (fun n => Nat.ltb n (length (g_na g))) (g_N g) &&
  forallb (fun n => mem_nat n (flat_map l_nodes (g_L g))) (g_N g) &&
  forallb (fun n => mem_nat n (g_N g)) (flat_map l_nodes (g_L g)) &&
  forallb (fun i => forallb (fun k => let n := nth k (l_nodes (glayer g i)) 0%nat in
                                      (layer_of g n =? Z.of_nat i)%Z && (n_pos (gnode g n) =? Z.of_nat k)%Z)
                            (iota 0 (length (l_nodes (glayer g i))))) (iota 0 (length (g_L g))) &&
  forallb (fun n => forallb (fun e => Nat.eqb (e_to (gedge g e)) n && mem_nat (e_from (gedge g e)) (g_N g) &&
                                      (layer_of g (e_from (gedge g e)) + 1 =? layer_of g n)%Z)
                            (n_in (gnode g n))) (g_N g).

Lemma sc_proper_b_sound : forall g, sc_proper_b g = true -> sc_proper g.
Proof.
  intros g H. unfold sc_proper_b in H.
  apply andb_true_iff in H. destruct H as [H H5]. apply andb_true_iff in H. destruct H as [H H4].
  apply andb_true_iff in H. destruct H as [H H3]. apply andb_true_iff in H. destruct H as [H1 H2].
  rewrite forallb_forall in H1, H2, H3, H4, H5. constructor.
  - intros n Hn. apply Nat.ltb_lt, H1, Hn.
  - intros n. split; intros Hn.
    + apply ListLemmas.mem_nat_In, H2, Hn.
    + apply ListLemmas.mem_nat_In, H3, Hn.
  - intros i k Hi Hk. assert (Hi' : In i (iota 0 (length (g_L g)))) by (apply in_iota; lia).
    specialize (H4 i Hi'). rewrite forallb_forall in H4.
    assert (Hk' : In k (iota 0 (length (l_nodes (glayer g i))))) by (apply in_iota; lia).
    specialize (H4 k Hk'). cbv zeta in H4. apply andb_true_iff in H4. destruct H4 as [A B].
    split; [apply Z.eqb_eq, A|apply Z.eqb_eq, B].
  - intros n e Hn He. specialize (H5 n Hn). rewrite forallb_forall in H5. specialize (H5 e He).
    apply andb_true_iff in H5. destruct H5 as [H5 C]. apply andb_true_iff in H5. destruct H5 as [A B].
    split; [apply Nat.eqb_eq, A|]. split; [apply ListLemmas.mem_nat_In, B|apply Z.eqb_eq, C].
Qed.

(** ** The unconditional theorems on the two instances *)
Example sx_sc_proper : sc_proper sx_g.
Proof. apply sc_proper_b_sound. vm_compute. reflexivity. Qed.

Example st_sc_proper : sc_proper st_g.
Proof. apply sc_proper_b_sound. vm_compute. reflexivity. Qed.

Example sx_total_full : forall s, exists g', exec_sink_coloring s sx_g = Ok g'.
Proof. intros s. apply exec_sink_coloring_total, sx_sc_proper. Qed.

Example st_total_full : forall p, exists g', phase4 SinkColoring p st_g = Ok g'.
Proof. intros p. apply phase4_sink_coloring_total, st_sc_proper. Qed.

(** ** The hypotheses are needed: inputs outside [sc_proper] on which placeBlock does not terminate
       (the model runs out of its |N|*|N|+9 rounds; the Go loop "for shifted" would spin forever).

    [bad_pos_g]: two crossing edges 0->2, 1->3 (layers [0;1] and [3;2]) whose LayerPos fields are all 0, so that
    the crossing test of setColor does not see the crossing: blocks {0,2} and {1,3} are left of each other.
    [bad_span_g]: an edge 0->4 spanning two layers next to the chain 1->2->3: the blocks {0,4} and {1,2,3} are
    left of each other in layers 0 and 2. Both inputs satisfy [sc_layered] (the painting terminates), neither
    satisfies [sc_proper], and neither has a rank function. *)
Definition bad_pos_g : graph :=
  mkGraph [sx_node [] [0]%nat 0 0 10 4; sx_node [] [1]%nat 0 0 10 4;
           sx_node [0]%nat [] 1 0 10 4; sx_node [1]%nat [] 1 0 10 4]
          [sx_edge 0 2; sx_edge 1 3] [0; 1; 2; 3]%nat [0; 1]%nat
          [mkLayer [0; 1]%nat 0 0; mkLayer [3; 2]%nat 0 0].

Definition bad_span_g : graph :=
  mkGraph [sx_node [] [0]%nat 0 0 10 4; sx_node [] [1]%nat 0 1 10 4;
           sx_node [1]%nat [2]%nat 1 0 10 4;
           sx_node [2]%nat [] 2 0 10 4; sx_node [0]%nat [] 2 1 10 4]
          [sx_edge 0 4; sx_edge 1 2; sx_edge 2 3] [0; 1; 2; 3; 4]%nat [0; 1; 2]%nat
          [mkLayer [0; 1]%nat 0 0; mkLayer [2]%nat 0 0; mkLayer [3; 4]%nat 0 0].

Example bad_pos_diverges :
  sc_layered_b bad_pos_g = true /\ sc_proper_b bad_pos_g = false /\
  exec_sink_coloring 5 bad_pos_g = Err (ErrFuel 42).
Proof. vm_compute. auto. Qed.

Example bad_span_diverges :
  sc_layered_b bad_span_g = true /\ sc_proper_b bad_span_g = false /\
  exec_sink_coloring 5 bad_span_g = Err (ErrFuel 42).
Proof. vm_compute. auto. Qed.

(* with correct positions the crossing is seen and the run succeeds *)
Definition good_pos_g : graph :=
  mkGraph [sx_node [] [0]%nat 0 0 10 4; sx_node [] [1]%nat 0 1 10 4;
           sx_node [0]%nat [] 1 1 10 4; sx_node [1]%nat [] 1 0 10 4]
          [sx_edge 0 2; sx_edge 1 3] [0; 1; 2; 3]%nat [0; 1]%nat
          [mkLayer [0; 1]%nat 0 0; mkLayer [3; 2]%nat 0 0].

Example good_pos_ok : sc_proper_b good_pos_g = true /\ is_ok (exec_sink_coloring 5 good_pos_g) = true.
Proof. vm_compute. auto. Qed.

(** ** A sharper bound: on proper input placeBlock needs at most |N|+2 rounds (the model allows |N|*|N|+9) *)
Theorem place_block_rounds_bound : forall s g sc bw, sc_proper g -> sc_paint g = Ok (sc, bw) ->
  let xc0 := sc_pack s g bw (roots sc) in
  exists xcf, place_block (length (g_N g) + 2) g bw (roots sc) s (sc_lmax g) xc0 (sc_bm g (roots sc) xc0) = Ok xcf.
Proof.
  intros s g sc bw P Hp xc0.
  pose proof (sc_proper_layered g P) as W.
  assert (Hlt : forall n, in_layers g n -> (n < length (g_na g))%nat).
  { intros n Hn. apply (scl_range g W), (scl_layers g W), Hn. }
  pose proof (sc_paint_wf g sc bw Hp Hlt) as (_ & _ & Hroots).
  apply (place_block_total g bw (roots sc) s (sc_lmax g) (S (length (g_N g)))).
  - apply (sc_paint_ranked g sc bw P Hp).
  - apply (scl_layers g W).
  - intros n Hn. unfold xc0. rewrite sc_pack_length. apply Hlt, Hn.
  - intros n Hn. rewrite sc_bm_length. apply Hroots, Hlt, Hn.
  - apply sc_lmax_ge.
  - lia.
Qed.
Print Assumptions place_block_rounds_bound.
Print Assumptions layered_sc_proper.
