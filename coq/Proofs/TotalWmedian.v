(* TotalWmedian.v — totality of the ordering heuristic (Model/Wmedian.v): on a layered graph without flat edges
   exec_wmedian returns Ok, i.e. the fuel of the model always suffices.

   T1  init_positions_total   the DFS of initPositions never runs out of its fuel S (length (g_na g))
   T2  transpose_total        a round of transpose that reports an improvement strictly decreases
                              reported_crossings; hence fuel S (Z.to_nat (reported_crossings g)) suffices
   T3  wmedian_run_total, exec_wmedian_total, phase3_wmedian_total *)
From Autog Require Import Wmedian.
From Autog Require Import CrossCountProofs ListLemmas WmedianProofs TreeProofs.
From Coq Require Import ZifyNat Permutation Sorted.

(* ====================================================================================================== *)
(* 1. initPositions                                                                                       *)
(* ====================================================================================================== *)
Section InitTotal.
  Variable g0 : graph.
  Hypothesis L0 : layered g0.

  (* the visited nodes are distinct arena indices *)
  Lemma ip_vis_bound : forall st, ip_inv g0 st -> (length (st_vis st) <= length (g_na g0))%nat.
  Proof.
    intros st [_ [_ [HN [V _]]]].
    rewrite <- (seq_length (length (g_na g0)) 0).
    apply NoDup_incl_length; [apply (vis_ok_nodup g0 (st_g st)); exact V|].
    intros n Hn. apply in_seq. pose proof (ly_range _ L0 n (HN n Hn)). lia.
  Qed.

  Lemma ip_vis_mono : forall st st', ip_inv g0 st ->
    (forall m, In m (st_vis st) -> In m (st_vis st')) -> (length (st_vis st) <= length (st_vis st'))%nat.
  Proof.
    intros st st' [_ [_ [_ [V _]]]] M.
    apply NoDup_incl_length; [apply (vis_ok_nodup g0 (st_g st)); exact V|exact M].
  Qed.

  Section LoopT.
    Variable top : bool.
    Variable f : nat.
    Hypothesis IHf : forall n st, In n (g_N g0) -> ip_inv g0 st ->
      (length (g_na g0) < f + length (st_vis st))%nat -> exists st', init_pos top f n st = Ok st'.

    Lemma ip_loop_total : forall es st,
      (forall e, In e es -> In (if top then e_to (gedge g0 e) else e_from (gedge g0 e)) (g_N g0)) ->
      ip_inv g0 st -> (length (g_na g0) < f + length (st_vis st))%nat ->
      exists st', ip_loop (init_pos top f) top es st = Ok st'.
    Proof.
      induction es as [|e t IH]; intros st Hes Iv Hf; cbn [ip_loop].
      - exists st. reflexivity.
      - destruct st as [[g vis] idx].
        assert (Eg : gedge g e = gedge g0 e) by (apply of_gedge; apply Iv).
        rewrite Eg.
        pose proof (Hes e (or_introl eq_refl)) as Hm.
        destruct (IHf _ (g, vis, idx) Hm Iv Hf) as [st1 E1]. rewrite E1. cbn [bind].
        destruct (init_pos_inv g0 L0 top f _ _ _ Hm Iv E1) as [I1 [M1 _]].
        apply IH; [intros e' He'; apply Hes; right; exact He'|exact I1|].
        pose proof (ip_vis_mono _ _ Iv M1). lia.
    Qed.
  End LoopT.

  (* the recursion depth is bounded by the number of nodes not yet visited *)
  Lemma init_pos_total : forall top fuel n st,
    In n (g_N g0) -> ip_inv g0 st -> (length (g_na g0) < fuel + length (st_vis st))%nat ->
    exists st', init_pos top fuel n st = Ok st'.
  Proof.
    intros top; induction fuel as [|f IH]; intros n st Hn Iv Hf.
    - pose proof (ip_vis_bound st Iv). lia.
    - destruct st as [[g vis] idx]. rewrite init_pos_S.
      destruct (mem_nat n vis) eqn:Em; [eexists; reflexivity|].
      apply mem_nat_false in Em. cbv zeta.
      pose proof (ip_visit g0 L0 g vis idx n Iv Hn Em) as I1.
      assert (F : oframe g0 g) by apply Iv.
      apply (ip_loop_total top f IH); [|exact I1|].
      + set (g1 := upd_node g n (set_pos (idx_get idx (layer_of g n)))).
        assert (F1 : oframe g0 g1) by (eapply oframe_trans; [exact F|apply oframe_upd_pos]).
        intros e He. destruct top.
        * rewrite (of_n_out _ _ n F1) in He. apply (ly_out _ L0 n Hn) in He. apply (ly_ends _ L0). tauto.
        * rewrite (of_n_in _ _ n F1) in He. apply (ly_in _ L0 n Hn) in He. apply (ly_ends _ L0). tauto.
      + unfold st_vis in *. cbn [fst snd length] in *. lia.
  Qed.

  Lemma ip_fold_total : forall top l st,
    (forall n, In n l -> In n (g_N g0)) -> ip_inv g0 st ->
    exists st', fold_left (fun (r : res ip_st) n => do st <- r; init_pos top (S (length (g_na g0))) n st) l (Ok st) = Ok st'.
  Proof.
    intros top; induction l as [|x l IH]; intros st Hl Iv; cbn [fold_left bind].
    - exists st. reflexivity.
    - assert (Hx : In x (g_N g0)) by (apply Hl; left; reflexivity).
      destruct (init_pos_total top (S (length (g_na g0))) x st Hx Iv) as [st1 E1]; [lia|].
      rewrite E1.
      destruct (init_pos_inv g0 L0 top _ _ _ _ Hx Iv E1) as [I1 _].
      apply IH; [intros n Hn; apply Hl; right; exact Hn|exact I1].
  Qed.

  Theorem init_positions_total : forall top, exists g', init_positions top g0 = Ok g'.
  Proof.
    intros top. unfold init_positions. cbv zeta.
    set (first := if top then l_nodes (glayer g0 0) else l_nodes (glayer g0 (length (g_L g0) - 1))).
    assert (I0 : ip_inv g0 (g0, [], [])).
    { unfold ip_inv, st_g, st_vis, st_idx; cbn [fst snd]. split; [apply oframe_refl|]. split; [reflexivity|].
      split; [intros n []|]. split; [exact I|]. intros ln. reflexivity. }
    destruct (ip_fold_total top (first ++ g_N g0) (g0, [], [])) as [st E]; [|exact I0|].
    - intros n Hn. apply in_app_or in Hn. destruct Hn as [Hn|Hn]; [|exact Hn].
      unfold first in Hn. destruct top; apply (ly_layer _ L0) in Hn; tauto.
    - match goal with |- exists g', bind ?X _ = _ => replace X with (@Ok ip_st st) by (symmetry; exact E) end.
      cbn [bind]. destruct st as [[g1 vis] idx]. exists g1. reflexivity.
  Qed.
End InitTotal.
Print Assumptions init_positions_total.

(* ====================================================================================================== *)
(* 2. count_crossings only reads the two layers it is given                                               *)
(* ====================================================================================================== *)
(* a finer congruence than WmedianProofs.count_crossings_congr: the two graphs may differ in the positions of
   the nodes of all other layers, and in the order of the two node lists *)
Section Local.
  Variables g1 g2 : graph.
  Variables i1 i2 : nat.
  Hypothesis Hea : g_ea g1 = g_ea g2.
  Hypothesis Hnode : forall n, set_pos 0 (gnode g1 n) = set_pos 0 (gnode g2 n).
  Hypothesis Hpos : forall n, layer_of g1 n = Z.of_nat i1 \/ layer_of g1 n = Z.of_nat i2 -> pos_of g1 n = pos_of g2 n.
  Hypothesis HP1 : Permutation (lnodes g1 i1) (lnodes g2 i1).
  Hypothesis HP2 : Permutation (lnodes g1 i2) (lnodes g2 i2).

  Let good (ui li : nat) : Prop := (ui = i1 /\ li = i2) \/ (ui = i2 /\ li = i1).

  Lemma local_gedge : forall e, gedge g1 e = gedge g2 e.
  Proof. intros e. unfold gedge. rewrite Hea. reflexivity. Qed.

  Lemma local_layer_of : forall n, layer_of g1 n = layer_of g2 n.
  Proof. intros n. unfold layer_of. apply (set_pos_fields _ _ (Hnode n)). Qed.

  Lemma local_all_edges : forall n, all_edges g1 n = all_edges g2 n.
  Proof.
    intros n. unfold all_edges. destruct (set_pos_fields _ _ (Hnode n)) as [A [B _]]. rewrite A, B. reflexivity.
  Qed.

  Lemma local_cc_fun : forall ui li e, good ui li ->
    cc_fun g1 (Z.of_nat ui) (Z.of_nat li) e = cc_fun g2 (Z.of_nat ui) (Z.of_nat li) e.
  Proof.
    intros ui li e G. unfold cc_fun. rewrite <- !local_gedge, <- !local_layer_of.
    set (a := e_from (gedge g1 e)). set (b := e_to (gedge g1 e)).
    destruct ((Z.min (layer_of g1 a) (layer_of g1 b) =? Z.min (Z.of_nat ui) (Z.of_nat li)) &&
              (Z.max (layer_of g1 a) (layer_of g1 b) =? Z.max (Z.of_nat ui) (Z.of_nat li)))%bool eqn:E; [|reflexivity].
    apply andb_true_iff in E. destruct E as [E1 E2]. apply Z.eqb_eq in E1. apply Z.eqb_eq in E2.
    assert (Pa : pos_of g1 a = pos_of g2 a) by (apply Hpos; unfold good in G; lia).
    assert (Pb : pos_of g1 b = pos_of g2 b) by (apply Hpos; unfold good in G; lia).
    rewrite Pa, Pb. reflexivity.
  Qed.

  Lemma local_cc_pairs : forall ui li k x, good ui li -> k = i1 \/ k = i2 ->
    In x (cc_pairs g1 (Z.of_nat ui) (Z.of_nat li) (lnodes g1 k)) <->
    In x (cc_pairs g2 (Z.of_nat ui) (Z.of_nat li) (lnodes g2 k)).
  Proof.
    intros ui li k x G Hk. rewrite !cc_pairs_flat, !in_flat_map.
    assert (P : Permutation (lnodes g1 k) (lnodes g2 k)) by (destruct Hk as [->| ->]; assumption).
    split.
    - intros [n [Hn H]]. exists n. split; [apply (Permutation_in _ P); exact Hn|].
      rewrite <- local_all_edges. rewrite in_flat_map in *. destruct H as [e [He H]].
      exists e. split; [exact He|]. rewrite <- local_cc_fun by exact G. exact H.
    - intros [n [Hn H]]. exists n. split; [apply (Permutation_in _ (Permutation_sym P)); exact Hn|].
      rewrite local_all_edges. rewrite in_flat_map in *. destruct H as [e [He H]].
      exists e. split; [exact He|]. rewrite local_cc_fun by exact G. exact H.
  Qed.

  Lemma count_crossings_local : count_crossings g1 i1 i2 = count_crossings g2 i1 i2.
  Proof.
    unfold count_crossings.
    pose proof (Permutation_length HP1) as E1. pose proof (Permutation_length HP2) as E2.
    unfold lnodes in E1, E2. rewrite E1, E2.
    destruct (_ || _); [reflexivity|].
    destruct (Nat.ltb _ _); rewrite ?E1, ?E2; f_equal; apply radix_targets_ext; intros x.
    - apply (local_cc_pairs i1 i2 i1 x); unfold good; tauto.
    - apply (local_cc_pairs i2 i1 i2 x); unfold good; tauto.
  Qed.
End Local.

(* ====================================================================================================== *)
(* 3. reported_crossings = crossings_around g l + the terms that do not touch layer l                     *)
(* ====================================================================================================== *)
Definition sumf (f : nat -> Z) (l : list nat) : Z := fold_left (fun s i => s + f i) l 0.

Lemma sumf_acc : forall f l a, fold_left (fun s i => s + f i) l a = a + sumf f l.
Proof.
  intros f; induction l as [|x l IH]; intros a; unfold sumf; cbn [fold_left]; [lia|].
  rewrite (IH (a + f x)), (IH (0 + f x)). unfold sumf. lia.
Qed.

Lemma sumf_cons : forall f x l, sumf f (x :: l) = f x + sumf f l.
Proof. intros f x l. unfold sumf at 1. cbn [fold_left]. rewrite sumf_acc. lia. Qed.

Lemma sumf_nil : forall f, sumf f [] = 0.
Proof. reflexivity. Qed.

Lemma sumf_ext_in : forall f h l, (forall i, In i l -> f i = h i) -> sumf f l = sumf h l.
Proof.
  intros f h; induction l as [|x l IH]; intros H; [reflexivity|].
  rewrite !sumf_cons, (H x (or_introl eq_refl)), IH; [reflexivity|]. intros i Hi; apply H; right; exact Hi.
Qed.

Lemma sumf_add : forall f h l, sumf (fun i => f i + h i) l = sumf f l + sumf h l.
Proof.
  intros f h; induction l as [|x l IH]; [reflexivity|]. rewrite !sumf_cons, IH. lia.
Qed.

Lemma sumf_zero : forall f l, (forall i, In i l -> f i = 0) -> sumf f l = 0.
Proof.
  intros f; induction l as [|x l IH]; intros H; [reflexivity|].
  rewrite sumf_cons, (H x (or_introl eq_refl)), IH; [reflexivity|]. intros i Hi; apply H; right; exact Hi.
Qed.

(* the sum of a function that vanishes off a single index *)
Lemma sumf_single : forall f a n s,
  sumf (fun i => if Nat.eqb i a then f i else 0) (iota s n) = if (Nat.leb s a && Nat.ltb a (s + n))%bool then f a else 0.
Proof.
  intros f a; induction n as [|n IH]; intros s; cbn [iota].
  - rewrite sumf_nil. destruct (Nat.leb_spec s a), (Nat.ltb_spec a (s + 0)); cbn [andb]; try reflexivity; lia.
  - rewrite sumf_cons, IH.
    destruct (Nat.eqb_spec s a) as [->|Ne].
    + destruct (Nat.leb_spec (S a) a); [lia|]. cbn [andb].
      destruct (Nat.leb_spec a a); [|lia]. destruct (Nat.ltb_spec a (a + S n)); [|lia]. cbn [andb]. lia.
    + destruct (Nat.leb_spec (S s) a), (Nat.leb_spec s a), (Nat.ltb_spec a (S s + n)), (Nat.ltb_spec a (s + S n));
        cbn [andb]; try reflexivity; lia.
Qed.

Lemma reported_sumf : forall g,
  reported_crossings g = sumf (fun i => count_crossings g i (S i)) (iota 0 (Nat.pred (length (g_L g)))).
Proof. reflexivity. Qed.

Lemma count_crossings_oob_r : forall g i j, (length (g_L g) <= j)%nat -> count_crossings g i j = 0.
Proof.
  intros g i j H. unfold count_crossings. fold (lnodes g j). rewrite (lnodes_out g H). cbn [length].
  rewrite orb_true_r. reflexivity.
Qed.

(* the part of the sum that does not read layer l *)
Definition rest_crossings (g : graph) (l : nat) : Z :=
  sumf (fun i => if (Nat.eqb (S i) l || Nat.eqb i l)%bool then 0 else count_crossings g i (S i))
       (iota 0 (Nat.pred (length (g_L g)))).

Lemma reported_split : forall g l, (l < length (g_L g))%nat ->
  reported_crossings g = crossings_around g l + rest_crossings g l.
Proof.
  intros g l Hl. rewrite reported_sumf. unfold rest_crossings.
  set (nl := length (g_L g)) in *. set (f := fun i => count_crossings g i (S i)).
  rewrite (sumf_ext_in f (fun i => ((if Nat.eqb (S i) l then f i else 0) + (if Nat.eqb i l then f i else 0)) +
                                   (if (Nat.eqb (S i) l || Nat.eqb i l)%bool then 0 else f i))).
  2:{ intros i _. destruct (Nat.eqb_spec (S i) l), (Nat.eqb_spec i l); cbn [orb]; lia. }
  rewrite !sumf_add. f_equal.
  rewrite (sumf_single f l (Nat.pred nl) 0).
  unfold crossings_around. fold nl.
  destruct l as [|l'].
  - cbn [Nat.eqb]. rewrite (sumf_zero (fun _ => 0)) by reflexivity.
    cbn [Nat.leb andb Nat.add]. destruct (Nat.ltb_spec 0 (Nat.pred nl)); [reflexivity|].
    unfold f. rewrite count_crossings_oob_r; [reflexivity|]. fold nl. lia.
  - rewrite (sumf_ext_in (fun i => if Nat.eqb (S i) (S l') then f i else 0) (fun i => if Nat.eqb i l' then f i else 0))
      by (intros i _; reflexivity).
    rewrite (sumf_single f l' (Nat.pred nl) 0).
    cbn [Nat.leb andb Nat.add]. replace (S l' - 1)%nat with l' by lia.
    destruct (Nat.ltb_spec l' (Nat.pred nl)); [|lia].
    destruct (Nat.eqb_spec (S l') 0); [lia|].
    destruct (Nat.eqb_spec (S l') (nl - 1)), (Nat.ltb_spec (S l') (Nat.pred nl)); unfold f; lia.
Qed.

(* ====================================================================================================== *)
(* 4. transpose: an accepted exchange strictly decreases reported_crossings                               *)
(* ====================================================================================================== *)
Lemma swapped_L_length : forall g l i j, length (g_L (swapped g l i j)) = length (g_L g).
Proof. intros. unfold swapped, upd_layer, with_L. cbn [g_L]. rewrite upd_length. reflexivity. Qed.

(* (a) storing the exchanged list in the layer does not change any count: the counter does not look at the order *)
Lemma count_crossings_swapped : forall g l i j j1 j2, layered g -> posidx g ->
  (i < length (lnodes g l))%nat -> (j < length (lnodes g l))%nat -> i <> j ->
  count_crossings (swapped g l i j) j1 j2 =
  count_crossings (swap_pos g (nth i (lnodes g l) 0%nat) (nth j (lnodes g l) 0%nat)) j1 j2.
Proof.
  intros g l i j j1 j2 L P Hi Hj Hij.
  destruct (swapped_inv g l i j L P Hi Hj Hij) as [F _].
  apply count_crossings_local.
  - reflexivity.
  - intros n. reflexivity.
  - intros n _. reflexivity.
  - apply (of_layer _ _ F j1).
  - apply (of_layer _ _ F j2).
Qed.

(* (b) exchanging the positions of two nodes of layer l does not change the counts between other layers *)
Lemma count_crossings_swap_pos_other : forall g l v w j1 j2,
  layer_of g v = Z.of_nat l -> layer_of g w = Z.of_nat l -> j1 <> l -> j2 <> l ->
  count_crossings (swap_pos g v w) j1 j2 = count_crossings g j1 j2.
Proof.
  intros g l v w j1 j2 Hv Hw H1 H2.
  pose proof (oframe_swap_pos g v w) as F.
  apply count_crossings_local.
  - reflexivity.
  - intros n. apply (of_nodes _ _ F).
  - intros n Hn. rewrite (of_layer_of _ _ n F) in Hn.
    apply swap_pos_other; intros ->; lia.
  - apply Permutation_refl.
  - apply Permutation_refl.
Qed.

Section Transpose.
  Variable g0 : graph.
  Hypothesis L0 : layered g0.

  Lemma swap_step : forall g l i, Inv g0 g -> (l < length (g_L g))%nat -> (S i < length (lnodes g l))%nat ->
    reported_crossings (swapped g l i (S i)) - reported_crossings g =
    crossings_around (swap_pos g (nth i (lnodes g l) 0%nat) (nth (S i) (lnodes g l) 0%nat)) l - crossings_around g l.
  Proof.
    intros g l i I Hl Hi.
    pose proof (Inv_layered g0 L0 g I) as L. destruct I as [_ P].
    assert (Hi0 : (i < length (lnodes g l))%nat) by lia.
    assert (Hne : i <> S i) by lia.
    set (v := nth i (lnodes g l) 0%nat). set (w := nth (S i) (lnodes g l) 0%nat).
    assert (Hv : layer_of g v = Z.of_nat l) by (apply (ly_layer _ L l v); apply nth_In; exact Hi0).
    assert (Hw : layer_of g w = Z.of_nat l) by (apply (ly_layer _ L l w); apply nth_In; exact Hi).
    rewrite (reported_split (swapped g l i (S i)) l) by (rewrite swapped_L_length; exact Hl).
    rewrite (reported_split g l Hl).
    assert (EA : crossings_around (swapped g l i (S i)) l = crossings_around (swap_pos g v w) l).
    { unfold crossings_around. rewrite swapped_L_length.
      change (length (g_L (swap_pos g v w))) with (length (g_L g)).
      rewrite !(count_crossings_swapped g l i (S i)) by assumption. reflexivity. }
    assert (ER : rest_crossings (swapped g l i (S i)) l = rest_crossings g l).
    { unfold rest_crossings. rewrite swapped_L_length. apply sumf_ext_in. intros k _.
      destruct (Nat.eqb_spec (S k) l) as [E1|N1]; [reflexivity|].
      destruct (Nat.eqb_spec k l) as [E2|N2]; [reflexivity|]. cbn [orb].
      rewrite (count_crossings_swapped g l i (S i)) by assumption.
      apply (count_crossings_swap_pos_other g l); assumption. }
    rewrite EA, ER. lia.
  Qed.

  (* one layer of a round *)
  Lemma transpose_layer_decr : forall l acc, Inv g0 (fst acc) -> (l < length (g_L g0))%nat ->
    let r := transpose_layer acc l in
    Inv g0 (fst r) /\ reported_crossings (fst r) <= reported_crossings (fst acc) /\
    (snd r = true -> snd acc = true \/ reported_crossings (fst r) < reported_crossings (fst acc)).
  Proof.
    intros l acc I Hl. unfold transpose_layer.
    assert (Hi : forall i, In i (iota 0 (length (l_nodes (glayer (fst acc) l)) - 2)) -> (S i < length (lnodes g0 l))%nat).
    { intros i Hi. apply in_iota in Hi. rewrite <- (Inv_len g0 (fst acc) l I). unfold lnodes. lia. }
    revert Hi. generalize (iota 0 (length (l_nodes (glayer (fst acc) l)) - 2)). intros is_.
    revert acc I. induction is_ as [|i is_ IH]; intros acc I Hi; cbn [fold_left].
    - split; [exact I|]. split; [lia|]. intros H; left; exact H.
    - destruct acc as [g improved]. cbn [fst snd] in I |- *.
      assert (Hsi : (S i < length (lnodes g l))%nat) by (rewrite (Inv_len g0 g l I); apply Hi; left; reflexivity).
      assert (Hlg : (l < length (g_L g))%nat) by (rewrite (Inv_L g0 g I); exact Hl).
      pose proof (swap_step g l i I Hlg Hsi) as St.
      fold (lnodes g l).
      destruct (Z.ltb_spec (crossings_around (swap_pos g (nth i (lnodes g l) 0%nat) (nth (S i) (lnodes g l) 0%nat)) l)
                           (crossings_around g l)) as [Lt|Ge].
      + change (upd_layer (swap_pos g (nth i (lnodes g l) 0%nat) (nth (S i) (lnodes g l) 0%nat)) l
                  (fun ly => mkLayer (swap_list (l_nodes ly) i (S i)) (l_w ly) (l_h ly))) with (swapped g l i (S i)).
        assert (I1 : Inv g0 (swapped g l i (S i))) by (apply Inv_swapped; [exact L0|exact I|lia|exact Hsi|lia]).
        destruct (IH (swapped g l i (S i), true) I1 (fun i' Hi' => Hi i' (or_intror Hi'))) as [A [B C]].
        cbn [fst snd] in *. split; [exact A|]. split; [lia|]. intros _. right. lia.
      + destruct (IH (g, improved) I (fun i' Hi' => Hi i' (or_intror Hi'))) as [A [B C]].
        cbn [fst snd] in *. split; [exact A|]. split; [exact B|exact C].
  Qed.

  (* one round *)
  Lemma transpose_round_decr : forall ls acc, Inv g0 (fst acc) -> (forall l, In l ls -> (l < length (g_L g0))%nat) ->
    let r := fold_left transpose_layer ls acc in
    Inv g0 (fst r) /\ reported_crossings (fst r) <= reported_crossings (fst acc) /\
    (snd r = true -> snd acc = true \/ reported_crossings (fst r) < reported_crossings (fst acc)).
  Proof.
    induction ls as [|l ls IH]; intros acc I Hls; cbn [fold_left].
    - split; [exact I|]. split; [lia|]. intros H; left; exact H.
    - destruct (transpose_layer_decr l acc I (Hls l (or_introl eq_refl))) as [A [B C]].
      destruct (IH (transpose_layer acc l) A (fun l' Hl' => Hls l' (or_intror Hl'))) as [A' [B' C']].
      split; [exact A'|]. split; [lia|]. intros H. specialize (C' H). destruct C' as [C'|C']; [|right; lia].
      specialize (C C'). destruct C as [C|C]; [left; exact C|right; lia].
  Qed.

  (* the statement asked for: a round that reports an improvement strictly decreases reported_crossings;
     no round increases it *)
  Theorem transpose_round_decreases : forall g g1 improved, Inv g0 g ->
    fold_left transpose_layer (iota 0 (length (g_L g))) (g, false) = (g1, improved) ->
    Inv g0 g1 /\ reported_crossings g1 <= reported_crossings g /\
    (improved = true -> reported_crossings g1 < reported_crossings g).
  Proof.
    intros g g1 improved I E.
    destruct (transpose_round_decr (iota 0 (length (g_L g))) (g, false) I) as [A [B C]].
    { intros l Hl. apply in_iota in Hl. rewrite <- (Inv_L g0 g I). lia. }
    rewrite E in A, B, C. cbn [fst snd] in *.
    split; [exact A|]. split; [exact B|]. intros H. destruct (C H) as [C'|C']; [discriminate|exact C'].
  Qed.

  Theorem transpose_total : forall fuel g, Inv g0 g -> reported_crossings g < Z.of_nat fuel ->
    exists g', transpose fuel g = Ok g'.
  Proof.
    induction fuel as [|f IH]; intros g I Hf.
    - pose proof (reported_crossings_nonneg g). lia.
    - cbn [transpose].
      destruct (fold_left transpose_layer (iota 0 (length (g_L g))) (g, false)) as [g1 improved] eqn:E.
      destruct (transpose_round_decreases g g1 improved I E) as [I1 [_ D]].
      destruct improved; [|eexists; reflexivity].
      apply IH; [exact I1|]. specialize (D eq_refl). lia.
  Qed.

  (* the fuel the model passes *)
  Corollary transpose_total_model : forall g, Inv g0 g ->
    exists g', transpose (S (Z.to_nat (reported_crossings g))) g = Ok g'.
  Proof.
    intros g I. apply transpose_total; [exact I|]. pose proof (reported_crossings_nonneg g). lia.
  Qed.
End Transpose.
Print Assumptions transpose_round_decreases.
Print Assumptions transpose_total.

(* ====================================================================================================== *)
(* 5. wmedian_run, exec_wmedian, phase3_wmedian                                                           *)
(* ====================================================================================================== *)
Lemma wm_iter_total : forall g0, layered g0 -> forall k i flip g bestx bestp, Inv g0 g ->
  exists r, wm_iter k i flip g bestx bestp = Ok r.
Proof.
  intros g0 L0; induction k as [|k IH]; intros i flip g bestx bestp I; cbn [wm_iter].
  - eexists; reflexivity.
  - set (g1 := wmedian_sweep (Nat.even i) flip g).
    assert (I1 : Inv g0 g1) by (apply wmedian_sweep_inv; assumption).
    destruct (transpose_total_model g0 L0 g1 I1) as [g2 ET]. rewrite ET. cbn [bind].
    assert (I2 : Inv g0 g2) by (eapply transpose_inv; eassumption).
    destruct (reported_crossings g2 <? bestx).
    + destruct (reported_crossings g2 =? 0); [eexists; reflexivity|]. apply IH; exact I2.
    + destruct (bestx =? 0); [eexists; reflexivity|]. apply IH; exact I2.
Qed.

Theorem wmedian_run_total : forall maxiter top g, layered g ->
  exists g' bx bp, wmedian_run maxiter top g = Ok (g', bx, bp).
Proof.
  intros maxiter top g L. unfold wmedian_run.
  destruct (init_positions_total g L top) as [gi E]. rewrite E. cbn [bind].
  destruct (init_positions_spec g L top gi E) as [F [_ PP]].
  destruct (sort_layers_spec gi PP) as [F' PI].
  assert (I1 : Inv g (sort_layers gi)) by (split; [eapply oframe_trans; eassumption|exact PI]).
  destruct (reported_crossings (sort_layers gi) =? 0); [do 3 eexists; reflexivity|].
  destruct (wm_iter_total g L maxiter 0 false (sort_layers gi) (reported_crossings (sort_layers gi))
                          (positions (sort_layers gi)) I1) as [[[g' bx] bp] H].
  exists g', bx, bp. exact H.
Qed.
Print Assumptions wmedian_run_total.

Lemma existsb_false : forall A (f : A -> bool) l, (forall x, In x l -> f x = false) -> existsb f l = false.
Proof.
  intros A f; induction l as [|x l IH]; intros H; [reflexivity|]. cbn [existsb].
  rewrite (H x (or_introl eq_refl)), IH; [reflexivity|]. intros y Hy; apply H; right; exact Hy.
Qed.

(* Q2: the ordering heuristic always returns *)
Theorem exec_wmedian_total : forall maxiter g,
  layered g -> (forall e, In e (g_E g) -> is_flat g e = false) ->
  exists g' x, exec_wmedian maxiter g = Ok (g', x).
Proof.
  intros maxiter g L NF. unfold exec_wmedian.
  rewrite (existsb_false _ (is_flat g) (g_E g) NF).
  destruct (wmedian_run_total maxiter true g L) as [g1 [xt [pt E1]]]. rewrite E1. cbn [bind].
  destruct (wmedian_run_inv maxiter true g g1 xt pt L E1) as [I1 _].
  assert (L1 : layered g1) by (apply (layered_frame g); [exact L|apply I1]).
  destruct (wmedian_run_total maxiter false g1 L1) as [g2 [xb [pb E2]]]. rewrite E2. cbn [bind].
  destruct (xt <? xb); do 2 eexists; reflexivity.
Qed.
Print Assumptions exec_wmedian_total.

(* with the contract of WmedianProofs: it returns, and what it returns satisfies the contract *)
Corollary exec_wmedian_total_contract : forall maxiter g,
  layered g -> (forall e, In e (g_E g) -> is_flat g e = false) ->
  exists g' x, exec_wmedian maxiter g = Ok (g', x) /\ order_contract g g' /\ x = reported_crossings g'.
Proof.
  intros maxiter g L NF. destruct (exec_wmedian_total maxiter g L NF) as [g' [x H]].
  exists g', x. split; [exact H|]. apply (exec_wmedian_contract maxiter); assumption.
Qed.

(* the flat-edge test is the only way exec_wmedian can fail on a layered graph *)
Corollary exec_wmedian_ok_iff : forall maxiter g, layered g ->
  (is_ok (exec_wmedian maxiter g) = true <-> (forall e, In e (g_E g) -> is_flat g e = false)).
Proof.
  intros maxiter g L. split.
  - intros H e He. unfold exec_wmedian in H.
    destruct (existsb (is_flat g) (g_E g)) eqn:Ex; [discriminate|].
    destruct (is_flat g e) eqn:Ef; [|reflexivity].
    assert (X : existsb (is_flat g) (g_E g) = true) by (apply existsb_exists; exists e; split; assumption).
    congruence.
  - intros NF. destruct (exec_wmedian_total maxiter g L NF) as [g' [x H]]. rewrite H. reflexivity.
Qed.

(* phase3_wmedian: breakLongEdges (total by BreakMerge.break_long_edges_spec) followed by exec_wmedian *)
Theorem phase3_wmedian_total : forall maxiter g,
  (exists g3, break_long_edges g = Ok g3 /\ layered g3 /\ (forall e, In e (g_E g3) -> is_flat g3 e = false)) ->
  exists g' ox, phase3_wmedian maxiter g = Ok (g', ox).
Proof.
  intros maxiter g [g3 [E [L NF]]]. unfold phase3_wmedian.
  destruct (Nat.eqb (length (g_N g)) 1); [do 2 eexists; reflexivity|].
  destruct (Nat.eqb (length (g_L g)) 1); [do 2 eexists; reflexivity|].
  rewrite E. cbn [bind].
  destruct (exec_wmedian_total maxiter g3 L NF) as [g' [x H]]. rewrite H. cbn [bind].
  do 2 eexists; reflexivity.
Qed.
Print Assumptions phase3_wmedian_total.

(* ====================================================================================================== *)
(* 6. the hypotheses are satisfiable                                                                      *)
(* ====================================================================================================== *)
Definition no_flat_b (g : graph) : bool := forallb (fun e => negb (is_flat g e)) (g_E g).

Lemma no_flat_b_sound : forall g, no_flat_b g = true -> forall e, In e (g_E g) -> is_flat g e = false.
Proof.
  intros g H e He. unfold no_flat_b in H. rewrite forallb_forall in H. apply negb_true_iff. apply H; exact He.
Qed.

(* 11 nodes in 4 layers, 11 edges, one of them pointing upward (WmedianProofs.wx_graph) *)
Example wx_total_hyps : layered wx_graph /\ (forall e, In e (g_E wx_graph) -> is_flat wx_graph e = false).
Proof. split; [apply wx_layered|apply no_flat_b_sound; vm_compute; reflexivity]. Qed.

Example wx_total : exists g' x, exec_wmedian 24 wx_graph = Ok (g', x).
Proof. destruct wx_total_hyps as [L NF]. apply exec_wmedian_total; assumption. Qed.

(* the graph really needs transpose rounds and several DFS levels: the run computes crossing number 1 *)
Example wx_total_run : is_ok (exec_wmedian 24 wx_graph) = true /\
  is_ok (init_positions true wx_graph) = true /\ is_ok (init_positions false wx_graph) = true.
Proof. vm_compute. repeat split; reflexivity. Qed.

(* phase3_wmedian on a graph with two long edges (WmedianProofs.p3_graph) *)
Example p3_total : exists g' ox, phase3_wmedian 24 p3_graph = Ok (g', ox).
Proof.
  apply phase3_wmedian_total. eexists. split; [vm_compute; reflexivity|].
  split; [apply layered_b_sound; vm_compute; reflexivity|apply no_flat_b_sound; vm_compute; reflexivity].
Qed.

(* transpose on CrossCountProofs.ex_graph (3 layers, 4 crossings, positions = list indices): the first round
   improves 4 -> 2, the second finds nothing; fuel 2 is needed, the model passes 5 *)
Example ex_transpose_hyps : layered ex_graph /\ Inv ex_graph ex_graph.
Proof.
  split; [apply layered_b_sound; vm_compute; reflexivity|].
  split; [apply oframe_refl|]. intros k j Hj. apply (op_pos ex_graph_proper k Hj).
Qed.

Example ex_transpose_total : exists g', transpose (S (Z.to_nat (reported_crossings ex_graph))) ex_graph = Ok g'.
Proof. destruct ex_transpose_hyps as [L I]. apply (transpose_total_model ex_graph L ex_graph I). Qed.

Example ex_transpose_run :
  reported_crossings ex_graph = 4 /\
  (let '(g1, b) := fold_left transpose_layer (iota 0 (length (g_L ex_graph))) (ex_graph, false) in
   (reported_crossings g1, b)) = (2, true) /\
  is_ok (transpose 1 ex_graph) = false /\ is_ok (transpose 2 ex_graph) = true.
Proof. vm_compute. repeat split; reflexivity. Qed.
