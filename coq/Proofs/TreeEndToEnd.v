(* TreeEndToEnd.v — "rooted trees are drawn without edge crossings", end to end.

   A. network simplex on a tree-shaped component (|E| + 1 = |N|): the spanning tree of tight edges the
      algorithm maintains must consist of ALL edges, so every edge is tight when the pivot loop stops (whether or
      not the budget was exhausted); normalize keeps the slacks; vbalance and hbalance do nothing at all.
      Hence every edge spans exactly [e_delta] layers and the lowest layer is 0   ([ns_on_tree_all_tight]).
   B. the predicates on the INPUT component: [out_tree_input g root], [in_tree_input g root].
   C. from A and B: the phase-2 output is a [TreeProofs.rooted_out_tree] / [rooted_in_tree].
   D. the end-to-end theorems. *)
From Autog Require Import Base Graph Populate Phase1 Phase2 Phase3 Phase4 Phase5 Layout Wmedian Pipeline.
From Autog.Proofs Require Import ListLemmas Consistent SelfLoopProofs.
From Autog.Proofs Require CBBase CBHasCycles CBGreedyRanks CycleBreaking.
From Autog.Proofs Require Import Optimality OptNormalize OptVbalance OptFeasible OptInit OptPipeline.
From Autog.Proofs Require Import NSDefs NSTree NSLimLow NSComp NSFeasLoop NSPivot NSHbalance.
From Autog.Proofs Require CrossCountProofs WmedianProofs TreeProofs.
From Autog.Proofs Require Import Positioners Routes BreakMerge SinkColoringProofs E2EBridge E2EBackbone E2EOutput E2EFrontend.
From Autog.Proofs Require Import NSBridge WholeBridge WholeCrossings Final.
From Coq Require Import Permutation Lia.

(* ====================================================================================================== *)
(** * A. Network simplex on a tree                                                                         *)
(* ====================================================================================================== *)

Lemma filter_length_le' : forall (A : Type) (p : A -> bool) l, (length (filter p l) <= length l)%nat.
Proof.
  intros A p l; induction l as [|a l IH]; cbn [filter length]; [lia|].
  destruct (p a); cbn [length]; lia.
Qed.

Lemma filter_length_all : forall (A : Type) (p : A -> bool) l,
  length (filter p l) = length l -> forall x, In x l -> p x = true.
Proof.
  intros A p l; induction l as [|a l IH]; intros H x Hx; [destruct Hx|]. cbn [filter] in H.
  pose proof (filter_length_le' A p l) as Hle.
  destruct (p a) eqn:Ea; cbn [length] in H.
  - destruct Hx as [<-|Hx]; [exact Ea|]. apply IH; [lia|exact Hx].
  - lia.
Qed.

(* in a graph with |E| + 1 = |N| a spanning tree uses every edge *)
Lemma spanning_tree_all_edges : forall g, spanning_tree g -> (length (g_E g) + 1 = length (g_N g))%nat ->
  forall e, In e (g_E g) -> e_tree (gedge g e) = true.
Proof.
  intros g [_ Hc] Hlen e He. unfold tree_count, tree_edges in Hc.
  apply (filter_length_all nat (fun e => e_tree (gedge g e)) (g_E g)); [lia|exact He].
Qed.

(* ---------- vbalance does nothing when every edge is tight ---------- *)
Lemma vb_step_id : forall lmax g ls n,
  adj_ok g -> In n (g_N g) -> (indeg g n + outdeg g n > 0)%nat ->
  (forall e, In e (g_E g) -> slack g e = 0) -> 0 <= layer_of g n <= lmax ->
  vb_step lmax (g, ls) n = (g, ls).
Proof.
  intros lmax g ls n A Hn Hdeg Ht Hr. unfold vb_step.
  destruct (Nat.eqb (indeg g n) (outdeg g n)) eqn:Ed; [|reflexivity].
  apply Nat.eqb_eq in Ed. cbv zeta. unfold indeg, outdeg in Ed, Hdeg.
  destruct (A n Hn) as (Ain & Aout & _ & _).
  assert (Elow : vb_low g n = layer_of g n).
  { unfold vb_low.
    destruct (fold_max_spec (fun e => layer_of g (e_from (gedge g e)) + e_delta (gedge g e)) (n_in (gnode g n)) 0)
      as (H0 & Hin & Hc). cbv zeta in H0, Hin, Hc.
    assert (Hf : forall e, In e (n_in (gnode g n)) ->
                   layer_of g (e_from (gedge g e)) + e_delta (gedge g e) = layer_of g n).
    { intros e He. apply Ain in He. destruct He as [HeE Hto]. pose proof (Ht e HeE) as S0.
      unfold slack in S0. cbv zeta in S0. rewrite Hto in S0. lia. }
    destruct (n_in (gnode g n)) as [|e0 t] eqn:En.
    - exfalso. cbn [length] in Ed, Hdeg. lia.
    - pose proof (Hin e0 (or_introl eq_refl)) as B. rewrite (Hf e0 (or_introl eq_refl)) in B.
      destruct Hc as [Hc|[e [He Hc]]]; [lia|]. rewrite Hc. apply Hf. exact He. }
  assert (Ehigh : vb_high g lmax n = layer_of g n).
  { unfold vb_high.
    destruct (fold_min_spec (fun e => layer_of g (e_to (gedge g e)) - e_delta (gedge g e)) (n_out (gnode g n)) lmax)
      as (H0 & Hin & Hc). cbv zeta in H0, Hin, Hc.
    assert (Hf : forall e, In e (n_out (gnode g n)) ->
                   layer_of g (e_to (gedge g e)) - e_delta (gedge g e) = layer_of g n).
    { intros e He. apply Aout in He. destruct He as [HeE Hfrom]. pose proof (Ht e HeE) as S0.
      unfold slack in S0. cbv zeta in S0. rewrite Hfrom in S0. lia. }
    destruct (n_out (gnode g n)) as [|e0 t] eqn:En.
    - exfalso. cbn [length] in Ed, Hdeg. lia.
    - pose proof (Hin e0 (or_introl eq_refl)) as B. rewrite (Hf e0 (or_introl eq_refl)) in B.
      destruct Hc as [Hc|[e [He Hc]]]; [lia|]. rewrite Hc. apply Hf. exact He. }
  rewrite Elow, Ehigh. unfold vb_newl. rewrite Z.sub_diag. cbn [Z.to_nat iota map fold_left].
  rewrite Z.ltb_irrefl. reflexivity.
Qed.

Lemma vb_fold_id : forall lmax g ls l,
  adj_ok g -> incl l (g_N g) -> (forall n, In n (g_N g) -> (indeg g n + outdeg g n > 0)%nat) ->
  (forall e, In e (g_E g) -> slack g e = 0) -> (forall n, In n (g_N g) -> 0 <= layer_of g n <= lmax) ->
  fold_left (vb_step lmax) l (g, ls) = (g, ls).
Proof.
  intros lmax g ls l A; induction l as [|n t IH]; intros Hl Hd Ht Hr; cbn [fold_left]; [reflexivity|].
  assert (Hn : In n (g_N g)) by (apply Hl; left; reflexivity).
  rewrite (vb_step_id lmax g ls n A Hn (Hd n Hn) Ht (Hr n Hn)).
  apply IH; try assumption. intros x Hx. apply Hl. right. exact Hx.
Qed.

Theorem vbalance_tight_id : forall g,
  adj_ok g -> (forall n, In n (g_N g) -> (indeg g n + outdeg g n > 0)%nat) ->
  (forall e, In e (g_E g) -> slack g e = 0) -> layers_nonneg g ->
  vbalance g = g.
Proof.
  intros g A Hd Ht Hnn. rewrite vbalance_eq.
  rewrite (vb_fold_id (vb_lmax g) g (vb_lsize0 g) (g_N g) A (fun x Hx => Hx) Hd Ht); [reflexivity|].
  intros n Hn. split; [apply Hnn; exact Hn|apply vb_lmax_spec; exact Hn].
Qed.

(* ---------- hbalance does nothing when every edge is a tree edge ---------- *)
Lemma hb_fold_id : forall ll g l,
  (forall e, In e (g_E g) -> e_tree (gedge g e) = true) ->
  fold_left (hb_step ll) l (Ok g) = Ok g.
Proof.
  intros ll g l Hall; induction l as [|e t IH]; cbn [fold_left]; [reflexivity|].
  assert (E1 : hb_step ll (Ok g) e = Ok g).
  { unfold hb_step. cbn [bind]. destruct (negb (e_tree (gedge g e))); [reflexivity|].
    destruct (e_cut (gedge g e) =? 0); [|reflexivity].
    destruct (min_slack_non_tree_edge g ll e) as [f|] eqn:Em; [|reflexivity].
    exfalso. destruct (min_slack_spec g ll e f Em) as (Hf & _ & Hnt & _). rewrite (Hall f Hf) in Hnt. discriminate. }
  rewrite E1. exact IH.
Qed.

Theorem hbalance_all_tree_id : forall g ll,
  (forall e, In e (g_E g) -> e_tree (gedge g e) = true) -> hbalance g ll = Ok g.
Proof. intros g ll H. rewrite hbalance_eq. apply hb_fold_id. exact H. Qed.

(* ---------- the theorem ---------- *)
Lemma ns_frame_adj : forall g g' n, ns_frame g g' ->
  n_in (gnode g' n) = n_in (gnode g n) /\ n_out (gnode g' n) = n_out (gnode g n).
Proof. intros g g' n F. rewrite (nf_node _ _ F n). split; reflexivity. Qed.

Lemma ns_frame_slack_delta : forall g g' e, ns_frame g g' ->
  e_from (gedge g' e) = e_from (gedge g e) /\ e_to (gedge g' e) = e_to (gedge g e) /\
  e_delta (gedge g' e) = e_delta (gedge g e).
Proof. intros g g' e F. destruct (nf_edge _ _ F e) as (A & B & C & _). auto. Qed.

(* T2: network simplex (any parameters, any pivot budget, any balancing mode) on a component whose edge set is a
   tree makes every edge tight; the layers are >= 0 and some node lies in layer 0 *)
Theorem ns_on_tree_all_tight : forall p g g',
  ns_wf g -> acyclic g -> CBGreedyRanks.no_isolated_nodes g -> (length (g_E g) + 1 = length (g_N g))%nat ->
  exec_network_simplex p g = Ok g' ->
  ns_frame g g' /\ (forall e, In e (g_E g) -> slack g' e = 0) /\ layers_nonneg g' /\
  (exists n, In n (g_N g) /\ layer_of g' n = 0).
Proof.
  intros p g g' W Hac Hiso Hlen H.
  unfold exec_network_simplex, exec_network_simplex_capped in H.
  destruct (feasible_tree g) as [[g1 ll1]|err] eqn:Eft; cbn [bind] in H; [|discriminate].
  destruct (feasible_tree_inv g g1 ll1 W Hac Eft) as [I1 F1].
  match type of H with context [pivot_loop ?fu ?i ?mx g1 ll1] =>
    destruct (pivot_loop fu i mx g1 ll1) as [[[g2 ll2] cap]|err] eqn:Epl end; cbn [bind] in H; [|discriminate].
  destruct (pivot_loop_inv _ _ _ _ _ _ _ _ I1 Epl) as [[W2 S2 Hf2 T2 Hll2] F2].
  pose proof (ns_frame_trans _ _ _ F1 F2) as F02.
  assert (All2 : forall e, In e (g_E g2) -> e_tree (gedge g2 e) = true).
  { apply spanning_tree_all_edges; [exact S2|]. rewrite (nf_E _ _ F02), (nf_N _ _ F02). exact Hlen. }
  assert (Tight2 : forall e, In e (g_E g2) -> slack g2 e = 0)
    by (intros e He; apply T2; [exact He|apply All2; exact He]).
  pose proof W2 as [[Wn2 Ein2 A2] _ _].
  destruct (normalize_layers g2 Wn2) as (L3 & _ & _).
  assert (NE : g_N g2 <> []).
  { rewrite (nf_N _ _ F02). intros E. rewrite E in Hlen. cbn [length] in Hlen. lia. }
  destruct (normalize_min_zero g2 Wn2 NE) as [Hnn3 Hz3].
  assert (Tight3 : forall e, In e (g_E (normalize g2)) -> slack (normalize g2) e = 0).
  { intros e He. rewrite (lay_only_E L3) in He. rewrite (normalize_slack g2 Wn2 Ein2 e He). apply Tight2; exact He. }
  pose proof (vb_wf_lay_only L3 (nw_vb _ W2)) as [Wn3 Ein3 A3].
  pose proof (ns_frame_trans _ _ _ F02 (ns_frame_lay_only _ _ L3)) as F03.
  set (g3 := normalize g2) in *.
  assert (Deg3 : forall n, In n (g_N g3) -> (indeg g3 n + outdeg g3 n > 0)%nat).
  { intros n Hn. rewrite (nf_N _ _ F03) in Hn. unfold indeg, outdeg.
    destruct (ns_frame_adj g g3 n F03) as [-> ->]. apply (Hiso n Hn). }
  assert (Fin : forall gf, ns_frame g gf -> (forall e, In e (g_E gf) -> slack gf e = 0) -> layers_nonneg gf ->
                  (exists n, In n (g_N gf) /\ layer_of gf n = 0) ->
                  ns_frame g gf /\ (forall e, In e (g_E g) -> slack gf e = 0) /\ layers_nonneg gf /\
                  (exists n, In n (g_N g) /\ layer_of gf n = 0)).
  { intros gf Ff Tf Nf Zf. split; [exact Ff|]. split; [|split; [exact Nf|]].
    - intros e He. apply Tf. rewrite (nf_E _ _ Ff). exact He.
    - destruct Zf as [n [Hn Hz]]. exists n. rewrite (nf_N _ _ Ff) in Hn. auto. }
  destruct (ns_balance p =? 1) eqn:E1.
  - cbn [bind] in H. injection H as <-. cbn [fst].
    rewrite (vbalance_tight_id g3 A3 Deg3 Tight3 Hnn3). apply Fin; assumption.
  - destruct (ns_balance p =? 2) eqn:E2.
    + assert (All3 : forall e, In e (g_E g3) -> e_tree (gedge g3 e) = true).
      { intros e He. rewrite (lay_only_gedge L3 e). apply All2. rewrite <- (lay_only_E L3). exact He. }
      rewrite (hbalance_all_tree_id g3 ll2 All3) in H. cbn [bind] in H. injection H as <-. cbn [fst].
      destruct (normalize_layers g3 Wn3) as (L4 & _ & _).
      assert (NE3 : g_N g3 <> []) by (rewrite (lay_only_N L3); exact NE).
      destruct (normalize_min_zero g3 Wn3 NE3) as [Hnn4 Hz4].
      apply Fin; try assumption.
      * eapply ns_frame_trans; [exact F03|apply ns_frame_lay_only; exact L4].
      * intros e He. rewrite (lay_only_E L4) in He. rewrite (normalize_slack g3 Wn3 Ein3 e He). apply Tight3; exact He.
    + cbn [bind] in H. injection H as <-. cbn [fst]. apply Fin; assumption.
Qed.
Print Assumptions ns_on_tree_all_tight.

(* with unit deltas: every edge spans exactly one layer *)
Corollary ns_on_tree_unit_spans : forall p g g',
  ns_wf g -> acyclic g -> CBGreedyRanks.no_isolated_nodes g -> (length (g_E g) + 1 = length (g_N g))%nat ->
  unit_deltas g -> exec_network_simplex p g = Ok g' ->
  forall e, In e (g_E g') -> BreakMerge.span g' e = 1.
Proof.
  intros p g g' W Hac Hiso Hlen UD H e He.
  destruct (ns_on_tree_all_tight p g g' W Hac Hiso Hlen H) as (F & T & _ & _).
  rewrite (nf_E _ _ F) in He. pose proof (T e He) as S0. unfold slack in S0. cbv zeta in S0.
  destruct (ns_frame_slack_delta g g' e F) as (_ & _ & D). rewrite D, (UD e He) in S0.
  unfold BreakMerge.span. lia.
Qed.
Print Assumptions ns_on_tree_unit_spans.

(* ====================================================================================================== *)
(** * B. Rooted trees, stated on the input component                                                       *)
(* ====================================================================================================== *)

(* the edges the pipeline lays out: self loops are set aside before phase 1 and put back at the end *)
Definition nl_edges (g : graph) : list nat := filter (fun e => negb (self_loop g e)) (g_E g).

(* [dir_tree true g root]: out-tree (every edge points away from the root);
   [dir_tree false g root]: in-tree (every edge points toward the root).
   [TreeProofs.hd top g e] is the end of [e] that is farther from the root: [e_to] for an out-tree, [e_from] for an
   in-tree. The graph has no directed cycle; every node but the root is entered by exactly one edge; the root by none. *)
Record dir_tree (top : bool) (g : graph) (root : nat) : Prop := {
  dt_root : In root (g_N g);
  dt_acyclic : exists rk : nat -> Z, forall e, In e (nl_edges g) -> rk (e_from (gedge g e)) < rk (e_to (gedge g e));
  dt_one : forall n, In n (g_N g) -> n <> root ->
           exists e, In e (nl_edges g) /\ TreeProofs.hd top g e = n /\
                     forall e', In e' (nl_edges g) -> TreeProofs.hd top g e' = n -> e' = e;
  dt_none : forall e, In e (nl_edges g) -> TreeProofs.hd top g e <> root }.

(* the two readable instances *)
Record out_tree_input (g : graph) (root : nat) : Prop := {
  oti_root : In root (g_N g);
  oti_acyclic : exists rk : nat -> Z, forall e, In e (nl_edges g) -> rk (e_from (gedge g e)) < rk (e_to (gedge g e));
  (* every node but the root has exactly one incoming edge *)
  oti_in : forall n, In n (g_N g) -> n <> root ->
           exists e, In e (nl_edges g) /\ e_to (gedge g e) = n /\
                     forall e', In e' (nl_edges g) -> e_to (gedge g e') = n -> e' = e;
  (* the root has none *)
  oti_noin : forall e, In e (nl_edges g) -> e_to (gedge g e) <> root }.

Record in_tree_input (g : graph) (root : nat) : Prop := {
  iti_root : In root (g_N g);
  iti_acyclic : exists rk : nat -> Z, forall e, In e (nl_edges g) -> rk (e_from (gedge g e)) < rk (e_to (gedge g e));
  (* every node but the root has exactly one outgoing edge *)
  iti_out : forall n, In n (g_N g) -> n <> root ->
            exists e, In e (nl_edges g) /\ e_from (gedge g e) = n /\
                      forall e', In e' (nl_edges g) -> e_from (gedge g e') = n -> e' = e;
  (* the root has none *)
  iti_noout : forall e, In e (nl_edges g) -> e_from (gedge g e) <> root }.

Lemma out_tree_dir : forall g root, out_tree_input g root <-> dir_tree true g root.
Proof. intros g root. split; intros [A B C D]; constructor; assumption. Qed.

Lemma in_tree_dir : forall g root, in_tree_input g root <-> dir_tree false g root.
Proof. intros g root. split; intros [A B C D]; constructor; assumption. Qed.

Lemma NoDup_map_inj_in : forall (A B : Type) (f : A -> B) l,
  NoDup l -> (forall x y, In x l -> In y l -> f x = f y -> x = y) -> NoDup (map f l).
Proof.
  intros A B f l; induction l as [|a l IH]; intros ND Inj; cbn [map]; [constructor|].
  inversion ND as [|a' l' Ha Hl]; subst. constructor.
  - intros Hin. apply in_map_iff in Hin. destruct Hin as [y [Hy Hyl]].
    assert (y = a) by (apply Inj; [right; exact Hyl|left; reflexivity|exact Hy]). subst y. contradiction.
  - apply IH; [exact Hl|]. intros x y Hx Hy. apply Inj; right; assumption.
Qed.

(* a rooted tree has one edge less than nodes *)
Lemma dir_tree_count : forall top g0 root,
  CBBase.consistent g0 -> In root (g_N g0) ->
  (forall n, In n (g_N g0) -> n <> root ->
     exists e, In e (g_E g0) /\ TreeProofs.hd top g0 e = n /\
               forall e', In e' (g_E g0) -> TreeProofs.hd top g0 e' = n -> e' = e) ->
  (forall e, In e (g_E g0) -> TreeProofs.hd top g0 e <> root) ->
  (length (g_E g0) + 1 = length (g_N g0))%nat.
Proof.
  intros top g0 root [[NDN _] [NDE HE] _ _] Hr One None.
  assert (HdN : forall e, In e (g_E g0) -> In (TreeProofs.hd top g0 e) (g_N g0)).
  { intros e He. destruct (HE e He) as (_ & F & T). unfold TreeProofs.hd. destruct top; assumption. }
  assert (P : Permutation (root :: map (TreeProofs.hd top g0) (g_E g0)) (g_N g0)).
  { apply NoDup_Permutation.
    - constructor.
      + intros Hin. apply in_map_iff in Hin. destruct Hin as [e [Hh He]]. apply (None e He). exact Hh.
      + apply NoDup_map_inj_in; [exact NDE|]. intros e e' He He' Hh.
        destruct (One (TreeProofs.hd top g0 e) (HdN e He) (None e He)) as [e0 [_ [_ U]]].
        rewrite (U e He eq_refl). symmetry. apply U; [exact He'|symmetry; exact Hh].
    - exact NDN.
    - intros n. split.
      + intros [<-|Hin]; [exact Hr|]. apply in_map_iff in Hin. destruct Hin as [e [<- He]]. apply HdN; exact He.
      + intros Hn. destruct (Nat.eq_dec n root) as [->|Hne]; [left; reflexivity|].
        right. destruct (One n Hn Hne) as [e [He [Hh _]]]. apply in_map_iff. exists e. auto. }
  apply Permutation_length in P. cbn [length] in P. rewrite map_length in P. lia.
Qed.

(* ====================================================================================================== *)
(** * C. The phase-2 output of a rooted tree                                                               *)
(* ====================================================================================================== *)

Section TreeBackbone.
  Variables (top : bool) (root : nat).
  Variables (o : options) (g g' : graph) (x : option Z) (g0 : graph) (del : list nat) (g1 g2 g3 : graph) (k : nat)
            (g3' : graph) (cx : Z) (g4 gm : graph) (routes : list (nat * list nat)) (g5 : graph).
  Hypothesis CI : component_input g.
  Hypothesis BB : backbone o g g' x g0 del g1 g2 g3 k g3' cx g4 gm routes g5.
  Hypothesis NS : o_p2 o = NetworkSimplex.
  Hypothesis DT : dir_tree top g root.

  Let S01 := bb_s01 _ _ _ _ _ _ _ _ _ _ _ _ _ _ _ _ BB.
  Let S23 := bb_s23 _ _ _ _ _ _ _ _ _ _ _ _ _ _ _ _ BB.
  Let PP := s2_post _ _ _ _ S23.

  Lemma tb_gedge0 : forall e, gedge g0 e = gedge g e.
  Proof. intros e. unfold gedge. rewrite (s0_ea _ _ _ _ S01). reflexivity. Qed.

  Lemma tb_E0 : g_E g0 = nl_edges g.
  Proof. apply (s0_E _ _ _ _ S01). Qed.

  Lemma tb_hd0 : forall e, TreeProofs.hd top g0 e = TreeProofs.hd top g e.
  Proof. intros e. unfold TreeProofs.hd. rewrite tb_gedge0. reflexivity. Qed.

  Lemma tb_ranked0 : CBBase.ranked g0.
  Proof.
    destruct (dt_acyclic _ _ _ DT) as [rk H]. exists rk. intros e He. rewrite tb_gedge0. apply H.
    rewrite <- tb_E0. exact He.
  Qed.

  (* phase 1 returns the tree untouched: no edge is reversed *)
  Lemma tb_g1 : g1 = g0.
  Proof.
    pose proof (CBHasCycles.acyclic_input_untouched (o_p1 o) g0 (s0_c _ _ _ _ S01) (s0_nsl _ _ _ _ S01) tb_ranked0) as U.
    pose proof (bb_e1 _ _ _ _ _ _ _ _ _ _ _ _ _ _ _ _ BB) as P1. congruence.
  Qed.

  Lemma tb_count : (length (g_E g1) + 1 = length (g_N g1))%nat.
  Proof.
    rewrite tb_g1. apply (dir_tree_count top g0 root (s0_c _ _ _ _ S01)).
    - rewrite (s0_N _ _ _ _ S01). apply (dt_root _ _ _ DT).
    - intros n Hn Hne. rewrite (s0_N _ _ _ _ S01) in Hn.
      destruct (dt_one _ _ _ DT n Hn Hne) as [e [He [Hh U]]]. exists e. rewrite tb_E0, tb_hd0.
      split; [exact He|]. split; [exact Hh|]. intros e' He'. rewrite tb_hd0. apply U; exact He'.
    - intros e He. rewrite tb_E0 in He. rewrite tb_hd0. apply (dt_none _ _ _ DT e He).
  Qed.

  Lemma tb_phase2 : exists ga, exec_network_simplex (Layout.ns_params o) g1 = Ok ga /\ init_layer_slices ga = Ok g2.
  Proof.
    pose proof (bb_e2 _ _ _ _ _ _ _ _ _ _ _ _ _ _ _ _ BB) as P2. rewrite NS in P2. unfold phase2, assign_layers in P2.
    assert (N1 : Nat.eqb (length (g_N g1)) 1 = false).
    { apply Nat.eqb_neq. rewrite <- (p2_N _ _ PP). pose proof (s2_two _ _ _ _ S23). lia. }
    rewrite N1 in P2.
    destruct (exec_network_simplex (Layout.ns_params o) g1) as [ga|] eqn:E; cbn [bind] in P2; [|discriminate].
    exists ga. split; [reflexivity|exact P2].
  Qed.

  (* the edges of g2 are the non-loop edges of the input, with their ends *)
  Lemma tb_edge2 : forall e, In e (g_E g2) <-> In e (nl_edges g).
  Proof. intros e. rewrite (p2_E _ _ PP), tb_g1, tb_E0. reflexivity. Qed.

  Lemma tb_ends2 : forall e, e_from (gedge g2 e) = e_from (gedge g e) /\ e_to (gedge g2 e) = e_to (gedge g e).
  Proof.
    intros e. destruct (edge_eq_tc_fields _ _ (p2_edge _ _ PP e)) as (-> & -> & _).
    rewrite tb_g1, tb_gedge0. split; reflexivity.
  Qed.

  Lemma tb_hd2 : forall e, TreeProofs.hd top g2 e = TreeProofs.hd top g e.
  Proof. intros e. unfold TreeProofs.hd. destruct (tb_ends2 e) as [-> ->]. reflexivity. Qed.

  (* T2 in the pipeline: every edge of the phase-2 output spans exactly one layer; layer 0 and the last layer are used *)
  Lemma tb_spans :
    (forall e, In e (g_E g2) -> BreakMerge.span g2 e = 1) /\
    (exists n, In n (g_N g2) /\ layer_of g2 n = 0) /\
    (exists n, In n (g_N g2) /\ layer_of g2 n = Z.of_nat (length (g_L g2)) - 1).
  Proof.
    destruct tb_phase2 as [ga [Ens Esl]].
    destruct (ns_wf_of_consistent g1 (s1_c _ _ _ _ S01) (s1_ranked _ _ _ _ S01)) as [W Hac].
    assert (Iso : CBGreedyRanks.no_isolated_nodes g1).
    { rewrite tb_g1. pose proof (ci_conn _ CI) as C. rewrite (bb_e0 _ _ _ _ _ _ _ _ _ _ _ _ _ _ _ _ BB) in C. exact C. }
    destruct (ns_on_tree_all_tight _ g1 ga W Hac Iso tb_count Ens) as (F & T & Hnn & [z [Hz Hz0]]).
    destruct (slices_spec ga g2 Esl) as (_ & L & Ena & Hlen & _).
    assert (Lay : forall n, layer_of g2 n = layer_of ga n) by (intros n; unfold layer_of, gnode; rewrite Ena; reflexivity).
    assert (Ged : forall e, gedge g2 e = gedge ga e).
    { intros e. destruct L as (Eea & _). cbn [with_L g_ea] in Eea. unfold gedge. rewrite Eea. reflexivity. }
    assert (EN : g_N g2 = g_N g1) by apply (p2_N _ _ PP).
    split; [|split].
    - intros e He. rewrite (p2_E _ _ PP) in He. pose proof (T e He) as S0. unfold slack in S0. cbv zeta in S0.
      destruct (ns_frame_slack_delta g1 ga e F) as (_ & _ & D).
      destruct (s1_edge _ _ _ _ S01 e He) as (_ & _ & _ & D1 & _). rewrite D, D1 in S0.
      unfold BreakMerge.span. rewrite Ged, !Lay. lia.
    - exists z. rewrite EN, Lay. auto.
    - destruct (vb_lmax_spec ga) as [M0 Mle].
      destruct (fold_max_spec (layer_of ga) (g_N ga) 0) as (_ & _ & Mc). cbv zeta in Mc. fold (vb_lmax ga) in Mc.
      rewrite Hlen. replace (Z.of_nat (Z.to_nat (vb_lmax ga + 1)) - 1) with (vb_lmax ga) by lia.
      destruct Mc as [Mc|[n [Hn Mc]]].
      + exists z. rewrite EN, Lay, Mc. auto.
      + exists n. rewrite EN, Lay, Mc. rewrite (nf_N _ _ F) in Hn. auto.
  Qed.

  (* so break_long_edges has nothing to do *)
  Lemma tb_g3 : g3 = g2.
  Proof.
    pose proof (break_long_edges_noop g2 (proj1 tb_spans)) as N.
    pose proof (bb_e3 _ _ _ _ _ _ _ _ _ _ _ _ _ _ _ _ BB). congruence.
  Qed.

  Lemma tb_step : forall e, In e (g_E g2) ->
    layer_of g2 (e_to (gedge g2 e)) = layer_of g2 (e_from (gedge g2 e)) + 1.
  Proof. intros e He. pose proof (proj1 tb_spans e He) as S1. unfold BreakMerge.span in S1. lia. Qed.

  Lemma tb_lrange : forall n, In n (g_N g2) -> 0 <= layer_of g2 n <= Z.of_nat (length (g_L g2)) - 1.
  Proof. intros n Hn. destruct (p2_layer_rng _ _ PP n Hn) as [A B]. lia. Qed.

  (* the root lies in the first layer of an out-tree, in the last layer of an in-tree *)
  Lemma tb_root_layer : layer_of g2 root = if top then 0 else Z.of_nat (length (g_L g2)) - 1.
  Proof.
    destruct tb_spans as (_ & [z [Hz Hz0]] & [m [Hm Hm1]]).
    assert (EN : g_N g2 = g_N g) by (rewrite (p2_N _ _ PP), tb_g1; apply (s0_N _ _ _ _ S01)).
    assert (Key : forall v, In v (g_N g2) -> layer_of g2 v = (if top then 0 else Z.of_nat (length (g_L g2)) - 1) -> v = root).
    { intros v Hv Hl. destruct (Nat.eq_dec v root) as [E|Hne]; [exact E|exfalso].
      rewrite EN in Hv. destruct (dt_one _ _ _ DT v Hv Hne) as [e [He [Hh _]]].
      apply tb_edge2 in He. pose proof (tb_step e He) as St. destruct (s2_ends _ _ _ _ S23 e He) as [HF HT].
      pose proof (tb_lrange _ HF). pose proof (tb_lrange _ HT).
      rewrite <- tb_hd2 in Hh. unfold TreeProofs.hd in Hh. destruct top; rewrite Hh in *; lia. }
    destruct top.
    - rewrite <- (Key z Hz Hz0). exact Hz0.
    - rewrite <- (Key m Hm Hm1). exact Hm1.
  Qed.

  Lemma tb_N2 : g_N g2 = g_N g.
  Proof. rewrite (p2_N _ _ PP), tb_g1. apply (s0_N _ _ _ _ S01). Qed.

  Lemma tb_unique : forall e e', In e (g_E g2) -> In e' (g_E g2) -> TreeProofs.hd top g2 e = TreeProofs.hd top g2 e' -> e = e'.
  Proof.
    intros e e' He He' Hh. rewrite !tb_hd2 in Hh. apply tb_edge2 in He. apply tb_edge2 in He'.
    assert (HN : In (TreeProofs.hd top g e) (g_N g)).
    { rewrite <- tb_N2, <- tb_hd2. apply tb_edge2 in He. destruct (s2_ends _ _ _ _ S23 e He) as [HF HT].
      unfold TreeProofs.hd. destruct top; assumption. }
    destruct (dt_one _ _ _ DT _ HN (dt_none _ _ _ DT e He)) as [e0 [_ [_ U]]].
    rewrite (U e He eq_refl). symmetry. apply U; [exact He'|symmetry; exact Hh].
  Qed.

  Lemma tb_layered2 : WmedianProofs.layered g2.
  Proof. rewrite <- tb_g3. apply (bbx_layered _ _ _ _ _ _ _ _ _ _ _ _ _ _ _ _ BB). Qed.

  (* the phase-2 output is a forest in the sense of TreeProofs.v *)
  Theorem tb_forest : TreeProofs.forest top g2.
  Proof.
    constructor.
    - apply (bp_nodup (s2_pre _ _ _ _ S23)).
    - intros e He. pose proof (tb_step e He). unfold TreeProofs.hd, TreeProofs.tl, TreeProofs.dir. destruct top; lia.
    - apply tb_unique.
    - intros n Hn. destruct (Nat.eq_dec n root) as [->|Hne].
      + left. apply (WmedianProofs.ly_layer _ tb_layered2). split; [exact Hn|].
        rewrite tb_root_layer. pose proof (tb_lrange _ Hn). unfold TreeProofs.first_layer. destruct top; lia.
      + right. rewrite tb_N2 in Hn. destruct (dt_one _ _ _ DT n Hn Hne) as [e [He [Hh _]]].
        exists e. rewrite tb_hd2. split; [apply tb_edge2; exact He|exact Hh].
  Qed.

  (* in the words of TreeProofs.v *)
  Theorem tb_rooted_out_tree : top = true -> TreeProofs.rooted_out_tree g2 root.
  Proof.
    intros Et. pose proof tb_root_layer as RL. pose proof tb_unique as U. pose proof tb_hd2 as H2.
    pose proof (dt_one _ _ _ DT) as One. pose proof (dt_none _ _ _ DT) as None.
    rewrite Et in RL, U, H2, One, None. unfold TreeProofs.hd in U, H2, One, None.
    constructor.
    - rewrite tb_N2. apply (dt_root _ _ _ DT).
    - exact RL.
    - apply (bp_nodup (s2_pre _ _ _ _ S23)).
    - apply tb_step.
    - intros n Hn Hne. rewrite tb_N2 in Hn. destruct (One n Hn Hne) as [e [He [Hh _]]].
      exists e. apply tb_edge2 in He. split; [exact He|]. split; [rewrite H2; exact Hh|].
      intros e' He' Hh'. apply U; [exact He'|exact He|]. rewrite Hh', H2. symmetry. exact Hh.
    - intros e He. rewrite H2. apply None. apply tb_edge2. exact He.
  Qed.

  Theorem tb_rooted_in_tree : top = false -> TreeProofs.rooted_in_tree g2 root.
  Proof.
    intros Et. pose proof tb_root_layer as RL. pose proof tb_unique as U. pose proof tb_hd2 as H2.
    pose proof (dt_one _ _ _ DT) as One. pose proof (dt_none _ _ _ DT) as None.
    rewrite Et in RL, U, H2, One, None. unfold TreeProofs.hd in U, H2, One, None.
    constructor.
    - rewrite tb_N2. apply (dt_root _ _ _ DT).
    - exact RL.
    - apply (bp_nodup (s2_pre _ _ _ _ S23)).
    - apply tb_step.
    - intros n Hn Hne. rewrite tb_N2 in Hn. destruct (One n Hn Hne) as [e [He [Hh _]]].
      exists e. apply tb_edge2 in He. split; [exact He|]. split; [rewrite H2; exact Hh|].
      intros e' He' Hh'. apply U; [exact He'|exact He|]. rewrite Hh', H2. symmetry. exact Hh.
    - intros e He. rewrite H2. apply None. apply tb_edge2. exact He.
  Qed.

  (* the ordering phase reports 0, and its output has no crossing *)
  Lemma tb_cx : cx = 0 /\ reported_crossings g3' = 0 /\ drawing_crossings g3' = 0.
  Proof.
    pose proof (bb_e3' _ _ _ _ _ _ _ _ _ _ _ _ _ _ _ _ BB) as WE. rewrite tb_g3 in WE.
    pose proof tb_forest as FO. pose proof tb_layered2 as LY. clear DT. destruct top.
    - destruct (TreeProofs.out_forest_no_crossings wmedian_max_iter g2 g3' cx LY FO WE) as (A & B & C & _). auto.
    - destruct (TreeProofs.in_forest_no_crossings wmedian_max_iter g2 g3' cx LY FO WE) as (A & B & C & _). auto.
  Qed.

  (* ---------- the final graph: the same order, the same edges plus the self loops ---------- *)
  Hypothesis OK : options_ok o.
  Let S45 := bb_s45 _ _ _ _ _ _ _ _ _ _ _ _ _ _ _ _ BB.

  Lemma tb_out_node : forall n, layer_of g' n = layer_of g3' n /\ pos_of g' n = pos_of g3' n.
  Proof.
    intros n. destruct (bbx_phase4 _ _ _ _ _ _ _ _ _ _ _ _ _ _ _ _ BB OK) as (_ & _ & _ & _ & F5 & _).
    unfold layer_of, pos_of. destruct (bbx_out_pos _ _ _ _ _ _ _ _ _ _ _ _ _ _ _ _ CI BB n) as [-> ->].
    destruct (set_xy_fields _ _ (F5 n)) as (_ & _ & -> & -> & _). split; reflexivity.
  Qed.

  Lemma tb_layer3' : forall n, layer_of g3' n = layer_of g2 n.
  Proof.
    intros n. pose proof (E2EBridge.oc_nodes _ _ (s4_oc _ _ _ _ _ _ _ _ _ S45) n) as E. rewrite tb_g3 in E.
    unfold layer_of. destruct (gnode g3' n), (gnode g2 n). unfold set_pos in E. cbn in *. congruence.
  Qed.

  Lemma tb_out_L : length (g_L g') = length (g_L g2).
  Proof.
    destruct (bbx_phase4 _ _ _ _ _ _ _ _ _ _ _ _ _ _ _ _ BB OK) as (_ & _ & _ & _ & _ & _ & F7).
    rewrite (bbx_out_L _ _ _ _ _ _ _ _ _ _ _ _ _ _ _ _ CI BB), F7, (E2EBridge.oc_L _ _ (s4_oc _ _ _ _ _ _ _ _ _ S45)), tb_g3.
    reflexivity.
  Qed.

  Lemma tb_out_E : g_E g' = nl_edges g ++ filter (self_loop g) (g_E g).
  Proof. destruct (E1_of_backbone _ _ _ _ _ _ _ _ _ _ _ _ _ _ _ _ CI BB) as (A & _). exact A. Qed.

  Lemma tb_out_ends : forall e, In e (g_E g) ->
    e_from (gedge g' e) = e_from (gedge g e) /\ e_to (gedge g' e) = e_to (gedge g e).
  Proof.
    intros e He. destruct (E1_of_backbone _ _ _ _ _ _ _ _ _ _ _ _ _ _ _ _ CI BB) as (_ & B & _).
    destruct (B e He) as (A1 & A2 & _). auto.
  Qed.

  Lemma flat_map_ext_in : forall (A B : Type) (f h : A -> list B) l,
    (forall a, In a l -> f a = h a) -> flat_map f l = flat_map h l.
  Proof using.
    intros A B f h l; induction l as [|a l IH]; intros H; cbn [flat_map]; [reflexivity|].
    rewrite (H a (or_introl eq_refl)), IH; [reflexivity|]. intros b Hb. apply H. right. exact Hb.
  Qed.

  Lemma flat_map_nil : forall (A B : Type) (f : A -> list B) l, (forall a, In a l -> f a = []) -> flat_map f l = [].
  Proof using.
    intros A B f l; induction l as [|a l IH]; intros H; cbn [flat_map]; [reflexivity|].
    rewrite (H a (or_introl eq_refl)), IH; [reflexivity|]. intros b Hb. apply H. right. exact Hb.
  Qed.

  (* the edge pairs between two different layers only depend on the ends of the edges that are not self loops *)
  Lemma bilayer_pairs_ends : forall ga gb la lb loops, la <> lb ->
    g_E ga = g_E gb ++ loops ->
    (forall e, In e (g_E gb) ->
       e_from (gedge ga e) = e_from (gedge gb e) /\ e_to (gedge ga e) = e_to (gedge gb e)) ->
    (forall e, In e loops -> e_from (gedge ga e) = e_to (gedge ga e)) ->
    (forall n, layer_of ga n = layer_of gb n /\ pos_of ga n = pos_of gb n) ->
    bilayer_pairs ga la lb = bilayer_pairs gb la lb.
  Proof using.
    intros ga gb la lb loops Hne HE Hends Hloops HN. unfold bilayer_pairs. rewrite HE, flat_map_app.
    rewrite (flat_map_nil _ _ _ loops).
    - rewrite app_nil_r. apply flat_map_ext_in. intros e He. cbv zeta.
      destruct (Hends e He) as [-> ->].
      destruct (HN (e_from (gedge gb e))) as [-> ->]. destruct (HN (e_to (gedge gb e))) as [-> ->]. reflexivity.
    - intros e He. cbv zeta. rewrite (Hloops e He).
      destruct (Z.eqb_spec (layer_of ga (e_to (gedge ga e))) la) as [A|A];
        destruct (Z.eqb_spec (layer_of ga (e_to (gedge ga e))) lb) as [B|B]; cbn [andb]; try reflexivity.
      exfalso. congruence.
  Qed.

  Lemma drawing_crossings_ends : forall ga gb loops,
    length (g_L ga) = length (g_L gb) -> g_E ga = g_E gb ++ loops ->
    (forall e, In e (g_E gb) ->
       e_from (gedge ga e) = e_from (gedge gb e) /\ e_to (gedge ga e) = e_to (gedge gb e)) ->
    (forall e, In e loops -> e_from (gedge ga e) = e_to (gedge ga e)) ->
    (forall n, layer_of ga n = layer_of gb n /\ pos_of ga n = pos_of gb n) ->
    drawing_crossings ga = drawing_crossings gb.
  Proof using.
    intros ga gb loops HL HE Hends Hloops HN. unfold drawing_crossings. rewrite HL.
    apply CrossCountProofs.fold_left_add_ext. intros i _.
    rewrite (bilayer_pairs_ends ga gb _ _ loops); [reflexivity|lia|assumption..].
  Qed.

  (* the drawing of the final graph (self loops included) has as many crossings as the ordered graph: none *)
  Theorem tb_out_drawing : drawing_crossings g' = 0.
  Proof.
    destruct tb_cx as (_ & _ & D0). rewrite <- D0.
    pose proof (s4_oc _ _ _ _ _ _ _ _ _ S45) as OC. rewrite tb_g3 in OC.
    apply (drawing_crossings_ends g' g3' (filter (self_loop g) (g_E g))).
    - rewrite tb_out_L. symmetry. apply (E2EBridge.oc_L _ _ OC).
    - rewrite tb_out_E, (E2EBridge.oc_E _ _ OC). f_equal.
      rewrite (p2_E _ _ PP), tb_g1. symmetry. apply tb_E0.
    - intros e He. rewrite (E2EBridge.oc_E _ _ OC) in He.
      assert (G3 : gedge g3' e = gedge g2 e) by (unfold gedge; rewrite (E2EBridge.oc_ea _ _ OC); reflexivity).
      rewrite G3. destruct (tb_ends2 e) as [-> ->]. apply tb_out_ends.
      apply tb_edge2 in He. unfold nl_edges in He. apply filter_In in He. apply He.
    - intros e He. apply filter_In in He. destruct He as [He Hs].
      destruct (tb_out_ends e He) as [-> ->]. unfold self_loop in Hs. apply Nat.eqb_eq in Hs. exact Hs.
    - apply tb_out_node.
  Qed.

  (* every tree edge goes down exactly one layer in the final graph, and the root is where it should be *)
  Lemma tb_out_layers :
    (forall e, In e (nl_edges g) -> layer_of g' (e_to (gedge g e)) = layer_of g' (e_from (gedge g e)) + 1) /\
    layer_of g' root = (if top then 0 else Z.of_nat (length (g_L g')) - 1).
  Proof.
    assert (LY : forall n, layer_of g' n = layer_of g2 n).
    { intros n. destruct (tb_out_node n) as [-> _]. apply tb_layer3'. }
    split.
    - intros e He. apply tb_edge2 in He. pose proof (tb_step e He) as St.
      destruct (tb_ends2 e) as [A B]. rewrite A, B in St. rewrite !LY. exact St.
    - rewrite LY, tb_out_L. apply tb_root_layer.
  Qed.
End TreeBackbone.

(* ====================================================================================================== *)
(** * D. End to end                                                                                        *)
(* ====================================================================================================== *)

(* both directions at once *)
Theorem dir_tree_no_crossings_end_to_end : forall top o g g' x root,
  component_input g -> options_ok o -> o_p2 o = NetworkSimplex -> dir_tree top g root ->
  layout_component o g = Ok (g', x) ->
  (* the ordering phase reports 0 crossings; the drawing of the final graph has none *)
  x = Some 0 /\ drawing_crossings g' = 0 /\
  (* every edge of the tree goes down exactly one layer; the root lies in the first / last layer *)
  (forall e, In e (g_E g) -> self_loop g e = false ->
     layer_of g' (e_to (gedge g e)) = layer_of g' (e_from (gedge g e)) + 1) /\
  layer_of g' root = (if top then 0 else Z.of_nat (length (g_L g')) - 1) /\
  (* the intermediate graphs: phase 1 reverses nothing, phase 2 gives unit spans, no edge has to be broken *)
  exists g2 g3' g4,
    phase1 (o_p1 o) (fst (ignore_self_loops g)) = Ok (fst (ignore_self_loops g)) /\
    phase2 (o_p2 o) (Layout.ns_params o) (fst (ignore_self_loops g)) = Ok g2 /\
    (forall e, In e (g_E g2) -> BreakMerge.span g2 e = 1) /\
    break_long_edges g2 = Ok g2 /\
    TreeProofs.forest top g2 /\
    (top = true -> TreeProofs.rooted_out_tree g2 root) /\ (top = false -> TreeProofs.rooted_in_tree g2 root) /\
    exec_wmedian wmedian_max_iter g2 = Ok (g3', 0) /\ reported_crossings g3' = 0 /\ drawing_crossings g3' = 0 /\
    phase4 (o_p4 o) (p4_params o) g3' = Ok g4 /\ drawing_crossings g4 = 0.
Proof.
  intros top o g g' x root CI OK NS DT H.
  destruct (pipeline_backbone_F o g g' x CI OK (ns_premise_holds o g CI) H)
    as (g0 & del & g1 & g2 & g3 & k & g3' & cx & g4 & gm & routes & g5 & BB).
  destruct (tb_cx top root _ _ _ _ _ _ _ _ _ _ _ _ _ _ _ _ CI BB NS DT) as (C0 & R0 & D0).
  pose proof (tb_g1 top root _ _ _ _ _ _ _ _ _ _ _ _ _ _ _ _ BB DT) as E1.
  pose proof (tb_g3 top root _ _ _ _ _ _ _ _ _ _ _ _ _ _ _ _ CI BB NS DT) as E3.
  assert (E0 : g0 = fst (ignore_self_loops g)) by (rewrite (bb_e0 _ _ _ _ _ _ _ _ _ _ _ _ _ _ _ _ BB); reflexivity).
  destruct (tb_out_layers top root _ _ _ _ _ _ _ _ _ _ _ _ _ _ _ _ CI BB NS DT OK) as (LE & LR).
  split; [rewrite (bb_x _ _ _ _ _ _ _ _ _ _ _ _ _ _ _ _ BB), C0; reflexivity|].
  split; [apply (tb_out_drawing top root _ _ _ _ _ _ _ _ _ _ _ _ _ _ _ _ CI BB NS DT OK)|].
  split.
  { intros e He Hs. apply LE. unfold nl_edges. apply filter_In. split; [exact He|]. rewrite Hs. reflexivity. }
  split; [exact LR|].
  exists g2, g3', g4.
  pose proof (bb_e1 _ _ _ _ _ _ _ _ _ _ _ _ _ _ _ _ BB) as P1. pose proof (bb_e2 _ _ _ _ _ _ _ _ _ _ _ _ _ _ _ _ BB) as P2.
  pose proof (bb_e3 _ _ _ _ _ _ _ _ _ _ _ _ _ _ _ _ BB) as P3. pose proof (bb_e3' _ _ _ _ _ _ _ _ _ _ _ _ _ _ _ _ BB) as P3'.
  rewrite E1 in P1, P2. rewrite E3 in P3, P3'. rewrite C0 in P3'. rewrite E0 in P1, P2.
  split; [exact P1|]. split; [exact P2|].
  split; [apply (tb_spans top root _ _ _ _ _ _ _ _ _ _ _ _ _ _ _ _ CI BB NS DT)|]. split; [exact P3|].
  split; [apply (tb_forest top root _ _ _ _ _ _ _ _ _ _ _ _ _ _ _ _ CI BB NS DT)|].
  split; [apply (tb_rooted_out_tree top root _ _ _ _ _ _ _ _ _ _ _ _ _ _ _ _ CI BB NS DT)|].
  split; [apply (tb_rooted_in_tree top root _ _ _ _ _ _ _ _ _ _ _ _ _ _ _ _ CI BB NS DT)|].
  split; [exact P3'|]. split; [exact R0|]. split; [exact D0|].
  split; [apply (bb_e4 _ _ _ _ _ _ _ _ _ _ _ _ _ _ _ _ BB)|].
  destruct (bbx_phase4 _ _ _ _ _ _ _ _ _ _ _ _ _ _ _ _ BB OK) as (F1 & F2 & F3 & F4 & F5 & F6 & F7).
  rewrite <- D0. apply drawing_crossings_ext; try assumption.
  intros n. unfold layer_of, pos_of. destruct (set_xy_fields _ _ (F5 n)) as (_ & _ & -> & -> & _). split; reflexivity.
Qed.
Print Assumptions dir_tree_no_crossings_end_to_end.

(* The user-facing statements. With network-simplex layering, either cycle breaker, any modelled positioner and
   router, and whatever the order of the edge list: *)
Theorem out_tree_no_crossings_end_to_end : forall o g g' x root,
  component_input g -> options_ok o -> o_p2 o = NetworkSimplex -> out_tree_input g root ->
  layout_component o g = Ok (g', x) ->
  x = Some 0 /\ drawing_crossings g' = 0 /\
  (forall e, In e (g_E g) -> self_loop g e = false ->
     layer_of g' (e_to (gedge g e)) = layer_of g' (e_from (gedge g e)) + 1) /\
  layer_of g' root = 0 /\
  exists g2 g3' g4,
    phase1 (o_p1 o) (fst (ignore_self_loops g)) = Ok (fst (ignore_self_loops g)) /\
    phase2 (o_p2 o) (Layout.ns_params o) (fst (ignore_self_loops g)) = Ok g2 /\
    break_long_edges g2 = Ok g2 /\ TreeProofs.rooted_out_tree g2 root /\
    exec_wmedian wmedian_max_iter g2 = Ok (g3', 0) /\
    phase4 (o_p4 o) (p4_params o) g3' = Ok g4 /\ drawing_crossings g4 = 0.
Proof.
  intros o g g' x root CI OK NS OT H. apply out_tree_dir in OT.
  destruct (dir_tree_no_crossings_end_to_end true o g g' x root CI OK NS OT H)
    as (A & B & C & D & g2 & g3' & g4 & P1 & P2 & _ & P3 & _ & RT & _ & WE & _ & _ & P4 & D4).
  split; [exact A|]. split; [exact B|]. split; [exact C|]. split; [exact D|].
  exists g2, g3', g4. repeat (split; [assumption|]). split; [apply RT; reflexivity|]. auto.
Qed.
Print Assumptions out_tree_no_crossings_end_to_end.

Theorem in_tree_no_crossings_end_to_end : forall o g g' x root,
  component_input g -> options_ok o -> o_p2 o = NetworkSimplex -> in_tree_input g root ->
  layout_component o g = Ok (g', x) ->
  x = Some 0 /\ drawing_crossings g' = 0 /\
  (forall e, In e (g_E g) -> self_loop g e = false ->
     layer_of g' (e_to (gedge g e)) = layer_of g' (e_from (gedge g e)) + 1) /\
  layer_of g' root = Z.of_nat (length (g_L g')) - 1 /\
  exists g2 g3' g4,
    phase1 (o_p1 o) (fst (ignore_self_loops g)) = Ok (fst (ignore_self_loops g)) /\
    phase2 (o_p2 o) (Layout.ns_params o) (fst (ignore_self_loops g)) = Ok g2 /\
    break_long_edges g2 = Ok g2 /\ TreeProofs.rooted_in_tree g2 root /\
    exec_wmedian wmedian_max_iter g2 = Ok (g3', 0) /\
    phase4 (o_p4 o) (p4_params o) g3' = Ok g4 /\ drawing_crossings g4 = 0.
Proof.
  intros o g g' x root CI OK NS IT H. apply in_tree_dir in IT.
  destruct (dir_tree_no_crossings_end_to_end false o g g' x root CI OK NS IT H)
    as (A & B & C & D & g2 & g3' & g4 & P1 & P2 & _ & P3 & _ & _ & RT & WE & _ & _ & P4 & D4).
  split; [exact A|]. split; [exact B|]. split; [exact C|]. split; [exact D|].
  exists g2, g3', g4. repeat (split; [assumption|]). split; [apply RT; reflexivity|]. auto.
Qed.
Print Assumptions in_tree_no_crossings_end_to_end.

(* ====================================================================================================== *)
(** * E. An executable, sound check of the hypothesis; examples                                            *)
(* ====================================================================================================== *)

Definition dir_tree_b (top : bool) (g : graph) (root : nat) (rk : nat -> Z) : bool :=
  mem_nat root (g_N g) &&
  forallb (fun e => rk (e_from (gedge g e)) <? rk (e_to (gedge g e))) (nl_edges g) &&
  forallb (fun n => Nat.eqb n root ||
                    Nat.eqb (length (filter (fun e => Nat.eqb (TreeProofs.hd top g e) n) (nl_edges g))) 1) (g_N g) &&
  forallb (fun e => negb (Nat.eqb (TreeProofs.hd top g e) root)) (nl_edges g).

Lemma filter_length_one : forall (p : nat -> bool) l, length (filter p l) = 1%nat ->
  exists e, In e l /\ p e = true /\ forall e', In e' l -> p e' = true -> e' = e.
Proof.
  intros p l H. destruct (filter p l) as [|e [|e2 t]] eqn:E; cbn [length] in H; try discriminate.
  assert (He : In e (filter p l)) by (rewrite E; left; reflexivity).
  apply filter_In in He. exists e. split; [apply He|]. split; [apply He|].
  intros e' He' Hp. assert (Hin : In e' (filter p l)) by (apply filter_In; auto).
  rewrite E in Hin. destruct Hin as [<-|[]]. reflexivity.
Qed.

Theorem dir_tree_b_sound : forall top g root rk, dir_tree_b top g root rk = true -> dir_tree top g root.
Proof.
  intros top g root rk H. unfold dir_tree_b in H.
  apply andb_prop in H. destruct H as [H C4]. apply andb_prop in H. destruct H as [H C3].
  apply andb_prop in H. destruct H as [C1 C2]. rewrite forallb_forall in C2, C3, C4. constructor.
  - apply mem_nat_In. exact C1.
  - exists rk. intros e He. apply Z.ltb_lt. apply C2. exact He.
  - intros n Hn Hne. specialize (C3 n Hn). apply orb_prop in C3. destruct C3 as [C3|C3]; [apply Nat.eqb_eq in C3; contradiction|].
    apply Nat.eqb_eq in C3. destruct (filter_length_one _ _ C3) as [e [He [Hp U]]].
    exists e. split; [exact He|]. split; [apply Nat.eqb_eq; exact Hp|].
    intros e' He' Hh. apply U; [exact He'|apply Nat.eqb_eq; exact Hh].
  - intros e He Hr. specialize (C4 e He). rewrite Hr, Nat.eqb_refl in C4. discriminate.
Qed.

(* (a) an out-tree with 7 nodes, root "0", children 1 2, grandchildren 3 4 (of 1) and 5 6 (of 2), a self loop at 3;
   the edge list is shuffled. [populate] numbers the nodes in the order of their first appearance: "0" is node 2. *)
Definition te_edges : list (list nat) := [[2;6];[0;2];[1;3];[3;3];[0;1];[2;5];[1;4]]%nat.
Definition te_g : graph := Eval vm_compute in wc_front te_edges.
Definition te_o : options := mkOptions DepthFirst NetworkSimplex VAlign Polyline 1 0 5 7 false.

Example te_options_ok : options_ok te_o.
Proof. split; [left; reflexivity|right; left; reflexivity]. Qed.

Example te_input : component_input te_g.
Proof.
  assert (E : te_g = wc_front te_edges) by (vm_compute; reflexivity). rewrite E.
  apply wc_front_input; [vm_compute; discriminate|vm_compute; lia].
Qed.

Example te_out_tree : out_tree_input te_g 2.
Proof.
  apply out_tree_dir. apply (dir_tree_b_sound true te_g 2%nat (fun n => nth n [1; 2; 0; 1; 2; 2; 2] 0)).
  vm_compute. reflexivity.
Qed.

(* the run: 0 crossings reported; the layers of the final graph *)
Example te_run : exists g', layout_component te_o te_g = Ok (g', Some 0) /\ drawing_crossings g' = 0 /\
  map l_nodes (g_L g') = [[2]; [0; 3]; [1; 5; 4; 6]]%nat.
Proof. eexists. vm_compute. repeat split; reflexivity. Qed.

(* the theorem: for every modelled choice of cycle breaker, positioner, router, spacing and pivot budget *)
Example te_no_crossings : forall o g' x, options_ok o -> o_p2 o = NetworkSimplex ->
  layout_component o te_g = Ok (g', x) -> x = Some 0 /\ drawing_crossings g' = 0 /\ layer_of g' 2 = 0.
Proof.
  intros o g' x OK NS H.
  destruct (out_tree_no_crossings_end_to_end o te_g g' x 2%nat te_input OK NS te_out_tree H) as (A & B & _ & C & _). auto.
Qed.
Print Assumptions te_no_crossings.

(* (b) the same tree with every edge reversed: an in-tree, the root "0" (node 1 in the numbering of populate)
   ends up in the last layer *)
Definition ti_edges : list (list nat) := [[6;2];[2;0];[3;1];[1;0];[5;2];[4;1]]%nat.
Definition ti_g : graph := Eval vm_compute in wc_front ti_edges.

Example ti_input : component_input ti_g.
Proof.
  assert (E : ti_g = wc_front ti_edges) by (vm_compute; reflexivity). rewrite E.
  apply wc_front_input; [vm_compute; discriminate|vm_compute; lia].
Qed.

Example ti_in_tree : in_tree_input ti_g 2.
Proof.
  apply in_tree_dir. apply (dir_tree_b_sound false ti_g 2%nat (fun n => nth n [0; 1; 2; 0; 1; 0; 0] 0)).
  vm_compute. reflexivity.
Qed.

Example ti_run : exists g', layout_component te_o ti_g = Ok (g', Some 0) /\ drawing_crossings g' = 0 /\
  map l_nodes (g_L g') = [[0; 5; 3; 6]; [1; 4]; [2]]%nat.
Proof. eexists. vm_compute. repeat split; reflexivity. Qed.

Example ti_no_crossings : forall o g' x, options_ok o -> o_p2 o = NetworkSimplex ->
  layout_component o ti_g = Ok (g', x) ->
  x = Some 0 /\ drawing_crossings g' = 0 /\ layer_of g' 2 = Z.of_nat (length (g_L g')) - 1.
Proof.
  intros o g' x OK NS H.
  destruct (in_tree_no_crossings_end_to_end o ti_g g' x 2%nat ti_input OK NS ti_in_tree H) as (A & B & _ & C & _). auto.
Qed.
Print Assumptions ti_no_crossings.

(* (c) T2 alone, on the graph network simplex is run on in example (a): with no pivot budget at all (thoroughness 0:
   the loop stops on its budget at once) and with the balancing mode of the positioner (2), every edge spans one layer *)
Definition te_g0 : graph := Eval vm_compute in fst (ignore_self_loops te_g).

Example te_ns_hyps :
  ns_wf te_g0 /\ acyclic te_g0 /\ CBGreedyRanks.no_isolated_nodes te_g0 /\
  (length (g_E te_g0) + 1 = length (g_N te_g0))%nat /\ unit_deltas te_g0.
Proof.
  split; [apply ns_wfb_ok; vm_compute; reflexivity|].
  split; [apply (acyclicb_ok (fun n => nth n [1; 2; 0; 1; 2; 2; 2] 0)%nat); vm_compute; reflexivity|].
  split; [intros n Hn; vm_compute in Hn; list_cases Hn; vm_compute; lia|].
  split; [vm_compute; reflexivity|].
  intros e He. vm_compute in He. list_cases He; reflexivity.
Qed.

Example te_ns_unit_spans : forall p g', exec_network_simplex p te_g0 = Ok g' ->
  forall e, In e (g_E g') -> BreakMerge.span g' e = 1.
Proof.
  intros p g' H. destruct te_ns_hyps as (W & A & I & C & U).
  apply (ns_on_tree_unit_spans p te_g0 g' W A I C U H).
Qed.

Example te_ns_run :
  match exec_network_simplex (mkNsParams 0 0 2) te_g0 with
  | Ok g' => forallb (fun e => BreakMerge.span g' e =? 1) (g_E g') && (length (g_E g') =? 6)%nat
  | Err _ => false
  end = true.
Proof. vm_compute. reflexivity. Qed.

(* (d) why [dt_acyclic] is part of the hypothesis: [component_input] does not say that the component is connected, and
   the degree conditions alone are also met by the root with one child next to a 2-cycle (0 -> 1, 2 -> 3, 3 -> 2). *)
Definition cyc_g : graph := Eval vm_compute in
  match populate nat Nat.eqb [[0;1];[2;3];[3;2]]%nat with Ok (_, g) => g | Err _ => empty_graph end.

Example degree_conditions_do_not_imply_acyclic :
  forallb (fun n => Nat.eqb n 0 ||
                    Nat.eqb (length (filter (fun e => Nat.eqb (e_to (gedge cyc_g e)) n) (nl_edges cyc_g))) 1) (g_N cyc_g) = true /\
  forallb (fun e => negb (Nat.eqb (e_to (gedge cyc_g e)) 0)) (nl_edges cyc_g) = true /\
  (length (nl_edges cyc_g) + 1 = length (g_N cyc_g))%nat /\
  ~ (exists rk : nat -> Z, forall e, In e (nl_edges cyc_g) -> rk (e_from (gedge cyc_g e)) < rk (e_to (gedge cyc_g e))).
Proof.
  split; [vm_compute; reflexivity|]. split; [vm_compute; reflexivity|]. split; [vm_compute; reflexivity|].
  intros [rk H].
  assert (H1 : In 1%nat (nl_edges cyc_g)) by (vm_compute; tauto).
  assert (H2 : In 2%nat (nl_edges cyc_g)) by (vm_compute; tauto).
  apply H in H1. apply H in H2.
  change (rk 2%nat < rk 3%nat) in H1. change (rk 3%nat < rk 2%nat) in H2. lia.
Qed.
