(* TreeProofs.v — forests whose roots all lie in the first layer are drawn without crossings

   T2' if the initial order of the top run has no crossings, exec_wmedian reports 0 and installs an order without crossings
   T1  out-forests (every edge goes from layer k to layer k+1, every node has at most one in-edge, every node without
       in-edge lies in layer 0): the DFS order of init_positions true has no crossings
   T2  hence exec_wmedian reports 0 and the installed order has no crossings
   T3  the same for in-forests (roots in the last layer), through the bottom-initialised run *)
From Autog Require Import Wmedian.
From Autog Require Import CrossCountProofs ListLemmas WmedianProofs.
From Coq Require Import ZifyNat Permutation Sorted.

(* ====================================================================================================== *)
(* 0. the reported number is never negative                                                               *)
(* ====================================================================================================== *)
Lemma inversions_nonneg : forall l, 0 <= inversions l.
Proof.
  induction l as [|x t IH]; cbn [inversions]; [lia|].
  pose proof (cnt_nonneg (fun y => y <? x) t). lia.
Qed.

Lemma radix_targets_range : forall m n pairs t, In t (radix_targets m n pairs) -> 0 <= t < Z.of_nat n.
Proof.
  intros m n pairs t H. unfold radix_targets in H. apply in_flat_map in H. destruct H as [i [_ H]].
  apply in_flat_map in H. destruct H as [j [Hj H]]. apply in_iota in Hj.
  destruct (has_pair _ _); [|destruct H]. destruct H as [<-|[]]. lia.
Qed.

Lemma count_crossings_nonneg : forall g i1 i2, 0 <= count_crossings g i1 i2.
Proof.
  intros g i1 i2. unfold count_crossings.
  destruct (_ || _); [lia|].
  destruct (Nat.ltb_spec (length (l_nodes (glayer g i2))) (length (l_nodes (glayer g i1)))) as [Hl|Hl].
  - rewrite cc_count_inversions; [apply inversions_nonneg|].
    intros t Ht. apply radix_targets_range in Ht. lia.
  - rewrite cc_count_inversions; [apply inversions_nonneg|].
    intros t Ht. apply radix_targets_range in Ht. lia.
Qed.

Lemma fold_add_nonneg : forall (f : nat -> Z) l a, 0 <= a -> (forall i, 0 <= f i) -> 0 <= fold_left (fun s i => s + f i) l a.
Proof.
  intros f; induction l as [|x l IH]; intros a Ha Hf; cbn [fold_left]; [exact Ha|].
  apply IH; [specialize (Hf x); lia|exact Hf].
Qed.

Lemma reported_crossings_nonneg : forall g, 0 <= reported_crossings g.
Proof.
  intros g. unfold reported_crossings. apply fold_add_nonneg; [lia|].
  intros i. apply count_crossings_nonneg.
Qed.

Lemma fold_add_zero : forall (f : nat -> Z) l, (forall i, In i l -> f i = 0) -> fold_left (fun s i => s + f i) l 0 = 0.
Proof.
  intros f; induction l as [|x l IH]; intros Hf; cbn [fold_left]; [reflexivity|].
  rewrite (Hf x (or_introl eq_refl)). apply IH. intros i Hi; apply Hf; right; exact Hi.
Qed.

(* ====================================================================================================== *)
(* 1. T2': a crossing-free initial order is final                                                         *)
(* ====================================================================================================== *)
Lemma wmedian_run_zero : forall maxiter top g gi,
  init_positions top g = Ok gi -> reported_crossings (sort_layers gi) = 0 ->
  wmedian_run maxiter top g = Ok (sort_layers gi, 0, positions (sort_layers gi)).
Proof.
  intros maxiter top g gi E Z0. unfold wmedian_run. rewrite E. cbn [bind]. rewrite Z0. reflexivity.
Qed.

Theorem top_zero_reports_zero : forall maxiter g gi g' x,
  layered g -> init_positions true g = Ok gi -> reported_crossings (sort_layers gi) = 0 ->
  exec_wmedian maxiter g = Ok (g', x) ->
  x = 0 /\ reported_crossings g' = 0 /\ order_contract g g'.
Proof.
  intros maxiter g gi g' x L E Z0 H.
  destruct (exec_wmedian_contract maxiter g g' x L H) as [C Ex].
  assert (X0 : x = 0).
  { unfold exec_wmedian in H. destruct (existsb (is_flat g) (g_E g)); [discriminate|].
    rewrite (wmedian_run_zero maxiter true g gi E Z0) in H. cbn [bind] in H.
    destruct (wmedian_run maxiter false (sort_layers gi)) as [[[g2 xb] pb]|er] eqn:E2; cbn [bind] in H; [|discriminate].
    assert (L1 : layered (sort_layers gi)).
    { destruct (wmedian_run_inv maxiter true g _ _ _ L (wmedian_run_zero maxiter true g gi E Z0)) as [[F _] _].
      apply (layered_frame g); assumption. }
    destruct (wmedian_run_inv maxiter false _ g2 xb pb L1 E2) as [_ [gs [_ [Exb _]]]].
    pose proof (reported_crossings_nonneg gs) as Hn.
    destruct (Z.ltb_spec 0 xb) as [Hlt|Hge]; injection H as _ <-; lia. }
  split; [exact X0|]. split; [rewrite <- Ex; exact X0|exact C].
Qed.
Print Assumptions top_zero_reports_zero.

Theorem bottom_zero_reports_zero : forall maxiter g g1 xt pt gi g' x,
  layered g -> wmedian_run maxiter true g = Ok (g1, xt, pt) ->
  init_positions false g1 = Ok gi -> reported_crossings (sort_layers gi) = 0 ->
  exec_wmedian maxiter g = Ok (g', x) ->
  x = 0 /\ reported_crossings g' = 0 /\ order_contract g g'.
Proof.
  intros maxiter g g1 xt pt gi g' x L E1 E Z0 H.
  destruct (exec_wmedian_contract maxiter g g' x L H) as [C Ex].
  assert (X0 : x = 0).
  { unfold exec_wmedian in H. destruct (existsb (is_flat g) (g_E g)); [discriminate|].
    rewrite E1 in H. cbn [bind] in H.
    rewrite (wmedian_run_zero maxiter false g1 gi E Z0) in H. cbn [bind] in H.
    destruct (wmedian_run_inv maxiter true g g1 xt pt L E1) as [_ [gs [_ [Ext _]]]].
    pose proof (reported_crossings_nonneg gs) as Hn.
    destruct (Z.ltb_spec xt 0) as [Hlt|Hge]; injection H as _ <-; lia. }
  split; [exact X0|]. split; [rewrite <- Ex; exact X0|exact C].
Qed.
Print Assumptions bottom_zero_reports_zero.

(* ====================================================================================================== *)
(* 2. more about the list of visited nodes                                                                *)
(* ====================================================================================================== *)
Lemma lcnt_app : forall g0 ln a b, lcnt g0 ln (a ++ b) = (lcnt g0 ln a + lcnt g0 ln b)%nat.
Proof. intros. unfold lcnt. rewrite filter_app, app_length. reflexivity. Qed.

Lemma lcnt_cons : forall g0 ln n b,
  lcnt g0 ln (n :: b) = if layer_of g0 n =? ln then S (lcnt g0 ln b) else lcnt g0 ln b.
Proof. intros. unfold lcnt, in_layer. cbn [filter]. destruct (layer_of g0 n =? ln); reflexivity. Qed.

Lemma lcnt_zero : forall g0 ln a, (forall m, In m a -> layer_of g0 m <> ln) -> lcnt g0 ln a = 0%nat.
Proof.
  intros g0 ln a H. unfold lcnt. rewrite filter_false; [reflexivity|].
  intros m Hm. unfold in_layer. apply Z.eqb_neq. apply H; exact Hm.
Qed.

Lemma vis_ok_suffix : forall g0 g a b, vis_ok g0 g (a ++ b) -> vis_ok g0 g b.
Proof.
  intros g0 g; induction a as [|x a IH]; intros b V; [exact V|].
  cbn [app vis_ok] in V. apply IH. tauto.
Qed.

Lemma vis_ok_mid : forall g0 g a n b, vis_ok g0 g (a ++ n :: b) -> pos_of g n = Z.of_nat (lcnt g0 (layer_of g0 n) b).
Proof. intros g0 g a n b V. apply vis_ok_suffix in V. cbn [vis_ok] in V. tauto. Qed.

Lemma vis_ok_bound : forall g0 g vis m, vis_ok g0 g vis -> In m vis ->
  0 <= pos_of g m < Z.of_nat (lcnt g0 (layer_of g0 m) vis).
Proof.
  intros g0 g; induction vis as [|x b IH]; intros m V Hm; [destruct Hm|].
  cbn [vis_ok] in V. destruct V as [V1 [V2 V3]]. rewrite lcnt_cons.
  destruct Hm as [->|Hm].
  - rewrite Z.eqb_refl. lia.
  - specialize (IH m V3 Hm). destruct (layer_of g0 x =? layer_of g0 m); lia.
Qed.

(* ====================================================================================================== *)
(* 3. the DFS on a forest                                                                                 *)
(* ====================================================================================================== *)
Section Forest.
  Variable top : bool.   (* true: follow out-edges from layer 0; false: follow in-edges from the last layer *)
  Variable g0 : graph.

  (* the end of an edge the DFS walks to / comes from *)
  Definition hd (e : nat) : nat := if top then e_to (gedge g0 e) else e_from (gedge g0 e).
  Definition tl (e : nat) : nat := if top then e_from (gedge g0 e) else e_to (gedge g0 e).
  Definition dir : Z := if top then 1 else -1.
  Definition first_layer : nat := if top then 0%nat else (length (g_L g0) - 1)%nat.

  Record forest : Prop := {
    fo_nodup : NoDup (g_E g0);
    (* every edge spans exactly one layer, in the direction of the walk *)
    fo_step : forall e, In e (g_E g0) -> layer_of g0 (hd e) = layer_of g0 (tl e) + dir;
    (* a node is entered by at most one edge *)
    fo_unique : forall e e', In e (g_E g0) -> In e' (g_E g0) -> hd e = hd e' -> e = e';
    (* the nodes that are not entered by an edge (the roots) lie in the first layer *)
    fo_root : forall n, In n (g_N g0) -> In n (lnodes g0 first_layer) \/ exists e, In e (g_E g0) /\ hd e = n
  }.

  Hypothesis L0 : layered g0.
  Hypothesis FO : forest.

  (* depth: distance from the first layer *)
  Definition dp (n : nat) : Z := if top then layer_of g0 n else Z.of_nat (length (g_L g0)) - 1 - layer_of g0 n.

  Lemma dp_nonneg : forall n, In n (g_N g0) -> 0 <= dp n.
  Proof. intros n Hn. pose proof (ly_lrange _ L0 n Hn). unfold dp. destruct top; lia. Qed.

  Lemma dp_step : forall e, In e (g_E g0) -> dp (hd e) = dp (tl e) + 1.
  Proof. intros e He. pose proof (fo_step FO e He) as H. unfold dp, dir in *. destruct top; lia. Qed.

  Lemma dp_first : forall n, In n (lnodes g0 first_layer) -> dp n = 0.
  Proof.
    intros n Hn. pose proof (proj1 (ly_layer _ L0 _ _) Hn) as [HN Hl].
    pose proof (ly_lrange _ L0 n HN). unfold dp, first_layer in *. destruct top; lia.
  Qed.

  Lemma dp_layer : forall m n, layer_of g0 m = layer_of g0 n <-> dp m = dp n.
  Proof. intros m n. unfold dp. destruct top; lia. Qed.

  Lemma hd_N : forall e, In e (g_E g0) -> In (hd e) (g_N g0).
  Proof. intros e He. unfold hd. destruct top; apply (ly_ends _ L0 e He). Qed.

  Lemma tl_N : forall e, In e (g_E g0) -> In (tl e) (g_N g0).
  Proof. intros e He. unfold tl. destruct top; apply (ly_ends _ L0 e He). Qed.

  Lemma adj_spec : forall n e, In n (g_N g0) ->
    (In e (if top then n_out (gnode g0 n) else n_in (gnode g0 n)) <-> (In e (g_E g0) /\ tl e = n)).
  Proof. intros n e Hn. unfold tl. destruct top; [apply (ly_out _ L0 n Hn)|apply (ly_in _ L0 n Hn)]. Qed.

  (* the part of the invariant that is specific to forests: children are numbered in the order of their parents *)
  Definition TI (st : ip_st) : Prop :=
    (forall e, In e (g_E g0) -> In (hd e) (st_vis st) -> In (tl e) (st_vis st)) /\
    (forall e e', In e (g_E g0) -> In e' (g_E g0) -> In (hd e) (st_vis st) -> In (hd e') (st_vis st) ->
       layer_of g0 (hd e) = layer_of g0 (hd e') ->
       pos_of (st_g st) (hd e) < pos_of (st_g st) (hd e') ->
       pos_of (st_g st) (tl e) <= pos_of (st_g st) (tl e')).

  (* when the DFS enters a fresh node, the node it comes from is the most recently numbered one of its layer *)
  Definition parent_last (st : ip_st) (n : nat) : Prop :=
    ~ In n (st_vis st) -> forall e, In e (g_E g0) -> hd e = n ->
    In (tl e) (st_vis st) /\ pos_of (st_g st) (tl e) = idx_get (st_idx st) (layer_of g0 (tl e)) - 1.

  Definition closed_in (ext vis : list nat) : Prop :=
    forall u e, In u ext -> In e (g_E g0) -> tl e = u -> In (hd e) vis.

  Definition post (n : nat) (st st' : ip_st) : Prop :=
    TI st' /\ exists ext, st_vis st' = ext ++ st_vis st /\ (forall m, In m ext -> dp n <= dp m) /\
                          closed_in ext (st_vis st').

  Lemma TI_visit : forall g vis idx n,
    ip_inv g0 (g, vis, idx) -> TI (g, vis, idx) -> In n (g_N g0) -> ~ In n vis -> parent_last (g, vis, idx) n ->
    TI (upd_node g n (set_pos (idx_get idx (layer_of g n))), n :: vis, (layer_of g n, idx_get idx (layer_of g n) + 1) :: idx).
  Proof.
    intros g vis idx n Iv [T1 T2] Hn Hnv PL.
    destruct Iv as [F [HL [HN [V HI]]]]. unfold TI, parent_last in *. unfold st_g, st_vis, st_idx in *. cbn [fst snd] in *.
    specialize (PL Hnv).
    assert (El : layer_of g n = layer_of g0 n) by (apply of_layer_of; exact F).
    assert (Hr : (n < length (g_na g))%nat) by (rewrite (of_na _ _ F); apply (ly_range _ L0); exact Hn).
    set (g1 := upd_node g n (set_pos (idx_get idx (layer_of g n)))).
    assert (Pn : pos_of g1 n = Z.of_nat (lcnt g0 (layer_of g0 n) vis)).
    { unfold g1. rewrite pos_of_upd_same by exact Hr. rewrite HI, El. reflexivity. }
    assert (Po : forall m, m <> n -> pos_of g1 m = pos_of g m).
    { intros m Hm. unfold g1. apply pos_of_upd_other. congruence. }
    assert (T1' : forall e, In e (g_E g0) -> In (hd e) (n :: vis) -> In (tl e) vis).
    { intros e He [Hh|Hh]; [apply (PL e He (eq_sym Hh))|apply T1; assumption]. }
    split.
    - intros e He Hh. right. apply T1'; assumption.
    - intros e e' He He' Hh Hh' Hlay Hlt.
      pose proof (T1' e He Hh) as Ht. pose proof (T1' e' He' Hh') as Ht'.
      assert (Nt : tl e <> n) by (intros E; rewrite E in Ht; contradiction).
      assert (Nt' : tl e' <> n) by (intros E; rewrite E in Ht'; contradiction).
      rewrite (Po _ Nt), (Po _ Nt').
      destruct (Nat.eq_dec (hd e') n) as [E'|N'].
      + destruct (Nat.eq_dec (hd e) n) as [E|N]; [rewrite E, E' in Hlt; lia|].
        destruct (PL e' He' E') as [_ Pp]. rewrite Pp, HI.
        assert (Elt : layer_of g0 (tl e) = layer_of g0 (tl e')).
        { pose proof (fo_step FO e He). pose proof (fo_step FO e' He'). lia. }
        rewrite <- Elt. pose proof (vis_ok_bound g0 g vis (tl e) V Ht). lia.
      + destruct Hh' as [Hh'|Hh']; [congruence|].
        destruct (Nat.eq_dec (hd e) n) as [E|N].
        * exfalso. rewrite E, Pn in Hlt. rewrite (Po _ N') in Hlt.
          pose proof (vis_ok_bound g0 g vis (hd e') V Hh') as B. rewrite <- Hlay, E in B. lia.
        * destruct Hh as [Hh|Hh]; [congruence|].
          rewrite (Po _ N), (Po _ N') in Hlt. apply T2; assumption.
  Qed.

  Section Loop.
    Variable f : nat.
    Hypothesis IHf : forall n st st', In n (g_N g0) -> ip_inv g0 st -> TI st -> parent_last st n ->
      init_pos top f n st = Ok st' -> post n st st'.

    Lemma ip_loop_forest : forall es st st' n vis0,
      In n (g_N g0) ->
      (forall e, In e es -> In e (g_E g0) /\ tl e = n) ->
      ip_inv g0 st -> TI st ->
      (exists ext, st_vis st = ext ++ n :: vis0 /\ (forall m, In m ext -> dp n + 1 <= dp m) /\ closed_in ext (st_vis st)) ->
      ip_loop (init_pos top f) top es st = Ok st' ->
      TI st' /\
      (exists ext, st_vis st' = ext ++ n :: vis0 /\ (forall m, In m ext -> dp n + 1 <= dp m) /\ closed_in ext (st_vis st')) /\
      (forall e, In e es -> In (hd e) (st_vis st')).
    Proof.
      induction es as [|e t IH]; intros st st' n vis0 Hn Hes Iv T [ext [Ev [Hd Hc]]] H; cbn [ip_loop] in H.
      - injection H as <-. split; [exact T|]. split; [exists ext; auto|intros e []].
      - destruct st as [[g vis] idx].
        assert (Eg : gedge g e = gedge g0 e) by (apply of_gedge; apply Iv).
        rewrite Eg in H. fold (hd e) in H.
        destruct (init_pos top f (hd e) (g, vis, idx)) as [st1|er] eqn:E1; cbn [bind] in H; [|discriminate].
        destruct (Hes e (or_introl eq_refl)) as [He Htl].
        pose proof (hd_N e He) as HhN.
        destruct (init_pos_inv g0 L0 top f (hd e) _ _ HhN Iv E1) as [I1 [M1 X1]].
        assert (PL : parent_last (g, vis, idx) (hd e)).
        { intros Hnv e' He' Hh'. pose proof (fo_unique FO e' e He' He Hh'). subst e'. rewrite Htl.
          unfold st_vis, st_g, st_idx in *. cbn [fst snd] in *.
          split; [rewrite Ev; apply in_or_app; right; left; reflexivity|].
          destruct Iv as [_ [_ [_ [V HI]]]]. unfold st_vis, st_g, st_idx in *. cbn [fst snd] in *.
          rewrite Ev in V. rewrite (vis_ok_mid g0 g ext n vis0 V).
          rewrite HI, Ev, lcnt_app, lcnt_cons, Z.eqb_refl.
          rewrite (lcnt_zero g0 (layer_of g0 n) ext); [lia|].
          intros m Hm El. apply dp_layer in El. specialize (Hd m Hm). lia. }
        destruct (IHf (hd e) _ _ HhN Iv T PL E1) as [T1 [ext1 [Ev1 [Hd1 Hc1]]]].
        unfold st_vis in Ev, Ev1, Hc, M1. cbn [fst snd] in Ev, Ev1, Hc, M1.
        assert (Hdp : dp (hd e) = dp n + 1) by (rewrite (dp_step e He), Htl; reflexivity).
        destruct (IH st1 st' n vis0 Hn (fun e' He' => Hes e' (or_intror He')) I1 T1) as [T2 [Hext2 Hin2]].
        + exists (ext1 ++ ext). split; [unfold st_vis in *; rewrite Ev1, Ev, app_assoc; reflexivity|]. split.
          * intros m Hm. apply in_app_or in Hm. destruct Hm as [Hm|Hm]; [specialize (Hd1 m Hm); lia|apply Hd; exact Hm].
          * intros u e' Hu He' Hu'. apply in_app_or in Hu. destruct Hu as [Hu|Hu].
            -- apply (Hc1 u e'); assumption.
            -- apply M1. apply (Hc u e'); assumption.
        + exact H.
        + split; [exact T2|]. split; [exact Hext2|].
          intros e' [<-|He']; [|apply Hin2; exact He'].
          assert (Ht : forall e', In e' t -> In (if top then e_to (gedge g0 e') else e_from (gedge g0 e')) (g_N g0)).
          { intros e' He'. apply (hd_N e'). apply (Hes e' (or_intror He')). }
          destruct (ip_loop_inv g0 top f (init_pos_inv g0 L0 top f) t st1 st' Ht I1 H) as [_ M2].
          apply M2. exact X1.
    Qed.
  End Loop.

  Lemma init_pos_forest : forall fuel n st st',
    In n (g_N g0) -> ip_inv g0 st -> TI st -> parent_last st n -> init_pos top fuel n st = Ok st' -> post n st st'.
  Proof.
    induction fuel as [|f IH]; intros n st st' Hn Iv T PL H; [discriminate|].
    destruct st as [[g vis] idx]. rewrite init_pos_S in H.
    destruct (mem_nat n vis) eqn:Em.
    - injection H as <-. split; [exact T|]. exists []. split; [reflexivity|]. split; [intros m []|intros u e []].
    - apply mem_nat_false in Em. cbv zeta in H.
      pose proof (ip_visit g0 L0 g vis idx n Iv Hn Em) as I1.
      pose proof (TI_visit g vis idx n Iv T Hn Em PL) as T1.
      assert (F : oframe g0 g) by apply Iv.
      set (g1 := upd_node g n (set_pos (idx_get idx (layer_of g n)))) in *.
      assert (F1 : oframe g0 g1) by (eapply oframe_trans; [exact F|apply oframe_upd_pos]).
      assert (Eadj : (if top then n_out (gnode g1 n) else n_in (gnode g1 n)) =
                     (if top then n_out (gnode g0 n) else n_in (gnode g0 n))).
      { destruct top; [apply (of_n_out _ _ n F1)|apply (of_n_in _ _ n F1)]. }
      rewrite Eadj in H.
      apply (ip_loop_forest f IH _ _ _ n vis Hn) in H; [| |exact I1|exact T1|].
      + destruct H as [T2 [[ext [Ev [Hd Hc]]] Hin]]. split; [exact T2|].
        exists (ext ++ [n]). unfold st_vis in *. cbn [fst snd] in *.
        split; [rewrite Ev, <- app_assoc; reflexivity|]. split.
        * intros m Hm. apply in_app_or in Hm. destruct Hm as [Hm|[<-|[]]]; [specialize (Hd m Hm); lia|lia].
        * intros u e Hu He Hu'. apply in_app_or in Hu. destruct Hu as [Hu|[<-|[]]].
          -- apply (Hc u e); assumption.
          -- apply Hin. apply (adj_spec n e Hn). split; [exact He|exact Hu'].
      + intros e He. apply (adj_spec n e Hn). exact He.
      + exists []. unfold st_vis; cbn [fst snd]. split; [reflexivity|]. split; [intros m []|intros u e []].
  Qed.

  (* ---------- the top-level loop ---------- *)
  Definition ip_step (fuel : nat) (r : res ip_st) (n : nat) : res ip_st := do st <- r; init_pos top fuel n st.

  Lemma fold_roots : forall fuel l st st',
    (forall n, In n l -> In n (g_N g0) /\ dp n = 0) ->
    ip_inv g0 st -> TI st -> closed_in (st_vis st) (st_vis st) ->
    fold_left (ip_step fuel) l (Ok st) = Ok st' ->
    ip_inv g0 st' /\ TI st' /\ closed_in (st_vis st') (st_vis st') /\ (forall n, In n l -> In n (st_vis st')) /\
    (forall m, In m (st_vis st) -> In m (st_vis st')).
  Proof.
    intros fuel; induction l as [|x l IH]; intros st st' Hl Iv T C H; cbn [fold_left] in H.
    - injection H as <-. split; [exact Iv|]. split; [exact T|]. split; [exact C|]. split; [intros n []|auto].
    - unfold ip_step at 2 in H. cbn [bind] in H.
      destruct (init_pos top fuel x st) as [st1|er] eqn:E1; [|unfold ip_step in H; rewrite ip_fold_err in H; discriminate].
      destruct (Hl x (or_introl eq_refl)) as [HxN Hx0].
      destruct (init_pos_inv g0 L0 top fuel x st st1 HxN Iv E1) as [I1 [M1 X1]].
      assert (PL : parent_last st x).
      { intros _ e He Hh. exfalso. pose proof (dp_step e He) as D. rewrite Hh, Hx0 in D.
        pose proof (dp_nonneg _ (tl_N e He)). lia. }
      destruct (init_pos_forest fuel x st st1 HxN Iv T PL E1) as [T1 [ext [Ev [_ Hc]]]].
      assert (C1 : closed_in (st_vis st1) (st_vis st1)).
      { intros u e Hu He Hu'. rewrite Ev in Hu. apply in_app_or in Hu. destruct Hu as [Hu|Hu].
        - apply (Hc u e); assumption.
        - apply M1. apply (C u e); assumption. }
      destruct (IH st1 st' (fun n Hn => Hl n (or_intror Hn)) I1 T1 C1 H) as [I2 [T2 [C2 [X2 M2]]]].
      split; [exact I2|]. split; [exact T2|]. split; [exact C2|]. split.
      + intros n [<-|Hn]; [apply M2, X1|apply X2, Hn].
      + intros m Hm. apply M2, M1, Hm.
  Qed.

  Lemma fold_visited : forall fuel l st, (forall n, In n l -> In n (st_vis st)) ->
    fold_left (ip_step (S fuel)) l (Ok st) = Ok st.
  Proof.
    intros fuel; induction l as [|x l IH]; intros st Hl; cbn [fold_left]; [reflexivity|].
    unfold ip_step at 2. cbn [bind]. destruct st as [[g vis] idx]. rewrite init_pos_S.
    assert (Hx : In x vis) by (apply (Hl x); left; reflexivity).
    apply mem_nat_In in Hx. rewrite Hx. apply IH. intros n Hn. apply Hl; right; exact Hn.
  Qed.

  (* every node is reached from the roots *)
  Lemma reach_all : forall vis, closed_in vis vis -> (forall n, In n (lnodes g0 first_layer) -> In n vis) ->
    forall n, In n (g_N g0) -> In n vis.
  Proof.
    intros vis C R.
    assert (H : forall d n, In n (g_N g0) -> dp n = Z.of_nat d -> In n vis).
    { induction d as [|d IH]; intros n Hn Hd.
      - destruct (fo_root FO n Hn) as [Hf|[e [He Hh]]]; [apply R; exact Hf|].
        exfalso. pose proof (dp_step e He) as D. rewrite Hh in D. pose proof (dp_nonneg _ (tl_N e He)). lia.
      - destruct (fo_root FO n Hn) as [Hf|[e [He Hh]]]; [apply R; exact Hf|].
        rewrite <- Hh. apply (C (tl e) e); [|exact He|reflexivity].
        apply IH; [apply tl_N; exact He|]. pose proof (dp_step e He) as D. rewrite Hh in D. lia. }
    intros n Hn. apply (H (Z.to_nat (dp n)) n Hn). pose proof (dp_nonneg n Hn). lia.
  Qed.

  (* in the DFS numbering, children are ordered like their parents *)
  Definition monotone (gi : graph) : Prop :=
    forall e e', In e (g_E g0) -> In e' (g_E g0) -> layer_of g0 (hd e) = layer_of g0 (hd e') ->
      pos_of gi (hd e) < pos_of gi (hd e') -> pos_of gi (tl e) <= pos_of gi (tl e').

  Theorem init_positions_monotone : forall gi, init_positions top g0 = Ok gi -> monotone gi.
  Proof.
    intros gi H. unfold init_positions in H.
    assert (Ef : (if top then l_nodes (glayer g0 0) else l_nodes (glayer g0 (length (g_L g0) - 1))) = lnodes g0 first_layer).
    { unfold first_layer, lnodes. destruct top; reflexivity. }
    rewrite Ef in H.
    change (fun (r : res ip_st) (n : nat) => do st <- r; init_pos top (S (length (g_na g0))) n st)
      with (ip_step (S (length (g_na g0)))) in H.
    rewrite fold_left_app in H.
    destruct (fold_left (ip_step (S (length (g_na g0)))) (lnodes g0 first_layer) (Ok (g0, [], []))) as [sa|er] eqn:Ea.
    2:{ unfold ip_step in H. rewrite ip_fold_err in H. discriminate. }
    assert (I0 : ip_inv g0 (g0, [], [])).
    { unfold ip_inv, st_g, st_vis, st_idx; cbn [fst snd]. split; [apply oframe_refl|]. split; [reflexivity|].
      split; [intros n []|]. split; [exact I|]. intros ln. reflexivity. }
    assert (T0 : TI (g0, [], [])).
    { unfold TI, st_vis; cbn [fst snd]. split; [intros e _ []|intros e e' _ _ []]. }
    assert (C0 : closed_in (st_vis (g0, [], [])) (st_vis (g0, [], []))) by (intros u e []).
    apply fold_roots in Ea; [| |exact I0|exact T0|exact C0].
    2:{ intros n Hn. split; [apply (ly_layer _ L0) in Hn; tauto|apply dp_first; exact Hn]. }
    destruct Ea as [Ia [Ta [Ca [Xa _]]]].
    pose proof (reach_all (st_vis sa) Ca Xa) as All.
    rewrite (fold_visited _ (g_N g0) sa All) in H. cbn [bind] in H.
    destruct sa as [[ga visa] idxa]. injection H as <-.
    destruct Ta as [_ T2]. unfold st_g, st_vis in *. cbn [fst snd] in *.
    intros e e' He He' Hlay Hlt. apply T2; try assumption; apply All; apply hd_N; assumption.
  Qed.
End Forest.
Print Assumptions init_positions_monotone.

(* ====================================================================================================== *)
(* 4. no crossings                                                                                        *)
(* ====================================================================================================== *)
Lemma forest_simple : forall top g, forest top g -> simple_edges g.
Proof.
  intros top g FO. split; [apply (fo_nodup _ _ FO)|].
  intros e1 e2 H1 H2 Hs.
  pose proof (fo_step _ _ FO e1 H1) as S1. pose proof (fo_step _ _ FO e2 H2) as S2.
  destruct Hs as [[A B]|[A B]].
  - apply (fo_unique _ _ FO e1 e2 H1 H2). unfold hd. destruct top; assumption.
  - exfalso. unfold hd, tl, dir in S1, S2. destruct top; rewrite A, B in S1; lia.
Qed.

Lemma forest_frame : forall top g g', forest top g -> oframe g g' -> forest top g'.
Proof.
  intros top g g' [A B C D] F.
  assert (Eh : forall e, hd top g' e = hd top g e) by (intros e; unfold hd; rewrite (of_gedge _ _ e F); reflexivity).
  assert (Et : forall e, tl top g' e = tl top g e) by (intros e; unfold tl; rewrite (of_gedge _ _ e F); reflexivity).
  constructor.
  - rewrite (of_E _ _ F). exact A.
  - intros e He. rewrite (of_E _ _ F) in He. rewrite Eh, Et, !(of_layer_of _ _ _ F). apply B; exact He.
  - intros e e' He He'. rewrite (of_E _ _ F) in He, He'. rewrite !Eh. apply C; assumption.
  - intros n Hn. rewrite (of_N _ _ F) in Hn. unfold first_layer. rewrite (of_L _ _ F). fold (first_layer top g).
    destruct (D n Hn) as [H|[e [He Hh]]].
    + left. apply (of_lnodes_in _ _ _ _ F). exact H.
    + right. exists e. rewrite (of_E _ _ F), Eh. auto.
Qed.

Lemma crosses_pair_false : forall a b a' b',
  (a < a' -> b <= b') -> (a' < a -> b' <= b) -> crosses_pair (a, b) (a', b') = false.
Proof.
  intros a b a' b' H1 H2. unfold crosses_pair. cbn [fst snd].
  destruct (Z.ltb_spec a a'); destruct (Z.ltb_spec b' b); destruct (Z.ltb_spec a' a); destruct (Z.ltb_spec b b');
    cbn; try reflexivity; lia.
Qed.

(* T1 (and its mirror image) *)
Theorem forest_init_zero : forall top g gi,
  layered g -> forest top g -> init_positions top g = Ok gi ->
  reported_crossings (sort_layers gi) = 0 /\ drawing_crossings (sort_layers gi) = 0.
Proof.
  intros top g gi L FO E.
  pose proof (init_positions_monotone top g L FO gi E) as M.
  destruct (init_positions_spec g L top gi E) as [F [_ PP]].
  destruct (sort_layers_spec gi PP) as [F' PI].
  set (gs := sort_layers gi) in *.
  assert (Fs : oframe g gs) by (eapply oframe_trans; eassumption).
  assert (Ls : layered gs) by (apply (layered_frame g); assumption).
  assert (OP : ordered_proper gs).
  { apply layered_ordered_proper; [exact Ls|exact PI|]. apply (simple_edges_frame g); [exact Fs|]. apply (forest_simple top); exact FO. }
  assert (D0 : drawing_crossings gs = 0).
  { unfold drawing_crossings. apply fold_add_zero. intros i _.
    apply naive_crossings_no_cross. intros p q Hp Hq.
    assert (Hne : Z.of_nat i <> Z.of_nat i + 1) by lia.
    apply (in_bilayer_pairs gs _ Hne) in Hp. apply (in_bilayer_pairs gs _ Hne) in Hq.
    destruct Hp as [e [He Hp]]. destruct Hq as [e' [He' Hq]].
    rewrite (of_E _ _ Fs) in He, He'.
    unfold edge_pair in Hp, Hq.
    rewrite (of_gedge _ _ e Fs) in Hp. rewrite (of_gedge _ _ e' Fs) in Hq.
    rewrite !(of_layer_of _ _ _ Fs) in Hp. rewrite !(of_layer_of _ _ _ Fs) in Hq.
    change (pos_of gs) with (pos_of gi) in Hp, Hq.
    pose proof (fo_step _ _ FO e He) as S1. pose proof (fo_step _ _ FO e' He') as S2.
    pose proof (M e e' He He') as M1. pose proof (M e' e He' He) as M2.
    unfold hd, tl, dir in S1, S2, M1, M2.
    destruct top.
    - destruct Hp as [[A [B ->]]|[A [B ->]]]; [|exfalso; lia].
      destruct Hq as [[A' [B' ->]]|[A' [B' ->]]]; [|exfalso; lia].
      apply crosses_pair_false; lia.
    - destruct Hp as [[A [B ->]]|[A [B ->]]]; [|exfalso; lia].
      destruct Hq as [[A' [B' ->]]|[A' [B' ->]]]; [|exfalso; lia].
      apply crosses_pair_false; lia. }
  split; [rewrite (reported_crossings_exact OP); exact D0|exact D0].
Qed.
Print Assumptions forest_init_zero.

Definition out_forest (g : graph) : Prop := forest true g.
Definition in_forest (g : graph) : Prop := forest false g.

(* T2 *)
Theorem out_forest_no_crossings : forall maxiter g g' x,
  layered g -> out_forest g -> exec_wmedian maxiter g = Ok (g', x) ->
  x = 0 /\ reported_crossings g' = 0 /\ drawing_crossings g' = 0 /\ order_contract g g'.
Proof.
  intros maxiter g g' x L FO H.
  destruct (init_positions true g) as [gi|er] eqn:E.
  2:{ unfold exec_wmedian, wmedian_run in H. rewrite E in H. destruct (existsb _ _); discriminate. }
  destruct (forest_init_zero true g gi L FO E) as [Z0 _].
  destruct (top_zero_reports_zero maxiter g gi g' x L E Z0 H) as [X0 [R0 C]].
  destruct (exec_wmedian_drawing maxiter g g' x L (forest_simple true g FO) H) as [_ D].
  split; [exact X0|]. split; [exact R0|]. split; [rewrite <- D; exact X0|exact C].
Qed.
Print Assumptions out_forest_no_crossings.

(* T3 *)
Theorem in_forest_no_crossings : forall maxiter g g' x,
  layered g -> in_forest g -> exec_wmedian maxiter g = Ok (g', x) ->
  x = 0 /\ reported_crossings g' = 0 /\ drawing_crossings g' = 0 /\ order_contract g g'.
Proof.
  intros maxiter g g' x L FO H.
  destruct (wmedian_run maxiter true g) as [[[g1 xt] pt]|er] eqn:E1.
  2:{ unfold exec_wmedian in H. rewrite E1 in H. destruct (existsb _ _); discriminate. }
  destruct (wmedian_run_inv maxiter true g g1 xt pt L E1) as [[F1 _] _].
  assert (L1 : layered g1) by (apply (layered_frame g); assumption).
  assert (FO1 : forest false g1) by (apply (forest_frame false g); assumption).
  destruct (init_positions false g1) as [gi|er] eqn:E.
  2:{ unfold exec_wmedian in H. rewrite E1 in H. cbn [bind] in H. unfold wmedian_run in H. rewrite E in H.
      destruct (existsb _ _); discriminate. }
  destruct (forest_init_zero false g1 gi L1 FO1 E) as [Z0 _].
  destruct (bottom_zero_reports_zero maxiter g g1 xt pt gi g' x L E1 E Z0 H) as [X0 [R0 C]].
  destruct (exec_wmedian_drawing maxiter g g' x L (forest_simple false g FO) H) as [_ D].
  split; [exact X0|]. split; [exact R0|]. split; [rewrite <- D; exact X0|exact C].
Qed.
Print Assumptions in_forest_no_crossings.

(* ---------- rooted trees, in the words of the task ---------- *)
Record rooted_out_tree (g : graph) (root : nat) : Prop := {
  rt_root : In root (g_N g);
  rt_root_layer : layer_of g root = 0;
  rt_nodup : NoDup (g_E g);
  rt_step : forall e, In e (g_E g) -> layer_of g (e_to (gedge g e)) = layer_of g (e_from (gedge g e)) + 1;
  (* every node but the root has exactly one in-edge *)
  rt_in : forall n, In n (g_N g) -> n <> root ->
          exists e, In e (g_E g) /\ e_to (gedge g e) = n /\ forall e', In e' (g_E g) -> e_to (gedge g e') = n -> e' = e;
  (* the root has none *)
  rt_noin : forall e, In e (g_E g) -> e_to (gedge g e) <> root
}.

Record rooted_in_tree (g : graph) (root : nat) : Prop := {
  it_root : In root (g_N g);
  it_root_layer : layer_of g root = Z.of_nat (length (g_L g)) - 1;
  it_nodup : NoDup (g_E g);
  it_step : forall e, In e (g_E g) -> layer_of g (e_to (gedge g e)) = layer_of g (e_from (gedge g e)) + 1;
  (* every node but the root has exactly one out-edge *)
  it_out : forall n, In n (g_N g) -> n <> root ->
          exists e, In e (g_E g) /\ e_from (gedge g e) = n /\ forall e', In e' (g_E g) -> e_from (gedge g e') = n -> e' = e;
  it_noout : forall e, In e (g_E g) -> e_from (gedge g e) <> root
}.

Lemma rooted_out_tree_forest : forall g root, layered g -> rooted_out_tree g root -> out_forest g.
Proof.
  intros g root L [A B C D E F]. constructor.
  - exact C.
  - intros e He. unfold hd, tl, dir. apply D; exact He.
  - intros e e' He He' Hh. unfold hd in Hh.
    destruct (E (e_to (gedge g e))) as [e0 [_ [_ U]]]; [apply (ly_ends _ L e He)|apply F; exact He|].
    rewrite (U e He eq_refl). symmetry. apply U; [exact He'|symmetry; exact Hh].
  - intros n Hn. destruct (Nat.eq_dec n root) as [->|Hne].
    + left. unfold first_layer. apply (ly_layer _ L). split; [exact Hn|rewrite B; reflexivity].
    + right. destruct (E n Hn Hne) as [e [He [Ht _]]]. exists e. split; [exact He|exact Ht].
Qed.

Lemma rooted_in_tree_forest : forall g root, layered g -> rooted_in_tree g root -> in_forest g.
Proof.
  intros g root L [A B C D E F]. constructor.
  - exact C.
  - intros e He. unfold hd, tl, dir. specialize (D e He). lia.
  - intros e e' He He' Hh. unfold hd in Hh.
    destruct (E (e_from (gedge g e))) as [e0 [_ [_ U]]]; [apply (ly_ends _ L e He)|apply F; exact He|].
    rewrite (U e He eq_refl). symmetry. apply U; [exact He'|symmetry; exact Hh].
  - intros n Hn. destruct (Nat.eq_dec n root) as [->|Hne].
    + left. unfold first_layer. apply (ly_layer _ L). split; [exact Hn|].
      pose proof (ly_lrange _ L root Hn). lia.
    + right. destruct (E n Hn Hne) as [e [He [Ht _]]]. exists e. split; [exact He|exact Ht].
Qed.

Corollary rooted_out_tree_no_crossings : forall maxiter g root g' x,
  layered g -> rooted_out_tree g root -> exec_wmedian maxiter g = Ok (g', x) ->
  x = 0 /\ drawing_crossings g' = 0.
Proof.
  intros maxiter g root g' x L T H.
  destruct (out_forest_no_crossings maxiter g g' x L (rooted_out_tree_forest g root L T) H) as [A [_ [B _]]]. auto.
Qed.
Print Assumptions rooted_out_tree_no_crossings.

Corollary rooted_in_tree_no_crossings : forall maxiter g root g' x,
  layered g -> rooted_in_tree g root -> exec_wmedian maxiter g = Ok (g', x) ->
  x = 0 /\ drawing_crossings g' = 0.
Proof.
  intros maxiter g root g' x L T H.
  destruct (in_forest_no_crossings maxiter g g' x L (rooted_in_tree_forest g root L T) H) as [A [_ [B _]]]. auto.
Qed.
Print Assumptions rooted_in_tree_no_crossings.

(* ====================================================================================================== *)
(* 5. an executable, sound check of [forest]; concrete instances                                          *)
(* ====================================================================================================== *)
Definition forest_b (top : bool) (g : graph) : bool :=
  nodupb (g_E g) &&
  forallb (fun e => layer_of g (hd top g e) =? layer_of g (tl top g e) + dir top) (g_E g) &&
  forallb (fun e => forallb (fun e' => implb (Nat.eqb (hd top g e) (hd top g e')) (Nat.eqb e e')) (g_E g)) (g_E g) &&
  forallb (fun n => mem_nat n (lnodes g (first_layer top g)) || existsb (fun e => Nat.eqb (hd top g e) n) (g_E g)) (g_N g).

Theorem forest_b_sound : forall top g, forest_b top g = true -> forest top g.
Proof.
  intros top g H. unfold forest_b in H.
  repeat (apply andb_true_iff in H; destruct H as [H ?]).
  rename H into C1, H2 into C2, H1 into C3, H0 into C4.
  rewrite forallb_forall in C2, C3, C4. constructor.
  - apply nodupb_NoDup; exact C1.
  - intros e He. apply Z.eqb_eq. apply C2; exact He.
  - intros e e' He He' Hh. specialize (C3 e He). rewrite forallb_forall in C3. specialize (C3 e' He').
    rewrite Hh, Nat.eqb_refl in C3. cbn [implb] in C3. apply Nat.eqb_eq; exact C3.
  - intros n Hn. specialize (C4 n Hn). apply orb_true_iff in C4. destruct C4 as [C4|C4].
    + left. apply mem_nat_In; exact C4.
    + right. apply existsb_exists in C4. destruct C4 as [e [He E]]. exists e. split; [exact He|apply Nat.eqb_eq; exact E].
Qed.

Print Assumptions forest_b_sound.

(* a tree with 7 nodes in 3 layers: root 0, children 1 2, grandchildren 3 4 (of 1) and 5 6 (of 2);
   edge list, adjacency lists, node list and layer lists are all shuffled *)
Definition tr_node (i o : list nat) (l : nat) : node := mkNode i o (Z.of_nat l) 0 false 0 0 0 0.

Definition out_tree_ex : graph :=
  (mkGraph
    [ tr_node [] [1;3] 0;        (* 0 = root: visits 2 before 1 *)
      tr_node [3] [5;2] 1;       (* 1: visits 4 before 3 *)
      tr_node [1] [0;4] 1;       (* 2: visits 6 before 5 *)
      tr_node [2] [] 2; tr_node [5] [] 2; tr_node [4] [] 2; tr_node [0] [] 2 ]
    [ ex_edge 2 6; ex_edge 0 2; ex_edge 1 3; ex_edge 0 1; ex_edge 2 5; ex_edge 1 4 ]
    [4;2;0;6;1;5;3]
    [3;0;5;1;4;2]
    [ mkLayer [0] 0 0; mkLayer [1;2] 0 0; mkLayer [5;3;6;4] 0 0 ])%nat.

Example out_tree_ex_ok : layered out_tree_ex /\ out_forest out_tree_ex /\ rooted_out_tree out_tree_ex 0.
Proof.
  assert (L : layered out_tree_ex) by (apply layered_b_sound; vm_compute; reflexivity).
  assert (F : out_forest out_tree_ex) by (apply forest_b_sound; vm_compute; reflexivity).
  split; [exact L|]. split; [exact F|].
  constructor.
  - vm_compute. tauto.
  - reflexivity.
  - apply (fo_nodup _ _ F).
  - intros e He. apply (fo_step _ _ F e He).
  - intros n Hn Hne. destruct (fo_root _ _ F n Hn) as [H|[e [He Hh]]].
    + vm_compute in H. destruct H as [H|[]]. congruence.
    + exists e. split; [exact He|]. split; [exact Hh|].
      intros e' He' Hh'. apply (fo_unique _ _ F e' e He' He). unfold hd in *. congruence.
  - intros e He Hr. pose proof (fo_step _ _ F e He) as S. unfold hd, tl, dir in S. rewrite Hr in S.
    pose proof (ly_lrange _ L _ (proj1 (ly_ends _ L e He))) as R. change (layer_of out_tree_ex 0) with 0 in S. lia.
Qed.

Example out_tree_ex_run :
  exists gi g', init_positions true out_tree_ex = Ok gi /\
                map l_nodes (g_L (sort_layers gi)) = [[0]; [2;1]; [6;5;4;3]]%nat /\
                reported_crossings (sort_layers gi) = 0 /\
                exec_wmedian 24 out_tree_ex = Ok (g', 0) /\
                map l_nodes (g_L g') = [[0]; [2;1]; [6;5;4;3]]%nat /\ drawing_crossings g' = 0 /\
                (* the order the graph came with has 3 crossings *)
                drawing_crossings (fold_left (fun g p => upd_node g (fst p) (set_pos (snd p)))
                                             [(1%nat,0);(2%nat,1);(5%nat,0);(3%nat,1);(6%nat,2);(4%nat,3)] out_tree_ex) = 3.
Proof. eexists. eexists. vm_compute. repeat split; reflexivity. Qed.

Example out_tree_ex_thm : forall maxiter g' x, exec_wmedian maxiter out_tree_ex = Ok (g', x) -> x = 0 /\ drawing_crossings g' = 0.
Proof.
  intros maxiter g' x H. destruct out_tree_ex_ok as [L [_ T]].
  apply (rooted_out_tree_no_crossings maxiter out_tree_ex 0%nat g' x L T H).
Qed.

(* the same tree with all edges reversed and the root in the last layer *)
Definition in_tree_ex : graph :=
  (mkGraph
    [ tr_node [1;3] [] 2;
      tr_node [5;2] [3] 1;
      tr_node [0;4] [1] 1;
      tr_node [] [2] 0; tr_node [] [5] 0; tr_node [] [4] 0; tr_node [] [0] 0 ]
    [ ex_edge 6 2; ex_edge 2 0; ex_edge 3 1; ex_edge 1 0; ex_edge 5 2; ex_edge 4 1 ]
    [4;2;0;6;1;5;3]
    [3;0;5;1;4;2]
    [ mkLayer [5;3;6;4] 0 0; mkLayer [1;2] 0 0; mkLayer [0] 0 0 ])%nat.

Example in_tree_ex_ok : layered in_tree_ex /\ in_forest in_tree_ex.
Proof. split; [apply layered_b_sound|apply forest_b_sound]; vm_compute; reflexivity. Qed.

Example in_tree_ex_run :
  exists g', exec_wmedian 24 in_tree_ex = Ok (g', 0) /\
             map l_nodes (g_L g') = [[6;5;4;3]; [2;1]; [0]]%nat /\ drawing_crossings g' = 0.
Proof. eexists. vm_compute. repeat split; reflexivity. Qed.

Example in_tree_ex_thm : forall maxiter g' x, exec_wmedian maxiter in_tree_ex = Ok (g', x) -> x = 0 /\ drawing_crossings g' = 0.
Proof.
  intros maxiter g' x H. destruct in_tree_ex_ok as [L F].
  destruct (in_forest_no_crossings maxiter in_tree_ex g' x L F H) as [A [_ [B _]]]. auto.
Qed.

(* The hypothesis "the roots lie in the first layer" cannot be dropped from T1: a tree whose root sits in layer 1
   (layer 0 is empty, so the DFS starts from the node list) gets an initial order with a crossing. *)
Definition low_root_ex : graph :=
  (mkGraph
    [ tr_node [] [0;1] 1;        (* 0 = root, in layer 1 *)
      tr_node [0] [2] 2;         (* 1 = a *)
      tr_node [1] [3] 2;         (* 2 = b *)
      tr_node [2] [] 3;          (* 3 = a1 *)
      tr_node [3] [] 3 ]         (* 4 = b1 *)
    [ ex_edge 0 1; ex_edge 0 2; ex_edge 1 3; ex_edge 2 4 ]
    [4;1;0;2;3]
    [0;1;2;3]
    [ mkLayer [] 0 0; mkLayer [0] 0 0; mkLayer [1;2] 0 0; mkLayer [3;4] 0 0 ])%nat.

Example low_root_counterexample :
  layered low_root_ex /\ forest_b true low_root_ex = false /\
  (* all of [forest true] but fo_root holds *)
  nodupb (g_E low_root_ex) = true /\
  forallb (fun e => layer_of low_root_ex (hd true low_root_ex e) =? layer_of low_root_ex (tl true low_root_ex e) + 1) (g_E low_root_ex) = true /\
  exists gi, init_positions true low_root_ex = Ok gi /\ reported_crossings (sort_layers gi) = 1 /\
             drawing_crossings (sort_layers gi) = 1.
Proof.
  split; [apply layered_b_sound; vm_compute; reflexivity|].
  split; [vm_compute; reflexivity|]. split; [vm_compute; reflexivity|]. split; [vm_compute; reflexivity|].
  eexists. vm_compute. repeat split; reflexivity.
Qed.
