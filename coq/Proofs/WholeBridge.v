(* WholeBridge.v — W1: the premise about the ordering heuristic ([wm_premise], E2EBackbone.v) is discharged.

   - [oc_of_wm] / [oc_to_wm]: the two (identically defined) records [WmedianProofs.order_contract] and
     [E2EBridge.order_contract] are equivalent;
   - [adjinv]: an invariant of the loop of [break_long_edges] that keeps the adjacency lists consistent with the
     edge list (which [BreakMerge.break_long_edges_spec] does not state), proved for [break_edge] and the loop;
   - [stage23_layered]: the graph [g3] the heuristic is run on satisfies [WmedianProofs.layered];
   - [wm_premise_holds]: [component_input g -> ns_premise o g -> wm_premise o g];
   - [pipeline_backbone_F] and F1 - F4: the end-to-end theorems E1 - E4 without [wm_premise]; for the longest-path
     layering nothing is assumed besides [component_input], [options_ok] and the success of [layout_component]. *)
From Autog Require Import Base Graph Populate Phase1 Phase2 Phase3 Phase4 Phase5 Layout Wmedian Pipeline.
From Autog.Proofs Require Import ListLemmas Consistent SelfLoopProofs.
From Autog.Proofs Require CBBase CBGreedy CBGreedyRanks CBDepthFirst CBHasCycles CycleBreaking LongestPath
                          OptNormalize OptVbalance OptPipeline CollectProofs.
From Autog.Proofs Require CrossCountProofs WmedianProofs.
From Autog.Proofs Require Import Positioners Routes BreakMerge SinkColoringProofs E2EBridge E2EBackbone E2EOutput E2EFrontend.
From Coq Require Import Permutation Lia Lqa.
Local Open Scope nat_scope.

(* ====================================================================================================== *)
(** * 1. The two order contracts                                                                           *)
(* ====================================================================================================== *)

Lemma oc_of_wm : forall g g', WmedianProofs.order_contract g g' -> E2EBridge.order_contract g g'.
Proof. intros g g' [A B C D E F G H]. constructor; assumption. Qed.

Lemma oc_to_wm : forall g g', E2EBridge.order_contract g g' -> WmedianProofs.order_contract g g'.
Proof. intros g g' [A B C D E F G H]. constructor; assumption. Qed.

Lemma oc_iff : forall g g', WmedianProofs.order_contract g g' <-> E2EBridge.order_contract g g'.
Proof. intros g g'. split; [apply oc_of_wm|apply oc_to_wm]. Qed.

(* ====================================================================================================== *)
(** * 2. replace_first                                                                                     *)
(* ====================================================================================================== *)

Lemma in_replace_first_iff : forall x f l y, NoDup l -> In x l ->
  (In y (replace_first x f l) <-> y = f \/ (In y l /\ y <> x)).
Proof.
  intros x f l; induction l as [|a l IH]; intros y Hnd Hx; [destruct Hx|].
  inversion Hnd as [|? ? Ha Hnd']; subst. cbn [replace_first].
  destruct (Nat.eqb_spec x a) as [E|E].
  - subst a. cbn [In]. split.
    + intros [<-|H]; [left; reflexivity|]. right. split; [right; exact H|]. intros ->. contradiction.
    + intros [->|[[<-|H] N]]; [left; reflexivity|congruence|right; exact H].
  - destruct Hx as [Hx|Hx]; [congruence|]. cbn [In]. rewrite (IH y Hnd' Hx). split.
    + intros [<-|[->|[H N]]]; [right; split; [left; reflexivity|congruence]|left; reflexivity|right; split; [right; exact H|exact N]].
    + intros [->|[[<-|H] N]]; [right; left; reflexivity|left; reflexivity|right; right; split; assumption].
Qed.

Lemma length_replace_first : forall x f l, length (replace_first x f l) = length l.
Proof.
  intros x f l; induction l as [|a l IH]; [reflexivity|]. cbn [replace_first].
  destruct (Nat.eqb x a); cbn [length]; [reflexivity|]. rewrite IH. reflexivity.
Qed.

(* ====================================================================================================== *)
(** * 3. The adjacency invariant of break_long_edges                                                       *)
(* ====================================================================================================== *)

(* [na0], [ea0]: the arena sizes when the loop starts (nodes / edges from there on are helper nodes / edges) *)
Record adjinv (na0 ea0 : nat) (g : graph) : Prop := {
  ai_nodupE : NoDup (g_E g);
  ai_N : forall n, In n (g_N g) -> n < length (g_na g);
  ai_E : forall e, In e (g_E g) ->
     e < length (g_ea g) /\ In (e_from (gedge g e)) (g_N g) /\ In (e_to (gedge g e)) (g_N g) /\ (1 <= span g e)%Z;
  ai_out : forall n, In n (g_N g) -> forall e, In e (n_out (gnode g n)) <-> In e (g_E g) /\ e_from (gedge g e) = n;
  ai_in : forall n, In n (g_N g) ->
     NoDup (n_in (gnode g n)) /\ forall e, In e (n_in (gnode g n)) <-> In e (g_E g) /\ e_to (gedge g e) = n;
  (* a helper node has exactly one in-edge and one out-edge *)
  ai_virt : forall n, In n (g_N g) -> n_virt (gnode g n) = true ->
     length (n_in (gnode g n)) = 1 /\ length (n_out (gnode g n)) = 1;
  (* a helper edge leaves a helper node *)
  ai_newE : forall e, In e (g_E g) -> ea0 <= e -> na0 <= e_from (gedge g e);
  (* a helper node has no extent *)
  ai_newN : forall n, na0 <= n -> n < length (g_na g) -> n_w (gnode g n) = 0%Q /\ n_h (gnode g n) = 0%Q;
  ai_na : na0 <= length (g_na g) }.

Lemma adjinv_break : forall na0 ea0 g e,
  adjinv na0 ea0 g -> In e (g_E g) -> (1 < span g e)%Z -> adjinv na0 ea0 (break_edge g e).
Proof.
  intros na0 ea0 g e I He Hsp.
  destruct (ai_E _ _ _ I e He) as (Elt & Fa & Tb & _).
  pose proof (ai_N _ _ _ I _ Fa) as Fa'. pose proof (ai_N _ _ _ I _ Tb) as Tb'.
  destruct (break_edge_spec g e Elt Tb') as (L1 & L2 & GV & GF & GE & GO & GB & GN & EE & NN & _). cbv zeta in *.
  set (g' := break_edge g e) in *. set (v := length (g_na g)) in *. set (f := length (g_ea g)) in *.
  set (a := e_from (gedge g e)) in *. set (b := e_to (gedge g e)) in *.
  assert (AB : a <> b).
  { intros E. unfold span in Hsp. fold a b in Hsp. rewrite E in Hsp. lia. }
  assert (LY : forall n, n < v -> layer_of g' n = layer_of g n).
  { intros n Hn. apply break_edge_layer_of; assumption. }
  assert (LV : layer_of g' v = (layer_of g a + 1)%Z).
  { unfold layer_of at 1. rewrite GV. reflexivity. }
  assert (ELT : forall x, In x (g_E g) -> x < f) by (intros x Hx; apply (ai_E _ _ _ I x Hx)).
  assert (GE' : forall x, In x (g_E g) -> x <> e -> gedge g' x = gedge g x).
  { intros x Hx Hne. apply GO; [exact Hne|]. specialize (ELT x Hx). lia. }
  assert (FROM : forall x, In x (g_E g) -> e_from (gedge g' x) = e_from (gedge g x)).
  { intros x Hx. destruct (Nat.eq_dec x e) as [->|Hne]; [rewrite GE; reflexivity|rewrite GE' by assumption; reflexivity]. }
  assert (TOe : e_to (gedge g' e) = v) by (rewrite GE; reflexivity).
  assert (Ff : e_from (gedge g' f) = v) by (rewrite GF; reflexivity).
  assert (Tf : e_to (gedge g' f) = b) by (rewrite GF; reflexivity).
  assert (NLT : forall n, In n (g_N g) -> n < v) by (apply (ai_N _ _ _ I)).
  assert (NOUT : forall n, n <> v -> n_out (gnode g' n) = n_out (gnode g n)).
  { intros n Hn. destruct (Nat.eq_dec n b) as [->|Hb]; [rewrite GB; reflexivity|rewrite GN by assumption; reflexivity]. }
  assert (NVIRT : forall n, n <> v -> n_virt (gnode g' n) = n_virt (gnode g n)).
  { intros n Hn. destruct (Nat.eq_dec n b) as [->|Hb]; [rewrite GB; reflexivity|rewrite GN by assumption; reflexivity]. }
  assert (FNE : ~ In f (g_E g)) by (intros H; specialize (ELT f H); lia).
  assert (ENDSLT : forall x, In x (g_E g) -> e_from (gedge g x) < v /\ e_to (gedge g x) < v).
  { intros x Hx. destruct (ai_E _ _ _ I x Hx) as (_ & F & T & _). split; apply NLT; assumption. }
  constructor.
  - rewrite EE. apply CBBase.NoDup_app_single; [apply (ai_nodupE _ _ _ I)|exact FNE].
  - intros n Hn. rewrite L1, NN in *. apply in_app_or in Hn. destruct Hn as [Hn|[<-|[]]]; [specialize (NLT n Hn)|]; lia.
  - intros x Hx. rewrite EE in Hx. rewrite L2, NN. apply in_app_or in Hx. destruct Hx as [Hx|[<-|[]]].
    + destruct (ai_E _ _ _ I x Hx) as (X1 & X2 & X3 & X4). split; [lia|]. rewrite (FROM x Hx).
      split; [apply in_or_app; left; exact X2|].
      destruct (Nat.eq_dec x e) as [->|Hne].
      * split; [rewrite TOe; apply in_or_app; right; left; reflexivity|].
        pose proof (span_break_self g e Elt Fa' Tb') as Q. fold g' in Q. rewrite Q. lia.
      * rewrite (GE' x Hx Hne). split; [apply in_or_app; left; exact X3|].
        destruct (ENDSLT x Hx) as [Q1 Q2].
        destruct (span_break_other g e x Elt Tb' Hne X1 Q1 Q2) as [_ Q]. fold g' in Q. rewrite Q. exact X4.
    + split; [lia|]. rewrite Ff, Tf. split; [apply in_or_app; right; left; reflexivity|].
      split; [apply in_or_app; left; exact Tb|].
      pose proof (span_break_new g e Elt Fa' Tb') as Q. fold g' f in Q. rewrite Q. lia.
  - intros n Hn x. rewrite NN in Hn. rewrite EE. apply in_app_or in Hn. destruct Hn as [Hn|[<-|[]]].
    + assert (Hnv : n <> v) by (specialize (NLT n Hn); lia).
      rewrite (NOUT n Hnv), (ai_out _ _ _ I n Hn x). split.
      * intros [Hx E]. split; [apply in_or_app; left; exact Hx|]. rewrite (FROM x Hx). exact E.
      * intros [Hx E]. apply in_app_or in Hx. destruct Hx as [Hx|[<-|[]]]; [|congruence].
        split; [exact Hx|]. rewrite <- (FROM x Hx). exact E.
    + rewrite GV. cbn [n_out In]. split.
      * intros [<-|[]]. split; [apply in_or_app; right; left; reflexivity|exact Ff].
      * intros [Hx E]. apply in_app_or in Hx. destruct Hx as [Hx|[<-|[]]]; [|left; reflexivity].
        exfalso. rewrite (FROM x Hx) in E. destruct (ENDSLT x Hx) as [Q _]. lia.
  - intros n Hn. rewrite NN in Hn. apply in_app_or in Hn. destruct Hn as [Hn|[<-|[]]].
    + assert (Hnv : n <> v) by (specialize (NLT n Hn); lia).
      destruct (ai_in _ _ _ I n Hn) as [ND IN].
      destruct (Nat.eq_dec n b) as [->|Hb].
      * rewrite GB. cbn [set_in n_in].
        assert (Hel : In e (n_in (gnode g b))) by (apply IN; split; [exact He|reflexivity]).
        assert (Hfl : ~ In f (n_in (gnode g b))) by (intros H; apply IN in H; apply FNE, H).
        split; [apply NoDup_replace_first; assumption|]. intros x.
        rewrite (in_replace_first_iff e f _ x ND Hel), EE. split.
        -- intros [->|[Hx Hne]]; [split; [apply in_or_app; right; left; reflexivity|exact Tf]|].
           apply IN in Hx. destruct Hx as [Hx E]. split; [apply in_or_app; left; exact Hx|].
           rewrite (GE' x Hx Hne). exact E.
        -- intros [Hx E]. apply in_app_or in Hx. destruct Hx as [Hx|[<-|[]]]; [|left; reflexivity].
           right. destruct (Nat.eq_dec x e) as [->|Hne]; [rewrite TOe in E; lia|].
           split; [|exact Hne]. apply IN. split; [exact Hx|]. rewrite <- (GE' x Hx Hne). exact E.
      * rewrite (GN n Hb Hnv). split; [exact ND|]. intros x. rewrite (IN x), EE. split.
        -- intros [Hx E]. split; [apply in_or_app; left; exact Hx|].
           destruct (Nat.eq_dec x e) as [->|Hne]; [fold b in E; congruence|]. rewrite (GE' x Hx Hne). exact E.
        -- intros [Hx E]. apply in_app_or in Hx. destruct Hx as [Hx|[<-|[]]]; [|congruence].
           destruct (Nat.eq_dec x e) as [->|Hne]; [rewrite TOe in E; congruence|].
           split; [exact Hx|]. rewrite <- (GE' x Hx Hne). exact E.
    + rewrite GV. cbn [n_in]. split; [constructor; [intros []|constructor]|]. intros x. rewrite EE. cbn [In]. split.
      * intros [<-|[]]. split; [apply in_or_app; left; exact He|exact TOe].
      * intros [Hx E]. apply in_app_or in Hx. destruct Hx as [Hx|[<-|[]]].
        -- destruct (Nat.eq_dec x e) as [->|Hne]; [left; reflexivity|].
           exfalso. rewrite (GE' x Hx Hne) in E. destruct (ENDSLT x Hx) as [_ Q]. lia.
        -- exfalso. rewrite Tf in E. lia.
  - intros n Hn Hv. rewrite NN in Hn. apply in_app_or in Hn. destruct Hn as [Hn|[<-|[]]].
    + assert (Hnv : n <> v) by (specialize (NLT n Hn); lia).
      rewrite (NVIRT n Hnv) in Hv. destruct (ai_virt _ _ _ I n Hn Hv) as [V1 V2].
      rewrite (NOUT n Hnv). split; [|exact V2].
      destruct (Nat.eq_dec n b) as [->|Hb]; [rewrite GB; cbn [set_in n_in]; rewrite length_replace_first; exact V1|].
      rewrite (GN n Hb Hnv). exact V1.
    + rewrite GV. split; reflexivity.
  - intros x Hx Hge. rewrite EE in Hx. apply in_app_or in Hx. destruct Hx as [Hx|[<-|[]]].
    + rewrite (FROM x Hx). apply (ai_newE _ _ _ I x Hx Hge).
    + rewrite Ff. apply (ai_na _ _ _ I).
  - intros n Hge Hlt. rewrite L1 in Hlt. destruct (Nat.eq_dec n v) as [->|Hnv]; [rewrite GV; split; reflexivity|].
    assert (Hn : n < v) by lia. destruct (ai_newN _ _ _ I n Hge Hn) as [W H].
    destruct (Nat.eq_dec n b) as [->|Hb]; [rewrite GB; cbn [set_in n_w n_h]; split; assumption|].
    rewrite (GN n Hb Hnv). split; assumption.
  - rewrite L1. pose proof (ai_na _ _ _ I). lia.
Qed.

Lemma break_long_loop_adjinv : forall na0 ea0 fuel i g g',
  adjinv na0 ea0 g -> break_long_loop fuel i g = Ok g' -> adjinv na0 ea0 g'.
Proof.
  intros na0 ea0 fuel; induction fuel as [|fu IH]; intros i g g' I H; cbn [break_long_loop] in H; [discriminate|].
  destruct (nth_error (g_E g) i) as [e|] eqn:En; [|injection H as <-; exact I].
  assert (He : In e (g_E g)) by (eapply nth_error_In; exact En).
  destruct (ai_E _ _ _ I e He) as (_ & _ & _ & SP). unfold span in SP.
  cbv zeta in H.
  destruct (Z.ltb_spec 1 (layer_of g (e_to (gedge g e)) - layer_of g (e_from (gedge g e)))) as [Hl|Hl].
  - apply (IH (S i) (break_edge g e) g'); [|exact H]. apply adjinv_break; [exact I|exact He|unfold span; exact Hl].
  - destruct (Z.ltb_spec 1 (layer_of g (e_from (gedge g e)) - layer_of g (e_to (gedge g e)))) as [Hu|Hu]; [lia|].
    apply (IH (S i) g g'); assumption.
Qed.

(* ====================================================================================================== *)
(** * 4. The graph the heuristic runs on is [layered]                                                      *)
(* ====================================================================================================== *)

(* the output of phase 2 satisfies the invariant *)
Lemma adjinv_phase2 : forall g1 g2 g3 k,
  CBBase.consistent g1 -> stage23 g1 g2 g3 k -> adjinv (length (g_na g2)) (length (g_ea g2)) g2.
Proof.
  intros g1 g2 g3 k [[ND LT] [NDE HE] HO HI] S.
  pose proof (s2_post _ _ _ _ S) as PP. pose proof (s2_pre _ _ _ _ S) as PRE.
  assert (ADJ : forall n, n_in (gnode g2 n) = n_in (gnode g1 n) /\ n_out (gnode g2 n) = n_out (gnode g1 n)).
  { intros n. rewrite (p2_node _ _ PP n). split; reflexivity. }
  assert (EDG : forall e, e_from (gedge g2 e) = e_from (gedge g1 e) /\ e_to (gedge g2 e) = e_to (gedge g1 e)).
  { intros e. destruct (edge_eq_tc_fields _ _ (p2_edge _ _ PP e)) as (-> & -> & _). split; reflexivity. }
  constructor.
  - apply (bp_nodup PRE).
  - intros n Hn. rewrite (p2_N _ _ PP) in Hn. rewrite (p2_na _ _ PP). apply LT, Hn.
  - intros e He. destruct (bp_edges PRE e He) as (A & _ & _ & D). destruct (s2_ends _ _ _ _ S e He) as [B C]. auto.
  - intros n Hn e. rewrite (p2_N _ _ PP) in Hn. destruct (ADJ n) as [_ ->]. destruct (EDG e) as [-> _].
    rewrite (p2_E _ _ PP). apply (HO n Hn).
  - intros n Hn. rewrite (p2_N _ _ PP) in Hn. destruct (ADJ n) as [-> _]. destruct (HI n Hn) as [N1 N2].
    split; [exact N1|]. intros e. destruct (EDG e) as [_ ->]. rewrite (p2_E _ _ PP). apply N2.
  - intros n _ Hv. rewrite (bp_nonvirt PRE n) in Hv. discriminate.
  - intros e He Hge. destruct (bp_edges PRE e He) as (A & _). lia.
  - intros n Hge Hlt. lia.
  - apply Nat.le_refl.
Qed.

Lemma stage23_adjinv : forall g1 g2 g3 k,
  CBBase.consistent g1 -> stage23 g1 g2 g3 k -> break_long_edges g2 = Ok g3 ->
  adjinv (length (g_na g2)) (length (g_ea g2)) g3.
Proof.
  intros g1 g2 g3 k C S BR. unfold break_long_edges in BR.
  eapply break_long_loop_adjinv; [|exact BR]. eapply adjinv_phase2; eassumption.
Qed.

Theorem stage23_layered : forall g1 g2 g3 k,
  CBBase.consistent g1 -> stage23 g1 g2 g3 k -> break_long_edges g2 = Ok g3 -> WmedianProofs.layered g3.
Proof.
  intros g1 g2 g3 k C S BR. pose proof (stage23_adjinv g1 g2 g3 k C S BR) as I.
  pose proof (s3_wf _ _ _ _ S) as WF. pose proof (s3_placed _ _ _ _ S) as PL.
  assert (RNG : forall j n, In n (l_nodes (glayer g3 j)) -> j < length (g_L g3)).
  { intros j n Hn. destruct (Nat.lt_ge_cases j (length (g_L g3))) as [L|L]; [exact L|].
    unfold glayer in Hn. rewrite nth_overflow in Hn; [destruct Hn|exact L]. }
  constructor.
  - apply (ai_N _ _ _ I).
  - intros j n. unfold CrossCountProofs.lnodes. split.
    + intros Hn. pose proof (s3_inl _ _ _ _ S j n Hn) as HnN. split; [exact HnN|].
      destruct (PL n HnN) as [P0 P1].
      pose proof (layers_wf_unique g3 n _ _ WF Hn P1) as E. lia.
    + intros [HnN E]. destruct (PL n HnN) as [_ P1]. rewrite E, Nat2Z.id in P1. exact P1.
  - intros j. unfold CrossCountProofs.lnodes. destruct (Nat.lt_ge_cases j (length (g_L g3))) as [L|L].
    + apply (NoDup_flat_map_part _ _ l_nodes (g_L g3) (glayer g3 j)); [apply WF|apply nth_In, L].
    + unfold glayer. rewrite nth_overflow by exact L. constructor.
  - intros n HnN. destruct (PL n HnN) as [P0 P1]. pose proof (RNG _ _ P1). lia.
  - apply (ai_out _ _ _ I).
  - intros n Hn. apply (ai_in _ _ _ I n Hn).
  - intros e He. destruct (ai_E _ _ _ I e He) as (_ & A & B & _). split; assumption.
Qed.
Print Assumptions stage23_layered.

(* ====================================================================================================== *)
(** * 5. The premise about the ordering heuristic holds                                                    *)
(* ====================================================================================================== *)

Theorem wm_premise_holds : forall o g, component_input g -> ns_premise o g -> wm_premise o g.
Proof.
  intros o g CI NS. apply wm_premise_intro; [exact CI|exact NS|].
  intros g0 del g1 g2 g3 k S01 S23 BR g3' x WE.
  apply oc_of_wm. apply (WmedianProofs.exec_wmedian_contract wmedian_max_iter g3 g3' x); [|exact WE].
  apply (stage23_layered g1 g2 g3 k); [apply (s1_c _ _ _ _ S01)|exact S23|exact BR].
Qed.
Print Assumptions wm_premise_holds.

(* with the longest-path layering nothing at all is assumed *)
Lemma ns_premise_longest_path : forall o g, o_p2 o = LongestPath -> ns_premise o g.
Proof. intros o g E H. rewrite E in H. discriminate. Qed.

Corollary wm_premise_longest_path : forall o g, component_input g -> o_p2 o = LongestPath -> wm_premise o g.
Proof. intros o g CI E. apply wm_premise_holds; [exact CI|apply ns_premise_longest_path, E]. Qed.

(* ====================================================================================================== *)
(** * 6. The backbone and E1 - E4 without the premise                                                      *)
(* ====================================================================================================== *)

Theorem pipeline_backbone_F : forall o g g' x,
  component_input g -> options_ok o -> ns_premise o g -> layout_component o g = Ok (g', x) ->
  exists g0 del g1 g2 g3 k g3' cx g4 gm routes g5, backbone o g g' x g0 del g1 g2 g3 k g3' cx g4 gm routes g5.
Proof. intros o g g' x CI OK NS H. apply pipeline_backbone; try assumption. apply wm_premise_holds; assumption. Qed.
Print Assumptions pipeline_backbone_F.

Theorem F1_output_graph : forall o g g' x,
  component_input g -> options_ok o -> ns_premise o g -> layout_component o g = Ok (g', x) -> E1_statement g g'.
Proof. intros o g g' x CI OK NS H. eapply E1_output_graph; try eassumption. apply wm_premise_holds; assumption. Qed.
Print Assumptions F1_output_graph.

Corollary F1_collected : forall o g g' x shift,
  component_input g -> options_ok o -> ns_premise o g -> layout_component o g = Ok (g', x) ->
  map (fun on => (on_id on, on_w on, on_h on)) (collect_nodes false shift g') =
    map (fun n => (n, n_w (gnode g n), n_h (gnode g n))) (g_N g) /\
  map (fun oe => (oe_from oe, oe_to oe)) (collect_edges shift g') =
    map (fun e => (e_from (gedge g e), e_to (gedge g e)))
        (filter (fun e => negb (self_loop g e)) (g_E g) ++ filter (self_loop g) (g_E g)).
Proof. intros o g g' x shift CI OK NS H. eapply E1_collected; try eassumption. apply wm_premise_holds; assumption. Qed.
Print Assumptions F1_collected.

Theorem F2_bands : forall o g g' x,
  component_input g -> options_ok o -> ns_premise o g -> layout_component o g = Ok (g', x) ->
  E2_statement (o_layer_spacing o) g g'.
Proof. intros o g g' x CI OK NS H. eapply E2_bands; try eassumption. apply wm_premise_holds; assumption. Qed.
Print Assumptions F2_bands.

Corollary F2_band_separation : forall o g g' x,
  component_input g -> options_ok o -> ns_premise o g -> layout_component o g = Ok (g', x) ->
  forall k n m, In n (l_nodes (glayer g' k)) -> In m (l_nodes (glayer g' (S k))) ->
    (nY g' n + nH g' n + o_layer_spacing o <= nY g' m)%Q.
Proof. intros o g g' x CI OK NS H. eapply E2_band_separation; try eassumption. apply wm_premise_holds; assumption. Qed.
Print Assumptions F2_band_separation.

Theorem F2_acyclic_no_ahs : forall o g g' x,
  component_input g -> options_ok o -> ns_premise o g -> layout_component o g = Ok (g', x) ->
  CBBase.ranked (fst (ignore_self_loops g)) ->
  forall e, In e (g_E g) -> self_loop g e = false -> e_ahs (gedge g' e) = false.
Proof. intros o g g' x CI OK NS H. eapply E2_acyclic_no_ahs; try eassumption. apply wm_premise_holds; assumption. Qed.
Print Assumptions F2_acyclic_no_ahs.

Theorem F3_endpoints : forall o g g' x,
  component_input g -> options_ok o -> ns_premise o g -> layout_component o g = Ok (g', x) -> E3_statement g g'.
Proof. intros o g g' x CI OK NS H. eapply E3_endpoints; try eassumption. apply wm_premise_holds; assumption. Qed.
Print Assumptions F3_endpoints.

Theorem F4_route_shape : forall o g g' x,
  component_input g -> options_ok o -> ns_premise o g -> layout_component o g = Ok (g', x) ->
  E4_statement (o_p5 o) (o_layer_spacing o) g g'.
Proof. intros o g g' x CI OK NS H. eapply E4_route_shape; try eassumption. apply wm_premise_holds; assumption. Qed.
Print Assumptions F4_route_shape.

(* E1 - E4 for the components [layout] really processes *)
Theorem layout_component_end_to_end_F : forall (A : Type) (eqA : A -> A -> bool),
  (forall x y, eqA x y = true <-> x = y) ->
  forall es ids g fixed sizes o c c' x,
    populate A eqA es = Ok (ids, g) ->
    In c (components (apply_sizes A eqA fixed sizes ids g)) -> 2 <= length (g_N c) ->
    options_ok o -> ns_premise o c ->
    layout_component o c = Ok (c', x) ->
    E1_statement c c' /\ E2_statement (o_layer_spacing o) c c' /\ E3_statement c c' /\
    E4_statement (o_p5 o) (o_layer_spacing o) c c'.
Proof.
  intros A eqA OK es ids g fixed sizes o c c' x H Hc TWO OO NS L.
  pose proof (frontend_component_input A eqA OK es ids g fixed sizes H c Hc TWO) as CI.
  eapply layout_component_end_to_end; try eassumption. apply wm_premise_holds; assumption.
Qed.
Print Assumptions layout_component_end_to_end_F.

(* the longest-path layering: no premise is left *)
Theorem F_longest_path : forall o g g' x,
  component_input g -> options_ok o -> o_p2 o = LongestPath -> layout_component o g = Ok (g', x) ->
  E1_statement g g' /\ E2_statement (o_layer_spacing o) g g' /\ E3_statement g g' /\
  E4_statement (o_p5 o) (o_layer_spacing o) g g'.
Proof.
  intros o g g' x CI OK LP H. pose proof (ns_premise_longest_path o g LP) as NS.
  split; [eapply F1_output_graph; eassumption|]. split; [eapply F2_bands; eassumption|].
  split; [eapply F3_endpoints; eassumption|eapply F4_route_shape; eassumption].
Qed.
Print Assumptions F_longest_path.

(* ====================================================================================================== *)
(** * 7. Examples: the component of E2EExample.v, now without any premise about the heuristic               *)
(* ====================================================================================================== *)
From Autog.Proofs Require E2EExample.

Example exF_wm_premise : wm_premise E2EExample.ex_o E2EExample.ex_g.
Proof. exact (wm_premise_holds _ _ E2EExample.ex_component_input E2EExample.ex_ns_premise). Qed.

Example exF_layered : WmedianProofs.layered E2EExample.ex_g3.
Proof.
  destruct (pipeline_backbone_F _ _ _ _ E2EExample.ex_component_input E2EExample.ex_options_ok E2EExample.ex_ns_premise
              E2EExample.ex_layout) as (g0 & del & g1 & g2 & g3 & k & g3' & cx & g4 & gm & routes & g5 & BB).
  pose proof (bb_e0 _ _ _ _ _ _ _ _ _ _ _ _ _ _ _ _ BB) as E0. pose proof (bb_e1 _ _ _ _ _ _ _ _ _ _ _ _ _ _ _ _ BB) as E1.
  pose proof (bb_e2 _ _ _ _ _ _ _ _ _ _ _ _ _ _ _ _ BB) as E2. pose proof (bb_e3 _ _ _ _ _ _ _ _ _ _ _ _ _ _ _ _ BB) as E3.
  assert (G0 : g0 = fst (ignore_self_loops E2EExample.ex_g)) by (rewrite E0; reflexivity). subst g0.
  rewrite E2EExample.ex_phase1 in E1. injection E1 as <-.
  rewrite E2EExample.ex_phase2 in E2. injection E2 as <-.
  pose proof E3 as E3'. rewrite E2EExample.ex_break in E3'. injection E3' as <-.
  eapply stage23_layered; [apply (s1_c _ _ _ _ (bb_s01 _ _ _ _ _ _ _ _ _ _ _ _ _ _ _ _ BB))|
                           apply (bb_s23 _ _ _ _ _ _ _ _ _ _ _ _ _ _ _ _ BB)|exact E3].
Qed.

Example exF_all :
  E1_statement E2EExample.ex_g E2EExample.ex_out /\ E2_statement 7 E2EExample.ex_g E2EExample.ex_out /\
  E3_statement E2EExample.ex_g E2EExample.ex_out /\ E4_statement Polyline 7 E2EExample.ex_g E2EExample.ex_out.
Proof.
  exact (F_longest_path E2EExample.ex_o _ _ _ E2EExample.ex_component_input E2EExample.ex_options_ok eq_refl
           E2EExample.ex_layout).
Qed.

(* Greedy / NetworkSimplex / SinkColoring / Ortho: only the premise about network simplex is used *)
Example exF2_E4 : E4_statement Ortho 7 E2EExample.ex_g E2EExample.ex2_out.
Proof.
  exact (F4_route_shape E2EExample.ex_o2 _ _ _ E2EExample.ex_component_input E2EExample.ex2_options_ok
           E2EExample.ex2_ns_premise E2EExample.ex2_layout).
Qed.
Print Assumptions exF_all.
Print Assumptions exF2_E4.
