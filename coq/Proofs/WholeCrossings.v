(* WholeCrossings.v — W2: the crossing number one component reports.

   For a component [g] accepted by [layout_component] (under [component_input], [options_ok], [ns_premise]):
     - the reported number is [Some cx] with [cx = reported_crossings g3'], [g3'] being the ordered graph (the result
       of [exec_wmedian] on the graph [g3] with broken long edges);
     - phases 4 and 5 and the post-processing keep [n_pos], [n_layer] and the node lists of the layers, so the order
       of the final graph is the order of [g3'], and [drawing_crossings g4 = drawing_crossings g3'] for the phase-4
       output [g4] (which still has the broken edges; the final graph has the long edges merged again);
     - if the component has no parallel or antiparallel edges ([simple_component g], stated on the input), then
       [cx = drawing_crossings g3' = drawing_crossings g4];
     - if [g3] is an out-forest / in-forest (in particular a rooted out-tree / in-tree), then [cx = 0];
       when every edge of the phase-2 output [g2] spans one layer, [g3 = g2]. *)
From Autog Require Import Base Graph Populate Phase1 Phase2 Phase3 Phase4 Phase5 Layout Wmedian Pipeline.
From Autog.Proofs Require Import ListLemmas Consistent SelfLoopProofs.
From Autog.Proofs Require CBBase CBGreedy CBGreedyRanks CBDepthFirst CBHasCycles CycleBreaking LongestPath
                          OptNormalize OptVbalance OptPipeline CollectProofs.
From Autog.Proofs Require CrossCountProofs WmedianProofs TreeProofs.
From Autog.Proofs Require Import Positioners Routes BreakMerge SinkColoringProofs E2EBridge E2EBackbone E2EOutput E2EFrontend.
From Autog.Proofs Require Import WholeBridge.
From Coq Require Import Permutation Lia Lqa.
Local Open Scope nat_scope.

(* ====================================================================================================== *)
(** * 1. More facts about the backbone                                                                     *)
(* ====================================================================================================== *)

Section BackboneX.
  Variables (o : options) (g g' : graph) (x : option Z) (g0 : graph) (del : list nat) (g1 g2 g3 : graph) (k : nat)
            (g3' : graph) (cx : Z) (g4 gm : graph) (routes : list (nat * list nat)) (g5 : graph).
  Hypothesis CI : component_input g.
  Hypothesis BB : backbone o g g' x g0 del g1 g2 g3 k g3' cx g4 gm routes g5.

  Let S01 := bb_s01 _ _ _ _ _ _ _ _ _ _ _ _ _ _ _ _ BB.
  Let S23 := bb_s23 _ _ _ _ _ _ _ _ _ _ _ _ _ _ _ _ BB.
  Let S45 := bb_s45 _ _ _ _ _ _ _ _ _ _ _ _ _ _ _ _ BB.
  Let PP := s2_post _ _ _ _ S23.

  Lemma bbx_adjinv : adjinv (length (g_na g2)) (length (g_ea g2)) g3.
  Proof. apply (stage23_adjinv g1 g2 g3 k); [apply (s1_c _ _ _ _ S01)|exact S23|apply (bb_e3 _ _ _ _ _ _ _ _ _ _ _ _ _ _ _ _ BB)]. Qed.

  Lemma bbx_layered : WmedianProofs.layered g3.
  Proof. apply (stage23_layered g1 g2 g3 k); [apply (s1_c _ _ _ _ S01)|exact S23|apply (bb_e3 _ _ _ _ _ _ _ _ _ _ _ _ _ _ _ _ BB)]. Qed.

  Lemma bbx_contract : WmedianProofs.order_contract g3 g3' /\ cx = reported_crossings g3'.
  Proof.
    apply (WmedianProofs.exec_wmedian_contract wmedian_max_iter); [exact bbx_layered|].
    apply (bb_e3' _ _ _ _ _ _ _ _ _ _ _ _ _ _ _ _ BB).
  Qed.

  Lemma bbx_N3' : Nat.eqb (length (g_N g3')) 1 = false.
  Proof.
    apply Nat.eqb_neq. rewrite (E2EBridge.oc_N _ _ (s4_oc _ _ _ _ _ _ _ _ _ S45)), (s3_N _ _ _ _ S23), app_length.
    pose proof (s2_two _ _ _ _ S23). lia.
  Qed.

  Lemma bbx_wf3' : layers_wf g3'.
  Proof.
    destruct (order_contract_facts g3 g3' (s4_oc _ _ _ _ _ _ _ _ _ S45)) as (_ & OWF & _). apply OWF, (s3_wf _ _ _ _ S23).
  Qed.

  Lemma bbx_lh3' : forall kk, (0 <= l_h (glayer g3' kk))%Q.
  Proof.
    intros kk. destruct (order_contract_facts g3 g3' (s4_oc _ _ _ _ _ _ _ _ _ S45)) as (_ & _ & _ & _ & _ & OLH).
    rewrite OLH, (s3_lh _ _ _ _ S23). destruct (p2_wh _ _ PP kk) as [_ ->]. apply Qle_refl.
  Qed.

  (* phase 4 between the ordered graph and its output *)
  Lemma bbx_phase4 : options_ok o ->
    g_ea g4 = g_ea g3' /\ g_N g4 = g_N g3' /\ g_E g4 = g_E g3' /\ length (g_na g4) = length (g_na g3') /\
    (forall n, set_x 0 (set_y 0 (gnode g4 n)) = set_x 0 (set_y 0 (gnode g3' n))) /\
    (forall kk, l_nodes (glayer g4 kk) = l_nodes (glayer g3' kk)) /\
    length (g_L g4) = length (g_L g3').
  Proof.
    intros [O4 _].
    destruct (phase4_facts (o_p4 o) (p4_params o) g3' g4 O4 bbx_N3' (bb_e4 _ _ _ _ _ _ _ _ _ _ _ _ _ _ _ _ BB) bbx_wf3' bbx_lh3')
      as (F1 & F2 & F3 & F4 & F5 & F6 & F7 & _).
    repeat (split; [assumption|]). exact F7.
  Qed.

  (* the final graph against the phase-4 output: positions, layers, layer lists *)
  Lemma bbx_out_pos : forall n, n_pos (gnode g' n) = n_pos (gnode g4 n) /\ n_layer (gnode g' n) = n_layer (gnode g4 n).
  Proof.
    intros n. rewrite (bb_e6 _ _ _ _ _ _ _ _ _ _ _ _ _ _ _ _ BB).
    destruct (post_process_facts g5 del (sum_post_range _ _ _ _ _ _ _ _ _ _ _ _ _ _ _ _ CI BB)) as (_ & _ & _ & _ & _ & _ & _ & _ & PN).
    cbv zeta in PN. destruct (PN n) as (-> & -> & _).
    rewrite (gnode_same_na _ _ n (s5_na _ _ _ _ _ _ _ _ _ S45)).
    destruct (same_but_in_fields _ _ (sm_node _ _ _ _ _ _ _ _ _ S45 n)) as (_ & -> & _ & ->). split; reflexivity.
  Qed.

  Lemma bbx_out_L : g_L g' = g_L g4.
  Proof. apply (out_frame _ _ _ _ _ _ _ _ _ _ _ _ _ _ _ _ CI BB). Qed.
End BackboneX.

(* ====================================================================================================== *)
(** * 2. drawing_crossings only reads the edge list, the edge ends, the layers and the positions           *)
(* ====================================================================================================== *)

Lemma bilayer_pairs_ext : forall g g' la lb,
  g_E g' = g_E g -> g_ea g' = g_ea g ->
  (forall n, layer_of g' n = layer_of g n /\ pos_of g' n = pos_of g n) ->
  bilayer_pairs g' la lb = bilayer_pairs g la lb.
Proof.
  intros g g' la lb HE HA HN. unfold bilayer_pairs. rewrite HE. apply flat_map_ext. intros e.
  rewrite (gedge_same_ea _ _ e HA).
  destruct (HN (e_from (gedge g e))) as [-> ->]. destruct (HN (e_to (gedge g e))) as [-> ->]. reflexivity.
Qed.

Lemma drawing_crossings_ext : forall g g',
  g_E g' = g_E g -> g_ea g' = g_ea g -> length (g_L g') = length (g_L g) ->
  (forall n, layer_of g' n = layer_of g n /\ pos_of g' n = pos_of g n) ->
  drawing_crossings g' = drawing_crossings g.
Proof.
  intros g g' HE HA HL HN. unfold drawing_crossings. rewrite HL.
  apply CrossCountProofs.fold_left_add_ext. intros i _. rewrite (bilayer_pairs_ext g g' _ _ HE HA HN). reflexivity.
Qed.

(* ====================================================================================================== *)
(** * 3. No parallel or antiparallel edges                                                                 *)
(* ====================================================================================================== *)

(* stated on the input component: no two distinct listed edges that are not self loops join the same pair of nodes *)
Definition simple_component (g : graph) : Prop :=
  forall e1 e2, In e1 (g_E g) -> In e2 (g_E g) -> self_loop g e1 = false -> self_loop g e2 = false ->
    CrossCountProofs.same_ends g e1 e2 -> e1 = e2.

Lemma length_one : forall (l : list nat) a b, length l = 1 -> In a l -> In b l -> a = b.
Proof. intros [|c [|d t]] a b H Ha Hb; cbn in *; try discriminate. destruct Ha as [<-|[]], Hb as [<-|[]]. reflexivity. Qed.

Section Simple.
  Variables (o : options) (g g' : graph) (x : option Z) (g0 : graph) (del : list nat) (g1 g2 g3 : graph) (k : nat)
            (g3' : graph) (cx : Z) (g4 gm : graph) (routes : list (nat * list nat)) (g5 : graph).
  Hypothesis CI : component_input g.
  Hypothesis BB : backbone o g g' x g0 del g1 g2 g3 k g3' cx g4 gm routes g5.

  Let S01 := bb_s01 _ _ _ _ _ _ _ _ _ _ _ _ _ _ _ _ BB.
  Let S23 := bb_s23 _ _ _ _ _ _ _ _ _ _ _ _ _ _ _ _ BB.
  Let PP := s2_post _ _ _ _ S23.

  (* the unordered pair of ends of an edge of g2 is that of the same edge in the input *)
  Lemma ends_g2 : forall e, In e (g_E g2) ->
    In e (g_E g) /\ self_loop g e = false /\
    ((e_from (gedge g2 e) = e_from (gedge g e) /\ e_to (gedge g2 e) = e_to (gedge g e)) \/
     (e_from (gedge g2 e) = e_to (gedge g e) /\ e_to (gedge g2 e) = e_from (gedge g e))).
  Proof.
    intros e He2. destruct (proj2 (nonloop_E2 _ _ _ _ _ _ _ _ _ _ _ _ _ _ _ _ BB e) He2) as [He Hs].
    split; [exact He|]. split; [exact Hs|].
    destruct (sum_edge2 _ _ _ _ _ _ _ _ _ _ _ _ _ _ _ _ CI BB e (conj He Hs)) as (_ & _ & [(_ & A & B)|(_ & A & B)]); auto.
  Qed.

  Lemma simple_g3 : simple_component g -> WmedianProofs.simple_edges g3.
  Proof.
    intros SC. pose proof (bbx_adjinv _ _ _ _ _ _ _ _ _ _ _ _ _ _ _ _ BB) as I.
    pose proof (s2_pre _ _ _ _ S23) as PRE.
    destruct (break_long_edges_spec g2 PRE) as (g3a & ka & BRa & _ & _ & _ & _ & _ & _ & _ & _ & CH).
    assert (g3a = g3) by (pose proof (bb_e3 _ _ _ _ _ _ _ _ _ _ _ _ _ _ _ _ BB); congruence). subst g3a. clear BRa.
    set (na0 := length (g_na g2)) in *. set (ea0 := length (g_ea g2)) in *.
    assert (NEW : forall n, In n (g_N g3) -> na0 <= n -> n_virt (gnode g3 n) = true).
    { intros n Hn Hge. apply (s3_new _ _ _ _ S23). fold na0. split; [exact Hge|].
      pose proof (ai_N _ _ _ I n Hn) as L. rewrite (s3_na _ _ _ _ S23) in L. exact L. }
    (* an edge touching a helper node is its only in-edge or its only out-edge *)
    assert (VIRT : forall v e1 e2, In v (g_N g3) -> na0 <= v -> In e1 (g_E g3) -> In e2 (g_E g3) ->
              (e_from (gedge g3 e1) = v \/ e_to (gedge g3 e1) = v) ->
              (e_from (gedge g3 e2) = v \/ e_to (gedge g3 e2) = v) ->
              CrossCountProofs.same_ends g3 e1 e2 -> e1 = e2).
    { intros v e1 e2 Hv Hge H1 H2 T1 T2 SE.
      destruct (ai_virt _ _ _ I v Hv (NEW v Hv Hge)) as [LI LO].
      destruct (ai_in _ _ _ I v Hv) as [_ IN]. pose proof (ai_out _ _ _ I v Hv) as OUT.
      destruct (ai_E _ _ _ I e1 H1) as (_ & _ & _ & SP1). destruct (ai_E _ _ _ I e2 H2) as (_ & _ & _ & SP2).
      unfold span in SP1, SP2.
      destruct T1 as [T1|T1], T2 as [T2|T2].
      - apply (length_one _ e1 e2 LO); apply OUT; split; assumption.
      - exfalso. destruct SE as [[A B]|[A B]]; rewrite ?A, ?B, ?T1, ?T2 in *; lia.
      - exfalso. destruct SE as [[A B]|[A B]]; rewrite ?A, ?B, ?T1, ?T2 in *; lia.
      - apply (length_one _ e1 e2 LI); apply IN; split; assumption. }
    split; [apply (ai_nodupE _ _ _ I)|].
    intros e1 e2 H1 H2 SE.
    destruct (ai_E _ _ _ I e1 H1) as (_ & F1 & T1 & _).
    destruct (Nat.le_gt_cases na0 (e_from (gedge g3 e1))) as [Hf|Hf].
    { apply (VIRT (e_from (gedge g3 e1)) e1 e2 F1 Hf H1 H2); [left; reflexivity| |exact SE].
      destruct SE as [[A _]|[A _]]; [left|right]; symmetry; exact A. }
    destruct (Nat.le_gt_cases na0 (e_to (gedge g3 e1))) as [Ht|Ht].
    { apply (VIRT (e_to (gedge g3 e1)) e1 e2 T1 Ht H1 H2); [right; reflexivity| |exact SE].
      destruct SE as [[_ B]|[_ B]]; [right|left]; symmetry; exact B. }
    (* both ends are nodes of the input: both edges are edges of g2 with the ends they have in g2 *)
    assert (OLD : forall e, In e (g_E g3) -> e_from (gedge g3 e) < na0 -> e_to (gedge g3 e) < na0 ->
              In e (g_E g2) /\ e_from (gedge g3 e) = e_from (gedge g2 e) /\ e_to (gedge g3 e) = e_to (gedge g2 e)).
    { intros e He Lf Lt.
      assert (He2 : In e (g_E g2)).
      { pose proof He as He3. rewrite (s3_E _ _ _ _ S23) in He3. apply in_app_or in He3.
        destruct He3 as [He2|He2]; [exact He2|].
        apply BreakMerge.in_iota in He2. fold ea0 in He2.
        pose proof (ai_newE _ _ _ I e He (proj1 He2)). lia. }
      split; [exact He2|]. destruct (CH e He2) as (_ & EF & vs & fs & C & _ & FV & _). split; [exact EF|].
      destruct vs as [|v vs].
      - destruct fs as [|f fs]; cbn [chain] in C; [apply C|destruct C].
      - exfalso. inversion FV as [|? ? Hv _]; subst. destruct fs as [|f fs]; cbn [chain] in C; [destruct C|].
        destruct C as (C1 & _). lia. }
    assert (Lf2 : e_from (gedge g3 e2) < na0 /\ e_to (gedge g3 e2) < na0).
    { destruct SE as [[A B]|[A B]]; rewrite <- A, <- B; split; assumption. }
    destruct (OLD e1 H1 Hf Ht) as (G1 & A1 & B1). destruct (OLD e2 H2 (proj1 Lf2) (proj2 Lf2)) as (G2 & A2 & B2).
    destruct (ends_g2 e1 G1) as (I1 & N1 & D1). destruct (ends_g2 e2 G2) as (I2 & N2 & D2).
    apply (SC e1 e2 I1 I2 N1 N2). unfold CrossCountProofs.same_ends in *. rewrite A1, B1, A2, B2 in SE.
    destruct D1 as [[P1 Q1]|[P1 Q1]], D2 as [[P2 Q2]|[P2 Q2]]; rewrite P1, Q1, P2, Q2 in SE; tauto.
  Qed.
End Simple.

(* ====================================================================================================== *)
(** * 4. When every edge spans one layer, break_long_edges does nothing                                    *)
(* ====================================================================================================== *)

Lemma break_long_loop_noop : forall fuel i g,
  (forall e, In e (g_E g) -> span g e = 1%Z) -> length (g_E g) - i < fuel -> break_long_loop fuel i g = Ok g.
Proof.
  induction fuel as [|fu IH]; intros i g SP Hf; [lia|]. cbn [break_long_loop].
  destruct (nth_error (g_E g) i) as [e|] eqn:En; [|reflexivity].
  assert (Hi : i < length (g_E g)) by (apply nth_error_Some; congruence).
  pose proof (SP e (nth_error_In _ _ En)) as S1. unfold span in S1. cbv zeta.
  destruct (Z.ltb_spec 1 (layer_of g (e_to (gedge g e)) - layer_of g (e_from (gedge g e)))) as [Hl|Hl]; [lia|].
  destruct (Z.ltb_spec 1 (layer_of g (e_from (gedge g e)) - layer_of g (e_to (gedge g e)))) as [Hu|Hu]; [lia|].
  apply IH; [exact SP|lia].
Qed.

Lemma break_long_edges_noop : forall g, (forall e, In e (g_E g) -> span g e = 1%Z) -> break_long_edges g = Ok g.
Proof. intros g SP. unfold break_long_edges. apply break_long_loop_noop; [exact SP|lia]. Qed.

(* ====================================================================================================== *)
(** * 5. W2                                                                                                *)
(* ====================================================================================================== *)

Definition W2_statement (o : options) (g g' : graph) (x : option Z) : Prop :=
  exists g1 g2 g3 g3' cx g4,
    (* the intermediate graphs: phase 1, phase 2, broken long edges, ordered, positioned *)
    phase1 (o_p1 o) (fst (ignore_self_loops g)) = Ok g1 /\ phase2 (o_p2 o) (Layout.ns_params o) g1 = Ok g2 /\
    break_long_edges g2 = Ok g3 /\ exec_wmedian wmedian_max_iter g3 = Ok (g3', cx) /\
    phase4 (o_p4 o) (p4_params o) g3' = Ok g4 /\
    (* (a) the reported number *)
    x = Some cx /\ cx = reported_crossings g3' /\ (0 <= cx)%Z /\
    WmedianProofs.layered g3 /\ WmedianProofs.order_contract g3 g3' /\
    (* (b) order and positions are not touched after the ordering phase *)
    (forall n, n_pos (gnode g' n) = n_pos (gnode g3' n) /\ n_layer (gnode g' n) = n_layer (gnode g3' n)) /\
    (forall kk, l_nodes (glayer g' kk) = l_nodes (glayer g3' kk)) /\ length (g_L g') = length (g_L g3') /\
    (forall kk j, j < length (l_nodes (glayer g' kk)) -> pos_of g' (nth j (l_nodes (glayer g' kk)) 0) = Z.of_nat j) /\
    drawing_crossings g4 = drawing_crossings g3' /\
    (* (c) without parallel / antiparallel edges the reported number is the number of crossings of the drawing *)
    (simple_component g -> CrossCountProofs.ordered_proper g3' /\ cx = drawing_crossings g3' /\ cx = drawing_crossings g4) /\
    (* (d) forests and trees *)
    (TreeProofs.out_forest g3 \/ TreeProofs.in_forest g3 -> cx = 0%Z /\ drawing_crossings g4 = 0%Z) /\
    (forall root, TreeProofs.rooted_out_tree g3 root \/ TreeProofs.rooted_in_tree g3 root ->
                  cx = 0%Z /\ drawing_crossings g4 = 0%Z) /\
    ((forall e, In e (g_E g2) -> span g2 e = 1%Z) -> g3 = g2).

Lemma W2_of_backbone : forall o g g' x g0 del g1 g2 g3 k g3' cx g4 gm routes g5,
  component_input g -> options_ok o -> backbone o g g' x g0 del g1 g2 g3 k g3' cx g4 gm routes g5 ->
  W2_statement o g g' x.
Proof.
  intros o g g' x g0 del g1 g2 g3 k g3' cx g4 gm routes g5 CI OK BB.
  pose proof (bbx_layered _ _ _ _ _ _ _ _ _ _ _ _ _ _ _ _ BB) as LY.
  destruct (bbx_contract _ _ _ _ _ _ _ _ _ _ _ _ _ _ _ _ BB) as [OC RC].
  destruct (bbx_phase4 _ _ _ _ _ _ _ _ _ _ _ _ _ _ _ _ BB OK) as (F1 & F2 & F3 & F4 & F5 & F6 & F7).
  pose proof (bbx_out_L _ _ _ _ _ _ _ _ _ _ _ _ _ _ _ _ CI BB) as OL.
  pose proof (bb_e3' _ _ _ _ _ _ _ _ _ _ _ _ _ _ _ _ BB) as WE.
  assert (E0 : g0 = fst (ignore_self_loops g)) by (rewrite (bb_e0 _ _ _ _ _ _ _ _ _ _ _ _ _ _ _ _ BB); reflexivity).
  assert (NP : forall n, n_pos (gnode g' n) = n_pos (gnode g3' n) /\ n_layer (gnode g' n) = n_layer (gnode g3' n)).
  { intros n. destruct (bbx_out_pos _ _ _ _ _ _ _ _ _ _ _ _ _ _ _ _ CI BB n) as [-> ->].
    destruct (set_xy_fields _ _ (F5 n)) as (_ & _ & -> & -> & _). split; reflexivity. }
  assert (LN : forall kk, l_nodes (glayer g' kk) = l_nodes (glayer g3' kk)).
  { intros kk. unfold glayer at 1. rewrite OL. apply F6. }
  assert (D4 : drawing_crossings g4 = drawing_crossings g3').
  { apply drawing_crossings_ext; try assumption. intros n. unfold layer_of, pos_of.
    destruct (set_xy_fields _ _ (F5 n)) as (_ & _ & -> & -> & _). split; reflexivity. }
  exists g1, g2, g3, g3', cx, g4.
  split; [rewrite <- E0; apply (bb_e1 _ _ _ _ _ _ _ _ _ _ _ _ _ _ _ _ BB)|].
  split; [apply (bb_e2 _ _ _ _ _ _ _ _ _ _ _ _ _ _ _ _ BB)|]. split; [apply (bb_e3 _ _ _ _ _ _ _ _ _ _ _ _ _ _ _ _ BB)|].
  split; [exact WE|]. split; [apply (bb_e4 _ _ _ _ _ _ _ _ _ _ _ _ _ _ _ _ BB)|].
  split; [apply (bb_x _ _ _ _ _ _ _ _ _ _ _ _ _ _ _ _ BB)|]. split; [exact RC|].
  split; [rewrite RC; apply TreeProofs.reported_crossings_nonneg|]. split; [exact LY|]. split; [exact OC|].
  split; [exact NP|]. split; [exact LN|]. split; [rewrite OL; exact F7|].
  split.
  { intros kk j Hj. rewrite LN in *. unfold pos_of. destruct (NP (nth j (l_nodes (glayer g3' kk)) 0)) as [-> _].
    apply (WmedianProofs.oc_pos _ _ OC kk j Hj). }
  split; [exact D4|]. split.
  { intros SC. pose proof (simple_g3 _ _ _ _ _ _ _ _ _ _ _ _ _ _ _ _ CI BB SC) as SE.
    destruct (WmedianProofs.exec_wmedian_drawing wmedian_max_iter g3 g3' cx LY SE WE) as [OP DC].
    split; [exact OP|]. split; [exact DC|]. rewrite D4. exact DC. }
  split.
  { intros [FO|FO].
    - destruct (TreeProofs.out_forest_no_crossings wmedian_max_iter g3 g3' cx LY FO WE) as (A & _ & B & _).
      split; [exact A|]. rewrite D4. exact B.
    - destruct (TreeProofs.in_forest_no_crossings wmedian_max_iter g3 g3' cx LY FO WE) as (A & _ & B & _).
      split; [exact A|]. rewrite D4. exact B. }
  split.
  { intros root [T|T].
    - destruct (TreeProofs.rooted_out_tree_no_crossings wmedian_max_iter g3 root g3' cx LY T WE) as [A B].
      split; [exact A|]. rewrite D4. exact B.
    - destruct (TreeProofs.rooted_in_tree_no_crossings wmedian_max_iter g3 root g3' cx LY T WE) as [A B].
      split; [exact A|]. rewrite D4. exact B. }
  intros SP. pose proof (break_long_edges_noop g2 SP) as N. pose proof (bb_e3 _ _ _ _ _ _ _ _ _ _ _ _ _ _ _ _ BB). congruence.
Qed.

Theorem W2_crossings : forall o g g' x,
  component_input g -> options_ok o -> ns_premise o g -> layout_component o g = Ok (g', x) -> W2_statement o g g' x.
Proof.
  intros o g g' x CI OK NS H.
  destruct (pipeline_backbone_F o g g' x CI OK NS H) as (g0 & del & g1 & g2 & g3 & k & g3' & cx & g4 & gm & routes & g5 & BB).
  eapply W2_of_backbone; eassumption.
Qed.
Print Assumptions W2_crossings.

(* the short form: the reported number of a component without parallel / antiparallel edges is the number of
   crossings of the drawing of its ordered graph *)
Corollary W2_reported_is_drawn : forall o g g' x,
  component_input g -> options_ok o -> ns_premise o g -> layout_component o g = Ok (g', x) -> simple_component g ->
  exists g3' cx, x = Some cx /\ cx = reported_crossings g3' /\ cx = drawing_crossings g3' /\
    (forall n, n_pos (gnode g' n) = n_pos (gnode g3' n) /\ n_layer (gnode g' n) = n_layer (gnode g3' n)) /\
    (forall kk, l_nodes (glayer g' kk) = l_nodes (glayer g3' kk)).
Proof.
  intros o g g' x CI OK NS H SC.
  destruct (W2_crossings o g g' x CI OK NS H)
    as (g1 & g2 & g3 & g3' & cx & g4 & _ & _ & _ & _ & _ & A & B & _ & _ & _ & C & D & _ & _ & _ & E & _).
  exists g3', cx. destruct (E SC) as (_ & E1 & _). auto.
Qed.
Print Assumptions W2_reported_is_drawn.

(* trees, stated on the phase-2 output: a rooted out-tree / in-tree all of whose edges span one layer (this is part of
   [rooted_out_tree] / [rooted_in_tree]) is drawn without crossings, and 0 is reported *)
Corollary W2_tree : forall o g g' x,
  component_input g -> options_ok o -> ns_premise o g -> layout_component o g = Ok (g', x) ->
  forall g1 g2 root,
    phase1 (o_p1 o) (fst (ignore_self_loops g)) = Ok g1 -> phase2 (o_p2 o) (Layout.ns_params o) g1 = Ok g2 ->
    TreeProofs.rooted_out_tree g2 root \/ TreeProofs.rooted_in_tree g2 root ->
    x = Some 0%Z.
Proof.
  intros o g g' x CI OK NS H g1 g2 root P1 P2 T.
  destruct (W2_crossings o g g' x CI OK NS H)
    as (g1a & g2a & g3 & g3' & cx & g4 & Q1 & Q2 & _ & _ & _ & X & _ & _ & _ & _ & _ & _ & _ & _ & _ & _ & _ & TR & NOOP).
  assert (g1a = g1) by congruence. subst g1a. assert (g2a = g2) by congruence. subst g2a.
  assert (SP : forall e, In e (g_E g2) -> span g2 e = 1%Z).
  { intros e He. unfold span. destruct T as [T|T]; [rewrite (TreeProofs.rt_step _ _ T e He)|rewrite (TreeProofs.it_step _ _ T e He)]; lia. }
  rewrite (NOOP SP) in TR. destruct (TR root T) as [-> _]. exact X.
Qed.
Print Assumptions W2_tree.

(* ====================================================================================================== *)
(** * 6. Examples                                                                                          *)
(* ====================================================================================================== *)

Definition wc_o : options := mkOptions DepthFirst LongestPath VAlign Polyline 1 0 5 7 false.

Example wc_options_ok : options_ok wc_o.
Proof. split; [left; reflexivity|right; left; reflexivity]. Qed.

Definition wc_front (es : list (list nat)) : graph :=
  match populate nat Nat.eqb es with
  | Ok (ids, g) => List.hd empty_graph (components (apply_sizes nat Nat.eqb (Some (10, 6)%Q) None ids g))
  | Err _ => empty_graph
  end.

Lemma wc_front_input : forall es,
  match populate nat Nat.eqb es with
  | Ok (ids, g) => components (apply_sizes nat Nat.eqb (Some (10, 6)%Q) None ids g) <> []
  | Err _ => False
  end ->
  2 <= length (g_N (wc_front es)) -> component_input (wc_front es).
Proof.
  intros es NE TWO. unfold wc_front in *.
  destruct (populate nat Nat.eqb es) as [[ids g]|] eqn:H; [|destruct NE].
  apply (frontend_component_input nat Nat.eqb Nat.eqb_eq es ids g (Some (10, 6)%Q) None H); [|exact TWO].
  destruct (components _) as [|c t]; [congruence|left; reflexivity].
Qed.

(* (a) a root above K(3,3), one long edge (6 -> 4, broken by a helper node) and a self loop: 9 crossings *)
Definition wc_edges : list (list nat) :=
  [[6;0];[6;1];[6;2];[0;3];[0;4];[0;5];[1;3];[1;4];[1;5];[2;3];[2;4];[2;5];[5;5];[6;4]].
Definition wc_g : graph := Eval vm_compute in wc_front wc_edges.

Example wc_input : component_input wc_g.
Proof.
  assert (E : wc_g = wc_front wc_edges) by (vm_compute; reflexivity). rewrite E.
  apply wc_front_input; [vm_compute; discriminate|vm_compute; lia].
Qed.

Example wc_simple : simple_component wc_g.
Proof.
  assert (S : WmedianProofs.simple_edges wc_g) by (apply WmedianProofs.simple_edges_b_sound; vm_compute; reflexivity).
  intros e1 e2 H1 H2 _ _ SE. apply (proj2 S); assumption.
Qed.

Definition wc_out : graph := Eval vm_compute in
  match layout_component wc_o wc_g with Ok (g, _) => g | Err _ => empty_graph end.

Example wc_layout : layout_component wc_o wc_g = Ok (wc_out, Some 9%Z).
Proof. vm_compute. reflexivity. Qed.

Example wc_out_eval :
  map l_nodes (g_L wc_out) = [[0]; [1; 2; 3; 7]; [4; 6; 5]] /\
  map (fun n => n_pos (gnode wc_out n)) (g_N wc_out) = [0; 0; 1; 2; 0; 2; 1; 3]%Z.
Proof. vm_compute. split; reflexivity. Qed.

Example wc_crossings :
  exists g3', 9%Z = reported_crossings g3' /\ 9%Z = drawing_crossings g3' /\
    (forall n, n_pos (gnode wc_out n) = n_pos (gnode g3' n) /\ n_layer (gnode wc_out n) = n_layer (gnode g3' n)) /\
    (forall kk, l_nodes (glayer wc_out kk) = l_nodes (glayer g3' kk)).
Proof.
  destruct (W2_reported_is_drawn wc_o wc_g wc_out _ wc_input wc_options_ok (ns_premise_longest_path wc_o _ eq_refl)
              wc_layout wc_simple) as (g3' & cx & X & A & B & C & D).
  injection X as <-. exists g3'. auto.
Qed.

(* (b) an out-tree: 0 -> 1, 0 -> 2, 1 -> 3, 1 -> 4. The longest-path layering puts the leaf 2 into the last layer,
   so the edge 0 -> 2 is long; after break_long_edges the graph is still an out-forest and no crossing is reported *)
Definition wt_edges : list (list nat) := [[0;1];[0;2];[1;3];[1;4]].
Definition wt_g : graph := Eval vm_compute in wc_front wt_edges.

Example wt_input : component_input wt_g.
Proof.
  assert (E : wt_g = wc_front wt_edges) by (vm_compute; reflexivity). rewrite E.
  apply wc_front_input; [vm_compute; discriminate|vm_compute; lia].
Qed.

Definition wt_out : graph := Eval vm_compute in
  match layout_component wc_o wt_g with Ok (g, _) => g | Err _ => empty_graph end.

Example wt_layout : layout_component wc_o wt_g = Ok (wt_out, Some 0%Z).
Proof. vm_compute. reflexivity. Qed.

Example wt_no_crossings : forall g' x, layout_component wc_o wt_g = Ok (g', x) -> x = Some 0%Z.
Proof.
  intros g' x H.
  destruct (W2_crossings wc_o wt_g g' x wt_input wc_options_ok (ns_premise_longest_path wc_o _ eq_refl) H)
    as (g1 & g2 & g3 & g3' & cx & g4 & P1 & P2 & P3 & _ & _ & X & _ & _ & _ & _ & _ & _ & _ & _ & _ & _ & FO & _).
  rewrite X. f_equal. apply FO. left. apply TreeProofs.forest_b_sound.
  vm_compute in P1. injection P1 as <-. vm_compute in P2. injection P2 as <-. vm_compute in P3. injection P3 as <-.
  vm_compute. reflexivity.
Qed.
Print Assumptions wc_crossings.
Print Assumptions wt_no_crossings.

(* (c) a balanced out-tree 0 -> 1, 0 -> 2, 1 -> 3, 2 -> 4: every edge spans one layer, [W2_tree] applies *)
Definition wt2_edges : list (list nat) := [[0;1];[0;2];[1;3];[2;4]].
Definition wt2_g : graph := Eval vm_compute in wc_front wt2_edges.
Definition wt2_g1 : graph := Eval vm_compute in
  match phase1 (o_p1 wc_o) (fst (ignore_self_loops wt2_g)) with Ok g => g | Err _ => empty_graph end.
Definition wt2_g2 : graph := Eval vm_compute in
  match phase2 (o_p2 wc_o) (Layout.ns_params wc_o) wt2_g1 with Ok g => g | Err _ => empty_graph end.

Example wt2_input : component_input wt2_g.
Proof.
  assert (E : wt2_g = wc_front wt2_edges) by (vm_compute; reflexivity). rewrite E.
  apply wc_front_input; [vm_compute; discriminate|vm_compute; lia].
Qed.

Example wt2_tree : TreeProofs.rooted_out_tree wt2_g2 0.
Proof.
  constructor.
  - vm_compute. auto.
  - reflexivity.
  - vm_compute. repeat constructor; cbn; intuition congruence.
  - intros e H. vm_compute in H. list_cases H; reflexivity.
  - intros n Hn Hne. vm_compute in Hn. list_cases Hn; try congruence;
      (match goal with |- exists e, _ /\ e_to (gedge _ e) = ?m /\ _ => exists (pred m) end;
       split; [vm_compute; tauto|split; [reflexivity|]];
       intros e' He' Ht; vm_compute in He'; list_cases He'; vm_compute in Ht |- *; congruence).
  - intros e H. vm_compute in H. list_cases H; vm_compute; discriminate.
Qed.

Example wt2_no_crossings : forall g' x, layout_component wc_o wt2_g = Ok (g', x) -> x = Some 0%Z.
Proof.
  intros g' x H.
  apply (W2_tree wc_o wt2_g g' x wt2_input wc_options_ok (ns_premise_longest_path wc_o _ eq_refl) H wt2_g1 wt2_g2 0);
    [vm_compute; reflexivity|vm_compute; reflexivity|left; exact wt2_tree].
Qed.
Print Assumptions wt2_no_crossings.
