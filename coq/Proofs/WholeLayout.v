(* WholeLayout.v — W4: the whole [layout] (Model/Pipeline.v).

   - [front_component]: what the front end guarantees about EVERY component, single nodes included;
   - [single_facts]: a component with one node (all its edges are self loops) runs through the short-circuit branches of
     every phase: the node keeps x = 0, y = 0 and its size, the self loops come back unrouted, no crossing number is
     reported; [single_E1], [single_comp_ok];
   - [W4a_layout_output]: the output nodes are exactly the distinct input identifiers, each once, with the configured
     size; the output edges, read as pairs of identifiers, are a permutation of the input pairs;
   - [W4b_layout_separated]: nodes of different components are at least NodeSpacing apart horizontally, all x >= 0. *)
From Autog Require Import Base Graph Populate Phase1 Phase2 Phase3 Phase4 Phase5 Layout Wmedian Pipeline Check.
From Autog.Proofs Require Import ListLemmas Consistent PopulateProofs SizesProofs ComponentsProofs SelfLoopProofs Summary.
From Autog.Proofs Require CBBase CBGreedy CBGreedyRanks CBDepthFirst CBHasCycles CycleBreaking LongestPath
                          OptNormalize OptVbalance OptPipeline CollectProofs.
From Autog.Proofs Require CrossCountProofs WmedianProofs TreeProofs.
From Autog.Proofs Require Import Positioners Routes BreakMerge SinkColoringProofs Shift E2EBridge E2EBackbone E2EOutput E2EFrontend.
From Autog.Proofs Require Import WholeBridge WholeCrossings WholeOverlap.
From Coq Require Import Permutation Lia Lqa.
Local Open Scope nat_scope.

(* ====================================================================================================== *)
(** * 1. What the front end guarantees about every component                                               *)
(* ====================================================================================================== *)

Record front_component (c : graph) : Prop := {
  fc_cons : Consistent.consistent c;
  fc_node : forall n, n_virt (gnode c n) = false /\ n_layer (gnode c n) = 0%Z /\
                      n_x (gnode c n) = 0%Q /\ n_y (gnode c n) = 0%Q;
  fc_L : g_L c = [];
  fc_edges : forall e, In e (g_E c) ->
     e_rev (gedge c e) = false /\ e_pts (gedge c e) = [] /\ e_delta (gedge c e) = 1%Z;
  fc_nonempty : g_N c <> [] }.

Section Front.
  Variable A : Type.
  Variable eqA : A -> A -> bool.
  Hypothesis OK : forall x y, eqA x y = true <-> x = y.
  Variables (es : list (list A)) (ids : list A) (g : graph) (fixed : option (Q * Q)) (sizes : option (list (A * (Q * Q)))).
  Hypothesis POP : populate A eqA es = Ok (ids, g).

  Let g1 := apply_sizes A eqA fixed sizes ids g.

  Lemma front_g1 :
    Consistent.consistent g1 /\ g_ea g1 = g_ea g /\ g_N g1 = iota 0 (length ids) /\ g_E g1 = iota 0 (length es) /\
    length (g_na g1) = length ids /\
    (forall n, n_virt (gnode g1 n) = false /\ n_layer (gnode g1 n) = 0%Z /\ n_x (gnode g1 n) = 0%Q /\ n_y (gnode g1 n) = 0%Q) /\
    (forall i x, nth_error ids i = Some x ->
       (n_w (gnode g1 i), n_h (gnode g1 i)) = size_of A eqA fixed sizes x (0, 0)%Q).
  Proof.
    pose proof (populate_wf eqA OK es POP) as P.
    destruct (frontend_consistent A eqA OK es ids g fixed sizes POP) as [C1 _]. cbv zeta in C1. fold g1 in C1.
    destruct (apply_sizes_spec A eqA fixed sizes ids g (p_na_len P)) as (S1 & S2 & S3 & S4 & S5 & S6). cbv zeta in *.
    fold g1 in S1, S2, S3, S4, S5, S6.
    split; [exact C1|]. split; [exact S1|]. split; [rewrite S2; apply (p_N P)|]. split; [rewrite S3; apply (p_E P)|].
    split; [rewrite S5; apply (p_na_len P)|]. split.
    - intros n. destruct (nth_error ids n) as [x|] eqn:En.
      + destruct (S6 n x En) as (_ & _ & _ & -> & _ & -> & -> & ->).
        assert (Hlt : n < length ids) by (apply nth_error_Some; congruence).
        destruct (p_node_rest P Hlt) as (L & _ & V & X & Y & _). auto.
      + apply nth_error_None in En. unfold gnode. rewrite nth_overflow; [repeat split; reflexivity|].
        rewrite S5, (p_na_len P). exact En.
    - intros i x Hi. destruct (S6 i x Hi) as (SZ & _). rewrite SZ.
      assert (Hlt : i < length ids) by (apply nth_error_Some; congruence).
      destruct (p_node_rest P Hlt) as (_ & _ & _ & _ & _ & -> & ->). reflexivity.
  Qed.

  Lemma front_components : forall c, In c (components g1) ->
    front_component c /\ g_na c = g_na g1 /\ g_ea c = g_ea g.
  Proof.
    intros c Hc. pose proof (populate_wf eqA OK es POP) as P.
    destruct front_g1 as (C1 & EA1 & N1 & E1 & NA1 & ND1 & _).
    destruct (components_partition g1 C1) as (P1 & _ & P3 & _ & _ & _ & _ & _ & _ & _ & P11 & P12 & _). cbv zeta in *.
    destruct (P1 c Hc) as (NA & EA & LL).
    split; [|split; [exact NA|rewrite EA; exact EA1]].
    constructor.
    - apply (P12 c Hc).
    - intros n. unfold gnode. rewrite NA. apply (ND1 n).
    - rewrite LL. unfold g1. destruct (apply_sizes_spec A eqA fixed sizes ids g (p_na_len P)) as (_ & _ & _ & -> & _).
      apply (p_L P).
    - intros e He. rewrite (P3 c Hc) in He. apply filter_In in He. destruct He as [He _].
      rewrite E1 in He. apply ListLemmas.in_iota in He.
      unfold gedge. rewrite EA, EA1. fold (gedge g e).
      destruct (nth_error es e) as [p|] eqn:Ee; [|apply nth_error_None in Ee; lia].
      destruct (p_arity P p (nth_error_In _ _ Ee)) as (s & t & ->).
      destruct (p_edge P e Ee) as (_ & _ & R & D & _ & PT & _). auto.
    - apply (P11 c Hc).
  Qed.
End Front.

(* ====================================================================================================== *)
(** * 2. A component with a single node                                                                    *)
(* ====================================================================================================== *)

Lemma single_pipeline : forall o c c' x,
  length (g_N c) = 1 -> layout_component o c = Ok (c', x) ->
  exists g2 n, init_layer_slices (fst (ignore_self_loops c)) = Ok g2 /\ g_N c = [n] /\ x = None /\
    c' = post_process (upd_layer g2 0 (set_layer_wh (nW g2 n) (nH g2 n))) (snd (ignore_self_loops c)).
Proof.
  intros o c c' x L1 H. unfold layout_component in H.
  destruct (ignore_self_loops c) as [g0 del] eqn:E0.
  assert (Eg0 : g0 = fst (ignore_self_loops c)) by (rewrite E0; reflexivity).
  assert (N0 : g_N g0 = g_N c) by (rewrite Eg0; apply ignore_self_loops_N).
  cbn [fst snd].
  unfold phase1 in H. rewrite N0, L1 in H. cbn [Nat.eqb bind] in H.
  unfold phase2, assign_layers in H. rewrite N0, L1 in H. cbn [Nat.eqb bind] in H.
  destruct (init_layer_slices g0) as [g2|] eqn:SL; cbn [bind] in H; [|discriminate].
  destruct (slices_facts g0 g2 SL) as (_ & _ & N2 & _).
  unfold phase3_wmedian in H. rewrite N2, N0, L1 in H. cbn [Nat.eqb bind] in H.
  unfold phase4 in H. rewrite N2, N0, L1 in H. cbn [Nat.eqb] in H.
  destruct (g_N c) as [|n [|m t]] eqn:EN; cbn in L1; try discriminate.
  cbn [bind] in H. unfold phase5 in H. cbn [upd_layer with_L g_N] in H. rewrite N2, N0 in H. cbn [length Nat.eqb] in H.
  injection H as <- <-. exists g2, n. repeat split; reflexivity.
Qed.

Lemma flat_map_upd0 : forall (L : list layer) w h,
  flat_map l_nodes (upd L 0 (set_layer_wh w h)) = flat_map l_nodes L.
Proof. intros [|l t] w h; reflexivity. Qed.

Theorem single_facts : forall o c c' x,
  front_component c -> length (g_N c) = 1 -> layout_component o c = Ok (c', x) ->
  x = None /\ g_N c' = g_N c /\
  g_E c' = filter (fun e => negb (self_loop c e)) (g_E c) ++ filter (self_loop c) (g_E c) /\
  (forall n, n_virt (gnode c' n) = n_virt (gnode c n) /\ n_layer (gnode c' n) = n_layer (gnode c n) /\
             n_x (gnode c' n) = n_x (gnode c n) /\ n_y (gnode c' n) = n_y (gnode c n) /\
             n_w (gnode c' n) = n_w (gnode c n) /\ n_h (gnode c' n) = n_h (gnode c n)) /\
  (forall e, In e (g_E c) -> gedge c' e = gedge c e) /\
  flat_map l_nodes (g_L c') = g_N c.
Proof.
  intros o c c' x FC L1 H.
  destruct (single_pipeline o c c' x L1 H) as (g2 & n0 & SL & EN & -> & ->).
  pose proof (fc_cons _ FC) as C.
  destruct (ignore_self_loops_spec c C) as (A1 & A2 & A3 & A4 & A5 & A6 & _ & A8 & A9 & _). cbv zeta in *.
  set (g0 := fst (ignore_self_loops c)) in *. set (del := snd (ignore_self_loops c)) in *.
  destruct (slices_facts g0 g2 SL) as (B1 & B2 & B3 & B4 & _ & _ & _ & B8).
  set (g4 := upd_layer g2 0 (set_layer_wh (nW g2 n0) (nH g2 n0))).
  assert (NA4 : g_na g4 = g_na g2) by reflexivity. assert (EA4 : g_ea g4 = g_ea g2) by reflexivity.
  assert (N4 : g_N g4 = g_N g2) by reflexivity. assert (E4 : g_E g4 = g_E g2) by reflexivity.
  assert (GE4 : forall e, gedge g4 e = gedge c e).
  { intros e. unfold gedge. rewrite EA4, B2, A1. reflexivity. }
  assert (GN4 : forall n, gnode g4 n = gnode g0 n).
  { intros n. unfold gnode. rewrite NA4, B1. reflexivity. }
  assert (RNG : forall e, In e del -> e_from (gedge g4 e) < length (g_na g4) /\ e_to (gedge g4 e) < length (g_na g4)).
  { intros e He. rewrite A5 in He. apply filter_In in He. destruct He as [He _]. rewrite (GE4 e), NA4, B1, A4.
    split; apply (c_N_lt _ C); [apply (c_from _ C e He)|apply (c_to _ C e He)]. }
  destruct (post_process_facts g4 del RNG) as (Q1 & Q2 & Q3 & Q4 & Q5 & Q6 & Q7 & Q8 & Q9). cbv zeta in *.
  split; [reflexivity|]. split; [rewrite Q1, N4, B3; exact A2|]. split; [rewrite Q2, E4, B4, A6, A5; reflexivity|].
  split; [|split].
  - intros n. destruct (Q9 n) as (-> & _ & -> & -> & -> & -> & ->). rewrite (GN4 n).
    destruct (A8 n) as (-> & _ & -> & -> & -> & -> & ->). repeat split; reflexivity.
  - intros e He. rewrite Q7; [apply GE4|]. right. rewrite (GE4 e). apply (fc_edges _ FC e He).
  - rewrite Q3. unfold g4. cbn [upd_layer with_L g_L]. rewrite flat_map_upd0.
    rewrite A2, EN in B8. apply Permutation_sym, Permutation_length_1_inv in B8. rewrite B8, EN. reflexivity.
Qed.
Print Assumptions single_facts.

(* E1 for a single-node component *)
Theorem single_E1 : forall o c c' x,
  front_component c -> length (g_N c) = 1 -> layout_component o c = Ok (c', x) -> E1_statement c c'.
Proof.
  intros o c c' x FC L1 H. destruct (single_facts o c c' x FC L1 H) as (_ & N & E & ND & ED & _).
  split; [exact E|]. split; [|split; [|split]].
  - intros e He. rewrite (ED e He). destruct (fc_edges _ FC e He) as (R & _). auto.
  - intros e He _. rewrite (ED e He). apply (fc_edges _ FC e He).
  - exists []. split; [rewrite app_nil_r; exact N|intros v []].
  - intros n _. destruct (ND n) as (-> & _ & _ & _ & -> & ->). split; [apply (fc_node _ FC n)|split; reflexivity].
Qed.

Theorem single_comp_ok : forall o c c' x,
  front_component c -> length (g_N c) = 1 -> layout_component o c = Ok (c', x) -> Shift.comp_ok c'.
Proof.
  intros o c c' x FC L1 H. destruct (single_facts o c c' x FC L1 H) as (_ & N & _ & ND & _ & FL).
  destruct (g_N c) as [|n0 [|m t]] eqn:EN; cbn in L1; try discriminate.
  constructor.
  - intros n Hn. unfold in_layers in Hn. rewrite FL in Hn. unfold nX. destruct (ND n) as (_ & _ & -> & _).
    destruct (fc_node _ FC n) as (_ & _ & -> & _). apply Qle_refl.
  - intros l a b Hl Ha Hb.
    assert (Ia : In a (flat_map l_nodes (g_L c'))) by (apply in_flat_map; exists l; split; assumption).
    assert (Ib : In b (flat_map l_nodes (g_L c'))).
    { apply in_flat_map. exists l. split; [exact Hl|]. destruct (l_nodes l) as [|a0 t0]; [destruct Ha|].
      rewrite last_opt_nth_error in Hb. eapply nth_error_In. exact Hb. }
    rewrite FL in Ia, Ib. destruct Ia as [<-|[]]. destruct Ib as [<-|[]]. apply Qle_refl.
  - intros n Hn. unfold in_layers. rewrite FL, <- N. exact Hn.
Qed.

(* the node ends up at x = 0, y = 0 with its size; its self loops are unrouted; nothing is reported *)
Corollary single_node_output : forall o c c' x shift,
  front_component c -> length (g_N c) = 1 -> layout_component o c = Ok (c', x) ->
  x = None /\
  collect_nodes false shift c' =
    map (fun n => mkONode n (0 + shift)%Q 0%Q (n_w (gnode c n)) (n_h (gnode c n))) (g_N c) /\
  (forall oe, In oe (collect_edges shift c') -> oe_from oe = oe_to oe /\ oe_pts oe = []).
Proof.
  intros o c c' x shift FC L1 H. destruct (single_facts o c c' x FC L1 H) as (X & N & E & ND & ED & _).
  split; [exact X|]. split.
  - rewrite CollectProofs.collect_nodes_map_filter, N, filter_true.
    + apply map_ext. intros n. destruct (ND n) as (_ & _ & -> & -> & -> & ->).
      destruct (fc_node _ FC n) as (_ & _ & -> & ->). reflexivity.
    + intros n _. destruct (ND n) as (-> & _). destruct (fc_node _ FC n) as (-> & _). reflexivity.
  - intros oe Hoe. rewrite collect_edges_eq in Hoe. apply in_map_iff in Hoe. destruct Hoe as (e & <- & He).
    cbn [oe_from oe_to oe_pts]. rewrite E in He.
    assert (HeE : In e (g_E c)) by (apply in_app_or in He; destruct He as [He|He]; apply filter_In in He; apply He).
    rewrite (ED e HeE). destruct (fc_edges _ FC e HeE) as (_ & -> & _). split; [|reflexivity].
    pose proof (fc_cons _ FC) as C. pose proof (c_from _ C e HeE) as F. pose proof (c_to _ C e HeE) as T.
    destruct (g_N c) as [|n0 [|m t]]; cbn in L1; try discriminate.
    destruct F as [<-|[]]. destruct T as [<-|[]]. reflexivity.
Qed.

(* ====================================================================================================== *)
(** * 3. The collected output of one component, read off E1                                                *)
(* ====================================================================================================== *)

Lemma collected_of_E1 : forall c c' shift, E1_statement c c' ->
  map (fun on => (on_id on, on_w on, on_h on)) (collect_nodes false shift c') =
    map (fun n => (n, n_w (gnode c n), n_h (gnode c n))) (g_N c) /\
  map (fun oe => (oe_from oe, oe_to oe)) (collect_edges shift c') =
    map (fun e => (e_from (gedge c e), e_to (gedge c e)))
        (filter (fun e => negb (self_loop c e)) (g_E c) ++ filter (self_loop c) (g_E c)).
Proof.
  intros g g' shift (A1 & A2 & _ & (vs & A4 & A5) & A6).
  split.
  - rewrite CollectProofs.collect_nodes_map_filter, map_map. cbn [on_id on_w on_h]. rewrite A4, filter_app.
    rewrite (filter_false _ _ vs); [|intros v Hv; destruct (A5 v Hv) as [_ ->]; reflexivity].
    rewrite app_nil_r, filter_true; [|intros n Hn; destruct (A6 n Hn) as [-> _]; reflexivity].
    apply map_ext_in. intros n Hn. destruct (A6 n Hn) as (_ & -> & ->). reflexivity.
  - rewrite collect_edges_eq, map_map. cbn [oe_from oe_to]. rewrite A1. apply map_ext_in. intros e He.
    assert (HeE : In e (g_E g)).
    { apply in_app_or in He. destruct He as [He|He]; apply filter_In in He; apply He. }
    destruct (A2 e HeE) as (-> & -> & _). reflexivity.
Qed.

Definition nl_sl (c : graph) : list nat :=
  filter (fun e => negb (self_loop c e)) (g_E c) ++ filter (self_loop c) (g_E c).

Lemma layout_components_collected : forall o cs shift ns oes xs,
  o_virtual o = false ->
  (forall c c' x, In c cs -> layout_component o c = Ok (c', x) -> E1_statement c c') ->
  layout_components o cs shift = Ok (ns, oes, xs) ->
  map (fun on => (on_id on, on_w on, on_h on)) ns =
    flat_map (fun c => map (fun n => (n, n_w (gnode c n), n_h (gnode c n))) (g_N c)) cs /\
  map (fun oe => (oe_from oe, oe_to oe)) oes =
    flat_map (fun c => map (fun e => (e_from (gedge c e), e_to (gedge c e))) (nl_sl c)) cs.
Proof.
  intros o cs; induction cs as [|c rest IH]; intros shift ns oes xs OV P H.
  - cbn in H. injection H as <- <- <-. split; reflexivity.
  - cbn [layout_components] in H.
    destruct (layout_component o c) as [[c' x]|e] eqn:Ec; cbn [bind] in H; [|discriminate].
    destruct (layout_components o rest (shift + rightmost c' + o_node_spacing o)%Q) as [[[ns' es'] xs']|e] eqn:Er;
      cbn [bind] in H; [|discriminate].
    injection H as <- <- <-.
    destruct (IH _ _ _ _ OV (fun c0 c0' x0 Hc => P c0 c0' x0 (or_intror Hc)) Er) as [I1 I2].
    destruct (collected_of_E1 c c' shift (P c c' x (or_introl eq_refl) Ec)) as [C1 C2].
    rewrite OV. cbn [flat_map]. rewrite !map_app, I1, I2, C1, C2. split; reflexivity.
Qed.

(* ====================================================================================================== *)
(** * 4. W4 (a)                                                                                            *)
(* ====================================================================================================== *)

Lemma flat_map_perm_pointwise : forall (X Y : Type) (F G : X -> list Y) l,
  (forall a, In a l -> Permutation (F a) (G a)) -> Permutation (flat_map F l) (flat_map G l).
Proof.
  intros X Y F G l; induction l as [|a l IH]; intros H; [apply Permutation_refl|].
  cbn [flat_map]. apply Permutation_app; [apply H; left; reflexivity|apply IH; intros b Hb; apply H; right; exact Hb].
Qed.

Lemma flat_map_ext_in : forall (X Y : Type) (F G : X -> list Y) l,
  (forall a, In a l -> F a = G a) -> flat_map F l = flat_map G l.
Proof.
  intros X Y F G l; induction l as [|a l IH]; intros H; [reflexivity|].
  cbn [flat_map]. rewrite (H a (or_introl eq_refl)), IH; [reflexivity|]. intros b Hb. apply H. right. exact Hb.
Qed.

Lemma flat_map_map_outer : forall (X Y Z : Type) (h : Y -> Z) (F : X -> list Y) l,
  flat_map (fun a => map h (F a)) l = map h (flat_map F l).
Proof.
  intros X Y Z h F l; induction l as [|a l IH]; [reflexivity|]. cbn [flat_map]. rewrite map_app, IH. reflexivity.
Qed.

Lemma map_iota_nth_error : forall (X : Type) (f : nat -> X) (l : list X) s,
  (forall i p, nth_error l i = Some p -> f (s + i) = p) -> map f (iota s (length l)) = l.
Proof.
  intros X f l; induction l as [|a l IH]; intros s H; [reflexivity|].
  cbn [length iota map]. f_equal.
  - rewrite <- (H 0 a eq_refl). f_equal. lia.
  - apply IH. intros i p Hi. rewrite <- (H (S i) p Hi). f_equal. lia.
Qed.

(* an output edge read as a pair of identifiers *)
Definition id_pair (A : Type) (ids : list A) (oe : oedge) : list A :=
  match nth_error ids (oe_from oe), nth_error ids (oe_to oe) with
  | Some s, Some t => [s; t]
  | _, _ => []
  end.

(* the premise about network simplex, for every component with at least two nodes *)
Definition ns_premise_layout (A : Type) (eqA : A -> A -> bool) (o : options) (fixed : option (Q * Q))
           (sizes : option (list (A * (Q * Q)))) (es : list (list A)) : Prop :=
  forall ids g c, populate A eqA es = Ok (ids, g) -> In c (components (apply_sizes A eqA fixed sizes ids g)) ->
    2 <= length (g_N c) -> ns_premise o c.

Lemma ns_premise_layout_lp : forall A eqA o fixed sizes es, o_p2 o = LongestPath -> ns_premise_layout A eqA o fixed sizes es.
Proof. intros A eqA o fixed sizes es E ids g c _ _ _. apply ns_premise_longest_path, E. Qed.

Section W4.
  Variable A : Type.
  Variable eqA : A -> A -> bool.
  Hypothesis OK : forall x y, eqA x y = true <-> x = y.
  Variables (o : options) (fixed : option (Q * Q)) (sizes : option (list (A * (Q * Q)))) (es : list (list A)).
  Variables (ids : list A) (ns : list onode) (oes : list oedge) (xs : list Z).
  Hypothesis OO : options_ok o.
  Hypothesis NS : ns_premise_layout A eqA o fixed sizes es.
  Hypothesis LAY : layout A eqA o fixed sizes es = Ok (ids, (ns, oes, xs)).

  Lemma layout_inv : exists g,
    populate A eqA es = Ok (ids, g) /\ ids <> [] /\
    layout_components o (components (apply_sizes A eqA fixed sizes ids g)) 0 = Ok (ns, oes, xs).
  Proof.
    unfold layout in LAY. destruct (populate A eqA es) as [[ids0 g]|] eqn:POP; cbn [bind] in LAY; [|discriminate].
    destruct ids0 as [|i0 t0]; [discriminate|].
    destruct (layout_components o (components (apply_sizes A eqA fixed sizes (i0 :: t0) g)) 0) as [r|] eqn:LC;
      cbn [bind] in LAY; [|discriminate].
    injection LAY as <- ->. exists g. split; [reflexivity|]. split; [discriminate|exact LC].
  Qed.

  (* every component the layout processes satisfies E1 *)
  Lemma layout_components_E1 : forall g, populate A eqA es = Ok (ids, g) ->
    forall c c' x, In c (components (apply_sizes A eqA fixed sizes ids g)) -> layout_component o c = Ok (c', x) ->
      E1_statement c c'.
  Proof.
    intros g POP c c' x Hc LC.
    destruct (front_components A eqA OK es ids g fixed sizes POP c Hc) as (FC & _).
    destruct (Nat.le_gt_cases 2 (length (g_N c))) as [TWO|ONE].
    - apply (F1_output_graph o c c' x); [|exact OO|apply (NS ids g c POP Hc TWO)|exact LC].
      apply (frontend_component_input A eqA OK es ids g fixed sizes POP c Hc TWO).
    - apply (single_E1 o c c' x FC); [|exact LC].
      pose proof (fc_nonempty _ FC). destruct (g_N c) as [|n [|m t]]; cbn in *; [congruence|reflexivity|lia].
  Qed.

  Theorem W4a_layout_output : o_virtual o = false ->
    (* the identifiers: the distinct identifiers of the input, each once *)
    NoDup ids /\ (forall x, In x ids <-> exists p, In p es /\ In x p) /\
    (* the output nodes: every identifier (arena index) exactly once ... *)
    Permutation (map on_id ns) (iota 0 (length ids)) /\
    (* ... with its configured size *)
    (forall a, In a ns -> exists x, nth_error ids (on_id a) = Some x /\
                                    (on_w a, on_h a) = size_of A eqA fixed sizes x (0, 0)%Q) /\
    (* the output edges, as pairs of identifiers, are the input pairs: same multiset, same directions *)
    Permutation (map (id_pair A ids) oes) es.
  Proof.
    intros OV. destruct layout_inv as (g & POP & _ & LC).
    pose proof (populate_wf eqA OK es POP) as P.
    destruct (front_g1 A eqA OK es ids g fixed sizes POP) as (C1 & EA1 & N1 & E1 & NA1 & _ & SZ1).
    set (g1 := apply_sizes A eqA fixed sizes ids g) in *.
    destruct (components_partition g1 C1) as (P1 & _ & _ & _ & _ & P6 & P7 & _). cbv zeta in *.
    destruct (layout_components_collected o (components g1) 0 ns oes xs OV (layout_components_E1 g POP) LC) as [CN CE].
    assert (GN : forall c, In c (components g1) -> forall n, gnode c n = gnode g1 n).
    { intros c Hc n. unfold gnode. destruct (P1 c Hc) as (-> & _). reflexivity. }
    assert (GE : forall c, In c (components g1) -> forall e, gedge c e = gedge g e).
    { intros c Hc e. unfold gedge. destruct (P1 c Hc) as (_ & -> & _). rewrite EA1. reflexivity. }
    (* nodes *)
    assert (CN' : map (fun on => (on_id on, on_w on, on_h on)) ns =
                  map (fun n => (n, n_w (gnode g1 n), n_h (gnode g1 n))) (flat_map g_N (components g1))).
    { rewrite CN, <- flat_map_map_outer. apply flat_map_ext_in. intros c Hc. apply map_ext. intros n.
      rewrite (GN c Hc n). reflexivity. }
    assert (PN : Permutation (flat_map g_N (components g1)) (iota 0 (length ids))).
    { rewrite flat_map_concat_map, <- N1. exact P6. }
    split; [apply (p_nodup P)|]. split.
    { intros x. split; [apply (p_ids_sound P)|]. intros (p & Hp & Hx). apply (p_ids_complete P p x Hp Hx). }
    split.
    { replace (map on_id ns) with (map (fun t : nat * Q * Q => fst (fst t)) (map (fun on => (on_id on, on_w on, on_h on)) ns))
        by (rewrite map_map; reflexivity).
      rewrite CN', map_map. cbn [fst]. rewrite map_id. exact PN. }
    split.
    { intros a Ha.
      assert (Hin : In (on_id a, on_w a, on_h a) (map (fun on => (on_id on, on_w on, on_h on)) ns))
        by (apply (in_map (fun on => (on_id on, on_w on, on_h on))), Ha).
      rewrite CN' in Hin. apply in_map_iff in Hin. destruct Hin as (n & En & Hn). injection En as E1' E2' E3'.
      apply (Permutation_in _ PN) in Hn. apply ListLemmas.in_iota in Hn.
      destruct (nth_error ids n) as [x|] eqn:Ex; [|apply nth_error_None in Ex; lia].
      exists x. rewrite <- E1', <- E2', <- E3'. split; [exact Ex|apply (SZ1 n x Ex)]. }
    (* edges *)
    assert (CE' : map (fun oe => (oe_from oe, oe_to oe)) oes =
                  map (fun e => (e_from (gedge g e), e_to (gedge g e))) (flat_map nl_sl (components g1))).
    { rewrite CE, <- flat_map_map_outer. apply flat_map_ext_in. intros c Hc. apply map_ext. intros e.
      rewrite (GE c Hc e). reflexivity. }
    assert (PE : Permutation (flat_map nl_sl (components g1)) (iota 0 (length es))).
    { eapply Permutation_trans; [|rewrite <- E1; rewrite <- flat_map_concat_map in P7; exact P7].
      apply flat_map_perm_pointwise. intros c _. unfold nl_sl.
      eapply Permutation_trans; [apply Permutation_app_comm|]. apply filter_partition_perm. }
    set (pr := fun t : nat * nat => match nth_error ids (fst t), nth_error ids (snd t) with
                                    | Some s, Some t' => [s; t'] | _, _ => [] end).
    replace (map (id_pair A ids) oes) with (map pr (map (fun oe => (oe_from oe, oe_to oe)) oes))
      by (rewrite map_map; reflexivity).
    rewrite CE', map_map.
    eapply Permutation_trans; [apply Permutation_map, PE|].
    rewrite (map_iota_nth_error _ _ es 0); [apply Permutation_refl|].
    intros i p Hi. cbn [Nat.add]. destruct (p_arity P p (nth_error_In _ _ Hi)) as (s & t & ->).
    destruct (p_edge P i Hi) as (F & T & _). unfold pr. cbn [fst snd]. rewrite F, T. reflexivity.
  Qed.
End W4.
Print Assumptions W4a_layout_output.

(* ====================================================================================================== *)
(** * 5. W4 (b): the components side by side                                                               *)
(* ====================================================================================================== *)

Lemma Forall2_nth_rel : forall (X Y : Type) (R : X -> Y -> Prop) l l' k dx dy,
  Forall2 R l l' -> k < length l -> R (nth k l dx) (nth k l' dy).
Proof.
  intros X Y R l l' k dx dy H; revert k; induction H as [|a b l l' Hab H IH]; intros k Hk; cbn [length] in Hk; [lia|].
  destruct k as [|k]; [exact Hab|]. cbn [nth]. apply IH. lia.
Qed.

Lemma Forall2_length' : forall (X Y : Type) (R : X -> Y -> Prop) l l', Forall2 R l l' -> length l = length l'.
Proof. intros X Y R l l' H; induction H; cbn [length]; [reflexivity|f_equal; assumption]. Qed.

(* the configured sizes are not negative *)
Definition sizes_cfg_nonneg (A : Type) (eqA : A -> A -> bool) (fixed : option (Q * Q))
           (sizes : option (list (A * (Q * Q)))) (ids : list A) : Prop :=
  forall x, In x ids -> (0 <= fst (size_of A eqA fixed sizes x (0, 0)%Q))%Q /\
                        (0 <= snd (size_of A eqA fixed sizes x (0, 0)%Q))%Q.

(* a sufficient condition in terms of the options *)
Lemma sizes_cfg_nonneg_intro : forall (A : Type) (eqA : A -> A -> bool) fixed sizes ids,
  (forall w h, fixed = Some (w, h) -> (0 <= w)%Q /\ (0 <= h)%Q) ->
  (forall m y w h, sizes = Some m -> In (y, (w, h)) m -> (0 <= w)%Q /\ (0 <= h)%Q) ->
  sizes_cfg_nonneg A eqA fixed sizes ids.
Proof.
  intros A eqA fixed sizes ids HF HS x _. unfold size_of, listed_size.
  destruct sizes as [m|].
  - destruct (lookup_size A eqA x m) as [[w h]|] eqn:EL.
    + apply lookup_size_first in EL. destruct EL as (m1 & y & m2 & -> & _).
      apply (HS _ y w h eq_refl). apply in_or_app. right. left. reflexivity.
    + destruct fixed as [[w h]|]; [apply (HF w h eq_refl)|split; apply Qle_refl].
  - destruct fixed as [[w h]|]; [apply (HF w h eq_refl)|split; apply Qle_refl].
Qed.

Section W4b.
  Variable A : Type.
  Variable eqA : A -> A -> bool.
  Hypothesis OK : forall x y, eqA x y = true <-> x = y.
  Variables (o : options) (fixed : option (Q * Q)) (sizes : option (list (A * (Q * Q)))) (es : list (list A)).
  Variables (ids : list A) (ns : list onode) (oes : list oedge) (xs : list Z).
  Hypothesis OO : options_ok o.
  Hypothesis NS : ns_premise_layout A eqA o fixed sizes es.
  Hypothesis LAY : layout A eqA o fixed sizes es = Ok (ids, (ns, oes, xs)).
  Hypothesis SP : spacing_nonneg o.
  Hypothesis SZ : sizes_cfg_nonneg A eqA fixed sizes ids.

  (* every laid-out component satisfies [comp_ok] and E1 *)
  Lemma layout_component_ok : forall g, populate A eqA es = Ok (ids, g) ->
    forall c c' x, In c (components (apply_sizes A eqA fixed sizes ids g)) -> layout_component o c = Ok (c', x) ->
      Shift.comp_ok c' /\ E1_statement c c'.
  Proof.
    intros g POP c c' x Hc LC.
    split; [|apply (layout_components_E1 A eqA OK o fixed sizes es ids OO NS g POP c c' x Hc LC)].
    destruct (front_components A eqA OK es ids g fixed sizes POP c Hc) as (FC & NA & _).
    destruct (front_g1 A eqA OK es ids g fixed sizes POP) as (C1 & _ & N1 & _ & _ & _ & SZ1).
    destruct (Nat.le_gt_cases 2 (length (g_N c))) as [TWO|ONE].
    - assert (SN : sizes_nonneg c).
      { intros n Hn. destruct (components_partition _ C1) as (_ & P2 & _). cbv zeta in P2.
        rewrite (P2 c Hc) in Hn. apply filter_In in Hn. destruct Hn as [Hn _]. rewrite N1 in Hn.
        apply ListLemmas.in_iota in Hn.
        destruct (nth_error ids n) as [y|] eqn:Ey; [|apply nth_error_None in Ey; lia].
        pose proof (SZ1 n y Ey) as E. unfold gnode. rewrite NA. fold (gnode (apply_sizes A eqA fixed sizes ids g) n).
        destruct (SZ y (nth_error_In _ _ Ey)) as [W H]. rewrite <- E in W, H. exact (conj W H). }
      apply (W3_no_overlap o c c' x); [|exact OO|apply (NS ids g c POP Hc TWO)|exact SN|exact SP|exact LC].
      apply (frontend_component_input A eqA OK es ids g fixed sizes POP c Hc TWO).
    - apply (single_comp_ok o c c' x FC); [|exact LC].
      pose proof (fc_nonempty _ FC). destruct (g_N c) as [|n [|m t]]; cbn in *; [congruence|reflexivity|lia].
  Qed.

  Theorem W4b_layout_separated : o_virtual o = false ->
    (* all x are >= 0 *)
    (forall a, In a ns -> (0 <= on_x a)%Q) /\
    (* every output node belongs to exactly one component; nodes of an earlier component end at least NodeSpacing
       before the nodes of a later one *)
    forall g, populate A eqA es = Ok (ids, g) ->
      let cs := components (apply_sizes A eqA fixed sizes ids g) in
      (forall a, In a ns -> exists i, i < length cs /\ In (on_id a) (g_N (nth i cs graph0))) /\
      (forall i j a b, i < j -> j < length cs -> In a ns -> In b ns ->
         In (on_id a) (g_N (nth i cs graph0)) -> In (on_id b) (g_N (nth j cs graph0)) ->
         (on_x a + on_w a + o_node_spacing o <= on_x b)%Q).
  Proof.
    intros OV. destruct (layout_inv A eqA o fixed sizes es ids ns oes xs LAY) as (g & POP & _ & LC).
    destruct (layout_components_collect_all o _ 0 LC) as (gs & F2 & CA).
    set (cs := components (apply_sizes A eqA fixed sizes ids g)) in *.
    pose proof (Forall2_length' _ _ _ _ _ F2) as LEN.
    assert (NTH : forall k, k < length cs -> In (nth k cs graph0) cs /\
              exists x, layout_component o (nth k cs graph0) = Ok (nth k gs graph0, x)).
    { intros k Hk. split; [apply nth_In, Hk|]. apply (Forall2_nth_rel _ _ _ cs gs k graph0 graph0 F2 Hk). }
    assert (COK : forall g', In g' gs -> Shift.comp_ok g').
    { intros g' Hg'. destruct (In_nth _ _ graph0 Hg') as (k & Hk & <-). rewrite <- LEN in Hk.
      destruct (NTH k Hk) as (Hc & x & LCk). apply (layout_component_ok g POP _ _ x Hc LCk). }
    destruct (@Shift.collect_all_separated o gs ns oes CA (proj1 SP) COK) as (ENS & SEP & XNN).
    split; [exact XNN|].
    intros g_ POP_. assert (g_ = g) by congruence. subst g_. cbv zeta. fold cs.
    (* the component an output node comes from *)
    assert (FROM : forall a, In a ns -> exists k, k < length cs /\ In a (comp_nodes o gs 0 k) /\
              In (on_id a) (g_N (nth k cs graph0))).
    { intros a Ha. rewrite ENS in Ha. apply Shift.in_concat_map_seq in Ha. destruct Ha as (k & Hk & Ha).
      rewrite <- LEN in Hk. exists k. split; [exact Hk|]. split; [exact Ha|].
      destruct (NTH k Hk) as (Hc & x & LCk). destruct (layout_component_ok g POP _ _ x Hc LCk) as (_ & E1).
      destruct E1 as (_ & _ & _ & (vs & EN & VS) & _).
      unfold comp_nodes in Ha. rewrite OV in Ha. apply CollectProofs.collect_nodes_In in Ha.
      destruct Ha as (n & Hn & Kp & ->). cbn [CollectProofs.onode_of on_id].
      rewrite EN in Hn. apply in_app_or in Hn. destruct Hn as [Hn|Hn]; [exact Hn|].
      destruct (VS n Hn) as [_ V]. unfold CollectProofs.keep_node in Kp. rewrite V in Kp. discriminate. }
    (* the components are disjoint *)
    destruct (front_g1 A eqA OK es ids g fixed sizes POP) as (C1 & _ & N1 & _).
    destruct (components_partition _ C1) as (_ & _ & _ & _ & _ & P6 & _). cbv zeta in P6. fold cs in P6.
    assert (ND : NoDup (flat_map g_N cs)).
    { rewrite flat_map_concat_map. eapply Permutation_NoDup; [apply Permutation_sym, P6|]. apply (c_nodupN _ C1). }
    assert (UNIQ : forall n i k, i < length cs -> k < length cs ->
              In n (g_N (nth i cs graph0)) -> In n (g_N (nth k cs graph0)) -> i = k).
    { intros n i k Hi Hk Ni Nk. destruct (Nat.eq_dec i k) as [E|NE]; [exact E|exfalso].
      apply (flat_map_disjoint _ _ g_N cs i k (nth i cs graph0) (nth k cs graph0) n ND); auto;
        apply nth_error_nth'; assumption. }
    split.
    - intros a Ha. destruct (FROM a Ha) as (k & Hk & _ & Hn). exists k. split; assumption.
    - intros i j a b Hij Hj Ha Hb Ia Ib.
      destruct (FROM a Ha) as (ka & Hka & Ca & Na). destruct (FROM b Hb) as (kb & Hkb & Cb & Nb).
      assert (ka = i) by (apply (UNIQ (on_id a)); try assumption; lia). subst ka.
      assert (kb = j) by (apply (UNIQ (on_id b)); assumption). subst kb.
      apply (SEP i j a b); [rewrite <- LEN; lia|exact Ca|exact Cb].
  Qed.
End W4b.
Print Assumptions W4b_layout_separated.

(* ====================================================================================================== *)
(** * 6. Example: three components — a diamond with a long edge and a self loop, a single node with a      *)
(**      self loop and its own size, an antiparallel pair                                                  *)
(* ====================================================================================================== *)

Definition wl_edges : list (list nat) := [[10;20];[10;30];[20;40];[30;40];[10;40];[50;50];[60;70];[70;60];[40;40]].
Definition wl_sizes : option (list (nat * (Q * Q))) := Some [(50, (8, 4)%Q)].
Definition wl_ids : list nat := [10; 20; 30; 40; 50; 60; 70].

Definition wl_result := Eval vm_compute in
  match layout nat Nat.eqb wc_o (Some (10, 6)%Q) wl_sizes wl_edges with
  | Ok (_, r) => r
  | Err _ => ([], [], [])
  end.
Definition wl_ns : list onode := fst (fst wl_result).
Definition wl_oes : list oedge := snd (fst wl_result).
Definition wl_xs : list Z := snd wl_result.

Example wl_layout : layout nat Nat.eqb wc_o (Some (10, 6)%Q) wl_sizes wl_edges = Ok (wl_ids, (wl_ns, wl_oes, wl_xs)).
Proof. vm_compute. reflexivity. Qed.

(* what the model computes: (index, x, y, w) of every output node, the ends of every output edge, the crossing numbers
   (the single-node component reports none) *)
Example wl_eval :
  map on_id wl_ns = [0; 1; 2; 3; 4; 5; 6] /\
  map (fun a => (Qred (on_x a), Qred (on_y a), Qred (on_w a))) wl_ns =
    [(10, 0, 10); (0, 13, 10); (15, 13, 10); (10, 26, 10); (35, 0, 8); (48, 0, 10); (48, 13, 10)]%Q /\
  map (fun e => (oe_from e, oe_to e, oe_ahs e)) wl_oes =
    [(0, 1, false); (0, 2, false); (1, 3, false); (2, 3, false); (0, 3, false); (3, 3, false); (4, 4, false);
     (5, 6, false); (6, 5, true)] /\
  wl_xs = [0; 0]%Z.
Proof. vm_compute. repeat split; reflexivity. Qed.

Example wl_ns_premise : ns_premise_layout nat Nat.eqb wc_o (Some (10, 6)%Q) wl_sizes wl_edges.
Proof. apply ns_premise_layout_lp. reflexivity. Qed.

Example wl_sizes_nonneg : sizes_cfg_nonneg nat Nat.eqb (Some (10, 6)%Q) wl_sizes wl_ids.
Proof.
  apply sizes_cfg_nonneg_intro.
  - intros w h E. injection E as <- <-. split; discriminate.
  - intros m y w h E H. injection E as <-. destruct H as [H|[]]. injection H as _ <- <-. split; discriminate.
Qed.

Example wl_W4a :
  Permutation (map on_id wl_ns) (iota 0 7) /\ Permutation (map (id_pair nat wl_ids) wl_oes) wl_edges.
Proof.
  destruct (W4a_layout_output nat Nat.eqb Nat.eqb_eq wc_o (Some (10, 6)%Q) wl_sizes wl_edges wl_ids wl_ns wl_oes wl_xs
              wc_options_ok wl_ns_premise wl_layout eq_refl) as (_ & _ & A & _ & B).
  split; assumption.
Qed.

Example wl_W4b : forall a, In a wl_ns -> (0 <= on_x a)%Q.
Proof.
  apply (W4b_layout_separated nat Nat.eqb Nat.eqb_eq wc_o (Some (10, 6)%Q) wl_sizes wl_edges wl_ids wl_ns wl_oes wl_xs
           wc_options_ok wl_ns_premise wl_layout wc_spacing wl_sizes_nonneg eq_refl).
Qed.
Print Assumptions wl_W4a.
Print Assumptions wl_W4b.

(* ====================================================================================================== *)
(** * 7. The reported crossing numbers of the whole layout                                                 *)
(* ====================================================================================================== *)

Definition big (c : graph) : bool := Nat.leb 2 (length (g_N c)).

Lemma layout_components_xs : forall o cs shift ns oes xs,
  (forall c c' x, In c cs -> layout_component o c = Ok (c', x) ->
     if big c then exists v, x = Some v else x = None) ->
  layout_components o cs shift = Ok (ns, oes, xs) ->
  Forall2 (fun c v => exists c', layout_component o c = Ok (c', Some v)) (filter big cs) xs.
Proof.
  intros o cs; induction cs as [|c rest IH]; intros shift ns oes xs P H.
  - cbn in H. injection H as <- <- <-. constructor.
  - cbn [layout_components] in H.
    destruct (layout_component o c) as [[c' x]|e] eqn:Ec; cbn [bind] in H; [|discriminate].
    destruct (layout_components o rest (shift + rightmost c' + o_node_spacing o)%Q) as [[[ns' es'] xs']|e] eqn:Er;
      cbn [bind] in H; [|discriminate].
    injection H as <- <- <-.
    pose proof (IH _ _ _ _ (fun c0 c0' x0 Hc => P c0 c0' x0 (or_intror Hc)) Er) as I.
    pose proof (P c c' x (or_introl eq_refl) Ec) as Pc. cbn [filter].
    destruct (big c).
    + destruct Pc as (v & ->). constructor; [exists c'; exact Ec|exact I].
    + rewrite Pc. exact I.
Qed.

Section W4c.
  Variable A : Type.
  Variable eqA : A -> A -> bool.
  Hypothesis OK : forall x y, eqA x y = true <-> x = y.
  Variables (o : options) (fixed : option (Q * Q)) (sizes : option (list (A * (Q * Q)))) (es : list (list A)).
  Variables (ids : list A) (ns : list onode) (oes : list oedge) (xs : list Z).
  Hypothesis OO : options_ok o.
  Hypothesis NS : ns_premise_layout A eqA o fixed sizes es.
  Hypothesis LAY : layout A eqA o fixed sizes es = Ok (ids, (ns, oes, xs)).

  (* one number per component with at least two nodes, in the order of the components; each is the number reported
     for that component, about which W2 holds *)
  Theorem W4c_layout_crossings : forall g, populate A eqA es = Ok (ids, g) ->
    Forall2 (fun c v => exists c', layout_component o c = Ok (c', Some v) /\ component_input c /\
                                   W2_statement o c c' (Some v) /\ (0 <= v)%Z)
            (filter big (components (apply_sizes A eqA fixed sizes ids g))) xs.
  Proof.
    intros g POP. destruct (layout_inv A eqA o fixed sizes es ids ns oes xs LAY) as (g_ & POP_ & _ & LC).
    assert (g_ = g) by congruence. subst g_.
    set (cs := components (apply_sizes A eqA fixed sizes ids g)) in *.
    assert (CIc : forall c, In c cs -> big c = true -> component_input c /\ ns_premise o c).
    { intros c Hc B. apply Nat.leb_le in B. split; [|apply (NS ids g c POP Hc B)].
      apply (frontend_component_input A eqA OK es ids g fixed sizes POP c Hc B). }
    assert (F : Forall2 (fun c v => exists c', layout_component o c = Ok (c', Some v)) (filter big cs) xs).
    { apply (layout_components_xs o cs 0 ns oes xs); [|exact LC].
      intros c c' x Hc Lc. destruct (big c) eqn:B.
      - destruct (CIc c Hc B) as [CI NSc].
        destruct (W2_crossings o c c' x CI OO NSc Lc) as (_ & _ & _ & _ & cx & _ & _ & _ & _ & _ & _ & X & _). exists cx. exact X.
      - apply Nat.leb_gt in B. destruct (front_components A eqA OK es ids g fixed sizes POP c Hc) as (FC & _).
        assert (L1 : length (g_N c) = 1).
        { pose proof (fc_nonempty _ FC). destruct (g_N c) as [|n [|m t]]; cbn in *; [congruence|reflexivity|lia]. }
        apply (single_facts o c c' x FC L1 Lc). }
    eapply Forall2_impl_in; [exact F|]. intros c v Hc _ (c' & Lc).
    apply filter_In in Hc. destruct Hc as [Hc B]. destruct (CIc c Hc B) as [CI NSc].
    pose proof (W2_crossings o c c' (Some v) CI OO NSc Lc) as W. exists c'. split; [exact Lc|]. split; [exact CI|].
    split; [exact W|]. destruct W as (_ & _ & _ & _ & cx & _ & _ & _ & _ & _ & _ & X & _ & NN & _).
    injection X as ->. exact NN.
  Qed.
End W4c.
Print Assumptions W4c_layout_crossings.

Example wl_W4c : forall g, populate nat Nat.eqb wl_edges = Ok (wl_ids, g) ->
  length (filter big (components (apply_sizes nat Nat.eqb (Some (10, 6)%Q) wl_sizes wl_ids g))) = 2.
Proof.
  intros g POP.
  pose proof (W4c_layout_crossings nat Nat.eqb Nat.eqb_eq wc_o (Some (10, 6)%Q) wl_sizes wl_edges wl_ids wl_ns wl_oes wl_xs
                wc_options_ok wl_ns_premise wl_layout g POP) as F.
  apply Forall2_length' in F. exact F.
Qed.
Print Assumptions wl_W4c.
