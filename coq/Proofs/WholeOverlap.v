(* WholeOverlap.v — W3: the node rectangles of one laid-out component (helper nodes included) do not overlap.

   For VAlign / PackRight / SinkColoring, non-negative widths of the input nodes and non-negative spacings:
     - all x and y are >= 0;
     - two nodes of the same band keep at least NodeSpacing between them horizontally ([Shift.no_overlap]);
     - two nodes of different bands k < k' keep at least LayerSpacing between them vertically;
     - hence any two distinct nodes of the output node list are separated horizontally or vertically;
     - the output graph satisfies [Shift.comp_ok] (needed for placing the components side by side). *)
From Autog Require Import Base Graph Populate Phase1 Phase2 Phase3 Phase4 Phase5 Layout Wmedian Pipeline.
From Autog.Proofs Require Import ListLemmas Consistent SelfLoopProofs.
From Autog.Proofs Require CBBase CBGreedy CBGreedyRanks CBDepthFirst CBHasCycles CycleBreaking LongestPath
                          OptNormalize OptVbalance OptPipeline CollectProofs.
From Autog.Proofs Require CrossCountProofs WmedianProofs TreeProofs.
From Autog.Proofs Require Import Positioners Routes BreakMerge SinkColoringProofs Shift E2EBridge E2EBackbone E2EOutput E2EFrontend.
From Autog.Proofs Require Import WholeBridge WholeCrossings.
From Coq Require Import Permutation Lia Lqa.
Local Open Scope nat_scope.

(* ====================================================================================================== *)
(** * 1. The band offsets Y_k                                                                              *)
(* ====================================================================================================== *)

Lemma ysum_nonneg : forall sp ls k,
  (0 <= sp)%Q -> (forall j, (0 <= l_h (nth j ls layer0))%Q) -> (0 <= ysum sp ls k)%Q.
Proof.
  intros sp ls k Hs Hh. induction k as [|k IH]; [rewrite ysum_0; apply Qle_refl|].
  rewrite ysum_S. specialize (Hh k). lra.
Qed.

Lemma ysum_mono : forall sp ls k k',
  (0 <= sp)%Q -> (forall j, (0 <= l_h (nth j ls layer0))%Q) -> k <= k' -> (ysum sp ls k <= ysum sp ls k')%Q.
Proof.
  intros sp ls k k' Hs Hh Hk. induction Hk as [|k' Hk IH]; [apply Qle_refl|].
  rewrite ysum_S. specialize (Hh k'). lra.
Qed.

(* ====================================================================================================== *)
(** * 2. The statement                                                                                     *)
(* ====================================================================================================== *)

(* widths and heights of the nodes of the input component *)
Definition sizes_nonneg (g : graph) : Prop :=
  forall n, In n (g_N g) -> (0 <= n_w (gnode g n))%Q /\ (0 <= n_h (gnode g n))%Q.

Definition spacing_nonneg (o : options) : Prop := (0 <= o_node_spacing o)%Q /\ (0 <= o_layer_spacing o)%Q.

Definition band (g' : graph) (n : nat) : nat := Z.to_nat (n_layer (gnode g' n)).

(* a is left of b in the same band / a's band is above b's band, with the configured gap *)
Definition left_of (o : options) (g' : graph) (a b : nat) : Prop :=
  band g' a = band g' b /\ (nX g' a + nW g' a + o_node_spacing o <= nX g' b)%Q.
Definition above (o : options) (g' : graph) (a b : nat) : Prop :=
  band g' a < band g' b /\ (nY g' a + nH g' a + o_layer_spacing o <= nY g' b)%Q.

Definition W3_statement (o : options) (g' : graph) : Prop :=
  (* every node of the output (helper nodes included) is listed in its band and has non-negative coordinates, sizes *)
  (forall n, In n (g_N g') ->
     In n (l_nodes (glayer g' (band g' n))) /\ (0 <= nX g' n)%Q /\ (0 <= nY g' n)%Q /\ (0 <= nW g' n)%Q /\ (0 <= nH g' n)%Q) /\
  (forall kk n, In n (l_nodes (glayer g' kk)) -> In n (g_N g') /\ kk = band g' n) /\
  (* inside a band: in list order, with the node spacing in between *)
  Shift.no_overlap (o_node_spacing o) g' /\
  (forall kk i j a b, i < j -> nth_error (l_nodes (glayer g' kk)) i = Some a -> nth_error (l_nodes (glayer g' kk)) j = Some b ->
     (nX g' a + nW g' a + o_node_spacing o <= nX g' b)%Q) /\
  (* different bands *)
  (forall kk kk' a b, kk < kk' -> In a (l_nodes (glayer g' kk)) -> In b (l_nodes (glayer g' kk')) ->
     (nY g' a + nH g' a + o_layer_spacing o <= nY g' b)%Q) /\
  (* any two distinct nodes *)
  (forall a b, In a (g_N g') -> In b (g_N g') -> a <> b ->
     left_of o g' a b \/ left_of o g' b a \/ above o g' a b \/ above o g' b a) /\
  (* what the placement of the components side by side needs *)
  Shift.comp_ok g'.

(* ====================================================================================================== *)
(** * 3. Through the backbone                                                                              *)
(* ====================================================================================================== *)

Section Overlap.
  Variables (o : options) (g g' : graph) (x : option Z) (g0 : graph) (del : list nat) (g1 g2 g3 : graph) (k : nat)
            (g3' : graph) (cx : Z) (g4 gm : graph) (routes : list (nat * list nat)) (g5 : graph).
  Hypothesis CI : component_input g.
  Hypothesis OK : options_ok o.
  Hypothesis BB : backbone o g g' x g0 del g1 g2 g3 k g3' cx g4 gm routes g5.
  Hypothesis SZ : sizes_nonneg g.
  Hypothesis SP : spacing_nonneg o.

  Let S01 := bb_s01 _ _ _ _ _ _ _ _ _ _ _ _ _ _ _ _ BB.
  Let S23 := bb_s23 _ _ _ _ _ _ _ _ _ _ _ _ _ _ _ _ BB.
  Let S45 := bb_s45 _ _ _ _ _ _ _ _ _ _ _ _ _ _ _ _ BB.
  Let PP := s2_post _ _ _ _ S23.

  (* sizes of the nodes the positioner sees *)
  Lemma ov_sizes3 : forall n, In n (g_N g3) -> (0 <= n_w (gnode g3 n))%Q /\ (0 <= n_h (gnode g3 n))%Q.
  Proof.
    intros n Hn. pose proof (bbx_adjinv _ _ _ _ _ _ _ _ _ _ _ _ _ _ _ _ BB) as I.
    destruct (sum_lengths _ _ _ _ _ _ _ _ _ _ _ _ _ _ _ _ BB) as (NA2 & _ & _ & _ & N2 & _).
    pose proof (ai_N _ _ _ I n Hn) as Hlt.
    rewrite (s3_N _ _ _ _ S23) in Hn. apply in_app_or in Hn. destruct Hn as [Hn|Hn].
    - rewrite N2 in Hn. pose proof (c_N_lt _ (ci_cons _ CI) n Hn) as L.
      destruct (sum_node_old _ _ _ _ _ _ _ _ _ _ _ _ _ _ _ _ CI BB n L) as (_ & _ & -> & ->). apply SZ, Hn.
    - apply BreakMerge.in_iota in Hn. destruct (ai_newN _ _ _ I n (proj1 Hn) Hlt) as [-> ->]. split; apply Qle_refl.
  Qed.

  Lemma ov_sizes3' : forall n, in_layers g3' n -> (0 <= nW g3' n)%Q /\ (0 <= nH g3' n)%Q.
  Proof.
    intros n Hn. pose proof (s4_oc _ _ _ _ _ _ _ _ _ S45) as OC.
    destruct (order_contract_facts g3 g3' OC) as (_ & _ & _ & OIN & _).
    apply OIN in Hn. unfold in_layers in Hn. apply in_flat_map in Hn. destruct Hn as (l & Hl & Hn).
    destruct (In_nth _ _ layer0 Hl) as (j & Hj & <-).
    pose proof (s3_inl _ _ _ _ S23 j n Hn) as HnN.
    unfold nW, nH. destruct (E2EBridge.set_pos_fields _ _ (E2EBridge.oc_nodes _ _ OC n)) as (_ & _ & _ & _ & _ & _ & -> & ->).
    apply ov_sizes3, HnN.
  Qed.

  Lemma ov_sizes_ok : sizes_ok (o_node_spacing o) g3'.
  Proof. split; [apply SP|]. intros n Hn. apply ov_sizes3', Hn. Qed.

  (* x, w in the final graph are those of the phase-4 output *)
  Lemma ov_geom_out : forall n, nX g' n = nX g4 n /\ nY g' n = nY g4 n /\ nW g' n = nW g4 n /\ nH g' n = nH g4 n.
  Proof.
    intros n. destruct (sum_node4 _ _ _ _ _ _ _ _ _ _ _ _ _ _ _ _ CI BB n) as (_ & _ & A & B & C & D).
    unfold nX, nY, nW, nH. auto.
  Qed.

  Lemma ov_w4 : forall n, nW g4 n = nW g3' n /\ nH g4 n = nH g3' n.
  Proof.
    intros n. destruct (bbx_phase4 _ _ _ _ _ _ _ _ _ _ _ _ _ _ _ _ BB OK) as (_ & _ & _ & _ & F5 & _).
    unfold nW, nH. destruct (set_xy_fields _ _ (F5 n)) as (_ & _ & _ & _ & _ & -> & ->). split; reflexivity.
  Qed.

  (* the positioner, inside one layer of the ordered graph *)
  Lemma ov_positioner : forall l i j a b, In l (g_L g3') -> i < j ->
    nth_error (l_nodes l) i = Some a -> nth_error (l_nodes l) j = Some b ->
    (nX g4 a + nW g3' a + o_node_spacing o <= nX g4 b)%Q.
  Proof.
    intros l i j a b Hl Hij Ha Hb.
    pose proof (bbx_N3' _ _ _ _ _ _ _ _ _ _ _ _ _ _ _ _ BB) as N3'.
    pose proof (bbx_wf3' _ _ _ _ _ _ _ _ _ _ _ _ _ _ _ _ BB) as WF.
    pose proof (bb_e4 _ _ _ _ _ _ _ _ _ _ _ _ _ _ _ _ BB) as P4. pose proof ov_sizes_ok as SOK.
    destruct (oo_p4 _ OK) as [E|[E|E]]; rewrite E in P4.
    - rewrite phase4_valign in P4 by exact N3'. injection P4 as E4. rewrite <- E4, !assign_y_nX.
      apply (valign_no_overlap_in_layer_gen (o_node_spacing o) g3' l i j a b WF SOK Hl Hij Ha Hb).
    - rewrite phase4_packright in P4 by exact N3'. injection P4 as E4. rewrite <- E4, !assign_y_nX.
      apply (packright_no_overlap_in_layer_gen (o_node_spacing o) g3' l i j a b WF SOK Hl Hij Ha Hb).
    - apply (phase4_sink_coloring_no_overlap (p4_params o) g3' g4 l i j a b N3' P4 WF SOK Hl Hij Ha Hb).
  Qed.

  Lemma ov_x_nonneg : forall n, in_layers g3' n -> (0 <= nX g4 n)%Q.
  Proof.
    intros n Hn.
    pose proof (bbx_N3' _ _ _ _ _ _ _ _ _ _ _ _ _ _ _ _ BB) as N3'.
    pose proof (bbx_wf3' _ _ _ _ _ _ _ _ _ _ _ _ _ _ _ _ BB) as WF.
    pose proof (bb_e4 _ _ _ _ _ _ _ _ _ _ _ _ _ _ _ _ BB) as P4. pose proof ov_sizes_ok as SOK.
    destruct (oo_p4 _ OK) as [E|[E|E]]; rewrite E in P4.
    - rewrite phase4_valign in P4 by exact N3'. injection P4 as E4. rewrite <- E4, assign_y_nX.
      apply (valign_nonneg_gen (o_node_spacing o) g3' n WF SOK Hn).
    - rewrite phase4_packright in P4 by exact N3'. injection P4 as E4. rewrite <- E4, assign_y_nX.
      apply (packright_nonneg_gen (o_node_spacing o) g3' n WF SOK Hn).
    - destruct (phase4_is_assign_y SinkColoring (p4_params o) g3' g4 N3' P4) as (gp & E4 & SC). rewrite E4, assign_y_nX.
      apply (sink_coloring_nonneg_gen (o_node_spacing o) g3' gp n SC WF (proj1 SP) Hn).
  Qed.

  Lemma W3_of_backbone : W3_statement o g'.
  Proof.
    destruct (E2_of_backbone _ _ _ _ _ _ _ _ _ _ _ _ _ _ _ _ CI BB) as (WF' & PL' & BD & _).
    destruct (bbx_phase4 _ _ _ _ _ _ _ _ _ _ _ _ _ _ _ _ BB OK) as (F1 & F2 & F3 & F4 & F5 & F6 & F7).
    pose proof (bbx_out_L _ _ _ _ _ _ _ _ _ _ _ _ _ _ _ _ CI BB) as OL.
    assert (LN : forall kk, l_nodes (glayer g' kk) = l_nodes (glayer g3' kk)).
    { intros kk. unfold glayer at 1. rewrite OL. apply F6. }
    assert (LEN : length (g_L g') = length (g_L g3')) by (rewrite OL; exact F7).
    assert (LH0 : forall j, (0 <= l_h (nth j (g_L g') layer0))%Q).
    { intros j. rewrite OL. apply (s4_lh0 _ _ _ _ _ _ _ _ _ S45 j). }
    assert (INL3 : forall kk n, In n (l_nodes (glayer g' kk)) -> in_layers g3' n).
    { intros kk n Hn. rewrite LN in Hn. unfold in_layers. apply in_flat_map. exists (glayer g3' kk). split; [|exact Hn].
      destruct (Nat.lt_ge_cases kk (length (g_L g3'))) as [L|L]; [apply nth_In, L|].
      unfold glayer in Hn. rewrite nth_overflow in Hn; [destruct Hn|exact L]. }
    assert (NOV : Shift.no_overlap (o_node_spacing o) g').
    { intros l i j a b Hl Hij Ha Hb. destruct (In_nth _ _ layer0 Hl) as (kk & Hkk & <-). fold (glayer g' kk) in *.
      rewrite LN in Ha, Hb.
      destruct (ov_geom_out a) as (-> & _ & -> & _). destruct (ov_geom_out b) as (-> & _).
      destruct (ov_w4 a) as [-> _].
      apply (ov_positioner (glayer g3' kk) i j a b); try assumption. apply nth_In. rewrite <- LEN. exact Hkk. }
    assert (NOVk : forall kk i j a b, i < j ->
              nth_error (l_nodes (glayer g' kk)) i = Some a -> nth_error (l_nodes (glayer g' kk)) j = Some b ->
              (nX g' a + nW g' a + o_node_spacing o <= nX g' b)%Q).
    { intros kk i j a b Hij Ha Hb. destruct (Nat.lt_ge_cases kk (length (g_L g'))) as [L|L].
      - apply (NOV (glayer g' kk) i j a b); try assumption. apply nth_In, L.
      - unfold glayer in Ha. rewrite nth_overflow in Ha by exact L. destruct i; discriminate. }
    assert (VERT : forall kk kk' a b, kk < kk' -> In a (l_nodes (glayer g' kk)) -> In b (l_nodes (glayer g' kk')) ->
              (nY g' a + nH g' a + o_layer_spacing o <= nY g' b)%Q).
    { intros kk kk' a b Hk Ha Hb. destruct (BD kk a Ha) as (_ & _ & -> & HH). destruct (BD kk' b Hb) as (_ & _ & -> & _).
      pose proof (ysum_mono (o_layer_spacing o) (g_L g') (S kk) kk' (proj2 SP) LH0 Hk) as M.
      rewrite ysum_S in M. fold (glayer g' kk) in M. lra. }
    assert (NODE : forall n, In n (g_N g') ->
              In n (l_nodes (glayer g' (band g' n))) /\ (0 <= nX g' n)%Q /\ (0 <= nY g' n)%Q /\ (0 <= nW g' n)%Q /\ (0 <= nH g' n)%Q).
    { intros n Hn. destruct (PL' n Hn) as [_ P1]. fold (band g' n) in P1. split; [exact P1|].
      pose proof (INL3 _ _ P1) as IL.
      destruct (ov_geom_out n) as (-> & _ & -> & ->). destruct (ov_w4 n) as [-> ->].
      split; [apply ov_x_nonneg, IL|]. split; [|apply ov_sizes3', IL].
      destruct (BD _ n P1) as (_ & _ & -> & _). apply ysum_nonneg; [apply SP|exact LH0]. }
    split; [exact NODE|]. split; [intros kk n Hn; destruct (BD kk n Hn) as (A & B & _); split; assumption|].
    split; [exact NOV|]. split; [exact NOVk|]. split; [exact VERT|]. split.
    - intros a b Ha Hb Hab.
      destruct (NODE a Ha) as (Pa & _). destruct (NODE b Hb) as (Pb & _).
      destruct (Nat.lt_total (band g' a) (band g' b)) as [L|[E|L]].
      + right. right. left. split; [exact L|]. apply (VERT _ _ a b L Pa Pb).
      + rewrite <- E in Pb.
        destruct (In_nth_error _ _ Pa) as (i & Hi). destruct (In_nth_error _ _ Pb) as (j & Hj).
        destruct (Nat.lt_total i j) as [Lij|[Eij|Lij]].
        * left. split; [exact E|]. apply (NOVk _ i j a b Lij Hi Hj).
        * exfalso. subst j. congruence.
        * right. left. split; [symmetry; exact E|]. apply (NOVk _ j i b a Lij Hj Hi).
      + right. right. right. split; [exact L|]. apply (VERT _ _ b a L Pb Pa).
    - constructor.
      + intros n Hn. unfold in_layers in Hn. apply in_flat_map in Hn. destruct Hn as (l & Hl & Hn).
        destruct (In_nth _ _ layer0 Hl) as (kk & Hkk & <-). fold (glayer g' kk) in Hn.
        destruct (BD kk n Hn) as (HnN & _). apply (NODE n HnN).
      + apply (Shift.last_is_rightmost (s := o_node_spacing o)); [apply SP| |exact NOV].
        intros n Hn. unfold in_layers in Hn. apply in_flat_map in Hn. destruct Hn as (l & Hl & Hn).
        destruct (In_nth _ _ layer0 Hl) as (kk & Hkk & <-). fold (glayer g' kk) in Hn.
        destruct (BD kk n Hn) as (HnN & _). apply (NODE n HnN).
      + intros n Hn. destruct (NODE n Hn) as (P1 & _). unfold in_layers. apply in_flat_map.
        exists (glayer g' (band g' n)). split; [|exact P1].
        destruct (Nat.lt_ge_cases (band g' n) (length (g_L g'))) as [L|L]; [apply nth_In, L|].
        unfold glayer in P1. rewrite nth_overflow in P1; [destruct P1|exact L].
  Qed.
End Overlap.

Theorem W3_no_overlap : forall o g g' x,
  component_input g -> options_ok o -> ns_premise o g -> sizes_nonneg g -> spacing_nonneg o ->
  layout_component o g = Ok (g', x) -> W3_statement o g'.
Proof.
  intros o g g' x CI OK NS SZ SP H.
  destruct (pipeline_backbone_F o g g' x CI OK NS H) as (g0 & del & g1 & g2 & g3 & k & g3' & cx & g4 & gm & routes & g5 & BB).
  eapply W3_of_backbone; eassumption.
Qed.
Print Assumptions W3_no_overlap.

(* the rectangles [x, x+w] x [y, y+h] of two distinct nodes are disjoint: read off W3 *)
Corollary W3_rectangles_disjoint : forall o g g' x,
  component_input g -> options_ok o -> ns_premise o g -> sizes_nonneg g -> spacing_nonneg o ->
  layout_component o g = Ok (g', x) ->
  forall a b, In a (g_N g') -> In b (g_N g') -> a <> b ->
    (nX g' a + nW g' a <= nX g' b)%Q \/ (nX g' b + nW g' b <= nX g' a)%Q \/
    (nY g' a + nH g' a <= nY g' b)%Q \/ (nY g' b + nH g' b <= nY g' a)%Q.
Proof.
  intros o g g' x CI OK NS SZ SP H a b Ha Hb Hab.
  destruct (W3_no_overlap o g g' x CI OK NS SZ SP H) as (_ & _ & _ & _ & _ & D & _).
  destruct SP as [S1 S2].
  destruct (D a b Ha Hb Hab) as [[_ L]|[[_ L]|[[_ L]|[_ L]]]]; [left|right; left|right; right; left|right; right; right]; lra.
Qed.
Print Assumptions W3_rectangles_disjoint.

(* ====================================================================================================== *)
(** * 4. Examples                                                                                          *)
(* ====================================================================================================== *)

Example wc_sizes : sizes_nonneg wc_g.
Proof. intros n H. vm_compute in H. list_cases H; vm_compute; split; discriminate. Qed.

Example wc_spacing : spacing_nonneg wc_o.
Proof. split; vm_compute; discriminate. Qed.

Example wc_W3 : W3_statement wc_o wc_out.
Proof.
  exact (W3_no_overlap wc_o wc_g wc_out _ wc_input wc_options_ok (ns_premise_longest_path wc_o _ eq_refl) wc_sizes wc_spacing
           wc_layout).
Qed.

(* what the model computes: helper node 7 sits in band 1 right of node 3 *)
Example wc_out_xy :
  g_N wc_out = [0; 1; 2; 3; 4; 5; 6; 7] /\
  map (fun n => (Qred (nX wc_out n), Qred (nY wc_out n), Qred (nW wc_out n))) (g_N wc_out) =
    [(35 # 2, 0, 10); (0, 13, 10); (15, 13, 10); (30, 13, 10); (5 # 2, 26, 10); (65 # 2, 26, 10);
     (35 # 2, 26, 10); (45, 13, 0)]%Q.
Proof. vm_compute. split; reflexivity. Qed.

(* SinkColoring / Ortho on the same component *)
Definition wc_o3 : options := mkOptions Greedy LongestPath SinkColoring Ortho 1 0 5 7 false.
Definition wc_out3 : graph := Eval vm_compute in
  match layout_component wc_o3 wc_g with Ok (g, _) => g | Err _ => empty_graph end.
Example wc_layout3 : layout_component wc_o3 wc_g = Ok (wc_out3, Some 9%Z).
Proof. vm_compute. reflexivity. Qed.

Example wc_W3_sink : W3_statement wc_o3 wc_out3.
Proof.
  apply (W3_no_overlap wc_o3 wc_g wc_out3 (Some 9%Z) wc_input); [split; [right; right; reflexivity|right; right; reflexivity]|
    apply (ns_premise_longest_path wc_o3), eq_refl|exact wc_sizes|split; vm_compute; discriminate|exact wc_layout3].
Qed.
Print Assumptions wc_W3.
Print Assumptions wc_W3_sink.
