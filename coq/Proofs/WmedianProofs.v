(* WmedianProofs.v — the contract of the ordering phase (Model/Wmedian.v)

   W1  frame: exec_wmedian only changes n_pos and permutes the node lists of the layers
   W2  afterwards the positions inside every layer are the list indices 0..len-1
   W3  the number it reports is reported_crossings of the order it installs (= drawing_crossings for simple graphs)
   W4  the same for phase3_wmedian *)
From Autog Require Import Wmedian.
From Autog Require Import CrossCountProofs ListLemmas.
From Coq Require Import ZifyNat Permutation Sorted.

(* ====================================================================================================== *)
(* 0. small list facts                                                                                    *)
(* ====================================================================================================== *)
Lemma nth_iota : forall n s j d, (j < n)%nat -> nth j (iota s n) d = (s + j)%nat.
Proof.
  induction n as [|n IH]; intros s j d H; [lia|].
  destruct j as [|j]; cbn [iota nth]; [lia|]. rewrite IH by lia. lia.
Qed.

Lemma upd_upd_same : forall A (l : list A) i f h, upd (upd l i f) i h = upd l i (fun x => h (f x)).
Proof.
  intros A l; induction l as [|x t IH]; intros i f h; [reflexivity|].
  destruct i as [|i]; cbn [upd]; [reflexivity|]. rewrite IH. reflexivity.
Qed.

Lemma upd_ext : forall A (l : list A) i f h, (forall x, f x = h x) -> upd l i f = upd l i h.
Proof.
  intros A l; induction l as [|x t IH]; intros i f h H; [reflexivity|].
  destruct i as [|i]; cbn [upd]; [rewrite H; reflexivity|]. rewrite (IH i f h H). reflexivity.
Qed.

Lemma upd_id : forall A (l : list A) i f d, f (nth i l d) = nth i l d -> upd l i f = l.
Proof.
  intros A l; induction l as [|x t IH]; intros i f d H; [reflexivity|].
  destruct i as [|i]; cbn [upd nth] in *; [rewrite H; reflexivity|]. rewrite (IH i f d H). reflexivity.
Qed.

Lemma nth_set_nth_same : forall A (l : list A) i a d, (i < length l)%nat -> nth i (set_nth l i a) d = a.
Proof. intros A l i a d H. unfold set_nth. rewrite nth_upd_same by exact H. reflexivity. Qed.

Lemma nth_set_nth_other : forall A (l : list A) i j a d, i <> j -> nth j (set_nth l i a) d = nth j l d.
Proof. intros A l i j a d H. unfold set_nth. apply nth_upd_other. exact H. Qed.

Lemma length_set_nth : forall A (l : list A) i a, length (set_nth l i a) = length l.
Proof. intros. unfold set_nth. apply upd_length. Qed.

(* ---------- swap_list ---------- *)
Lemma swap_list_length : forall l i j, length (swap_list l i j) = length l.
Proof. intros. unfold swap_list. rewrite !length_set_nth. reflexivity. Qed.

Lemma swap_list_nth : forall l i j m, (i < length l)%nat -> (j < length l)%nat ->
  nth m (swap_list l i j) 0%nat =
  if Nat.eqb m j then nth i l 0%nat else if Nat.eqb m i then nth j l 0%nat else nth m l 0%nat.
Proof.
  intros l i j m Hi Hj. unfold swap_list.
  destruct (Nat.eqb_spec m j) as [->|Nj].
  - rewrite nth_set_nth_same by (rewrite length_set_nth; exact Hj). reflexivity.
  - rewrite nth_set_nth_other by congruence.
    destruct (Nat.eqb_spec m i) as [->|Ni].
    + rewrite nth_set_nth_same by exact Hi. reflexivity.
    + rewrite nth_set_nth_other by congruence. reflexivity.
Qed.

Lemma swap_list_perm : forall l i j, NoDup l -> (i < length l)%nat -> (j < length l)%nat ->
  Permutation (swap_list l i j) l.
Proof.
  intros l i j Hnd Hi Hj.
  assert (Hlen := swap_list_length l i j).
  assert (Hin : forall x, In x (swap_list l i j) <-> In x l).
  { intros x. split; intros H.
    - destruct (In_nth _ _ 0%nat H) as [m [Hm <-]]. rewrite Hlen in Hm.
      rewrite swap_list_nth by assumption.
      destruct (Nat.eqb m j); [|destruct (Nat.eqb m i)]; apply nth_In; assumption.
    - destruct (In_nth _ _ 0%nat H) as [m [Hm <-]].
      destruct (Nat.eq_dec m j) as [->|Nj].
      + destruct (Nat.eq_dec i j) as [->|Nij].
        * assert (E : nth j (swap_list l j j) 0%nat = nth j l 0%nat).
          { rewrite swap_list_nth by assumption. rewrite Nat.eqb_refl. reflexivity. }
          rewrite <- E. apply nth_In. rewrite Hlen; exact Hj.
        * assert (E : nth i (swap_list l i j) 0%nat = nth j l 0%nat).
          { rewrite swap_list_nth by assumption.
            destruct (Nat.eqb_spec i j); [contradiction|]. rewrite Nat.eqb_refl. reflexivity. }
          rewrite <- E. apply nth_In. rewrite Hlen; exact Hi.
      + destruct (Nat.eq_dec m i) as [->|Ni].
        * assert (E : nth j (swap_list l i j) 0%nat = nth i l 0%nat).
          { rewrite swap_list_nth by assumption. rewrite Nat.eqb_refl. reflexivity. }
          rewrite <- E. apply nth_In. rewrite Hlen; exact Hj.
        * assert (E : nth m (swap_list l i j) 0%nat = nth m l 0%nat).
          { rewrite swap_list_nth by assumption.
            destruct (Nat.eqb_spec m j); [contradiction|]. destruct (Nat.eqb_spec m i); [contradiction|]. reflexivity. }
          rewrite <- E. apply nth_In. rewrite Hlen; exact Hm. }
  apply NoDup_Permutation; [|exact Hnd|exact Hin].
  apply (proj2 (NoDup_nth (swap_list l i j) 0%nat)).
  intros a b Ha Hb E. rewrite Hlen in Ha, Hb.
  rewrite !swap_list_nth in E by assumption.
  pose proof (proj1 (NoDup_nth l 0%nat) Hnd) as Inj.
  destruct (Nat.eqb_spec a j) as [Ea|Na]; destruct (Nat.eqb_spec b j) as [Eb|Nb]; try congruence.
  - destruct (Nat.eqb_spec b i) as [Eb'|Nb']; [apply Inj in E; congruence|apply Inj in E; congruence].
  - destruct (Nat.eqb_spec a i) as [Ea'|Na']; [apply Inj in E; congruence|apply Inj in E; congruence].
  - destruct (Nat.eqb_spec a i) as [Ea'|Na']; destruct (Nat.eqb_spec b i) as [Eb'|Nb']; try congruence;
      apply Inj in E; congruence.
Qed.

(* ====================================================================================================== *)
(* 1. insertion sort by an integer key                                                                    *)
(* ====================================================================================================== *)
Section SortKey.
  Variable key : nat -> Z.
  Let le (a b : nat) : bool := key a <=? key b.

  Lemma insert_sorted_perm : forall x l, Permutation (insert_sorted le x l) (x :: l).
  Proof.
    intros x l; induction l as [|y t IH]; cbn [insert_sorted]; [apply Permutation_refl|].
    destruct (le x y); [apply Permutation_refl|].
    eapply perm_trans; [apply perm_skip; exact IH|apply perm_swap].
  Qed.

  Lemma isort_perm : forall l, Permutation (isort le l) l.
  Proof.
    induction l as [|x t IH]; [apply Permutation_refl|].
    unfold isort in *. cbn [fold_right].
    eapply perm_trans; [apply insert_sorted_perm|apply perm_skip; exact IH].
  Qed.

  Definition ksorted (l : list nat) : Prop := StronglySorted (fun a b => key a <= key b) l.

  Lemma insert_sorted_ok : forall x l, ksorted l -> ksorted (insert_sorted le x l).
  Proof.
    intros x l H; induction H as [|y t H IH Hy]; cbn [insert_sorted]; [repeat constructor|].
    unfold le at 1. destruct (Z.leb_spec (key x) (key y)) as [L|L].
    - constructor; [constructor; assumption|].
      constructor; [exact L|]. rewrite Forall_forall in *. intros z Hz. specialize (Hy z Hz). lia.
    - constructor; [exact IH|].
      rewrite Forall_forall in *. intros z Hz.
      apply (Permutation_in _ (insert_sorted_perm x t)) in Hz. destruct Hz as [<-|Hz]; [lia|apply Hy; exact Hz].
  Qed.

  Lemma isort_sorted : forall l, ksorted (isort le l).
  Proof.
    induction l as [|x t IH]; [constructor|].
    unfold isort in *. cbn [fold_right]. apply insert_sorted_ok. exact IH.
  Qed.

  Lemma ksorted_map : forall l, ksorted l -> StronglySorted Z.le (map key l).
  Proof.
    intros l H; induction H as [|y t H IH Hy]; cbn [map]; constructor; [exact IH|].
    rewrite Forall_forall in *. intros z Hz. apply in_map_iff in Hz. destruct Hz as [u [<- Hu]]. apply Hy; exact Hu.
  Qed.
End SortKey.

Lemma sorted_perm_unique : forall l1 l2,
  StronglySorted Z.le l1 -> StronglySorted Z.lt l2 -> Permutation l1 l2 -> l1 = l2.
Proof.
  induction l1 as [|x t1 IH]; intros l2 H1 H2 P.
  - apply Permutation_nil in P. subst; reflexivity.
  - destruct l2 as [|y t2]; [apply Permutation_sym, Permutation_nil in P; discriminate|].
    inversion H1 as [|? ? S1 F1]; subst. inversion H2 as [|? ? S2 F2]; subst.
    rewrite Forall_forall in F1, F2.
    assert (Hx : In x (y :: t2)) by (apply (Permutation_in _ P); left; reflexivity).
    assert (Hy : In y (x :: t1)) by (apply (Permutation_in _ (Permutation_sym P)); left; reflexivity).
    assert (E : x = y).
    { destruct Hx as [Hx|Hx]; [congruence|]. destruct Hy as [Hy|Hy]; [congruence|].
      specialize (F1 _ Hy). specialize (F2 _ Hx). lia. }
    subst y. f_equal. apply IH; [exact S1|exact S2|]. apply Permutation_cons_inv with (a := x). exact P.
Qed.

Definition zidx (n : nat) : list Z := map Z.of_nat (iota 0 n).

Lemma zidx_sorted_from : forall n s, StronglySorted Z.lt (map Z.of_nat (iota s n)).
Proof.
  induction n as [|n IH]; intros s; cbn [iota map]; constructor; [apply IH|].
  rewrite Forall_forall. intros z Hz. apply in_map_iff in Hz. destruct Hz as [u [<- Hu]].
  apply in_iota in Hu. lia.
Qed.

Lemma zidx_length : forall n, length (zidx n) = n.
Proof. intros. unfold zidx. rewrite map_length. apply iota_length. Qed.

Lemma nth_zidx : forall n j d, (j < n)%nat -> nth j (zidx n) d = Z.of_nat j.
Proof.
  intros n j d H. unfold zidx.
  rewrite (nth_indep _ d (Z.of_nat 0%nat)) by (rewrite map_length, iota_length; exact H).
  rewrite map_nth. rewrite nth_iota by exact H. reflexivity.
Qed.

(* sorting a list whose keys are a permutation of 0..len-1 puts key j at index j *)
Lemma isort_index : forall (key : nat -> Z) l,
  Permutation (map key l) (zidx (length l)) ->
  map key (isort (fun a b => key a <=? key b) l) = zidx (length l).
Proof.
  intros key l P. apply sorted_perm_unique.
  - apply ksorted_map. apply isort_sorted.
  - apply zidx_sorted_from.
  - eapply perm_trans; [apply Permutation_map; apply isort_perm|exact P].
Qed.

Lemma map_key_nth : forall (key : nat -> Z) l n j, map key l = zidx n -> (j < n)%nat -> key (nth j l 0%nat) = Z.of_nat j.
Proof.
  intros key l n j E Hj.
  rewrite <- (map_nth key l 0%nat j). rewrite E. apply nth_zidx; exact Hj.
Qed.

Lemma nth_map_key : forall (key : nat -> Z) l,
  (forall j, (j < length l)%nat -> key (nth j l 0%nat) = Z.of_nat j) -> map key l = zidx (length l).
Proof.
  intros key l H. apply (nth_ext _ _ (key 0%nat) 0).
  - rewrite map_length, zidx_length. reflexivity.
  - intros j Hj. rewrite map_length in Hj. rewrite map_nth, H by exact Hj. symmetry. apply nth_zidx; exact Hj.
Qed.

(* ====================================================================================================== *)
(* 2. frames, the well-formedness predicate, the invariant                                                *)
(* ====================================================================================================== *)
Lemma set_pos_fields : forall a b, set_pos 0 a = set_pos 0 b ->
  n_in a = n_in b /\ n_out a = n_out b /\ n_layer a = n_layer b /\ n_virt a = n_virt b.
Proof. intros a b H. unfold set_pos in H. injection H as H1 H2 H3 H4 H5 H6 H7 H8. tauto. Qed.

Lemma set_pos_eq : forall a b, set_pos 0 a = set_pos 0 b -> n_pos a = n_pos b -> a = b.
Proof.
  intros [i1 o1 l1 p1 v1 x1 y1 w1 h1] [i2 o2 l2 p2 v2 x2 y2 w2 h2] H P. unfold set_pos in H. cbn in *.
  injection H as H1 H2 H3 H4 H5 H6 H7 H8. subst. reflexivity.
Qed.

(* the contract of the ordering phase, as one record *)
Record order_contract (g g' : graph) : Prop := {
  oc_ea : g_ea g' = g_ea g; oc_N : g_N g' = g_N g; oc_E : g_E g' = g_E g;
  oc_na : length (g_na g') = length (g_na g);
  oc_nodes : forall n, set_pos 0 (gnode g' n) = set_pos 0 (gnode g n);
  oc_L : length (g_L g') = length (g_L g);
  oc_layer : forall k, l_w (glayer g' k) = l_w (glayer g k) /\ l_h (glayer g' k) = l_h (glayer g k) /\
                       Permutation (l_nodes (glayer g' k)) (l_nodes (glayer g k));
  oc_pos : forall k j, (j < length (l_nodes (glayer g' k)))%nat ->
                       pos_of g' (nth j (l_nodes (glayer g' k)) 0%nat) = Z.of_nat j }.

(* its frame part *)
Record oframe (g g' : graph) : Prop := {
  of_ea : g_ea g' = g_ea g; of_N : g_N g' = g_N g; of_E : g_E g' = g_E g;
  of_na : length (g_na g') = length (g_na g);
  of_nodes : forall n, set_pos 0 (gnode g' n) = set_pos 0 (gnode g n);
  of_L : length (g_L g') = length (g_L g);
  of_layer : forall k, l_w (glayer g' k) = l_w (glayer g k) /\ l_h (glayer g' k) = l_h (glayer g k) /\
                       Permutation (lnodes g' k) (lnodes g k) }.

Definition posidx (g : graph) : Prop :=
  forall k j, (j < length (lnodes g k))%nat -> pos_of g (nth j (lnodes g k) 0%nat) = Z.of_nat j.

Lemma order_contract_iff : forall g g', order_contract g g' <-> (oframe g g' /\ posidx g').
Proof.
  intros g g'. split.
  - intros [A B C D E F G H]. split; [constructor; assumption|exact H].
  - intros [[A B C D E F G] H]. constructor; assumption.
Qed.

Lemma oframe_refl : forall g, oframe g g.
Proof. intros g. constructor; try reflexivity. intros k. repeat split; apply Permutation_refl. Qed.

Lemma oframe_trans : forall g1 g2 g3, oframe g1 g2 -> oframe g2 g3 -> oframe g1 g3.
Proof.
  intros g1 g2 g3 [A B C D E F G] [A' B' C' D' E' F' G']. constructor; try congruence.
  - intros k. destruct (G k) as [P [Q R]]. destruct (G' k) as [P' [Q' R']].
    repeat split; [congruence|congruence|]. eapply perm_trans; eassumption.
Qed.

Lemma of_layer_of : forall g g' n, oframe g g' -> layer_of g' n = layer_of g n.
Proof. intros g g' n F. unfold layer_of. apply (set_pos_fields _ _ (of_nodes _ _ F n)). Qed.

Lemma of_n_in : forall g g' n, oframe g g' -> n_in (gnode g' n) = n_in (gnode g n).
Proof. intros g g' n F. apply (set_pos_fields _ _ (of_nodes _ _ F n)). Qed.

Lemma of_n_out : forall g g' n, oframe g g' -> n_out (gnode g' n) = n_out (gnode g n).
Proof. intros g g' n F. apply (set_pos_fields _ _ (of_nodes _ _ F n)). Qed.

Lemma of_gedge : forall g g' e, oframe g g' -> gedge g' e = gedge g e.
Proof. intros g g' e F. unfold gedge. rewrite (of_ea _ _ F). reflexivity. Qed.

Lemma of_lnodes_in : forall g g' k n, oframe g g' -> (In n (lnodes g' k) <-> In n (lnodes g k)).
Proof.
  intros g g' k n F. destruct (of_layer _ _ F k) as [_ [_ P]].
  split; intros H; [apply (Permutation_in _ P)|apply (Permutation_in _ (Permutation_sym P))]; exact H.
Qed.

Lemma of_lnodes_length : forall g g' k, oframe g g' -> length (lnodes g' k) = length (lnodes g k).
Proof. intros g g' k F. destruct (of_layer _ _ F k) as [_ [_ P]]. apply Permutation_length; exact P. Qed.

(* well-formedness of the input of the ordering phase *)
Record layered (g : graph) : Prop := {
  (* the nodes of the component are arena indices *)
  ly_range : forall n, In n (g_N g) -> (n < length (g_na g))%nat;
  (* layer k lists exactly the nodes of the component whose Layer is k, each once *)
  ly_layer : forall k n, In n (lnodes g k) <-> (In n (g_N g) /\ layer_of g n = Z.of_nat k);
  ly_nodup : forall k, NoDup (lnodes g k);
  ly_lrange : forall n, In n (g_N g) -> 0 <= layer_of g n < Z.of_nat (length (g_L g));
  (* adjacency lists: Out / In of a node are the edges of the edge list that leave / enter it *)
  ly_out : forall n, In n (g_N g) -> forall e, In e (n_out (gnode g n)) <-> (In e (g_E g) /\ e_from (gedge g e) = n);
  ly_in : forall n, In n (g_N g) -> forall e, In e (n_in (gnode g n)) <-> (In e (g_E g) /\ e_to (gedge g e) = n);
  (* both ends of an edge belong to the component *)
  ly_ends : forall e, In e (g_E g) -> In (e_from (gedge g e)) (g_N g) /\ In (e_to (gedge g e)) (g_N g)
}.

Lemma layered_frame : forall g g', layered g -> oframe g g' -> layered g'.
Proof.
  intros g g' [A B C D E F G] Fr. constructor.
  - intros n Hn. rewrite (of_N _ _ Fr) in Hn. rewrite (of_na _ _ Fr). apply A; exact Hn.
  - intros k n. rewrite (of_lnodes_in _ _ k n Fr), (of_N _ _ Fr), (of_layer_of _ _ n Fr). apply B.
  - intros k. destruct (of_layer _ _ Fr k) as [_ [_ P]].
    apply (Permutation_NoDup (Permutation_sym P)). apply C.
  - intros n Hn. rewrite (of_N _ _ Fr) in Hn. rewrite (of_layer_of _ _ n Fr), (of_L _ _ Fr). apply D; exact Hn.
  - intros n Hn e. rewrite (of_N _ _ Fr) in Hn. rewrite (of_n_out _ _ n Fr), (of_E _ _ Fr), (of_gedge _ _ e Fr).
    apply E; exact Hn.
  - intros n Hn e. rewrite (of_N _ _ Fr) in Hn. rewrite (of_n_in _ _ n Fr), (of_E _ _ Fr), (of_gedge _ _ e Fr).
    apply F; exact Hn.
  - intros e He. rewrite (of_E _ _ Fr) in He. rewrite (of_gedge _ _ e Fr), (of_N _ _ Fr). apply G; exact He.
Qed.

Lemma layered_lnodes_range : forall g k n, layered g -> In n (lnodes g k) -> (n < length (g_na g))%nat.
Proof. intros g k n L H. apply (ly_range _ L). apply (ly_layer _ L) in H. tauto. Qed.

Lemma layered_disjoint : forall g k k' n, layered g -> In n (lnodes g k) -> In n (lnodes g k') -> k = k'.
Proof.
  intros g k k' n L H H'. apply (ly_layer _ L) in H. apply (ly_layer _ L) in H'.
  destruct H as [_ H]. destruct H' as [_ H']. lia.
Qed.

(* ---------- updates of positions ---------- *)
Lemma upd_node_set_pos_frame : forall g n z m,
  set_pos 0 (gnode (upd_node g n (set_pos z)) m) = set_pos 0 (gnode g m).
Proof.
  intros g n z m. destruct (Nat.lt_ge_cases n (length (g_na g))) as [L|L].
  - rewrite gnode_upd_node by exact L. destruct (Nat.eqb n m); reflexivity.
  - unfold gnode, upd_node, with_na; cbn [g_na]. rewrite upd_oob by exact L. reflexivity.
Qed.

Lemma oframe_upd_pos : forall g n z, oframe g (upd_node g n (set_pos z)).
Proof.
  intros g n z. constructor; try reflexivity.
  - apply upd_node_na_length.
  - intros m. apply upd_node_set_pos_frame.
  - intros k. repeat split; apply Permutation_refl.
Qed.

Lemma pos_of_upd_same : forall g n z, (n < length (g_na g))%nat -> pos_of (upd_node g n (set_pos z)) n = z.
Proof. intros g n z H. unfold pos_of. rewrite gnode_upd_node_same by exact H. reflexivity. Qed.

Lemma pos_of_upd_other : forall g n z m, n <> m -> pos_of (upd_node g n (set_pos z)) m = pos_of g m.
Proof. intros g n z m H. unfold pos_of. rewrite gnode_upd_node_other by exact H. reflexivity. Qed.

Lemma swap_pos_fst : forall g v w, v <> w -> (v < length (g_na g))%nat -> pos_of (swap_pos g v w) v = pos_of g w.
Proof.
  intros g v w Hne Hv. unfold swap_pos. rewrite pos_of_upd_other by congruence.
  apply pos_of_upd_same; exact Hv.
Qed.

Lemma swap_pos_snd : forall g v w, (w < length (g_na g))%nat -> pos_of (swap_pos g v w) w = pos_of g v.
Proof.
  intros g v w Hw. unfold swap_pos. apply pos_of_upd_same. rewrite upd_node_na_length. exact Hw.
Qed.

Lemma swap_pos_other : forall g v w m, m <> v -> m <> w -> pos_of (swap_pos g v w) m = pos_of g m.
Proof. intros g v w m H1 H2. unfold swap_pos. rewrite !pos_of_upd_other by congruence. reflexivity. Qed.

Lemma oframe_swap_pos : forall g v w, oframe g (swap_pos g v w).
Proof.
  intros g v w. unfold swap_pos. eapply oframe_trans; apply oframe_upd_pos.
Qed.

(* ---------- layers ---------- *)
Lemma glayer_upd_layer_same : forall g r f, (r < length (g_L g))%nat -> glayer (upd_layer g r f) r = f (glayer g r).
Proof. intros g r f H. unfold glayer, upd_layer, with_L; cbn [g_L]. apply nth_upd_same; exact H. Qed.

Lemma glayer_upd_layer_other : forall g r f k, r <> k -> glayer (upd_layer g r f) k = glayer g k.
Proof. intros g r f k H. unfold glayer, upd_layer, with_L; cbn [g_L]. apply nth_upd_other; exact H. Qed.

Lemma pos_of_upd_layer : forall g r f n, pos_of (upd_layer g r f) n = pos_of g n.
Proof. reflexivity. Qed.

Lemma oframe_upd_layer : forall g r F,
  (forall l, l_w (F l) = l_w l /\ l_h (F l) = l_h l) ->
  Permutation (l_nodes (F (glayer g r))) (lnodes g r) ->
  oframe g (upd_layer g r F).
Proof.
  intros g r F HF P. constructor; try reflexivity.
  - unfold upd_layer, with_L; cbn [g_L]. apply upd_length.
  - intros k. destruct (Nat.eq_dec r k) as [<-|Hne].
    + destruct (Nat.lt_ge_cases r (length (g_L g))) as [L|L].
      * unfold lnodes. rewrite glayer_upd_layer_same by exact L. destruct (HF (glayer g r)) as [H1 H2].
        repeat split; assumption.
      * unfold upd_layer, with_L. rewrite upd_oob by exact L. destruct g; cbn.
        repeat split; apply Permutation_refl.
    + unfold lnodes. rewrite glayer_upd_layer_other by exact Hne. repeat split; apply Permutation_refl.
Qed.

(* the elementary move of both sortLayer and transpose: exchange the nodes at indices i and j of layer r *)
Definition swapped (g : graph) (r i j : nat) : graph :=
  upd_layer (swap_pos g (nth i (lnodes g r) 0%nat) (nth j (lnodes g r) 0%nat)) r
            (fun ly => mkLayer (swap_list (l_nodes ly) i j) (l_w ly) (l_h ly)).

Lemma swapped_inv : forall g r i j, layered g -> posidx g ->
  (i < length (lnodes g r))%nat -> (j < length (lnodes g r))%nat -> i <> j ->
  oframe g (swapped g r i j) /\ posidx (swapped g r i j).
Proof.
  intros g r i j L PI Hi Hj Hij.
  assert (Hr : (r < length (g_L g))%nat).
  { destruct (Nat.lt_ge_cases r (length (g_L g))) as [H|H]; [exact H|]. rewrite (lnodes_out g H) in Hi. cbn in Hi. lia. }
  set (nodes := lnodes g r) in *. set (a := nth i nodes 0%nat). set (b := nth j nodes 0%nat).
  assert (Hnd : NoDup nodes) by apply (ly_nodup _ L).
  pose proof (proj1 (NoDup_nth nodes 0%nat) Hnd) as Inj.
  assert (Hab : a <> b) by (intros E; apply Hij; apply Inj; assumption).
  assert (Ha : In a nodes) by (apply nth_In; exact Hi).
  assert (Hb : In b nodes) by (apply nth_In; exact Hj).
  assert (Hal : (a < length (g_na g))%nat) by (apply (layered_lnodes_range g r); assumption).
  assert (Hbl : (b < length (g_na g))%nat) by (apply (layered_lnodes_range g r); assumption).
  assert (Er : lnodes (swapped g r i j) r = swap_list nodes i j).
  { unfold swapped, lnodes. rewrite glayer_upd_layer_same by exact Hr. reflexivity. }
  assert (Eo : forall k, k <> r -> lnodes (swapped g r i j) k = lnodes g k).
  { intros k Hk. unfold swapped, lnodes. rewrite glayer_upd_layer_other by congruence. reflexivity. }
  split.
  - unfold swapped. fold nodes. fold a. fold b.
    eapply oframe_trans; [apply (oframe_swap_pos g a b)|].
    apply oframe_upd_layer; [intros l; split; reflexivity|].
    change (lnodes (swap_pos g a b) r) with nodes.
    change (glayer (swap_pos g a b) r) with (glayer g r). cbn [l_nodes]. fold (lnodes g r). fold nodes.
    apply swap_list_perm; assumption.
  - intros k m Hm.
    change (pos_of (swapped g r i j)) with (pos_of (swap_pos g a b)).
    destruct (Nat.eq_dec k r) as [->|Hk].
    + rewrite Er in *. rewrite swap_list_length in Hm. rewrite swap_list_nth by assumption.
      destruct (Nat.eqb_spec m j) as [->|Nj].
      * fold a. rewrite swap_pos_fst by assumption. apply (PI r j); exact Hj.
      * destruct (Nat.eqb_spec m i) as [->|Ni].
        -- fold b. rewrite swap_pos_snd by assumption. apply (PI r i); exact Hi.
        -- rewrite swap_pos_other.
           ++ apply (PI r m); exact Hm.
           ++ intros E. apply Ni. apply Inj; assumption.
           ++ intros E. apply Nj. apply Inj; assumption.
    + rewrite (Eo k Hk) in *.
      assert (Hx : In (nth m (lnodes g k) 0%nat) (lnodes g k)) by (apply nth_In; exact Hm).
      rewrite swap_pos_other.
      * apply (PI k m); exact Hm.
      * intros E. rewrite E in Hx. apply Hk. apply (layered_disjoint g k r a L); assumption.
      * intros E. rewrite E in Hx. apply Hk. apply (layered_disjoint g k r b L); assumption.
Qed.

(* ====================================================================================================== *)
(* 3. the moves of the heuristic preserve the invariant                                                   *)
(* ====================================================================================================== *)
Section Heuristic.
  Variable g0 : graph.
  Hypothesis L0 : layered g0.

  (* the invariant of a run: same graph up to positions / order inside the layers; positions are list indices *)
  Definition Inv (g : graph) : Prop := oframe g0 g /\ posidx g.

  Lemma Inv_layered : forall g, Inv g -> layered g.
  Proof. intros g [F _]. apply (layered_frame g0); assumption. Qed.

  Lemma Inv_swapped : forall g r i j, Inv g ->
    (i < length (lnodes g r))%nat -> (j < length (lnodes g r))%nat -> i <> j -> Inv (swapped g r i j).
  Proof.
    intros g r i j I Hi Hj Hij. destruct (swapped_inv g r i j (Inv_layered g I) (proj2 I) Hi Hj Hij) as [F P].
    split; [eapply oframe_trans; [apply I|exact F]|exact P].
  Qed.

  Lemma Inv_L : forall g, Inv g -> length (g_L g) = length (g_L g0).
  Proof. intros g [F _]. apply (of_L _ _ F). Qed.

  Lemma Inv_len : forall g k, Inv g -> length (lnodes g k) = length (lnodes g0 k).
  Proof. intros g k [F _]. apply of_lnodes_length; exact F. Qed.

  (* (g, nodes) is the state of sortLayer: the list under work is not yet stored in the graph *)
  Definition inst (r : nat) (st : graph * list nat) : graph :=
    upd_layer (fst st) r (fun l => mkLayer (snd st) (l_w l) (l_h l)).

  Lemma inst_self : forall g r, inst r (g, lnodes g r) = g.
  Proof.
    intros g r. unfold inst, upd_layer, with_L. cbn [fst snd].
    rewrite (upd_id _ (g_L g) r _ layer0); [destruct g; reflexivity|].
    unfold lnodes, glayer. destruct (nth r (g_L g) layer0); reflexivity.
  Qed.

  Lemma inst_lnodes : forall g nodes r, (r < length (g_L g))%nat -> lnodes (inst r (g, nodes)) r = nodes.
  Proof. intros g nodes r H. unfold inst, lnodes. cbn [fst snd]. rewrite glayer_upd_layer_same by exact H. reflexivity. Qed.

  Lemma inst_swap : forall g nodes r i j, (r < length (g_L g))%nat ->
    inst r (swap_pos g (nth i nodes 0%nat) (nth j nodes 0%nat), swap_list nodes i j) = swapped (inst r (g, nodes)) r i j.
  Proof.
    intros g nodes r i j H. unfold swapped. rewrite (inst_lnodes g nodes r H).
    unfold inst, upd_layer, with_L. cbn [fst snd].
    unfold swap_pos, upd_node, with_na, pos_of, gnode. cbn [g_na g_ea g_N g_E g_L].
    f_equal. rewrite upd_upd_same. apply upd_ext. intros x. reflexivity.
  Qed.

  Lemma skip_unset_ge : forall fuel ms nodes i ep, (i <= skip_unset fuel ms nodes i ep)%nat.
  Proof.
    induction fuel as [|f IH]; intros ms nodes i ep; cbn [skip_unset]; [lia|].
    destruct (_ && _); [specialize (IH ms nodes (S i) ep); lia|lia].
  Qed.

  Lemma sl_pass_inv : forall r fuel flip ms ep lp g nodes,
    (r < length (g_L g))%nat -> (ep <= length nodes)%nat -> Inv (inst r (g, nodes)) ->
    Inv (inst r (sl_pass fuel flip ms ep lp (g, nodes))) /\
    g_L (fst (sl_pass fuel flip ms ep lp (g, nodes))) = g_L g /\
    length (snd (sl_pass fuel flip ms ep lp (g, nodes))) = length nodes.
  Proof.
    intros r; induction fuel as [|f IH]; intros flip ms ep lp g nodes Hr Hep I; cbn [sl_pass]; [auto|].
    destruct (negb (lp <? ep)%nat); [auto|].
    set (lp' := skip_unset (length nodes) ms nodes lp ep).
    destruct (negb (lp' <? ep)%nat) eqn:E1; [auto|].
    set (rp := skip_unset (length nodes) ms nodes (S lp') ep).
    destruct (negb (rp <? ep)%nat) eqn:E2; [auto|].
    apply negb_false_iff in E1. apply Nat.ltb_lt in E1.
    apply negb_false_iff in E2. apply Nat.ltb_lt in E2.
    assert (Hrp : (S lp' <= rp)%nat) by apply skip_unset_ge.
    destruct (Qlt_bool _ _ || _).
    - destruct (IH flip ms ep rp (swap_pos g (nth lp' nodes 0%nat) (nth rp nodes 0%nat)) (swap_list nodes lp' rp)) as [A [B C]].
      + exact Hr.
      + rewrite swap_list_length. exact Hep.
      + rewrite inst_swap by exact Hr. apply Inv_swapped; [exact I| | |lia]; rewrite inst_lnodes by exact Hr; lia.
      + split; [exact A|]. split; [exact B|]. rewrite C. apply swap_list_length.
    - apply IH; assumption.
  Qed.

  Lemma sl_iters_inv : forall r iters flip ms ep g nodes,
    (r < length (g_L g))%nat -> (ep <= length nodes)%nat -> Inv (inst r (g, nodes)) ->
    Inv (inst r (sl_iters iters flip ms ep (g, nodes))).
  Proof.
    intros r; induction iters as [|k IH]; intros flip ms ep g nodes Hr Hep I; cbn [sl_iters]; [exact I|].
    cbn [snd].
    destruct (sl_pass_inv r (S (length nodes)) flip ms ep 0 g nodes Hr Hep I) as [A [B C]].
    destruct (sl_pass (S (length nodes)) flip ms ep 0 (g, nodes)) as [g1 nodes1] eqn:E.
    cbn [fst snd] in *. apply IH; [rewrite B; exact Hr| |exact A].
    rewrite C. destruct flip; lia.
  Qed.

  Lemma sort_layer_inv : forall flip ms g r, (r < length (g_L g))%nat -> Inv g -> Inv (sort_layer flip ms g r).
  Proof.
    intros flip ms g r Hr I. unfold sort_layer.
    fold (lnodes g r).
    pose proof (sl_iters_inv r (length (lnodes g r)) flip ms (length (lnodes g r)) g (lnodes g r) Hr (Nat.le_refl _)) as H.
    rewrite inst_self in H. specialize (H I).
    destruct (sl_iters _ _ _ _ _) as [g1 nodes1]. exact H.
  Qed.

  Lemma sweep_layer_fst : forall down flip g ms r, exists ms', fst (sweep_layer down flip (g, ms) r) = sort_layer flip ms' g r.
  Proof. intros. unfold sweep_layer. eexists. reflexivity. Qed.

  Lemma sweep_fold_inv : forall down flip rs acc,
    (forall r, In r rs -> (r < length (g_L g0))%nat) -> Inv (fst acc) ->
    Inv (fst (fold_left (sweep_layer down flip) rs acc)).
  Proof.
    intros down flip; induction rs as [|r rs IH]; intros acc Hrs I; cbn [fold_left]; [exact I|].
    apply IH; [intros r' Hr'; apply Hrs; right; exact Hr'|].
    destruct acc as [g ms]. destruct (sweep_layer_fst down flip g ms r) as [ms' ->].
    apply sort_layer_inv; [|exact I]. cbn [fst] in I. rewrite (Inv_L g I). apply Hrs; left; reflexivity.
  Qed.

  Lemma wmedian_sweep_inv : forall down flip g, Inv g -> Inv (wmedian_sweep down flip g).
  Proof.
    intros down flip g I. unfold wmedian_sweep. apply sweep_fold_inv; [|exact I].
    intros r Hr. rewrite <- (Inv_L g I). destruct down.
    - apply in_iota in Hr. lia.
    - apply in_rev in Hr. apply in_iota in Hr. lia.
  Qed.

  (* ---------- transpose ---------- *)
  Lemma transpose_layer_inv : forall l acc, Inv (fst acc) -> Inv (fst (transpose_layer acc l)).
  Proof.
    intros l acc I. unfold transpose_layer.
    assert (Hi : forall i, In i (iota 0 (length (l_nodes (glayer (fst acc) l)) - 2)) -> (S i < length (lnodes g0 l))%nat).
    { intros i Hi. apply in_iota in Hi. rewrite <- (Inv_len (fst acc) l I). unfold lnodes. lia. }
    revert Hi. generalize (iota 0 (length (l_nodes (glayer (fst acc) l)) - 2)). intros is_.
    revert acc I. induction is_ as [|i is_ IH]; intros acc I Hi; cbn [fold_left]; [exact I|].
    apply IH; [|intros i' Hi'; apply Hi; right; exact Hi'].
    destruct acc as [g improved]. cbn [fst] in I.
    destruct (_ <? _); [|exact I]. cbn [fst].
    change (Inv (swapped g l i (S i))).
    assert (H := Hi i (or_introl eq_refl)). rewrite <- (Inv_len g l I) in H.
    apply Inv_swapped; [exact I|lia|exact H|lia].
  Qed.

  Lemma transpose_fold_inv : forall ls acc, Inv (fst acc) -> Inv (fst (fold_left transpose_layer ls acc)).
  Proof.
    induction ls as [|l ls IH]; intros acc I; cbn [fold_left]; [exact I|].
    apply IH. apply transpose_layer_inv. exact I.
  Qed.

  Lemma transpose_inv : forall fuel g g', Inv g -> transpose fuel g = Ok g' -> Inv g'.
  Proof.
    induction fuel as [|f IH]; intros g g' I H; cbn [transpose] in H; [discriminate|].
    pose proof (transpose_fold_inv (iota 0 (length (g_L g))) (g, false) I) as I1.
    destruct (fold_left transpose_layer (iota 0 (length (g_L g))) (g, false)) as [g1 improved].
    cbn [fst] in I1. destruct improved; [apply (IH g1); assumption|].
    injection H as <-. exact I1.
  Qed.

  (* ---------- the iteration ---------- *)
  (* (bestx, bestp) is a snapshot taken at a moment when the invariant held *)
  Definition snap (bestx : Z) (bestp : list Z) : Prop :=
    exists gs, Inv gs /\ bestx = reported_crossings gs /\ bestp = positions gs.

  Lemma wm_iter_inv : forall k i flip g bestx bestp g' bx bp,
    Inv g -> snap bestx bestp -> wm_iter k i flip g bestx bestp = Ok (g', bx, bp) ->
    Inv g' /\ snap bx bp.
  Proof.
    induction k as [|k IH]; intros i flip g bestx bestp g' bx bp I Sn H; cbn [wm_iter] in H.
    - injection H as <- <- <-. split; assumption.
    - set (g1 := wmedian_sweep (Nat.even i) flip g) in *.
      assert (I1 : Inv g1) by (apply wmedian_sweep_inv; exact I).
      destruct (transpose (S (Z.to_nat (reported_crossings g1))) g1) as [g2|e] eqn:ET; cbn [bind] in H; [|discriminate].
      assert (I2 : Inv g2) by (eapply transpose_inv; eassumption).
      destruct (reported_crossings g2 <? bestx).
      + assert (S2 : snap (reported_crossings g2) (positions g2)) by (exists g2; auto).
        destruct (reported_crossings g2 =? 0).
        * injection H as <- <- <-. split; assumption.
        * eapply IH; eassumption.
      + destruct (bestx =? 0).
        * injection H as <- <- <-. split; assumption.
        * eapply IH; eassumption.
  Qed.
End Heuristic.

(* ====================================================================================================== *)
(* 4. initPositions: the DFS numbers the nodes of every layer consecutively                               *)
(* ====================================================================================================== *)
(* the inner loop of init_pos as a top-level function *)
Fixpoint ip_loop (F : nat -> ip_st -> res ip_st) (top : bool) (es : list nat) (st : ip_st) : res ip_st :=
  match es with
  | [] => Ok st
  | e :: t =>
      let '(g, _, _) := st in
      let m := if top then e_to (gedge g e) else e_from (gedge g e) in
      do st' <- F m st; ip_loop F top t st'
  end.

Lemma init_pos_S : forall top f n g vis idx,
  init_pos top (S f) n (g, vis, idx) =
  if mem_nat n vis then Ok (g, vis, idx) else
  let ln := layer_of g n in
  let g1 := upd_node g n (set_pos (idx_get idx ln)) in
  ip_loop (init_pos top f) top (if top then n_out (gnode g1 n) else n_in (gnode g1 n))
          (g1, n :: vis, (ln, idx_get idx ln + 1) :: idx).
Proof.
  intros top f n g vis idx. cbn [init_pos]. destruct (mem_nat n vis); [reflexivity|]. cbv zeta.
  generalize (if top
              then n_out (gnode (upd_node g n (set_pos (idx_get idx (layer_of g n)))) n)
              else n_in (gnode (upd_node g n (set_pos (idx_get idx (layer_of g n)))) n)).
  generalize (upd_node g n (set_pos (idx_get idx (layer_of g n))), n :: vis,
              (layer_of g n, idx_get idx (layer_of g n) + 1) :: idx).
  intros st es. revert st. induction es as [|e t IH]; intros st; [reflexivity|].
  cbn [ip_loop]. destruct st as [[g' vis'] idx'].
  destruct (init_pos top f _ _) as [st'|er]; cbn [bind]; [apply IH|reflexivity].
Qed.

Definition st_vis (st : ip_st) : list nat := snd (fst st).
Definition st_g (st : ip_st) : graph := fst (fst st).
Definition st_idx (st : ip_st) : list (Z * Z) := snd st.

Section InitPositions.
  Variable g0 : graph.
  Hypothesis L0 : layered g0.

  Definition in_layer (ln : Z) (m : nat) : bool := layer_of g0 m =? ln.
  Definition lcnt (ln : Z) (vis : list nat) : nat := length (filter (in_layer ln) vis).

  (* vis is the list of visited nodes, most recent first: the position of a node is the number of nodes of its
     layer that were visited before it *)
  Fixpoint vis_ok (g : graph) (vis : list nat) : Prop :=
    match vis with
    | [] => True
    | n :: b => pos_of g n = Z.of_nat (lcnt (layer_of g0 n) b) /\ ~ In n b /\ vis_ok g b
    end.

  Definition ip_inv (st : ip_st) : Prop :=
    oframe g0 (st_g st) /\ g_L (st_g st) = g_L g0 /\ (forall n, In n (st_vis st) -> In n (g_N g0)) /\
    vis_ok (st_g st) (st_vis st) /\ (forall ln, idx_get (st_idx st) ln = Z.of_nat (lcnt ln (st_vis st))).

  Lemma vis_ok_ext : forall g g' vis, (forall m, In m vis -> pos_of g' m = pos_of g m) -> vis_ok g vis -> vis_ok g' vis.
  Proof.
    intros g g'; induction vis as [|n b IH]; intros H V; [exact I|].
    cbn [vis_ok] in *. destruct V as [V1 [V2 V3]]. split; [rewrite H by (left; reflexivity); exact V1|].
    split; [exact V2|]. apply IH; [intros m Hm; apply H; right; exact Hm|exact V3].
  Qed.

  Lemma vis_ok_nodup : forall g vis, vis_ok g vis -> NoDup vis.
  Proof.
    intros g; induction vis as [|n b IH]; intros V; [constructor|].
    cbn [vis_ok] in V. destruct V as [_ [V2 V3]]. constructor; [exact V2|apply IH; exact V3].
  Qed.

  Lemma ip_visit : forall g vis idx n,
    ip_inv (g, vis, idx) -> In n (g_N g0) -> ~ In n vis ->
    ip_inv (upd_node g n (set_pos (idx_get idx (layer_of g n))), n :: vis,
            (layer_of g n, idx_get idx (layer_of g n) + 1) :: idx).
  Proof.
    intros g vis idx n [F [HL [HN [V HI]]]] Hn Hnv. unfold ip_inv, st_g, st_vis, st_idx in *. cbn [fst snd] in *.
    assert (El : layer_of g n = layer_of g0 n) by (apply of_layer_of; exact F).
    assert (Hr : (n < length (g_na g))%nat) by (rewrite (of_na _ _ F); apply (ly_range _ L0); exact Hn).
    split; [eapply oframe_trans; [exact F|apply oframe_upd_pos]|].
    split; [exact HL|].
    split; [intros m [<-|Hm]; [exact Hn|apply HN; exact Hm]|].
    split.
    - cbn [vis_ok]. split; [|split; [exact Hnv|]].
      + rewrite pos_of_upd_same by exact Hr. rewrite HI, El. reflexivity.
      + apply (vis_ok_ext g); [|exact V]. intros m Hm. apply pos_of_upd_other. intros ->. contradiction.
    - intros ln. cbn [idx_get]. unfold lcnt. cbn [filter]. unfold in_layer at 1. rewrite <- El.
      destruct (layer_of g n =? ln) eqn:E.
      + apply Z.eqb_eq in E. subst ln. cbn [length]. rewrite HI. unfold lcnt. lia.
      + apply HI.
  Qed.

  Section Loop.
    Variable top : bool.
    Variable f : nat.
    Hypothesis IHf : forall n st st', In n (g_N g0) -> ip_inv st -> init_pos top f n st = Ok st' ->
      ip_inv st' /\ (forall m, In m (st_vis st) -> In m (st_vis st')) /\ In n (st_vis st').

    Lemma ip_loop_inv : forall es st st',
      (forall e, In e es -> In (if top then e_to (gedge g0 e) else e_from (gedge g0 e)) (g_N g0)) ->
      ip_inv st -> ip_loop (init_pos top f) top es st = Ok st' ->
      ip_inv st' /\ (forall m, In m (st_vis st) -> In m (st_vis st')).
    Proof.
      induction es as [|e t IH]; intros st st' Hes Iv H; cbn [ip_loop] in H.
      - injection H as <-. split; [exact Iv|auto].
      - destruct st as [[g vis] idx].
        assert (Eg : gedge g e = gedge g0 e) by (apply of_gedge; apply Iv).
        rewrite Eg in H.
        destruct (init_pos top f _ (g, vis, idx)) as [st1|er] eqn:E1; cbn [bind] in H; [|discriminate].
        destruct (IHf _ _ _ (Hes e (or_introl eq_refl)) Iv E1) as [I1 [M1 _]].
        destruct (IH st1 st' (fun e' He' => Hes e' (or_intror He')) I1 H) as [I2 M2].
        split; [exact I2|]. intros m Hm. apply M2, M1, Hm.
    Qed.
  End Loop.

  Lemma init_pos_inv : forall top fuel n st st',
    In n (g_N g0) -> ip_inv st -> init_pos top fuel n st = Ok st' ->
    ip_inv st' /\ (forall m, In m (st_vis st) -> In m (st_vis st')) /\ In n (st_vis st').
  Proof.
    intros top; induction fuel as [|f IH]; intros n st st' Hn Iv H; [discriminate|].
    destruct st as [[g vis] idx]. rewrite init_pos_S in H.
    destruct (mem_nat n vis) eqn:Em.
    - injection H as <-. split; [exact Iv|]. split; [auto|]. apply mem_nat_In in Em. exact Em.
    - apply mem_nat_false in Em. cbv zeta in H.
      pose proof (ip_visit g vis idx n Iv Hn Em) as I1.
      assert (F : oframe g0 g) by apply Iv.
      apply (ip_loop_inv top f IH) in H; [| |exact I1].
      + destruct H as [I2 M2]. split; [exact I2|]. unfold st_vis in *. cbn [fst snd] in *.
        split; [intros m Hm; apply M2; right; exact Hm|apply M2; left; reflexivity].
      + set (g1 := upd_node g n (set_pos (idx_get idx (layer_of g n)))).
        assert (F1 : oframe g0 g1) by (eapply oframe_trans; [exact F|apply oframe_upd_pos]).
        intros e He. destruct top.
        * rewrite (of_n_out _ _ n F1) in He. apply (ly_out _ L0 n Hn) in He. apply (ly_ends _ L0). tauto.
        * rewrite (of_n_in _ _ n F1) in He. apply (ly_in _ L0 n Hn) in He. apply (ly_ends _ L0). tauto.
  Qed.

  Lemma ip_fold_err : forall top fuel l e,
    fold_left (fun (r : res ip_st) n => do st <- r; init_pos top fuel n st) l (Err e) = Err e.
  Proof. intros top fuel; induction l as [|x l IH]; intros e; [reflexivity|]. cbn [fold_left bind]. apply IH. Qed.

  Lemma ip_fold_inv : forall top fuel l st st',
    (forall n, In n l -> In n (g_N g0)) -> ip_inv st ->
    fold_left (fun (r : res ip_st) n => do st <- r; init_pos top fuel n st) l (Ok st) = Ok st' ->
    ip_inv st' /\ (forall m, In m (st_vis st) -> In m (st_vis st')) /\ (forall n, In n l -> In n (st_vis st')).
  Proof.
    intros top fuel; induction l as [|x l IH]; intros st st' Hl Iv H; cbn [fold_left bind] in H.
    - injection H as <-. split; [exact Iv|]. split; [auto|intros n []].
    - destruct (init_pos top fuel x st) as [st1|er] eqn:E1; [|rewrite ip_fold_err in H; discriminate].
      destruct (init_pos_inv top fuel x st st1 (Hl x (or_introl eq_refl)) Iv E1) as [I1 [M1 X1]].
      destruct (IH st1 st' (fun n Hn => Hl n (or_intror Hn)) I1 H) as [I2 [M2 X2]].
      split; [exact I2|]. split; [intros m Hm; apply M2, M1, Hm|].
      intros n [<-|Hn]; [apply M2, X1|apply X2, Hn].
  Qed.

  (* the positions of the visited nodes of a layer, most recent first, are c-1, ..., 0 *)
  Lemma vis_ok_positions : forall g vis ln, vis_ok g vis ->
    map (pos_of g) (filter (in_layer ln) vis) = rev (zidx (lcnt ln vis)).
  Proof.
    intros g vis ln; induction vis as [|n b IH]; intros V; [reflexivity|].
    cbn [vis_ok] in V. destruct V as [V1 [V2 V3]]. unfold lcnt in *. cbn [filter].
    destruct (in_layer ln n) eqn:E; [|apply IH; exact V3].
    cbn [map length]. rewrite (IH V3). unfold zidx. rewrite iota_snoc, map_app. cbn [map Nat.add]. rewrite rev_unit.
    f_equal. rewrite V1. unfold in_layer in E. apply Z.eqb_eq in E. rewrite E. reflexivity.
  Qed.

  Definition posperm (g : graph) : Prop :=
    forall k, Permutation (map (pos_of g) (lnodes g k)) (zidx (length (lnodes g k))).

  Theorem init_positions_spec : forall top g',
    init_positions top g0 = Ok g' -> oframe g0 g' /\ g_L g' = g_L g0 /\ posperm g'.
  Proof.
    intros top g' H. unfold init_positions in H.
    set (first := if top then l_nodes (glayer g0 0) else l_nodes (glayer g0 (length (g_L g0) - 1))) in H.
    destruct (fold_left (fun (r : res ip_st) n => do st <- r; init_pos top (S (length (g_na g0))) n st)
                        (first ++ g_N g0) (Ok (g0, [], []))) as [st|er] eqn:E; cbn [bind] in H; [|discriminate].
    destruct st as [[g1 vis] idx]. injection H as ->.
    assert (I0 : ip_inv (g0, [], [])).
    { unfold ip_inv, st_g, st_vis, st_idx; cbn [fst snd]. split; [apply oframe_refl|]. split; [reflexivity|].
      split; [intros n []|]. split; [exact I|]. intros ln. reflexivity. }
    apply ip_fold_inv in E; [| |exact I0].
    2:{ intros n Hn. apply in_app_or in Hn. destruct Hn as [Hn|Hn]; [|exact Hn].
        unfold first in Hn. destruct top; apply (ly_layer _ L0) in Hn; tauto. }
    destruct E as [[F [HL [HN [V HI]]]] [_ X]]. unfold st_g, st_vis, st_idx in *. cbn [fst snd] in *.
    split; [exact F|]. split; [exact HL|].
    intros k.
    assert (EL : lnodes g' k = lnodes g0 k) by (unfold lnodes, glayer; rewrite HL; reflexivity).
    rewrite EL.
    assert (P : Permutation (lnodes g0 k) (filter (in_layer (Z.of_nat k)) vis)).
    { apply NoDup_Permutation; [apply (ly_nodup _ L0)|apply NoDup_filter; apply (vis_ok_nodup g'); exact V|].
      intros n. rewrite (ly_layer _ L0), filter_In. unfold in_layer. rewrite Z.eqb_eq. split.
      - intros [Hn Hl]. split; [apply X; apply in_or_app; right; exact Hn|exact Hl].
      - intros [Hn Hl]. split; [apply HN; exact Hn|exact Hl]. }
    eapply perm_trans; [apply Permutation_map; exact P|].
    rewrite (vis_ok_positions g' vis (Z.of_nat k) V).
    rewrite (Permutation_length P). unfold lcnt. apply Permutation_sym, Permutation_rev.
  Qed.
End InitPositions.

(* ---------- sort_layers ---------- *)
Lemma glayer_sort_layers : forall g k,
  glayer (sort_layers g) k = mkLayer (sort_by_pos g (lnodes g k)) (l_w (glayer g k)) (l_h (glayer g k)).
Proof.
  intros g k. unfold sort_layers, glayer, with_L, lnodes; cbn [g_L].
  change layer0 with ((fun l => mkLayer (sort_by_pos g (l_nodes l)) (l_w l) (l_h l)) layer0) at 1.
  rewrite map_nth. reflexivity.
Qed.

Lemma sort_layers_spec : forall g, posperm g -> oframe g (sort_layers g) /\ posidx (sort_layers g).
Proof.
  intros g PP. split.
  - constructor; try reflexivity.
    + unfold sort_layers, with_L; cbn [g_L]. apply map_length.
    + intros k. unfold lnodes at 1. rewrite glayer_sort_layers. cbn [l_w l_h l_nodes].
      repeat split. apply isort_perm.
  - intros k j Hj. unfold lnodes in *. rewrite glayer_sort_layers in *. cbn [l_nodes] in *.
    change (pos_of (sort_layers g)) with (pos_of g). unfold sort_by_pos in *.
    apply (map_key_nth (pos_of g) _ (length (lnodes g k))).
    + apply isort_index. apply PP.
    + rewrite (Permutation_length (isort_perm (pos_of g) (lnodes g k))) in Hj. exact Hj.
Qed.

Lemma posidx_posperm : forall g, posidx g -> posperm g.
Proof. intros g P k. rewrite (nth_map_key (pos_of g) (lnodes g k) (P k)). apply Permutation_refl. Qed.

Lemma posperm_frame : forall g g', posperm g -> oframe g g' -> (forall k n, In n (lnodes g k) -> pos_of g' n = pos_of g n) ->
  posperm g'.
Proof.
  intros g g' PP F Hp k. destruct (of_layer _ _ F k) as [_ [_ P]].
  rewrite (Permutation_length P).
  eapply perm_trans; [apply Permutation_map; exact P|].
  rewrite (map_ext_in (pos_of g') (pos_of g)); [apply PP|]. intros n Hn. apply (Hp k); exact Hn.
Qed.

(* ====================================================================================================== *)
(* 5. the cross counter does not look at the order of the layer lists                                     *)
(* ====================================================================================================== *)
Lemma radix_targets_ext : forall m n p1 p2, (forall x, In x p1 <-> In x p2) -> radix_targets m n p1 = radix_targets m n p2.
Proof.
  intros m n p1 p2 H. unfold radix_targets. apply flat_map_ext_eq. intros i. apply flat_map_ext_eq. intros j.
  destruct (has_pair (Z.of_nat i, Z.of_nat j) p1) eqn:E1; destruct (has_pair (Z.of_nat i, Z.of_nat j) p2) eqn:E2;
    try reflexivity; exfalso.
  - apply has_pair_In in E1. apply H in E1. apply has_pair_In in E1. congruence.
  - apply has_pair_In in E2. apply H in E2. apply has_pair_In in E2. congruence.
Qed.

Section Congruence.
  Variable R : nat -> Prop.
  Variables g1 g2 : graph.
  Hypothesis Hea : g_ea g1 = g_ea g2.
  Hypothesis HR : forall n, R n -> gnode g1 n = gnode g2 n.
  Hypothesis HL : forall k n, In n (lnodes g1 k) -> R n.
  Hypothesis HE : forall n e, R n -> In e (all_edges g1 n) -> R (e_from (gedge g1 e)) /\ R (e_to (gedge g1 e)).
  Hypothesis HP : forall k, Permutation (lnodes g1 k) (lnodes g2 k).

  Lemma congr_gedge : forall e, gedge g1 e = gedge g2 e.
  Proof. intros e. unfold gedge. rewrite Hea. reflexivity. Qed.

  Lemma congr_cc_fun : forall ui li n e, R n -> In e (all_edges g1 n) -> cc_fun g1 ui li e = cc_fun g2 ui li e.
  Proof.
    intros ui li n e Hn He. destruct (HE n e Hn He) as [Rf Rt].
    unfold cc_fun, layer_of, pos_of. rewrite <- !congr_gedge. rewrite <- (HR _ Rf), <- (HR _ Rt). reflexivity.
  Qed.

  Lemma congr_cc_pairs : forall ui li k x,
    In x (cc_pairs g1 ui li (lnodes g1 k)) <-> In x (cc_pairs g2 ui li (lnodes g2 k)).
  Proof.
    intros ui li k x. rewrite !cc_pairs_flat, !in_flat_map. split.
    - intros [n [Hn H]]. apply in_flat_map in H. destruct H as [e [He H]].
      assert (Rn : R n) by (apply (HL k); exact Hn).
      exists n. split; [apply (Permutation_in _ (HP k)); exact Hn|].
      apply in_flat_map. exists e. split.
      + unfold all_edges in *. rewrite <- (HR _ Rn). exact He.
      + rewrite <- (congr_cc_fun ui li n e Rn He). exact H.
    - intros [n [Hn H]]. apply in_flat_map in H. destruct H as [e [He H]].
      apply (Permutation_in _ (Permutation_sym (HP k))) in Hn.
      assert (Rn : R n) by (apply (HL k); exact Hn).
      assert (He1 : In e (all_edges g1 n)) by (unfold all_edges in *; rewrite (HR _ Rn); exact He).
      exists n. split; [exact Hn|].
      apply in_flat_map. exists e. split; [exact He1|].
      rewrite (congr_cc_fun ui li n e Rn He1). exact H.
  Qed.

  Lemma count_crossings_congr : forall i1 i2, count_crossings g1 i1 i2 = count_crossings g2 i1 i2.
  Proof.
    intros i1 i2. unfold count_crossings.
    pose proof (Permutation_length (HP i1)) as E1. pose proof (Permutation_length (HP i2)) as E2.
    unfold lnodes in E1, E2. rewrite E1, E2.
    destruct (_ || _); [reflexivity|].
    destruct (Nat.ltb _ _); rewrite ?E1, ?E2; f_equal; apply radix_targets_ext; intros x.
    - apply (congr_cc_pairs _ _ i1 x).
    - apply (congr_cc_pairs _ _ i2 x).
  Qed.

  Lemma reported_crossings_congr : length (g_L g1) = length (g_L g2) -> reported_crossings g1 = reported_crossings g2.
  Proof.
    intros HLen. unfold reported_crossings. rewrite HLen. apply fold_left_add_ext.
    intros i _. apply count_crossings_congr.
  Qed.
End Congruence.

(* ====================================================================================================== *)
(* 6. wmedian_run and exec_wmedian                                                                        *)
(* ====================================================================================================== *)
Lemma oframe_sym : forall g g', oframe g g' -> oframe g' g.
Proof.
  intros g g' [A B C D E F G]. constructor; try congruence.
  - intros k. destruct (G k) as [P [Q S]]. repeat split; [congruence|congruence|apply Permutation_sym; exact S].
Qed.

Lemma Inv_trans : forall g0 g1 g2, oframe g0 g1 -> Inv g1 g2 -> Inv g0 g2.
Proof. intros g0 g1 g2 F [F' P]. split; [eapply oframe_trans; eassumption|exact P]. Qed.

Lemma snap_trans : forall g0 g1 x p, oframe g0 g1 -> snap g1 x p -> snap g0 x p.
Proof. intros g0 g1 x p F [gs [I [E1 E2]]]. exists gs. split; [apply (Inv_trans g0 g1); assumption|auto]. Qed.

Lemma wmedian_run_inv : forall maxiter top g g' bx bp,
  layered g -> wmedian_run maxiter top g = Ok (g', bx, bp) -> Inv g g' /\ snap g bx bp.
Proof.
  intros maxiter top g g' bx bp L H. unfold wmedian_run in H.
  destruct (init_positions top g) as [gi|er] eqn:E; cbn [bind] in H; [|discriminate].
  destruct (init_positions_spec g L top gi E) as [F [_ PP]].
  destruct (sort_layers_spec gi PP) as [F' PI].
  assert (I1 : Inv g (sort_layers gi)) by (split; [eapply oframe_trans; eassumption|exact PI]).
  assert (S1 : snap g (reported_crossings (sort_layers gi)) (positions (sort_layers gi))) by (exists (sort_layers gi); auto).
  destruct (reported_crossings (sort_layers gi) =? 0).
  - injection H as <- <- <-. split; assumption.
  - eapply wm_iter_inv; eassumption.
Qed.

Lemma install_spec : forall (p : list Z) ns g,
  let gf := fold_left (fun g n => upd_node g n (set_pos (nth n p 0))) ns g in
  oframe g gf /\ g_L gf = g_L g /\
  (forall n, In n ns -> (n < length (g_na g))%nat -> pos_of gf n = nth n p 0) /\
  (forall n, ~ In n ns -> pos_of gf n = pos_of g n).
Proof.
  intros p; induction ns as [|x ns IH]; intros g; cbn [fold_left].
  - split; [apply oframe_refl|]. split; [reflexivity|]. split; [intros n []|reflexivity].
  - destruct (IH (upd_node g x (set_pos (nth x p 0)))) as [F [HL [H1 H2]]].
    split; [eapply oframe_trans; [apply oframe_upd_pos|exact F]|]. split; [exact HL|]. split.
    + intros n Hn Hr. destruct (in_dec Nat.eq_dec n ns) as [Hi|Hi].
      * apply H1; [exact Hi|rewrite upd_node_na_length; exact Hr].
      * destruct Hn as [->|Hn]; [|contradiction]. rewrite (H2 n Hi). apply pos_of_upd_same; exact Hr.
    + intros n Hn. rewrite H2 by (intros Hi; apply Hn; right; exact Hi).
      apply pos_of_upd_other. intros ->. apply Hn; left; reflexivity.
Qed.

Lemma nth_positions : forall g n, nth n (positions g) 0 = pos_of g n.
Proof.
  intros g n. unfold positions, pos_of, gnode. change 0 with (n_pos node0). apply map_nth.
Qed.

Lemma layered_all_edges : forall g n e, layered g -> In n (g_N g) -> In e (all_edges g n) ->
  In (e_from (gedge g e)) (g_N g) /\ In (e_to (gedge g e)) (g_N g).
Proof.
  intros g n e L Hn He. unfold all_edges in He. apply in_app_or in He. apply (ly_ends _ L).
  destruct He as [He|He]; [apply (ly_in _ L n Hn) in He|apply (ly_out _ L n Hn) in He]; tauto.
Qed.

(* installing a snapshot of positions and re-sorting the layers *)
Lemma install_snapshot : forall g g2 x p, layered g -> Inv g g2 -> snap g x p ->
  let gf := fold_left (fun g n => upd_node g n (set_pos (nth n p 0))) (g_N g2) g2 in
  order_contract g (sort_layers gf) /\ x = reported_crossings (sort_layers gf).
Proof.
  intros g g2 x p L [F2 _] [gs [[Fs Ps] [-> ->]]] gf.
  destruct (install_spec (positions gs) (g_N g2) g2) as [Ff [HLf [H1 _]]]. fold gf in Ff, HLf, H1.
  assert (Fgf : oframe g gf) by (apply (oframe_trans g g2 gf F2 Ff)).
  assert (Fsf : oframe gs gf) by (eapply oframe_trans; [apply oframe_sym; exact Fs|exact Fgf]).
  assert (Ls : layered gs) by (apply (layered_frame g); assumption).
  assert (Hpos : forall n, In n (g_N g) -> pos_of gf n = pos_of gs n).
  { intros n Hn. rewrite <- (nth_positions gs n). apply H1; [rewrite (of_N _ _ F2); exact Hn|].
    rewrite (of_na _ _ F2). apply (ly_range _ L); exact Hn. }
  assert (Hnode : forall n, In n (g_N g) -> gnode gs n = gnode gf n).
  { intros n Hn. apply set_pos_eq; [symmetry; apply (of_nodes _ _ Fsf)|symmetry; apply Hpos; exact Hn]. }
  assert (PPf : posperm gf).
  { apply (posperm_frame gs); [apply posidx_posperm; exact Ps|exact Fsf|].
    intros k n Hn. apply Hpos. apply (ly_layer _ Ls) in Hn. rewrite (of_N _ _ Fs) in Hn. tauto. }
  destruct (sort_layers_spec gf PPf) as [Fso PIso].
  split.
  - apply order_contract_iff. split; [apply (oframe_trans g gf _ Fgf Fso)|exact PIso].
  - apply (reported_crossings_congr (fun n => In n (g_N g))).
    + change (g_ea (sort_layers gf)) with (g_ea gf). rewrite (of_ea _ _ Fsf). reflexivity.
    + intros n Hn. change (gnode (sort_layers gf) n) with (gnode gf n). apply Hnode; exact Hn.
    + intros k n Hn. apply (ly_layer _ Ls) in Hn. rewrite (of_N _ _ Fs) in Hn. tauto.
    + intros n e Hn He. rewrite <- (of_N _ _ Fs) in *. apply (layered_all_edges gs n e Ls Hn He).
    + intros k. apply Permutation_sym. eapply perm_trans; [apply (of_layer _ _ Fso k)|apply (of_layer _ _ Fsf k)].
    + rewrite (of_L _ _ Fso), (of_L _ _ Fsf). reflexivity.
Qed.

(* W1 + W2 + W3 *)
Theorem exec_wmedian_contract : forall maxiter g g' x,
  layered g -> exec_wmedian maxiter g = Ok (g', x) -> order_contract g g' /\ x = reported_crossings g'.
Proof.
  intros maxiter g g' x L H. unfold exec_wmedian in H.
  destruct (existsb (is_flat g) (g_E g)); [discriminate|].
  destruct (wmedian_run maxiter true g) as [[[g1 xt] pt]|er] eqn:E1; cbn [bind] in H; [|discriminate].
  destruct (wmedian_run_inv maxiter true g g1 xt pt L E1) as [I1 S1].
  assert (L1 : layered g1) by (apply (layered_frame g); [exact L|apply I1]).
  destruct (wmedian_run maxiter false g1) as [[[g2 xb] pb]|er] eqn:E2; cbn [bind] in H; [|discriminate].
  destruct (wmedian_run_inv maxiter false g1 g2 xb pb L1 E2) as [I2 S2].
  apply (Inv_trans g g1 g2 (proj1 I1)) in I2. apply (snap_trans g g1 xb pb (proj1 I1)) in S2.
  destruct (xt <? xb); injection H as <- <-; apply install_snapshot; assumption.
Qed.
Print Assumptions exec_wmedian_contract.

(* the individual statements *)
Corollary W1_frame : forall maxiter g g' x, layered g -> exec_wmedian maxiter g = Ok (g', x) ->
  g_ea g' = g_ea g /\ g_N g' = g_N g /\ g_E g' = g_E g /\ length (g_na g') = length (g_na g) /\
  (forall n, set_pos 0 (gnode g' n) = set_pos 0 (gnode g n)) /\
  length (g_L g') = length (g_L g) /\
  (forall k, l_w (glayer g' k) = l_w (glayer g k) /\ l_h (glayer g' k) = l_h (glayer g k) /\
             Permutation (l_nodes (glayer g' k)) (l_nodes (glayer g k))).
Proof.
  intros maxiter g g' x L H. destruct (exec_wmedian_contract maxiter g g' x L H) as [[A B C D E F G _] _].
  repeat split; try assumption; apply G.
Qed.

Corollary W2_positions : forall maxiter g g' x, layered g -> exec_wmedian maxiter g = Ok (g', x) ->
  forall k j, (j < length (l_nodes (glayer g' k)))%nat -> pos_of g' (nth j (l_nodes (glayer g' k)) 0%nat) = Z.of_nat j.
Proof. intros maxiter g g' x L H. apply (exec_wmedian_contract maxiter g g' x L H). Qed.

Corollary W3_reported : forall maxiter g g' x, layered g -> exec_wmedian maxiter g = Ok (g', x) -> x = reported_crossings g'.
Proof. intros maxiter g g' x L H. apply (exec_wmedian_contract maxiter g g' x L H). Qed.

(* ---------- W3, second half: for simple graphs the reported number is the number of crossings of the drawing ---------- *)
Definition simple_edges (g : graph) : Prop :=
  NoDup (g_E g) /\ forall e1 e2, In e1 (g_E g) -> In e2 (g_E g) -> same_ends g e1 e2 -> e1 = e2.

Lemma layered_ordered_proper : forall g, layered g -> posidx g -> simple_edges g -> ordered_proper g.
Proof.
  intros g L P [S1 S2]. constructor.
  - exact P.
  - intros k u Hu. apply (ly_layer _ L) in Hu. tauto.
  - intros e He. destruct (ly_ends _ L e He) as [Hf Ht].
    split.
    + exists (Z.to_nat (layer_of g (e_from (gedge g e)))). apply (ly_layer _ L). split; [exact Hf|].
      pose proof (ly_lrange _ L _ Hf). lia.
    + exists (Z.to_nat (layer_of g (e_to (gedge g e)))). apply (ly_layer _ L). split; [exact Ht|].
      pose proof (ly_lrange _ L _ Ht). lia.
  - intros k n Hn e. apply (ly_layer _ L) in Hn. destruct Hn as [Hn _].
    unfold all_edges. rewrite in_app_iff, (ly_in _ L n Hn), (ly_out _ L n Hn). tauto.
  - exact S1.
  - exact S2.
Qed.

Lemma simple_edges_frame : forall g g', oframe g g' -> simple_edges g -> simple_edges g'.
Proof.
  intros g g' F [S1 S2]. split; [rewrite (of_E _ _ F); exact S1|].
  intros e1 e2 H1 H2 Hs. rewrite (of_E _ _ F) in H1, H2. apply S2; [exact H1|exact H2|].
  unfold same_ends in *. rewrite !(of_gedge _ _ _ F) in Hs. exact Hs.
Qed.

Theorem exec_wmedian_drawing : forall maxiter g g' x,
  layered g -> simple_edges g -> exec_wmedian maxiter g = Ok (g', x) ->
  ordered_proper g' /\ x = drawing_crossings g'.
Proof.
  intros maxiter g g' x L S H. destruct (exec_wmedian_contract maxiter g g' x L H) as [C ->].
  apply order_contract_iff in C. destruct C as [F P].
  assert (OP : ordered_proper g').
  { apply layered_ordered_proper; [apply (layered_frame g); assumption|exact P|apply (simple_edges_frame g); assumption]. }
  split; [exact OP|]. apply reported_crossings_exact. exact OP.
Qed.
Print Assumptions exec_wmedian_drawing.

(* ---------- W4: phase3_wmedian ---------- *)
Theorem phase3_wmedian_contract : forall maxiter g g' x,
  phase3_wmedian maxiter g = Ok (g', Some x) ->
  exists g1, break_long_edges g = Ok g1 /\
    (layered g1 -> order_contract g1 g' /\ x = reported_crossings g') /\
    (layered g1 -> simple_edges g1 -> ordered_proper g' /\ x = drawing_crossings g').
Proof.
  intros maxiter g g' x H. unfold phase3_wmedian in H.
  destruct (Nat.eqb (length (g_N g)) 1); [discriminate|].
  destruct (Nat.eqb (length (g_L g)) 1); [discriminate|].
  destruct (break_long_edges g) as [g1|er] eqn:E1; cbn [bind] in H; [|discriminate].
  destruct (exec_wmedian maxiter g1) as [[g2 x2]|er] eqn:E2; cbn [bind fst snd] in H; [|discriminate].
  injection H as <- <-. exists g1. split; [reflexivity|]. split.
  - intros L1. apply (exec_wmedian_contract maxiter); assumption.
  - intros L1 S1. apply (exec_wmedian_drawing maxiter g1); assumption.
Qed.
Print Assumptions phase3_wmedian_contract.

(* when phase3_wmedian reports nothing it does nothing *)
Lemma phase3_wmedian_none : forall maxiter g g', phase3_wmedian maxiter g = Ok (g', None) -> g' = g.
Proof.
  intros maxiter g g' H. unfold phase3_wmedian in H.
  destruct (Nat.eqb (length (g_N g)) 1); [injection H as <-; reflexivity|].
  destruct (Nat.eqb (length (g_L g)) 1); [injection H as <-; reflexivity|].
  destruct (break_long_edges g) as [g1|er]; cbn [bind] in H; [|discriminate].
  destruct (exec_wmedian maxiter g1) as [[g2 x2]|er]; cbn [bind] in H; discriminate.
Qed.

(* ====================================================================================================== *)
(* 7. an executable, sound check of [layered]; concrete instances                                         *)
(* ====================================================================================================== *)
Definition chk_adj_dir (g : graph) (n : nat) (adj : list nat) (endp : edge -> nat) : bool :=
  forallb (fun e => mem_nat e (g_E g) && Nat.eqb (endp (gedge g e)) n) adj &&
  forallb (fun e => implb (Nat.eqb (endp (gedge g e)) n) (mem_nat e adj)) (g_E g).

Definition layered_b (g : graph) : bool :=
  forallb (fun n => Nat.ltb n (length (g_na g))) (g_N g) &&
  forallb (fun k => forallb (fun n => mem_nat n (g_N g) && (layer_of g n =? Z.of_nat k)) (lnodes g k) &&
                    nodupb (lnodes g k)) (all_layers g) &&
  forallb (fun n => (0 <=? layer_of g n) && (layer_of g n <? Z.of_nat (length (g_L g))) &&
                    mem_nat n (lnodes g (Z.to_nat (layer_of g n)))) (g_N g) &&
  forallb (fun n => chk_adj_dir g n (n_out (gnode g n)) e_from && chk_adj_dir g n (n_in (gnode g n)) e_to) (g_N g) &&
  forallb (fun e => mem_nat (e_from (gedge g e)) (g_N g) && mem_nat (e_to (gedge g e)) (g_N g)) (g_E g).

Lemma chk_adj_dir_sound : forall g n adj endp, chk_adj_dir g n adj endp = true ->
  forall e, In e adj <-> (In e (g_E g) /\ endp (gedge g e) = n).
Proof.
  intros g n adj endp H e. unfold chk_adj_dir in H. apply andb_true_iff in H. destruct H as [H1 H2].
  rewrite forallb_forall in H1, H2. split.
  - intros He. specialize (H1 e He). apply andb_true_iff in H1. destruct H1 as [A B].
    split; [apply mem_nat_In; exact A|apply Nat.eqb_eq; exact B].
  - intros [He En]. specialize (H2 e He). apply Nat.eqb_eq in En. rewrite En in H2. cbn [implb] in H2.
    apply mem_nat_In; exact H2.
Qed.

Theorem layered_b_sound : forall g, layered_b g = true -> layered g.
Proof.
  intros g H. unfold layered_b in H.
  repeat (apply andb_true_iff in H; destruct H as [H ?]).
  rename H into C1, H3 into C2, H2 into C3, H1 into C4, H0 into C5.
  rewrite forallb_forall in C1, C2, C3, C4, C5.
  assert (A3 : forall n, In n (g_N g) -> 0 <= layer_of g n < Z.of_nat (length (g_L g)) /\
                                          In n (lnodes g (Z.to_nat (layer_of g n)))).
  { intros n Hn. specialize (C3 n Hn). apply andb_true_iff in C3. destruct C3 as [C3 M].
    apply andb_true_iff in C3. destruct C3 as [P Q]. apply Z.leb_le in P. apply Z.ltb_lt in Q.
    apply mem_nat_In in M. split; [lia|exact M]. }
  assert (A2 : forall k n, In n (lnodes g k) -> In n (g_N g) /\ layer_of g n = Z.of_nat k).
  { intros k n Hn. specialize (C2 k (in_all_layers _ _ _ Hn)). apply andb_true_iff in C2. destruct C2 as [C2 _].
    rewrite forallb_forall in C2. specialize (C2 n Hn). apply andb_true_iff in C2. destruct C2 as [P Q].
    apply mem_nat_In in P. apply Z.eqb_eq in Q. split; assumption. }
  constructor.
  - intros n Hn. apply Nat.ltb_lt. apply C1; exact Hn.
  - intros k n. split; [apply A2|]. intros [Hn Hl]. destruct (A3 n Hn) as [_ M]. rewrite Hl, Nat2Z.id in M. exact M.
  - intros k. destruct (Nat.lt_ge_cases k (length (g_L g))) as [Lk|Lk].
    + assert (Hk : In k (all_layers g)) by (unfold all_layers; apply in_iota; lia).
      specialize (C2 k Hk). apply andb_true_iff in C2. apply nodupb_NoDup. apply C2.
    + rewrite (lnodes_out g Lk). constructor.
  - intros n Hn. apply A3; exact Hn.
  - intros n Hn. specialize (C4 n Hn). apply andb_true_iff in C4. destruct C4 as [P _].
    apply chk_adj_dir_sound; exact P.
  - intros n Hn. specialize (C4 n Hn). apply andb_true_iff in C4. destruct C4 as [_ Q].
    apply chk_adj_dir_sound; exact Q.
  - intros e He. specialize (C5 e He). apply andb_true_iff in C5. destruct C5 as [P Q].
    split; apply mem_nat_In; assumption.
Qed.
Print Assumptions layered_b_sound.

Definition simple_edges_b (g : graph) : bool := nodupb (g_E g) && chk_simple g.

Lemma simple_edges_b_sound : forall g, simple_edges_b g = true -> simple_edges g.
Proof.
  intros g H. unfold simple_edges_b in H. apply andb_true_iff in H. destruct H as [H1 H2].
  split; [apply nodupb_NoDup; exact H1|].
  intros e1 e2 I1 I2 Hs. unfold chk_simple in H2. rewrite forallb_forall in H2. specialize (H2 e1 I1).
  rewrite forallb_forall in H2. specialize (H2 e2 I2).
  assert (E : same_ends_b g e1 e2 = true).
  { unfold same_ends_b. destruct Hs as [[P Q]|[P Q]]; rewrite P, Q, !Nat.eqb_refl; cbn; [reflexivity|apply orb_true_r]. }
  rewrite E in H2. cbn [implb] in H2. apply Nat.eqb_eq; exact H2.
Qed.

(* a graph with 4 layers (2, 4, 3, 2 nodes) and 11 edges, one pointing upward; every position is 0 on entry *)
Definition wx_node (i o : list nat) (l : nat) : node := mkNode i o (Z.of_nat l) 0 false 0 0 0 0.

Definition wx_graph : graph :=
  (mkGraph
    [ wx_node [] [0;1;2] 0;      (* 0 *)
      wx_node [10] [3;4] 0;      (* 1 *)
      wx_node [2] [5] 1;         (* 2 *)
      wx_node [4] [6] 1;         (* 3 *)
      wx_node [1;3] [7] 1;       (* 4 *)
      wx_node [0] [8;10] 1;      (* 5: edge 10 goes UP to node 1 *)
      wx_node [8] [] 2;          (* 6 *)
      wx_node [5;7] [9] 2;       (* 7 *)
      wx_node [6] [] 2;          (* 8 *)
      wx_node [9] [] 3;          (* 9 *)
      wx_node [] [] 3 ]          (* 10: isolated *)
    [ ex_edge 0 5; ex_edge 0 4; ex_edge 0 2; ex_edge 1 4; ex_edge 1 3; ex_edge 2 7;
      ex_edge 3 8; ex_edge 4 7; ex_edge 5 6; ex_edge 7 9; ex_edge 5 1 ]
    [0;1;2;3;4;5;6;7;8;9;10]
    [0;1;2;3;4;5;6;7;8;9;10]
    [ mkLayer [0;1] 0 0; mkLayer [2;3;4;5] 0 0; mkLayer [6;7;8] 0 0; mkLayer [9;10] 0 0 ])%nat.

Example wx_layered : layered wx_graph /\ simple_edges wx_graph.
Proof. split; [apply layered_b_sound|apply simple_edges_b_sound]; vm_compute; reflexivity. Qed.

Example wx_run :
  exists g', exec_wmedian 24 wx_graph = Ok (g', 1) /\
             map l_nodes (g_L g') = [[0;1]; [2;4;5;3]; [7;6;8]; [9;10]]%nat /\
             map n_pos (g_na g') = [0; 1; 0; 3; 1; 2; 1; 0; 2; 0; 1] /\
             reported_crossings g' = 1 /\ drawing_crossings g' = 1.
Proof. eexists. vm_compute. repeat split; reflexivity. Qed.

(* the same through the theorems *)
Example wx_run_thm : forall g' x, exec_wmedian 24 wx_graph = Ok (g', x) ->
  order_contract wx_graph g' /\ x = reported_crossings g' /\ x = drawing_crossings g'.
Proof.
  intros g' x H. destruct wx_layered as [L S].
  destruct (exec_wmedian_contract 24 wx_graph g' x L H) as [C E].
  destruct (exec_wmedian_drawing 24 wx_graph g' x L S H) as [_ D]. auto.
Qed.

(* W4 on an instance with two long edges (0 -> 2 downward, 2 -> 0 upward): breakLongEdges inserts the virtual nodes
   4 and 5 into layer 1 and its result satisfies [layered] and [simple_edges] *)
Definition p3_graph : graph :=
  (mkGraph
    [ wx_node [3] [0;2;4] 0;     (* 0 *)
      wx_node [0] [1] 1;         (* 1 *)
      wx_node [1;2;5] [3] 2;     (* 2: edge 3 goes UP two layers to node 0 *)
      wx_node [4] [5] 1 ]        (* 3 *)
    [ ex_edge 0 1; ex_edge 1 2; ex_edge 0 2; ex_edge 2 0; ex_edge 0 3; ex_edge 3 2 ]
    [0;1;2;3]
    [0;1;2;3;4;5]
    [ mkLayer [0] 0 0; mkLayer [1;3] 0 0; mkLayer [2] 0 0 ])%nat.

Example p3_run :
  exists g1 g', break_long_edges p3_graph = Ok g1 /\ layered g1 /\ simple_edges g1 /\
                g_N g1 = [0;1;2;3;4;5]%nat /\
                phase3_wmedian 24 p3_graph = Ok (g', Some 0) /\
                map l_nodes (g_L g') = [[0]; [1;5;4;3]; [2]]%nat /\
                map n_pos (g_na g') = [0; 0; 0; 3; 2; 1] /\ drawing_crossings g' = 0.
Proof.
  eexists. eexists. split; [vm_compute; reflexivity|].
  split; [apply layered_b_sound; vm_compute; reflexivity|].
  split; [apply simple_edges_b_sound; vm_compute; reflexivity|].
  vm_compute. repeat split; reflexivity.
Qed.
