(* C01 — Layout always returns: no panic, process abort, hang or runaway memory.
   Model: every Go panic site and every loop without an a-priori bound is explicit in the model: a distinct
   [Err] constructor per panic, explicit fuel per recursion/loop (Model/Base.v, [err]). "Layout returns" on the
   model is: [layout ... = Ok _]. Proved for all well-formed inputs — first stage by stage, then for the whole
   Layout (C01_layout_returns, at the end of this file):
   - Populate fails only on an edge that does not have exactly two ids (excluded by well-formedness);
   - phase 1 (both breakers) is total on every consistent loop-free component: no fuel exhaustion, no index
     error, and never "graph is still cyclic";
   - longest-path layering is total on every acyclic component;
   - breaking long edges is total on every feasible layering, merging them again is total afterwards;
   - VAlign, PackRight, assign_y, straight/orthogonal routing are total functions (no error value in their type).
   - network simplex: the initial layers, the tight-tree loop (one more node per round, by connectivity), the
     lim/low walk, the pivot loop and balancing all end within the model's fuel (Proofs/TotalNS.v, NSTotal.v);
   - the ordering heuristic: both initial orders; the transposition loop ends because every improving round
     strictly lowers the crossing count (Proofs/TotalWmedian.v);
   - SinkColoring: painting ends, and placeBlock reaches its fixpoint within |N|+2 rounds because the blocks of a
     properly layered, ordered graph are acyclically ranked (Proofs/TotalSink.v) — outside that class placeBlock
     really diverges (examples in that file), so its termination rests on phases 2-3 having run;
   - hence the whole Layout returns for every non-empty edge list of pairs and every combination of
     {Greedy, DepthFirst} x {LongestPath, NetworkSimplex} x {VAlign, PackRight, SinkColoring} x {Straight,
     Polyline, Ortho} (C01_layout_returns). The only side condition, thoroughness * sqrt(2|E|) <= 100000, is an
     artefact of the model's fuel cap on the pivot loop, not of the code.
   - the NetworkSimplex POSITIONER: the auxiliary graph is well-formed, acyclic and connected (Proofs/NSPositioner.v,
     TotalNSP2.v), network simplex with horizontal balancing returns (adjust_layers only recurses into strictly
     smaller subtrees of the spanning tree, Proofs/TotalNSP.v), hence Layout returns with that positioner too
     (C01_layout_returns_ns_positioner); the budget side condition is stated on the input alone because no band of
     a layering is empty, so at most |N| + |E|*|N| nodes exist after long edges are broken;
   - Brandes-Koepf (Model/BK.v, Model/PipelineBK.v): markConflicts, verticalAlign (blocks are cyclic lists with at
     most one node per layer), horizontalCompaction/placeBlock, balancing and the final assignment all return on
     every proper non-empty layering (Proofs/BKTotal*.v), and the state after phase 3 is one, hence Layout with
     PositioningBrandesKoepf and any WithBrandesKoepfLayout value returns (C01_layout_returns_brandes_koepf).
   C01_partial: NOT covered by a theorem: spline routing (the corridor it builds for edges spanning several bands is
   ill-formed and the router then panics or does not return: recorded finding `spline-corridor`). There the check
   relies on the correspondence and on a watchdog search of the implementation (wall clock and heap per call).
   Stack overflow, out-of-memory and wall-clock time are runtime behaviour that no Gallina model exhibits; the
   recorded finding `ns-positioner-slow` is of that kind. *)
From Coq Require Import List ZArith.
From Autog Require Import Graph Populate Phase1 Phase2 Phase3 Phase5 PopulateProofs CycleBreaking BreakMerge.
From Autog Require LongestPath.
Import ListNotations.

Theorem C01_populate_fails_only_on_arity : forall (A : Type) (eqA : A -> A -> bool) es,
  (exists ids g, populate A eqA es = Ok (ids, g)) <-> Forall (fun p => length p = 2%nat) es.
Proof. exact populate_ok_iff. Qed.
Print Assumptions C01_populate_fails_only_on_arity.

Theorem C01_phase1_total : forall alg g,
  consistent g -> no_self_loops g -> (alg = Greedy -> no_isolated_nodes g) -> exists g', phase1 alg g = Ok g'.
Proof. exact phase1_total. Qed.
Print Assumptions C01_phase1_total.

Theorem C01_phase1_never_still_cyclic : forall alg g,
  consistent g -> no_self_loops g -> (alg = Greedy -> no_isolated_nodes g) -> phase1 alg g <> Err ErrStillCyclic.
Proof. exact phase1_never_still_cyclic. Qed.
Print Assumptions C01_phase1_never_still_cyclic.

Theorem C01_longest_path_total : forall g,
  LongestPath.consistent g -> LongestPath.ranked g -> exists g', exec_longest_path g = Ok g'.
Proof. exact LongestPath.exec_longest_path_ok. Qed.
Print Assumptions C01_longest_path_total.

Theorem C01_break_and_merge_total : forall g0, break_pre g0 ->
  exists g1 g2 routes, break_long_edges g0 = Ok g1 /\ merge_long_edges g1 = Ok (g2, routes).
Proof.
  intros g0 H. destruct (break_merge_roundtrip g0 H) as (g1 & g2 & routes & A & B & _).
  exists g1, g2, routes. split; assumption.
Qed.
Print Assumptions C01_break_and_merge_total.

From Coq Require Import QArith.
From Autog Require Import Layout Pipeline E2EBackbone TotalNS TotalPipeline.

(* one component through the whole pipeline *)
Theorem C01_component_returns : forall o g,
  component_input g -> options_ok o -> p2_ready o g -> exists g' x, layout_component o g = Ok (g', x).
Proof. exact layout_component_total. Qed.
Print Assumptions C01_component_returns.

(* the whole Layout, from the raw edge list: every non-empty list of pairs, any identifiers, any size options *)
Theorem C01_layout_returns : forall (A : Type) (eqA : A -> A -> bool), (forall x y, eqA x y = true <-> x = y) ->
  forall o (fixed : option (Q * Q)) (sizes : option (list (A * (Q * Q)))) (es : list (list A)),
  es <> [] -> Forall (fun p => length p = 2%nat) es -> layout_options_ok A o es ->
  exists ids r, layout A eqA o fixed sizes es = Ok (ids, r).
Proof. exact layout_total. Qed.
Print Assumptions C01_layout_returns.

(* with the NetworkSimplex positioner (budget conditions on the input alone) *)
From Autog Require TotalNSP2.
Theorem C01_layout_returns_ns_positioner : forall (A : Type) (eqA : A -> A -> bool), (forall x y, eqA x y = true <-> x = y) ->
  forall o (fixed : option (Q * Q)) (sizes : option (list (A * (Q * Q)))) (es : list (list A)),
  es <> [] -> Forall (fun p => length p = 2%nat) es -> TotalNSP2.layout_options_ok_input A o es ->
  exists ids r, layout A eqA o fixed sizes es = Ok (ids, r).
Proof. exact TotalNSP2.layout_total'_input. Qed.
Print Assumptions C01_layout_returns_ns_positioner.

(* with Brandes-Koepf, every value of BrandesKoepfLayout *)
From Autog Require PipelineBK BKTotal3.
Theorem C01_layout_returns_brandes_koepf : forall (A : Type) (eqA : A -> A -> bool), (forall x y, eqA x y = true <-> x = y) ->
  forall bk o (fixed : option (Q * Q)) (sizes : option (list (A * (Q * Q)))) (es : list (list A)),
  es <> [] -> Forall (fun p => length p = 2%nat) es -> BKTotal3.layout_x_options_ok A o es ->
  exists ids r, PipelineBK.layout_x A eqA bk o fixed sizes es = Ok (ids, r).
Proof. exact BKTotal3.layout_x_total. Qed.
Print Assumptions C01_layout_returns_brandes_koepf.

(* the positioners on their own, on any proper non-empty layering *)
From Autog Require BK BKTotal BKTotal2.
Theorem C01_brandes_koepf_total : forall variant p g, BKTotal.bk_wf g -> exists g', BK.phase4_bk variant p g = Ok g'.
Proof. exact BKTotal2.phase4_bk_total. Qed.
Print Assumptions C01_brandes_koepf_total.

(* ---------- spline routing with the REAL corridor router ([shortest_geom] is Model/Geom.v's [shortest], the exact model
   of geom.Shortest): it returns whenever no edge spans more than one band, all widths are positive and the band
   spacing is positive — the corridor of an edge between two real nodes of adjacent bands is one rectangle, the start
   and end points are inside the router's class, the router answers the straight segment (C19, one rectangle) and the
   fitter is not called. This delimits the recorded finding `spline-corridor` from the other side. For every fitter
   and every choice of inner control points (Proofs/SplineShort*.v). ---------- *)
From Autog Require SplineStruct Splines PipelineSpl SplineShort SplineShort2 E2EBridge E2EBackbone.
Theorem C01_spline_routing_returns_without_long_edges :
  forall (fit : list Base.pt -> list Geom.rect -> Base.res (list (SplineStruct.piece Base.pt))) (mk_inner : Base.pt -> Base.pt -> Base.pt * Base.pt),
  forall bk o g,
  E2EBackbone.component_input g -> E2EBridge.modelled_p4 (Layout.o_p4 o) -> Layout.o_p5 o = Phase5.OtherRouting -> TotalPipeline.p2_ready o g ->
  (0 < Layout.o_layer_spacing o)%Q -> (forall n, In n (g_N g) -> (0 < Phase4.nW g n)%Q) -> SplineShort2.short_premise o g ->
  exists g' x, PipelineSpl.layout_component_sx SplineShort.shortest_geom fit mk_inner bk o g = Ok (g', x).
Proof. intros fit mk_inner. exact (SplineShort2.layout_component_sx_short_total fit mk_inner). Qed.
Print Assumptions C01_spline_routing_returns_without_long_edges.

(* ---------- and it does NOT return in general: the recorded finding `spline-corridor`, on the model
   (Proofs/SplineFinding.v): for 0->1 1->2 2->3 2->4 1->5 2->6 4->5 with 40x24 nodes the edge 1->5 spans three bands, the
   corridor built for it is ill-formed and the exact model of the router fails on it ([None]); every short edge is fine ---------- *)
From Autog Require SplineFinding.
Theorem C01_spline_routing_refuted_on_a_long_edge :
  SplineFinding.sf_probe = Ok [(0, 2, true, Some 2); (1, 2, true, Some 2); (2, 2, true, Some 2); (3, 2, true, Some 2);
                               (4, 4, false, None); (5, 2, true, Some 2); (6, 2, true, Some 2)]%nat.
Proof. exact SplineFinding.spline_corridor_of_a_long_edge_is_ill_formed. Qed.
Print Assumptions C01_spline_routing_refuted_on_a_long_edge.

(* ---------- with the OTHER ordering option, autog.OrderingNoop (Model/PipelineNoop.v), every positioner but the
   NetworkSimplex one (as for [layout_x]); and it reports no crossing number ---------- *)
From Autog Require PipelineNoop NoopTotal NoopPipeline2.
Theorem C01_layout_returns_noop_ordering : forall (A : Type) (eqA : A -> A -> bool), (forall x y, eqA x y = true <-> x = y) ->
  forall bk o (fixed : option (Q * Q)) (sizes : option (list (A * (Q * Q)))) (es : list (list A)),
  es <> [] -> Forall (fun p => length p = 2%nat) es -> BKTotal3.layout_x_options_ok A o es ->
  exists ids ns oes, PipelineNoop.layout_n A eqA bk o fixed sizes es = Ok (ids, (ns, oes, [])).
Proof. exact NoopTotal.layout_n_total_strong. Qed.
Print Assumptions C01_layout_returns_noop_ordering.
