(* C01 — Layout always returns: no panic, process abort, hang or runaway memory.
   Model: every Go panic site and every loop without an a-priori bound is explicit in the model: a distinct
   [Err] constructor per panic, explicit fuel per recursion/loop (Model/Base.v, [err]). "Layout returns" on the
   model is: [layout ... = Ok _]. C01_partial — proved for all well-formed inputs, stage by stage:
   - Populate fails only on an edge that does not have exactly two ids (excluded by well-formedness);
   - phase 1 (both breakers) is total on every consistent loop-free component: no fuel exhaustion, no index
     error, and never "graph is still cyclic";
   - longest-path layering is total on every acyclic component;
   - breaking long edges is total on every feasible layering, merging them again is total afterwards;
   - VAlign, PackRight, assign_y, straight/orthogonal routing are total functions (no error value in their type).
   NOT proved: termination of the network-simplex tight-tree loop and of its pivot loop within the model's fuel
   (the pivot loop is cut by the documented iteration budget, so it is bounded by construction), of the
   weighted-median transposition loop, of SinkColoring's placeBlock recursion and of Brandes-Koepf; spline
   routing (known finding). For these the check relies on (a) the deep correspondence: the model, run with its
   explicit fuel on every traced case, must return Ok and reproduce the implementation (a fuel exhaustion is
   code x98), and (b) a watchdog search on the implementation: wall-clock and heap limit per call in a worker.
   Stack overflow, out-of-memory and wall-clock time are runtime behaviour that no Gallina model exhibits. *)
From Coq Require Import List ZArith.
From Autog Require Import Graph Populate Phase1 Phase2 Phase3 Phase5 PopulateProofs CycleBreaking BreakMerge.
From Autog Require LongestPath.
Import ListNotations.

Theorem C01_populate_fails_only_on_arity : forall (A : Type) (eqA : A -> A -> bool) es,
  (exists ids g, populate A eqA es = Ok (ids, g)) <-> Forall (fun p => length p = 2%nat) es.
Proof. exact populate_ok_iff. Qed.
Print Assumptions C01_populate_fails_only_on_arity.

Theorem C01_phase1_total : forall alg g,
  consistent g -> no_self_loops g -> (alg = Greedy -> no_isolated_nodes g) -> exists g', phase1 alg g = Ok g'.
Proof. exact phase1_total. Qed.
Print Assumptions C01_phase1_total.

Theorem C01_phase1_never_still_cyclic : forall alg g,
  consistent g -> no_self_loops g -> (alg = Greedy -> no_isolated_nodes g) -> phase1 alg g <> Err ErrStillCyclic.
Proof. exact phase1_never_still_cyclic. Qed.
Print Assumptions C01_phase1_never_still_cyclic.

Theorem C01_longest_path_total : forall g,
  LongestPath.consistent g -> LongestPath.ranked g -> exists g', exec_longest_path g = Ok g'.
Proof. exact LongestPath.exec_longest_path_ok. Qed.
Print Assumptions C01_longest_path_total.

Theorem C01_break_and_merge_total : forall g0, break_pre g0 ->
  exists g1 g2 routes, break_long_edges g0 = Ok g1 /\ merge_long_edges g1 = Ok (g2, routes).
Proof.
  intros g0 H. destruct (break_merge_roundtrip g0 H) as (g1 & g2 & routes & A & B & _).
  exists g1, g2, routes. split; assumption.
Qed.
Print Assumptions C01_break_and_merge_total.
