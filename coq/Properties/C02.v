(* C02 — The output graph is the input graph: same nodes, edges, directions and sizes.
   Model: Model/Populate.v, Phase1.v, Phase3.v (break_long_edges), Phase5.v (merge_long_edges), Layout.v
   (collect_nodes, collect_edges); proofs: PopulateProofs.v, SizesProofs.v, SelfLoopProofs.v, CycleBreaking.v,
   BreakMerge.v, CollectProofs.v (and the end-to-end composition in Proofs/E2E*.v when present).
   The chain of facts, each proved for ALL inputs:
   (1) populate: the i-th edge joins the nodes named by the i-th input pair, one node per distinct name, in order
       of first appearance; sizes: listed size, else fixed size, else zero;
   (2) self-loops are taken out and put back untouched (never routed: their points stay empty);
   (3) phase 1 only flips ends and the reversal flag of edges; UnreverseEdges flips back exactly the flagged ones;
   (4) breaking long edges and merging them again restores the edge list and every edge's ends — for every
       feasible layering and whatever positioning happens in between;
   (5) the output lists one record per non-helper node (all of them when helper nodes are requested) and one
       per edge of the final edge list, copying ends, points and flag. *)
From Coq Require Import List ZArith QArith Permutation.
From Autog Require Import Graph Populate Phase3 Phase5 Layout PopulateProofs SizesProofs SelfLoopProofs CollectProofs BreakMerge.
Import ListNotations.

Theorem C02_populate : forall (A : Type) (eqA : A -> A -> bool),
  (forall x y, eqA x y = true <-> x = y) ->
  forall es ids g, populate A eqA es = Ok (ids, g) -> populated es ids g.
Proof. exact populate_wf. Qed.
Print Assumptions C02_populate.

Theorem C02_nodes_are_the_distinct_ids_in_order : forall (A : Type) (eqA : A -> A -> bool),
  (forall x y, eqA x y = true <-> x = y) ->
  forall es ids g, populate A eqA es = Ok (ids, g) -> ids = dedup eqA (concat es).
Proof. exact populate_ids_first_appearance. Qed.
Print Assumptions C02_nodes_are_the_distinct_ids_in_order.

(* break then merge: the edge list and every edge's ends are restored; arrow flag = reversal flag *)
Theorem C02_break_then_merge_is_identity_on_edges : forall g0, break_pre g0 ->
  exists g1 g2 routes,
    break_long_edges g0 = Ok g1 /\ merge_long_edges g1 = Ok (g2, routes) /\
    g_E g2 = g_E g0 /\ g_N g2 = g_N g1 /\ length (g_na g2) = length (g_na g1) /\
    (forall e, In e (g_E g0) -> gedge g2 e = set_ahs (e_rev (gedge g0 e)) (gedge g0 e)) /\
    (forall x, (x < length (g_ea g0))%nat -> ~ In x (g_E g0) -> gedge g2 x = gedge g0 x) /\
    (forall n, (n < length (g_na g0))%nat -> same_but_in (gnode g2 n) (gnode g0 n)) /\
    map fst routes = g_E g0 /\ Forall (route_ok g0 g2) routes.
Proof. exact break_merge_roundtrip. Qed.
Print Assumptions C02_break_then_merge_is_identity_on_edges.

(* UnreverseEdges: afterwards no edge is flagged; flagged ones have their ends swapped back; nothing else moves *)
Theorem C02_unreverse : forall g,
  let g' := unreverse_edges g in
  g_N g' = g_N g /\ g_E g' = g_E g /\ g_L g' = g_L g /\
  length (g_na g') = length (g_na g) /\ length (g_ea g') = length (g_ea g) /\
  (forall e, In e (g_E g) -> e_rev (gedge g' e) = false) /\
  (forall e, In e (g_E g) -> e_rev (gedge g e) = true ->
     gedge g' e = flip_edge (gedge g e) /\
     e_from (gedge g' e) = e_to (gedge g e) /\ e_to (gedge g' e) = e_from (gedge g e)) /\
  (forall e, ~ In e (g_E g) \/ e_rev (gedge g e) = false -> gedge g' e = gedge g e) /\
  (forall e, e_pts (gedge g' e) = e_pts (gedge g e) /\ e_ahs (gedge g' e) = e_ahs (gedge g e) /\
             e_delta (gedge g' e) = e_delta (gedge g e) /\ e_weight (gedge g' e) = e_weight (gedge g e) /\
             e_tree (gedge g' e) = e_tree (gedge g e) /\ e_cut (gedge g' e) = e_cut (gedge g e)) /\
  (forall n, same_but_adj (gnode g' n) (gnode g n)).
Proof. exact unreverse_edges_spec. Qed.
Print Assumptions C02_unreverse.

(* ---------- end to end (Proofs/E2E*.v, Whole*.v, NS*.v, Final.v): no premise besides hypotheses on the input ---------- *)
From Autog Require Import Pipeline E2EBackbone E2EOutput WholeCrossings WholeOverlap WholeLayout Final.


(* one connected component with at least two nodes, through the whole pipeline, for every combination of
   {Greedy, DepthFirst} x {LongestPath, NetworkSimplex} x {VAlign, PackRight, SinkColoring} x {Straight, Polyline,
   Ortho}. [component_input g] is what the front end produces (frontend_component_input): consistent, no helper
   node, no layers yet, no edge reversed or routed, unit minimum lengths, connected.
   [E1_statement g g'] (Proofs/E2EOutput.v): the final edge list is the non-self-loop edges of the input in order
   followed by its self-loops in order; every input edge has its original ends and is not flagged reversed;
   self-loops carry no points; the node list is the input's followed by helper nodes only, which are all beyond
   the input arena and virtual; every input node is non-virtual and keeps its width and height. *)
Theorem C02_component_end_to_end : forall o g g' x, component_input g -> options_ok o ->
  layout_component o g = Ok (g', x) -> E1_statement g g'.
Proof. exact G1_output_graph. Qed.
Print Assumptions C02_component_end_to_end.

(* the whole Layout as one function of the raw edge list (Model/Pipeline.v), any number of components incl.
   single self-looped nodes, helper nodes not requested: the output lists every distinct input id exactly once,
   each with its configured size (listed size, else fixed size, else zero), and the output edges read as pairs
   of ids are the input pairs — same multiset, same directions *)
Theorem C02_layout_output_is_the_input : forall (A : Type) (eqA : A -> A -> bool), (forall x y, eqA x y = true <-> x = y) ->
  forall o fixed sizes es ids ns oes xs, options_ok o ->
  layout A eqA o fixed sizes es = Ok (ids, (ns, oes, xs)) -> o_virtual o = false ->
  NoDup ids /\ (forall x, In x ids <-> exists p, In p es /\ In x p) /\
  Permutation (map on_id ns) (iota 0 (length ids)) /\
  (forall a, In a ns -> exists x, nth_error ids (on_id a) = Some x /\
                                  (on_w a, on_h a) = SizesProofs.size_of A eqA fixed sizes x (0, 0)%Q) /\
  Permutation (map (id_pair A ids) oes) es.
Proof. exact G7_layout_output. Qed.
Print Assumptions C02_layout_output_is_the_input.

(* ---------- every positioner, Brandes-Koepf included (Model/PipelineBK.v: [layout_x bk] is Layout with
   PositioningBrandesKoepf and WithBrandesKoepfLayout(bk) when the positioner is [OtherPositioner], and is [layout]
   otherwise, BKPipeline.layout_x_eq) ---------- *)
From Autog Require Import PipelineBK E2EBridge BKPipeline BKPipeline2.

Theorem C02_component_end_to_end_any_positioner : forall bk o g g' x, component_input g -> modelled_p5 (o_p5 o) ->
  layout_component_x bk o g = Ok (g', x) -> E1_statement g g'.
Proof. exact Gx1_output_graph_any. Qed.
Print Assumptions C02_component_end_to_end_any_positioner.

Theorem C02_layout_output_is_the_input_any_positioner : forall (A : Type) (eqA : A -> A -> bool), (forall x y, eqA x y = true <-> x = y) ->
  forall bk o fixed sizes es ids ns oes xs, modelled_p5 (o_p5 o) ->
  layout_x A eqA bk o fixed sizes es = Ok (ids, (ns, oes, xs)) -> o_virtual o = false ->
  NoDup ids /\ (forall x, In x ids <-> exists p, In p es /\ In x p) /\
  Permutation (map on_id ns) (iota 0 (length ids)) /\
  (forall a, In a ns -> exists x, nth_error ids (on_id a) = Some x /\
                                  (on_w a, on_h a) = SizesProofs.size_of A eqA fixed sizes x (0, 0)%Q) /\
  Permutation (map (id_pair A ids) oes) es.
Proof. exact Gx7_layout_output. Qed.
Print Assumptions C02_layout_output_is_the_input_any_positioner.

(* ---------- with spline routing too: the output graph does not depend on what the router and the fitter return
   (no contract on the oracles; Proofs/SplinePipeline2.v) ---------- *)
From Autog Require Import Geom SplineStruct Splines PipelineSpl SplineRouting SplinePipeline SplinePipeline2.

Theorem C02_component_end_to_end_any_router : forall shortest fit mk_inner bk o g g' x, component_input g -> routed_p5 (o_p5 o) ->
  layout_component_sx shortest fit mk_inner bk o g = Ok (g', x) -> E1_statement g g'.
Proof. exact Gs1_output_graph_any. Qed.
Print Assumptions C02_component_end_to_end_any_router.

Theorem C02_layout_output_is_the_input_any_router : forall shortest fit mk_inner (A : Type) (eqA : A -> A -> bool), (forall x y, eqA x y = true <-> x = y) ->
  forall bk o fixed sizes es ids ns oes xs, routed_p5 (o_p5 o) ->
  layout_sx shortest fit mk_inner A eqA bk o fixed sizes es = Ok (ids, (ns, oes, xs)) -> o_virtual o = false ->
  NoDup ids /\ (forall x, In x ids <-> exists p, In p es /\ In x p) /\
  Permutation (map on_id ns) (iota 0 (length ids)) /\
  (forall a, In a ns -> exists x, nth_error ids (on_id a) = Some x /\
                                  (on_w a, on_h a) = SizesProofs.size_of A eqA fixed sizes x (0, 0)%Q) /\
  Permutation (map (id_pair A ids) oes) es.
Proof. exact Gs7_layout_output_any. Qed.
Print Assumptions C02_layout_output_is_the_input_any_router.

(* ---------- with the OTHER ordering option, autog.OrderingNoop (Model/PipelineNoop.v: [layout_n bk] is Layout with the
   bands kept in the order of the layering, every positioner; Proofs/NoopPipeline*.v) ---------- *)
From Autog Require Import PipelineNoop NoopPipeline NoopPipeline2.
Theorem C02_component_end_to_end_noop_ordering : forall bk o g g' x, component_input g -> modelled_p5 (o_p5 o) ->
  layout_component_n bk o g = Ok (g', x) -> E1_statement g g'.
Proof. exact Gn1_output_graph_any. Qed.
Print Assumptions C02_component_end_to_end_noop_ordering.

Theorem C02_layout_output_is_the_input_noop_ordering : forall (A : Type) (eqA : A -> A -> bool), (forall x y, eqA x y = true <-> x = y) ->
  forall bk o fixed sizes es ids ns oes xs, modelled_p5 (o_p5 o) ->
  layout_n A eqA bk o fixed sizes es = Ok (ids, (ns, oes, xs)) -> o_virtual o = false ->
  NoDup ids /\ (forall x, In x ids <-> exists p, In p es /\ In x p) /\
  Permutation (map on_id ns) (iota 0 (length ids)) /\
  (forall a, In a ns -> exists x, nth_error ids (on_id a) = Some x /\
                                  (on_w a, on_h a) = SizesProofs.size_of A eqA fixed sizes x (0, 0)%Q) /\
  Permutation (map (id_pair A ids) oes) es.
Proof. exact Gn7_layout_output. Qed.
Print Assumptions C02_layout_output_is_the_input_noop_ordering.
