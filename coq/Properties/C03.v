(* C03 — Hierarchical drawing: layers are horizontal bands and edges flow downward.
   Model: Model/Phase1.v, Phase2.v, Phase4.v (assign_y), Phase5.v; proofs: Positioners.v, SinkColoringProofs.v,
   CycleBreaking.v, LongestPath.v, Opt*.v, BreakMerge.v.
   (1) bands: every node of band k gets y = ysum k, ysum (k+1) = ysum k + height of band k + LayerSpacing, and
       the height of band k dominates the height of each of its nodes — for every positioner;
   (2) after cycle breaking the component is acyclic (both breakers), an acyclic input is not touched;
   (3) every edge joins two different bands and points to a larger band index: proved for longest-path
       layering and for network simplex (C03_network_simplex_edges_point_down: spanning-tree invariant,
       lim/low numbering, components of the tree minus an edge, pivot loop, normalize, vbalance, hbalance);
   (4) the arrow flag is the reversal flag (merge), so after un-reversal an edge runs upward exactly when it is
       flagged. *)
From Coq Require Import List ZArith QArith.
From Autog Require Import Graph Phase1 Phase2 Phase4 Positioners SinkColoringProofs CycleBreaking OptVbalance OptFeasible OptInit.
From Autog Require LongestPath.
From Autog Require NSDefs NSHbalance.
Import ListNotations.

Theorem C03_same_band_same_y : forall sp g k n, layers_wf g -> In n (l_nodes (nth k (g_L g) layer0)) ->
  (nY (assign_y sp g) n == ysum sp (g_L g) k)%Q.
Proof. exact assign_y_layer. Qed.
Print Assumptions C03_same_band_same_y.

Theorem C03_bands_are_stacked : forall sp ls k,
  ysum sp ls (S k) = (ysum sp ls k + l_h (nth k ls layer0) + sp)%Q.
Proof. exact ysum_S. Qed.
Print Assumptions C03_bands_are_stacked.

Theorem C03_band_height_valign : forall s g k n, In n (l_nodes (nth k (g_L g) layer0)) ->
  (nH g n <= l_h (nth k (g_L (exec_valign s g)) layer0))%Q.
Proof. exact valign_layer_height_ge. Qed.
Print Assumptions C03_band_height_valign.

Theorem C03_band_height_packright : forall s g k n, In n (l_nodes (nth k (g_L g) layer0)) ->
  (nH g n <= l_h (nth k (g_L (exec_pack_right s g)) layer0))%Q.
Proof. exact packright_layer_height_ge. Qed.
Print Assumptions C03_band_height_packright.

Theorem C03_band_height_sink_coloring : forall s g g' k n, exec_sink_coloring s g = Ok g' ->
  In n (l_nodes (nth k (g_L g) layer0)) -> (nH g n <= l_h (nth k (g_L g') layer0))%Q.
Proof. exact sink_coloring_layer_height_ge. Qed.
Print Assumptions C03_band_height_sink_coloring.

(* cycle breaking leaves an acyclic component; it never ends in "graph is still cyclic" *)
Theorem C03_phase1_result_is_acyclic : forall alg g g',
  consistent g -> no_self_loops g -> (alg = Greedy -> no_isolated_nodes g) ->
  phase1 alg g = Ok g' ->
  consistent g' /\ no_self_loops g' /\ g_N g' = g_N g /\ g_E g' = g_E g /\ ranked g'.
Proof. exact phase1_post. Qed.
Print Assumptions C03_phase1_result_is_acyclic.

(* longest path: every edge points to a strictly larger band *)
Theorem C03_longest_path_edges_point_down : forall g g' h,
  LongestPath.consistent g -> LongestPath.ranked g -> LongestPath.is_height g h -> exec_longest_path g = Ok g' ->
  forall n, In n (g_N g) ->
    (0 <= n_layer (gnode g' n) <= LongestPath.nlayers g h - 1)%Z /\
    forall e, In e (n_out (gnode g n)) -> self_loop g e = false ->
      (n_layer (gnode g' (e_to (gedge g e))) - n_layer (gnode g' n) >= e_delta (gedge g e))%Z.
Proof. exact LongestPath.feasible. Qed.
Print Assumptions C03_longest_path_edges_point_down.

(* network simplex: the initial tree is feasible; balancing keeps feasibility *)
Theorem C03_ns_initial_tree_partial : forall g g' ll, vb_wf g -> NoDup (g_E g) -> acyclic g ->
  feasible_tree g = Ok (g', ll) ->
  feasible g' /\ (forall e, In e (g_E g') -> e_tree (gedge g' e) = true -> slack g' e = 0%Z) /\ fl_rel g g'.
Proof. exact feasible_tree_feasible. Qed.
Print Assumptions C03_ns_initial_tree_partial.

Theorem C03_ns_balancing_partial : forall g, vb_wf g -> feasible g -> layers_nonneg g ->
  feasible (vbalance g) /\ forall n, In n (g_N (vbalance g)) -> (0 <= layer_of (vbalance g) n <= vb_lmax g)%Z.
Proof. exact vbalance_feasible. Qed.
Print Assumptions C03_ns_balancing_partial.

(* network simplex, in full (Proofs/NS*.v): whenever the layering returns, every edge spans at least its minimum
   length, layers are non-negative, and nothing but layers and the tree bookkeeping of edges changed — for
   vertical and for horizontal balancing (the latter is what the NetworkSimplex positioner uses) *)
Theorem C03_network_simplex_edges_point_down : forall p g g',
  NSDefs.ns_wf g -> acyclic g -> exec_network_simplex p g = Ok g' ->
  feasible g' /\ layers_nonneg g' /\ NSDefs.ns_frame g g'.
Proof. exact NSHbalance.exec_network_simplex_feasible_all. Qed.
Print Assumptions C03_network_simplex_edges_point_down.

(* ---------- end to end (Proofs/E2E*.v, Whole*.v, NS*.v, Final.v): no premise besides hypotheses on the input ---------- *)
From Autog Require Import Pipeline E2EBackbone E2EOutput WholeCrossings WholeOverlap WholeLayout Final.


(* [E2_statement sp g g'] (Proofs/E2EOutput.v): every node of the result is listed in exactly the band named by
   its layer; the nodes of band k all have y = ysum k and height <= the band's height; every non-self-loop edge of
   the input joins two different bands, and it is flagged ArrowHeadStart exactly when its target sits in a higher
   band (smaller index) than its source *)
Theorem C03_component_end_to_end : forall o g g' x, component_input g -> options_ok o ->
  layout_component o g = Ok (g', x) -> E2_statement (o_layer_spacing o) g g'.
Proof. exact G2_bands. Qed.
Print Assumptions C03_component_end_to_end.

(* each band starts at least LayerSpacing below the bottom of every node of the band above *)
Theorem C03_band_separation_end_to_end : forall o g g' x, component_input g -> options_ok o ->
  layout_component o g = Ok (g', x) ->
  forall k n m, In n (l_nodes (glayer g' k)) -> In m (l_nodes (glayer g' (S k))) ->
    (nY g' n + nH g' n + o_layer_spacing o <= nY g' m)%Q.
Proof. exact G2_band_separation. Qed.
Print Assumptions C03_band_separation_end_to_end.

(* if the input is acyclic every edge runs from a higher band to a lower one: none is flagged *)
Theorem C03_acyclic_input_all_downward : forall o g g' x, component_input g -> options_ok o ->
  layout_component o g = Ok (g', x) -> CBBase.ranked (fst (Populate.ignore_self_loops g)) ->
  forall e, In e (g_E g) -> self_loop g e = false -> e_ahs (gedge g' e) = false.
Proof. exact G2_acyclic_input_has_no_upward_edge. Qed.
Print Assumptions C03_acyclic_input_all_downward.

(* ---------- every positioner, Brandes-Koepf and the NetworkSimplex positioner included (Model/PipelineBK.v) ---------- *)
From Autog Require Import PipelineBK E2EBridge BKPipeline BKPipeline2.

Theorem C03_component_end_to_end_any_positioner : forall bk o g g' x, component_input g -> modelled_p5 (o_p5 o) ->
  layout_component_x bk o g = Ok (g', x) -> E2_statement (o_layer_spacing o) g g'.
Proof. exact Gx2_bands_any. Qed.
Print Assumptions C03_component_end_to_end_any_positioner.

Theorem C03_band_separation_any_positioner : forall bk o g g' x, component_input g -> modelled_p5 (o_p5 o) ->
  layout_component_x bk o g = Ok (g', x) ->
  forall k n m, In n (l_nodes (glayer g' k)) -> In m (l_nodes (glayer g' (S k))) ->
    (nY g' n + nH g' n + o_layer_spacing o <= nY g' m)%Q.
Proof. exact Gx2_band_separation_any. Qed.
Print Assumptions C03_band_separation_any_positioner.

Theorem C03_acyclic_input_all_downward_any_positioner : forall bk o g g' x, component_input g -> modelled_p5 (o_p5 o) ->
  layout_component_x bk o g = Ok (g', x) -> CBBase.ranked (fst (Populate.ignore_self_loops g)) ->
  forall e, In e (g_E g) -> self_loop g e = false -> e_ahs (gedge g' e) = false.
Proof. exact Gx2_acyclic_input_has_no_upward_edge_any. Qed.
Print Assumptions C03_acyclic_input_all_downward_any_positioner.

(* ---------- with spline routing too (no contract on the oracles; Proofs/SplinePipeline2.v) ---------- *)
From Autog Require Import Geom SplineStruct Splines PipelineSpl SplineRouting SplinePipeline SplinePipeline2.
Theorem C03_component_end_to_end_any_router : forall shortest fit mk_inner bk o g g' x, component_input g -> routed_p5 (o_p5 o) ->
  layout_component_sx shortest fit mk_inner bk o g = Ok (g', x) -> E2_statement (o_layer_spacing o) g g'.
Proof. exact Gs2_bands_any. Qed.
Print Assumptions C03_component_end_to_end_any_router.

(* ---------- with the OTHER ordering option, autog.OrderingNoop (Model/PipelineNoop.v: [layout_n bk] is Layout with the
   bands kept in the order of the layering, every positioner; Proofs/NoopPipeline*.v) ---------- *)
From Autog Require Import PipelineNoop NoopPipeline NoopPipeline2.
Theorem C03_component_end_to_end_noop_ordering : forall bk o g g' x, component_input g -> modelled_p5 (o_p5 o) ->
  layout_component_n bk o g = Ok (g', x) -> E2_statement (o_layer_spacing o) g g'.
Proof. exact Gn2_bands_any. Qed.
Print Assumptions C03_component_end_to_end_noop_ordering.

Theorem C03_band_separation_noop_ordering : forall bk o g g' x, component_input g -> modelled_p5 (o_p5 o) ->
  layout_component_n bk o g = Ok (g', x) ->
  forall k n m, In n (l_nodes (glayer g' k)) -> In m (l_nodes (glayer g' (S k))) ->
    (nY g' n + nH g' n + o_layer_spacing o <= nY g' m)%Q.
Proof. exact Gn2_band_separation_any. Qed.
Print Assumptions C03_band_separation_noop_ordering.

Theorem C03_acyclic_input_all_downward_noop_ordering : forall bk o g g' x, component_input g -> modelled_p5 (o_p5 o) ->
  layout_component_n bk o g = Ok (g', x) -> CBBase.ranked (fst (Populate.ignore_self_loops g)) ->
  forall e, In e (g_E g) -> self_loop g e = false -> e_ahs (gedge g' e) = false.
Proof. exact Gn2_acyclic_input_has_no_upward_edge_any. Qed.
Print Assumptions C03_acyclic_input_all_downward_noop_ordering.

(* ---------- regenerated from the source on every run (translator): cycle breaking and layering does not read node identifiers, as its
   model, which contains none, assumes ---------- *)
From Coq Require Import String.
From Autog Require Facts FactsChecks.
Theorem C03_code_reads_no_identifier : FactsChecks.id_reads_allowed_in "internal/phase1/"%string = true /\ FactsChecks.id_reads_allowed_in "internal/phase2/"%string = true.
Proof. vm_compute. repeat split; reflexivity. Qed.
Print Assumptions C03_code_reads_no_identifier.
