(* C04 — Nodes never overlap and keep the configured spacing.
   Model: Model/Phase4.v; proofs: Proofs/Positioners.v (VAlign, PackRight, assign_y), SinkColoringProofs.v
   (SinkColoring, NetworkSimplex positioner), Proofs/Shift.v (component shift).
   [layers_wf g]: the layers hold distinct, in-range nodes; [sizes_ok s g]: NodeSpacing and widths non-negative.
   Within a band: for positions i < j, x_i + w_i + NodeSpacing <= x_j. Between bands: bands are stacked with
   y_(k+1) = y_k + (tallest node of band k) + LayerSpacing, so rectangles of different bands are disjoint.
   NetworkSimplex positioner: unconditional (Proofs/NSPositioner.v): the auxiliary graph is well-formed and acyclic,
   network simplex returns a feasible layering of it, so consecutive nodes are at least ceil(w/2 + w'/2 + spacing)
   apart between centres (C04_ns_positioner), also end to end (C04_component_end_to_end_all_positioners). *)
From Coq Require Import List QArith.
From Autog Require Import Graph Phase2 Phase4 Layout Check Positioners SinkColoringProofs Shift.
Import ListNotations.
Local Open Scope Q_scope.

Theorem C04_valign : forall s g l i j a b,
  layers_wf g -> geom_ok s g -> In l (g_L g) -> (i < j)%nat ->
  nth_error (l_nodes l) i = Some a -> nth_error (l_nodes l) j = Some b ->
  nX (exec_valign s g) a + nW g a + s <= nX (exec_valign s g) b.
Proof. exact valign_no_overlap_in_layer. Qed.
Print Assumptions C04_valign.

Theorem C04_packright : forall s g l i j a b,
  layers_wf g -> geom_ok s g -> In l (g_L g) -> (i < j)%nat ->
  nth_error (l_nodes l) i = Some a -> nth_error (l_nodes l) j = Some b ->
  nX (exec_pack_right s g) a + nW g a + s <= nX (exec_pack_right s g) b.
Proof. exact packright_no_overlap_in_layer. Qed.
Print Assumptions C04_packright.

(* the default positioner: whenever it returns, no two nodes of a band are closer than NodeSpacing *)
Theorem C04_sink_coloring : forall s g g' l i j a b,
  exec_sink_coloring s g = Ok g' -> layers_wf g -> sizes_ok s g ->
  In l (g_L g) -> (i < j)%nat ->
  nth_error (l_nodes l) i = Some a -> nth_error (l_nodes l) j = Some b ->
  nX g' a + nW g a + s <= nX g' b.
Proof. exact sink_coloring_no_overlap. Qed.
Print Assumptions C04_sink_coloring.

Theorem C04_ns_partial : forall th f s g g' l k p n,
  exec_ns_positioner th f s g = Ok g' -> layers_wf g -> NoDup (g_N g) ->
  (forall n, in_layers g n -> In n (g_N g)) ->
  (forall a, assign_layers NetworkSimplex (ns_params th g) (aux_graph f s g) = Ok a -> ns_feasible s g a) ->
  In l (g_L g) -> nth_error (l_nodes l) k = Some p -> nth_error (l_nodes l) (S k) = Some n ->
  nX g' p + nW g p + s <= nX g' n.
Proof. exact ns_positioner_separation. Qed.
Print Assumptions C04_ns_partial.

(* coordinates are non-negative *)
Theorem C04_valign_nonneg : forall s g, layers_wf g -> geom_ok s g ->
  (forall n, in_layers g n -> 0 <= nX (exec_valign s g) n) /\ (exists n, in_layers g n /\ nX (exec_valign s g) n == 0).
Proof. exact valign_leftmost_zero. Qed.
Print Assumptions C04_valign_nonneg.

Theorem C04_packright_nonneg : forall s g, layers_wf g -> geom_ok s g ->
  (forall n, in_layers g n -> 0 <= nX (exec_pack_right s g) n) /\ (exists n, in_layers g n /\ nX (exec_pack_right s g) n == 0).
Proof. exact packright_leftmost_zero. Qed.
Print Assumptions C04_packright_nonneg.

Theorem C04_sink_coloring_nonneg : forall s g g' n,
  exec_sink_coloring s g = Ok g' -> layers_wf g -> 0 <= s -> in_layers g n -> 0 <= nX g' n.
Proof. exact sink_coloring_nonneg_gen. Qed.
Print Assumptions C04_sink_coloring_nonneg.

(* bands are stacked: every node of band k has y = ysum k, and ysum (k+1) = ysum k + height of band k + LayerSpacing *)
Theorem C04_bands_stacked : forall sp g k n, layers_wf g -> In n (l_nodes (nth k (g_L g) layer0)) ->
  nY (assign_y sp g) n == ysum sp (g_L g) k.
Proof. exact assign_y_layer. Qed.
Print Assumptions C04_bands_stacked.

Theorem C04_band_offsets : forall sp ls k, ysum sp ls (S k) = ysum sp ls k + l_h (nth k ls layer0) + sp.
Proof. exact ysum_S. Qed.
Print Assumptions C04_band_offsets.

(* between connected components: component k is shifted by shift_k = sum over the earlier components of
   (rightmost x + NodeSpacing); nodes of different components are at least NodeSpacing apart and all x >= 0 *)
Theorem C04_components_are_separated : forall o gs ns es,
  collect_all o gs 0 = (ns, es) -> 0 <= o_node_spacing o -> (forall g, In g gs -> comp_ok g) ->
  ns = concat (map (comp_nodes o gs 0) (seq 0 (length gs))) /\
  (forall i j a b, (i < j < length gs)%nat ->
     In a (comp_nodes o gs 0 i) -> In b (comp_nodes o gs 0 j) ->
     on_x a + on_w a + o_node_spacing o <= on_x b) /\
  (forall a, In a ns -> 0 <= on_x a).
Proof. exact collect_all_separated. Qed.
Print Assumptions C04_components_are_separated.

(* ---------- end to end (Proofs/E2E*.v, Whole*.v, NS*.v, Final.v): no premise besides hypotheses on the input ---------- *)
From Autog Require Import Pipeline E2EBackbone E2EOutput WholeCrossings WholeOverlap WholeLayout Final.
Local Open Scope Q_scope.


(* [W3_statement o g'] (Proofs/WholeOverlap.v), helper nodes included: all coordinates and sizes are >= 0; any two
   distinct nodes are either in the same band with one at least NodeSpacing left of the other, or in different
   bands with one at least LayerSpacing above the other — so no two rectangles intersect *)
Theorem C04_component_end_to_end : forall o g g' x, component_input g -> options_ok o ->
  sizes_nonneg g -> spacing_nonneg o -> layout_component o g = Ok (g', x) -> W3_statement o g'.
Proof. exact G5_no_overlap. Qed.
Print Assumptions C04_component_end_to_end.

(* the whole Layout: all x >= 0, and nodes of different connected components are at least NodeSpacing apart *)
Theorem C04_layout_components_apart : forall (A : Type) (eqA : A -> A -> bool), (forall x y, eqA x y = true <-> x = y) ->
  forall o fixed sizes es ids ns oes xs, options_ok o ->
  layout A eqA o fixed sizes es = Ok (ids, (ns, oes, xs)) ->
  spacing_nonneg o -> sizes_cfg_nonneg A eqA fixed sizes ids -> o_virtual o = false ->
  (forall a, In a ns -> 0 <= on_x a) /\
  (forall g, Populate.populate A eqA es = Ok (ids, g) ->
     let cs := Populate.components (Populate.apply_sizes A eqA fixed sizes ids g) in
     (forall a, In a ns -> exists i, (i < length cs)%nat /\ In (on_id a) (g_N (nth i cs Shift.graph0))) /\
     (forall i j a b, (i < j)%nat -> (j < length cs)%nat -> In a ns -> In b ns ->
        In (on_id a) (g_N (nth i cs Shift.graph0)) -> In (on_id b) (g_N (nth j cs Shift.graph0)) ->
        on_x a + on_w a + o_node_spacing o <= on_x b)).
Proof. exact G8_layout_separated. Qed.
Print Assumptions C04_layout_components_apart.

From Autog Require Import NSPositioner.

(* the NetworkSimplex positioner, unconditionally: whenever it returns, nodes of a band keep NodeSpacing *)
Theorem C04_ns_positioner : forall th f s g g' l i j a b,
  exec_ns_positioner th f s g = Ok g' -> nsp_wf g -> sizes_ok s g ->
  In l (g_L g) -> (i < j)%nat -> nth_error (l_nodes l) i = Some a -> nth_error (l_nodes l) j = Some b ->
  nX g' a + nW g a + s <= nX g' b.
Proof. exact ns_positioner_no_overlap_unconditional. Qed.
Print Assumptions C04_ns_positioner.

(* end to end for all four size-aware positioners (options_ok' admits NsPositioner as well) *)
Theorem C04_component_end_to_end_all_positioners : forall o g g' x,
  component_input g -> options_ok' o -> sizes_nonneg g -> spacing_nonneg o ->
  layout_component o g = Ok (g', x) -> W3_statement o g'.
Proof.
  intros o g g' x CI OK SZ SP H.
  exact (W3_no_overlap' o g g' x CI OK (NSBridge.ns_premise_holds o g CI) SZ SP H).
Qed.
Print Assumptions C04_component_end_to_end_all_positioners.

(* the whole Layout with all four size-aware positioners (Proofs/NSPWhole.v) *)
From Autog Require Import NSPWhole.
Theorem C04_layout_components_apart_all_positioners : forall (A : Type) (eqA : A -> A -> bool), (forall x y, eqA x y = true <-> x = y) ->
  forall o fixed sizes es ids ns oes xs, options_ok' o ->
  Pipeline.layout A eqA o fixed sizes es = Ok (ids, (ns, oes, xs)) ->
  spacing_nonneg o -> sizes_cfg_nonneg A eqA fixed sizes ids -> o_virtual o = false ->
  (forall a, In a ns -> (0 <= on_x a)%Q) /\
  (forall g, Populate.populate A eqA es = Ok (ids, g) ->
     let cs := Populate.components (apply_sizes A eqA fixed sizes ids g) in
     (forall a, In a ns -> exists i, (i < length cs)%nat /\ In (on_id a) (g_N (nth i cs Shift.graph0))) /\
     (forall i j a b, (i < j)%nat -> (j < length cs)%nat -> In a ns -> In b ns ->
        In (on_id a) (g_N (nth i cs Shift.graph0)) -> In (on_id b) (g_N (nth j cs Shift.graph0)) ->
        (on_x a + on_w a + o_node_spacing o <= on_x b)%Q)).
Proof. exact G8_layout_separated'. Qed.
Print Assumptions C04_layout_components_apart_all_positioners.

(* ---------- with the OTHER ordering option, autog.OrderingNoop (Model/PipelineNoop.v: [layout_n bk] is Layout with the
   bands kept in the order of the layering, every positioner; Proofs/NoopPipeline*.v) ---------- *)
From Autog Require Import PipelineNoop NoopOverlap.
Theorem C04_component_end_to_end_noop_ordering : forall bk o g g' x,
  component_input g -> options_ok o -> sizes_nonneg g -> spacing_nonneg o ->
  layout_component_n bk o g = Ok (g', x) -> W3_statement o g'.
Proof. exact Wn3_no_overlap. Qed.
Print Assumptions C04_component_end_to_end_noop_ordering.

(* the whole Layout with OrderingNoop and all four size-aware positioners (Proofs/NoopComponents2.v) *)
From Autog Require Import NoopComponents2.
Theorem C04_layout_components_apart_noop_ordering : forall (A : Type) (eqA : A -> A -> bool), (forall x y, eqA x y = true <-> x = y) ->
  forall bk o fixed sizes es ids ns oes xs, options_ok' o ->
  layout_n A eqA bk o fixed sizes es = Ok (ids, (ns, oes, xs)) ->
  spacing_nonneg o -> sizes_cfg_nonneg A eqA fixed sizes ids -> o_virtual o = false ->
  (forall a, In a ns -> (0 <= on_x a)%Q) /\
  (forall g, Populate.populate A eqA es = Ok (ids, g) ->
     let cs := Populate.components (apply_sizes A eqA fixed sizes ids g) in
     (forall a, In a ns -> exists i, (i < length cs)%nat /\ In (on_id a) (g_N (nth i cs Shift.graph0))) /\
     (forall i j a b, (i < j)%nat -> (j < length cs)%nat -> In a ns -> In b ns ->
        In (on_id a) (g_N (nth i cs Shift.graph0)) -> In (on_id b) (g_N (nth j cs Shift.graph0)) ->
        (on_x a + on_w a + o_node_spacing o <= on_x b)%Q)).
Proof. exact layout_n_components_apart. Qed.
Print Assumptions C04_layout_components_apart_noop_ordering.

Theorem C04_component_end_to_end_noop_ordering_all_positioners : forall bk o g g' x,
  component_input g -> options_ok' o -> sizes_nonneg g -> spacing_nonneg o ->
  layout_component_n bk o g = Ok (g', x) -> W3_statement o g'.
Proof. exact Wn3_no_overlap'. Qed.
Print Assumptions C04_component_end_to_end_noop_ordering_all_positioners.
