(* C05 — Edges attach to their endpoint nodes and the arrowhead flag marks the target.
   Model: Model/Phase5.v; proofs: Proofs/Routes.v, Proofs/BreakMerge.v (and Proofs/E2E*.v for the composition).
   For every route list ns = a :: mid ++ [b] (a the end in the upper band, b the end in the lower band — that
   orientation of ns is what merge_long_edges establishes, C05_route_lists) and every non-flat edge:
   the first point is the bottom-centre of a and the last point the top-centre of b, for Straight, Polyline
   and Orthogonal routing; the arrow flag equals the reversal flag, so after UnreverseEdges the arrow-head end
   (last point, or first point when flagged) is at the edge's target. Spline routing: the first and last point
   depend on the shortest-path router returning end...start (C19); not proved here. *)
From Coq Require Import List ZArith QArith.
From Autog Require Import Graph Phase3 Phase4 Phase5 Layout Positioners Routes BreakMerge.
Import ListNotations.
Local Open Scope Q_scope.

Theorem C05_straight : forall g e a mid b, is_flat g e = false ->
  length (route_straight g e (a :: mid ++ [b])) = 2%nat /\
  nth 0 (route_straight g e (a :: mid ++ [b])) (0, 0) = (nX g a + nW g a / 2, nY g a + nH g a) /\
  nth 1 (route_straight g e (a :: mid ++ [b])) (0, 0) = (nX g b + nW g b / 2, nY g b).
Proof. exact route_straight_points. Qed.
Print Assumptions C05_straight.

Theorem C05_polyline : forall g e a mid b, is_flat g e = false ->
  (forall n, In n mid -> n_virt (gnode g n) = true) -> e_pts (gedge g e) = [] ->
  route_polyline g e (a :: mid ++ [b]) = Ok (start_point g a :: map (bend g) mid ++ [end_point g b]).
Proof. exact route_polyline_ok. Qed.
Print Assumptions C05_polyline.

Theorem C05_ortho : forall g sp e a mid b, is_flat g e = false -> e_pts (gedge g e) = [] ->
  exists l, route_ortho g sp e (a :: mid ++ [b]) = start_point g a :: l ++ [end_point g b].
Proof. exact route_ortho_ends. Qed.
Print Assumptions C05_ortho.

(* the route lists: one per edge, from the upper end through the helper nodes to the lower end, layers
   increasing by one; ends and arrow flag as stated; geometry as assign_y leaves it *)
Theorem C05_route_lists : forall alg p g0 g1 g1',
  break_pre g0 -> layers_ok g0 -> layers_wf g0 ->
  (forall e, In e (g_E g0) -> placed g0 (e_from (gedge g0 e)) /\ placed g0 (e_to (gedge g0 e))) ->
  alg = VAlign \/ alg = PackRight ->
  break_long_edges g0 = Ok g1 -> Nat.eqb (length (g_N g1)) 1 = false -> phase4 alg p g1 = Ok g1' ->
  exists g2 routes,
    merge_long_edges g1' = Ok (g2, routes) /\ g_E g2 = g_E g0 /\ map fst routes = g_E g0 /\
    (forall n, nX g2 n = nX g1' n /\ nY g2 n = nY g1' n /\ nW g2 n = nW g1' n /\ nH g2 n = nH g1' n) /\
    g_L g2 = g_L g1' /\
    Forall (fun r => route_ok g0 g2 r /\ chain_y_eq g2 (layer_spacing p) (snd r)) routes.
Proof. exact pipeline_route_geometry. Qed.
Print Assumptions C05_route_lists.

(* ---------- end to end (Proofs/E2E*.v, Whole*.v, NS*.v, Final.v): no premise besides hypotheses on the input ---------- *)
From Autog Require Import Pipeline E2EBackbone E2EOutput WholeCrossings WholeOverlap WholeLayout Final.
Local Open Scope Q_scope.


(* [E3_statement g g'] (Proofs/E2EOutput.v): for every non-self-loop edge, with u its end in the upper band and l
   its end in the lower band: the route is not empty, its first point is the bottom-centre of u, its last point
   the top-centre of l; if the edge is not flagged, u is its source and l its target; if it is flagged
   ArrowHeadStart, u is its target and l its source — the arrow-head end is always at the target *)
Theorem C05_component_end_to_end : forall o g g' x, component_input g -> options_ok o ->
  layout_component o g = Ok (g', x) -> E3_statement g g'.
Proof. exact G3_endpoints. Qed.
Print Assumptions C05_component_end_to_end.

(* ---------- every positioner, Brandes-Koepf and the NetworkSimplex positioner included (Model/PipelineBK.v) ---------- *)
From Autog Require Import PipelineBK E2EBridge BKPipeline BKPipeline2.

Theorem C05_component_end_to_end_any_positioner : forall bk o g g' x, component_input g -> modelled_p5 (o_p5 o) ->
  layout_component_x bk o g = Ok (g', x) -> E3_statement g g'.
Proof. exact Gx3_endpoints_any. Qed.
Print Assumptions C05_component_end_to_end_any_positioner.

(* ---------- spline routing (Model/Splines.v, Model/PipelineSpl.v; Proofs/SplineRouting.v, SplinePipeline*.v) ----------
   [layout_component_sx shortest fit mk_inner bk o g] is the pipeline with EdgeRoutingSplines when [o_p5 o = OtherRouting];
   geom.Shortest, geom.FitSpline and the inner control points of geom.MakeSpline are arbitrary functions. The end points
   hold for every router that returns a path from the end point to the start point ([shortest_ok]: what C19 states of
   geom.Shortest) and every fitter whose pieces start and end where the path does and join ([fit_ok]: proved of the
   structure of FitSpline for every numeric oracle that keeps the ends, [fit_spline_fit_ok]; C20). *)
From Autog Require Import Geom SplineStruct Splines PipelineSpl SplineProofs SplineRouting SplinePipeline SplinePipeline2.

Theorem C05_spline_routing_end_points : forall shortest fit mk_inner, shortest_ok shortest -> fit_ok fit ->
  forall bk o g g' x, component_input g -> o_p5 o = Phase5.OtherRouting ->
  layout_component_sx shortest fit mk_inner bk o g = Ok (g', x) -> E3_statement g g'.
Proof. exact Gs3_endpoints. Qed.
Print Assumptions C05_spline_routing_end_points.

Theorem C05_one_spline_route : forall shortest fit mk_inner g e ns pts, shortest_ok shortest -> fit_ok fit ->
  spline_route shortest fit mk_inner g e ns = Ok pts ->
  spline_shape (start_point g (e_from (gedge g e))) (end_point g (e_to (gedge g e))) pts.
Proof. intros shortest fit mk_inner g e ns pts SO FO. exact (spline_route_shape shortest fit mk_inner SO FO g e ns pts). Qed.
Print Assumptions C05_one_spline_route.

(* ---------- with the OTHER ordering option, autog.OrderingNoop (Model/PipelineNoop.v: [layout_n bk] is Layout with the
   bands kept in the order of the layering, every positioner; Proofs/NoopPipeline*.v) ---------- *)
From Autog Require Import PipelineNoop NoopPipeline NoopPipeline2.
Theorem C05_component_end_to_end_noop_ordering : forall bk o g g' x, component_input g -> modelled_p5 (o_p5 o) ->
  layout_component_n bk o g = Ok (g', x) -> E3_statement g g'.
Proof. exact Gn3_endpoints_any. Qed.
Print Assumptions C05_component_end_to_end_noop_ordering.
