(* C06 — Route geometry matches the chosen routing style.
   Model: Model/Phase5.v; proofs: Proofs/Routes.v, Proofs/BreakMerge.v.
   ns = a :: mid ++ [b] is the route list of the edge (C05_route_lists: upper end, the helper nodes of the
   intermediate bands, lower end). [chain_y_eq g sp ns]: consecutive route nodes sit in consecutive bands as
   assign_y stacks them (y_(k+1) = y_k + band height + LayerSpacing; derived from assign_y by assign_y_chain).
   Straight: exactly two points. Polyline: exactly one bend per intermediate band, at the helper node's centre x
   and inside its band; y never decreases; a bend is not strictly inside a node rectangle that is disjoint from
   the helper's column or band (no-overlap, C04, supplies the disjointness). Orthogonal: every segment is
   horizontal or vertical. Splines (4k control points whose pieces join): the spline fitter is not modelled
   (C20); not proved here — C06_partial. *)
From Coq Require Import List ZArith QArith.
From Autog Require Import Graph Phase4 Phase5 Layout Positioners Routes.
Import ListNotations.
Local Open Scope Q_scope.

Theorem C06_straight_two_points : forall g e a mid b, is_flat g e = false ->
  route_straight g e (a :: mid ++ [b]) = [start_point g a; end_point g b].
Proof. exact route_straight_ends. Qed.
Print Assumptions C06_straight_two_points.

Theorem C06_polyline_one_bend_per_band : forall g e a mid b, is_flat g e = false ->
  (forall n, In n mid -> n_virt (gnode g n) = true) -> e_pts (gedge g e) = [] ->
  route_polyline g e (a :: mid ++ [b]) = Ok (start_point g a :: map (bend g) mid ++ [end_point g b]).
Proof. exact route_polyline_ok. Qed.
Print Assumptions C06_polyline_one_bend_per_band.

Theorem C06_polyline_never_upward : forall g sp a mid b, 0 <= sp ->
  chain_y_ge g sp (a :: mid ++ [b]) ->
  (forall n, In n (a :: mid ++ [b]) -> 0 <= nH g n /\ nH g n <= layer_h_of g n) ->
  y_mono (start_point g a :: map (bend g) mid ++ [end_point g b]).
Proof. exact polyline_y_mono. Qed.
Print Assumptions C06_polyline_never_upward.

Theorem C06_bend_inside_its_band : forall g mid n,
  (forall m, In m mid -> 0 <= layer_h_of g m) -> In n mid ->
  In (bend g n) (map (bend g) mid) /\
  nY g n <= snd (bend g n) /\ snd (bend g n) <= nY g n + layer_h_of g n.
Proof. exact polyline_bends_in_band. Qed.
Print Assumptions C06_bend_inside_its_band.

Theorem C06_bend_not_inside_a_node : forall g m n, 0 <= nW g n -> 0 <= layer_h_of g n ->
  (nX g m + nW g m <= nX g n \/ nX g n + nW g n <= nX g m) \/
  (nY g m + nH g m <= nY g n \/ nY g n + layer_h_of g n <= nY g m) ->
  ~ strictly_inside g m (bend g n).
Proof. exact bend_not_strictly_inside. Qed.
Print Assumptions C06_bend_not_inside_a_node.

Theorem C06_ortho_horizontal_or_vertical : forall g sp e a mid b,
  is_flat g e = false -> e_pts (gedge g e) = [] -> ends_match g e a b ->
  chain_y_eq g sp (a :: mid ++ [b]) -> all_hv (route_ortho g sp e (a :: mid ++ [b])).
Proof. exact route_ortho_all_hv. Qed.
Print Assumptions C06_ortho_horizontal_or_vertical.

(* the vertical geometry the three theorems above assume is what assign_y produces *)
Theorem C06_vertical_geometry : forall sp g ns, layers_wf g ->
  (forall n, In n ns -> placed g n) -> chain_layers g ns -> chain_y_eq (assign_y sp g) sp ns.
Proof. exact assign_y_chain. Qed.
Print Assumptions C06_vertical_geometry.

(* ---------- end to end (Proofs/E2E*.v, Whole*.v, NS*.v, Final.v): no premise besides hypotheses on the input ---------- *)
From Autog Require Import Pipeline E2EBackbone E2EOutput WholeCrossings WholeOverlap WholeLayout Final.
Local Open Scope Q_scope.


(* [E4_statement alg sp g g'] (Proofs/E2EOutput.v): every non-self-loop edge satisfies E4_shape: Straight — exactly
   the two end points; Polyline — start point, one bend per intermediate band (at a helper node beyond the input
   arena, inside its band), end point: as many points as bands spanned plus one, y never decreasing; Ortho — every
   segment horizontal or vertical, from the start point to the end point *)
Theorem C06_component_end_to_end : forall o g g' x, component_input g -> options_ok o ->
  layout_component o g = Ok (g', x) -> E4_statement (o_p5 o) (o_layer_spacing o) g g'.
Proof. exact G4_route_shape. Qed.
Print Assumptions C06_component_end_to_end.

(* ---------- every positioner, Brandes-Koepf and the NetworkSimplex positioner included (Model/PipelineBK.v) ---------- *)
From Autog Require Import PipelineBK E2EBridge BKPipeline BKPipeline2.

Theorem C06_component_end_to_end_any_positioner : forall bk o g g' x, component_input g -> modelled_p5 (o_p5 o) ->
  layout_component_x bk o g = Ok (g', x) -> E4_statement (o_p5 o) (o_layer_spacing o) g g'.
Proof. exact Gx4_route_shape_any. Qed.
Print Assumptions C06_component_end_to_end_any_positioner.

(* ---------- spline routing: 4k control points whose cubic pieces join end to end (Proofs/SplinePipeline2.v), for every
   router/fitter with the contracts [shortest_ok] / [fit_ok] (see Properties/C05.v) ---------- *)
From Autog Require Import Geom SplineStruct Splines PipelineSpl SplineProofs SplineRouting SplinePipeline SplinePipeline2.

Theorem C06_spline_routes_4k_points_joined : forall shortest fit mk_inner, shortest_ok shortest -> fit_ok fit ->
  forall bk o g g' x, component_input g -> o_p5 o = Phase5.OtherRouting ->
  layout_component_sx shortest fit mk_inner bk o g = Ok (g', x) ->
  forall e, In e (g_E g) -> self_loop g e = false ->
    let pts := e_pts (gedge g' e) in
    exists k, (1 <= k)%nat /\ length pts = (4 * k)%nat /\
      forall d i, (i + 1 < k)%nat -> nth (4 * i + 3) pts d = nth (4 * (i + 1)) pts d.
Proof. exact Gs4_spline_points. Qed.
Print Assumptions C06_spline_routes_4k_points_joined.

(* the structure of FitSpline meets the fitter's contract for every numeric oracle that keeps the end points *)
Theorem C06_fit_spline_meets_contract : forall (tryfit : piece pt -> list pt -> pt -> pt -> option (piece pt)) maxerr tangent ctrl0 fuel t0,
  tryfit_keeps_ends tryfit ->
  fit_ok (fun path _ => fit_spline tryfit maxerr tangent ctrl0 fuel path t0 t0).
Proof. intros. apply fit_spline_fit_ok. assumption. Qed.
Print Assumptions C06_fit_spline_meets_contract.

(* ---------- with the OTHER ordering option, autog.OrderingNoop (Model/PipelineNoop.v: [layout_n bk] is Layout with the
   bands kept in the order of the layering, every positioner; Proofs/NoopPipeline*.v) ---------- *)
From Autog Require Import PipelineNoop NoopPipeline NoopPipeline2.
Theorem C06_component_end_to_end_noop_ordering : forall bk o g g' x, component_input g -> modelled_p5 (o_p5 o) ->
  layout_component_n bk o g = Ok (g', x) -> E4_statement (o_p5 o) (o_layer_spacing o) g g'.
Proof. exact Gn4_route_shape_any. Qed.
Print Assumptions C06_component_end_to_end_noop_ordering.
