(* C07 — Layout is a deterministic, side-effect-free function of its arguments.
   The model (Model/Pipeline.v, [layout]) is a Gallina function, so ON THE MODEL the statement "same arguments,
   same result" is trivial; what has to be shown is that the Go code has no source of variation the model lacks.
   The translator regenerates from the source, on every run, the list of (a) range loops over maps and calls that
   expose a map's key order, (b) uses of clocks and random generators, (c) goroutines/selects, (d) element
   writes through caller-owned parameters, (e) accesses to package-level variables. The obligations below are
   evaluated by the kernel on that list:
   - every range over a map is one of the covered sites, identified by file, function and a hash of its source
     text, and for each covered site the order is proved irrelevant (Proofs/Determinism.v): independent updates of
     distinct nodes, or a running max/min;
   - no call exposes the key order of a map (hashmap.Keys has no caller left);
   - clocks and random generators appear only in the greedy breaker, whose generator is consulted only under the
     explicitly non-deterministic option;
   - the caller's edge list and size map are never written; package-level state is only written under a monitor
     (see C15) and never read by the layout code (see C18).
   Unstable sorts: sort.Slice is deterministic for a given input; where its tie order could matter (longest-path
   layering) the result is proved independent of the visiting order (C11_visiting_order_is_irrelevant); all other
   sorts have pairwise distinct keys (positions).
   The correspondence (deep + end-to-end) ties the function [layout] to the implementation on the generated
   cases; the direct oracle repeats calls in one process and compares byte-wise, and checks the inputs after. *)
From Coq Require Import String List Bool.
From Coq Require Import QArith Permutation.
From Autog Require Import Graph Phase2 Phase4 Facts FactsChecks Determinism Scale.
Import ListNotations.

Theorem C07_map_ranges_are_covered : map_order_sites_covered = true /\ mapkeys_absent = true.
Proof. split; vm_compute; reflexivity. Qed.
Print Assumptions C07_map_ranges_are_covered.

Theorem C07_no_clock_no_randomness : time_rand_only_in_greedy = true /\ no_concurrency_constructs = true.
Proof. split; vm_compute; reflexivity. Qed.
Print Assumptions C07_no_clock_no_randomness.

Theorem C07_inputs_not_written : caller_data_not_written = true.
Proof. vm_compute; reflexivity. Qed.
Print Assumptions C07_inputs_not_written.

Theorem C07_no_hidden_state : globals_known = true /\ writes_guarded = true /\ monitor_state_private = true.
Proof. repeat split; vm_compute; reflexivity. Qed.
Print Assumptions C07_no_hidden_state.

(* the covered map ranges: the order of iteration is irrelevant *)
(* feasibleTree: for n := range treeNodes { n.Layer += d } *)
Theorem C07_site_shift_layers : forall l l' d g, Permutation l l' -> NoDup l ->
  fold_left (fun g n => upd_node g n (fun nd => set_layer (n_layer nd + d)%Z nd)) l g =
  fold_left (fun g n => upd_node g n (fun nd => set_layer (n_layer nd + d)%Z nd)) l' g.
Proof. exact shift_layers_perm. Qed.
Print Assumptions C07_site_shift_layers.

(* execSinkColoring: for n, x := range xcoord { blockmax[roots[n]] = max(blockmax[roots[n]], x) } — and the whole
   positioner run with any permutation of that iteration gives the same error or an equivalent graph *)
Theorem C07_site_blockmax : forall nodes nodes' s g, Permutation nodes nodes' ->
  res_rel graph_equiv (exec_sink_coloring_on nodes s g) (exec_sink_coloring_on nodes' s g).
Proof. exact exec_sink_coloring_perm. Qed.
Print Assumptions C07_site_blockmax.

(* Brandes-Koepf xcoordinates.Size: running min / max over the map *)
Theorem C07_site_minmax : forall (l l' : list (Q * Q)) a, Permutation l l' ->
  (fst (fold_left minmax_step l a) == fst (fold_left minmax_step l' a))%Q /\
  (snd (fold_left minmax_step l a) == snd (fold_left minmax_step l' a))%Q.
Proof. exact minmax_perm. Qed.
Print Assumptions C07_site_minmax.
