(* C08 — Node identifiers are opaque labels.
   Model: Model/Populate.v, generic in the identifier type; proofs: Proofs/PopulateProofs.v, Proofs/Summary.v.
   The working state of the model (record [graph]) holds no identifier at all: nodes are arena indices, and the
   table [ids] that maps an index to its name is produced by [populate] and used again only to print the
   output. So the statement "renaming yields the same layout with the names mapped" reduces to: populate and the
   size options build the IDENTICAL indexed graph for the renamed input, with the name table renamed — every
   later step is a function of that graph alone. The tie to the code: the translator lists every read of a
   node's ID field in the source; [C08_ids_are_only_copied] checks that they are confined to the places that copy
   or print a name, and the correspondence check runs the identifier-free model against the implementation on
   inputs renamed with helper-like names ("V1", "NE0"), the empty string and non-ASCII strings. *)
From Coq Require Import List QArith.
From Autog Require Import Graph Populate PopulateProofs Summary Facts FactsChecks.
Import ListNotations.

(* rho is injective as far as equality tests can tell: eqB (rho x) (rho y) = eqA x y *)
Theorem C08_populate_builds_the_same_graph :
  forall (A B : Type) (eqA : A -> A -> bool) (eqB : B -> B -> bool) (rho : A -> B),
  (forall x y, eqB (rho x) (rho y) = eqA x y) ->
  forall es, populate B eqB (map (map rho) es) =
             match populate A eqA es with Ok (ids, g) => Ok (map rho ids, g) | Err e => Err e end.
Proof. exact populate_rename. Qed.
Print Assumptions C08_populate_builds_the_same_graph.

Theorem C08_size_options_follow_the_renaming :
  forall (A B : Type) (eqA : A -> A -> bool) (eqB : B -> B -> bool) (rho : A -> B),
  (forall x y, eqB (rho x) (rho y) = eqA x y) ->
  forall fixed sizes ids g,
    apply_sizes B eqB fixed (option_map (map (fun p : A * (Q * Q) => (rho (fst p), snd p))) sizes) (map rho ids) g
    = apply_sizes A eqA fixed sizes ids g.
Proof. exact apply_sizes_rename. Qed.
Print Assumptions C08_size_options_follow_the_renaming.

Theorem C08_front_end : forall (A B : Type) (eqA : A -> A -> bool) (eqB : B -> B -> bool) (rho : A -> B),
  (forall x y, eqB (rho x) (rho y) = eqA x y) ->
  forall es fixed sizes ids g,
    populate A eqA es = Ok (ids, g) ->
    exists ids', populate B eqB (map (map rho) es) = Ok (ids', g) /\ ids' = map rho ids /\
      apply_sizes B eqB fixed (option_map (map (fun p : A * (Q * Q) => (rho (fst p), snd p))) sizes) ids' g =
      apply_sizes A eqA fixed sizes ids g.
Proof. exact frontend_rename. Qed.
Print Assumptions C08_front_end.

(* ---------- the WHOLE Layout (Proofs/RenameLayout.v): every pipeline of the model — weighted-median or no-op ordering, every
   positioner, straight/polyline/orthogonal routing, and spline routing over any router and fitter — returns, for the renamed
   input, the same nodes, edges and crossing numbers, with the name table renamed (the output refers to nodes by index into
   that table); and fails with the same error when it fails ---------- *)
From Autog Require Import Layout Pipeline PipelineBK PipelineNoop PipelineSpl RenameLayout.
Theorem C08_layout_renamed : forall (A B : Type) (eqA : A -> A -> bool) (eqB : B -> B -> bool) (rho : A -> B),
  (forall x y, eqB (rho x) (rho y) = eqA x y) ->
  forall bk o fixed sizes es,
    layout_x B eqB bk o fixed (rename_sizes rho sizes) (map (map rho) es) = rename_result rho (layout_x A eqA bk o fixed sizes es).
Proof. exact layout_x_rename. Qed.
Print Assumptions C08_layout_renamed.

Theorem C08_layout_renamed_noop_ordering : forall (A B : Type) (eqA : A -> A -> bool) (eqB : B -> B -> bool) (rho : A -> B),
  (forall x y, eqB (rho x) (rho y) = eqA x y) ->
  forall bk o fixed sizes es,
    layout_n B eqB bk o fixed (rename_sizes rho sizes) (map (map rho) es) = rename_result rho (layout_n A eqA bk o fixed sizes es).
Proof. exact layout_n_rename. Qed.
Print Assumptions C08_layout_renamed_noop_ordering.

Theorem C08_layout_renamed_spline_routing : forall (A B : Type) (eqA : A -> A -> bool) (eqB : B -> B -> bool) (rho : A -> B),
  (forall x y, eqB (rho x) (rho y) = eqA x y) ->
  forall shortest fit mk_inner bk o fixed sizes es,
    layout_sx shortest fit mk_inner B eqB bk o fixed (rename_sizes rho sizes) (map (map rho) es)
    = rename_result rho (layout_sx shortest fit mk_inner A eqA bk o fixed sizes es).
Proof. exact layout_sx_rename. Qed.
Print Assumptions C08_layout_renamed_spline_routing.

(* the premise is satisfiable and the statement is not about an always-failing call: names 1.. renamed to strings *)
From Coq Require String.
Definition c08_rho (n : nat) : String.string := String.String (Ascii.ascii_of_nat (65 + n)) String.EmptyString.
Definition c08_o := mkOptions DepthFirst LongestPath OtherPositioner Polyline 1 0 5 7 false.
Definition c08_es : list (list nat) := [[1; 2]; [2; 3]; [1; 3]; [4; 5]]%nat.
Example C08_renaming_instance_injective : forall x y, (x < 20)%nat -> (y < 20)%nat -> String.eqb (c08_rho x) (c08_rho y) = Nat.eqb x y.
Proof.
  intros x y Hx Hy.
  do 20 (destruct x as [|x]; [do 20 (destruct y as [|y]; [reflexivity|]); exfalso; Lia.lia|]). exfalso; Lia.lia.
Qed.
Example C08_renaming_instance : exists ids r,
  layout_x nat Nat.eqb 0 c08_o None None c08_es = Ok (ids, r) /\
  layout_x String.string String.eqb 0 c08_o None None (map (map c08_rho) c08_es) = Ok (map c08_rho ids, r).
Proof. eexists; eexists; split; vm_compute; reflexivity. Qed.

(* obligation over the regenerated source facts: IDs are read only where they are copied or printed *)
Theorem C08_ids_are_only_copied : id_reads_allowed = true.
Proof. vm_compute; reflexivity. Qed.
Print Assumptions C08_ids_are_only_copied.
