(* C08 — Node identifiers are opaque labels.
   Model: Model/Populate.v, generic in the identifier type; proofs: Proofs/PopulateProofs.v, Proofs/Summary.v.
   The working state of the model (record [graph]) holds no identifier at all: nodes are arena indices, and the
   table [ids] that maps an index to its name is produced by [populate] and used again only to print the
   output. So the statement "renaming yields the same layout with the names mapped" reduces to: populate and the
   size options build the IDENTICAL indexed graph for the renamed input, with the name table renamed — every
   later step is a function of that graph alone. The tie to the code: the translator lists every read of a
   node's ID field in the source; [C08_ids_are_only_copied] checks that they are confined to the places that copy
   or print a name, and the correspondence check runs the identifier-free model against the implementation on
   inputs renamed with helper-like names ("V1", "NE0"), the empty string and non-ASCII strings. *)
From Coq Require Import List QArith.
From Autog Require Import Graph Populate PopulateProofs Summary Facts FactsChecks.
Import ListNotations.

(* rho is injective as far as equality tests can tell: eqB (rho x) (rho y) = eqA x y *)
Theorem C08_populate_builds_the_same_graph :
  forall (A B : Type) (eqA : A -> A -> bool) (eqB : B -> B -> bool) (rho : A -> B),
  (forall x y, eqB (rho x) (rho y) = eqA x y) ->
  forall es, populate B eqB (map (map rho) es) =
             match populate A eqA es with Ok (ids, g) => Ok (map rho ids, g) | Err e => Err e end.
Proof. exact populate_rename. Qed.
Print Assumptions C08_populate_builds_the_same_graph.

Theorem C08_size_options_follow_the_renaming :
  forall (A B : Type) (eqA : A -> A -> bool) (eqB : B -> B -> bool) (rho : A -> B),
  (forall x y, eqB (rho x) (rho y) = eqA x y) ->
  forall fixed sizes ids g,
    apply_sizes B eqB fixed (option_map (map (fun p : A * (Q * Q) => (rho (fst p), snd p))) sizes) (map rho ids) g
    = apply_sizes A eqA fixed sizes ids g.
Proof. exact apply_sizes_rename. Qed.
Print Assumptions C08_size_options_follow_the_renaming.

Theorem C08_front_end : forall (A B : Type) (eqA : A -> A -> bool) (eqB : B -> B -> bool) (rho : A -> B),
  (forall x y, eqB (rho x) (rho y) = eqA x y) ->
  forall es fixed sizes ids g,
    populate A eqA es = Ok (ids, g) ->
    exists ids', populate B eqB (map (map rho) es) = Ok (ids', g) /\ ids' = map rho ids /\
      apply_sizes B eqB fixed (option_map (map (fun p : A * (Q * Q) => (rho (fst p), snd p))) sizes) ids' g =
      apply_sizes A eqA fixed sizes ids g.
Proof. exact frontend_rename. Qed.
Print Assumptions C08_front_end.

(* obligation over the regenerated source facts: IDs are read only where they are copied or printed *)
Theorem C08_ids_are_only_copied : id_reads_allowed = true.
Proof. vm_compute; reflexivity. Qed.
Print Assumptions C08_ids_are_only_copied.
