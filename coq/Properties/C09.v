(* C09 — Disconnected components are laid out independently, side by side.
   Model: Model/Populate.v (components, reach, subgraph), Model/Check.v (collect_all); proofs:
   Proofs/ComponentsProofs.v, Proofs/Summary.v.
   Proved here, for every consistent graph: the components are exactly the undirected connectivity classes, each
   keeps the node and edge ORDER of the input (so a component is presented to the phases exactly as the
   populated sole input would be, up to the numbering of its nodes), they are disjoint, cover the input, are
   closed under edges, appear in the order of their first node, and are themselves consistent.
   "Receives exactly the layout it would receive as the sole input, translated horizontally" is proved in full
   (C09_component_layout_is_sole_layout_translated, Proofs/Renumber*.v): every phase of the model is equivariant
   under an injective renumbering of the arena indices (20 files, one per phase; fuel-recursive functions are
   proved equivariant for independent fuels), the component of the union and the populated sole input are
   isomorphic arenas, hence the output records of component k in Layout(es) are those of Layout(es restricted to
   the component's edges) with node indices renamed by an injective map, x increased by the component's shift,
   and y, sizes, arrow flags, route ordinates and the reported crossing number identical. The sole run can differ
   only by running out of the model's fuel (C09_sole_layout_fails_only_by_fuel), never by a genuine error. Scope:
   the positioners and routers run by the model function [layout] (VAlign, PackRight, SinkColoring, NetworkSimplex;
   Straight, Polyline, Ortho); Brandes-Koepf and splines are not part of [layout]. *)
From Coq Require Import List Permutation.
From Coq Require Import QArith.
From Autog Require Import Graph Populate Layout Pipeline Check Consistent ComponentsProofs Summary Shift.
From Autog Require Import RenumberBase RenumberFinal.
Import ListNotations.

Theorem C09_components_partial : forall g, consistent g ->
  let cs := components g in
  (forall c, In c cs -> g_na c = g_na g /\ g_ea c = g_ea g /\ g_L c = g_L g) /\
  (forall c, In c cs -> g_N c = filter (fun n => mem_nat n (g_N c)) (g_N g)) /\
  (forall c, In c cs -> g_E c = filter (fun e => mem_nat e (g_E c)) (g_E g)) /\
  ForallOrdPairs (fun c1 c2 => forall n, In n (g_N c1) -> ~ In n (g_N c2)) cs /\
  ForallOrdPairs (fun c1 c2 => forall e, In e (g_E c1) -> ~ In e (g_E c2)) cs /\
  Permutation (concat (map g_N cs)) (g_N g) /\
  Permutation (concat (map g_E cs)) (g_E g) /\
  (forall c e, In c cs -> In e (g_E g) ->
     (In e (g_E c) <-> In (e_from (gedge g e)) (g_N c)) /\
     (In e (g_E c) <-> In (e_to (gedge g e)) (g_N c))) /\
  (forall c e, In c cs -> In e (g_E c) -> In (e_from (gedge c e)) (g_N c) /\ In (e_to (gedge c e)) (g_N c)) /\
  (forall c n, In c cs -> In n (g_N c) -> forall m, In m (g_N c) <-> conn g n m) /\
  (forall c, In c cs -> g_N c <> []) /\
  (forall c, In c cs -> consistent c) /\
  (exists rs, map (fun c => hd_error (g_N c)) cs = map Some rs /\
              rs = filter (fun n => mem_nat n rs) (g_N g) /\
              hd_error rs = hd_error (g_N g) /\
              cs = map (fun r => subgraph g (reach g r)) rs).
Proof. exact components_partition. Qed.
Print Assumptions C09_components_partial.

(* the graph Layout works on is consistent at every stage of the front end *)
Theorem C09_front_end_consistent : forall (A : Type) (eqA : A -> A -> bool),
  (forall x y, eqA x y = true <-> x = y) ->
  forall es ids g fixed sizes,
    populate A eqA es = Ok (ids, g) ->
    let g1 := apply_sizes A eqA fixed sizes ids g in
    consistent g1 /\
    forall c, In c (components g1) ->
      consistent c /\
      consistent (fst (ignore_self_loops c)) /\
      (forall e, In e (g_E (fst (ignore_self_loops c))) -> self_loop c e = false) /\
      consistent (restore_self_loops (fst (ignore_self_loops c)) (snd (ignore_self_loops c))).
Proof. exact frontend_consistent. Qed.
Print Assumptions C09_front_end_consistent.

(* side by side: with size-aware positioners the horizontal extents of any two components are disjoint and at
   least NodeSpacing apart ([comp_ok]: x >= 0 and the last node of every band is its rightmost — what the
   no-overlap theorems of C04 give) *)
Theorem C09_components_side_by_side : forall o gs ns es,
  collect_all o gs 0 = (ns, es) -> (0 <= o_node_spacing o)%Q -> (forall g, In g gs -> comp_ok g) ->
  ns = concat (map (comp_nodes o gs 0) (seq 0 (length gs))) /\
  (forall i j a b, (i < j < length gs)%nat ->
     In a (comp_nodes o gs 0 i) -> In b (comp_nodes o gs 0 j) ->
     (on_x a + on_w a + o_node_spacing o <= on_x b)%Q) /\
  (forall a, In a ns -> (0 <= on_x a)%Q).
Proof. exact collect_all_separated. Qed.
Print Assumptions C09_components_side_by_side.

(* each component receives exactly the layout it would receive as the sole input, translated horizontally *)
Theorem C09_component_layout_is_sole_layout_translated : forall (A : Type) (eqA : A -> A -> bool),
  (forall x y, eqA x y = true <-> x = y) ->
  forall o fixed sizes es ids g0 ns eo xs k c,
  populate A eqA es = Ok (ids, g0) ->
  layout A eqA o fixed sizes es = Ok (ids, (ns, eo, xs)) ->
  nth_error (components (apply_sizes A eqA fixed sizes ids g0)) k = Some c ->
  forall ids1 ns1 eo1 xs1,
  layout A eqA o fixed sizes (map (fun i => nth i es []) (g_E c)) = Ok (ids1, (ns1, eo1, xs1)) ->
  exists gs sigma,
    inj sigma /\
    collect_all o gs 0 = (ns, eo) /\
    Forall2 (fun c g => exists x, layout_component o c = Ok (g, x))
            (components (apply_sizes A eqA fixed sizes ids g0)) gs /\
    Forall2 (onode_shifted sigma (shift_at o gs 0 k)) ns1 (comp_nodes o gs 0 k) /\
    Forall2 (oedge_shifted sigma (shift_at o gs 0 k)) eo1 (comp_edges o gs 0 k) /\
    (exists x, layout_component o c = Ok (nth k gs graph0, x) /\
               xs1 = match x with Some v => [v] | None => [] end).
Proof. exact component_layout_is_sole_layout_translated. Qed.
Print Assumptions C09_component_layout_is_sole_layout_translated.

Theorem C09_sole_layout_fails_only_by_fuel : forall (A : Type) (eqA : A -> A -> bool),
  (forall x y, eqA x y = true <-> x = y) ->
  forall o fixed sizes es ids g0 ns eo xs k c,
  populate A eqA es = Ok (ids, g0) ->
  layout A eqA o fixed sizes es = Ok (ids, (ns, eo, xs)) ->
  nth_error (components (apply_sizes A eqA fixed sizes ids g0)) k = Some c ->
  (exists r, layout A eqA o fixed sizes (map (fun i => nth i es []) (g_E c)) = Ok r) \/
  (exists w, layout A eqA o fixed sizes (map (fun i => nth i es []) (g_E c)) = Err (ErrFuel w)).
Proof. exact sole_layout_fails_only_by_fuel. Qed.
Print Assumptions C09_sole_layout_fails_only_by_fuel.

(* the same with the success of the sole run PROVED (from the totality of Layout, C01): nothing is assumed about
   the run on the component alone *)
From Autog Require TotalPipeline C09Close.
Theorem C09_component_layout_is_sole_layout_translated_total : forall (A : Type) (eqA : A -> A -> bool),
  (forall x y, eqA x y = true <-> x = y) ->
  forall o fixed sizes es ids g0 ns eo xs k c,
  Forall (fun p => length p = 2%nat) es -> TotalPipeline.layout_options_ok A o es ->
  populate A eqA es = Ok (ids, g0) ->
  layout A eqA o fixed sizes es = Ok (ids, (ns, eo, xs)) ->
  nth_error (components (apply_sizes A eqA fixed sizes ids g0)) k = Some c ->
  exists ids1 ns1 eo1 xs1,
    layout A eqA o fixed sizes (map (fun i => nth i es []) (g_E c)) = Ok (ids1, (ns1, eo1, xs1)) /\
    exists gs sigma, inj sigma /\ collect_all o gs 0 = (ns, eo) /\
      Forall2 (fun c g => exists x, layout_component o c = Ok (g, x))
              (components (apply_sizes A eqA fixed sizes ids g0)) gs /\
      Forall2 (onode_shifted sigma (shift_at o gs 0 k)) ns1 (comp_nodes o gs 0 k) /\
      Forall2 (oedge_shifted sigma (shift_at o gs 0 k)) eo1 (comp_edges o gs 0 k) /\
      (exists x, layout_component o c = Ok (nth k gs graph0, x) /\
                 xs1 = match x with Some v => [v] | None => [] end).
Proof. exact C09Close.component_layout_is_sole_layout_translated_total. Qed.
Print Assumptions C09_component_layout_is_sole_layout_translated_total.

(* ---------- the same with the Brandes-Koepf positioner (Model/PipelineBK.v, Proofs/RenumberBK*.v). The balanced
   layout folds min/max over the coordinate table in arena order, so its equivariance holds for ORDER-PRESERVING
   renumberings (exec_bk_iso_needs_order is the counterexample otherwise, up to Qeq only); the renumbering of a
   component is order preserving (component_sigma_smono), so the statement needs no side condition ---------- *)
From Autog Require Import PipelineBK RenumberBK RenumberBK2.
Theorem C09_component_layout_is_sole_layout_translated_brandes_koepf : forall (A : Type) (eqA : A -> A -> bool),
  (forall x y, eqA x y = true <-> x = y) ->
  forall bk o fixed sizes es ids g0 ns eo xs k c,
  populate A eqA es = Ok (ids, g0) ->
  layout_x A eqA bk o fixed sizes es = Ok (ids, (ns, eo, xs)) ->
  nth_error (components (apply_sizes A eqA fixed sizes ids g0)) k = Some c ->
  forall ids1 ns1 eo1 xs1,
  layout_x A eqA bk o fixed sizes (map (fun i => nth i es []) (g_E c)) = Ok (ids1, (ns1, eo1, xs1)) ->
  exists gs sigma, inj sigma /\ smono sigma /\ collect_all o gs 0 = (ns, eo) /\
    Forall2 (fun c g => exists x, layout_component_x bk o c = Ok (g, x)) (components (apply_sizes A eqA fixed sizes ids g0)) gs /\
    Forall2 (onode_shifted sigma (shift_at o gs 0 k)) ns1 (comp_nodes o gs 0 k) /\
    Forall2 (oedge_shifted sigma (shift_at o gs 0 k)) eo1 (comp_edges o gs 0 k) /\
    (exists x, layout_component_x bk o c = Ok (nth k gs graph0, x) /\ xs1 = match x with Some v => [v] | None => [] end).
Proof. exact component_layout_x_is_sole_layout_translated. Qed.
Print Assumptions C09_component_layout_is_sole_layout_translated_brandes_koepf.

(* ---------- the same with autog.OrderingNoop (Model/PipelineNoop.v, Proofs/NoopComponents.v), every positioner, with the success of
   the sole run PROVED and no crossing number reported on either side ---------- *)
From Autog Require Import PipelineNoop NoopComponents.
Theorem C09_component_layout_is_sole_layout_translated_noop_ordering : forall (A : Type) (eqA : A -> A -> bool),
  (forall x y, eqA x y = true <-> x = y) ->
  forall bk o fixed sizes es ids g0 ns eo xs k c,
  Forall (fun p => length p = 2%nat) es -> BKTotal3.layout_x_options_ok A o es ->
  populate A eqA es = Ok (ids, g0) ->
  layout_n A eqA bk o fixed sizes es = Ok (ids, (ns, eo, xs)) ->
  nth_error (components (apply_sizes A eqA fixed sizes ids g0)) k = Some c ->
  exists ids1 ns1 eo1,
    layout_n A eqA bk o fixed sizes (map (fun i => nth i es []) (g_E c)) = Ok (ids1, (ns1, eo1, [])) /\
    exists gs sigma, inj sigma /\ smono sigma /\ collect_all o gs 0 = (ns, eo) /\
      Forall2 (fun c g => exists x, layout_component_n bk o c = Ok (g, x))
              (components (apply_sizes A eqA fixed sizes ids g0)) gs /\
      Forall2 (onode_shifted sigma (shift_at o gs 0 k)) ns1 (comp_nodes o gs 0 k) /\
      Forall2 (oedge_shifted sigma (shift_at o gs 0 k)) eo1 (comp_edges o gs 0 k) /\
      layout_component_n bk o c = Ok (nth k gs graph0, None).
Proof. exact component_layout_n_is_sole_layout_translated_total. Qed.
Print Assumptions C09_component_layout_is_sole_layout_translated_noop_ordering.

(* ---------- regenerated from the source on every run (translator): Layout never assigns to its own copy of the
   options after the Option functions were applied, so every connected component is processed with the same
   parameters whatever the rest of the input looks like (a per-component parameter derived from the whole graph, e.g.
   an iteration budget from the total node count, would break "the layout it would receive as the sole input" only
   on inputs whose budget binds) ---------- *)
From Autog Require Facts.
Theorem C09_same_options_for_every_component : Facts.layout_option_writes = [].
Proof. reflexivity. Qed.
Print Assumptions C09_same_options_for_every_component.
