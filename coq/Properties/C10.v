(* C10 — Network-simplex layering minimises total edge length.
   Model: Model/Phase2.v; proofs: Proofs/Optimality.v, OptNormalize.v, OptVbalance.v, OptFeasible.v, OptInit.v,
   OptPipeline.v; per-instance evaluation: Proofs/CertCheck.v.
   Proved for ALL graph states: weak duality — a state accepted by the executable checker [cert_ok] (all edges
   feasible, tree edges tight with non-negative cut values, and the cut values form a flow with the divergence
   of the weights) is optimal among all layerings in which every edge spans at least its minimum length; the
   objective, feasibility and "no empty band" survive normalize and vbalance; init_layers and the tight-tree
   loop produce a feasible layering with a tight tree for every acyclic component.
   And (Proofs/NS*.v, NSOpt*.v): the pivot loop keeps a spanning tree of tight edges with a valid lim/low
   numbering; set_cut_values computes, for every tree edge, the net weight crossing the cut it induces; these cut
   values form a flow with the divergence of the weights; hence whenever the loop stops because no tree edge has a
   negative cut value — i.e. NOT on its iteration budget — the state is accepted by cert_ok and the layering is
   optimal, also after normalize and balancing (C10_network_simplex_is_optimal). The "todo: figure out why this
   could be nil" exit of the loop is shown to be dead code for non-negative weights. Bands are contiguous whether
   or not the budget was exhausted (C10_no_empty_band).
   The certificate checker is additionally evaluated by the kernel on every traced instance and on synthetic
   components (codes 1401-1403; unit correspondence of the whole layering with the certified optimum). *)
From Coq Require Import List ZArith.
From Autog Require Import Graph Phase2 Optimality OptNormalize OptVbalance OptFeasible OptInit OptPipeline.
From Autog Require NSDefs NSOptFinal NSOptHbalance.
Import ListNotations.
Open Scope Z_scope.

(* weak duality: an accepted state is optimal *)
Theorem C10_certificate_sound : forall g, cert_ok g = true ->
  forall lay', feasible_lay lay' g -> total_length (layer_of g) g <= total_length lay' g.
Proof. exact cert_sound. Qed.
Print Assumptions C10_certificate_sound.

(* in the words of the property: with unit weights and minimum length 1, the sum over all edges of the number
   of bands they span is the minimum over all assignments in which every edge spans at least one band *)
Theorem C10_sum_of_spans_minimal : forall g, cert_ok g = true -> unit_weights g -> unit_deltas g ->
  (forall e, In e (g_E g) -> span (layer_of g) g e >= 1) /\
  forall lay', (forall e, In e (g_E g) -> span lay' g e >= 1) -> sum_spans (layer_of g) g <= sum_spans lay' g.
Proof. exact cert_sound_unit_delta1. Qed.
Print Assumptions C10_sum_of_spans_minimal.

(* normalize and vbalance keep the layering feasible, non-negative and optimal *)
Theorem C10_postprocessing_keeps_optimality : forall g, vb_wf g -> cert_ok g = true -> unit_weights g ->
  let gf := vbalance (normalize g) in
  feasible gf /\ layers_nonneg gf /\ total_length (layer_of gf) gf = total_length (layer_of g) g /\
  (forall lay', feasible_lay lay' gf -> total_length (layer_of gf) gf <= total_length lay' gf).
Proof. exact postprocess_optimal. Qed.
Print Assumptions C10_postprocessing_keeps_optimality.

(* bands stay contiguous: balancing never empties a band *)
Theorem C10_balancing_never_empties_a_band : forall g, vb_wf g -> feasible g -> layers_nonneg g ->
  (forall k, 0 <= k <= vb_lmax g -> exists n, In n (g_N g) /\ layer_of g n = k) ->
  forall k, 0 <= k <= vb_lmax g -> exists n, In n (g_N (vbalance g)) /\ layer_of (vbalance g) n = k.
Proof. exact vbalance_no_empty_layer. Qed.
Print Assumptions C10_balancing_never_empties_a_band.

(* the initial feasible tree: every edge feasible, every tree edge tight, for every acyclic component *)
Theorem C10_initial_tree_feasible : forall g g' ll, vb_wf g -> NoDup (g_E g) -> acyclic g ->
  feasible_tree g = Ok (g', ll) ->
  feasible g' /\ (forall e, In e (g_E g') -> e_tree (gedge g' e) = true -> slack g' e = 0) /\ fl_rel g g'.
Proof. exact feasible_tree_feasible. Qed.
Print Assumptions C10_initial_tree_feasible.

(* the property itself: with network-simplex layering, once the edge directions are fixed (g acyclic), if the
   iteration budget was not exhausted (second component of the result = false), the total edge length is minimal
   among all layerings in which every edge spans at least its minimum length — for vertical balancing (the
   layerer's default) and horizontal balancing alike *)
Theorem C10_network_simplex_is_optimal : forall p g g',
  NSDefs.ns_wf g -> acyclic g -> unit_weights g ->
  exec_network_simplex_capped p g = Ok (g', false) ->
  forall lay', feasible_lay lay' g' -> total_length (layer_of g') g' <= total_length lay' g'.
Proof. exact NSOptHbalance.exec_network_simplex_optimal_all. Qed.
Print Assumptions C10_network_simplex_is_optimal.

(* in the words of the property (unit minimum lengths): every edge spans at least one band and the sum of the
   spans is minimal *)
Theorem C10_sum_of_spans_is_minimal : forall p g g',
  NSDefs.ns_wf g -> acyclic g -> unit_weights g -> unit_deltas g -> ns_balance p = 1 ->
  exec_network_simplex_capped p g = Ok (g', false) ->
  (forall e, In e (g_E g') -> span (layer_of g') g' e >= 1) /\
  forall lay', (forall e, In e (g_E g') -> span lay' g' e >= 1) -> sum_spans (layer_of g') g' <= sum_spans lay' g'.
Proof. exact NSOptFinal.exec_network_simplex_min_spans_delta1. Qed.
Print Assumptions C10_sum_of_spans_is_minimal.

(* within a component bands are contiguous, budget exhausted or not *)
Theorem C10_no_empty_band : forall p g g' b g'',
  NSDefs.ns_wf g -> acyclic g -> unit_deltas g -> ns_balance p <> 2 ->
  exec_network_simplex_capped p g = Ok (g', b) -> init_layer_slices g' = Ok g'' ->
  forall i, (i < length (g_L g''))%nat -> l_nodes (glayer g'' i) <> [].
Proof. exact NSOptFinal.exec_network_simplex_no_empty_band. Qed.
Print Assumptions C10_no_empty_band.

(* ---------- regenerated from the source on every run (translator): the layering phase does not read node identifiers, as its
   model, which contains none, assumes ---------- *)
From Coq Require Import String.
From Autog Require Facts FactsChecks.
Theorem C10_code_reads_no_identifier : FactsChecks.id_reads_allowed_in "internal/phase2/"%string = true.
Proof. vm_compute. reflexivity. Qed.
Print Assumptions C10_code_reads_no_identifier.
