(* C10 — Network-simplex layering minimises total edge length.
   Model: Model/Phase2.v; proofs: Proofs/Optimality.v, OptNormalize.v, OptVbalance.v, OptFeasible.v, OptInit.v,
   OptPipeline.v; per-instance evaluation: Proofs/CertCheck.v.
   Proved for ALL graph states: weak duality — a state accepted by the executable checker [cert_ok] (all edges
   feasible, tree edges tight with non-negative cut values, and the cut values form a flow with the divergence
   of the weights) is optimal among all layerings in which every edge spans at least its minimum length; the
   objective, feasibility and "no empty band" survive normalize and vbalance; init_layers and the tight-tree
   loop produce a feasible layering with a tight tree for every acyclic component.
   C10 is decided by proof PLUS a per-instance kernel evaluation: that the pivot loop ENDS in a state accepted by
   cert_ok is not proved for all inputs (it needs the correctness of the lim/low numbering and of the cut-value
   computation, not mechanised); instead the model is run on every traced instance and cert_ok is evaluated on
   the state it reaches (codes 1401-1403 of the correspondence), for runs whose iteration budget was not
   exhausted. So the optimality of each explored instance is certified by the kernel; unexplored instances rest
   on the correspondence of model and code. *)
From Coq Require Import List ZArith.
From Autog Require Import Graph Phase2 Optimality OptNormalize OptVbalance OptFeasible OptInit OptPipeline.
Import ListNotations.
Open Scope Z_scope.

(* weak duality: an accepted state is optimal *)
Theorem C10_certificate_sound : forall g, cert_ok g = true ->
  forall lay', feasible_lay lay' g -> total_length (layer_of g) g <= total_length lay' g.
Proof. exact cert_sound. Qed.
Print Assumptions C10_certificate_sound.

(* in the words of the property: with unit weights and minimum length 1, the sum over all edges of the number
   of bands they span is the minimum over all assignments in which every edge spans at least one band *)
Theorem C10_sum_of_spans_minimal : forall g, cert_ok g = true -> unit_weights g -> unit_deltas g ->
  (forall e, In e (g_E g) -> span (layer_of g) g e >= 1) /\
  forall lay', (forall e, In e (g_E g) -> span lay' g e >= 1) -> sum_spans (layer_of g) g <= sum_spans lay' g.
Proof. exact cert_sound_unit_delta1. Qed.
Print Assumptions C10_sum_of_spans_minimal.

(* normalize and vbalance keep the layering feasible, non-negative and optimal *)
Theorem C10_postprocessing_keeps_optimality : forall g, vb_wf g -> cert_ok g = true -> unit_weights g ->
  let gf := vbalance (normalize g) in
  feasible gf /\ layers_nonneg gf /\ total_length (layer_of gf) gf = total_length (layer_of g) g /\
  (forall lay', feasible_lay lay' gf -> total_length (layer_of gf) gf <= total_length lay' gf).
Proof. exact postprocess_optimal. Qed.
Print Assumptions C10_postprocessing_keeps_optimality.

(* bands stay contiguous: balancing never empties a band *)
Theorem C10_balancing_never_empties_a_band : forall g, vb_wf g -> feasible g -> layers_nonneg g ->
  (forall k, 0 <= k <= vb_lmax g -> exists n, In n (g_N g) /\ layer_of g n = k) ->
  forall k, 0 <= k <= vb_lmax g -> exists n, In n (g_N (vbalance g)) /\ layer_of (vbalance g) n = k.
Proof. exact vbalance_no_empty_layer. Qed.
Print Assumptions C10_balancing_never_empties_a_band.

(* the initial feasible tree: every edge feasible, every tree edge tight, for every acyclic component *)
Theorem C10_initial_tree_feasible : forall g g' ll, vb_wf g -> NoDup (g_E g) -> acyclic g ->
  feasible_tree g = Ok (g', ll) ->
  feasible g' /\ (forall e, In e (g_E g') -> e_tree (gedge g' e) = true -> slack g' e = 0) /\ fl_rel g g'.
Proof. exact feasible_tree_feasible. Qed.
Print Assumptions C10_initial_tree_feasible.
