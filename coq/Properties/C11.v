(* C11 — Longest-path layering uses the minimum number of layers.
   Model: Model/Phase2.v (follow_lp, lp_nodes, exec_longest_path); proofs: Proofs/LongestPath.v.
   g is the cycle-broken connected component as phase 2 receives it: [consistent] (adjacency lists agree with
   the edges), [ranked] (it has a topological ranking, i.e. it is acyclic) and [unit_delta] (every edge has
   minimum length 1, as NewEdge sets it). A "path" is a chain of non-self-loop edges; length p = its edges. *)
From Autog Require Import Graph Phase2 LongestPath.

(* the layering terminates without error on every acyclic input (the recursion depth stays below the fuel) *)
Theorem C11_terminates : forall g,
  consistent g -> ranked g -> exists g', exec_longest_path g = Ok g'.
Proof. exact exec_longest_path_ok. Qed.
Print Assumptions C11_terminates.

(* every node sits exactly as many bands above the bottom band (index L-1) as the longest path from it to a
   sink is long *)
Theorem C11_bands_above_bottom_is_longest_path_to_sink : forall g g' h n,
  consistent g -> ranked g -> unit_delta g -> is_height g h -> exec_longest_path g = Ok g' ->
  In n (g_N g) ->
  (forall p m, path g n p m -> Z.of_nat (length p) <= nlayers g h - 1 - n_layer (gnode g' n)) /\
  (exists p m, path g n p m /\ is_sink g m /\
               Z.of_nat (length p) = nlayers g h - 1 - n_layer (gnode g' n)).
Proof. exact layer_is_dist_to_sink. Qed.
Print Assumptions C11_bands_above_bottom_is_longest_path_to_sink.

(* the number of bands L is the number of nodes on a longest directed path ... *)
Theorem C11_number_of_bands_is_longest_path : forall g h,
  consistent g -> ranked g -> unit_delta g -> is_height g h -> g_N g <> [] ->
  (forall n p m, path g n p m -> Z.of_nat (S (length p)) <= nlayers g h) /\
  (exists n p m, path g n p m /\ is_sink g m /\ Z.of_nat (S (length p)) = nlayers g h).
Proof. exact nlayers_is_longest_path. Qed.
Print Assumptions C11_number_of_bands_is_longest_path.

(* ... all layer indices lie in 0..L-1, every edge goes to a strictly larger index, band 0 is used ... *)
Theorem C11_layers_in_range_and_feasible : forall g g' h,
  consistent g -> ranked g -> is_height g h -> exec_longest_path g = Ok g' ->
  forall n, In n (g_N g) ->
    0 <= n_layer (gnode g' n) <= nlayers g h - 1 /\
    forall e, In e (n_out (gnode g n)) -> self_loop g e = false ->
      n_layer (gnode g' (e_to (gedge g e))) - n_layer (gnode g' n) >= e_delta (gedge g e).
Proof. exact feasible. Qed.
Print Assumptions C11_layers_in_range_and_feasible.

Theorem C11_top_band_used : forall g g',
  consistent g -> ranked g -> exec_longest_path g = Ok g' -> g_N g <> [] ->
  exists n, In n (g_N g) /\ n_layer (gnode g' n) = 0.
Proof. exact some_top. Qed.
Print Assumptions C11_top_band_used.

(* ... and every sink is in the bottom band *)
Theorem C11_sinks_in_bottom_band : forall g g' h,
  consistent g -> ranked g -> is_height g h -> exec_longest_path g = Ok g' ->
  forall n, In n (g_N g) -> is_sink g n -> n_layer (gnode g' n) = nlayers g h - 1.
Proof. exact sinks_bottom. Qed.
Print Assumptions C11_sinks_in_bottom_band.

(* the Go code visits the nodes in the order of an unstable sort; the result does not depend on the order *)
Theorem C11_visiting_order_is_irrelevant : forall g ns',
  consistent g -> ranked g -> Permutation.Permutation ns' (g_N g) ->
  (exists hs,
     lp_nodes (S (length (g_na g))) g ns' (lp_init g) = Ok (hs, nlayers g (height g)) /\
     lp_nodes (S (length (g_na g))) g (g_N g) (lp_init g) = Ok (hs, nlayers g (height g)) /\
     forall n, In n (g_N g) -> nth n hs (-1) = height g n) /\
  exec_longest_path_on ns' g = exec_longest_path g.
Proof. exact order_independent. Qed.
Print Assumptions C11_visiting_order_is_irrelevant.

(* nothing but the layer of the component's nodes changes *)
Theorem C11_frame : forall g g' h,
  consistent g -> ranked g -> is_height g h -> exec_longest_path g = Ok g' ->
  (forall n, In n (g_N g) -> n_layer (gnode g' n) = nlayers g h - h n) /\
  (forall n, gnode g' n = set_layer (n_layer (gnode g' n)) (gnode g n)) /\
  (forall n, ~ In n (g_N g) -> gnode g' n = gnode g n) /\
  length (g_na g') = length (g_na g) /\ g_ea g' = g_ea g /\ g_N g' = g_N g /\ g_E g' = g_E g /\ g_L g' = g_L g.
Proof. exact exec_longest_path_spec. Qed.
Print Assumptions C11_frame.

(* ---------- regenerated from the source on every run (translator): cycle breaking and layering does not read node identifiers, as its
   model, which contains none, assumes ---------- *)
From Coq Require Import String.
From Autog Require Facts FactsChecks.
Theorem C11_code_reads_no_identifier : FactsChecks.id_reads_allowed_in "internal/phase2/"%string = true /\ FactsChecks.id_reads_allowed_in "internal/phase1/"%string = true.
Proof. vm_compute. repeat split; reflexivity. Qed.
Print Assumptions C11_code_reads_no_identifier.
