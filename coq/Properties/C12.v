(* C12 — The reported crossing count is the crossing count of the drawing.
   Model: Model/CrossCount.v (the accumulator-tree counter, statement for statement), Model/Phase3.v
   (naive_crossings: the number of pairs of edges between two adjacent layers whose end points are ordered
   oppositely = the crossings of the drawing); proofs: Proofs/CrossCountProofs.v, Positioners.v,
   SinkColoringProofs.v.
   Proved for all inputs: (1) the counter is exact — on every properly layered, ordered state without parallel
   or antiparallel edges the number it reports is the number of crossings of that order; for arbitrary
   multigraphs it is the crossing number of the de-duplicated edge set; (2) every size-aware positioner keeps the
   order: for positions i < j of a band, x_i + w_i + spacing <= x_j, so ordering by x is ordering by position.
   (3) the number sent to the monitor belongs to the order that is finally installed: proved on the functional
   model of the whole heuristic (Model/Wmedian.v, Proofs/WmedianProofs.v); that model is tied to the code by the
   deep correspondence (order, positions and reported number of every traced case, codes 15xx/1500). *)
From Coq Require Import List ZArith QArith.
From Autog Require Import Graph Phase3 Phase4 CrossCount Wmedian CrossCountProofs WmedianProofs Positioners SinkColoringProofs.
Import ListNotations.

(* the accumulator tree counts inversions, for every target sequence within range *)
Theorem C12_accumulator_tree_counts_inversions : forall (q : nat) (ts : list Z),
  (forall t, In t ts -> (0 <= t < Z.of_nat q)%Z) -> cc_count q ts = inversions ts.
Proof. exact cc_count_inversions. Qed.
Print Assumptions C12_accumulator_tree_counts_inversions.

(* radix sort + tree on arbitrary edge pairs: the crossings of the de-duplicated pairs *)
Theorem C12_counter_on_multigraphs : forall m n q pairs,
  pairs_in_range m n pairs -> (n <= q)%nat ->
  cc_count q (radix_targets m n pairs) = naive_crossings (dedup pairs).
Proof. exact cc_radix_crossings. Qed.
Print Assumptions C12_counter_on_multigraphs.

(* the reported number is the crossing number of the order, for graphs without parallel/antiparallel edges *)
Theorem C12_counter_exact : forall g, ordered_proper g -> reported_crossings g = drawing_crossings g.
Proof. exact reported_crossings_exact. Qed.
Print Assumptions C12_counter_exact.

(* [ordered_proper] is decidable by an executable checker, evaluated on observed states by the correspondence *)
Theorem C12_checker_sound : forall g, ordered_proper_b g = true -> ordered_proper g.
Proof. exact ordered_proper_b_sound. Qed.
Print Assumptions C12_checker_sound.

(* the order is carried through positioning: left-to-right by position is left-to-right by x *)
Theorem C12_valign_keeps_order : forall s g l i j a b,
  layers_wf g -> geom_ok s g -> In l (g_L g) -> (i < j)%nat ->
  nth_error (l_nodes l) i = Some a -> nth_error (l_nodes l) j = Some b ->
  (nX (exec_valign s g) a + nW g a + s <= nX (exec_valign s g) b)%Q.
Proof. exact valign_no_overlap_in_layer. Qed.
Print Assumptions C12_valign_keeps_order.

Theorem C12_packright_keeps_order : forall s g l i j a b,
  layers_wf g -> geom_ok s g -> In l (g_L g) -> (i < j)%nat ->
  nth_error (l_nodes l) i = Some a -> nth_error (l_nodes l) j = Some b ->
  (nX (exec_pack_right s g) a + nW g a + s <= nX (exec_pack_right s g) b)%Q.
Proof. exact packright_no_overlap_in_layer. Qed.
Print Assumptions C12_packright_keeps_order.

Theorem C12_sink_coloring_keeps_order : forall s g g' l i j a b,
  exec_sink_coloring s g = Ok g' -> layers_wf g -> sizes_ok s g ->
  In l (g_L g) -> (i < j)%nat ->
  nth_error (l_nodes l) i = Some a -> nth_error (l_nodes l) j = Some b ->
  (nX g' a + nW g a + s <= nX g' b)%Q.
Proof. exact sink_coloring_no_overlap. Qed.
Print Assumptions C12_sink_coloring_keeps_order.

(* the number sent to the monitor is the crossing number of the order that is finally installed: the functional
   model of the whole heuristic (both runs, 24 iterations each, best-so-far bookkeeping) keeps the layers
   permutations of themselves with positions 0..len-1 and returns the count of the installed order *)
Theorem C12_reported_number_belongs_to_installed_order : forall maxiter g g' x,
  layered g -> exec_wmedian maxiter g = Ok (g', x) -> order_contract g g' /\ x = reported_crossings g'.
Proof. exact exec_wmedian_contract. Qed.
Print Assumptions C12_reported_number_belongs_to_installed_order.

(* and for graphs without parallel or antiparallel edges it is the crossing number of the drawing *)
Theorem C12_reported_number_is_the_drawing : forall maxiter g g' x,
  layered g -> simple_edges g -> exec_wmedian maxiter g = Ok (g', x) ->
  ordered_proper g' /\ x = drawing_crossings g'.
Proof. exact exec_wmedian_drawing. Qed.
Print Assumptions C12_reported_number_is_the_drawing.

(* ---------- end to end (Proofs/E2E*.v, Whole*.v, NS*.v, Final.v): no premise besides hypotheses on the input ---------- *)
From Autog Require Import Pipeline E2EBackbone E2EOutput WholeCrossings WholeOverlap WholeLayout Final.


(* [W2_statement o g g' x] (Proofs/WholeCrossings.v): through the whole pipeline of a component — the ordering phase
   reports x = Some cx with cx the counter's value on the order it installs; positions, bands and band orders are
   unchanged by positioning, routing and post-processing; if the input component has no two non-self-loop edges
   joining the same pair of nodes, cx is the number of crossings of the drawing *)
Theorem C12_component_end_to_end : forall o g g' x, component_input g -> options_ok o ->
  layout_component o g = Ok (g', x) -> W2_statement o g g' x.
Proof. exact G6_crossings. Qed.
Print Assumptions C12_component_end_to_end.

(* ---------- all four size-aware positioners ([options_ok'] admits the NetworkSimplex positioner; Proofs/NSPWhole.v) ---------- *)
From Autog Require Import NSPositioner NSPWhole.

Theorem C12_component_end_to_end_all_positioners : forall o g g' x, component_input g -> options_ok' o ->
  layout_component o g = Ok (g', x) -> W2_statement o g g' x.
Proof. exact G6_crossings'. Qed.
Print Assumptions C12_component_end_to_end_all_positioners.

Theorem C12_layout_crossings_all_positioners : forall (A : Type) (eqA : A -> A -> bool), (forall x y, eqA x y = true <-> x = y) ->
  forall o fixed sizes es ids ns oes xs, options_ok' o ->
  Pipeline.layout A eqA o fixed sizes es = Ok (ids, (ns, oes, xs)) ->
  forall g, Populate.populate A eqA es = Ok (ids, g) ->
  Forall2 (fun c v => exists c', layout_component o c = Ok (c', Some v) /\ component_input c /\
                                 W2_statement o c c' (Some v) /\ (0 <= v)%Z)
          (filter big (Populate.components (Populate.apply_sizes A eqA fixed sizes ids g))) xs.
Proof. exact G9_layout_crossings'. Qed.
Print Assumptions C12_layout_crossings_all_positioners.

(* ---------- with autog.OrderingNoop no crossing number is reported at all (Model/PipelineNoop.v) ---------- *)
From Autog Require PipelineNoop NoopPipeline2.
Theorem C12_noop_ordering_reports_nothing : forall (A : Type) (eqA : A -> A -> bool) bk o fixed sizes es ids ns oes xs,
  PipelineNoop.layout_n A eqA bk o fixed sizes es = Ok (ids, (ns, oes, xs)) -> xs = [].
Proof. exact NoopPipeline2.layout_n_reports_no_crossings. Qed.
Print Assumptions C12_noop_ordering_reports_nothing.

(* ---------- regenerated from the source on every run (translator): the ordering phase does not read node identifiers, as its
   model, which contains none, assumes ---------- *)
From Coq Require Import String.
From Autog Require Facts FactsChecks.
Theorem C12_code_reads_no_identifier : FactsChecks.id_reads_allowed_in "internal/phase3/"%string = true.
Proof. vm_compute. reflexivity. Qed.
Print Assumptions C12_code_reads_no_identifier.
