(* C12 — The reported crossing count is the crossing count of the drawing.
   Model: Model/CrossCount.v (the accumulator-tree counter, statement for statement), Model/Phase3.v
   (naive_crossings: the number of pairs of edges between two adjacent layers whose end points are ordered
   oppositely = the crossings of the drawing); proofs: Proofs/CrossCountProofs.v, Positioners.v,
   SinkColoringProofs.v.
   Proved for all inputs: (1) the counter is exact — on every properly layered, ordered state without parallel
   or antiparallel edges the number it reports is the number of crossings of that order; for arbitrary
   multigraphs it is the crossing number of the de-duplicated edge set; (2) every size-aware positioner keeps the
   order: for positions i < j of a band, x_i + w_i + spacing <= x_j, so ordering by x is ordering by position.
   C12_partial: that the number sent to the monitor was computed on the order that is finally installed
   (WMedian's best-so-far bookkeeping over its 2 x 24 iterations) is NOT proved: the heuristic is not modelled.
   It is checked per instance: the model's counter evaluated on the observed final order must equal every value
   the monitor received (code 1300 of the correspondence), on every traced case. *)
From Coq Require Import List ZArith QArith.
From Autog Require Import Graph Phase3 Phase4 CrossCount CrossCountProofs Positioners SinkColoringProofs.
Import ListNotations.

(* the accumulator tree counts inversions, for every target sequence within range *)
Theorem C12_accumulator_tree_counts_inversions : forall (q : nat) (ts : list Z),
  (forall t, In t ts -> (0 <= t < Z.of_nat q)%Z) -> cc_count q ts = inversions ts.
Proof. exact cc_count_inversions. Qed.
Print Assumptions C12_accumulator_tree_counts_inversions.

(* radix sort + tree on arbitrary edge pairs: the crossings of the de-duplicated pairs *)
Theorem C12_counter_on_multigraphs : forall m n q pairs,
  pairs_in_range m n pairs -> (n <= q)%nat ->
  cc_count q (radix_targets m n pairs) = naive_crossings (dedup pairs).
Proof. exact cc_radix_crossings. Qed.
Print Assumptions C12_counter_on_multigraphs.

(* the reported number is the crossing number of the order, for graphs without parallel/antiparallel edges *)
Theorem C12_counter_exact : forall g, ordered_proper g -> reported_crossings g = drawing_crossings g.
Proof. exact reported_crossings_exact. Qed.
Print Assumptions C12_counter_exact.

(* [ordered_proper] is decidable by an executable checker, evaluated on observed states by the correspondence *)
Theorem C12_checker_sound : forall g, ordered_proper_b g = true -> ordered_proper g.
Proof. exact ordered_proper_b_sound. Qed.
Print Assumptions C12_checker_sound.

(* the order is carried through positioning: left-to-right by position is left-to-right by x *)
Theorem C12_valign_keeps_order : forall s g l i j a b,
  layers_wf g -> geom_ok s g -> In l (g_L g) -> (i < j)%nat ->
  nth_error (l_nodes l) i = Some a -> nth_error (l_nodes l) j = Some b ->
  (nX (exec_valign s g) a + nW g a + s <= nX (exec_valign s g) b)%Q.
Proof. exact valign_no_overlap_in_layer. Qed.
Print Assumptions C12_valign_keeps_order.

Theorem C12_packright_keeps_order : forall s g l i j a b,
  layers_wf g -> geom_ok s g -> In l (g_L g) -> (i < j)%nat ->
  nth_error (l_nodes l) i = Some a -> nth_error (l_nodes l) j = Some b ->
  (nX (exec_pack_right s g) a + nW g a + s <= nX (exec_pack_right s g) b)%Q.
Proof. exact packright_no_overlap_in_layer. Qed.
Print Assumptions C12_packright_keeps_order.

Theorem C12_sink_coloring_keeps_order : forall s g g' l i j a b,
  exec_sink_coloring s g = Ok g' -> layers_wf g -> sizes_ok s g ->
  In l (g_L g) -> (i < j)%nat ->
  nth_error (l_nodes l) i = Some a -> nth_error (l_nodes l) j = Some b ->
  (nX g' a + nW g a + s <= nX g' b)%Q.
Proof. exact sink_coloring_no_overlap. Qed.
Print Assumptions C12_sink_coloring_keeps_order.
