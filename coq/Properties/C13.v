(* C13 — Rooted trees are drawn without edge crossings.
   Model: Model/Wmedian.v (the ordering heuristic, functional model), Model/CrossCount.v; proofs:
   Proofs/CrossCountProofs.v (and Proofs/WmedianProofs.v, Proofs/TreeProofs.v when present).
   Proved for all inputs: the ordering phase draws every rooted tree whose edges span one layer without crossings
   (C13_out_trees_have_no_crossings, C13_in_trees_have_no_crossings: planarity of the DFS initial order, the
   zero-crossing shortcut, the tie rule between the two runs), the counter is exact, the positioners keep the
   order (C12). And end to end (Proofs/TreeEndToEnd.v): on a tree-shaped component network simplex makes every edge
   span exactly one layer — a spanning tree of tight edges in a graph with |E| + 1 = |N| is the whole graph —
   whatever the iteration budget and the balancing; so for every rooted out-tree or in-tree, every cycle breaker,
   network-simplex layering, every modelled positioner and router, and every order of the edge list, the ordering
   phase reports 0 and the FINAL drawing has 0 crossings (C13_out_tree_end_to_end, C13_in_tree_end_to_end).
   Longest-path layering can stretch tree edges over several layers; the theorems are stated for the default
   network-simplex layering, as the property's mechanism describes. *)
From Coq Require Import List ZArith.
From Autog Require Import Graph Phase3 CrossCount Wmedian CrossCountProofs WmedianProofs TreeProofs.
Import ListNotations.

Theorem C13_reported_zero_means_no_crossings_partial : forall g,
  ordered_proper g -> reported_crossings g = 0%Z -> drawing_crossings g = 0%Z.
Proof. intros g H R. rewrite <- (reported_crossings_exact H). exact R. Qed.
Print Assumptions C13_reported_zero_means_no_crossings_partial.

Theorem C13_counter_exact : forall g, ordered_proper g -> reported_crossings g = drawing_crossings g.
Proof. exact reported_crossings_exact. Qed.
Print Assumptions C13_counter_exact.

(* the ordering phase on a rooted tree whose edges all span exactly one layer (root in the first layer for
   out-trees, in the last for in-trees — what an optimal layering produces; checked per instance, see above):
   the DFS initial order is planar, the run returns it at once, and the phase reports and installs an order
   with no crossing — whatever the order of the edge list, of the adjacency lists and of the node list *)
Theorem C13_out_trees_have_no_crossings : forall maxiter g root g' x,
  layered g -> rooted_out_tree g root -> exec_wmedian maxiter g = Ok (g', x) -> x = 0%Z /\ drawing_crossings g' = 0%Z.
Proof. exact rooted_out_tree_no_crossings. Qed.
Print Assumptions C13_out_trees_have_no_crossings.

Theorem C13_in_trees_have_no_crossings : forall maxiter g root g' x,
  layered g -> rooted_in_tree g root -> exec_wmedian maxiter g = Ok (g', x) -> x = 0%Z /\ drawing_crossings g' = 0%Z.
Proof. exact rooted_in_tree_no_crossings. Qed.
Print Assumptions C13_in_trees_have_no_crossings.

From Autog Require Import Pipeline E2EBackbone TreeEndToEnd.

(* [component_input g]: what the front end hands to the pipeline (connected component, >= 2 nodes);
   [out_tree_input g root]: root is a node, the non-self-loop edges admit a topological ranking, every node but the
   root is entered by exactly one of them and the root by none — all edges point away from the root *)
Theorem C13_out_tree_end_to_end : forall o g g' x root,
  component_input g -> options_ok o -> o_p2 o = Phase2.NetworkSimplex -> out_tree_input g root ->
  layout_component o g = Ok (g', x) -> x = Some 0%Z /\ drawing_crossings g' = 0%Z.
Proof.
  intros o g g' x root CI OK NS T H.
  destruct (out_tree_no_crossings_end_to_end o g g' x root CI OK NS T H) as (A & B & _). split; assumption.
Qed.
Print Assumptions C13_out_tree_end_to_end.

Theorem C13_in_tree_end_to_end : forall o g g' x root,
  component_input g -> options_ok o -> o_p2 o = Phase2.NetworkSimplex -> in_tree_input g root ->
  layout_component o g = Ok (g', x) -> x = Some 0%Z /\ drawing_crossings g' = 0%Z.
Proof.
  intros o g g' x root CI OK NS T H.
  destruct (in_tree_no_crossings_end_to_end o g g' x root CI OK NS T H) as (A & B & _). split; assumption.
Qed.
Print Assumptions C13_in_tree_end_to_end.

(* ---------- all four size-aware positioners (Proofs/NSPWhole2.v) ---------- *)
From Autog Require Import NSPositioner NSPWhole2.

Theorem C13_out_tree_end_to_end_all_positioners : forall o g g' x root,
  component_input g -> options_ok' o -> o_p2 o = Phase2.NetworkSimplex -> out_tree_input g root ->
  layout_component o g = Ok (g', x) -> x = Some 0%Z /\ drawing_crossings g' = 0%Z.
Proof. exact C13_out_tree_end_to_end'. Qed.
Print Assumptions C13_out_tree_end_to_end_all_positioners.

Theorem C13_in_tree_end_to_end_all_positioners : forall o g g' x root,
  component_input g -> options_ok' o -> o_p2 o = Phase2.NetworkSimplex -> in_tree_input g root ->
  layout_component o g = Ok (g', x) -> x = Some 0%Z /\ drawing_crossings g' = 0%Z.
Proof. exact C13_in_tree_end_to_end'. Qed.
Print Assumptions C13_in_tree_end_to_end_all_positioners.

(* ---------- regenerated from the source on every run (translator): layering and ordering does not read node identifiers, as its
   model, which contains none, assumes ---------- *)
From Coq Require Import String.
From Autog Require Facts FactsChecks.
Theorem C13_code_reads_no_identifier : FactsChecks.id_reads_allowed_in "internal/phase3/"%string = true /\ FactsChecks.id_reads_allowed_in "internal/phase2/"%string = true.
Proof. vm_compute. repeat split; reflexivity. Qed.
Print Assumptions C13_code_reads_no_identifier.
