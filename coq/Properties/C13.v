(* C13 — Rooted trees are drawn without edge crossings.
   Model: Model/Wmedian.v (the ordering heuristic, functional model), Model/CrossCount.v; proofs:
   Proofs/CrossCountProofs.v (and Proofs/WmedianProofs.v, Proofs/TreeProofs.v when present).
   C13_partial. Proved for all inputs: the cross counter is exact on graphs without parallel edges (a tree has
   none), so the number the ordering phase reports IS the number of crossings of the order it leaves behind, and
   the positioners keep that order (C12). What is decided per instance rather than proved here: that for a
   rooted tree the reported number is 0 — the functional model of the heuristic is evaluated in the kernel on
   every traced tree, must reproduce the implementation's order and crossing number exactly (codes 15xx, 1500,
   1604), and the direct oracle counts the crossings of the drawing. *)
From Coq Require Import List ZArith.
From Autog Require Import Graph Phase3 CrossCount CrossCountProofs.
Import ListNotations.

Theorem C13_reported_zero_means_no_crossings_partial : forall g,
  ordered_proper g -> reported_crossings g = 0%Z -> drawing_crossings g = 0%Z.
Proof. intros g H R. rewrite <- (reported_crossings_exact H). exact R. Qed.
Print Assumptions C13_reported_zero_means_no_crossings_partial.

Theorem C13_counter_exact : forall g, ordered_proper g -> reported_crossings g = drawing_crossings g.
Proof. exact reported_crossings_exact. Qed.
Print Assumptions C13_counter_exact.
