(* C13 — Rooted trees are drawn without edge crossings.
   Model: Model/Wmedian.v (the ordering heuristic, functional model), Model/CrossCount.v; proofs:
   Proofs/CrossCountProofs.v (and Proofs/WmedianProofs.v, Proofs/TreeProofs.v when present).
   Proved for all inputs: the ordering phase draws every rooted tree whose edges span one layer without crossings
   (C13_out_trees_have_no_crossings, C13_in_trees_have_no_crossings: planarity of the DFS initial order, the
   zero-crossing shortcut, the tie rule between the two runs), the counter is exact, the positioners keep the
   order (C12). C13_partial: that network-simplex layering makes every edge of a tree span exactly one layer
   (optimality of the layering on trees) is not proved here; it is decided per instance by the deep
   correspondence and the certificate check of C10, and searched by the direct oracle. *)
From Coq Require Import List ZArith.
From Autog Require Import Graph Phase3 CrossCount Wmedian CrossCountProofs WmedianProofs TreeProofs.
Import ListNotations.

Theorem C13_reported_zero_means_no_crossings_partial : forall g,
  ordered_proper g -> reported_crossings g = 0%Z -> drawing_crossings g = 0%Z.
Proof. intros g H R. rewrite <- (reported_crossings_exact H). exact R. Qed.
Print Assumptions C13_reported_zero_means_no_crossings_partial.

Theorem C13_counter_exact : forall g, ordered_proper g -> reported_crossings g = drawing_crossings g.
Proof. exact reported_crossings_exact. Qed.
Print Assumptions C13_counter_exact.

(* the ordering phase on a rooted tree whose edges all span exactly one layer (root in the first layer for
   out-trees, in the last for in-trees — what an optimal layering produces; checked per instance, see above):
   the DFS initial order is planar, the run returns it at once, and the phase reports and installs an order
   with no crossing — whatever the order of the edge list, of the adjacency lists and of the node list *)
Theorem C13_out_trees_have_no_crossings : forall maxiter g root g' x,
  layered g -> rooted_out_tree g root -> exec_wmedian maxiter g = Ok (g', x) -> x = 0%Z /\ drawing_crossings g' = 0%Z.
Proof. exact rooted_out_tree_no_crossings. Qed.
Print Assumptions C13_out_trees_have_no_crossings.

Theorem C13_in_trees_have_no_crossings : forall maxiter g root g' x,
  layered g -> rooted_in_tree g root -> exec_wmedian maxiter g = Ok (g', x) -> x = 0%Z /\ drawing_crossings g' = 0%Z.
Proof. exact rooted_in_tree_no_crossings. Qed.
Print Assumptions C13_in_trees_have_no_crossings.
