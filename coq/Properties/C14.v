(* C14 — Depth-first cycle breaking reverses an irredundant edge set; an acyclic input is not touched.
   Model: Model/Phase1.v; proofs: Proofs/CB*.v, Proofs/CycleBreaking.v.
   g is a connected component as phase 1 receives it: [consistent] (adjacency lists agree with the edges), without
   self-loops (removed by the preprocessor). [ranked g] = g has a topological ranking = g is acyclic.
   The first sentence is proved for the whole phase (pre-pass + depth-first pass, C14_depth_first_minimal): an edge
   ends up flagged iff exactly one of the two passes reversed it; for an edge of the depth-first pass the DFS tree
   path closes the cycle; for an edge reversed by the pre-pass only, its antiparallel twin does (the depth-first
   pass treats parallel edges alike). *)
From Coq Require Import List ZArith.
From Autog Require Import Graph Phase1 CycleBreaking CBMinimal.
Import ListNotations.

(* first sentence of the property, in full, for the whole of phase 1: un-reversing any single edge that is drawn
   reversed (flagged in the result) re-creates a directed cycle among the edges as drawn *)
Theorem C14_depth_first_minimal : forall g g',
  consistent g -> no_self_loops g -> all_unflagged g -> phase1 DepthFirst g = Ok g' ->
  forall e, In e (g_E g') -> e_rev (gedge g' e) = true -> ~ ranked (reverse_edge g' e).
Proof. exact phase1_dfs_minimal. Qed.
Print Assumptions C14_depth_first_minimal.

(* and no non-empty set of flagged edges can be un-reversed without re-creating a cycle *)
Theorem C14_depth_first_minimal_subsets : forall g g',
  consistent g -> no_self_loops g -> all_unflagged g -> phase1 DepthFirst g = Ok g' ->
  forall S, NoDup S -> S <> [] -> (forall e, In e S -> In e (g_E g') /\ e_rev (gedge g' e) = true) ->
  ~ ranked (fold_left reverse_edge S g').
Proof. exact phase1_dfs_minimal_subset. Qed.
Print Assumptions C14_depth_first_minimal_subsets.

(* second sentence of the property, in full: with either breaker an acyclic input has no reversed edge *)
Theorem C14_acyclic_input_is_untouched : forall alg g,
  consistent g -> no_self_loops g -> ranked g -> phase1 alg g = Ok g.
Proof. exact acyclic_input_untouched. Qed.
Print Assumptions C14_acyclic_input_is_untouched.

(* un-reversing any single edge e that the depth-first pass reversed closes a directed cycle: there is a path of
   edges the pass did NOT reverse from e's head back to its tail *)
Theorem C14_unreversing_one_edge_recreates_a_cycle : forall g rv,
  consistent g -> no_self_loops g -> depth_first_rev g = Ok rv ->
  forall e, In e rv ->
    let g' := fold_left reverse_edge rv g in
    let g'' := reverse_edge g' e in
    exec_depth_first g = Ok g' /\
    In e (g_E g'') /\
    e_from (gedge g'' e) = e_from (gedge g e) /\ e_to (gedge g'' e) = e_to (gedge g e) /\
    gpath g'' (fun t => ~ In t rv) (e_to (gedge g'' e)) (e_from (gedge g'' e)).
Proof. exact depth_first_minimal. Qed.
Print Assumptions C14_unreversing_one_edge_recreates_a_cycle.

(* stronger: no proper subset of the reversed set breaks all cycles — the reversed set is a minimal feedback
   arc set of the graph the pass receives *)
Theorem C14_reversed_set_is_minimal_partial : forall g rv rv',
  consistent g -> no_self_loops g -> depth_first_rev g = Ok rv ->
  NoDup rv' -> incl rv' rv -> (exists e, In e rv /\ ~ In e rv') ->
  ~ ranked (fold_left reverse_edge rv' g).
Proof. exact depth_first_feedback_minimal. Qed.
Print Assumptions C14_reversed_set_is_minimal_partial.

(* and the pass does break all cycles *)
Theorem C14_depth_first_result_is_acyclic : forall g g',
  exec_depth_first g = Ok g' -> consistent g -> no_self_loops g ->
  consistent g' /\ no_self_loops g' /\ g_N g' = g_N g /\ g_E g' = g_E g /\ ranked g'.
Proof. exact exec_depth_first_ranked. Qed.
Print Assumptions C14_depth_first_result_is_acyclic.

(* hasCycles decides acyclicity exactly, so the early return of phase 1 fires exactly on acyclic inputs *)
Theorem C14_has_cycles_exact : forall g,
  consistent g -> no_self_loops g -> (has_cycles g = Ok false <-> ranked g).
Proof. exact has_cycles_iff_ranked. Qed.
Print Assumptions C14_has_cycles_exact.

(* the hypotheses are satisfiable: Proofs/CBExamples.v, ex_cyc_consistent, ex_cyc_no_self_loops, ex_dag_consistent,
   ex_dag_ranked (graphs built with the model's own populate) *)

(* ---------- regenerated from the source on every run (translator): cycle breaking does not read node identifiers, as its
   model, which contains none, assumes ---------- *)
From Coq Require Import String.
From Autog Require Facts FactsChecks.
Theorem C14_code_reads_no_identifier : FactsChecks.id_reads_allowed_in "internal/phase1/"%string = true.
Proof. vm_compute. reflexivity. Qed.
Print Assumptions C14_code_reads_no_identifier.
