(* C15 — Concurrent Layout calls do not interfere (no monitor supplied).
   The translator lists, from the source as it is now, every package-level variable of the module and every
   access to it. The obligations below say: the only package-level state is the option templates (read-only) and
   the monitor's three variables, whose every write sits under `monitor != nil` / `m != nil`; there are no
   goroutines inside the library; clocks and random generators are created per call. The theorem says that ANY
   sequence of calls into the monitor package that never passes a monitor — which covers every interleaving of
   the calls made by any number of concurrent Layout invocations — writes nothing: the shared state is never
   written, so there is no data race on it, and each invocation computes on its own heap objects only and
   returns what it returns alone. Everything else a call touches hangs off the per-call DGraph.
   Trusted: the Go memory model (a race needs a write); that all other state is reachable only from per-call
   allocations (the translator shows there is no other package-level variable); independent sources. *)
From Coq Require Import String List Bool.
From Autog Require Import Facts Monitor MonitorProofs FactsChecks.
Import ListNotations.

Theorem C15_shared_state_is_known : globals_known = true.
Proof. vm_compute; reflexivity. Qed.
Print Assumptions C15_shared_state_is_known.

(* the option templates are copied by value per call; they hold no slice, map, pointer, function or interface
   value other than nil, so the copy shares nothing with other calls *)
Theorem C15_templates_share_nothing : templates_hold_no_references = true.
Proof. vm_compute; reflexivity. Qed.
Print Assumptions C15_templates_share_nothing.

Theorem C15_every_write_needs_a_monitor : writes_guarded = true /\ monitor_state_private = true.
Proof. split; vm_compute; reflexivity. Qed.
Print Assumptions C15_every_write_needs_a_monitor.

Theorem C15_no_goroutines_clocks_per_call : no_concurrency_constructs = true /\ time_rand_only_in_greedy = true.
Proof. split; vm_compute; reflexivity. Qed.
Print Assumptions C15_no_goroutines_clocks_per_call.

Theorem C15_monitor_source_is_the_modelled_table : monitor_funcs = expected_funcs.
Proof. reflexivity. Qed.
Print Assumptions C15_monitor_source_is_the_modelled_table.

(* every interleaving: zero writes, zero deliveries, state untouched *)
Theorem C15_no_monitor_no_write : forall cs p a,
  Forall no_monitor cs -> run T cs (mkM None p a) = (mkM None p a, [], 0).
Proof. exact no_monitor_no_effect. Qed.
Print Assumptions C15_no_monitor_no_write.

(* non-vacuity: two interleaved calls without monitor *)
Example C15_interleaving_example :
  run T [mkCall "Set" None 0 0; mkCall "Set" None 0 0; mkCall "PrefixFor" None 1 1; mkCall "Log" None 0 0;
         mkCall "Reset" None 0 0; mkCall "PrefixFor" None 2 1; mkCall "Reset" None 0 0] m_init = (m_init, [], 0).
Proof. reflexivity. Qed.
