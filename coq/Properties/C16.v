(* C16 — VAlign centres and PackRight right-aligns every band with exact spacing.
   Model: Model/Phase4.v (exec_valign, exec_pack_right); proofs: Proofs/Positioners.v.
   [layers_wf g]: every node index of a layer is in range and no node occurs twice in the layers (each node sits
   in exactly one layer, once). [geom_ok s g]: spacing and widths are non-negative, there is at least one layer
   and no layer is empty (true of a layered component: breakLongEdges never leaves a layer empty, and bands of
   the layering are contiguous). The statements are about the state after phase 4; the output adds the same
   component shift (0 for a single component) to every x. Helper nodes of long edges are ordinary members of
   their layer here. *)
From Autog Require Import Graph Phase4 Positioners.
Local Open Scope Q_scope.

(* consecutive nodes of a band are exactly NodeSpacing apart, with both positioners ... *)
Theorem C16_valign_exact_spacing : forall s g l i a b,
  layers_wf g -> In l (g_L g) -> nth_error (l_nodes l) i = Some a -> nth_error (l_nodes l) (S i) = Some b ->
  nX (exec_valign s g) b == nX (exec_valign s g) a + nW g a + s.
Proof. exact valign_consecutive. Qed.
Print Assumptions C16_valign_exact_spacing.

Theorem C16_packright_exact_spacing : forall s g l i a b,
  layers_wf g -> In l (g_L g) -> nth_error (l_nodes l) i = Some a -> nth_error (l_nodes l) (S i) = Some b ->
  nX (exec_pack_right s g) b == nX (exec_pack_right s g) a + nW g a + s.
Proof. exact packright_consecutive. Qed.
Print Assumptions C16_packright_exact_spacing.

(* ... so the extent of a band, from the left edge of its first node to the right edge of its last, is the sum
   of its node widths plus NodeSpacing between consecutive nodes *)
Theorem C16_valign_extent : forall s g l a rest b,
  layers_wf g -> In l (g_L g) -> l_nodes l = a :: rest -> last_opt (l_nodes l) = Some b ->
  nX (exec_valign s g) b + nW g b - nX (exec_valign s g) a == layer_width g s (l_nodes l) 0.
Proof. exact valign_extent. Qed.
Print Assumptions C16_valign_extent.

Theorem C16_extent_is_widths_plus_spacing : forall g s ns, ns <> [] ->
  layer_width g s ns 0 == sumW g ns + (inject_Z (Z.of_nat (length ns)) - 1) * s.
Proof. exact layer_width_sum. Qed.
Print Assumptions C16_extent_is_widths_plus_spacing.

(* VAlign: the horizontal midpoints of all bands coincide (at M/2, M the widest band) *)
Theorem C16_valign_midpoints_coincide : forall s g l a rest,
  layers_wf g -> In l (g_L g) -> l_nodes l = a :: rest ->
  nX (exec_valign s g) a + layer_width g s (l_nodes l) 0 / 2 == valign_M s g / 2.
Proof. exact valign_centered. Qed.
Print Assumptions C16_valign_midpoints_coincide.

(* PackRight: the right ends of all bands coincide *)
Theorem C16_packright_right_ends_coincide : forall s g, layers_wf g ->
  exists R, forall l b, In l (g_L g) -> last_opt (l_nodes l) = Some b ->
    nX (exec_pack_right s g) b + nW g b + s == R.
Proof. exact packright_right_aligned. Qed.
Print Assumptions C16_packright_right_ends_coincide.

(* the leftmost node overall is at x = 0 *)
Theorem C16_valign_leftmost_at_zero : forall s g, layers_wf g -> geom_ok s g ->
  (forall n, in_layers g n -> 0 <= nX (exec_valign s g) n) /\
  (exists n, in_layers g n /\ nX (exec_valign s g) n == 0).
Proof. exact valign_leftmost_zero. Qed.
Print Assumptions C16_valign_leftmost_at_zero.

Theorem C16_packright_leftmost_at_zero : forall s g, layers_wf g -> geom_ok s g ->
  (forall n, in_layers g n -> 0 <= nX (exec_pack_right s g) n) /\
  (exists n, in_layers g n /\ nX (exec_pack_right s g) n == 0).
Proof. exact packright_leftmost_zero. Qed.
Print Assumptions C16_packright_leftmost_at_zero.

(* the hypotheses are satisfiable: Positioners.ex_layers_wf, ex_geom_ok (3 nodes, 2 layers) *)
Example C16_hypotheses_satisfiable : layers_wf ex_g /\ geom_ok 5 ex_g.
Proof. split; [exact ex_layers_wf | exact ex_geom_ok]. Qed.

(* ---------- the WHOLE Layout (Proofs/C16Whole.v, C16Noop.v): for a connected input with helper nodes visible, the output node list is
   one record per node of the final state g' (helper nodes of long edges included, which phase 5 and post-processing keep in the bands
   with the x and width phase 4 gave them), and the bands of g' satisfy the contract: each node in exactly one band, no band empty,
   consecutive members exactly NodeSpacing apart, extent = widths + gaps, VAlign: common midpoint, PackRight: common right end; with
   NodeSpacing >= 0 and widths >= 0 the leftmost node is at x = 0. Any cycle breaker, layerer and router; both orderings. ---------- *)
From Coq Require Import List.
From Autog Require Import Populate Layout Pipeline PipelineNoop E2EBridge E2EBackbone C16Whole C16Noop.
Import ListNotations.
Local Open Scope Q_scope.

Theorem C16_component_end_to_end : forall o g g' x,
  component_input g -> aligned_p4 o -> modelled_p5 (o_p5 o) -> layout_component o g = Ok (g', x) ->
  C16_contract o g' /\ (widths_nonneg g -> 0 <= o_node_spacing o -> C16_leftmost g').
Proof. exact C16w_component. Qed.
Print Assumptions C16_component_end_to_end.

Theorem C16_layout_output : forall (A : Type) (eqA : A -> A -> bool), (forall x y, eqA x y = true <-> x = y) ->
  forall o fixed sizes es ids ns oes xs,
    aligned_p4 o -> modelled_p5 (o_p5 o) -> o_virtual o = true ->
    layout A eqA o fixed sizes es = Ok (ids, (ns, oes, xs)) ->
    forall g c, populate A eqA es = Ok (ids, g) ->
      components (apply_sizes A eqA fixed sizes ids g) = [c] -> (2 <= length (g_N c))%nat ->
      exists g' x,
        layout_component o c = Ok (g', x) /\ C16_contract o g' /\ C16_output o g' ns /\
        (0 <= o_node_spacing o -> widths_cfg_nonneg A eqA fixed sizes ids -> C16_leftmost g' /\ C16_output_leftmost ns).
Proof. exact C16w_layout_output. Qed.
Print Assumptions C16_layout_output.

Theorem C16_layout_output_noop_ordering : forall (A : Type) (eqA : A -> A -> bool), (forall x y, eqA x y = true <-> x = y) ->
  forall bk o fixed sizes es ids ns oes xs,
    aligned_p4 o -> modelled_p5 (o_p5 o) -> o_virtual o = true ->
    layout_n A eqA bk o fixed sizes es = Ok (ids, (ns, oes, xs)) ->
    forall g c, populate A eqA es = Ok (ids, g) ->
      components (apply_sizes A eqA fixed sizes ids g) = [c] -> (2 <= length (g_N c))%nat ->
      exists g',
        layout_component_n bk o c = Ok (g', None) /\ ns = map (out_node g') (g_N g') /\
        C16_contract o g' /\ C16_output o g' ns /\
        (0 <= o_node_spacing o -> widths_cfg_nonneg A eqA fixed sizes ids -> C16_leftmost g' /\ C16_output_leftmost ns).
Proof. exact C16n_layout_output. Qed.
Print Assumptions C16_layout_output_noop_ordering.

(* with totality, so that the statement is about a run that exists (p2_ready: nothing for LongestPath; connected and within the pivot
   budget for NetworkSimplex) *)
Theorem C16_component_returns_and_satisfies_the_contract : forall o g,
  component_input g -> aligned_p4 o -> modelled_p5 (o_p5 o) -> TotalPipeline.p2_ready o g ->
  exists g' x, layout_component o g = Ok (g', x) /\ C16_contract o g' /\
  (widths_nonneg g -> 0 <= o_node_spacing o -> C16_leftmost g').
Proof. exact C16w_component_total. Qed.
Print Assumptions C16_component_returns_and_satisfies_the_contract.

(* ---------- regenerated from the source on every run (translator): the positioning phase does not read node identifiers, as its
   model, which contains none, assumes ---------- *)
From Coq Require Import String.
From Autog Require Facts FactsChecks.
Theorem C16_code_reads_no_identifier : FactsChecks.id_reads_allowed_in "internal/phase4/"%string = true.
Proof. vm_compute. reflexivity. Qed.
Print Assumptions C16_code_reads_no_identifier.
