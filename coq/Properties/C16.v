(* C16 — VAlign centres and PackRight right-aligns every band with exact spacing.
   Model: Model/Phase4.v (exec_valign, exec_pack_right); proofs: Proofs/Positioners.v.
   [layers_wf g]: every node index of a layer is in range and no node occurs twice in the layers (each node sits
   in exactly one layer, once). [geom_ok s g]: spacing and widths are non-negative, there is at least one layer
   and no layer is empty (true of a layered component: breakLongEdges never leaves a layer empty, and bands of
   the layering are contiguous). The statements are about the state after phase 4; the output adds the same
   component shift (0 for a single component) to every x. Helper nodes of long edges are ordinary members of
   their layer here. *)
From Autog Require Import Graph Phase4 Positioners.
Local Open Scope Q_scope.

(* consecutive nodes of a band are exactly NodeSpacing apart, with both positioners ... *)
Theorem C16_valign_exact_spacing : forall s g l i a b,
  layers_wf g -> In l (g_L g) -> nth_error (l_nodes l) i = Some a -> nth_error (l_nodes l) (S i) = Some b ->
  nX (exec_valign s g) b == nX (exec_valign s g) a + nW g a + s.
Proof. exact valign_consecutive. Qed.
Print Assumptions C16_valign_exact_spacing.

Theorem C16_packright_exact_spacing : forall s g l i a b,
  layers_wf g -> In l (g_L g) -> nth_error (l_nodes l) i = Some a -> nth_error (l_nodes l) (S i) = Some b ->
  nX (exec_pack_right s g) b == nX (exec_pack_right s g) a + nW g a + s.
Proof. exact packright_consecutive. Qed.
Print Assumptions C16_packright_exact_spacing.

(* ... so the extent of a band, from the left edge of its first node to the right edge of its last, is the sum
   of its node widths plus NodeSpacing between consecutive nodes *)
Theorem C16_valign_extent : forall s g l a rest b,
  layers_wf g -> In l (g_L g) -> l_nodes l = a :: rest -> last_opt (l_nodes l) = Some b ->
  nX (exec_valign s g) b + nW g b - nX (exec_valign s g) a == layer_width g s (l_nodes l) 0.
Proof. exact valign_extent. Qed.
Print Assumptions C16_valign_extent.

Theorem C16_extent_is_widths_plus_spacing : forall g s ns, ns <> [] ->
  layer_width g s ns 0 == sumW g ns + (inject_Z (Z.of_nat (length ns)) - 1) * s.
Proof. exact layer_width_sum. Qed.
Print Assumptions C16_extent_is_widths_plus_spacing.

(* VAlign: the horizontal midpoints of all bands coincide (at M/2, M the widest band) *)
Theorem C16_valign_midpoints_coincide : forall s g l a rest,
  layers_wf g -> In l (g_L g) -> l_nodes l = a :: rest ->
  nX (exec_valign s g) a + layer_width g s (l_nodes l) 0 / 2 == valign_M s g / 2.
Proof. exact valign_centered. Qed.
Print Assumptions C16_valign_midpoints_coincide.

(* PackRight: the right ends of all bands coincide *)
Theorem C16_packright_right_ends_coincide : forall s g, layers_wf g ->
  exists R, forall l b, In l (g_L g) -> last_opt (l_nodes l) = Some b ->
    nX (exec_pack_right s g) b + nW g b + s == R.
Proof. exact packright_right_aligned. Qed.
Print Assumptions C16_packright_right_ends_coincide.

(* the leftmost node overall is at x = 0 *)
Theorem C16_valign_leftmost_at_zero : forall s g, layers_wf g -> geom_ok s g ->
  (forall n, in_layers g n -> 0 <= nX (exec_valign s g) n) /\
  (exists n, in_layers g n /\ nX (exec_valign s g) n == 0).
Proof. exact valign_leftmost_zero. Qed.
Print Assumptions C16_valign_leftmost_at_zero.

Theorem C16_packright_leftmost_at_zero : forall s g, layers_wf g -> geom_ok s g ->
  (forall n, in_layers g n -> 0 <= nX (exec_pack_right s g) n) /\
  (exists n, in_layers g n /\ nX (exec_pack_right s g) n == 0).
Proof. exact packright_leftmost_zero. Qed.
Print Assumptions C16_packright_leftmost_at_zero.

(* the hypotheses are satisfiable: Positioners.ex_layers_wf, ex_geom_ok (3 nodes, 2 layers) *)
Example C16_hypotheses_satisfiable : layers_wf ex_g /\ geom_ok 5 ex_g.
Proof. split; [exact ex_layers_wf | exact ex_geom_ok]. Qed.

(* ---------- regenerated from the source on every run (translator): the positioning phase does not read node identifiers, as its
   model, which contains none, assumes ---------- *)
From Coq Require Import String.
From Autog Require Facts FactsChecks.
Theorem C16_code_reads_no_identifier : FactsChecks.id_reads_allowed_in "internal/phase4/"%string = true.
Proof. vm_compute. reflexivity. Qed.
Print Assumptions C16_code_reads_no_identifier.
