(* C17 — Layout is unit-independent (scale equivariance).
   Model: Model/Phase4.v, Model/Phase5.v; proofs: Proofs/Scale.v.
   [scale_graph c g] multiplies every size and coordinate of g by c; [graph_equiv] is equality on all discrete
   fields and Qeq on every rational one; [res_equiv] relates two results that are both Ok with equivalent graphs
   or both the same error. Proved for EVERY positive rational factor c (the property asks for powers of two, for
   which float64 arithmetic is exact, so the rational model speaks for the code there): phases 1-3 never read
   sizes (their model has no access to them: they only see n_in/n_out/n_layer/n_pos), and for phase 4 with VAlign,
   PackRight, SinkColoring and phase 5 with Straight, Polyline, Orthogonal routing, running on the scaled input
   gives the scaled output.
   Brandes-Koepf (Model/BK.v, the functional model of execBrandesKoepf validated by the step correspondence):
   the discrete steps (markConflicts, verticalAlign) read no rational and are equal on both inputs; every
   rational step computes related values and every comparison has the same outcome because both sides scale by
   c > 0 (Proofs/BKProofs.v, C17_brandes_koepf). Polyline and
   Orthogonal routes of FLAT edges use absolute constants (20, 10, 5) and are excluded by hypothesis
   [routes_not_flat]; flat edges do not occur in a proper layering. *)
From Coq Require Import List QArith.
From Autog Require Import Graph Phase4 Phase5 BK Scale BKProofs.
Import ListNotations.
Local Open Scope Q_scope.

Theorem C17_positioning : forall c alg p g, 0 < c -> alg <> NsPositioner ->
  res_equiv (phase4 alg (scale_p4 c p) (scale_graph c g)) (map_res (scale_graph c) (phase4 alg p g)).
Proof. exact phase4_scale. Qed.
Print Assumptions C17_positioning.

Theorem C17_routing : forall c alg ls g, 0 < c -> (needs_no_flat alg = true -> routes_not_flat g) ->
  res_equiv (phase5 alg (c * ls) (scale_graph c g)) (map_res (scale_graph c) (phase5 alg ls g)).
Proof. exact phase5_scale. Qed.
Print Assumptions C17_routing.

(* positioning followed by routing *)
Theorem C17_positioning_then_routing : forall c a4 a5 p g, 0 < c -> a4 <> NsPositioner ->
  (forall g1, phase4 a4 p g = Ok g1 -> needs_no_flat a5 = true -> routes_not_flat g1) ->
  res_equiv (do g1 <- phase4 a4 (scale_p4 c p) (scale_graph c g); phase5 a5 (layer_spacing (scale_p4 c p)) g1)
            (map_res (scale_graph c) (do g1 <- phase4 a4 p g; phase5 a5 (layer_spacing p) g1)).
Proof. exact phase45_scale. Qed.
Print Assumptions C17_positioning_then_routing.

Theorem C17_sink_coloring : forall c s g, 0 < c ->
  res_equiv (exec_sink_coloring (c * s) (scale_graph c g)) (map_res (scale_graph c) (exec_sink_coloring s g)).
Proof. exact exec_sink_coloring_scale. Qed.
Print Assumptions C17_sink_coloring.

(* the network-simplex positioner is NOT scale-equivariant (it rounds separations up to integers); the property
   does not list it *)
Theorem C17_ns_positioner_refuted :
  ~ res_equiv (phase4 NsPositioner (scale_p4 (1#4) pN) (scale_graph (1#4) gN))
              (map_res (scale_graph (1#4)) (phase4 NsPositioner pN gN)).
Proof. exact ns_positioner_not_equivariant. Qed.
Print Assumptions C17_ns_positioner_refuted.

(* Brandes-Koepf, all four forced layouts and the balanced one *)
Theorem C17_brandes_koepf : forall c variant p g, 0 < c ->
  res_equiv (phase4_bk variant (scale_p4 c p) (scale_graph c g)) (map_res (scale_graph c) (phase4_bk variant p g)).
Proof. exact phase4_bk_scale. Qed.
Print Assumptions C17_brandes_koepf.

(* Brandes-Koepf followed by routing *)
Theorem C17_brandes_koepf_then_routing : forall c variant a5 p g, 0 < c ->
  (forall g1, phase4_bk variant p g = Ok g1 -> needs_no_flat a5 = true -> routes_not_flat g1) ->
  res_equiv (do g1 <- phase4_bk variant (scale_p4 c p) (scale_graph c g); phase5 a5 (layer_spacing (scale_p4 c p)) g1)
            (map_res (scale_graph c) (do g1 <- phase4_bk variant p g; phase5 a5 (layer_spacing p) g1)).
Proof.
  intros c variant a5 p g Hc NF. apply res_rel_iff.
  pose proof (@phase4_bk_rel c variant p (scale_p4 c p) g (scale_graph c g) Hc (graph_rel_scale c g)) as H4.
  cbn [scale_p4 node_spacing layer_spacing] in H4. specialize (H4 (Qeq_refl _) (Qeq_refl _)).
  destruct (phase4_bk variant p g) as [g1|er], (phase4_bk variant (scale_p4 c p) (scale_graph c g)) as [g1'|er'];
    cbn in H4; try contradiction; cbn [bind]; auto.
  apply phase5_rel; auto. cbn. reflexivity.
Qed.
Print Assumptions C17_brandes_koepf_then_routing.

(* ---------- the WHOLE Layout, from the raw edge list (Proofs/ScaleLayout*.v): multiplying NodeSpacing, LayerSpacing, the fixed
   size and every entry of the size map by c > 0 gives the same identifiers and crossing numbers, every output coordinate, size and
   route point multiplied by c, every discrete field (edge ends, arrow flag, which nodes exist) unchanged — or the same error.
   For every positioner but the NetworkSimplex one (Brandes-Koepf with any forced layout included), every router of the model,
   both orderings; no hypothesis on the identifiers, the graph or the other options. That flat routes (whose polyline/ortho shape
   uses absolute constants) do not occur is PROVED of the pipeline state (ScaleLayout4.pipeline_not_flat), not assumed. ---------- *)
From Autog Require Import Layout Pipeline PipelineBK PipelineNoop E2EBridge ScaleLayout5 ScaleLayout6 ScaleLayout7.
Local Open Scope Q_scope.

Theorem C17_layout_scale : forall (A : Type) (eqA : A -> A -> bool) c bk o fixed sizes es,
  0 < c -> o_p4 o <> NsPositioner ->
  out_rel c (layout_x A eqA bk o fixed sizes es)
            (layout_x A eqA bk (scale_options c o) (scale_fixed c fixed) (scale_sizes A c sizes) es).
Proof. exact layout_x_scale_all. Qed.
Print Assumptions C17_layout_scale.

Theorem C17_layout_scale_noop_ordering : forall (A : Type) (eqA : A -> A -> bool) c bk o fixed sizes es,
  0 < c -> o_p4 o <> NsPositioner ->
  out_rel c (layout_n A eqA bk o fixed sizes es)
            (layout_n A eqA bk (scale_options c o) (scale_fixed c fixed) (scale_sizes A c sizes) es).
Proof. exact layout_n_scale_all. Qed.
Print Assumptions C17_layout_scale_noop_ordering.

(* not vacuous: a two-component input with a long edge, a self loop and heterogeneous sizes, Brandes-Koepf + Ortho, c = 1/8: both
   sides are Ok (ScaleLayout7.ex_bk_ortho_8th_ok) and related; and the exclusion of the NetworkSimplex positioner is necessary for the
   whole Layout too *)
Example C17_layout_scale_instance :
  out_rel (1#8) (ex_plain (-1) (ex_o DepthFirst NetworkSimplex OtherPositioner Ortho))
                (ex_run (1#8) (-1) (ex_o DepthFirst NetworkSimplex OtherPositioner Ortho)).
Proof. exact ex_thm. Qed.
Example C17_layout_ns_positioner_refuted :
  out_relb (1#8) (ex_plain 0 (ex_o DepthFirst LongestPath NsPositioner Straight))
                 (ex_run (1#8) 0 (ex_o DepthFirst LongestPath NsPositioner Straight)) = false.
Proof. exact ex_ns_positioner_refuted. Qed.
